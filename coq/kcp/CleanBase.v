(* Helpers for Clean.v (C18, clean-path half).  All names prefixed cl_.
   1. exact stage tracking: the list of segments a flush has written, in order;
   2. flush_seg / flush_segs: which segments are (re)transmitted and why;
   3. admission;
   4. flush as a whole;
   5. the acknowledgement bookkeeping of Input: what it does to snd_buf. *)
From Coq Require Import ZArith List Bool Lia.
From KV.Base Require Import Consts Word WordLemmas.
From KV.Kcp Require Import Kcp Step Net InvBase InvInputBase InvInput InvFlushBase InvFlush InvAll LiveBase.
Import ListNotations.
Local Open Scope Z_scope.

Ltac Zify.zify_post_hook ::= Z.div_mod_to_equations.

(* ------------------------------------------------------------------ *)
(* 1. exact stage tracking                                             *)
(* ------------------------------------------------------------------ *)
Definition cl_enc (g : list seg) : bytes := concat (map encode_seg g).

(* the stage holds exactly the segments W, in order, cut into datagrams *)
Definition cl_rep (st : stage) (W : list seg) : Prop :=
  exists gs cg, cur st = cl_enc cg /\ outs st = map cl_enc gs /\ W = concat (rev gs) ++ cg.

(* the datagrams o are exactly the segments W, in order, cut into groups *)
Definition cl_wire (o : list bytes) (W : list seg) : Prop :=
  exists gs, o = map cl_enc gs /\ concat gs = W.

Lemma cl_rep0 : cl_rep (mkStage [] []) [].
Proof. exists [], []. repeat split. Qed.

Lemma cl_rep_space k st sp W : cl_rep st W -> cl_rep (make_space k st sp) W.
Proof.
  intros (gs & cg & Hc & Ho & HW). unfold make_space.
  destruct (blen (cur st) + sp >? mtu k); [|exists gs, cg; auto].
  exists (cg :: gs), []. cbn [cur outs map rev]. split; [reflexivity|].
  split; [rewrite Hc, Ho; reflexivity|].
  rewrite concat_app. cbn [concat]. rewrite !app_nil_r. exact HW.
Qed.

Lemma cl_rep_write k st s st' W : cl_rep st W -> stage_write k st s = Ok st' -> cl_rep st' (W ++ [s]).
Proof.
  intros (gs & cg & Hc & Ho & HW) Hw. unfold stage_write in Hw.
  destruct (blen (cur st) + c_IKCP_OVERHEAD + blen (s_data s) >? buflen k); [discriminate|].
  inversion Hw; subst st'. exists gs, (cg ++ [s]). cbn [cur outs].
  split.
  - unfold cl_enc. rewrite map_app, concat_app. cbn [map concat]. rewrite app_nil_r, Hc. reflexivity.
  - split; [exact Ho|]. rewrite HW, app_assoc. reflexivity.
Qed.

Lemma cl_enc_nil_inv g : blen (cl_enc g) <= 0 -> g = [].
Proof.
  destruct g as [|s t]; [reflexivity|]. unfold cl_enc. cbn [map concat]. rewrite blen_app, lv_encode_len.
  pose proof (blen_nonneg (s_data s)). pose proof (blen_nonneg (concat (map encode_seg t))).
  unfold c_IKCP_OVERHEAD. lia.
Qed.

Lemma cl_rep_buffer st W : cl_rep st W -> cl_wire (flush_buffer st) W.
Proof.
  intros (gs & cg & Hc & Ho & HW). unfold flush_buffer.
  destruct (blen (cur st) >? 0) eqn:E; lv_b2z.
  - exists (rev gs ++ [cg]). split.
    + cbn [rev]. rewrite Hc, Ho, map_app, map_rev. reflexivity.
    + rewrite concat_app. cbn [concat]. rewrite app_nil_r. symmetry. exact HW.
  - rewrite Hc in E. apply cl_enc_nil_inv in E. subst cg.
    exists (rev gs). split; [rewrite Ho, map_rev; reflexivity|]. rewrite HW, app_nil_r. reflexivity.
Qed.

(* ------------------------------------------------------------------ *)
(* 2. phase 5: one segment                                             *)
(* ------------------------------------------------------------------ *)
(* the three causes of a REtransmission *)
Definition cl_fast (resent : Z) (s : seg) : Prop := s_fastack s >= resent /\ s_fastack s <> 4294967295.
Definition cl_early (newsegs : Z) (s : seg) : Prop :=
  s_fastack s > 0 /\ s_fastack s <> 4294967295 /\ newsegs = 0.
Definition cl_timeout (now : Z) (s : seg) : Prop := itimediff now (s_resendts s) >= 0.

Definition cl_cause (resent newsegs now : Z) (s : seg) : Prop :=
  cl_timeout now s \/ cl_fast resent s \/ cl_early newsegs s.

(* the outcome of flush_seg: s' is the new buffer entry; sent says whether s' went to the wire *)
Definition cl_step (rxrto nd resent newsegs now : Z) (h s s' : seg) (sent : bool) : Prop :=
  if sent then
    s_acked s <> 1 /\
    exists rto fa, s' = lv_sent h now s rto (u32 (now + rto)) fa /\
      ((s_xmit s = 0 /\ rto = rxrto /\ fa = s_fastack s) \/
       (s_xmit s <> 0 /\ (cl_fast resent s \/ cl_early newsegs s) /\ rto = rxrto /\ fa = 4294967295) \/
       (s_xmit s <> 0 /\ ~ cl_fast resent s /\ ~ cl_early newsegs s /\ cl_timeout now s /\
        rto = (if nd =? 0 then u32 (s_rto s + rxrto) else u32 (s_rto s + rxrto / 2)) /\ fa = 0))
  else s' = s /\ (s_acked s = 1 \/ (s_xmit s <> 0 /\ ~ cl_cause resent newsegs now s)).

Lemma cl_kept_id s : lv_kept s (s_rto s) (s_resendts s) (s_fastack s) = s.
Proof. destruct s; reflexivity. Qed.

Lemma cl_flush_seg_spec k h resent newsegs now s a s' a' :
  flush_seg k h resent newsegs now s a = Ok (s', a') ->
  exists sent, cl_step (rx_rto k) (nodelay k) resent newsegs now h s s' sent /\
    (if sent
     then stage_write k (make_space k (f_st a) (c_IKCP_OVERHEAD + blen (s_data s))) s' = Ok (f_st a')
     else f_st a' = f_st a).
Proof.
  rewrite lv_flush_seg_unfold. intros H.
  destruct (s_acked s =? 1) eqn:Ea; lv_b2z.
  { inversion H; subst s' a'. exists false. split; [|reflexivity]. split; [reflexivity|left; exact Ea]. }
  unfold lv_decide in H.
  destruct (s_xmit s =? 0) eqn:E0; lv_b2z.
  { destruct (stage_write k _ _) as [st2|w] eqn:Ew; [|discriminate].
    unfold lv_finish in H. inversion H; subst s' a'. exists true. cbn [f_st]. split; [|exact Ew].
    split; [exact Ea|]. do 2 eexists. split; [reflexivity|]. left. auto. }
  destruct ((s_fastack s >=? resent) && negb (s_fastack s =? 4294967295)) eqn:E1.
  { apply andb_true_iff in E1. destruct E1 as (E1 & E1'). apply negb_true_iff in E1'. lv_b2z.
    cbn [f_st] in H.
    destruct (stage_write k _ _) as [st2|w] eqn:Ew; [|discriminate].
    unfold lv_finish in H. inversion H; subst s' a'. exists true. cbn [f_st]. split; [|exact Ew].
    split; [exact Ea|]. do 2 eexists. split; [reflexivity|]. right; left.
    split; [exact E0|]. split; [left; split; [lia|exact E1']|]. auto. }
  destruct ((s_fastack s >? 0) && negb (s_fastack s =? 4294967295) && (newsegs =? 0)) eqn:E2.
  { apply andb_true_iff in E2. destruct E2 as (E2 & E2c). apply andb_true_iff in E2. destruct E2 as (E2a & E2b).
    apply negb_true_iff in E2b. lv_b2z. cbn [f_st] in H.
    destruct (stage_write k _ _) as [st2|w] eqn:Ew; [|discriminate].
    unfold lv_finish in H. inversion H; subst s' a'. exists true. cbn [f_st]. split; [|exact Ew].
    split; [exact Ea|]. do 2 eexists. split; [reflexivity|]. right; left.
    split; [exact E0|]. split; [right; split; [lia|split; [exact E2b|exact E2c]]|]. auto. }
  assert (N1 : ~ cl_fast resent s).
  { intros (F1 & F2). apply andb_false_iff in E1. destruct E1 as [E1|E1].
    - lv_b2z. lia.
    - apply negb_false_iff in E1. lv_b2z. contradiction. }
  assert (N2 : ~ cl_early newsegs s).
  { intros (F1 & F2 & F3). apply andb_false_iff in E2. destruct E2 as [E2|E2].
    - apply andb_false_iff in E2. destruct E2 as [E2|E2].
      + lv_b2z. lia.
      + apply negb_false_iff in E2. lv_b2z. contradiction.
    - lv_b2z. contradiction. }
  destruct (itimediff now (s_resendts s) >=? 0) eqn:E3; lv_b2z.
  { cbv zeta in H. cbn [f_st] in H.
    destruct (stage_write k _ _) as [st2|w] eqn:Ew; [|discriminate].
    unfold lv_finish in H. inversion H; subst s' a'. exists true. cbn [f_st]. split; [|exact Ew].
    split; [exact Ea|]. do 2 eexists. split; [reflexivity|]. right; right.
    split; [exact E0|]. split; [exact N1|]. split; [exact N2|]. split; [unfold cl_timeout; lia|]. auto. }
  unfold lv_finish in H. inversion H; subst s' a'. exists false. cbn [f_st]. split; [|reflexivity].
  split; [apply cl_kept_id|]. right. split; [exact E0|].
  intros [C|[C|C]]; [unfold cl_timeout in C; lia|exact (N1 C)|exact (N2 C)].
Qed.

(* ---- the whole buffer: l -> l', Wp = the entries that went to the wire, in order ---- *)
Inductive cl_segs (R : seg -> seg -> bool -> Prop) : list seg -> list seg -> list seg -> Prop :=
| cl_segs_nil : cl_segs R [] [] []
| cl_segs_keep s s' t t' W : R s s' false -> cl_segs R t t' W -> cl_segs R (s :: t) (s' :: t') W
| cl_segs_send s s' t t' W : R s s' true -> cl_segs R t t' W -> cl_segs R (s :: t) (s' :: t') (s' :: W).

Lemma cl_segs_impl (R R' : seg -> seg -> bool -> Prop) l l' W :
  (forall s s' b, R s s' b -> R' s s' b) -> cl_segs R l l' W -> cl_segs R' l l' W.
Proof.
  intros HR H. induction H; [apply cl_segs_nil|apply cl_segs_keep; auto|apply cl_segs_send; auto].
Qed.

Lemma cl_segs_F2 R l l' W : cl_segs R l l' W -> Forall2 (fun s s' => exists b, R s s' b) l l'.
Proof. intros H. induction H; constructor; eauto. Qed.

Lemma cl_segs_incl R l l' W : cl_segs R l l' W -> incl W l'.
Proof.
  intros H. induction H as [|s s' t t' W Hr Ht IH|s s' t t' W Hr Ht IH].
  - intros x [].
  - intros x Hx. right. apply IH. exact Hx.
  - intros x [Hx|Hx]; [left; exact Hx|right; apply IH; exact Hx].
Qed.

Lemma cl_segs_nodup R (f : seg -> Z) l l' W :
  cl_segs R l l' W -> NoDup (map f l') -> NoDup (map f W).
Proof.
  intros H. induction H as [|s s' t t' W Hr Ht IH|s s' t t' W Hr Ht IH]; intros Hn.
  - constructor.
  - cbn [map] in Hn. inversion Hn; subst. apply IH. assumption.
  - cbn [map] in *. inversion Hn as [|x y Hni Hnd]; subst. constructor; [|apply IH; exact Hnd].
    intros Hin. apply Hni. apply in_map_iff in Hin. destruct Hin as (w & Hw & Hiw).
    apply in_map_iff. exists w. split; [exact Hw|]. exact (cl_segs_incl _ _ _ _ Ht w Hiw).
Qed.

Lemma cl_segs_sent R l l' W : cl_segs R l l' W ->
  forall w, In w W -> exists s, In s l /\ R s w true.
Proof.
  intros H. induction H as [|s s' t t' W Hr Ht IH|s s' t t' W Hr Ht IH]; intros w Hw.
  - destruct Hw.
  - destruct (IH w Hw) as (x & Hx & Hrx). exists x. split; [right; exact Hx|exact Hrx].
  - destruct Hw as [Hw|Hw].
    + subst w. exists s. split; [left; reflexivity|exact Hr].
    + destruct (IH w Hw) as (x & Hx & Hrx). exists x. split; [right; exact Hx|exact Hrx].
Qed.

Lemma cl_segs_app_inv R l1 : forall l2 l' W, cl_segs R (l1 ++ l2) l' W ->
  exists l1' l2' W1 W2, l' = l1' ++ l2' /\ W = W1 ++ W2 /\ cl_segs R l1 l1' W1 /\ cl_segs R l2 l2' W2.
Proof.
  induction l1 as [|s t IH]; intros l2 l' W H.
  - exists [], l', [], W. repeat split; [constructor|exact H].
  - cbn [app] in H. inversion H as [|a b c d e Hr Ht|a b c d e Hr Ht]; subst.
    + destruct (IH _ _ _ Ht) as (l1' & l2' & W1 & W2 & E1 & E2 & H1 & H2). subst.
      exists (b :: l1'), l2', W1, W2. repeat split; [apply cl_segs_keep; assumption|exact H2].
    + destruct (IH _ _ _ Ht) as (l1' & l2' & W1 & W2 & E1 & E2 & H1 & H2). subst.
      exists (b :: l1'), l2', (b :: W1), W2. repeat split; [apply cl_segs_send; assumption|exact H2].
Qed.

Lemma cl_flush_segs_spec k h resent newsegs now : forall l a l' a' W,
  flush_segs k h resent newsegs now l a = Ok (l', a') -> cl_rep (f_st a) W ->
  exists Wp, cl_segs (cl_step (rx_rto k) (nodelay k) resent newsegs now h) l l' Wp /\
             cl_rep (f_st a') (W ++ Wp).
Proof.
  induction l as [|s t IH]; intros a l' a' W H Hrep; cbn [flush_segs] in H.
  - inversion H; subst. exists []. split; [constructor|rewrite app_nil_r; exact Hrep].
  - destruct (flush_seg k h resent newsegs now s a) as [[s1 a1]|w] eqn:E1; [|discriminate].
    destruct (flush_segs k h resent newsegs now t a1) as [[t1 a2]|w] eqn:E2; [|discriminate].
    inversion H; subst l' a'. clear H.
    destruct (cl_flush_seg_spec _ _ _ _ _ _ _ _ _ E1) as (sent & Hstep & Hst).
    destruct sent.
    + pose proof (cl_rep_write _ _ _ _ _ (cl_rep_space k _ (c_IKCP_OVERHEAD + blen (s_data s)) _ Hrep) Hst) as Hrep1.
      destruct (IH _ _ _ _ E2 Hrep1) as (Wp & Hsegs & Hrep2).
      exists (s1 :: Wp). split; [apply cl_segs_send; assumption|].
      rewrite <- app_assoc in Hrep2. exact Hrep2.
    + rewrite <- Hst in Hrep. destruct (IH _ _ _ _ E2 Hrep) as (Wp & Hsegs & Hrep2).
      exists Wp. split; [apply cl_segs_keep; assumption|exact Hrep2].
Qed.

(* ------------------------------------------------------------------ *)
(* 3. phases 1, 3 (control segments) and 4 (admission)                 *)
(* ------------------------------------------------------------------ *)
Lemma cl_acks_rep k : forall al h st h' st' W,
  flush_acks k h st al = Ok (h', st') -> cl_rep st W ->
  s_cmd h' = s_cmd h /\ exists Wa, cl_rep st' (W ++ Wa) /\ Forall (fun w => s_cmd w = s_cmd h) Wa.
Proof.
  induction al as [|[sn ts] t IH]; intros h st h' st' W H Hrep; cbn [flush_acks] in H.
  - inversion H; subst. split; [reflexivity|]. exists []. split; [rewrite app_nil_r; exact Hrep|constructor].
  - pose proof (cl_rep_space k st c_IKCP_OVERHEAD W Hrep) as Hrep1.
    destruct ((itimediff sn (rcv_nxt k) >=? 0) || match t with [] => true | _ :: _ => false end).
    + set (h1 := mkSeg (s_conv h) (s_cmd h) (s_frg h) (s_wnd h) ts sn (s_una h) 0 0 0 0 0 []) in *.
      destruct (stage_write k (make_space k st c_IKCP_OVERHEAD) h1) as [st2|w] eqn:Ew; [|discriminate].
      pose proof (cl_rep_write _ _ _ _ _ Hrep1 Ew) as Hrep2.
      destruct (IH _ _ _ _ _ H Hrep2) as (Hc & Wa & Hrep3 & Hall).
      split; [exact Hc|]. exists (h1 :: Wa). rewrite <- app_assoc in Hrep3. split; [exact Hrep3|].
      constructor; [reflexivity|exact Hall].
    + exact (IH _ _ _ _ _ H Hrep1).
Qed.

Lemma cl_ph1_rep k ft h1 st1 k1 :
  lv_ph1 k ft = Ok (h1, st1, k1) ->
  s_cmd h1 = c_IKCP_CMD_ACK /\ exists Wa, cl_rep st1 Wa /\ Forall (fun w => s_cmd w = c_IKCP_CMD_ACK) Wa.
Proof.
  unfold lv_ph1. intros H. destruct ((ft =? FLUSH_ACKONLY) || (ft =? FLUSH_FULL)).
  - destruct (flush_acks k (lv_h0 k) (mkStage [] []) (acklist k)) as [[h st]|w] eqn:Ef; [|discriminate].
    inversion H; subst h st k1.
    destruct (cl_acks_rep _ _ _ _ _ _ _ Ef cl_rep0) as (Hc & Wa & Hrep & Hall).
    split; [exact Hc|]. exists Wa. split; [exact Hrep|exact Hall].
  - inversion H; subst. split; [reflexivity|]. exists []. split; [exact cl_rep0|constructor].
Qed.

Lemma cl_ph3_rep k2 h1 st flag c st' W :
  lv_ph3 k2 h1 st flag c = Ok st' -> cl_rep st W ->
  exists Wc, cl_rep st' (W ++ Wc) /\ Forall (fun w => s_cmd w = c) Wc.
Proof.
  unfold lv_ph3. intros H Hrep. destruct (negb (Z.land (probe k2) flag =? 0)).
  - pose proof (cl_rep_write _ _ _ _ _ (cl_rep_space k2 st c_IKCP_OVERHEAD W Hrep) H) as Hrep1.
    exists [lv_hdr h1 c]. split; [exact Hrep1|]. constructor; [reflexivity|constructor].
  - inversion H; subst. exists []. split; [rewrite app_nil_r; exact Hrep|constructor].
Qed.

(* what admission does to a queued segment *)
Definition cl_adm (s s' : seg) : Prop :=
  s_xmit s' = s_xmit s /\ s_fastack s' = s_fastack s /\ s_acked s' = s_acked s /\
  s_ts s' = s_ts s /\ s_rto s' = s_rto s /\ s_resendts s' = s_resendts s /\ s_cmd s' = c_IKCP_CMD_PUSH.

Lemma cl_admit_spec cv una cw : forall sq sb nxt n sq' sb' nxt' n',
  admit_segs sq sb cv una nxt cw n = (sq', sb', nxt', n') ->
  exists pre adm, sq = pre ++ sq' /\ sb' = sb ++ adm /\ n' = n + qlen adm /\ Forall2 cl_adm pre adm.
Proof.
  induction sq as [|s t IH]; intros sb nxt n sq' sb' nxt' n' H; cbn [admit_segs] in H.
  - inversion H; subst. exists [], []. rewrite qlen_nil.
      split; [reflexivity|]. split; [symmetry; apply app_nil_r|]. split; [lia|constructor].
  - destruct (itimediff nxt (u32 (una + cw)) >=? 0).
    + inversion H; subst. exists [], []. rewrite qlen_nil.
      split; [reflexivity|]. split; [symmetry; apply app_nil_r|]. split; [lia|constructor].
    + destruct (IH _ _ _ _ _ _ _ H) as (pre & adm & E1 & E2 & E3 & F).
      eexists (s :: pre), (_ :: adm). split; [cbn [app]; rewrite E1; reflexivity|].
      split; [rewrite E2, <- app_assoc; reflexivity|].
      split; [rewrite qlen_cons; lia|].
      constructor; [|exact F]. unfold cl_adm. lv_segf. repeat split.
Qed.

Lemma cl_ph4_spec k ft sq sb nxt ns :
  lv_ph4 k ft = (sq, sb, nxt, ns) ->
  exists pre adm, snd_queue k = pre ++ sq /\ sb = snd_buf k ++ adm /\ ns = qlen adm /\
    Forall2 cl_adm pre adm /\ (ft <> FLUSH_FULL -> adm = []).
Proof.
  unfold lv_ph4. destruct (ft =? FLUSH_FULL) eqn:E; lv_b2z; intros H.
  - destruct (cl_admit_spec _ _ _ _ _ _ _ _ _ _ _ H) as (pre & adm & E1 & E2 & E3 & F).
    exists pre, adm. split; [exact E1|]. split; [exact E2|]. split; [lia|]. split; [exact F|].
    intros Hn; contradiction.
  - inversion H; subst. exists [], [].
    split; [reflexivity|]. split; [symmetry; apply app_nil_r|]. split; [reflexivity|]. split; [constructor|]. intros _; reflexivity.
Qed.

(* ------------------------------------------------------------------ *)
(* 4. flush as a whole                                                 *)
(* ------------------------------------------------------------------ *)
Lemma cl_ph5_spec k4 h1 ft ns now st3 sb' a W :
  lv_ph5 k4 h1 ft ns now st3 = Ok (sb', a) -> cl_rep st3 W ->
  exists Wp, cl_rep (f_st a) (W ++ Wp) /\
    (ft = FLUSH_FULL ->
       cl_segs (cl_step (rx_rto k4) (nodelay k4) (lv_resent k4) ns now h1) (snd_buf k4) sb' Wp) /\
    (ft <> FLUSH_FULL -> sb' = snd_buf k4 /\ Wp = []).
Proof.
  unfold lv_ph5. cbv zeta. intros H Hrep. destruct (ft =? FLUSH_FULL) eqn:E; lv_b2z.
  - destruct (cl_flush_segs_spec _ _ _ _ _ _ _ _ _ _ H Hrep) as (Wp & Hs & Hr).
    exists Wp. split; [exact Hr|]. split; [intros _; exact Hs|intros Hn; contradiction].
  - inversion H; subst sb' a. exists []. cbn [f_st]. rewrite app_nil_r. split; [exact Hrep|].
    split; [intros Hf; contradiction|intros _; split; reflexivity].
Qed.

Lemma cl_flush_spec k ft now k' nx o :
  flush k ft now = Ok (k', nx, o) ->
  exists h1 sq sb nxt ns Wc Wp,
    lv_ph4 k ft = (sq, sb, nxt, ns) /\
    (ft = FLUSH_FULL ->
       cl_segs (cl_step (rx_rto k) (nodelay k) (lv_resent k) ns now h1) sb (snd_buf k') Wp) /\
    (ft <> FLUSH_FULL -> snd_buf k' = sb /\ Wp = []) /\
    cl_wire o (Wc ++ Wp) /\ Forall (fun w => s_cmd w <> c_IKCP_CMD_PUSH) Wc /\
    snd_queue k' = sq /\ snd_nxt k' = nxt /\ snd_una k' = snd_una k /\
    fastresend k' = fastresend k /\ rx_minrto k' = rx_minrto k /\ rx_rto k' = rx_rto k /\
    nodelay k' = nodelay k.
Proof.
  intros H.
  destruct (lv_invert _ _ _ _ _ _ H)
    as (h1 & st1 & k1 & st2 & st3 & sq & sb & nxt & ns & sb' & a & E1 & E2 & E3 & E4 & E5 & Ek & Enx & Eo).
  destruct (cl_ph1_rep _ _ _ _ _ E1) as (Hh1 & Wa & Hrep1 & Hwa).
  destruct (lv_ph1_shape _ _ _ _ _ E1) as (al & Hk1 & _). subst k1.
  rewrite lv_ph2_acklist in *.
  destruct (cl_ph3_rep _ _ _ _ _ _ _ E2 Hrep1) as (W2 & Hrep2 & Hw2).
  destruct (cl_ph3_rep _ _ _ _ _ _ _ E3 Hrep2) as (W3 & Hrep3 & Hw3).
  destruct (cl_ph5_spec _ _ _ _ _ _ _ _ _ E5 Hrep3) as (Wp & Hrep5 & Hfull & Hnot).
  destruct (lv_ph6_shape (lv_k5 (lv_k4 (set_probe_flags (set_acklist (lv_ph2 k now) al) 0) sq sb nxt) sb' a) a
              (lv_cw (set_probe_flags (set_acklist (lv_ph2 k now) al) 0))
              (lv_resent (lv_k4 (set_probe_flags (set_acklist (lv_ph2 k now) al) 0) sq sb nxt)))
    as (sst & cwn & inc & E6).
  rewrite E6 in Ek. clear E6.
  destruct (lv_k5_shape (lv_k4 (set_probe_flags (set_acklist (lv_ph2 k now) al) 0) sq sb nxt) sb' a) as (stt & E5').
  rewrite E5' in Ek. clear E5'. unfold lv_k4 in Ek.
  destruct (lv_ph2_shape k now) as (pp & ptsp & ppw & Eph2).
  assert (Esb : snd_buf k' = sb') by (subst k'; reflexivity).
  exists h1, sq, sb, nxt, ns, ((Wa ++ W2) ++ W3), Wp.
  split.
  { rewrite <- E4. symmetry. apply lv_ph4_frame; rewrite Eph2; reflexivity. }
  split.
  { intros Hf. specialize (Hfull Hf). rewrite Esb.
    set (k4 := lv_k4 (set_probe_flags (set_acklist (lv_ph2 k now) al) 0) sq sb nxt) in *.
    assert (F1 : rx_rto k4 = rx_rto k) by (unfold k4; rewrite Eph2; reflexivity).
    assert (F2 : nodelay k4 = nodelay k) by (unfold k4; rewrite Eph2; reflexivity).
    assert (F3 : lv_resent k4 = lv_resent k) by (unfold k4, lv_resent; rewrite Eph2; reflexivity).
    assert (F4 : snd_buf k4 = sb) by reflexivity.
    rewrite F1, F2, F3, F4 in Hfull. exact Hfull. }
  split.
  { intros Hn. destruct (Hnot Hn) as (Hs & Hw). split; [|exact Hw]. rewrite Esb, Hs. reflexivity. }
  split.
  { subst o. apply cl_rep_buffer. exact Hrep5. }
  split.
  { apply Forall_app. split; [apply Forall_app; split|].
    - eapply Forall_impl; [|exact Hwa]. intros w Hw. rewrite Hw. discriminate.
    - eapply Forall_impl; [|exact Hw2]. intros w Hw. rewrite Hw. discriminate.
    - eapply Forall_impl; [|exact Hw3]. intros w Hw. rewrite Hw. discriminate. }
  subst k'. rewrite Eph2. ksimpl. repeat split; reflexivity.
Qed.

(* ------------------------------------------------------------------ *)
(* 5. Input: what the acknowledgement bookkeeping does to snd_buf      *)
(* ------------------------------------------------------------------ *)
(* s' is s, possibly marked acknowledged: the timer fields and the counters are untouched *)
Definition cl_hk (s s' : seg) : Prop :=
  s_sn s' = s_sn s /\ s_ts s' = s_ts s /\ s_rto s' = s_rto s /\ s_xmit s' = s_xmit s /\
  s_resendts s' = s_resendts s /\ s_fastack s' = s_fastack s /\
  (s_acked s' = s_acked s \/ s_acked s' = 1).

(* every entry of l' is an entry of l, possibly marked acknowledged *)
Definition cl_sub (l l' : list seg) : Prop := forall s', In s' l' -> exists s, In s l /\ cl_hk s s'.

(* the fields the clean-path invariant reads besides snd_buf *)
Definition cl_fr (k k' : kcp) : Prop :=
  snd_queue k' = snd_queue k /\ fastresend k' = fastresend k /\ rx_minrto k' = rx_minrto k.

Definition cl_pre (k k' : kcp) : Prop := cl_sub (snd_buf k) (snd_buf k') /\ cl_fr k k'.

Lemma cl_hk_refl s : cl_hk s s.
Proof. unfold cl_hk. auto 10. Qed.

Lemma cl_hk_trans a b c : cl_hk a b -> cl_hk b c -> cl_hk a c.
Proof.
  unfold cl_hk. intros (A1 & A2 & A3 & A4 & A5 & A6 & A7) (B1 & B2 & B3 & B4 & B5 & B6 & B7).
  repeat (split; [congruence|]). destruct B7 as [B7|B7]; [|right; exact B7].
  destruct A7 as [A7|A7]; [left|right]; congruence.
Qed.

Lemma cl_sub_refl l : cl_sub l l.
Proof. intros s Hs. exists s. split; [exact Hs|apply cl_hk_refl]. Qed.

Lemma cl_sub_trans l1 l2 l3 : cl_sub l1 l2 -> cl_sub l2 l3 -> cl_sub l1 l3.
Proof.
  intros H1 H2 s3 Hs3. destruct (H2 s3 Hs3) as (s2 & Hs2 & Hk2). destruct (H1 s2 Hs2) as (s1 & Hs1 & Hk1).
  exists s1. split; [exact Hs1|eapply cl_hk_trans; eassumption].
Qed.

Lemma cl_sub_incl l l' : incl l' l -> cl_sub l l'.
Proof. intros H s Hs. exists s. split; [apply H; exact Hs|apply cl_hk_refl]. Qed.

Lemma cl_fr_refl k : cl_fr k k.
Proof. unfold cl_fr. auto. Qed.

Lemma cl_fr_trans k1 k2 k3 : cl_fr k1 k2 -> cl_fr k2 k3 -> cl_fr k1 k3.
Proof. unfold cl_fr. intuition congruence. Qed.

Lemma cl_pre_refl k : cl_pre k k.
Proof. split; [apply cl_sub_refl|apply cl_fr_refl]. Qed.

Lemma cl_pre_trans k1 k2 k3 : cl_pre k1 k2 -> cl_pre k2 k3 -> cl_pre k1 k3.
Proof. intros (A & B) (C & D). split; [eapply cl_sub_trans; eassumption|eapply cl_fr_trans; eassumption]. Qed.

Lemma cl_pre_frame k k' :
  snd_buf k' = snd_buf k -> snd_queue k' = snd_queue k -> fastresend k' = fastresend k ->
  rx_minrto k' = rx_minrto k -> cl_pre k k'.
Proof. intros E1 E2 E3 E4. split; [rewrite E1; apply cl_sub_refl|repeat split; assumption]. Qed.

Lemma cl_pre_snd_buf k l : cl_sub (snd_buf k) l -> cl_pre k (set_snd_buf k l).
Proof. intros H. split; [exact H|repeat split]. Qed.

(* ---- the walks ---- *)
Lemma cl_una_walk_incl una : forall l, incl (fst (una_walk una l)) l.
Proof.
  induction l as [|s t IH]; cbn [una_walk]; [intros x Hx; exact Hx|].
  destruct (itimediff una (s_sn s) >? 0).
  - destruct (una_walk una t) as [r c]. cbn [fst] in *. intros x Hx. right. apply IH. exact Hx.
  - intros x Hx. exact Hx.
Qed.

Lemma cl_drop_acked_incl : forall l, incl (drop_acked l) l.
Proof.
  induction l as [|s t IH]; cbn [drop_acked]; [intros x Hx; exact Hx|].
  destruct (s_acked s =? 0); [intros x Hx; exact Hx|]. intros x Hx. right. apply IH. exact Hx.
Qed.

Lemma cl_drop_acked_head : forall l, match drop_acked l with s :: _ => s_acked s = 0 | [] => True end.
Proof.
  induction l as [|s t IH]; cbn [drop_acked]; [exact I|].
  destruct (s_acked s =? 0) eqn:E; [lv_b2z; exact E|exact IH].
Qed.

Lemma cl_ack_walk_sub sn : forall l, cl_sub l (ack_walk sn l).
Proof.
  induction l as [|s t IH]; cbn [ack_walk]; [apply cl_sub_refl|].
  destruct (sn =? s_sn s).
  - intros x [Hx|Hx].
    + exists s. split; [left; reflexivity|]. subst x. unfold cl_hk. lv_segf. auto 10.
    + exists x. split; [right; exact Hx|apply cl_hk_refl].
  - destruct (itimediff sn (s_sn s) <? 0); [apply cl_sub_refl|].
    intros x [Hx|Hx].
    + exists s. split; [left; reflexivity|subst x; apply cl_hk_refl].
    + destruct (IH x Hx) as (y & Hy & Hk). exists y. split; [right; exact Hy|exact Hk].
Qed.

Lemma cl_ack_walk_nil sn l : l = [] -> ack_walk sn l = [].
Proof. intros E; subst; reflexivity. Qed.

(* C18: the only place where a fast-acknowledgement counter grows *)
Definition cl_fa_step (sn ts : Z) (s s' : seg) : Prop :=
  s' = s \/
  (s' = set_seg_fastack s (u32 (s_fastack s + 1)) /\ itimediff sn (s_sn s) >= 0 /\ sn <> s_sn s /\
   itimediff (s_ts s) ts <= 0 /\ s_fastack s <> 4294967295).

Lemma cl_fa_step_refl_list sn ts l : Forall2 (cl_fa_step sn ts) l l.
Proof. induction l; constructor; [left; reflexivity|assumption]. Qed.

Lemma cl_fastack_walk_causes sn ts fr : forall l,
  Forall2 (cl_fa_step sn ts) l (fst (fastack_walk sn ts fr l)).
Proof.
  induction l as [|s t IH]; cbn [fastack_walk]; [constructor|].
  destruct (itimediff sn (s_sn s) <? 0) eqn:E1; [apply cl_fa_step_refl_list|]. lv_b2z.
  destruct (fastack_walk sn ts fr t) as [t' f]. cbn [fst] in IH.
  destruct (negb (sn =? s_sn s) && (itimediff (s_ts s) ts <=? 0)) eqn:E2.
  - apply andb_true_iff in E2. destruct E2 as (E2 & E3). apply negb_true_iff in E2. lv_b2z.
    destruct (s_fastack s =? 4294967295) eqn:E4; lv_b2z; cbn [fst].
    + constructor; [left; reflexivity|exact IH].
    + constructor; [|exact IH]. right. repeat split; try assumption. lia.
  - cbn [fst]. constructor; [left; reflexivity|exact IH].
Qed.

Lemma cl_F2_id (R : seg -> seg -> Prop) l l' :
  Forall2 R l l' -> (forall s s', In s l -> R s s' -> s' = s) -> l' = l.
Proof.
  intros H. induction H as [|s s' t t' Hr Ht IH]; intros Hid; [reflexivity|].
  rewrite (Hid s s' (or_introl eq_refl) Hr). f_equal. apply IH.
  intros x x' Hx. apply Hid. right; exact Hx.
Qed.

(* ---- contiguity ---- *)
Lemma cl_contig_in : forall l b s, is_u32 b -> contiguous b l -> In s l ->
  exists i, 0 <= i < qlen l /\ s_sn s = u32 (b + i).
Proof.
  induction l as [|e t IH]; intros b s Hb Hc Hin; [destruct Hin|].
  cbn [contiguous] in Hc. destruct Hc as (He & Ht). rewrite qlen_cons. pose proof (qlen_nonneg t).
  destruct Hin as [Hin|Hin].
  - subst e. exists 0. split; [lia|]. rewrite Z.add_0_r, u32_id by exact Hb. exact He.
  - destruct (IH _ _ (u32_range _) Ht Hin) as (i & Hi & Hs). exists (1 + i). split; [lia|].
    rewrite Hs, u32_add_mod. f_equal. lia.
Qed.

Lemma cl_contig_nodup : forall l b, is_u32 b -> contiguous b l -> qlen l < W32 -> NoDup (map s_sn l).
Proof.
  induction l as [|e t IH]; intros b Hb Hc Hq; [constructor|].
  cbn [contiguous] in Hc. destruct Hc as (He & Ht). rewrite qlen_cons in Hq. cbn [map].
  constructor; [|apply (IH (u32 (b + 1))); [apply u32_range|exact Ht|lia]].
  intros Hin. apply in_map_iff in Hin. destruct Hin as (x & Hx & Hxi).
  destruct (cl_contig_in _ _ _ (u32_range _) Ht Hxi) as (i & Hi & Hs).
  rewrite Hs, u32_add_mod, He in Hx. unfold is_u32, u32, W32 in *. lia.
Qed.

(* ---- the acknowledgements the sender processes are in order ---- *)
(* no entry with a smaller number than sn is still unacknowledged *)
Definition cl_in_order (k : kcp) (sn : Z) : Prop :=
  Forall (fun e => itimediff sn (s_sn e) > 0 -> s_acked e = 1) (snd_buf k).

Lemma cl_fr_parse_fastack k sn ts : cl_fr k (fst (parse_fastack k sn ts)).
Proof.
  unfold parse_fastack.
  destruct ((itimediff sn (snd_una k) <? 0) || (itimediff sn (snd_nxt k) >=? 0)); [apply cl_fr_refl|].
  destruct (fastack_walk sn ts (fastresend k) (snd_buf k)) as [l f]. repeat split.
Qed.

(* an acknowledgement for the oldest outstanding number (or an older one) moves no counter *)
Lemma cl_parse_fastack_id k sn ts :
  is_u32 (snd_una k) -> contiguous (snd_una k) (snd_buf k) -> qlen (snd_buf k) < H32 -> is_u32 sn ->
  snd_buf k = [] \/ itimediff sn (snd_una k) <= 0 ->
  snd_buf (fst (parse_fastack k sn ts)) = snd_buf k.
Proof.
  intros Hu Hc Hq Hsn Hord. unfold parse_fastack.
  destruct ((itimediff sn (snd_una k) <? 0) || (itimediff sn (snd_nxt k) >=? 0)) eqn:Eg; [reflexivity|].
  apply orb_false_iff in Eg. destruct Eg as (Eg1 & Eg2). lv_b2z.
  pose proof (cl_fastack_walk_causes sn ts (fastresend k) (snd_buf k)) as Hw.
  destruct (fastack_walk sn ts (fastresend k) (snd_buf k)) as [l f]. cbn [fst] in *. ksimpl.
  apply (cl_F2_id _ _ _ Hw). intros s s' Hin [Hs|(_ & Hge & Hne & _)]; [exact Hs|exfalso].
  destruct Hord as [Hnil|Hle]; [rewrite Hnil in Hin; destruct Hin|].
  destruct (cl_contig_in _ _ _ Hu Hc Hin) as (i & Hi & Hs). rewrite Hs in Hge, Hne.
  unfold is_u32, itimediff, i32, u32, W32, H32 in *. lia.
Qed.

Lemma cl_parse_ack_una k sn : snd_una (parse_ack k sn) = snd_una k.
Proof.
  unfold parse_ack. destruct ((itimediff sn (snd_una k) <? 0) || (itimediff sn (snd_nxt k) >=? 0)); reflexivity.
Qed.

Lemma cl_pre_parse_ack k sn : cl_pre k (parse_ack k sn).
Proof.
  unfold parse_ack. destruct ((itimediff sn (snd_una k) <? 0) || (itimediff sn (snd_nxt k) >=? 0));
    [apply cl_pre_refl|]. apply cl_pre_snd_buf, cl_ack_walk_sub.
Qed.

Lemma cl_parse_ack_nil k sn : snd_buf k = [] -> snd_buf (parse_ack k sn) = [].
Proof.
  intros E. unfold parse_ack.
  destruct ((itimediff sn (snd_una k) <? 0) || (itimediff sn (snd_nxt k) >=? 0)); [exact E|].
  ksimpl. rewrite E. reflexivity.
Qed.

Lemma cl_pre_parse_una k una : cl_pre k (fst (parse_una k una)).
Proof.
  unfold parse_una. pose proof (cl_una_walk_incl una (snd_buf k)) as H.
  destruct (una_walk una (snd_buf k)) as [l c]. cbn [fst] in *. apply cl_pre_snd_buf, cl_sub_incl. exact H.
Qed.

Lemma cl_shrink_buf_buf k : snd_buf (shrink_buf k) = drop_acked (snd_buf k).
Proof.
  unfold shrink_buf. cbv zeta.
  destruct (snd_buf (set_snd_buf k (drop_acked (snd_buf k)))); reflexivity.
Qed.

Lemma cl_pre_shrink_buf k : cl_pre k (shrink_buf k).
Proof.
  split; [rewrite cl_shrink_buf_buf; apply cl_sub_incl, cl_drop_acked_incl|].
  unfold shrink_buf. cbv zeta.
  destruct (snd_buf (set_snd_buf k (drop_acked (snd_buf k)))); repeat split.
Qed.

Lemma cl_pre_do_move_ready k : cl_pre k (do_move_ready k).
Proof.
  unfold do_move_ready.
  destruct (move_ready (rcv_buf k) (rcv_queue k) (rcv_nxt k) (rcv_wnd k)) as [[rb rq] rn].
  apply cl_pre_frame; reflexivity.
Qed.

Lemma cl_pre_parse_data k s k' f : parse_data k s = Ok (k', f) -> cl_pre k k'.
Proof.
  unfold parse_data. cbv zeta. intros H.
  destruct ((itimediff (s_sn s) (u32 (rcv_nxt k + rcv_wnd k)) >=? 0) || (itimediff (s_sn s) (rcv_nxt k) <? 0)).
  { inversion H; subst. apply cl_pre_refl. }
  destruct (has_sn (s_sn s) (rcv_buf k)).
  { inversion H; subst. apply cl_pre_do_move_ready. }
  destruct (blen (s_data s) >? c_mtuLimit); [discriminate|].
  inversion H; subst. eapply cl_pre_trans; [|apply cl_pre_do_move_ready].
  apply cl_pre_frame; reflexivity.
Qed.

Lemma cl_pre_update_ack k rtt : cl_pre k (update_ack k rtt).
Proof.
  destruct (ii_update_ack_unf k rtt) as (srtt & var & E). rewrite E. apply cl_pre_frame; reflexivity.
Qed.

Lemma cl_pre_input_cwnd k una0 : cl_pre k (input_cwnd k una0).
Proof.
  unfold input_cwnd.
  destruct ((nocwnd k =? 0) && (itimediff (snd_una k) una0 >? 0) && (cwnd k <? rmt_wnd k)); [|apply cl_pre_refl].
  cbv zeta.
  match goal with |- context [let '(cw, inc) := ?X in _] => destruct X as [cw inc] end.
  destruct (cw >? rmt_wnd k); apply cl_pre_frame; reflexivity.
Qed.

(* the state in which the command-specific part of input_seg starts *)
Lemma cl_lv_pre_facts a s regular :
  inv (i_k a) -> 0 <= s_wnd s < 65536 ->
  inv (lv_pre a s regular) /\ cl_pre (i_k a) (lv_pre a s regular) /\
  match snd_buf (lv_pre a s regular) with e :: _ => s_acked e = 0 | [] => True end.
Proof.
  intros Hinv Hw. unfold lv_pre.
  set (k1 := if regular then set_rmt_wnd (i_k a) (s_wnd s) else i_k a).
  assert (H1 : ii_invb (snd_una (i_k a)) k1 /\ cl_pre (i_k a) k1).
  { unfold k1. destruct regular.
    - split; [apply ii_set_rmt_wnd_ok; [apply ii_invb_of_inv; exact Hinv|exact Hw]|apply cl_pre_frame; reflexivity].
    - split; [apply ii_invb_of_inv; exact Hinv|apply cl_pre_refl]. }
  destruct H1 as (Hb1 & Hp1).
  destruct (ii_parse_una_ok _ k1 (s_una s) Hb1) as (b' & Hb2 & _).
  pose proof (cl_pre_parse_una k1 (s_una s)) as Hp2.
  destruct (ii_shrink_buf_ok _ _ Hb2) as (Hi3 & _).
  split; [exact Hi3|]. split.
  - eapply cl_pre_trans; [exact Hp1|]. eapply cl_pre_trans; [exact Hp2|apply cl_pre_shrink_buf].
  - rewrite cl_shrink_buf_buf. apply cl_drop_acked_head.
Qed.

(* the ACK branch of input_seg *)
Lemma cl_ack_branch k0 sn ts :
  inv k0 -> match snd_buf k0 with e :: _ => s_acked e = 0 | [] => True end -> is_u32 sn ->
  cl_in_order k0 sn ->
  cl_pre k0 (shrink_buf (fst (parse_fastack (parse_ack k0 sn) sn ts))).
Proof.
  intros Hinv Hhead Hsn Hord.
  pose proof (ii_parse_ack_ok _ _ sn (ii_invb_of_inv _ Hinv)) as (Hb1 & _).
  pose proof (cl_pre_parse_ack k0 sn) as Hp1.
  set (k1 := parse_ack k0 sn) in *.
  assert (Hu1 : snd_una k1 = snd_una k0) by apply cl_parse_ack_una.
  assert (Hid : snd_buf (fst (parse_fastack k1 sn ts)) = snd_buf k1).
  { apply cl_parse_fastack_id.
    - rewrite Hu1. exact (I_una_u32 _ Hinv).
    - rewrite Hu1. exact (B_sb_contig _ _ Hb1).
    - pose proof (B_sb_wnd _ _ Hb1). pose proof (B_snd_wnd _ _ Hb1). unfold H32. lia.
    - exact Hsn.
    - destruct (snd_buf k0) as [|e t] eqn:E0.
      + left. apply cl_parse_ack_nil. exact E0.
      + right. rewrite Hu1. pose proof (I_sb_contig _ Hinv) as Hc. rewrite E0 in Hc. destruct Hc as (He & _).
        unfold cl_in_order in Hord. rewrite E0 in Hord. pose proof (Forall_inv Hord) as Ho. cbv beta in Ho.
        rewrite He in Ho. destruct (Z_le_gt_dec (itimediff sn (snd_una k0)) 0) as [Hle|Hgt]; [exact Hle|].
        specialize (Ho Hgt). lia. }
  pose proof (cl_fr_parse_fastack k1 sn ts) as Hf2.
  set (k2 := fst (parse_fastack k1 sn ts)) in *.
  eapply cl_pre_trans; [exact Hp1|]. eapply cl_pre_trans; [|apply cl_pre_shrink_buf].
  split; [rewrite Hid; apply cl_sub_refl|exact Hf2].
Qed.

Lemma cl_in_tail_pre a s rest regular a' r :
  inv (i_k a) -> 0 <= s_wnd s < 65536 -> is_u32 (s_sn s) ->
  lv_in_tail a s rest regular = inl (Ok (a', r)) ->
  (s_cmd s = c_IKCP_CMD_ACK -> cl_in_order (lv_pre a s regular) (s_sn s)) ->
  cl_pre (i_k a) (i_k a').
Proof.
  intros Hinv Hw Hsn H Hord. rewrite lv_in_tail_pre in H. cbv zeta in H.
  destruct (cl_lv_pre_facts a s regular Hinv Hw) as (Hi0 & Hp0 & Hhead).
  set (k0 := lv_pre a s regular) in *.
  destruct (s_cmd s =? c_IKCP_CMD_ACK) eqn:Ec; lv_b2z.
  { pose proof (cl_ack_branch k0 (s_sn s) (s_ts s) Hi0 Hhead Hsn (Hord Ec)) as Hb.
    destruct (parse_fastack (parse_ack k0 (s_sn s)) (s_sn s) (s_ts s)) as [k2 f]. cbn [fst] in Hb.
    inversion H; subst a' r. cbn [i_k]. eapply cl_pre_trans; [exact Hp0|exact Hb]. }
  destruct (s_cmd s =? c_IKCP_CMD_PUSH).
  { destruct (itimediff (s_sn s) (u32 (rcv_nxt k0 + rcv_wnd k0)) <? 0); [|inversion H; subst a' r; exact Hp0].
    set (k4 := set_acklist k0 (acklist k0 ++ [(s_sn s, s_ts s)])) in *.
    assert (S4 : cl_pre k0 k4) by (apply cl_pre_frame; reflexivity).
    destruct (itimediff (s_sn s) (rcv_nxt k4) >=? 0).
    - destruct (parse_data k4 _) as [[k5 f]|w] eqn:Ep; [|discriminate].
      inversion H; subst a' r. cbn [i_k].
      eapply cl_pre_trans; [exact Hp0|]. eapply cl_pre_trans; [exact S4|]. exact (cl_pre_parse_data _ _ _ _ Ep).
    - inversion H; subst a' r. cbn [i_k]. eapply cl_pre_trans; [exact Hp0|exact S4]. }
  destruct (s_cmd s =? c_IKCP_CMD_WASK).
  { inversion H; subst a' r. cbn [i_k]. eapply cl_pre_trans; [exact Hp0|]. apply cl_pre_frame; reflexivity. }
  inversion H; subst a' r. exact Hp0.
Qed.

(* H1 over one datagram: every ACK segment the segment loop processes is in order at the moment
   it is processed (after the cumulative una of the same segment has been applied) *)
Fixpoint cl_acks_in_order (fuel : nat) (a : inp) (data : bytes) (regular : bool) : Prop :=
  match fuel with
  | O => True
  | S f =>
      if blen data <? c_IKCP_OVERHEAD then True
      else match input_seg a data regular with
           | inl (Ok (a', rest)) =>
               (s_cmd (lv_hdr_of data) = c_IKCP_CMD_ACK ->
                  cl_in_order (lv_pre a (lv_hdr_of data) regular) (s_sn (lv_hdr_of data))) /\
               cl_acks_in_order f a' rest regular
           | _ => True
           end
  end.

Lemma cl_input_seg_pre a data regular a' rest :
  inv (i_k a) -> is_byte_list data ->
  input_seg a data regular = inl (Ok (a', rest)) ->
  (s_cmd (lv_hdr_of data) = c_IKCP_CMD_ACK ->
     cl_in_order (lv_pre a (lv_hdr_of data) regular) (s_sn (lv_hdr_of data))) ->
  cl_pre (i_k a) (i_k a').
Proof.
  intros Hinv Hd H Hord. rewrite lv_input_seg_gen in H. cbv zeta in H.
  destruct (negb (s_conv (lv_hdr_of data) =? conv (i_k a))); [discriminate|].
  destruct ((blen (skipn 24 data) <? rd32 (skipn 20 data)) || (rd32 (skipn 20 data) >? c_mtuLimit)); [discriminate|].
  destruct (negb _); [discriminate|].
  eapply cl_in_tail_pre; [exact Hinv| | |exact H|exact Hord].
  - unfold lv_hdr_of. lv_segf. apply ii_rd16_range, ii_bl_skipn. exact Hd.
  - unfold lv_hdr_of. lv_segf. apply ii_rd32_range, ii_bl_skipn. exact Hd.
Qed.

Lemma cl_input_loop_pre regular : forall fuel a data a' e,
  inv (i_k a) -> is_byte_list data -> input_loop fuel a data regular = Ok (a', e) ->
  cl_acks_in_order fuel a data regular -> cl_pre (i_k a) (i_k a').
Proof.
  induction fuel as [|f IH]; intros a data a' e Hinv Hd H Hord; cbn [input_loop] in H; cbn [cl_acks_in_order] in Hord.
  - inversion H; subst. apply cl_pre_refl.
  - destruct (blen data <? c_IKCP_OVERHEAD) eqn:El; [inversion H; subst; apply cl_pre_refl|]. lv_b2z.
    pose proof (ii_input_seg_ok a data regular Hinv Hd El) as Hok.
    destruct (input_seg a data regular) as [[[a1 rest]|w]|code] eqn:Es.
    + destruct Hok as (Hi1 & _ & _ & Hr & _). destruct Hord as (Ho1 & Ho2).
      eapply cl_pre_trans; [exact (cl_input_seg_pre _ _ _ _ _ Hinv Hd Es Ho1)|].
      exact (IH _ _ _ _ Hi1 Hr H Ho2).
    + discriminate.
    + inversion H; subst. apply cl_pre_refl.
Qed.

Lemma cl_input_pre_pre k d regular nd now k1 r fr :
  inv k -> is_byte_list d -> input_pre k d regular nd now = Ok (k1, r, fr) ->
  cl_acks_in_order (S (length d / 24)) (mkInp k 0 false false) d regular ->
  cl_pre k k1.
Proof.
  intros Hinv Hd. unfold input_pre. cbv zeta.
  destruct (blen d <? c_IKCP_OVERHEAD); [intros H _; inversion H; subst; apply cl_pre_refl|].
  intros H Hord.
  destruct (input_loop (S (length d / 24)) (mkInp k 0 false false) d regular) as [[a' e]|w] eqn:El; [|discriminate].
  pose proof (cl_input_loop_pre regular _ (mkInp k 0 false false) _ _ _ Hinv Hd El Hord) as Hl. cbn [i_k] in Hl.
  destruct e as [|code]; [|inversion H; subst; exact Hl].
  set (k2 := if i_rtt a' && regular && (itimediff now (i_latest a') >=? 0)
             then update_ack (i_k a') (itimediff now (i_latest a')) else i_k a') in *.
  assert (S2 : cl_pre (i_k a') k2).
  { unfold k2. destruct (i_rtt a' && regular && (itimediff now (i_latest a') >=? 0));
      [apply cl_pre_update_ack|apply cl_pre_refl]. }
  pose proof (cl_pre_input_cwnd k2 (snd_una k)) as S3.
  set (k3 := input_cwnd k2 (snd_una k)) in *.
  assert (S : cl_pre k k3) by (eapply cl_pre_trans; [exact Hl|]; eapply cl_pre_trans; [exact S2|exact S3]).
  destruct (i_flush a'); [inversion H; subst; exact S|].
  destruct (Z.of_nat (length (acklist k3)) >=? mtu k3 / c_IKCP_OVERHEAD); [inversion H; subst; exact S|].
  destruct (nd && (Z.of_nat (length (acklist k3)) >? 0)); inversion H; subst; exact S.
Qed.
