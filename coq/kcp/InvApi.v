(* The invariant of Step.v across every API call except Input / flush / Update:
   NewKCP, WndSize, Send, Recv, SetMtu, NoDelay, the RTT estimator, and the projections of the
   invariant quoted by C04 / C05 / C10 / C18. *)
From Coq Require Import ZArith List Bool Lia.
From KV.Base Require Import Consts Word WordLemmas.
From KV.Kcp Require Import Kcp Step InvBase.
Import ListNotations.
Local Open Scope Z_scope.

Ltac Zify.zify_post_hook ::= Z.div_mod_to_equations.

Ltac cunfold :=
  unfold c_IKCP_OVERHEAD, c_mtuLimit, c_IKCP_MTU_DEF, c_IKCP_RTO_MAX, c_IKCP_RTO_MIN,
         c_IKCP_RTO_NDL, c_IKCP_RTO_DEF, c_IKCP_WND_SND, c_IKCP_WND_RCV, c_IKCP_THRESH_INIT,
         c_IKCP_INTERVAL, c_IKCP_DEADLINK, c_IKCP_CMD_PUSH in *.

(* the frame facts every call but SetMtu / NoDelay keeps *)
Definition same_rto_cfg (k k' : kcp) : Prop :=
  (rto_inv k -> rto_inv k') /\ mtu k' = mtu k /\ rx_minrto k' = rx_minrto k /\ rx_rto k' = rx_rto k.

(* ------------------------------------------------------------------ *)
(* 1. NewKCP                                                           *)
(* ------------------------------------------------------------------ *)
Lemma inv_new : forall cv, 0 <= cv < W32 -> inv (kcp_new cv).
Proof.
  intros cv Hcv. unfold kcp_new.
  constructor; ksimpl; rewrite ?qlen_nil; try solve [constructor]; try exact I;
    unfold is_u32, W32; cunfold; lia.
Qed.

(* ------------------------------------------------------------------ *)
(* 2. WndSize (before traffic)                                         *)
(* ------------------------------------------------------------------ *)
Lemma inv_wndsize : forall k sw rw,
  inv k -> snd_buf k = [] -> 0 < sw < 32768 -> 0 < rw < 32768 ->
  rcv_buf k = [] -> rcv_queue k = [] -> inv (set_wndsize k sw rw).
Proof.
  intros k sw rw H Hsb Hsw Hrw Hrb Hrq. unfold set_wndsize.
  assert (Esw : sw >? 0 = true) by (apply Z.gtb_lt; lia).
  assert (Erw : rw >? 0 = true) by (apply Z.gtb_lt; lia).
  rewrite Esw, Erw.
  assert (Usw : u32 sw = sw) by (apply u32_id; unfold W32; lia).
  assert (Urw : u32 rw = rw) by (apply u32_id; unfold W32; lia).
  rewrite Usw, Urw.
  inv_frame_tac H; rewrite ?Hsb, ?Hrb, ?Hrq, ?qlen_nil; try exact I; lia.
Qed.

(* ------------------------------------------------------------------ *)
(* 3. Send                                                             *)
(* ------------------------------------------------------------------ *)
Lemma fragment_ok fuel : forall count i m st b,
  0 <= m <= c_mtuLimit ->
  exists segs, fragment fuel count i m st b = Ok segs /\
    Forall (fun s => seg_len s <= m) segs /\
    Forall (fun s => s_xmit s = 0 /\ s_acked s = 0) segs.
Proof.
  induction fuel as [|f IH]; intros count i m st b Hm.
  - exists []. cbn [fragment]. split; [reflexivity|]. split; constructor.
  - cbn [fragment]. destruct (i >=? count) eqn:Hge.
    + exists []. split; [reflexivity|]. split; constructor.
    + pose proof (blen_nonneg b) as Hb.
      assert (Hsz : Z.min (blen b) m >? c_mtuLimit = false).
      { destruct (Z.gtb_spec (Z.min (blen b) m) c_mtuLimit) as [Hgt|Hle]; [lia | reflexivity]. }
      rewrite Hsz.
      destruct (IH count (i + 1) m st (drop (Z.min (blen b) m) b) Hm) as [l [Hl [Hlen Hfresh]]].
      rewrite Hl. eexists. split; [reflexivity|]. split.
      * constructor; [|exact Hlen]. unfold seg_len, new_seg_data. cbn [s_data].
        pose proof (blen_take_le_n (Z.min (blen b) m) b) as Htk. lia.
      * constructor; [|exact Hfresh]. unfold new_seg_data. cbn [s_xmit s_acked]. split; reflexivity.
Qed.

Definition sq_good (k : kcp) (q : list seg) : Prop :=
  Forall (fun s => seg_len s <= mss k) q /\ Forall (fun s => s_xmit s = 0 /\ s_acked s = 0) q.

Lemma inv_mss_range k : inv k -> 0 < mss k <= c_mtuLimit - c_IKCP_OVERHEAD.
Proof.
  intros H. pose proof (I_mtu _ H) as Hm. pose proof (I_mss _ H) as Hs. cunfold. lia.
Qed.

Lemma stream_append_ok k b :
  inv k ->
  exists r, stream_append k b = Ok r /\
    match r with None => True | Some (q1, b1) => sq_good k q1 end.
Proof.
  intros H. unfold stream_append.
  pose proof (inv_mss_range k H) as Hmss.
  assert (Hsame : sq_good k (snd_queue k)) by (split; [exact (I_sq_len _ H) | exact (I_sq_fresh _ H)]).
  destruct (rev (snd_queue k)) as [|last before] eqn:Hrev.
  - eexists. split; [reflexivity|]. exact Hsame.
  - assert (Hq : snd_queue k = rev before ++ [last]).
    { rewrite <- (rev_involutive (snd_queue k)), Hrev. reflexivity. }
    destruct (blen (s_data last) <? mss k) eqn:Hlt.
    + apply Z.ltb_lt in Hlt.
      destruct (frag_count _ _ >? 255) eqn:Hfc.
      * eexists. split; [reflexivity | exact I].
      * pose proof (blen_nonneg b) as Hb. pose proof (blen_nonneg (s_data last)) as Hl.
        assert (Hp : blen (s_data last) + Z.min (blen b) (mss k - blen (s_data last)) >? c_mtuLimit = false).
        { destruct (Z.gtb_spec (blen (s_data last) + Z.min (blen b) (mss k - blen (s_data last))) c_mtuLimit)
            as [Hgt|Hle]; [cunfold; lia | reflexivity]. }
        rewrite Hp. eexists. split; [reflexivity|].
        destruct Hsame as [Hlen Hfresh]. rewrite Hq in Hlen, Hfresh.
        apply Forall_app in Hlen. destruct Hlen as [Hlen1 Hlen2].
        apply Forall_app in Hfresh. destruct Hfresh as [Hf1 Hf2].
        inversion Hf2 as [|x y Hfl _]; subst x y.
        split; apply Forall_app; (split; [assumption|]); (constructor; [|constructor]).
        -- unfold seg_len, set_seg_data. cbn [s_data]. rewrite blen_app.
           pose proof (blen_take_le_n (Z.min (blen b) (mss k - blen (s_data last))) b) as Htk. lia.
        -- unfold set_seg_data. cbn [s_xmit s_acked]. exact Hfl.
    + eexists. split; [reflexivity|]. exact Hsame.
Qed.

Lemma same_rto_cfg_refl k : same_rto_cfg k k.
Proof. unfold same_rto_cfg. repeat split; auto. Qed.

Lemma same_rto_cfg_set_snd_queue k q : same_rto_cfg k (set_snd_queue k q).
Proof. unfold same_rto_cfg, rto_inv. ksimpl. repeat split; auto. Qed.

Definition send_tail (k : kcp) (q1 : list seg) (b1 : bytes) : res (kcp * Z) :=
  let k1 := set_snd_queue k q1 in
  if (negb (stream k =? 0)) && (blen b1 =? 0) then Ok (k1, 0)
  else
    let count := frag_count (blen b1) (mss k) in
    if count >? 255 then Ok (k1, -2)
    else
      let count := if count =? 0 then 1 else count in
      match fragment (Z.to_nat count) count 0 (mss k) (stream k) b1 with
      | Panic w => Panic w
      | Ok segs => Ok (set_snd_queue k1 (q1 ++ segs), 0)
      end.

Lemma send_unfold k b :
  send k b =
  if blen b =? 0 then Ok (k, -1)
  else match (if stream k =? 0 then Ok (Some (snd_queue k, b)) else stream_append k b) with
       | Panic w => Panic w
       | Ok None => Ok (k, -2)
       | Ok (Some (q1, b1)) => send_tail k q1 b1
       end.
Proof. reflexivity. Qed.

Lemma send_tail_ok k q1 b1 :
  inv k -> sq_good k q1 ->
  exists k' r, send_tail k q1 b1 = Ok (k', r) /\ inv k' /\ same_rto_cfg k k'.
Proof.
  intros H [Hlen Hfresh]. unfold send_tail.
  assert (Hk1 : inv (set_snd_queue k q1)) by (apply inv_set_snd_queue; assumption).
  destruct (negb (stream k =? 0) && (blen b1 =? 0)) eqn:Hc1.
  - do 2 eexists. split; [reflexivity|]. split; [exact Hk1 | apply same_rto_cfg_set_snd_queue].
  - destruct (frag_count (blen b1) (mss k) >? 255) eqn:Hc2.
    + do 2 eexists. split; [reflexivity|]. split; [exact Hk1 | apply same_rto_cfg_set_snd_queue].
    + pose proof (inv_mss_range k H) as Hmss.
      assert (Hm : 0 <= mss k <= c_mtuLimit) by (cunfold; lia).
      set (count := if frag_count (blen b1) (mss k) =? 0 then 1 else frag_count (blen b1) (mss k)).
      destruct (fragment_ok (Z.to_nat count) count 0 (mss k) (stream k) b1 Hm) as [segs [Hf [Hl Hfr]]].
      rewrite Hf. do 2 eexists. split; [reflexivity|]. split.
      * assert (Hinv2 : inv (set_snd_queue k (q1 ++ segs))).
        { apply inv_set_snd_queue; [exact H | |]; apply Forall_app; split; assumption. }
        exact Hinv2.
      * apply (same_rto_cfg_set_snd_queue k (q1 ++ segs)).
Qed.

Lemma send_ok : forall k b, inv k -> is_byte_list b ->
  exists k' r, send k b = Ok (k', r) /\ inv k' /\ (rto_inv k -> rto_inv k') /\
    mtu k' = mtu k /\ rx_minrto k' = rx_minrto k /\ rx_rto k' = rx_rto k.
Proof.
  intros k b H _.
  change (exists k' r, send k b = Ok (k', r) /\ inv k' /\ same_rto_cfg k k').
  rewrite send_unfold.
  destruct (blen b =? 0) eqn:Hb0.
  - exists k, (-1). split; [reflexivity|]. split; [exact H | apply same_rto_cfg_refl].
  - destruct (stream k =? 0) eqn:Hst.
    + apply send_tail_ok; [exact H|]. split; [exact (I_sq_len _ H) | exact (I_sq_fresh _ H)].
    + destruct (stream_append_ok k b H) as [r [Hr Hgood]]. rewrite Hr.
      destruct r as [[q1 b1]|].
      * apply send_tail_ok; assumption.
      * exists k, (-2). split; [reflexivity|]. split; [exact H | apply same_rto_cfg_refl].
Qed.

(* ------------------------------------------------------------------ *)
(* 4. Recv                                                             *)
(* ------------------------------------------------------------------ *)
Lemma pop_msg_ok (P : seg -> Prop) q : forall d r,
  pop_msg q = (d, r) -> qlen r <= qlen q /\ (Forall P q -> Forall P r).
Proof.
  induction q as [|s t IH]; intros d r Hp; cbn [pop_msg] in Hp.
  - inversion Hp; subst. split; [lia | auto].
  - destruct (s_frg s =? 0) eqn:Hf.
    + inversion Hp; subst. rewrite qlen_cons. split; [lia|].
      intros Hq. inversion Hq; assumption.
    + destruct (pop_msg t) as [d' r'] eqn:Ht. inversion Hp; subst.
      destruct (IH d' r eq_refl) as [Hlen Hfa]. rewrite qlen_cons. split; [lia|].
      intros Hq. inversion Hq; auto.
Qed.

Lemma same_rto_cfg_do_move_ready k : same_rto_cfg k (do_move_ready k).
Proof.
  pose proof (do_move_ready_fields k) as F.
  destruct F as [_ [Fm [_ [_ [_ [_ [_ [_ [_ [_ [_ [_ [Frto [Fmin _]]]]]]]]]]]]]].
  unfold same_rto_cfg, rto_inv. rewrite Fm, Frto, Fmin. repeat split; auto.
Qed.

Lemma recv_ok : forall k n, inv k ->
  let '(k', r, d) := recv k n in
  inv k' /\ (rto_inv k -> rto_inv k') /\ mtu k' = mtu k /\ rx_minrto k' = rx_minrto k /\
  rx_rto k' = rx_rto k.
Proof.
  intros k n H.
  destruct (recv k n) as [[k' r] d] eqn:Hr.
  change (inv k' /\ same_rto_cfg k k').
  unfold recv in Hr.
  destruct (peeksize k <? 0) eqn:Hc1.
  { inversion Hr; subst. split; [exact H | apply same_rto_cfg_refl]. }
  destruct (peeksize k >? n) eqn:Hc2.
  { inversion Hr; subst. split; [exact H | apply same_rto_cfg_refl]. }
  destruct (pop_msg (rcv_queue k)) as [d0 rq] eqn:Hpop.
  destruct (pop_msg_ok (fun s => seg_len s <= c_mtuLimit) _ _ _ Hpop) as [Hlen Hfa].
  assert (H1 : inv (set_rcv_queue k rq)).
  { inv_frame_tac H; [pose proof (I_rq_wnd _ H) as Hqw; lia | apply Hfa; exact (I_rq_len _ H)]. }
  assert (S1 : same_rto_cfg k (set_rcv_queue k rq)).
  { unfold same_rto_cfg, rto_inv. ksimpl. repeat split; auto. }
  pose proof (do_move_ready_inv _ H1) as H2.
  pose proof (same_rto_cfg_do_move_ready (set_rcv_queue k rq)) as S2.
  set (k1 := do_move_ready (set_rcv_queue k rq)) in *.
  assert (S12 : same_rto_cfg k k1).
  { destruct S1 as [A1 [A2 [A3 A4]]]. destruct S2 as [B1 [B2 [B3 B4]]].
    unfold same_rto_cfg. rewrite B2, B3, B4, A2, A3, A4. repeat split; auto. }
  destruct ((qlen (rcv_queue k1) <? rcv_wnd k1) && (qlen (rcv_queue k) >=? rcv_wnd k)) eqn:Hc3;
    inversion Hr; subst.
  - split; [apply inv_set_probe_flags; exact H2|].
    destruct S12 as [A1 [A2 [A3 A4]]].
    unfold same_rto_cfg, rto_inv in *. ksimpl. repeat split; auto.
  - split; [exact H2 | exact S12].
Qed.

(* ------------------------------------------------------------------ *)
(* 5. SetMtu                                                           *)
(* ------------------------------------------------------------------ *)
Lemma setmtu_spec : forall k m, inv k ->
  let '(k', r) := set_mtu k m in
  (r = 0 /\ mtu k' = m /\ inv k') \/ (r = -1 /\ k' = k).
Proof.
  intros k m H. unfold set_mtu.
  destruct ((m <=? c_IKCP_OVERHEAD) || (m >? c_mtuLimit)) eqn:Hc1.
  { right. split; reflexivity. }
  destruct (max_queued k >? m - c_IKCP_OVERHEAD) eqn:Hc2.
  { right. split; reflexivity. }
  left. split; [reflexivity|]. split; [reflexivity|].
  apply orb_false_iff in Hc1. destruct Hc1 as [Hlo Hhi].
  apply Z.leb_gt in Hlo.
  assert (Hhi' : m <= c_mtuLimit).
  { destruct (Z.gtb_spec m c_mtuLimit) as [Hgt|Hle]; [discriminate | exact Hle]. }
  assert (Hmq : max_queued k <= m - c_IKCP_OVERHEAD).
  { destruct (Z.gtb_spec (max_queued k) (m - c_IKCP_OVERHEAD)) as [Hgt|Hle]; [discriminate | exact Hle]. }
  apply max_queued_le in Hmq. destruct Hmq as [_ Hfa]. apply Forall_app in Hfa. destruct Hfa as [Hsq Hsb].
  inv_frame_tac H; try assumption; try reflexivity; lia.
Qed.

Lemma setmtu_ok : forall k m, inv k ->
  let '(k', r) := set_mtu k m in
  (rto_inv k -> rto_inv k') /\ rx_minrto k' = rx_minrto k /\ rx_rto k' = rx_rto k.
Proof.
  intros k m H. unfold set_mtu.
  destruct ((m <=? c_IKCP_OVERHEAD) || (m >? c_mtuLimit)) eqn:Hc1.
  { repeat split; auto. }
  destruct (max_queued k >? m - c_IKCP_OVERHEAD) eqn:Hc2.
  { repeat split; auto. }
  unfold rto_inv. ksimpl. repeat split; auto.
Qed.

Lemma fold_max_gt l : forall a M,
  fold_max l a > M <-> a > M \/ exists s, In s l /\ seg_len s > M.
Proof.
  intros a M. split.
  - intros Hgt.
    destruct (Z_le_gt_dec a M) as [Hle|Hagt]; [|left; exact Hagt].
    right.
    assert (Hn : ~ Forall (fun s => seg_len s <= M) l).
    { intros Hfa. assert (Hc : fold_max l a <= M) by (apply fold_max_le; split; assumption). lia. }
    clear Hgt. induction l as [|s t IH].
    + exfalso. apply Hn. constructor.
    + destruct (Z_le_gt_dec (seg_len s) M) as [Hs|Hs].
      * destruct IH as [x [Hin Hx]].
        { intros Hfa. apply Hn. constructor; assumption. }
        exists x. split; [right; exact Hin | exact Hx].
      * exists s. split; [left; reflexivity | exact Hs].
  - intros [Hagt | [s [Hin Hs]]].
    + destruct (Z_le_gt_dec (fold_max l a) M) as [Hle|Hgt]; [|exact Hgt].
      apply fold_max_le in Hle. lia.
    + destruct (Z_le_gt_dec (fold_max l a) M) as [Hle|Hgt]; [|exact Hgt].
      apply fold_max_le in Hle. destruct Hle as [_ Hfa].
      rewrite Forall_forall in Hfa. apply Hfa in Hin. lia.
Qed.

Lemma setmtu_refused_iff : forall k m, inv k ->
  (snd (set_mtu k m) = -1 <->
   m <= c_IKCP_OVERHEAD \/ m > c_mtuLimit \/
   exists s, In s (snd_queue k ++ snd_buf k) /\ seg_len s > m - c_IKCP_OVERHEAD).
Proof.
  intros k m _. unfold set_mtu.
  destruct ((m <=? c_IKCP_OVERHEAD) || (m >? c_mtuLimit)) eqn:Hc1.
  - cbn [snd]. split; [intros _ | reflexivity].
    apply orb_true_iff in Hc1. destruct Hc1 as [Hlo|Hhi].
    + left. apply Z.leb_le. exact Hlo.
    + right. left. apply Z.gtb_lt in Hhi. lia.
  - apply orb_false_iff in Hc1. destruct Hc1 as [Hlo Hhi]. apply Z.leb_gt in Hlo.
    assert (Hhi' : m <= c_mtuLimit).
    { destruct (Z.gtb_spec m c_mtuLimit) as [Hgt|Hle]; [discriminate | exact Hle]. }
    destruct (max_queued k >? m - c_IKCP_OVERHEAD) eqn:Hc2; cbn [snd].
    + split; [intros _ | reflexivity]. right. right.
      apply Z.gtb_lt in Hc2.
      assert (Hgt : fold_max (snd_queue k ++ snd_buf k) 0 > m - c_IKCP_OVERHEAD)
        by (unfold max_queued, fold_max in *; lia).
      apply fold_max_gt in Hgt. destruct Hgt as [Hbad | Hex]; [lia | exact Hex].
    + split; [intros Habs; discriminate|].
      intros [Hbad | [Hbad | Hex]]; [lia | lia |].
      assert (Hgt : fold_max (snd_queue k ++ snd_buf k) 0 > m - c_IKCP_OVERHEAD)
        by (apply fold_max_gt; right; exact Hex).
      destruct (Z.gtb_spec (max_queued k) (m - c_IKCP_OVERHEAD)) as [Hg|Hle]; [discriminate|].
      unfold max_queued, fold_max in *. lia.
Qed.

(* ------------------------------------------------------------------ *)
(* 6. NoDelay                                                          *)
(* ------------------------------------------------------------------ *)
Lemma nodelay_inv : forall k nd iv rs nc, inv k -> inv (set_nodelay k nd iv rs nc).
Proof.
  intros k nd iv rs nc H. unfold set_nodelay.
  destruct (nd >=? 0) eqn:Hnd; [destruct (negb (nd =? 0)) eqn:Hz|];
    inv_frame_tac H; cunfold; lia.
Qed.

Lemma nodelay_minrto : forall k nd iv rs nc, nd >= 0 ->
  rx_minrto (set_nodelay k nd iv rs nc) = (if nd =? 0 then 100 else 30) /\
  rx_rto (set_nodelay k nd iv rs nc) = rx_rto k.
Proof.
  intros k nd iv rs nc Hnd. unfold set_nodelay.
  assert (E : nd >=? 0 = true) by (apply Z.geb_le; lia).
  rewrite E. destruct (nd =? 0) eqn:Hz; cbn [negb]; ksimpl; split; reflexivity.
Qed.

(* ------------------------------------------------------------------ *)
(* 7. the RTT estimator                                                *)
(* ------------------------------------------------------------------ *)
Lemma update_ack_shape k rtt :
  exists var srtt rto,
    update_ack k rtt =
    set_rtt k var srtt (Z.min (Z.max (rx_minrto k) rto) c_IKCP_RTO_MAX) (rx_minrto k).
Proof.
  unfold update_ack.
  destruct (if rx_srtt k =? 0 then _ else _) as [srtt var].
  do 3 eexists. reflexivity.
Qed.

Lemma update_ack_clamped : forall k rtt, rx_minrto k <= c_IKCP_RTO_MAX ->
  rx_minrto k <= rx_rto (update_ack k rtt) <= c_IKCP_RTO_MAX.
Proof.
  intros k rtt Hmin. destruct (update_ack_shape k rtt) as [var [srtt [rto E]]].
  rewrite E. ksimpl. lia.
Qed.

Lemma update_ack_inv : forall k rtt, inv k ->
  inv (update_ack k rtt) /\ rto_inv (update_ack k rtt) /\
  rx_minrto (update_ack k rtt) = rx_minrto k /\ mtu (update_ack k rtt) = mtu k.
Proof.
  intros k rtt H. destruct (update_ack_shape k rtt) as [var [srtt [rto E]]].
  rewrite E. pose proof (I_minrto _ H) as Hm.
  split; [|split; [|split]].
  - apply inv_set_rtt; [exact H | lia | exact Hm].
  - unfold rto_inv. ksimpl. cunfold. lia.
  - reflexivity.
  - reflexivity.
Qed.

(* ------------------------------------------------------------------ *)
(* 8. what the invariant says (projections quoted by C04/C05/C10/C18)  *)
(* ------------------------------------------------------------------ *)
Lemma inv_rcv_queue_bound : forall k, inv k -> qlen (rcv_queue k) <= rcv_wnd k.
Proof. intros k H. exact (I_rq_wnd _ H). Qed.

Lemma inv_rcv_buf_bound : forall k, inv k -> qlen (rcv_buf k) <= rcv_wnd k.
Proof.
  intros k H. pose proof (I_rcv_wnd _ H) as Hw.
  pose proof (rb_sorted_length _ _ _ _ (I_rb_sorted _ H)) as Hlen. lia.
Qed.

Lemma inv_outstanding : forall k, inv k ->
  qlen (snd_buf k) <= snd_wnd k /\ u32 (snd_nxt k - snd_una k) = qlen (snd_buf k) /\
  contiguous (snd_una k) (snd_buf k).
Proof.
  intros k H. split; [exact (I_sb_wnd _ H)|]. split; [|exact (I_sb_contig _ H)].
  rewrite (I_snd_nxt _ H).
  pose proof (I_sb_wnd _ H) as Hw. pose proof (I_snd_wnd _ H) as Hs.
  pose proof (qlen_nonneg (snd_buf k)) as Hq.
  rewrite u32_sub_mod_l.
  replace (snd_una k + qlen (snd_buf k) - snd_una k) with (qlen (snd_buf k)) by lia.
  apply u32_id. unfold W32. lia.
Qed.

Lemma wnd_truthful : forall k s, inv k -> wire_seg_ok k s ->
  0 <= s_wnd s <= rcv_wnd k - qlen (rcv_queue k).
Proof.
  intros k s H [_ [_ [Hw _]]]. rewrite Hw. unfold wnd_unused.
  pose proof (I_rq_wnd _ H) as Hq. pose proof (I_rcv_wnd _ H) as Hr.
  pose proof (qlen_nonneg (rcv_queue k)) as Hn.
  destruct (qlen (rcv_queue k) <? rcv_wnd k) eqn:Hc.
  - apply Z.ltb_lt in Hc. unfold u16. rewrite Z.mod_small; lia.
  - lia.
Qed.

Lemma inv_bounded_state : forall k, inv k ->
  qlen (rcv_queue k) <= rcv_wnd k /\ qlen (rcv_buf k) <= rcv_wnd k /\
  Forall (fun s => seg_len s <= c_mtuLimit) (rcv_queue k ++ rcv_buf k).
Proof.
  intros k H. split; [exact (I_rq_wnd _ H)|]. split; [apply inv_rcv_buf_bound; exact H|].
  apply Forall_app. split; [exact (I_rq_len _ H) | exact (I_rb_len _ H)].
Qed.

Lemma inv_pool_fits : forall k, inv k ->
  Forall (fun s => seg_len s <= c_mtuLimit)
         (snd_queue k ++ snd_buf k ++ rcv_queue k ++ rcv_buf k).
Proof.
  intros k H. pose proof (inv_mss_range k H) as Hm.
  assert (Hw : forall l, Forall (fun s => seg_len s <= mss k) l ->
                         Forall (fun s => seg_len s <= c_mtuLimit) l).
  { intros l Hl. eapply Forall_impl; [|exact Hl]. cbv beta. intros s Hs. cunfold. lia. }
  apply Forall_app. split; [apply Hw; exact (I_sq_len _ H)|].
  apply Forall_app. split; [apply Hw; exact (I_sb_len _ H)|].
  apply Forall_app. split; [exact (I_rq_len _ H) | exact (I_rb_len _ H)].
Qed.

Lemma inv_rto_max : forall k, inv k -> rx_rto k <= 60000.
Proof. intros k H. exact (I_rto_max _ H). Qed.

(* ------------------------------------------------------------------ *)
(* 9. examples                                                         *)
(* ------------------------------------------------------------------ *)
Definition ex_seg (sn : Z) : seg := mkSeg 7 c_IKCP_CMD_PUSH 0 0 0 sn 0 0 0 0 0 0 [].

(* a sender whose window (2) is full, a receiver holding two out-of-order segments *)
Definition ex_kcp : kcp :=
  mkKcp 7 1400 1376 0
        0 2 0
        2 0 0 200 100
        2 32 32 0 0
        0 0 0
        100 100 0 0
        20 0 0 0
        [] [] [ex_seg 0; ex_seg 1] [ex_seg 1; ex_seg 3] []
        4272.

Lemma inv_ex_kcp : inv ex_kcp.
Proof.
  unfold ex_kcp.
  constructor; ksimpl;
    repeat (apply Forall_cons || apply Forall_nil);
    try (right; reflexivity);
    vm_compute; repeat split; discriminate.
Qed.

Lemma inv_example : exists k, inv k /\ qlen (snd_buf k) = snd_wnd k /\ qlen (rcv_buf k) = 2.
Proof. exists ex_kcp. split; [exact inv_ex_kcp|]. split; reflexivity. Qed.

Lemma setmtu_2000_refused : snd (set_mtu (kcp_new 7) 2000) = -1.
Proof. reflexivity. Qed.

Lemma new_rto_example : inv (kcp_new 7) /\ rto_inv (kcp_new 7).
Proof.
  split; [apply inv_new; unfold W32; lia|].
  unfold rto_inv, kcp_new. ksimpl. cunfold. lia.
Qed.
