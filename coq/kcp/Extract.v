(* Extraction of the executable ARQ model.  ExtrOcamlBasic only; Z, positive, nat stay the
   extracted inductive types; no Extract Constant. *)
From Coq Require Import Extraction ExtrOcamlBasic ZArith.
From KV.Base Require Import Word.
From KV.Kcp Require Import Kcp FlushT.
Extraction "kcp_model.ml" kcp_new send recv peeksize input flush update check set_mtu set_nodelay
  set_wndsize set_stream waitsnd set_seq u32 itimediff flush_t input_t update_t.
