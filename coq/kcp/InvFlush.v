(* flush: never faults under the invariant, preserves it, emits only well-formed datagrams;
   admission, congestion-window and acklist facts (C04, C05). *)
From Coq Require Import ZArith List Bool Lia.
From KV.Base Require Import Consts Word WordLemmas.
From KV.Kcp Require Import Kcp Step InvFlushBase.
Import ListNotations.
Local Open Scope Z_scope.

Ltac Zify.zify_post_hook ::= Z.div_mod_to_equations.

(* ---- the state after flush, field by field ---- *)
Definition fl_final (k : kcp) al tsp pw sq nxt sb' st sst cwn inc : kcp :=
  mkKcp (conv k) (mtu k) (mss k) st (snd_una k) nxt (rcv_nxt k)
    sst (rx_rttvar k) (rx_srtt k) (rx_rto k) (rx_minrto k)
    (snd_wnd k) (rcv_wnd k) (rmt_wnd k) cwn inc 0 tsp pw
    (interval k) (ts_flush k) (nodelay k) (updated k) (dead_link k) (fastresend k) (nocwnd k) (stream k)
    sq (rcv_queue k) sb' (rcv_buf k) al (buflen k).

Lemma fl_final_shape k al now sq sb nxt sb' a cw rs :
  exists p tsp pw st sst cwn inc,
    fl_ph2 (set_acklist k al) now = set_probe (set_acklist k al) p tsp pw /\
    fl_ph6 (fl_k5 (fl_k4 (set_probe_flags (fl_ph2 (set_acklist k al) now) 0) sq sb nxt) sb' a) a cw rs
      = fl_final k al tsp pw sq nxt sb' st sst cwn inc /\
    (0 <= cwnd k -> 0 <= cwn) /\ (nocwnd k = 0 -> 1 <= cwn).
Proof.
  destruct (fl_ph2_shape (set_acklist k al) now) as (p & tsp & pw & H2).
  rewrite H2.
  set (k4 := fl_k4 (set_probe_flags (set_probe (set_acklist k al) p tsp pw) 0) sq sb nxt).
  destruct (fl_k5_shape k4 sb' a) as (st & H5). rewrite H5.
  set (k5 := set_timer (set_snd_buf k4 sb') st (ts_flush (set_snd_buf k4 sb')) (updated (set_snd_buf k4 sb'))).
  destruct (fl_ph6_shape k5 a cw rs) as (sst & cwn & inc & H6 & Hc0 & Hc1).
  rewrite H6. exists p, tsp, pw, st, sst, cwn, inc.
  split; [reflexivity|]. split; [reflexivity|]. split; [exact Hc0|exact Hc1].
Qed.

(* ---- inv reads only these fields ---- *)
Lemma fl_ph4_same k al p tsp pw ft :
  fl_ph4 (set_probe_flags (set_probe (set_acklist k al) p tsp pw) 0) ft = fl_ph4 k ft.
Proof. reflexivity. Qed.

Lemma fl_cw_same k al p tsp pw :
  fl_cw (set_probe_flags (set_probe (set_acklist k al) p tsp pw) 0) = fl_cw k.
Proof. reflexivity. Qed.

(* ---- phase 4 under the invariant ---- *)
Lemma fl_cw_range k : inv k -> 0 <= fl_cw k <= snd_wnd k.
Proof.
  intros H. pose proof (I_snd_wnd k H). pose proof (I_rmt_wnd k H). pose proof (I_cwnd k H).
  unfold fl_cw. cbv zeta. destruct (nocwnd k =? 0); lia.
Qed.

Lemma fl_ph4_spec k ft sq sb nxt ns :
  inv k -> fl_ph4 k ft = (sq, sb, nxt, ns) ->
  exists pre adm,
    snd_queue k = pre ++ sq /\ sb = snd_buf k ++ adm /\ nxt = u32 (snd_una k + qlen sb) /\
    qlen sb <= snd_wnd k /\ (adm = [] \/ qlen sb <= fl_cw k) /\
    Forall (fun s => fl_fresh (mss k) s /\ s_conv s = conv k /\ s_cmd s = c_IKCP_CMD_PUSH) adm /\
    contiguous (u32 (snd_una k + qlen (snd_buf k))) adm /\
    (ft <> FLUSH_FULL -> adm = [] /\ nxt = snd_nxt k).
Proof.
  intros Hinv H. unfold fl_ph4 in H. destruct (ft =? FLUSH_FULL) eqn:Ef; fl_b2z.
  - assert (Hfr : Forall (fl_fresh (mss k)) (snd_queue k)).
    { pose proof (I_sq_len k Hinv) as A. pose proof (I_sq_fresh k Hinv) as B.
      rewrite Forall_forall in *. intros s Hs. specialize (A s Hs). destruct (B s Hs) as (B1 & B2).
      split; [exact A|split; assumption]. }
    destruct (fl_admit_spec (snd_wnd k) (mss k) (conv k) (snd_una k) (fl_cw k) (fl_cw_range k Hinv)
                (proj2 (I_snd_wnd k Hinv)) _ _ _ _ _ _ _ _ H (I_snd_nxt k Hinv) (I_sb_wnd k Hinv) Hfr)
      as (pre & adm & A1 & A2 & A3 & A4 & _ & A6 & A7 & A8).
    exists pre, adm. repeat split; try assumption. contradiction. contradiction.
  - inversion H; subst. exists [], []. rewrite app_nil_r. cbn [app].
    split; [reflexivity|]. split; [reflexivity|]. split; [apply (I_snd_nxt k Hinv)|].
    split; [apply (I_sb_wnd k Hinv)|]. split; [left; reflexivity|]. split; [constructor|].
    split; [exact I|]. intros _. split; reflexivity.
Qed.

(* the sender-side clauses of inv for the new queue / buffer / snd_nxt *)
Lemma fl_sender_facts (P : Prop) k ft sq sb nxt ns sb' :
  inv k -> fl_ph4 k ft = (sq, sb, nxt, ns) -> Forall2 (fl_seg_rel P) sb sb' ->
  Forall (fun s => seg_len s <= mss k) sq /\
  Forall (fun s => s_xmit s = 0 /\ s_acked s = 0) sq /\
  Forall (fun s => seg_len s <= mss k) sb /\
  Forall (fun s => s_conv s = conv k /\ s_cmd s = c_IKCP_CMD_PUSH) sb /\
  Forall (fun s => seg_len s <= mss k) sb' /\
  Forall (fun s => s_conv s = conv k /\ s_cmd s = c_IKCP_CMD_PUSH) sb' /\
  contiguous (snd_una k) sb' /\ nxt = u32 (snd_una k + qlen sb') /\ qlen sb' <= snd_wnd k.
Proof.
  intros Hinv H4 Hrel.
  destruct (fl_ph4_spec k ft sq sb nxt ns Hinv H4) as (pre & adm & A1 & A2 & A3 & A4 & _ & A6 & A7 & _).
  pose proof (I_sq_len k Hinv) as Q1. pose proof (I_sq_fresh k Hinv) as Q2.
  rewrite A1 in Q1, Q2. apply Forall_app in Q1, Q2.
  assert (B1 : Forall (fun s => seg_len s <= mss k) sb).
  { rewrite A2. apply Forall_app. split; [apply (I_sb_len k Hinv)|].
    eapply Forall_impl; [|exact A6]. intros s ((F & _) & _). exact F. }
  assert (B2 : Forall (fun s => s_conv s = conv k /\ s_cmd s = c_IKCP_CMD_PUSH) sb).
  { rewrite A2. apply Forall_app. split; [apply (I_sb_push k Hinv)|].
    eapply Forall_impl; [|exact A6]. intros s (_ & F). exact F. }
  assert (B3 : contiguous (snd_una k) sb).
  { rewrite A2. apply fl_contig_app; [apply (I_sb_contig k Hinv)|exact A7|apply (I_una_u32 k Hinv)]. }
  split; [apply Q1|]. split; [apply Q2|]. split; [exact B1|]. split; [exact B2|].
  split; [eapply fl_rel_len; eassumption|]. split; [eapply fl_rel_push; eassumption|].
  split; [eapply fl_rel_contig; eassumption|].
  rewrite (fl_rel_length P sb sb' Hrel). split; assumption.
Qed.

(* ---- phase 5 ---- *)
Lemma fl_Forall2_impl (A B : Type) (R R' : A -> B -> Prop) l l' :
  (forall a b, R a b -> R' a b) -> Forall2 R l l' -> Forall2 R' l l'.
Proof. intros Hi. induction 1; constructor; auto. Qed.

Lemma fl_ph5_rel k4 h1 ft ns now st3 sb' a :
  fl_ph5 k4 h1 ft ns now st3 = Ok (sb', a) -> Forall2 (fl_seg_rel (ft = FLUSH_FULL)) (snd_buf k4) sb'.
Proof.
  unfold fl_ph5. cbv zeta. destruct (ft =? FLUSH_FULL) eqn:Ef; fl_b2z; intros H.
  - apply fl_segs_rel in H. eapply fl_Forall2_impl; [|exact H]. intros s s'. apply fl_seg_rel_weaken.
  - inversion H; subst. clear H. induction (snd_buf k4) as [|s t IH]; constructor; [|exact IH].
    apply fl_seg_rel_refl. exact Ef.
Qed.

Lemma fl_ph5_ok k0 k4 h1 ft ns now st3 :
  fl_K1 k0 -> mtu k4 = mtu k0 -> buflen k4 = buflen k0 -> fl_hdr_ok k0 h1 -> fl_stage_ok k0 st3 ->
  Forall (fun s => seg_len s <= mss k0) (snd_buf k4) ->
  Forall (fun s => s_conv s = conv k0 /\ s_cmd s = c_IKCP_CMD_PUSH) (snd_buf k4) ->
  exists sb' a, fl_ph5 k4 h1 ft ns now st3 = Ok (sb', a) /\ fl_stage_ok k0 (f_st a).
Proof.
  intros HK Hm Hb Hh Hst Hl Hp. unfold fl_ph5. cbv zeta. destruct (ft =? FLUSH_FULL).
  - apply (fl_segs_ok k0 k4 h1 (fl_resent k4) ns now HK Hm Hb Hh); [cbn [f_st]; exact Hst|exact Hl|exact Hp].
  - do 2 eexists. split; [reflexivity|]. cbn [f_st]. exact Hst.
Qed.

(* ---- inv of the final state ---- *)
Lemma fl_inv_final k al tsp pw sq nxt sb' st sst cwn inc :
  inv k ->
  Forall (fun s => seg_len s <= mss k) sq ->
  Forall (fun s => s_xmit s = 0 /\ s_acked s = 0) sq ->
  Forall (fun s => seg_len s <= mss k) sb' ->
  Forall (fun s => s_conv s = conv k /\ s_cmd s = c_IKCP_CMD_PUSH) sb' ->
  contiguous (snd_una k) sb' -> nxt = u32 (snd_una k + qlen sb') -> qlen sb' <= snd_wnd k ->
  0 <= cwn ->
  inv (fl_final k al tsp pw sq nxt sb' st sst cwn inc).
Proof.
  intros Hinv F1 F2 F3 F4 F5 F6 F7 F8. destruct Hinv.
  constructor; unfold fl_final; fl_fields; assumption.
Qed.

Lemma fl_wire_same_final k al tsp pw sq nxt sb' st sst cwn inc :
  fl_wire_same k (fl_final k al tsp pw sq nxt sb' st sst cwn inc).
Proof. repeat split. Qed.

(* ---- 1. flush is total, keeps inv, emits well-formed datagrams ---- *)
Theorem flush_ok : forall k ft now, inv k ->
  exists k' nx o, flush k ft now = Ok (k', nx, o) /\ inv k' /\ Forall (dgram_ok k') o /\
    (rto_inv k -> rto_inv k') /\ mtu k' = mtu k /\ rx_minrto k' = rx_minrto k /\
    rx_rto k' = rx_rto k /\ conv k' = conv k.
Proof.
  intros k ft now Hinv. pose proof (fl_K1_inv k Hinv) as HK.
  destruct (fl_ph1_ok k ft HK) as (h1 & st1 & k1 & E1 & Hh1 & Hst1).
  destruct (fl_ph1_shape k ft h1 st1 k1 E1) as (al & Hk1 & _). subst k1.
  destruct (fl_ph2_shape (set_acklist k al) now) as (p & tsp & pw & H2).
  assert (Hm2 : mtu (fl_ph2 (set_acklist k al) now) = mtu k) by (rewrite H2; reflexivity).
  assert (Hb2 : buflen (fl_ph2 (set_acklist k al) now) = buflen k) by (rewrite H2; reflexivity).
  destruct (fl_ph3_ok k _ h1 st1 c_IKCP_ASK_SEND c_IKCP_CMD_WASK HK Hm2 Hb2 Hh1 Hst1)
    as (st2 & E2 & Hst2); [right; right; left; reflexivity|].
  destruct (fl_ph3_ok k _ h1 st2 c_IKCP_ASK_TELL c_IKCP_CMD_WINS HK Hm2 Hb2 Hh1 Hst2)
    as (st3 & E3 & Hst3); [right; right; right; reflexivity|].
  destruct (fl_ph4 (set_probe_flags (fl_ph2 (set_acklist k al) now) 0) ft) as [[[sq sb] nxt] ns] eqn:E4.
  assert (E4' : fl_ph4 k ft = (sq, sb, nxt, ns)).
  { rewrite <- E4, H2. symmetry. apply fl_ph4_same. }
  set (k4 := fl_k4 (set_probe_flags (fl_ph2 (set_acklist k al) now) 0) sq sb nxt) in *.
  assert (Hm4 : mtu k4 = mtu k) by (unfold k4; rewrite H2; reflexivity).
  assert (Hb4 : buflen k4 = buflen k) by (unfold k4; rewrite H2; reflexivity).
  assert (Hsb4 : snd_buf k4 = sb) by reflexivity.
  assert (Hrefl : Forall2 (fl_seg_rel False) sb sb).
  { clear. induction sb; constructor; [apply fl_seg_rel_refl; tauto|assumption]. }
  destruct (fl_sender_facts False k ft sq sb nxt ns sb Hinv E4' Hrefl) as (_ & _ & L1 & L2 & _).
  destruct (fl_ph5_ok k k4 h1 ft ns now st3 HK Hm4 Hb4 Hh1 Hst3) as (sb' & a & E5 & Hst5);
    [rewrite Hsb4; exact L1|rewrite Hsb4; exact L2|].
  pose proof (fl_ph5_rel k4 h1 ft ns now st3 sb' a E5) as Hrel. rewrite Hsb4 in Hrel.
  destruct (fl_sender_facts _ k ft sq sb nxt ns sb' Hinv E4' Hrel)
    as (S1 & S2 & _ & _ & S3 & S4 & S5 & S6 & S7).
  pose proof (fl_compose k ft now h1 st1 _ st2 st3 sq sb nxt ns sb' a E1 E2 E3 E4 E5) as Hfl.
  fold k4 in Hfl.
  destruct (fl_final_shape k al now sq sb nxt sb' a
              (fl_cw (set_probe_flags (fl_ph2 (set_acklist k al) now) 0)) (fl_resent k4))
    as (p' & tsp' & pw' & st & sst & cwn & inc & _ & Hfin & Hc0 & _).
  fold k4 in Hfin. rewrite Hfin in Hfl.
  eexists _, _, _. split; [exact Hfl|].
  split; [apply fl_inv_final; try assumption; apply Hc0; apply (I_cwnd k Hinv)|].
  split.
  { eapply Forall_impl; [|apply fl_flush_buffer_ok; exact Hst5].
    intros d. apply fl_dgram_frame. apply fl_wire_same_final. }
  split; [unfold rto_inv, fl_final; fl_fields; intros H; exact H|].
  repeat split.
Qed.

(* ---- structural inversion of a successful flush ---- *)
Lemma fl_shape k ft now k' nx o :
  flush k ft now = Ok (k', nx, o) ->
  exists al tsp pw st sst cwn inc h1 st3 sq sb nxt ns k4 sb' a,
    k' = fl_final k al tsp pw sq nxt sb' st sst cwn inc /\
    (ft = FLUSH_FULL \/ ft = FLUSH_ACKONLY -> al = []) /\
    (0 <= cwnd k -> 0 <= cwn) /\ (nocwnd k = 0 -> 1 <= cwn) /\
    fl_ph4 k ft = (sq, sb, nxt, ns) /\ snd_buf k4 = sb /\
    fl_ph5 k4 h1 ft ns now st3 = Ok (sb', a).
Proof.
  intros H. destruct (fl_invert k ft now k' nx o H)
    as (h1 & st1 & k1 & st2 & st3 & sq & sb & nxt & ns & sb' & a & E1 & E2 & E3 & E4 & E5 & Hk' & _ & _).
  destruct (fl_ph1_shape k ft h1 st1 k1 E1) as (al & Hk1 & Hal). subst k1.
  destruct (fl_final_shape k al now sq sb nxt sb' a
              (fl_cw (set_probe_flags (fl_ph2 (set_acklist k al) now) 0))
              (fl_resent (fl_k4 (set_probe_flags (fl_ph2 (set_acklist k al) now) 0) sq sb nxt)))
    as (p & tsp & pw & st & sst & cwn & inc & H2 & Hfin & Hc0 & Hc1).
  rewrite Hfin in Hk'.
  exists al, tsp, pw, st, sst, cwn, inc, h1, st3, sq, sb, nxt, ns,
         (fl_k4 (set_probe_flags (fl_ph2 (set_acklist k al) now) 0) sq sb nxt), sb', a.
  split; [exact Hk'|]. split; [exact Hal|]. split; [exact Hc0|]. split; [exact Hc1|].
  split; [rewrite <- E4, H2; symmetry; apply fl_ph4_same|]. split; [reflexivity|exact E5].
Qed.

(* ---- 2. admission (C04) ---- *)
Theorem flush_admission :
  forall k ft now k' nx o, inv k -> flush k ft now = Ok (k', nx, o) ->
    let cw := if nocwnd k =? 0 then Z.min (cwnd k) (Z.min (snd_wnd k) (rmt_wnd k))
              else Z.min (snd_wnd k) (rmt_wnd k) in
    (ft <> FLUSH_FULL -> snd_nxt k' = snd_nxt k) /\
    (qlen (snd_buf k') > qlen (snd_buf k) -> qlen (snd_buf k') <= cw) /\
    Forall (fun s => s_xmit s = 1) (skipn (length (snd_buf k)) (snd_buf k')).
Proof.
  intros k ft now k' nx o Hinv H.
  destruct (fl_shape k ft now k' nx o H)
    as (al & tsp & pw & st & sst & cwn & inc & h1 & st3 & sq & sb & nxt & ns & k4 & sb' & a &
        Hk' & _ & _ & _ & E4 & Hsb4 & E5).
  pose proof (fl_ph5_rel k4 h1 ft ns now st3 sb' a E5) as Hrel. rewrite Hsb4 in Hrel.
  clear Hsb4 E5.
  destruct (fl_ph4_spec k ft sq sb nxt ns Hinv E4) as (pre & adm & A1 & A2 & A3 & A4 & A5 & A6 & A7 & A8).
  subst k'. unfold fl_final. fl_fields.
  change (if nocwnd k =? 0 then Z.min (cwnd k) (Z.min (snd_wnd k) (rmt_wnd k))
          else Z.min (snd_wnd k) (rmt_wnd k)) with (fl_cw k).
  cbv zeta.
  pose proof (fl_rel_length _ sb sb' Hrel) as Hlen.
  split; [intros Hnf; apply A8; exact Hnf|]. split.
  - intros Hgt. rewrite Hlen in *. destruct A5 as [Hnil|Hle]; [|exact Hle].
    subst adm. rewrite app_nil_r in A2. subst sb. lia.
  - rewrite A2 in Hrel. apply Forall2_app_inv_l in Hrel.
    destruct Hrel as (r1 & r2 & R1 & R2 & Hsb'). subst sb'.
    assert (Hl1 : length r1 = length (snd_buf k)).
    { pose proof (fl_rel_length _ _ _ R1) as Hq. unfold qlen in Hq. lia. }
    rewrite <- Hl1. rewrite skipn_app, Nat.sub_diag, skipn_all. cbn [skipn app].
    destruct (Z.eq_dec ft FLUSH_FULL) as [Hf|Hnf].
    + apply (fl_rel_xmit (ft = FLUSH_FULL) (mss k) adm r2 Hf R2).
      eapply Forall_impl; [|exact A6]. intros s (F & _). exact F.
    + destruct (A8 Hnf) as (Hnil & _). subst adm. inversion R2. constructor.
Qed.

(* ---- 3. cwnd >= 1 after a flush with congestion control on (C04) ---- *)
Theorem flush_cwnd_ge1 :
  forall k ft now k' nx o, inv k -> flush k ft now = Ok (k', nx, o) -> nocwnd k = 0 -> 1 <= cwnd k'.
Proof.
  intros k ft now k' nx o _ H Hn.
  destruct (fl_shape k ft now k' nx o H)
    as (al & tsp & pw & st & sst & cwn & inc & h1 & st3 & sq & sb & nxt & ns & k4 & sb' & a &
        Hk' & _ & _ & Hc1 & _).
  subst k'. unfold fl_final. fl_fields. apply Hc1. exact Hn.
Qed.

(* ---- 4. every flush empties the acklist (C05) ---- *)
Theorem flush_acklist :
  forall k ft now k' nx o, flush k ft now = Ok (k', nx, o) ->
    ft = FLUSH_FULL \/ ft = FLUSH_ACKONLY -> acklist k' = [].
Proof.
  intros k ft now k' nx o H Hft.
  destruct (fl_shape k ft now k' nx o H)
    as (al & tsp & pw & st & sst & cwn & inc & h1 & st3 & sq & sb & nxt & ns & k4 & sb' & a &
        Hk' & Hal & _).
  subst k'. unfold fl_final. fl_fields. apply Hal. exact Hft.
Qed.

Print Assumptions flush_ok.
Print Assumptions flush_admission.
Print Assumptions flush_cwnd_ge1.
Print Assumptions flush_acklist.
