(* C18 - no retransmission on a clean path: the SENDER-SIDE theorems (the RTO bounds are in C18.v).
   "On a path that loses, duplicates and reorders nothing, whose round-trip time including the
   peer's acknowledgement delay stays below the minimum retransmission timeout, and whose
   receiver never has to discard for lack of window, every data segment is transmitted exactly
   once."  Proved here, for ONE endpoint and every sequence of API calls: the reduction of that
   sentence to two hypotheses on the sender's input history (H1: acknowledgements are processed
   in order, H2: every outstanding segment is acknowledged before it is rx_minrto old) - see
   `cl_op_ok` / `clean_history` in Clean.v, with the argument why a clean path delivers them.
   NOT proved: that a FIFO loss-free two-endpoint system produces such a history (whole-system
   timed induction; supported by the clean-path simulations of the harness).

   Vocabulary (CleanBase.v / Clean.v):
     cl_timeout now s      itimediff now (s_resendts s) >= 0
     cl_fast resent s      s_fastack s >= resent /\ s_fastack s <> 0xFFFFFFFF
     cl_early newsegs s    s_fastack s > 0 /\ s_fastack s <> 0xFFFFFFFF /\ newsegs = 0
     cl_cause              the disjunction of the three
     lv_resent k           if fastresend k <= 0 then 0xFFFFFFFF else u32 (fastresend k)
     cl_change resent newsegs now s s'
                           same sn, and s' = s or (s unacked, xmit' = xmit+1, ts' = now,
                           resendts' = now + rto', and s was never sent or cl_cause holds)
     cl_wire o W           the datagrams o are exactly the encoded segments W, in order
     cl_segs R l l' Wp     l' is l entry by entry under R; Wp = the entries R marks as sent
     cl_fa_step sn ts s s' s' = s or (fastack' = fastack+1, sn later than s_sn s, s.ts <= ts)
     cl_hk s s'            s' is s possibly marked acked (timers and counters untouched)
     cl_once o             control segments, then PUSH segments with distinct sn, all xmit = 1 *)
From Coq Require Import ZArith List Bool.
From KV.Base Require Import Consts Word.
From KV.Kcp Require Import Kcp Step InvAll LiveBase CleanBase Clean.
Import ListNotations.
Local Open Scope Z_scope.

(* ---- 1. why a full flush (re)transmits a segment ---- *)
(* on one buffer entry *)
Theorem c18_retransmit_causes_seg :
  forall k h resent newsegs now s a s' a',
    flush_seg k h resent newsegs now s a = Ok (s', a') -> cl_change resent newsegs now s s'.
Proof. exact cl_flush_seg_causes. Qed.
Print Assumptions c18_retransmit_causes_seg.

(* on the whole buffer: sb1 are the old entries (compared one by one), sb2 the entries admitted by
   this flush; "no new segment was admitted" is qlen sb2 = 0 *)
Theorem c18_retransmit_causes :
  forall k now k' nx o, flush k FLUSH_FULL now = Ok (k', nx, o) ->
    exists sb1 sb2, snd_buf k' = sb1 ++ sb2 /\
      Forall2 (cl_change (lv_resent k) (qlen sb2) now) (snd_buf k) sb1.
Proof. exact cl_retransmit_causes. Qed.
Print Assumptions c18_retransmit_causes.

(* ... and the PUSH segments in its output are exactly, in order, the entries it transmitted *)
Theorem c18_flush_wire :
  forall k now k' nx o, flush k FLUSH_FULL now = Ok (k', nx, o) ->
    exists adm Wc Wp,
      cl_wire o (Wc ++ Wp) /\ Forall (fun w => s_cmd w <> c_IKCP_CMD_PUSH) Wc /\
      cl_segs (cl_tx (lv_resent k) (qlen adm) now) (snd_buf k ++ adm) (snd_buf k') Wp.
Proof. exact cl_flush_wire. Qed.
Print Assumptions c18_flush_wire.

(* an ack-only flush retransmits nothing *)
Theorem c18_ackonly_retransmits_nothing :
  forall k ft now k' nx o, ft <> FLUSH_FULL -> flush k ft now = Ok (k', nx, o) ->
    snd_buf k' = snd_buf k /\ snd_queue k' = snd_queue k /\
    exists Wc, cl_wire o Wc /\ Forall (fun w => s_cmd w <> c_IKCP_CMD_PUSH) Wc.
Proof. exact cl_ackonly_nothing. Qed.
Print Assumptions c18_ackonly_retransmits_nothing.

(* ---- 2. why a fast-acknowledgement counter grows ---- *)
Theorem c18_fastack_causes :
  forall k sn ts, exists l,
    fst (parse_fastack k sn ts) = set_snd_buf k l /\
    Forall2 (cl_fa_step sn ts) (snd_buf k) l /\
    (l <> snd_buf k -> itimediff sn (snd_una k) >= 0 /\ itimediff sn (snd_nxt k) < 0).
Proof. exact cl_parse_fastack_causes. Qed.
Print Assumptions c18_fastack_causes.

(* `later or equal, and different` is `strictly later` for 32-bit numbers *)
Theorem c18_fastack_later :
  forall sn e, is_u32 sn -> is_u32 e -> itimediff sn e >= 0 -> sn <> e -> itimediff sn e > 0.
Proof. exact cl_later_strict. Qed.

(* the rest of the acknowledgement bookkeeping only removes entries or marks them acked ... *)
Theorem c18_fastack_untouched_by_una : forall k una, cl_pre k (fst (parse_una k una)).
Proof. exact cl_pre_parse_una. Qed.
Theorem c18_fastack_untouched_by_ack : forall k sn, cl_pre k (parse_ack k sn).
Proof. exact cl_pre_parse_ack. Qed.
Theorem c18_fastack_untouched_by_shrink : forall k, cl_pre k (shrink_buf k).
Proof. exact cl_pre_shrink_buf. Qed.

(* ... Send, Recv, Check, SetMtu, NoDelay do not touch snd_buf at all (flush: theorem 1) *)
Theorem c18_fastack_untouched_by_api :
  forall k o k' x, step k o = Ok (k', x) ->
    match o with
    | OSend _ | ORecv _ | OCheck _ | OSetMtu _ | ONoDelay _ _ _ _ => snd_buf k' = snd_buf k
    | _ => True
    end.
Proof. exact cl_quiet_ops. Qed.

(* an ACK naming the oldest outstanding number, or an older one, moves no counter *)
Theorem c18_in_order_ack_moves_no_counter :
  forall k sn ts,
    is_u32 (snd_una k) -> contiguous (snd_una k) (snd_buf k) -> qlen (snd_buf k) < H32 -> is_u32 sn ->
    snd_buf k = [] \/ itimediff sn (snd_una k) <= 0 ->
    snd_buf (fst (parse_fastack k sn ts)) = snd_buf k.
Proof. exact cl_parse_fastack_id. Qed.
Print Assumptions c18_in_order_ack_moves_no_counter.

(* consequently (H1): an Input whose ACK segments are processed in order changes no counter, no
   timer field and no transmission count; it only removes entries or marks them acked *)
Theorem c18_in_order_input :
  forall k d regular nd now k1 r fr,
    inv k -> is_byte_list d -> input_pre k d regular nd now = Ok (k1, r, fr) ->
    cl_acks_in_order (S (length d / 24)) (mkInp k 0 false false) d regular ->
    (forall s', In s' (snd_buf k1) -> exists s, In s (snd_buf k) /\ cl_hk s s') /\
    snd_queue k1 = snd_queue k /\ fastresend k1 = fastresend k /\ rx_minrto k1 = rx_minrto k.
Proof. exact cl_input_pre_pre. Qed.
Print Assumptions c18_in_order_input.

(* ---- 3. the timer a transmission arms ---- *)
Theorem c18_resendts_after_send :
  forall k h resent newsegs now s a s' a',
    inv k -> rto_inv k ->
    flush_seg k h resent newsegs now s a = Ok (s', a') -> s_xmit s' <> s_xmit s ->
    s_ts s' = now /\ s_resendts s' = u32 (s_ts s' + s_rto s') /\
    ((s_rto s' = rx_rto k /\ rx_minrto k <= s_rto s' <= 60000) \/
     (s_xmit s <> 0 /\ cl_timeout now s /\
      s_rto s' = u32 (s_rto s + (if nodelay k =? 0 then rx_rto k else rx_rto k / 2)))).
Proof. exact cl_resendts_after_send. Qed.
Print Assumptions c18_resendts_after_send.

(* ... cannot fire while the segment is younger than the minimum RTO *)
Theorem c18_no_rto_before_minrto :
  forall m now s,
    s_resendts s = u32 (s_ts s + s_rto s) -> m <= s_rto s <= 60000 ->
    0 <= itimediff now (s_ts s) < m -> ~ cl_timeout now s.
Proof. exact cl_no_timeout. Qed.
Print Assumptions c18_no_rto_before_minrto.

(* ---- 4. the clean sender ---- *)
(* cl_cinv k: the starting point - queued segments have fastack = 0, buffer entries are unsent or
   sent once with the timer armed at ts + rto >= ts + rx_minrto, fastresend is an int32. *)
Theorem c18_clean_sender :
  forall ops k k' outs,
    inv k -> rto_inv k -> cl_cinv k -> Forall op_ok ops -> clean_history k ops ->
    run k ops = Some (k', outs) ->
    Forall (fun s => s_xmit s <= 1 /\ s_fastack s = 0) (snd_buf k') /\
    Forall (fun x => cl_once (o_dgrams x)) outs.
Proof. exact cl_clean_sender. Qed.
Print Assumptions c18_clean_sender.

(* ... in every state the history passes through *)
Theorem c18_clean_sender_always :
  forall ops1 ops2 k k' outs,
    inv k -> rto_inv k -> cl_cinv k -> Forall op_ok (ops1 ++ ops2) -> clean_history k (ops1 ++ ops2) ->
    run k (ops1 ++ ops2) = Some (k', outs) ->
    exists k1 outs1, run k ops1 = Some (k1, outs1) /\
      Forall (fun s => s_xmit s <= 1 /\ s_fastack s = 0) (snd_buf k1) /\
      Forall (fun x => cl_once (o_dgrams x)) outs1.
Proof. exact cl_clean_sender_always. Qed.
Print Assumptions c18_clean_sender_always.

(* the invariant behind it is kept by every call of a clean history *)
Theorem c18_clean_step :
  forall k o k' x,
    inv k -> rto_inv k -> cl_cinv k -> op_ok o -> cl_op_ok k o -> step k o = Ok (k', x) ->
    inv k' /\ rto_inv k' /\ cl_cinv k' /\ cl_once (o_dgrams x).
Proof. exact cl_step_clean. Qed.
Print Assumptions c18_clean_step.

(* a new endpoint is a valid starting point *)
Theorem c18_new_endpoint :
  forall cv, 0 <= cv < W32 -> inv (kcp_new cv) /\ rto_inv (kcp_new cv) /\ cl_cinv (kcp_new cv).
Proof.
  intros cv Hcv. split; [apply inv_new; exact Hcv|]. split; [|apply cl_new_cinv].
  unfold rto_inv, kcp_new. cbn [rx_minrto rx_rto]. unfold c_IKCP_RTO_MIN, c_IKCP_RTO_DEF. discriminate.
Qed.
Print Assumptions c18_new_endpoint.

(* clean_history is decidable on concrete histories *)
Theorem c18_clean_history_decide :
  forall ops k, clean_history_b k ops = true -> clean_history k ops.
Proof. exact clean_history_b_sound. Qed.
Print Assumptions c18_clean_history_decide.

(* ---- examples ---- *)
(* Send "123"; the first Update only opens the congestion window; the second transmits sn 0 at
   t = 1100; its ACK (sn 0, ts 1100, una 1) arrives at t = 1130 < 1100 + rx_minrto; a later
   Update finds nothing to do.  The segment is on the wire exactly once. *)
Definition c18_ack : bytes := encode_seg (mkSeg 7 82 0 32 1100 0 1 0 0 0 0 0 []).
Definition c18_ops : list op :=
  [OSend [1;2;3]; OUpdate 1000; OUpdate 1100; OInput c18_ack true false 1130; OUpdate 1200].

Example c18_clean_example :
  clean_history (kcp_new 7) c18_ops /\
  exists k' outs, run (kcp_new 7) c18_ops = Some (k', outs) /\
    snd_buf k' = [] /\ snd_queue k' = [] /\
    map o_dgrams outs = [[]; []; [encode_seg (mkSeg 7 81 0 32 1100 0 0 0 0 0 0 0 [1;2;3])]; []; []].
Proof.
  split; [apply clean_history_b_sound; vm_compute; reflexivity|].
  eexists _, _. split; [vm_compute; reflexivity|]. vm_compute. repeat split.
Qed.

(* H2 is needed: when the ACK does not arrive before the timer (rx_rto = 200 at the start) the
   history is not clean and the segment goes out a second time *)
Example c18_late_ack_example :
  let ops := [OSend [1;2;3]; OUpdate 1000; OUpdate 1100; OUpdate 1300] in
  clean_history_b (kcp_new 7) ops = false /\
  exists k' outs, run (kcp_new 7) ops = Some (k', outs) /\
    map s_xmit (snd_buf k') = [2] /\
    map o_dgrams outs = [[]; []; [encode_seg (mkSeg 7 81 0 32 1100 0 0 0 0 0 0 0 [1;2;3])];
                         [encode_seg (mkSeg 7 81 0 32 1300 0 0 0 0 0 0 0 [1;2;3])]].
Proof.
  cbv zeta. split; [vm_compute; reflexivity|].
  eexists _, _. split; [vm_compute; reflexivity|]. vm_compute. repeat split.
Qed.
