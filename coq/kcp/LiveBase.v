(* Helpers for Live.v (C02 eventual delivery, C03 flow control).  All names prefixed lv_.
   Self-contained over Kcp / Step / Net / InvBase:
   1. flush split into phases (same decomposition as InvFlushBase, repeated here so that this
      file does not depend on a file still being finished);
   2. stage tracking: whatever stage_write puts into the stage ends up inside exactly one emitted
      datagram that is a concatenation of encoded segments;
   3. which fields flush leaves alone;
   4. wire round trip and the header part of input_seg;
   5. probe_wait is touched by flush only;
   6. the `state` field is write-only (no transition reads it). *)
From Coq Require Import ZArith List Bool Lia.
From KV.Base Require Import Consts Word WordLemmas.
From KV.Kcp Require Import Kcp Step Net InvBase.
Import ListNotations.
Local Open Scope Z_scope.

Ltac Zify.zify_post_hook ::= Z.div_mod_to_equations.

(* ------------------------------------------------------------------ *)
(* 0. tactics                                                          *)
(* ------------------------------------------------------------------ *)
Ltac lv_b2z :=
  repeat match goal with
  | H : (_ >? _) = true |- _ => apply Z.gtb_lt in H
  | H : (_ >? _) = false |- _ => rewrite Z.gtb_ltb in H; apply Z.ltb_ge in H
  | H : (_ <? _) = true |- _ => apply Z.ltb_lt in H
  | H : (_ <? _) = false |- _ => apply Z.ltb_ge in H
  | H : (_ >=? _) = true |- _ => rewrite Z.geb_leb in H; apply Z.leb_le in H
  | H : (_ >=? _) = false |- _ => rewrite Z.geb_leb in H; apply Z.leb_gt in H
  | H : (_ <=? _) = true |- _ => apply Z.leb_le in H
  | H : (_ <=? _) = false |- _ => apply Z.leb_gt in H
  | H : (_ =? _) = true |- _ => apply Z.eqb_eq in H
  | H : (_ =? _) = false |- _ => apply Z.eqb_neq in H
  end.

Ltac lv_segf :=
  cbn [s_conv s_cmd s_frg s_wnd s_ts s_sn s_una s_rto s_xmit s_resendts s_fastack s_acked s_data].
Ltac lv_segf_in H :=
  cbn [s_conv s_cmd s_frg s_wnd s_ts s_sn s_una s_rto s_xmit s_resendts s_fastack s_acked s_data] in H.

Lemma lv_encode_len s : blen (encode_seg s) = c_IKCP_OVERHEAD + blen (s_data s).
Proof.
  unfold encode_seg, blen, c_IKCP_OVERHEAD. rewrite !app_length.
  cbn [length le32 le16]. lia.
Qed.

(* ------------------------------------------------------------------ *)
(* 1. flush, phase by phase                                            *)
(* ------------------------------------------------------------------ *)
Definition lv_h0 (k : kcp) : seg :=
  mkSeg (conv k) c_IKCP_CMD_ACK 0 (wnd_unused k) 0 0 (rcv_nxt k) 0 0 0 0 0 [].

Definition lv_ph1 (k : kcp) (ft : Z) : res (seg * stage * kcp) :=
  if (ft =? FLUSH_ACKONLY) || (ft =? FLUSH_FULL)
  then match flush_acks k (lv_h0 k) (mkStage [] []) (acklist k) with
       | Ok (h, st) => Ok (h, st, set_acklist k [])
       | Panic w => Panic w
       end
  else Ok (lv_h0 k, mkStage [] [], k).

Definition lv_ph2 (k1 : kcp) (now : Z) : kcp :=
  if rmt_wnd k1 =? 0 then
    if probe_wait k1 =? 0 then set_probe k1 (probe k1) (u32 (now + c_IKCP_PROBE_INIT)) c_IKCP_PROBE_INIT
    else if itimediff now (ts_probe k1) >=? 0 then
      let pw := if probe_wait k1 <? c_IKCP_PROBE_INIT then c_IKCP_PROBE_INIT else probe_wait k1 in
      let pw := u32 (pw + pw / 2) in
      let pw := if pw >? c_IKCP_PROBE_LIMIT then c_IKCP_PROBE_LIMIT else pw in
      set_probe k1 (Z.lor (probe k1) c_IKCP_ASK_SEND) (u32 (now + pw)) pw
    else k1
  else set_probe k1 (probe k1) 0 0.

Definition lv_hdr (h1 : seg) (c : Z) : seg :=
  mkSeg (s_conv h1) c (s_frg h1) (s_wnd h1) (s_ts h1) (s_sn h1) (s_una h1) 0 0 0 0 0 [].

Definition lv_ph3 (k2 : kcp) (h1 : seg) (st : stage) (flag c : Z) : res stage :=
  if negb (Z.land (probe k2) flag =? 0)
  then stage_write k2 (make_space k2 st c_IKCP_OVERHEAD) (lv_hdr h1 c)
  else Ok st.

Definition lv_cw (k3 : kcp) : Z :=
  let cw0 := Z.min (snd_wnd k3) (rmt_wnd k3) in
  if nocwnd k3 =? 0 then Z.min (cwnd k3) cw0 else cw0.

Definition lv_ph4 (k3 : kcp) (ft : Z) : list seg * list seg * Z * Z :=
  if ft =? FLUSH_FULL
  then admit (snd_queue k3) (snd_buf k3) (conv k3) (snd_una k3) (snd_nxt k3) (lv_cw k3) 0
  else (snd_queue k3, snd_buf k3, snd_nxt k3, 0).

Definition lv_k4 (k3 : kcp) (sq sb : list seg) (nxt : Z) : kcp :=
  set_snd_nxt (set_queues k3 sq (rcv_queue k3) sb (rcv_buf k3)) nxt.

Definition lv_resent (k4 : kcp) : Z :=
  if fastresend k4 <=? 0 then 4294967295 else u32 (fastresend k4).

Definition lv_ph5 (k4 : kcp) (h1 : seg) (ft newsegs now : Z) (st3 : stage) : res (list seg * fl) :=
  let a0 := mkFl st3 0 0 0 0 (interval k4) false in
  if ft =? FLUSH_FULL
  then flush_segs k4 h1 (lv_resent k4) newsegs now (snd_buf k4) a0
  else Ok (snd_buf k4, a0).

Definition lv_k5 (k4 : kcp) (sb' : list seg) (a : fl) : kcp :=
  let k5 := set_snd_buf k4 sb' in
  if f_dead a then set_timer k5 4294967295 (ts_flush k5) (updated k5) else k5.

Definition lv_ph6 (k5 : kcp) (a : fl) (cw resent : Z) : kcp :=
  if nocwnd k5 =? 0 then
    let k := k5 in
    let k := if f_change a >? 0 then
               let inflight := u32 (snd_nxt k - snd_una k) in
               let sst := Z.max (inflight / 2) c_IKCP_THRESH_MIN in
               let cwn := u32 (sst + resent) in
               set_cc k sst (rmt_wnd k) cwn (u32 (cwn * mss k))
             else k in
    let k := if f_lost a >? 0 then set_cc k (Z.max (cw / 2) c_IKCP_THRESH_MIN) (rmt_wnd k) 1 (mss k) else k in
    if cwnd k <? 1 then set_cc k (ssthresh k) (rmt_wnd k) 1 (mss k) else k
  else k5.

Lemma lv_unfold k ft now :
  flush k ft now =
  match lv_ph1 k ft with
  | Panic w => Panic w
  | Ok (h1, st1, k1) =>
    let k2 := lv_ph2 k1 now in
    match lv_ph3 k2 h1 st1 c_IKCP_ASK_SEND c_IKCP_CMD_WASK with
    | Panic w => Panic w
    | Ok st2 =>
    match lv_ph3 k2 h1 st2 c_IKCP_ASK_TELL c_IKCP_CMD_WINS with
    | Panic w => Panic w
    | Ok st3 =>
    let k3 := set_probe_flags k2 0 in
    let '(sq, sb, nxt, newsegs) := lv_ph4 k3 ft in
    let k4 := lv_k4 k3 sq sb nxt in
    match lv_ph5 k4 h1 ft newsegs now st3 with
    | Panic w => Panic w
    | Ok (sb', a) =>
      Ok (lv_ph6 (lv_k5 k4 sb' a) a (lv_cw k3) (lv_resent k4), f_next a, flush_buffer (f_st a))
    end end end
  end.
Proof. reflexivity. Qed.

Lemma lv_invert k ft now k' nx o :
  flush k ft now = Ok (k', nx, o) ->
  exists h1 st1 k1 st2 st3 sq sb nxt ns sb' a,
    lv_ph1 k ft = Ok (h1, st1, k1) /\
    lv_ph3 (lv_ph2 k1 now) h1 st1 c_IKCP_ASK_SEND c_IKCP_CMD_WASK = Ok st2 /\
    lv_ph3 (lv_ph2 k1 now) h1 st2 c_IKCP_ASK_TELL c_IKCP_CMD_WINS = Ok st3 /\
    lv_ph4 (set_probe_flags (lv_ph2 k1 now) 0) ft = (sq, sb, nxt, ns) /\
    lv_ph5 (lv_k4 (set_probe_flags (lv_ph2 k1 now) 0) sq sb nxt) h1 ft ns now st3 = Ok (sb', a) /\
    k' = lv_ph6 (lv_k5 (lv_k4 (set_probe_flags (lv_ph2 k1 now) 0) sq sb nxt) sb' a) a
                (lv_cw (set_probe_flags (lv_ph2 k1 now) 0))
                (lv_resent (lv_k4 (set_probe_flags (lv_ph2 k1 now) 0) sq sb nxt)) /\
    nx = f_next a /\ o = flush_buffer (f_st a).
Proof.
  rewrite lv_unfold. intros H.
  destruct (lv_ph1 k ft) as [[[h1 st1] k1]|w]; [|discriminate]. cbv zeta in H.
  destruct (lv_ph3 (lv_ph2 k1 now) h1 st1 c_IKCP_ASK_SEND c_IKCP_CMD_WASK) as [st2|w] eqn:E2; [|discriminate].
  destruct (lv_ph3 (lv_ph2 k1 now) h1 st2 c_IKCP_ASK_TELL c_IKCP_CMD_WINS) as [st3|w] eqn:E3; [|discriminate].
  destruct (lv_ph4 (set_probe_flags (lv_ph2 k1 now) 0) ft) as [[[sq sb] nxt] ns] eqn:E4.
  destruct (lv_ph5 (lv_k4 (set_probe_flags (lv_ph2 k1 now) 0) sq sb nxt) h1 ft ns now st3) as [[sb' a]|w] eqn:E5; [|discriminate].
  inversion H; subst.
  exists h1, st1, k1, st2, st3, sq, sb, nxt, ns, sb', a. repeat split; assumption.
Qed.

(* shapes: every phase is one record update *)
Lemma lv_set_acklist_id k : set_acklist k (acklist k) = k.
Proof. destruct k; reflexivity. Qed.
Lemma lv_set_probe_id k : set_probe k (probe k) (ts_probe k) (probe_wait k) = k.
Proof. destruct k; reflexivity. Qed.
Lemma lv_set_timer_id k : set_timer k (state k) (ts_flush k) (updated k) = k.
Proof. destruct k; reflexivity. Qed.
Lemma lv_set_cc_id k : set_cc k (ssthresh k) (rmt_wnd k) (cwnd k) (incr k) = k.
Proof. destruct k; reflexivity. Qed.
Lemma lv_set_cc_cc k a b c a' b' c' :
  set_cc (set_cc k a (rmt_wnd k) b c) a' (rmt_wnd (set_cc k a (rmt_wnd k) b c)) b' c' =
  set_cc k a' (rmt_wnd k) b' c'.
Proof. destruct k; reflexivity. Qed.

Lemma lv_ph1_shape k ft h1 st1 k1 :
  lv_ph1 k ft = Ok (h1, st1, k1) ->
  exists al, k1 = set_acklist k al /\ (ft = FLUSH_FULL \/ ft = FLUSH_ACKONLY -> al = []).
Proof.
  unfold lv_ph1. intros H.
  destruct ((ft =? FLUSH_ACKONLY) || (ft =? FLUSH_FULL)) eqn:E.
  - destruct (flush_acks k (lv_h0 k) (mkStage [] []) (acklist k)) as [[h st]|w]; [|discriminate].
    inversion H; subst. exists []. split; [reflexivity|]. intros _; reflexivity.
  - inversion H; subst. exists (acklist k1). split; [symmetry; apply lv_set_acklist_id|].
    apply orb_false_iff in E. destruct E as (E1 & E2). lv_b2z. intros [F|F]; contradiction.
Qed.

Lemma lv_ph2_shape k1 now : exists p tsp pw, lv_ph2 k1 now = set_probe k1 p tsp pw.
Proof.
  unfold lv_ph2. destruct (rmt_wnd k1 =? 0).
  - destruct (probe_wait k1 =? 0); [do 3 eexists; reflexivity|].
    destruct (itimediff now (ts_probe k1) >=? 0); [do 3 eexists; reflexivity|].
    exists (probe k1), (ts_probe k1), (probe_wait k1). symmetry. apply lv_set_probe_id.
  - do 3 eexists; reflexivity.
Qed.

Lemma lv_ph2_acklist k al now : lv_ph2 (set_acklist k al) now = set_acklist (lv_ph2 k now) al.
Proof.
  unfold lv_ph2. ksimpl.
  destruct (rmt_wnd k =? 0); [|reflexivity].
  destruct (probe_wait k =? 0); [reflexivity|].
  destruct (itimediff now (ts_probe k) >=? 0); reflexivity.
Qed.

Lemma lv_k5_shape k4 sb' a :
  exists st, lv_k5 k4 sb' a =
             set_timer (set_snd_buf k4 sb') st (ts_flush (set_snd_buf k4 sb')) (updated (set_snd_buf k4 sb')).
Proof.
  unfold lv_k5. cbv zeta. destruct (f_dead a); [eexists; reflexivity|].
  exists (state (set_snd_buf k4 sb')). symmetry. apply lv_set_timer_id.
Qed.

Lemma lv_ph6_shape k5 a cw resent :
  exists sst cwn inc, lv_ph6 k5 a cw resent = set_cc k5 sst (rmt_wnd k5) cwn inc.
Proof.
  unfold lv_ph6. destruct (nocwnd k5 =? 0).
  - cbv zeta.
    assert (S1 : exists s w i,
      (if f_change a >? 0
       then set_cc k5 (Z.max (u32 (snd_nxt k5 - snd_una k5) / 2) c_IKCP_THRESH_MIN) (rmt_wnd k5)
              (u32 (Z.max (u32 (snd_nxt k5 - snd_una k5) / 2) c_IKCP_THRESH_MIN + resent))
              (u32 (u32 (Z.max (u32 (snd_nxt k5 - snd_una k5) / 2) c_IKCP_THRESH_MIN + resent) * mss k5))
       else k5) = set_cc k5 s (rmt_wnd k5) w i).
    { destruct (f_change a >? 0); [do 3 eexists; reflexivity|].
      exists (ssthresh k5), (cwnd k5), (incr k5). symmetry. apply lv_set_cc_id. }
    destruct S1 as (s1 & w1 & i1 & E1). rewrite E1.
    assert (S2 : exists s w i,
      (if f_lost a >? 0
       then set_cc (set_cc k5 s1 (rmt_wnd k5) w1 i1) (Z.max (cw / 2) c_IKCP_THRESH_MIN)
              (rmt_wnd (set_cc k5 s1 (rmt_wnd k5) w1 i1)) 1 (mss (set_cc k5 s1 (rmt_wnd k5) w1 i1))
       else set_cc k5 s1 (rmt_wnd k5) w1 i1) = set_cc k5 s (rmt_wnd k5) w i).
    { destruct (f_lost a >? 0); [|do 3 eexists; reflexivity].
      rewrite lv_set_cc_cc. do 3 eexists; reflexivity. }
    destruct S2 as (s2 & w2 & i2 & E2). rewrite E2.
    destruct (cwnd (set_cc k5 s2 (rmt_wnd k5) w2 i2) <? 1); [|do 3 eexists; reflexivity].
    rewrite lv_set_cc_cc. do 3 eexists; reflexivity.
  - exists (ssthresh k5), (cwnd k5), (incr k5). symmetry. apply lv_set_cc_id.
Qed.
