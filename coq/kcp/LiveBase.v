(* Helpers for Live.v (C02 eventual delivery, C03 flow control).  All names prefixed lv_.
   Self-contained over Kcp / Step / Net / InvBase:
   1. flush split into phases (same decomposition as InvFlushBase, repeated here so that this
      file does not depend on a file still being finished);
   2. stage tracking: whatever stage_write puts into the stage ends up inside exactly one emitted
      datagram that is a concatenation of encoded segments;
   3. which fields flush leaves alone;
   4. wire round trip and the header part of input_seg;
   5. probe_wait is touched by flush only;
   6. the `state` field is write-only (no transition reads it). *)
From Coq Require Import ZArith List Bool Lia.
From KV.Base Require Import Consts Word WordLemmas.
From KV.Kcp Require Import Kcp Step Net InvBase.
Import ListNotations.
Local Open Scope Z_scope.

Ltac Zify.zify_post_hook ::= Z.div_mod_to_equations.

(* ------------------------------------------------------------------ *)
(* 0. tactics                                                          *)
(* ------------------------------------------------------------------ *)
Ltac lv_b2z :=
  repeat match goal with
  | H : (_ >? _) = true |- _ => apply Z.gtb_lt in H
  | H : (_ >? _) = false |- _ => rewrite Z.gtb_ltb in H; apply Z.ltb_ge in H
  | H : (_ <? _) = true |- _ => apply Z.ltb_lt in H
  | H : (_ <? _) = false |- _ => apply Z.ltb_ge in H
  | H : (_ >=? _) = true |- _ => rewrite Z.geb_leb in H; apply Z.leb_le in H
  | H : (_ >=? _) = false |- _ => rewrite Z.geb_leb in H; apply Z.leb_gt in H
  | H : (_ <=? _) = true |- _ => apply Z.leb_le in H
  | H : (_ <=? _) = false |- _ => apply Z.leb_gt in H
  | H : (_ =? _) = true |- _ => apply Z.eqb_eq in H
  | H : (_ =? _) = false |- _ => apply Z.eqb_neq in H
  end.

Ltac lv_segf :=
  cbn [s_conv s_cmd s_frg s_wnd s_ts s_sn s_una s_rto s_xmit s_resendts s_fastack s_acked s_data].
Ltac lv_segf_in H :=
  cbn [s_conv s_cmd s_frg s_wnd s_ts s_sn s_una s_rto s_xmit s_resendts s_fastack s_acked s_data] in H.

Lemma lv_encode_len s : blen (encode_seg s) = c_IKCP_OVERHEAD + blen (s_data s).
Proof.
  unfold encode_seg, blen, c_IKCP_OVERHEAD. rewrite !app_length.
  cbn [length le32 le16]. lia.
Qed.

(* ------------------------------------------------------------------ *)
(* 1. flush, phase by phase                                            *)
(* ------------------------------------------------------------------ *)
Definition lv_h0 (k : kcp) : seg :=
  mkSeg (conv k) c_IKCP_CMD_ACK 0 (wnd_unused k) 0 0 (rcv_nxt k) 0 0 0 0 0 [].

Definition lv_ph1 (k : kcp) (ft : Z) : res (seg * stage * kcp) :=
  if (ft =? FLUSH_ACKONLY) || (ft =? FLUSH_FULL)
  then match flush_acks k (lv_h0 k) (mkStage [] []) (acklist k) with
       | Ok (h, st) => Ok (h, st, set_acklist k [])
       | Panic w => Panic w
       end
  else Ok (lv_h0 k, mkStage [] [], k).

Definition lv_ph2 (k1 : kcp) (now : Z) : kcp :=
  if rmt_wnd k1 =? 0 then
    if probe_wait k1 =? 0 then set_probe k1 (probe k1) (u32 (now + c_IKCP_PROBE_INIT)) c_IKCP_PROBE_INIT
    else if itimediff now (ts_probe k1) >=? 0 then
      let pw := if probe_wait k1 <? c_IKCP_PROBE_INIT then c_IKCP_PROBE_INIT else probe_wait k1 in
      let pw := u32 (pw + pw / 2) in
      let pw := if pw >? c_IKCP_PROBE_LIMIT then c_IKCP_PROBE_LIMIT else pw in
      set_probe k1 (Z.lor (probe k1) c_IKCP_ASK_SEND) (u32 (now + pw)) pw
    else k1
  else set_probe k1 (probe k1) 0 0.

Definition lv_hdr (h1 : seg) (c : Z) : seg :=
  mkSeg (s_conv h1) c (s_frg h1) (s_wnd h1) (s_ts h1) (s_sn h1) (s_una h1) 0 0 0 0 0 [].

Definition lv_ph3 (k2 : kcp) (h1 : seg) (st : stage) (flag c : Z) : res stage :=
  if negb (Z.land (probe k2) flag =? 0)
  then stage_write k2 (make_space k2 st c_IKCP_OVERHEAD) (lv_hdr h1 c)
  else Ok st.

Definition lv_cw (k3 : kcp) : Z :=
  let cw0 := Z.min (snd_wnd k3) (rmt_wnd k3) in
  if nocwnd k3 =? 0 then Z.min (cwnd k3) cw0 else cw0.

Definition lv_ph4 (k3 : kcp) (ft : Z) : list seg * list seg * Z * Z :=
  if ft =? FLUSH_FULL
  then admit (snd_queue k3) (snd_buf k3) (conv k3) (snd_una k3) (snd_nxt k3) (lv_cw k3) 0
  else (snd_queue k3, snd_buf k3, snd_nxt k3, 0).

Definition lv_k4 (k3 : kcp) (sq sb : list seg) (nxt : Z) : kcp :=
  set_snd_nxt (set_queues k3 sq (rcv_queue k3) sb (rcv_buf k3)) nxt.

Definition lv_resent (k4 : kcp) : Z :=
  if fastresend k4 <=? 0 then 4294967295 else u32 (fastresend k4).

Definition lv_ph5 (k4 : kcp) (h1 : seg) (ft newsegs now : Z) (st3 : stage) : res (list seg * fl) :=
  let a0 := mkFl st3 0 0 0 0 (interval k4) false in
  if ft =? FLUSH_FULL
  then flush_segs k4 h1 (lv_resent k4) newsegs now (snd_buf k4) a0
  else Ok (snd_buf k4, a0).

Definition lv_k5 (k4 : kcp) (sb' : list seg) (a : fl) : kcp :=
  let k5 := set_snd_buf k4 sb' in
  if f_dead a then set_timer k5 4294967295 (ts_flush k5) (updated k5) else k5.

Definition lv_ph6 (k5 : kcp) (a : fl) (cw resent : Z) : kcp :=
  if nocwnd k5 =? 0 then
    let k := k5 in
    let k := if f_change a >? 0 then
               let inflight := u32 (snd_nxt k - snd_una k) in
               let sst := Z.max (inflight / 2) c_IKCP_THRESH_MIN in
               let cwn := u32 (sst + resent) in
               set_cc k sst (rmt_wnd k) cwn (u32 (cwn * mss k))
             else k in
    let k := if f_lost a >? 0 then set_cc k (Z.max (cw / 2) c_IKCP_THRESH_MIN) (rmt_wnd k) 1 (mss k) else k in
    if cwnd k <? 1 then set_cc k (ssthresh k) (rmt_wnd k) 1 (mss k) else k
  else k5.

Lemma lv_unfold k ft now :
  flush k ft now =
  match lv_ph1 k ft with
  | Panic w => Panic w
  | Ok (h1, st1, k1) =>
    let k2 := lv_ph2 k1 now in
    match lv_ph3 k2 h1 st1 c_IKCP_ASK_SEND c_IKCP_CMD_WASK with
    | Panic w => Panic w
    | Ok st2 =>
    match lv_ph3 k2 h1 st2 c_IKCP_ASK_TELL c_IKCP_CMD_WINS with
    | Panic w => Panic w
    | Ok st3 =>
    let k3 := set_probe_flags k2 0 in
    let '(sq, sb, nxt, newsegs) := lv_ph4 k3 ft in
    let k4 := lv_k4 k3 sq sb nxt in
    match lv_ph5 k4 h1 ft newsegs now st3 with
    | Panic w => Panic w
    | Ok (sb', a) =>
      Ok (lv_ph6 (lv_k5 k4 sb' a) a (lv_cw k3) (lv_resent k4), f_next a, flush_buffer (f_st a))
    end end end
  end.
Proof.
  (* plain `reflexivity` does not terminate; after unfolding both sides are syntactically equal *)
  unfold flush, lv_ph1, lv_ph3, lv_ph4, lv_ph5, lv_k4, lv_k5, lv_ph6, lv_cw, lv_resent, lv_hdr, lv_h0, lv_ph2.
  cbv zeta. reflexivity.
Qed.

Lemma lv_invert k ft now k' nx o :
  flush k ft now = Ok (k', nx, o) ->
  exists h1 st1 k1 st2 st3 sq sb nxt ns sb' a,
    lv_ph1 k ft = Ok (h1, st1, k1) /\
    lv_ph3 (lv_ph2 k1 now) h1 st1 c_IKCP_ASK_SEND c_IKCP_CMD_WASK = Ok st2 /\
    lv_ph3 (lv_ph2 k1 now) h1 st2 c_IKCP_ASK_TELL c_IKCP_CMD_WINS = Ok st3 /\
    lv_ph4 (set_probe_flags (lv_ph2 k1 now) 0) ft = (sq, sb, nxt, ns) /\
    lv_ph5 (lv_k4 (set_probe_flags (lv_ph2 k1 now) 0) sq sb nxt) h1 ft ns now st3 = Ok (sb', a) /\
    k' = lv_ph6 (lv_k5 (lv_k4 (set_probe_flags (lv_ph2 k1 now) 0) sq sb nxt) sb' a) a
                (lv_cw (set_probe_flags (lv_ph2 k1 now) 0))
                (lv_resent (lv_k4 (set_probe_flags (lv_ph2 k1 now) 0) sq sb nxt)) /\
    nx = f_next a /\ o = flush_buffer (f_st a).
Proof.
  rewrite lv_unfold. intros H.
  destruct (lv_ph1 k ft) as [[[h1 st1] k1]|w]; [|discriminate]. cbv zeta in H.
  destruct (lv_ph3 (lv_ph2 k1 now) h1 st1 c_IKCP_ASK_SEND c_IKCP_CMD_WASK) as [st2|w] eqn:E2; [|discriminate].
  destruct (lv_ph3 (lv_ph2 k1 now) h1 st2 c_IKCP_ASK_TELL c_IKCP_CMD_WINS) as [st3|w] eqn:E3; [|discriminate].
  destruct (lv_ph4 (set_probe_flags (lv_ph2 k1 now) 0) ft) as [[[sq sb] nxt] ns] eqn:E4.
  destruct (lv_ph5 (lv_k4 (set_probe_flags (lv_ph2 k1 now) 0) sq sb nxt) h1 ft ns now st3) as [[sb' a]|w] eqn:E5; [|discriminate].
  inversion H; subst.
  exists h1, st1, k1, st2, st3, sq, sb, nxt, ns, sb', a. repeat split; assumption.
Qed.

(* shapes: every phase is one record update *)
Lemma lv_set_acklist_id k : set_acklist k (acklist k) = k.
Proof. destruct k; reflexivity. Qed.
Lemma lv_set_probe_id k : set_probe k (probe k) (ts_probe k) (probe_wait k) = k.
Proof. destruct k; reflexivity. Qed.
Lemma lv_set_timer_id k : set_timer k (state k) (ts_flush k) (updated k) = k.
Proof. destruct k; reflexivity. Qed.
Lemma lv_set_cc_id k : set_cc k (ssthresh k) (rmt_wnd k) (cwnd k) (incr k) = k.
Proof. destruct k; reflexivity. Qed.
Lemma lv_set_cc_cc k a b c a' b' c' :
  set_cc (set_cc k a (rmt_wnd k) b c) a' (rmt_wnd (set_cc k a (rmt_wnd k) b c)) b' c' =
  set_cc k a' (rmt_wnd k) b' c'.
Proof. destruct k; reflexivity. Qed.

Lemma lv_ph1_shape k ft h1 st1 k1 :
  lv_ph1 k ft = Ok (h1, st1, k1) ->
  exists al, k1 = set_acklist k al /\ (ft = FLUSH_FULL \/ ft = FLUSH_ACKONLY -> al = []).
Proof.
  unfold lv_ph1. intros H.
  destruct ((ft =? FLUSH_ACKONLY) || (ft =? FLUSH_FULL)) eqn:E.
  - destruct (flush_acks k (lv_h0 k) (mkStage [] []) (acklist k)) as [[h st]|w]; [|discriminate].
    inversion H; subst. exists []. split; [reflexivity|]. intros _; reflexivity.
  - inversion H; subst. exists (acklist k1). split; [symmetry; apply lv_set_acklist_id|].
    apply orb_false_iff in E. destruct E as (E1 & E2). lv_b2z. intros [F|F]; contradiction.
Qed.

Lemma lv_ph2_shape k1 now : exists p tsp pw, lv_ph2 k1 now = set_probe k1 p tsp pw.
Proof.
  unfold lv_ph2. destruct (rmt_wnd k1 =? 0).
  - destruct (probe_wait k1 =? 0); [do 3 eexists; reflexivity|].
    destruct (itimediff now (ts_probe k1) >=? 0); [do 3 eexists; reflexivity|].
    exists (probe k1), (ts_probe k1), (probe_wait k1). symmetry. apply lv_set_probe_id.
  - do 3 eexists; reflexivity.
Qed.

Lemma lv_ph2_acklist k al now : lv_ph2 (set_acklist k al) now = set_acklist (lv_ph2 k now) al.
Proof.
  unfold lv_ph2. ksimpl.
  destruct (rmt_wnd k =? 0); [|reflexivity].
  destruct (probe_wait k =? 0); [reflexivity|].
  destruct (itimediff now (ts_probe k) >=? 0); reflexivity.
Qed.

Lemma lv_k5_shape k4 sb' a :
  exists st, lv_k5 k4 sb' a =
             set_timer (set_snd_buf k4 sb') st (ts_flush (set_snd_buf k4 sb')) (updated (set_snd_buf k4 sb')).
Proof.
  unfold lv_k5. cbv zeta. destruct (f_dead a); [eexists; reflexivity|].
  exists (state (set_snd_buf k4 sb')). symmetry. apply lv_set_timer_id.
Qed.

Lemma lv_ph6_shape k5 a cw resent :
  exists sst cwn inc, lv_ph6 k5 a cw resent = set_cc k5 sst (rmt_wnd k5) cwn inc.
Proof.
  unfold lv_ph6. destruct (nocwnd k5 =? 0).
  - cbv zeta.
    assert (S1 : exists s w i,
      (if f_change a >? 0
       then set_cc k5 (Z.max (u32 (snd_nxt k5 - snd_una k5) / 2) c_IKCP_THRESH_MIN) (rmt_wnd k5)
              (u32 (Z.max (u32 (snd_nxt k5 - snd_una k5) / 2) c_IKCP_THRESH_MIN + resent))
              (u32 (u32 (Z.max (u32 (snd_nxt k5 - snd_una k5) / 2) c_IKCP_THRESH_MIN + resent) * mss k5))
       else k5) = set_cc k5 s (rmt_wnd k5) w i).
    { destruct (f_change a >? 0); [do 3 eexists; reflexivity|].
      exists (ssthresh k5), (cwnd k5), (incr k5). symmetry. apply lv_set_cc_id. }
    destruct S1 as (s1 & w1 & i1 & E1). rewrite E1.
    assert (S2 : exists s w i,
      (if f_lost a >? 0
       then set_cc (set_cc k5 s1 (rmt_wnd k5) w1 i1) (Z.max (cw / 2) c_IKCP_THRESH_MIN)
              (rmt_wnd (set_cc k5 s1 (rmt_wnd k5) w1 i1)) 1 (mss (set_cc k5 s1 (rmt_wnd k5) w1 i1))
       else set_cc k5 s1 (rmt_wnd k5) w1 i1) = set_cc k5 s (rmt_wnd k5) w i).
    { destruct (f_lost a >? 0); [|do 3 eexists; reflexivity].
      rewrite lv_set_cc_cc. do 3 eexists; reflexivity. }
    destruct S2 as (s2 & w2 & i2 & E2). rewrite E2.
    destruct (cwnd (set_cc k5 s2 (rmt_wnd k5) w2 i2) <? 1); [|do 3 eexists; reflexivity].
    rewrite lv_set_cc_cc. do 3 eexists; reflexivity.
  - exists (ssthresh k5), (cwnd k5), (incr k5). symmetry. apply lv_set_cc_id.
Qed.

(* ------------------------------------------------------------------ *)
(* 2. stage tracking                                                   *)
(* ------------------------------------------------------------------ *)
(* the pending datagram is a concatenation of encoded segments *)
Definition lv_cur_ok (st : stage) : Prop := exists segs, cur st = concat (map encode_seg segs).

(* segment s has been written into the stage: it sits in the pending datagram or in a finished one *)
Definition lv_has (st : stage) (s : seg) : Prop :=
  (exists segs, cur st = concat (map encode_seg segs) /\ In s segs) \/
  (exists d segs, In d (outs st) /\ d = concat (map encode_seg segs) /\ In s segs).

Definition lv_ext (st st' : stage) : Prop := lv_cur_ok st' /\ forall s, lv_has st s -> lv_has st' s.

(* segment s is on the wire, inside a datagram made of whole segments *)
Definition lv_emits (o : list bytes) (s : seg) : Prop :=
  exists d segs, In d o /\ d = concat (map encode_seg segs) /\ In s segs.

Lemma lv_stage0_ok : lv_cur_ok (mkStage [] []).
Proof. exists []. reflexivity. Qed.

Lemma lv_ext_refl st : lv_cur_ok st -> lv_ext st st.
Proof. intros H. split; [exact H|]. intros s Hs; exact Hs. Qed.

Lemma lv_ext_trans a b c : lv_ext a b -> lv_ext b c -> lv_ext a c.
Proof. intros (_ & H1) (Hc & H2). split; [exact Hc|]. intros s Hs. apply H2, H1, Hs. Qed.

Lemma lv_space_ext k st space : lv_cur_ok st -> lv_ext st (make_space k st space).
Proof.
  intros Hc. unfold make_space. destruct (blen (cur st) + space >? mtu k).
  - split; [exists []; reflexivity|]. intros s [(segs & Hs & Hi)|(d & segs & Hd & He & Hi)].
    + right. exists (cur st), segs. cbn [outs]. split; [left; reflexivity|]. split; assumption.
    + right. exists d, segs. cbn [outs]. split; [right; exact Hd|]. split; assumption.
  - apply lv_ext_refl. exact Hc.
Qed.

Lemma lv_write_ext k st s st' :
  lv_cur_ok st -> stage_write k st s = Ok st' -> lv_ext st st' /\ lv_has st' s.
Proof.
  intros (segs & Hc) Hw. unfold stage_write in Hw.
  destruct (blen (cur st) + c_IKCP_OVERHEAD + blen (s_data s) >? buflen k); [discriminate|].
  inversion Hw; subst st'. clear Hw.
  assert (Happ : forall l, cur st = concat (map encode_seg l) ->
                           cur st ++ encode_seg s = concat (map encode_seg (l ++ [s]))).
  { intros l Hl. rewrite map_app, concat_app. cbn [map concat]. rewrite app_nil_r, Hl. reflexivity. }
  split; [split|].
  - exists (segs ++ [s]). cbn [cur]. apply Happ. exact Hc.
  - intros x [(l & Hl & Hi)|(d & l & Hd & He & Hi)].
    + left. exists (l ++ [s]). cbn [cur]. split; [apply Happ; exact Hl|].
      apply in_or_app. left; exact Hi.
    + right. exists d, l. cbn [outs]. split; [exact Hd|]. split; assumption.
  - left. exists (segs ++ [s]). cbn [cur]. split; [apply Happ; exact Hc|].
    apply in_or_app. right. left; reflexivity.
Qed.

(* make room, then write *)
Lemma lv_space_write_ext k st space s st' :
  lv_cur_ok st -> stage_write k (make_space k st space) s = Ok st' -> lv_ext st st' /\ lv_has st' s.
Proof.
  intros Hc Hw. pose proof (lv_space_ext k st space Hc) as H1.
  destruct (lv_write_ext k _ s st' (proj1 H1) Hw) as (H2 & H3).
  split; [eapply lv_ext_trans; eassumption|exact H3].
Qed.

Lemma lv_enc_in_pos s segs : In s segs -> blen (concat (map encode_seg segs)) > 0.
Proof.
  induction segs as [|e t IH]; intros Hi; [contradiction|].
  cbn [map concat]. rewrite blen_app. pose proof (blen_nonneg (concat (map encode_seg t))).
  rewrite lv_encode_len. pose proof (blen_nonneg (s_data e)). unfold c_IKCP_OVERHEAD. lia.
Qed.

Lemma lv_buffer_emits st s : lv_has st s -> lv_emits (flush_buffer st) s.
Proof.
  unfold flush_buffer. intros [(segs & Hs & Hi)|(d & segs & Hd & He & Hi)].
  - exists (cur st), segs. split; [|split; assumption].
    apply in_rev. rewrite rev_involutive.
    pose proof (lv_enc_in_pos s segs Hi) as Hp. rewrite <- Hs in Hp.
    destruct (blen (cur st) >? 0) eqn:E; lv_b2z; [left; reflexivity|lia].
  - exists d, segs. split; [|split; assumption].
    apply in_rev. rewrite rev_involutive.
    destruct (blen (cur st) >? 0); [right; exact Hd|exact Hd].
Qed.

(* ---- phase 1 ---- *)
(* an ACK written with the header template h for the pair (sn, ts) *)
Definition lv_ackseg (h : seg) (sn ts : Z) (s : seg) : Prop :=
  s_conv s = s_conv h /\ s_cmd s = s_cmd h /\ s_wnd s = s_wnd h /\ s_una s = s_una h /\
  s_sn s = sn /\ s_ts s = ts.

Definition lv_same_hdr (h h' : seg) : Prop :=
  s_conv h' = s_conv h /\ s_cmd h' = s_cmd h /\ s_frg h' = s_frg h /\ s_wnd h' = s_wnd h /\ s_una h' = s_una h.

Lemma lv_ackseg_hdr h h' sn ts s : lv_same_hdr h h' -> lv_ackseg h' sn ts s -> lv_ackseg h sn ts s.
Proof.
  intros (A1 & A2 & A3 & A4 & A5) (B1 & B2 & B3 & B4 & B5 & B6).
  unfold lv_ackseg. rewrite B1, B2, B3, B4. repeat split; assumption.
Qed.

Lemma lv_acks_track k : forall al h st h' st',
  flush_acks k h st al = Ok (h', st') -> lv_cur_ok st ->
  lv_ext st st' /\ lv_same_hdr h h' /\
  (forall sn ts, In (sn, ts) al -> itimediff sn (rcv_nxt k) >= 0 ->
                 exists s, lv_has st' s /\ lv_ackseg h sn ts s) /\
  (forall sn ts l, al = l ++ [(sn, ts)] -> exists s, lv_has st' s /\ lv_ackseg h sn ts s).
Proof.
  induction al as [|[sn0 ts0] t IH]; intros h st h' st' Hf Hc.
  - cbn [flush_acks] in Hf. inversion Hf; subst h' st'.
    split; [apply lv_ext_refl; exact Hc|]. split; [repeat split|].
    split; [intros sn ts []|]. intros sn ts l Hl. destruct l; discriminate.
  - cbn [flush_acks] in Hf.
    destruct ((itimediff sn0 (rcv_nxt k) >=? 0) || match t with [] => true | _ :: _ => false end) eqn:E.
    + set (h1 := mkSeg (s_conv h) (s_cmd h) (s_frg h) (s_wnd h) ts0 sn0 (s_una h) 0 0 0 0 0 []) in *.
      destruct (stage_write k (make_space k st c_IKCP_OVERHEAD) h1) as [st2|w] eqn:Ew; [|discriminate].
      destruct (lv_space_write_ext k st c_IKCP_OVERHEAD h1 st2 Hc Ew) as (Hx & Hh1).
      destruct (IH h1 st2 h' st' Hf (proj1 Hx)) as (Hx2 & Hsh & Hall & Hlast).
      assert (Hs1 : lv_same_hdr h h1) by (unfold lv_same_hdr, h1; lv_segf; repeat split).
      assert (Hw1 : exists s, lv_has st' s /\ lv_ackseg h sn0 ts0 s).
      { exists h1. split; [apply (proj2 Hx2); exact Hh1|]. unfold lv_ackseg, h1; lv_segf. repeat split. }
      split; [eapply lv_ext_trans; eassumption|].
      split.
      { destruct Hs1 as (A1 & A2 & A3 & A4 & A5). destruct Hsh as (B1 & B2 & B3 & B4 & B5).
        unfold lv_same_hdr. rewrite B1, B2, B3, B4, B5. repeat split; assumption. }
      split.
      * intros sn ts [Heq|Hin] Hge.
        { inversion Heq; subst sn ts. exact Hw1. }
        destruct (Hall sn ts Hin Hge) as (s & Hs & Ha). exists s. split; [exact Hs|].
        eapply lv_ackseg_hdr; eassumption.
      * intros sn ts l Hl. destruct l as [|p l'].
        { cbn [app] in Hl. inversion Hl; subst sn ts. exact Hw1. }
        cbn [app] in Hl. inversion Hl as [[Hp Ht]].
        destruct (Hlast sn ts l' Ht) as (s & Hs & Ha). exists s. split; [exact Hs|].
        eapply lv_ackseg_hdr; eassumption.
    + apply orb_false_iff in E. destruct E as (E1 & E2). lv_b2z.
      pose proof (lv_space_ext k st c_IKCP_OVERHEAD Hc) as Hx.
      destruct (IH h _ h' st' Hf (proj1 Hx)) as (Hx2 & Hsh & Hall & Hlast).
      split; [eapply lv_ext_trans; eassumption|]. split; [exact Hsh|]. split.
      * intros sn ts [Heq|Hin] Hge.
        { inversion Heq; subst sn ts. lia. }
        exact (Hall sn ts Hin Hge).
      * intros sn ts l Hl. destruct l as [|p l'].
        { cbn [app] in Hl. inversion Hl; subst t. discriminate. }
        cbn [app] in Hl. inversion Hl as [[Hp Ht]]. exact (Hlast sn ts l' Ht).
Qed.

(* ---- phase 3 ---- *)
Lemma lv_ph3_track k2 h1 st flag c st' :
  lv_ph3 k2 h1 st flag c = Ok st' -> lv_cur_ok st ->
  lv_ext st st' /\ (Z.land (probe k2) flag <> 0 -> lv_has st' (lv_hdr h1 c)).
Proof.
  unfold lv_ph3. intros H Hc. destruct (Z.land (probe k2) flag =? 0) eqn:E; cbn [negb] in H; lv_b2z.
  - inversion H; subst st'. split; [apply lv_ext_refl; exact Hc|]. intros Hn; contradiction.
  - destruct (lv_space_write_ext k2 st c_IKCP_OVERHEAD _ st' Hc H) as (Hx & Hh).
    split; [exact Hx|]. intros _; exact Hh.
Qed.

(* ---- phase 5 ---- *)
(* the decision part of flush_seg *)
Definition lv_decide (k : kcp) (resent newsegs now : Z) (s : seg) (a : fl) : bool * Z * Z * Z * fl :=
  if s_xmit s =? 0 then
    (true, rx_rto k, u32 (now + rx_rto k), s_fastack s, a)
  else if (s_fastack s >=? resent) && negb (s_fastack s =? 4294967295) then
    (true, rx_rto k, u32 (now + rx_rto k), 4294967295,
     mkFl (f_st a) (f_change a + 1) (f_lost a) (f_fast a + 1) (f_early a) (f_next a) (f_dead a))
  else if (s_fastack s >? 0) && negb (s_fastack s =? 4294967295) && (newsegs =? 0) then
    (true, rx_rto k, u32 (now + rx_rto k), 4294967295,
     mkFl (f_st a) (f_change a + 1) (f_lost a) (f_fast a) (f_early a + 1) (f_next a) (f_dead a))
  else if itimediff now (s_resendts s) >=? 0 then
    let rto := if nodelay k =? 0 then u32 (s_rto s + rx_rto k) else u32 (s_rto s + rx_rto k / 2) in
    (true, rto, u32 (now + rto), 0,
     mkFl (f_st a) (f_change a) (f_lost a + 1) (f_fast a) (f_early a) (f_next a) (f_dead a))
  else (false, s_rto s, s_resendts s, s_fastack s, a).

Definition lv_finish (now : Z) (s' : seg) (a' : fl) : res (seg * fl) :=
  let d := itimediff (s_resendts s') now in
  let nx := if (d >? 0) && (d <? f_next a') then d else f_next a' in
  Ok (s', mkFl (f_st a') (f_change a') (f_lost a') (f_fast a') (f_early a') nx (f_dead a')).

(* the segment put on the wire *)
Definition lv_sent (h : seg) (now : Z) (s : seg) (rto rts fa : Z) : seg :=
  mkSeg (s_conv s) (s_cmd s) (s_frg s) (s_wnd h) now (s_sn s) (s_una h)
        rto (u32 (s_xmit s + 1)) rts fa (s_acked s) (s_data s).

Definition lv_kept (s : seg) (rto rts fa : Z) : seg :=
  mkSeg (s_conv s) (s_cmd s) (s_frg s) (s_wnd s) (s_ts s) (s_sn s) (s_una s)
        rto (s_xmit s) rts fa (s_acked s) (s_data s).

Lemma lv_flush_seg_unfold k h resent newsegs now s a :
  flush_seg k h resent newsegs now s a =
  if s_acked s =? 1 then Ok (s, a)
  else
    let '(needsend, rto, rts, fa, a1) := lv_decide k resent newsegs now s a in
    if needsend then
      match stage_write k (make_space k (f_st a1) (c_IKCP_OVERHEAD + blen (s_data s))) (lv_sent h now s rto rts fa) with
      | Panic w => Panic w
      | Ok st2 =>
          lv_finish now (lv_sent h now s rto rts fa)
            (mkFl st2 (f_change a1) (f_lost a1) (f_fast a1) (f_early a1) (f_next a1)
                  ((u32 (s_xmit s + 1) >=? dead_link k) || f_dead a1))
      end
    else lv_finish now (lv_kept s rto rts fa) a1.
Proof.
  unfold flush_seg, lv_decide, lv_finish, lv_sent, lv_kept.
  destruct (s_acked s =? 1); [reflexivity|].
  destruct (s_xmit s =? 0); [reflexivity|].
  destruct ((s_fastack s >=? resent) && negb (s_fastack s =? 4294967295)); [reflexivity|].
  destruct ((s_fastack s >? 0) && negb (s_fastack s =? 4294967295) && (newsegs =? 0)); [reflexivity|].
  destruct (itimediff now (s_resendts s) >=? 0); reflexivity.
Qed.

(* facts about the decision *)
Lemma lv_decide_st k resent newsegs now s a ns rto rts fa a1 :
  lv_decide k resent newsegs now s a = (ns, rto, rts, fa, a1) -> f_st a1 = f_st a /\ f_dead a1 = f_dead a.
Proof.
  unfold lv_decide. intros H.
  destruct (s_xmit s =? 0); [inversion H; subst; split; reflexivity|].
  destruct ((s_fastack s >=? resent) && negb (s_fastack s =? 4294967295)); [inversion H; subst; split; reflexivity|].
  destruct ((s_fastack s >? 0) && negb (s_fastack s =? 4294967295) && (newsegs =? 0)); [inversion H; subst; split; reflexivity|].
  destruct (itimediff now (s_resendts s) >=? 0); inversion H; subst; split; reflexivity.
Qed.

Lemma lv_decide_due k resent newsegs now s a ns rto rts fa a1 :
  lv_decide k resent newsegs now s a = (ns, rto, rts, fa, a1) ->
  s_xmit s = 0 \/ itimediff now (s_resendts s) >= 0 -> ns = true.
Proof.
  unfold lv_decide. intros H Hd.
  destruct (s_xmit s =? 0) eqn:E0; [inversion H; reflexivity|].
  destruct ((s_fastack s >=? resent) && negb (s_fastack s =? 4294967295)); [inversion H; reflexivity|].
  destruct ((s_fastack s >? 0) && negb (s_fastack s =? 4294967295) && (newsegs =? 0)); [inversion H; reflexivity|].
  destruct (itimediff now (s_resendts s) >=? 0) eqn:E3; [inversion H; reflexivity|].
  lv_b2z. destruct Hd as [Hd|Hd]; [contradiction|lia].
Qed.

(* what flush_seg keeps of a segment *)
Definition lv_seg_rel (s s' : seg) : Prop :=
  s_sn s' = s_sn s /\ s_data s' = s_data s /\ s_frg s' = s_frg s /\ s_conv s' = s_conv s /\
  s_cmd s' = s_cmd s /\ s_acked s' = s_acked s.

Lemma lv_seg_track k h resent newsegs now s a s' a' :
  flush_seg k h resent newsegs now s a = Ok (s', a') -> lv_cur_ok (f_st a) ->
  lv_ext (f_st a) (f_st a') /\ lv_seg_rel s s' /\
  (s_acked s <> 1 -> s_xmit s = 0 \/ itimediff now (s_resendts s) >= 0 ->
     exists w, lv_has (f_st a') w /\ s_cmd w = s_cmd s /\ s_sn w = s_sn s /\ s_frg w = s_frg s /\
               s_data w = s_data s).
Proof.
  rewrite lv_flush_seg_unfold. intros H Hc.
  destruct (s_acked s =? 1) eqn:Ea; lv_b2z.
  { inversion H; subst s' a'. split; [apply lv_ext_refl; exact Hc|]. split; [repeat split|].
    intros Hn; contradiction. }
  destruct (lv_decide k resent newsegs now s a) as [[[[ns rto] rts] fa] a1] eqn:D.
  destruct (lv_decide_st _ _ _ _ _ _ _ _ _ _ _ D) as (Dst & _).
  pose proof (lv_decide_due _ _ _ _ _ _ _ _ _ _ _ D) as Ddue.
  destruct ns.
  - destruct (stage_write k _ _) as [st2|w] eqn:Ew; [|discriminate].
    unfold lv_finish in H. inversion H; subst s' a'. cbn [f_st].
    rewrite Dst in Ew. destruct (lv_space_write_ext k (f_st a) _ _ st2 Hc Ew) as (Hx & Hh).
    split; [exact Hx|]. split; [unfold lv_seg_rel, lv_sent; lv_segf; repeat split|].
    intros _ _. eexists. split; [exact Hh|]. unfold lv_sent; lv_segf. repeat split.
  - unfold lv_finish in H. inversion H; subst s' a'. cbn [f_st]. rewrite Dst.
    split; [apply lv_ext_refl; exact Hc|]. split; [unfold lv_seg_rel, lv_kept; lv_segf; repeat split|].
    intros _ Hd. specialize (Ddue Hd). discriminate.
Qed.

Lemma lv_segs_track k h resent newsegs now : forall l a l' a',
  flush_segs k h resent newsegs now l a = Ok (l', a') -> lv_cur_ok (f_st a) ->
  lv_ext (f_st a) (f_st a') /\ Forall2 lv_seg_rel l l' /\
  (forall s, In s l -> s_acked s <> 1 -> s_xmit s = 0 \/ itimediff now (s_resendts s) >= 0 ->
     exists w, lv_has (f_st a') w /\ s_cmd w = s_cmd s /\ s_sn w = s_sn s /\ s_frg w = s_frg s /\
               s_data w = s_data s).
Proof.
  induction l as [|s t IH]; intros a l' a' H Hc; cbn [flush_segs] in H.
  - inversion H; subst. split; [apply lv_ext_refl; exact Hc|]. split; [constructor|]. intros s [].
  - destruct (flush_seg k h resent newsegs now s a) as [[s1 a1]|w] eqn:E1; [|discriminate].
    destruct (flush_segs k h resent newsegs now t a1) as [[t1 a2]|w] eqn:E2; [|discriminate].
    inversion H; subst l' a'.
    destruct (lv_seg_track _ _ _ _ _ _ _ _ _ E1 Hc) as (Hx1 & Hr1 & Hw1).
    destruct (IH _ _ _ E2 (proj1 Hx1)) as (Hx2 & Hr2 & Hw2).
    split; [eapply lv_ext_trans; eassumption|]. split; [constructor; assumption|].
    intros x [Heq|Hin] Hna Hd.
    + subst x. destruct (Hw1 Hna Hd) as (w & Hh & Hp). exists w. split; [apply (proj2 Hx2); exact Hh|exact Hp].
    + exact (Hw2 x Hin Hna Hd).
Qed.

Lemma lv_rel_length l l' : Forall2 lv_seg_rel l l' -> qlen l' = qlen l.
Proof.
  induction 1 as [|s s' t t' Hr Ht IH]; [reflexivity|]. rewrite !qlen_cons, IH. reflexivity.
Qed.

(* ------------------------------------------------------------------ *)
(* 3. flush as a whole                                                 *)
(* ------------------------------------------------------------------ *)
Lemma lv_seg_rel_refl s : lv_seg_rel s s.
Proof. repeat split. Qed.

Lemma lv_seg_rel_refl_list l : Forall2 lv_seg_rel l l.
Proof. induction l; constructor; [apply lv_seg_rel_refl|assumption]. Qed.

Lemma lv_same_hdr_refl h : lv_same_hdr h h.
Proof. repeat split. Qed.

Lemma lv_ph1_track k ft h1 st1 k1 :
  lv_ph1 k ft = Ok (h1, st1, k1) ->
  lv_cur_ok st1 /\ lv_same_hdr (lv_h0 k) h1 /\
  (exists al, k1 = set_acklist k al /\ (ft = FLUSH_FULL \/ ft = FLUSH_ACKONLY -> al = [])) /\
  (ft = FLUSH_FULL \/ ft = FLUSH_ACKONLY ->
     (forall sn ts, In (sn, ts) (acklist k) -> itimediff sn (rcv_nxt k) >= 0 ->
                    exists s, lv_has st1 s /\ lv_ackseg (lv_h0 k) sn ts s) /\
     (forall sn ts l, acklist k = l ++ [(sn, ts)] -> exists s, lv_has st1 s /\ lv_ackseg (lv_h0 k) sn ts s)).
Proof.
  intros H. pose proof (lv_ph1_shape k ft h1 st1 k1 H) as Hshape.
  unfold lv_ph1 in H. destruct ((ft =? FLUSH_ACKONLY) || (ft =? FLUSH_FULL)) eqn:E.
  - destruct (flush_acks k (lv_h0 k) (mkStage [] []) (acklist k)) as [[h st]|w] eqn:Ef; [|discriminate].
    inversion H; subst h st k1.
    destruct (lv_acks_track k _ _ _ _ _ Ef lv_stage0_ok) as (Hx & Hsh & Hall & Hlast).
    split; [exact (proj1 Hx)|]. split; [exact Hsh|]. split; [exact Hshape|].
    intros _. split; assumption.
  - inversion H; subst h1 st1 k1. split; [exact lv_stage0_ok|]. split; [apply lv_same_hdr_refl|].
    split; [exact Hshape|].
    apply orb_false_iff in E. destruct E as (E1 & E2). lv_b2z. intros [F|F]; contradiction.
Qed.

Lemma lv_ph5_track k4 h1 ft ns now st3 sb' a :
  lv_ph5 k4 h1 ft ns now st3 = Ok (sb', a) -> lv_cur_ok st3 ->
  lv_ext st3 (f_st a) /\ Forall2 lv_seg_rel (snd_buf k4) sb' /\
  (ft = FLUSH_FULL -> forall s, In s (snd_buf k4) -> s_acked s <> 1 ->
     s_xmit s = 0 \/ itimediff now (s_resendts s) >= 0 ->
     exists w, lv_has (f_st a) w /\ s_cmd w = s_cmd s /\ s_sn w = s_sn s /\ s_frg w = s_frg s /\
               s_data w = s_data s).
Proof.
  unfold lv_ph5. cbv zeta. intros H Hc. destruct (ft =? FLUSH_FULL) eqn:E; lv_b2z.
  - destruct (lv_segs_track _ _ _ _ _ _ _ _ _ H Hc) as (Hx & Hr & Hw). cbn [f_st] in Hx.
    split; [exact Hx|]. split; [exact Hr|]. intros _. exact Hw.
  - inversion H; subst sb' a. cbn [f_st]. split; [apply lv_ext_refl; exact Hc|].
    split; [apply lv_seg_rel_refl_list|]. intros F; contradiction.
Qed.

Lemma lv_ph4_frame k k' ft :
  snd_queue k' = snd_queue k -> snd_buf k' = snd_buf k -> conv k' = conv k ->
  snd_una k' = snd_una k -> snd_nxt k' = snd_nxt k -> snd_wnd k' = snd_wnd k ->
  rmt_wnd k' = rmt_wnd k -> nocwnd k' = nocwnd k -> cwnd k' = cwnd k ->
  lv_ph4 k' ft = lv_ph4 k ft.
Proof.
  intros E1 E2 E3 E4 E5 E6 E7 E8 E9. unfold lv_ph4, lv_cw.
  rewrite E1, E2, E3, E4, E5, E6, E7, E8, E9. reflexivity.
Qed.

Definition lv_due (now : Z) (s : seg) : Prop :=
  s_acked s <> 1 /\ (s_xmit s = 0 \/ itimediff now (s_resendts s) >= 0).

Definition lv_pushed (o : list bytes) (s : seg) : Prop :=
  exists w, lv_emits o w /\ s_cmd w = s_cmd s /\ s_sn w = s_sn s /\ s_frg w = s_frg s /\ s_data w = s_data s.

Lemma lv_flush_spec k ft now k' nx o :
  flush k ft now = Ok (k', nx, o) ->
  exists h1 sq sb nxt ns sb',
    lv_same_hdr (lv_h0 k) h1 /\
    ((ft = FLUSH_FULL \/ ft = FLUSH_ACKONLY) ->
       acklist k' = [] /\
       (forall sn ts, In (sn, ts) (acklist k) -> itimediff sn (rcv_nxt k) >= 0 ->
                      exists s, lv_emits o s /\ lv_ackseg (lv_h0 k) sn ts s) /\
       (forall sn ts l, acklist k = l ++ [(sn, ts)] ->
                      exists s, lv_emits o s /\ lv_ackseg (lv_h0 k) sn ts s)) /\
    (Z.land (probe (lv_ph2 k now)) c_IKCP_ASK_SEND <> 0 -> lv_emits o (lv_hdr h1 c_IKCP_CMD_WASK)) /\
    (Z.land (probe (lv_ph2 k now)) c_IKCP_ASK_TELL <> 0 -> lv_emits o (lv_hdr h1 c_IKCP_CMD_WINS)) /\
    lv_ph4 k ft = (sq, sb, nxt, ns) /\
    Forall2 lv_seg_rel sb sb' /\
    (ft = FLUSH_FULL -> forall s, In s sb -> lv_due now s -> lv_pushed o s) /\
    probe k' = 0 /\ probe_wait k' = probe_wait (lv_ph2 k now) /\ ts_probe k' = ts_probe (lv_ph2 k now) /\
    snd_queue k' = sq /\ snd_buf k' = sb' /\ snd_nxt k' = nxt.
Proof.
  intros H.
  destruct (lv_invert _ _ _ _ _ _ H)
    as (h1 & st1 & k1 & st2 & st3 & sq & sb & nxt & ns & sb' & a & E1 & E2 & E3 & E4 & E5 & Ek & Enx & Eo).
  destruct (lv_ph1_track _ _ _ _ _ E1) as (Hc1 & Hsh & (al & Hk1 & Hal) & Hacks).
  subst k1. rewrite lv_ph2_acklist in *.
  destruct (lv_ph3_track _ _ _ _ _ _ E2 Hc1) as (Hx2 & Hwask).
  destruct (lv_ph3_track _ _ _ _ _ _ E3 (proj1 Hx2)) as (Hx3 & Hwins).
  destruct (lv_ph5_track _ _ _ _ _ _ _ _ E5 (proj1 Hx3)) as (Hx5 & Hrel & Hpush).
  assert (Hfin : forall s, lv_has st1 s -> lv_emits o s).
  { intros s Hs. subst o. apply lv_buffer_emits. apply (proj2 Hx5), (proj2 Hx3), (proj2 Hx2). exact Hs. }
  assert (Hfin2 : forall s, lv_has st2 s -> lv_emits o s).
  { intros s Hs. subst o. apply lv_buffer_emits. apply (proj2 Hx5), (proj2 Hx3). exact Hs. }
  assert (Hfin3 : forall s, lv_has st3 s -> lv_emits o s).
  { intros s Hs. subst o. apply lv_buffer_emits. apply (proj2 Hx5). exact Hs. }
  assert (Hfin5 : forall s, lv_has (f_st a) s -> lv_emits o s).
  { intros s Hs. subst o. apply lv_buffer_emits. exact Hs. }
  (* the final state, field by field *)
  destruct (lv_ph6_shape (lv_k5 (lv_k4 (set_probe_flags (set_acklist (lv_ph2 k now) al) 0) sq sb nxt) sb' a) a
              (lv_cw (set_probe_flags (set_acklist (lv_ph2 k now) al) 0))
              (lv_resent (lv_k4 (set_probe_flags (set_acklist (lv_ph2 k now) al) 0) sq sb nxt)))
    as (sst & cwn & inc & E6).
  rewrite E6 in Ek. clear E6.
  destruct (lv_k5_shape (lv_k4 (set_probe_flags (set_acklist (lv_ph2 k now) al) 0) sq sb nxt) sb' a) as (stt & E5').
  rewrite E5' in Ek. clear E5'. unfold lv_k4 in Ek.
  destruct (lv_ph2_shape k now) as (pp & ptsp & ppw & Eph2).
  exists h1, sq, sb, nxt, ns, sb'.
  split; [exact Hsh|].
  split.
  { intros Hft. destruct (Hacks Hft) as (Hall & Hlast). specialize (Hal Hft). subst al.
    split; [subst k'; reflexivity|]. split.
    - intros sn ts Hin Hge. destruct (Hall sn ts Hin Hge) as (s & Hs & Ha). exists s. split; [apply Hfin; exact Hs|exact Ha].
    - intros sn ts l Hl. destruct (Hlast sn ts l Hl) as (s & Hs & Ha). exists s. split; [apply Hfin; exact Hs|exact Ha]. }
  split.
  { intros Hn. apply Hfin2. apply Hwask. exact Hn. }
  split.
  { intros Hn. apply Hfin3. apply Hwins. exact Hn. }
  split.
  { rewrite <- E4. symmetry. apply lv_ph4_frame; rewrite Eph2; reflexivity. }
  split.
  { exact Hrel. }
  split.
  { intros Hft s Hin (Hna & Hd). destruct (Hpush Hft s Hin Hna Hd) as (w & Hw & Hp).
    exists w. split; [apply Hfin5; exact Hw|exact Hp]. }
  subst k'. ksimpl. repeat split; reflexivity.
Qed.

(* ------------------------------------------------------------------ *)
(* 4. wire round trip, and input_seg on an encoded segment             *)
(* ------------------------------------------------------------------ *)
Lemma lv_firstn_len_app (T : Type) (A B : list T) : firstn (length A) (A ++ B) = A.
Proof. induction A as [|x A IH]; cbn [length firstn app]; [destruct B; reflexivity|rewrite IH; reflexivity]. Qed.

Lemma lv_skipn_len_app (T : Type) (A B : list T) : skipn (length A) (A ++ B) = B.
Proof. induction A as [|x A IH]; cbn [length skipn app]; [reflexivity|exact IH]. Qed.

Lemma lv_take_app (a b : bytes) : take (blen a) (a ++ b) = a.
Proof. unfold take, blen. rewrite Nat2Z.id. apply lv_firstn_len_app. Qed.

Lemma lv_drop_app (a b : bytes) : drop (blen a) (a ++ b) = b.
Proof. unfold drop, blen. rewrite Nat2Z.id. apply lv_skipn_len_app. Qed.

Lemma lv_skip6 s rest :
  skipn 6 (encode_seg s ++ rest) =
  le16 (s_wnd s) ++ (le32 (s_ts s) ++ (le32 (s_sn s) ++ (le32 (s_una s) ++
     (le32 (blen (s_data s)) ++ (s_data s ++ rest))))).
Proof. reflexivity. Qed.
Lemma lv_skip8 s rest :
  skipn 8 (encode_seg s ++ rest) =
  le32 (s_ts s) ++ (le32 (s_sn s) ++ (le32 (s_una s) ++ (le32 (blen (s_data s)) ++ (s_data s ++ rest)))).
Proof. reflexivity. Qed.
Lemma lv_skip12 s rest :
  skipn 12 (encode_seg s ++ rest) =
  le32 (s_sn s) ++ (le32 (s_una s) ++ (le32 (blen (s_data s)) ++ (s_data s ++ rest))).
Proof. reflexivity. Qed.
Lemma lv_skip16 s rest :
  skipn 16 (encode_seg s ++ rest) = le32 (s_una s) ++ (le32 (blen (s_data s)) ++ (s_data s ++ rest)).
Proof. reflexivity. Qed.
Lemma lv_skip20 s rest :
  skipn 20 (encode_seg s ++ rest) = le32 (blen (s_data s)) ++ (s_data s ++ rest).
Proof. reflexivity. Qed.
Lemma lv_skip24 s rest : skipn 24 (encode_seg s ++ rest) = s_data s ++ rest.
Proof. reflexivity. Qed.
Lemma lv_skip0 s rest :
  encode_seg s ++ rest = le32 (s_conv s) ++ (s_cmd s :: s_frg s :: skipn 6 (encode_seg s ++ rest)).
Proof. reflexivity. Qed.

(* the header decoding of input_seg on an encoded well-formed segment *)
Lemma lv_decode_encode s rest : seg_wf s ->
  let data := encode_seg s ++ rest in
  rd32 data = s_conv s /\ nth 4 data 0 = s_cmd s /\ nth 5 data 0 = s_frg s /\
  rd16 (skipn 6 data) = s_wnd s /\ rd32 (skipn 8 data) = s_ts s /\
  rd32 (skipn 12 data) = s_sn s /\ rd32 (skipn 16 data) = s_una s /\
  rd32 (skipn 20 data) = blen (s_data s) /\
  skipn 24 data = s_data s ++ rest.
Proof.
  intros (Wc & Wcmd & Wfrg & Wwnd & Wts & Wsn & Wuna & Wd & Wlen). cbv zeta.
  assert (Hl : 0 <= blen (s_data s) < W32).
  { pose proof (blen_nonneg (s_data s)). unfold c_mtuLimit, W32 in *. lia. }
  split; [rewrite lv_skip0; apply rd32_le32; exact Wc|].
  split; [reflexivity|]. split; [reflexivity|].
  split; [rewrite lv_skip6; apply rd16_le16; exact Wwnd|].
  split; [rewrite lv_skip8; apply rd32_le32; exact Wts|].
  split; [rewrite lv_skip12; apply rd32_le32; exact Wsn|].
  split; [rewrite lv_skip16; apply rd32_le32; exact Wuna|].
  split; [rewrite lv_skip20; apply rd32_le32; exact Hl|].
  reflexivity.
Qed.

(* input_seg after the header has been decoded and accepted *)
Definition lv_in_tail (a : inp) (s : seg) (rest : bytes) (regular : bool) : res (inp * bytes) + Z :=
  let k := i_k a in
  let k := if regular then set_rmt_wnd k (s_wnd s) else k in
  let '(k, cnt) := parse_una k (s_una s) in
  let fl1 := (cnt >? 0) || i_flush a in
  let k := shrink_buf k in
  if s_cmd s =? c_IKCP_CMD_ACK then
    let k := parse_ack k (s_sn s) in
    let '(k, f) := parse_fastack k (s_sn s) (s_ts s) in
    let k := shrink_buf k in
    inl (Ok (mkInp k (s_ts s) true (f || fl1), rest))
  else if s_cmd s =? c_IKCP_CMD_PUSH then
    if itimediff (s_sn s) (u32 (rcv_nxt k + rcv_wnd k)) <? 0 then
      let k := set_acklist k (acklist k ++ [(s_sn s, s_ts s)]) in
      if itimediff (s_sn s) (rcv_nxt k) >=? 0 then
        match parse_data k (mkSeg (s_conv s) (s_cmd s) (s_frg s) (s_wnd s) (s_ts s) (s_sn s) (s_una s)
                                  0 0 0 0 0 (s_data s)) with
        | Panic w => inl (Panic w)
        | Ok (k, _) => inl (Ok (mkInp k (i_latest a) (i_rtt a) fl1, rest))
        end
      else inl (Ok (mkInp k (i_latest a) (i_rtt a) fl1, rest))
    else inl (Ok (mkInp k (i_latest a) (i_rtt a) fl1, rest))
  else if s_cmd s =? c_IKCP_CMD_WASK then
    inl (Ok (mkInp (set_probe_flags k (Z.lor (probe k) c_IKCP_ASK_TELL)) (i_latest a) (i_rtt a) fl1, rest))
  else inl (Ok (mkInp k (i_latest a) (i_rtt a) fl1, rest)).

Lemma lv_input_seg_eq a s rest regular :
  seg_wf s -> s_conv s = conv (i_k a) -> cmd_ok (s_cmd s) ->
  input_seg a (encode_seg s ++ rest) regular = lv_in_tail a s rest regular.
Proof.
  intros Hwf Hcv Hcmd.
  destruct (lv_decode_encode s rest Hwf) as (D1 & D2 & D3 & D4 & D5 & D6 & D7 & D8 & D9).
  pose proof Hwf as (_ & _ & _ & _ & _ & _ & _ & _ & Wlen).
  unfold input_seg, lv_in_tail. cbv zeta.
  rewrite D1, D2, D3, D4, D5, D6, D7, D8, D9.
  rewrite lv_take_app, lv_drop_app.
  rewrite Hcv, Z.eqb_refl. cbn [negb].
  assert (E1 : (blen (s_data s ++ rest) <? blen (s_data s)) || (blen (s_data s) >? c_mtuLimit) = false).
  { apply orb_false_iff. rewrite blen_app. pose proof (blen_nonneg rest). split.
    - apply Z.ltb_ge. lia.
    - rewrite Z.gtb_ltb. apply Z.ltb_ge. exact Wlen. }
  rewrite E1.
  assert (E2 : negb ((s_cmd s =? c_IKCP_CMD_PUSH) || (s_cmd s =? c_IKCP_CMD_ACK) ||
                     (s_cmd s =? c_IKCP_CMD_WASK) || (s_cmd s =? c_IKCP_CMD_WINS)) = false).
  { destruct Hcmd as [E|[E|[E|E]]]; rewrite E; reflexivity. }
  rewrite E2. rewrite <- Hcv. reflexivity.
Qed.

(* ---- what the acknowledgement bookkeeping leaves alone ---- *)
Definition lv_fr (k : kcp) :=
  (conv k, rcv_nxt k, rcv_wnd k, rmt_wnd k, acklist k, probe k, (rcv_queue k, rcv_buf k)).

Lemma lv_fr_parse_una k una : lv_fr (fst (parse_una k una)) = lv_fr k.
Proof. unfold parse_una. destruct (una_walk una (snd_buf k)) as [l c]. reflexivity. Qed.

Lemma lv_fr_shrink_buf k : lv_fr (shrink_buf k) = lv_fr k.
Proof.
  unfold shrink_buf. cbv zeta.
  destruct (snd_buf (set_snd_buf k (drop_acked (snd_buf k)))); reflexivity.
Qed.

Lemma lv_fr_parse_ack k sn : lv_fr (parse_ack k sn) = lv_fr k.
Proof.
  unfold parse_ack.
  destruct ((itimediff sn (snd_una k) <? 0) || (itimediff sn (snd_nxt k) >=? 0)); reflexivity.
Qed.

Lemma lv_fr_parse_fastack k sn ts : lv_fr (fst (parse_fastack k sn ts)) = lv_fr k.
Proof.
  unfold parse_fastack.
  destruct ((itimediff sn (snd_una k) <? 0) || (itimediff sn (snd_nxt k) >=? 0)); [reflexivity|].
  destruct (fastack_walk sn ts (fastresend k) (snd_buf k)) as [l f]. reflexivity.
Qed.

Lemma lv_parse_data_acklist k s k' f : parse_data k s = Ok (k', f) -> acklist k' = acklist k.
Proof.
  unfold parse_data. intros H.
  destruct ((itimediff (s_sn s) (u32 (rcv_nxt k + rcv_wnd k)) >=? 0) || (itimediff (s_sn s) (rcv_nxt k) <? 0)).
  { inversion H; reflexivity. }
  destruct (has_sn (s_sn s) (rcv_buf k)).
  { inversion H; subst. apply (do_move_ready_fields k). }
  destruct (blen (s_data s) >? c_mtuLimit); [discriminate|].
  inversion H; subst. destruct (do_move_ready_fields (set_rcv_buf k (insert_seg s (rcv_buf k)))) as
    (_ & _ & _ & _ & _ & _ & _ & _ & _ & _ & _ & _ & _ & _ & Ha & _). rewrite Ha. reflexivity.
Qed.

(* the state the command-specific part of input_seg starts from *)
Definition lv_pre (a : inp) (s : seg) (regular : bool) : kcp :=
  shrink_buf (fst (parse_una (if regular then set_rmt_wnd (i_k a) (s_wnd s) else i_k a) (s_una s))).

Lemma lv_fr_pre a s regular :
  lv_fr (lv_pre a s regular) = lv_fr (if regular then set_rmt_wnd (i_k a) (s_wnd s) else i_k a).
Proof. unfold lv_pre. rewrite lv_fr_shrink_buf, lv_fr_parse_una. reflexivity. Qed.

Lemma lv_in_tail_pre a s rest regular :
  lv_in_tail a s rest regular =
  let k := lv_pre a s regular in
  let fl1 := (snd (parse_una (if regular then set_rmt_wnd (i_k a) (s_wnd s) else i_k a) (s_una s)) >? 0) || i_flush a in
  if s_cmd s =? c_IKCP_CMD_ACK then
    let k := parse_ack k (s_sn s) in
    let '(k, f) := parse_fastack k (s_sn s) (s_ts s) in
    let k := shrink_buf k in
    inl (Ok (mkInp k (s_ts s) true (f || fl1), rest))
  else if s_cmd s =? c_IKCP_CMD_PUSH then
    if itimediff (s_sn s) (u32 (rcv_nxt k + rcv_wnd k)) <? 0 then
      let k := set_acklist k (acklist k ++ [(s_sn s, s_ts s)]) in
      if itimediff (s_sn s) (rcv_nxt k) >=? 0 then
        match parse_data k (mkSeg (s_conv s) (s_cmd s) (s_frg s) (s_wnd s) (s_ts s) (s_sn s) (s_una s)
                                  0 0 0 0 0 (s_data s)) with
        | Panic w => inl (Panic w)
        | Ok (k, _) => inl (Ok (mkInp k (i_latest a) (i_rtt a) fl1, rest))
        end
      else inl (Ok (mkInp k (i_latest a) (i_rtt a) fl1, rest))
    else inl (Ok (mkInp k (i_latest a) (i_rtt a) fl1, rest))
  else if s_cmd s =? c_IKCP_CMD_WASK then
    inl (Ok (mkInp (set_probe_flags k (Z.lor (probe k) c_IKCP_ASK_TELL)) (i_latest a) (i_rtt a) fl1, rest))
  else inl (Ok (mkInp k (i_latest a) (i_rtt a) fl1, rest)).
Proof.
  unfold lv_in_tail, lv_pre. cbv zeta.
  destruct (parse_una (if regular then set_rmt_wnd (i_k a) (s_wnd s) else i_k a) (s_una s)) as [k1 cnt].
  reflexivity.
Qed.
