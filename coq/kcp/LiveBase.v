(* Helpers for Live.v (C02 eventual delivery, C03 flow control).  All names prefixed lv_.
   Self-contained over Kcp / Step / Net / InvBase:
   1. flush split into phases (same decomposition as InvFlushBase, repeated here so that this
      file does not depend on a file still being finished);
   2. stage tracking: whatever stage_write puts into the stage ends up inside exactly one emitted
      datagram that is a concatenation of encoded segments;
   3. which fields flush leaves alone;
   4. wire round trip and the header part of input_seg;
   5. the `state` field is write-only (no transition reads it);
   6. probe_wait is touched by flush only. *)
From Coq Require Import ZArith List Bool Lia.
From KV.Base Require Import Consts Word WordLemmas.
From KV.Kcp Require Import Kcp Step Net InvBase.
Import ListNotations.
Local Open Scope Z_scope.

Ltac Zify.zify_post_hook ::= Z.div_mod_to_equations.

(* ------------------------------------------------------------------ *)
(* 0. tactics                                                          *)
(* ------------------------------------------------------------------ *)
Ltac lv_b2z :=
  repeat match goal with
  | H : (_ >? _) = true |- _ => apply Z.gtb_lt in H
  | H : (_ >? _) = false |- _ => rewrite Z.gtb_ltb in H; apply Z.ltb_ge in H
  | H : (_ <? _) = true |- _ => apply Z.ltb_lt in H
  | H : (_ <? _) = false |- _ => apply Z.ltb_ge in H
  | H : (_ >=? _) = true |- _ => rewrite Z.geb_leb in H; apply Z.leb_le in H
  | H : (_ >=? _) = false |- _ => rewrite Z.geb_leb in H; apply Z.leb_gt in H
  | H : (_ <=? _) = true |- _ => apply Z.leb_le in H
  | H : (_ <=? _) = false |- _ => apply Z.leb_gt in H
  | H : (_ =? _) = true |- _ => apply Z.eqb_eq in H
  | H : (_ =? _) = false |- _ => apply Z.eqb_neq in H
  end.

Ltac lv_segf :=
  cbn [s_conv s_cmd s_frg s_wnd s_ts s_sn s_una s_rto s_xmit s_resendts s_fastack s_acked s_data].
Ltac lv_segf_in H :=
  cbn [s_conv s_cmd s_frg s_wnd s_ts s_sn s_una s_rto s_xmit s_resendts s_fastack s_acked s_data] in H.

Lemma lv_encode_len s : blen (encode_seg s) = c_IKCP_OVERHEAD + blen (s_data s).
Proof.
  unfold encode_seg, blen, c_IKCP_OVERHEAD. rewrite !app_length.
  cbn [length le32 le16]. lia.
Qed.

(* ------------------------------------------------------------------ *)
(* 1. flush, phase by phase                                            *)
(* ------------------------------------------------------------------ *)
Definition lv_h0 (k : kcp) : seg :=
  mkSeg (conv k) c_IKCP_CMD_ACK 0 (wnd_unused k) 0 0 (rcv_nxt k) 0 0 0 0 0 [].

Definition lv_ph1 (k : kcp) (ft : Z) : res (seg * stage * kcp) :=
  if (ft =? FLUSH_ACKONLY) || (ft =? FLUSH_FULL)
  then match flush_acks k (lv_h0 k) (mkStage [] []) (acklist k) with
       | Ok (h, st) => Ok (h, st, set_acklist k [])
       | Panic w => Panic w
       end
  else Ok (lv_h0 k, mkStage [] [], k).

Definition lv_ph2 (k1 : kcp) (now : Z) : kcp :=
  if rmt_wnd k1 =? 0 then
    if probe_wait k1 =? 0 then set_probe k1 (probe k1) (u32 (now + c_IKCP_PROBE_INIT)) c_IKCP_PROBE_INIT
    else if itimediff now (ts_probe k1) >=? 0 then
      let pw := if probe_wait k1 <? c_IKCP_PROBE_INIT then c_IKCP_PROBE_INIT else probe_wait k1 in
      let pw := u32 (pw + pw / 2) in
      let pw := if pw >? c_IKCP_PROBE_LIMIT then c_IKCP_PROBE_LIMIT else pw in
      set_probe k1 (Z.lor (probe k1) c_IKCP_ASK_SEND) (u32 (now + pw)) pw
    else k1
  else set_probe k1 (probe k1) 0 0.

Definition lv_hdr (h1 : seg) (c : Z) : seg :=
  mkSeg (s_conv h1) c (s_frg h1) (s_wnd h1) (s_ts h1) (s_sn h1) (s_una h1) 0 0 0 0 0 [].

Definition lv_ph3 (k2 : kcp) (h1 : seg) (st : stage) (flag c : Z) : res stage :=
  if negb (Z.land (probe k2) flag =? 0)
  then stage_write k2 (make_space k2 st c_IKCP_OVERHEAD) (lv_hdr h1 c)
  else Ok st.

Definition lv_cw (k3 : kcp) : Z :=
  let cw0 := Z.min (snd_wnd k3) (rmt_wnd k3) in
  if nocwnd k3 =? 0 then Z.min (cwnd k3) cw0 else cw0.

Definition lv_ph4 (k3 : kcp) (ft : Z) : list seg * list seg * Z * Z :=
  if ft =? FLUSH_FULL
  then admit_segs (snd_queue k3) (snd_buf k3) (conv k3) (snd_una k3) (snd_nxt k3) (lv_cw k3) 0
  else (snd_queue k3, snd_buf k3, snd_nxt k3, 0).

Definition lv_k4 (k3 : kcp) (sq sb : list seg) (nxt : Z) : kcp :=
  set_snd_nxt (set_queues k3 sq (rcv_queue k3) sb (rcv_buf k3)) nxt.

Definition lv_resent (k4 : kcp) : Z :=
  if fastresend k4 <=? 0 then 4294967295 else u32 (fastresend k4).

Definition lv_ph5 (k4 : kcp) (h1 : seg) (ft newsegs now : Z) (st3 : stage) : res (list seg * fl) :=
  let a0 := mkFl st3 0 0 0 0 (interval k4) false in
  if ft =? FLUSH_FULL
  then flush_segs k4 h1 (lv_resent k4) newsegs now (snd_buf k4) a0
  else Ok (snd_buf k4, a0).

Definition lv_k5 (k4 : kcp) (sb' : list seg) (a : fl) : kcp :=
  let k5 := set_snd_buf k4 sb' in
  if f_dead a then set_timer k5 4294967295 (ts_flush k5) (updated k5) else k5.

Definition lv_ph6 (k5 : kcp) (a : fl) (cw resent : Z) : kcp :=
  if nocwnd k5 =? 0 then
    let k := k5 in
    let k := if f_change a >? 0 then
               let inflight := u32 (snd_nxt k - snd_una k) in
               let sst := Z.max (inflight / 2) c_IKCP_THRESH_MIN in
               let cwn := u32 (sst + resent) in
               set_cc k sst (rmt_wnd k) cwn (u32 (cwn * mss k))
             else k in
    let k := if f_lost a >? 0 then set_cc k (Z.max (cw / 2) c_IKCP_THRESH_MIN) (rmt_wnd k) 1 (mss k) else k in
    if cwnd k <? 1 then set_cc k (ssthresh k) (rmt_wnd k) 1 (mss k) else k
  else k5.

Lemma lv_unfold k ft now :
  flush k ft now =
  match lv_ph1 k ft with
  | Panic w => Panic w
  | Ok (h1, st1, k1) =>
    let k2 := lv_ph2 k1 now in
    match lv_ph3 k2 h1 st1 c_IKCP_ASK_SEND c_IKCP_CMD_WASK with
    | Panic w => Panic w
    | Ok st2 =>
    match lv_ph3 k2 h1 st2 c_IKCP_ASK_TELL c_IKCP_CMD_WINS with
    | Panic w => Panic w
    | Ok st3 =>
    let k3 := set_probe_flags k2 0 in
    let '(sq, sb, nxt, newsegs) := lv_ph4 k3 ft in
    let k4 := lv_k4 k3 sq sb nxt in
    match lv_ph5 k4 h1 ft newsegs now st3 with
    | Panic w => Panic w
    | Ok (sb', a) =>
      Ok (lv_ph6 (lv_k5 k4 sb' a) a (lv_cw k3) (lv_resent k4), f_next a, flush_buffer (f_st a))
    end end end
  end.
Proof.
  (* plain `reflexivity` does not terminate; after unfolding both sides are syntactically equal *)
  unfold flush, lv_ph1, lv_ph3, lv_ph4, lv_ph5, lv_k4, lv_k5, lv_ph6, lv_cw, lv_resent, lv_hdr, lv_h0, lv_ph2.
  cbv zeta. reflexivity.
Qed.

Lemma lv_invert k ft now k' nx o :
  flush k ft now = Ok (k', nx, o) ->
  exists h1 st1 k1 st2 st3 sq sb nxt ns sb' a,
    lv_ph1 k ft = Ok (h1, st1, k1) /\
    lv_ph3 (lv_ph2 k1 now) h1 st1 c_IKCP_ASK_SEND c_IKCP_CMD_WASK = Ok st2 /\
    lv_ph3 (lv_ph2 k1 now) h1 st2 c_IKCP_ASK_TELL c_IKCP_CMD_WINS = Ok st3 /\
    lv_ph4 (set_probe_flags (lv_ph2 k1 now) 0) ft = (sq, sb, nxt, ns) /\
    lv_ph5 (lv_k4 (set_probe_flags (lv_ph2 k1 now) 0) sq sb nxt) h1 ft ns now st3 = Ok (sb', a) /\
    k' = lv_ph6 (lv_k5 (lv_k4 (set_probe_flags (lv_ph2 k1 now) 0) sq sb nxt) sb' a) a
                (lv_cw (set_probe_flags (lv_ph2 k1 now) 0))
                (lv_resent (lv_k4 (set_probe_flags (lv_ph2 k1 now) 0) sq sb nxt)) /\
    nx = f_next a /\ o = flush_buffer (f_st a).
Proof.
  rewrite lv_unfold. intros H.
  destruct (lv_ph1 k ft) as [[[h1 st1] k1]|w]; [|discriminate]. cbv zeta in H.
  destruct (lv_ph3 (lv_ph2 k1 now) h1 st1 c_IKCP_ASK_SEND c_IKCP_CMD_WASK) as [st2|w] eqn:E2; [|discriminate].
  destruct (lv_ph3 (lv_ph2 k1 now) h1 st2 c_IKCP_ASK_TELL c_IKCP_CMD_WINS) as [st3|w] eqn:E3; [|discriminate].
  destruct (lv_ph4 (set_probe_flags (lv_ph2 k1 now) 0) ft) as [[[sq sb] nxt] ns] eqn:E4.
  destruct (lv_ph5 (lv_k4 (set_probe_flags (lv_ph2 k1 now) 0) sq sb nxt) h1 ft ns now st3) as [[sb' a]|w] eqn:E5; [|discriminate].
  inversion H; subst.
  exists h1, st1, k1, st2, st3, sq, sb, nxt, ns, sb', a. repeat split; assumption.
Qed.

(* shapes: every phase is one record update *)
Lemma lv_set_acklist_id k : set_acklist k (acklist k) = k.
Proof. destruct k; reflexivity. Qed.
Lemma lv_set_probe_id k : set_probe k (probe k) (ts_probe k) (probe_wait k) = k.
Proof. destruct k; reflexivity. Qed.
Lemma lv_set_timer_id k : set_timer k (state k) (ts_flush k) (updated k) = k.
Proof. destruct k; reflexivity. Qed.
Lemma lv_set_cc_id k : set_cc k (ssthresh k) (rmt_wnd k) (cwnd k) (incr k) = k.
Proof. destruct k; reflexivity. Qed.
Lemma lv_set_cc_cc k a b c a' b' c' :
  set_cc (set_cc k a (rmt_wnd k) b c) a' (rmt_wnd (set_cc k a (rmt_wnd k) b c)) b' c' =
  set_cc k a' (rmt_wnd k) b' c'.
Proof. destruct k; reflexivity. Qed.

Lemma lv_ph1_shape k ft h1 st1 k1 :
  lv_ph1 k ft = Ok (h1, st1, k1) ->
  exists al, k1 = set_acklist k al /\ (ft = FLUSH_FULL \/ ft = FLUSH_ACKONLY -> al = []).
Proof.
  unfold lv_ph1. intros H.
  destruct ((ft =? FLUSH_ACKONLY) || (ft =? FLUSH_FULL)) eqn:E.
  - destruct (flush_acks k (lv_h0 k) (mkStage [] []) (acklist k)) as [[h st]|w]; [|discriminate].
    inversion H; subst. exists []. split; [reflexivity|]. intros _; reflexivity.
  - inversion H; subst. exists (acklist k1). split; [symmetry; apply lv_set_acklist_id|].
    apply orb_false_iff in E. destruct E as (E1 & E2). lv_b2z. intros [F|F]; contradiction.
Qed.

Lemma lv_ph2_shape k1 now : exists p tsp pw, lv_ph2 k1 now = set_probe k1 p tsp pw.
Proof.
  unfold lv_ph2. destruct (rmt_wnd k1 =? 0).
  - destruct (probe_wait k1 =? 0); [do 3 eexists; reflexivity|].
    destruct (itimediff now (ts_probe k1) >=? 0); [do 3 eexists; reflexivity|].
    exists (probe k1), (ts_probe k1), (probe_wait k1). symmetry. apply lv_set_probe_id.
  - do 3 eexists; reflexivity.
Qed.

Lemma lv_ph2_acklist k al now : lv_ph2 (set_acklist k al) now = set_acklist (lv_ph2 k now) al.
Proof.
  unfold lv_ph2. ksimpl.
  destruct (rmt_wnd k =? 0); [|reflexivity].
  destruct (probe_wait k =? 0); [reflexivity|].
  destruct (itimediff now (ts_probe k) >=? 0); reflexivity.
Qed.

Lemma lv_k5_shape k4 sb' a :
  exists st, lv_k5 k4 sb' a =
             set_timer (set_snd_buf k4 sb') st (ts_flush (set_snd_buf k4 sb')) (updated (set_snd_buf k4 sb')).
Proof.
  unfold lv_k5. cbv zeta. destruct (f_dead a); [eexists; reflexivity|].
  exists (state (set_snd_buf k4 sb')). symmetry. apply lv_set_timer_id.
Qed.

Lemma lv_ph6_shape k5 a cw resent :
  exists sst cwn inc, lv_ph6 k5 a cw resent = set_cc k5 sst (rmt_wnd k5) cwn inc.
Proof.
  unfold lv_ph6. destruct (nocwnd k5 =? 0).
  - cbv zeta.
    assert (S1 : exists s w i,
      (if f_change a >? 0
       then set_cc k5 (Z.max (u32 (snd_nxt k5 - snd_una k5) / 2) c_IKCP_THRESH_MIN) (rmt_wnd k5)
              (u32 (Z.max (u32 (snd_nxt k5 - snd_una k5) / 2) c_IKCP_THRESH_MIN + resent))
              (u32 (u32 (Z.max (u32 (snd_nxt k5 - snd_una k5) / 2) c_IKCP_THRESH_MIN + resent) * mss k5))
       else k5) = set_cc k5 s (rmt_wnd k5) w i).
    { destruct (f_change a >? 0); [do 3 eexists; reflexivity|].
      exists (ssthresh k5), (cwnd k5), (incr k5). symmetry. apply lv_set_cc_id. }
    destruct S1 as (s1 & w1 & i1 & E1). rewrite E1.
    assert (S2 : exists s w i,
      (if f_lost a >? 0
       then set_cc (set_cc k5 s1 (rmt_wnd k5) w1 i1) (Z.max (cw / 2) c_IKCP_THRESH_MIN)
              (rmt_wnd (set_cc k5 s1 (rmt_wnd k5) w1 i1)) 1 (mss (set_cc k5 s1 (rmt_wnd k5) w1 i1))
       else set_cc k5 s1 (rmt_wnd k5) w1 i1) = set_cc k5 s (rmt_wnd k5) w i).
    { destruct (f_lost a >? 0); [|do 3 eexists; reflexivity].
      rewrite lv_set_cc_cc. do 3 eexists; reflexivity. }
    destruct S2 as (s2 & w2 & i2 & E2). rewrite E2.
    destruct (cwnd (set_cc k5 s2 (rmt_wnd k5) w2 i2) <? 1); [|do 3 eexists; reflexivity].
    rewrite lv_set_cc_cc. do 3 eexists; reflexivity.
  - exists (ssthresh k5), (cwnd k5), (incr k5). symmetry. apply lv_set_cc_id.
Qed.

(* ------------------------------------------------------------------ *)
(* 2. stage tracking                                                   *)
(* ------------------------------------------------------------------ *)
(* the pending datagram is a concatenation of encoded segments *)
Definition lv_cur_ok (st : stage) : Prop := exists segs, cur st = concat (map encode_seg segs).

(* segment s has been written into the stage: it sits in the pending datagram or in a finished one *)
Definition lv_has (st : stage) (s : seg) : Prop :=
  (exists segs, cur st = concat (map encode_seg segs) /\ In s segs) \/
  (exists d segs, In d (outs st) /\ d = concat (map encode_seg segs) /\ In s segs).

Definition lv_ext (st st' : stage) : Prop := lv_cur_ok st' /\ forall s, lv_has st s -> lv_has st' s.

(* segment s is on the wire, inside a datagram made of whole segments *)
Definition lv_emits (o : list bytes) (s : seg) : Prop :=
  exists d segs, In d o /\ d = concat (map encode_seg segs) /\ In s segs.

Lemma lv_stage0_ok : lv_cur_ok (mkStage [] []).
Proof. exists []. reflexivity. Qed.

Lemma lv_ext_refl st : lv_cur_ok st -> lv_ext st st.
Proof. intros H. split; [exact H|]. intros s Hs; exact Hs. Qed.

Lemma lv_ext_trans a b c : lv_ext a b -> lv_ext b c -> lv_ext a c.
Proof. intros (_ & H1) (Hc & H2). split; [exact Hc|]. intros s Hs. apply H2, H1, Hs. Qed.

Lemma lv_space_ext k st space : lv_cur_ok st -> lv_ext st (make_space k st space).
Proof.
  intros Hc. unfold make_space. destruct (blen (cur st) + space >? mtu k).
  - split; [exists []; reflexivity|]. intros s [(segs & Hs & Hi)|(d & segs & Hd & He & Hi)].
    + right. exists (cur st), segs. cbn [outs]. split; [left; reflexivity|]. split; assumption.
    + right. exists d, segs. cbn [outs]. split; [right; exact Hd|]. split; assumption.
  - apply lv_ext_refl. exact Hc.
Qed.

Lemma lv_write_ext k st s st' :
  lv_cur_ok st -> stage_write k st s = Ok st' -> lv_ext st st' /\ lv_has st' s.
Proof.
  intros (segs & Hc) Hw. unfold stage_write in Hw.
  destruct (blen (cur st) + c_IKCP_OVERHEAD + blen (s_data s) >? buflen k); [discriminate|].
  inversion Hw; subst st'. clear Hw.
  assert (Happ : forall l, cur st = concat (map encode_seg l) ->
                           cur st ++ encode_seg s = concat (map encode_seg (l ++ [s]))).
  { intros l Hl. rewrite map_app, concat_app. cbn [map concat]. rewrite app_nil_r, Hl. reflexivity. }
  split; [split|].
  - exists (segs ++ [s]). cbn [cur]. apply Happ. exact Hc.
  - intros x [(l & Hl & Hi)|(d & l & Hd & He & Hi)].
    + left. exists (l ++ [s]). cbn [cur]. split; [apply Happ; exact Hl|].
      apply in_or_app. left; exact Hi.
    + right. exists d, l. cbn [outs]. split; [exact Hd|]. split; assumption.
  - left. exists (segs ++ [s]). cbn [cur]. split; [apply Happ; exact Hc|].
    apply in_or_app. right. left; reflexivity.
Qed.

(* make room, then write *)
Lemma lv_space_write_ext k st space s st' :
  lv_cur_ok st -> stage_write k (make_space k st space) s = Ok st' -> lv_ext st st' /\ lv_has st' s.
Proof.
  intros Hc Hw. pose proof (lv_space_ext k st space Hc) as H1.
  destruct (lv_write_ext k _ s st' (proj1 H1) Hw) as (H2 & H3).
  split; [eapply lv_ext_trans; eassumption|exact H3].
Qed.

Lemma lv_enc_in_pos s segs : In s segs -> blen (concat (map encode_seg segs)) > 0.
Proof.
  induction segs as [|e t IH]; intros Hi; [contradiction|].
  cbn [map concat]. rewrite blen_app. pose proof (blen_nonneg (concat (map encode_seg t))).
  rewrite lv_encode_len. pose proof (blen_nonneg (s_data e)). unfold c_IKCP_OVERHEAD. lia.
Qed.

Lemma lv_buffer_emits st s : lv_has st s -> lv_emits (flush_buffer st) s.
Proof.
  unfold flush_buffer. intros [(segs & Hs & Hi)|(d & segs & Hd & He & Hi)].
  - exists (cur st), segs. split; [|split; assumption].
    apply in_rev. rewrite rev_involutive.
    pose proof (lv_enc_in_pos s segs Hi) as Hp. rewrite <- Hs in Hp.
    destruct (blen (cur st) >? 0) eqn:E; lv_b2z; [left; reflexivity|lia].
  - exists d, segs. split; [|split; assumption].
    apply in_rev. rewrite rev_involutive.
    destruct (blen (cur st) >? 0); [right; exact Hd|exact Hd].
Qed.

(* ---- phase 1 ---- *)
(* an ACK written with the header template h for the pair (sn, ts) *)
Definition lv_ackseg (h : seg) (sn ts : Z) (s : seg) : Prop :=
  s_conv s = s_conv h /\ s_cmd s = s_cmd h /\ s_wnd s = s_wnd h /\ s_una s = s_una h /\
  s_sn s = sn /\ s_ts s = ts.

Definition lv_same_hdr (h h' : seg) : Prop :=
  s_conv h' = s_conv h /\ s_cmd h' = s_cmd h /\ s_frg h' = s_frg h /\ s_wnd h' = s_wnd h /\ s_una h' = s_una h.

Lemma lv_ackseg_hdr h h' sn ts s : lv_same_hdr h h' -> lv_ackseg h' sn ts s -> lv_ackseg h sn ts s.
Proof.
  intros (A1 & A2 & A3 & A4 & A5) (B1 & B2 & B3 & B4 & B5 & B6).
  unfold lv_ackseg. rewrite B1, B2, B3, B4. repeat split; assumption.
Qed.

Lemma lv_acks_track k : forall al h st h' st',
  flush_acks k h st al = Ok (h', st') -> lv_cur_ok st ->
  lv_ext st st' /\ lv_same_hdr h h' /\
  (forall sn ts, In (sn, ts) al -> itimediff sn (rcv_nxt k) >= 0 ->
                 exists s, lv_has st' s /\ lv_ackseg h sn ts s) /\
  (forall sn ts l, al = l ++ [(sn, ts)] -> exists s, lv_has st' s /\ lv_ackseg h sn ts s).
Proof.
  induction al as [|[sn0 ts0] t IH]; intros h st h' st' Hf Hc.
  - cbn [flush_acks] in Hf. inversion Hf; subst h' st'.
    split; [apply lv_ext_refl; exact Hc|]. split; [repeat split|].
    split; [intros sn ts []|]. intros sn ts l Hl. destruct l; discriminate.
  - cbn [flush_acks] in Hf.
    destruct ((itimediff sn0 (rcv_nxt k) >=? 0) || match t with [] => true | _ :: _ => false end) eqn:E.
    + set (h1 := mkSeg (s_conv h) (s_cmd h) (s_frg h) (s_wnd h) ts0 sn0 (s_una h) 0 0 0 0 0 []) in *.
      destruct (stage_write k (make_space k st c_IKCP_OVERHEAD) h1) as [st2|w] eqn:Ew; [|discriminate].
      destruct (lv_space_write_ext k st c_IKCP_OVERHEAD h1 st2 Hc Ew) as (Hx & Hh1).
      destruct (IH h1 st2 h' st' Hf (proj1 Hx)) as (Hx2 & Hsh & Hall & Hlast).
      assert (Hs1 : lv_same_hdr h h1) by (unfold lv_same_hdr, h1; lv_segf; repeat split).
      assert (Hw1 : exists s, lv_has st' s /\ lv_ackseg h sn0 ts0 s).
      { exists h1. split; [apply (proj2 Hx2); exact Hh1|]. unfold lv_ackseg, h1; lv_segf. repeat split. }
      split; [eapply lv_ext_trans; eassumption|].
      split.
      { destruct Hs1 as (A1 & A2 & A3 & A4 & A5). destruct Hsh as (B1 & B2 & B3 & B4 & B5).
        unfold lv_same_hdr. rewrite B1, B2, B3, B4, B5. repeat split; assumption. }
      split.
      * intros sn ts [Heq|Hin] Hge.
        { inversion Heq; subst sn ts. exact Hw1. }
        destruct (Hall sn ts Hin Hge) as (s & Hs & Ha). exists s. split; [exact Hs|].
        eapply lv_ackseg_hdr; eassumption.
      * intros sn ts l Hl. destruct l as [|p l'].
        { cbn [app] in Hl. inversion Hl; subst sn ts. exact Hw1. }
        cbn [app] in Hl. inversion Hl as [[Hp Ht]].
        destruct (Hlast sn ts l' Ht) as (s & Hs & Ha). exists s. split; [exact Hs|].
        eapply lv_ackseg_hdr; eassumption.
    + apply orb_false_iff in E. destruct E as (E1 & E2). lv_b2z.
      pose proof (lv_space_ext k st c_IKCP_OVERHEAD Hc) as Hx.
      destruct (IH h _ h' st' Hf (proj1 Hx)) as (Hx2 & Hsh & Hall & Hlast).
      split; [eapply lv_ext_trans; eassumption|]. split; [exact Hsh|]. split.
      * intros sn ts [Heq|Hin] Hge.
        { inversion Heq; subst sn ts. lia. }
        exact (Hall sn ts Hin Hge).
      * intros sn ts l Hl. destruct l as [|p l'].
        { cbn [app] in Hl. inversion Hl; subst t. discriminate. }
        cbn [app] in Hl. inversion Hl as [[Hp Ht]]. exact (Hlast sn ts l' Ht).
Qed.

(* ---- phase 3 ---- *)
Lemma lv_ph3_track k2 h1 st flag c st' :
  lv_ph3 k2 h1 st flag c = Ok st' -> lv_cur_ok st ->
  lv_ext st st' /\ (Z.land (probe k2) flag <> 0 -> lv_has st' (lv_hdr h1 c)).
Proof.
  unfold lv_ph3. intros H Hc. destruct (Z.land (probe k2) flag =? 0) eqn:E; cbn [negb] in H; lv_b2z.
  - inversion H; subst st'. split; [apply lv_ext_refl; exact Hc|]. intros Hn; contradiction.
  - destruct (lv_space_write_ext k2 st c_IKCP_OVERHEAD _ st' Hc H) as (Hx & Hh).
    split; [exact Hx|]. intros _; exact Hh.
Qed.

(* ---- phase 5 ---- *)
(* the decision part of flush_seg *)
Definition lv_decide (k : kcp) (resent newsegs now : Z) (s : seg) (a : fl) : bool * Z * Z * Z * fl :=
  if s_xmit s =? 0 then
    (true, rx_rto k, u32 (now + rx_rto k), s_fastack s, a)
  else if (s_fastack s >=? resent) && negb (s_fastack s =? 4294967295) then
    (true, rx_rto k, u32 (now + rx_rto k), 4294967295,
     mkFl (f_st a) (f_change a + 1) (f_lost a) (f_fast a + 1) (f_early a) (f_next a) (f_dead a))
  else if (s_fastack s >? 0) && negb (s_fastack s =? 4294967295) && (newsegs =? 0) then
    (true, rx_rto k, u32 (now + rx_rto k), 4294967295,
     mkFl (f_st a) (f_change a + 1) (f_lost a) (f_fast a) (f_early a + 1) (f_next a) (f_dead a))
  else if itimediff now (s_resendts s) >=? 0 then
    let rto := if nodelay k =? 0 then u32 (s_rto s + rx_rto k) else u32 (s_rto s + rx_rto k / 2) in
    (true, rto, u32 (now + rto), 0,
     mkFl (f_st a) (f_change a) (f_lost a + 1) (f_fast a) (f_early a) (f_next a) (f_dead a))
  else (false, s_rto s, s_resendts s, s_fastack s, a).

Definition lv_finish (now : Z) (s' : seg) (a' : fl) : res (seg * fl) :=
  let d := itimediff (s_resendts s') now in
  let nx := if (d >? 0) && (d <? f_next a') then d else f_next a' in
  Ok (s', mkFl (f_st a') (f_change a') (f_lost a') (f_fast a') (f_early a') nx (f_dead a')).

(* the segment put on the wire *)
Definition lv_sent (h : seg) (now : Z) (s : seg) (rto rts fa : Z) : seg :=
  mkSeg (s_conv s) (s_cmd s) (s_frg s) (s_wnd h) now (s_sn s) (s_una h)
        rto (u32 (s_xmit s + 1)) rts fa (s_acked s) (s_data s).

Definition lv_kept (s : seg) (rto rts fa : Z) : seg :=
  mkSeg (s_conv s) (s_cmd s) (s_frg s) (s_wnd s) (s_ts s) (s_sn s) (s_una s)
        rto (s_xmit s) rts fa (s_acked s) (s_data s).

Lemma lv_flush_seg_unfold k h resent newsegs now s a :
  flush_seg k h resent newsegs now s a =
  if s_acked s =? 1 then Ok (s, a)
  else
    let '(needsend, rto, rts, fa, a1) := lv_decide k resent newsegs now s a in
    if needsend then
      match stage_write k (make_space k (f_st a1) (c_IKCP_OVERHEAD + blen (s_data s))) (lv_sent h now s rto rts fa) with
      | Panic w => Panic w
      | Ok st2 =>
          lv_finish now (lv_sent h now s rto rts fa)
            (mkFl st2 (f_change a1) (f_lost a1) (f_fast a1) (f_early a1) (f_next a1)
                  ((u32 (s_xmit s + 1) >=? dead_link k) || f_dead a1))
      end
    else lv_finish now (lv_kept s rto rts fa) a1.
Proof.
  unfold flush_seg, lv_decide, lv_finish, lv_sent, lv_kept.
  destruct (s_acked s =? 1); [reflexivity|].
  destruct (s_xmit s =? 0); [reflexivity|].
  destruct ((s_fastack s >=? resent) && negb (s_fastack s =? 4294967295)); [reflexivity|].
  destruct ((s_fastack s >? 0) && negb (s_fastack s =? 4294967295) && (newsegs =? 0)); [reflexivity|].
  destruct (itimediff now (s_resendts s) >=? 0); reflexivity.
Qed.

(* facts about the decision *)
Lemma lv_decide_st k resent newsegs now s a ns rto rts fa a1 :
  lv_decide k resent newsegs now s a = (ns, rto, rts, fa, a1) -> f_st a1 = f_st a /\ f_dead a1 = f_dead a.
Proof.
  unfold lv_decide. intros H.
  destruct (s_xmit s =? 0); [inversion H; subst; split; reflexivity|].
  destruct ((s_fastack s >=? resent) && negb (s_fastack s =? 4294967295)); [inversion H; subst; split; reflexivity|].
  destruct ((s_fastack s >? 0) && negb (s_fastack s =? 4294967295) && (newsegs =? 0)); [inversion H; subst; split; reflexivity|].
  destruct (itimediff now (s_resendts s) >=? 0); inversion H; subst; split; reflexivity.
Qed.

Lemma lv_decide_due k resent newsegs now s a ns rto rts fa a1 :
  lv_decide k resent newsegs now s a = (ns, rto, rts, fa, a1) ->
  s_xmit s = 0 \/ itimediff now (s_resendts s) >= 0 -> ns = true.
Proof.
  unfold lv_decide. intros H Hd.
  destruct (s_xmit s =? 0) eqn:E0; [inversion H; reflexivity|].
  destruct ((s_fastack s >=? resent) && negb (s_fastack s =? 4294967295)); [inversion H; reflexivity|].
  destruct ((s_fastack s >? 0) && negb (s_fastack s =? 4294967295) && (newsegs =? 0)); [inversion H; reflexivity|].
  destruct (itimediff now (s_resendts s) >=? 0) eqn:E3; [inversion H; reflexivity|].
  lv_b2z. destruct Hd as [Hd|Hd]; [contradiction|lia].
Qed.

(* what flush_seg keeps of a segment *)
Definition lv_seg_rel (s s' : seg) : Prop :=
  s_sn s' = s_sn s /\ s_data s' = s_data s /\ s_frg s' = s_frg s /\ s_conv s' = s_conv s /\
  s_cmd s' = s_cmd s /\ s_acked s' = s_acked s.

Lemma lv_seg_track k h resent newsegs now s a s' a' :
  flush_seg k h resent newsegs now s a = Ok (s', a') -> lv_cur_ok (f_st a) ->
  lv_ext (f_st a) (f_st a') /\ lv_seg_rel s s' /\
  (s_acked s <> 1 -> s_xmit s = 0 \/ itimediff now (s_resendts s) >= 0 ->
     exists w, lv_has (f_st a') w /\ s_cmd w = s_cmd s /\ s_sn w = s_sn s /\ s_frg w = s_frg s /\
               s_data w = s_data s).
Proof.
  rewrite lv_flush_seg_unfold. intros H Hc.
  destruct (s_acked s =? 1) eqn:Ea; lv_b2z.
  { inversion H; subst s' a'. split; [apply lv_ext_refl; exact Hc|]. split; [repeat split|].
    intros Hn; contradiction. }
  destruct (lv_decide k resent newsegs now s a) as [[[[ns rto] rts] fa] a1] eqn:D.
  destruct (lv_decide_st _ _ _ _ _ _ _ _ _ _ _ D) as (Dst & _).
  pose proof (lv_decide_due _ _ _ _ _ _ _ _ _ _ _ D) as Ddue.
  destruct ns.
  - destruct (stage_write k _ _) as [st2|w] eqn:Ew; [|discriminate].
    unfold lv_finish in H. inversion H; subst s' a'. cbn [f_st].
    rewrite Dst in Ew. destruct (lv_space_write_ext k (f_st a) _ _ st2 Hc Ew) as (Hx & Hh).
    split; [exact Hx|]. split; [unfold lv_seg_rel, lv_sent; lv_segf; repeat split|].
    intros _ _. eexists. split; [exact Hh|]. unfold lv_sent; lv_segf. repeat split.
  - unfold lv_finish in H. inversion H; subst s' a'. cbn [f_st]. rewrite Dst.
    split; [apply lv_ext_refl; exact Hc|]. split; [unfold lv_seg_rel, lv_kept; lv_segf; repeat split|].
    intros _ Hd. specialize (Ddue Hd). discriminate.
Qed.

Lemma lv_segs_track k h resent newsegs now : forall l a l' a',
  flush_segs k h resent newsegs now l a = Ok (l', a') -> lv_cur_ok (f_st a) ->
  lv_ext (f_st a) (f_st a') /\ Forall2 lv_seg_rel l l' /\
  (forall s, In s l -> s_acked s <> 1 -> s_xmit s = 0 \/ itimediff now (s_resendts s) >= 0 ->
     exists w, lv_has (f_st a') w /\ s_cmd w = s_cmd s /\ s_sn w = s_sn s /\ s_frg w = s_frg s /\
               s_data w = s_data s).
Proof.
  induction l as [|s t IH]; intros a l' a' H Hc; cbn [flush_segs] in H.
  - inversion H; subst. split; [apply lv_ext_refl; exact Hc|]. split; [constructor|]. intros s [].
  - destruct (flush_seg k h resent newsegs now s a) as [[s1 a1]|w] eqn:E1; [|discriminate].
    destruct (flush_segs k h resent newsegs now t a1) as [[t1 a2]|w] eqn:E2; [|discriminate].
    inversion H; subst l' a'.
    destruct (lv_seg_track _ _ _ _ _ _ _ _ _ E1 Hc) as (Hx1 & Hr1 & Hw1).
    destruct (IH _ _ _ E2 (proj1 Hx1)) as (Hx2 & Hr2 & Hw2).
    split; [eapply lv_ext_trans; eassumption|]. split; [constructor; assumption|].
    intros x [Heq|Hin] Hna Hd.
    + subst x. destruct (Hw1 Hna Hd) as (w & Hh & Hp). exists w. split; [apply (proj2 Hx2); exact Hh|exact Hp].
    + exact (Hw2 x Hin Hna Hd).
Qed.

Lemma lv_rel_length l l' : Forall2 lv_seg_rel l l' -> qlen l' = qlen l.
Proof.
  induction 1 as [|s s' t t' Hr Ht IH]; [reflexivity|]. rewrite !qlen_cons, IH. reflexivity.
Qed.

(* ------------------------------------------------------------------ *)
(* 3. flush as a whole                                                 *)
(* ------------------------------------------------------------------ *)
Lemma lv_seg_rel_refl s : lv_seg_rel s s.
Proof. repeat split. Qed.

Lemma lv_seg_rel_refl_list l : Forall2 lv_seg_rel l l.
Proof. induction l; constructor; [apply lv_seg_rel_refl|assumption]. Qed.

Lemma lv_same_hdr_refl h : lv_same_hdr h h.
Proof. repeat split. Qed.

Lemma lv_ph1_track k ft h1 st1 k1 :
  lv_ph1 k ft = Ok (h1, st1, k1) ->
  lv_cur_ok st1 /\ lv_same_hdr (lv_h0 k) h1 /\
  (exists al, k1 = set_acklist k al /\ (ft = FLUSH_FULL \/ ft = FLUSH_ACKONLY -> al = [])) /\
  (ft = FLUSH_FULL \/ ft = FLUSH_ACKONLY ->
     (forall sn ts, In (sn, ts) (acklist k) -> itimediff sn (rcv_nxt k) >= 0 ->
                    exists s, lv_has st1 s /\ lv_ackseg (lv_h0 k) sn ts s) /\
     (forall sn ts l, acklist k = l ++ [(sn, ts)] -> exists s, lv_has st1 s /\ lv_ackseg (lv_h0 k) sn ts s)).
Proof.
  intros H. pose proof (lv_ph1_shape k ft h1 st1 k1 H) as Hshape.
  unfold lv_ph1 in H. destruct ((ft =? FLUSH_ACKONLY) || (ft =? FLUSH_FULL)) eqn:E.
  - destruct (flush_acks k (lv_h0 k) (mkStage [] []) (acklist k)) as [[h st]|w] eqn:Ef; [|discriminate].
    inversion H; subst h st k1.
    destruct (lv_acks_track k _ _ _ _ _ Ef lv_stage0_ok) as (Hx & Hsh & Hall & Hlast).
    split; [exact (proj1 Hx)|]. split; [exact Hsh|]. split; [exact Hshape|].
    intros _. split; assumption.
  - inversion H; subst h1 st1 k1. split; [exact lv_stage0_ok|]. split; [apply lv_same_hdr_refl|].
    split; [exact Hshape|].
    apply orb_false_iff in E. destruct E as (E1 & E2). lv_b2z. intros [F|F]; contradiction.
Qed.

Lemma lv_ph5_track k4 h1 ft ns now st3 sb' a :
  lv_ph5 k4 h1 ft ns now st3 = Ok (sb', a) -> lv_cur_ok st3 ->
  lv_ext st3 (f_st a) /\ Forall2 lv_seg_rel (snd_buf k4) sb' /\
  (ft = FLUSH_FULL -> forall s, In s (snd_buf k4) -> s_acked s <> 1 ->
     s_xmit s = 0 \/ itimediff now (s_resendts s) >= 0 ->
     exists w, lv_has (f_st a) w /\ s_cmd w = s_cmd s /\ s_sn w = s_sn s /\ s_frg w = s_frg s /\
               s_data w = s_data s).
Proof.
  unfold lv_ph5. cbv zeta. intros H Hc. destruct (ft =? FLUSH_FULL) eqn:E; lv_b2z.
  - destruct (lv_segs_track _ _ _ _ _ _ _ _ _ H Hc) as (Hx & Hr & Hw). cbn [f_st] in Hx.
    split; [exact Hx|]. split; [exact Hr|]. intros _. exact Hw.
  - inversion H; subst sb' a. cbn [f_st]. split; [apply lv_ext_refl; exact Hc|].
    split; [apply lv_seg_rel_refl_list|]. intros F; contradiction.
Qed.

Lemma lv_ph4_frame k k' ft :
  snd_queue k' = snd_queue k -> snd_buf k' = snd_buf k -> conv k' = conv k ->
  snd_una k' = snd_una k -> snd_nxt k' = snd_nxt k -> snd_wnd k' = snd_wnd k ->
  rmt_wnd k' = rmt_wnd k -> nocwnd k' = nocwnd k -> cwnd k' = cwnd k ->
  lv_ph4 k' ft = lv_ph4 k ft.
Proof.
  intros E1 E2 E3 E4 E5 E6 E7 E8 E9. unfold lv_ph4, lv_cw.
  rewrite E1, E2, E3, E4, E5, E6, E7, E8, E9. reflexivity.
Qed.

Definition lv_due (now : Z) (s : seg) : Prop :=
  s_acked s <> 1 /\ (s_xmit s = 0 \/ itimediff now (s_resendts s) >= 0).

Definition lv_pushed (o : list bytes) (s : seg) : Prop :=
  exists w, lv_emits o w /\ s_cmd w = s_cmd s /\ s_sn w = s_sn s /\ s_frg w = s_frg s /\ s_data w = s_data s.

Lemma lv_flush_spec k ft now k' nx o :
  flush k ft now = Ok (k', nx, o) ->
  exists h1 sq sb nxt ns sb',
    lv_same_hdr (lv_h0 k) h1 /\
    ((ft = FLUSH_FULL \/ ft = FLUSH_ACKONLY) ->
       acklist k' = [] /\
       (forall sn ts, In (sn, ts) (acklist k) -> itimediff sn (rcv_nxt k) >= 0 ->
                      exists s, lv_emits o s /\ lv_ackseg (lv_h0 k) sn ts s) /\
       (forall sn ts l, acklist k = l ++ [(sn, ts)] ->
                      exists s, lv_emits o s /\ lv_ackseg (lv_h0 k) sn ts s)) /\
    (Z.land (probe (lv_ph2 k now)) c_IKCP_ASK_SEND <> 0 -> lv_emits o (lv_hdr h1 c_IKCP_CMD_WASK)) /\
    (Z.land (probe (lv_ph2 k now)) c_IKCP_ASK_TELL <> 0 -> lv_emits o (lv_hdr h1 c_IKCP_CMD_WINS)) /\
    lv_ph4 k ft = (sq, sb, nxt, ns) /\
    Forall2 lv_seg_rel sb sb' /\
    (ft = FLUSH_FULL -> forall s, In s sb -> lv_due now s -> lv_pushed o s) /\
    probe k' = 0 /\ probe_wait k' = probe_wait (lv_ph2 k now) /\ ts_probe k' = ts_probe (lv_ph2 k now) /\
    snd_queue k' = sq /\ snd_buf k' = sb' /\ snd_nxt k' = nxt.
Proof.
  intros H.
  destruct (lv_invert _ _ _ _ _ _ H)
    as (h1 & st1 & k1 & st2 & st3 & sq & sb & nxt & ns & sb' & a & E1 & E2 & E3 & E4 & E5 & Ek & Enx & Eo).
  destruct (lv_ph1_track _ _ _ _ _ E1) as (Hc1 & Hsh & (al & Hk1 & Hal) & Hacks).
  subst k1. rewrite lv_ph2_acklist in *.
  destruct (lv_ph3_track _ _ _ _ _ _ E2 Hc1) as (Hx2 & Hwask).
  destruct (lv_ph3_track _ _ _ _ _ _ E3 (proj1 Hx2)) as (Hx3 & Hwins).
  destruct (lv_ph5_track _ _ _ _ _ _ _ _ E5 (proj1 Hx3)) as (Hx5 & Hrel & Hpush).
  assert (Hfin : forall s, lv_has st1 s -> lv_emits o s).
  { intros s Hs. subst o. apply lv_buffer_emits. apply (proj2 Hx5), (proj2 Hx3), (proj2 Hx2). exact Hs. }
  assert (Hfin2 : forall s, lv_has st2 s -> lv_emits o s).
  { intros s Hs. subst o. apply lv_buffer_emits. apply (proj2 Hx5), (proj2 Hx3). exact Hs. }
  assert (Hfin3 : forall s, lv_has st3 s -> lv_emits o s).
  { intros s Hs. subst o. apply lv_buffer_emits. apply (proj2 Hx5). exact Hs. }
  assert (Hfin5 : forall s, lv_has (f_st a) s -> lv_emits o s).
  { intros s Hs. subst o. apply lv_buffer_emits. exact Hs. }
  (* the final state, field by field *)
  destruct (lv_ph6_shape (lv_k5 (lv_k4 (set_probe_flags (set_acklist (lv_ph2 k now) al) 0) sq sb nxt) sb' a) a
              (lv_cw (set_probe_flags (set_acklist (lv_ph2 k now) al) 0))
              (lv_resent (lv_k4 (set_probe_flags (set_acklist (lv_ph2 k now) al) 0) sq sb nxt)))
    as (sst & cwn & inc & E6).
  rewrite E6 in Ek. clear E6.
  destruct (lv_k5_shape (lv_k4 (set_probe_flags (set_acklist (lv_ph2 k now) al) 0) sq sb nxt) sb' a) as (stt & E5').
  rewrite E5' in Ek. clear E5'. unfold lv_k4 in Ek.
  destruct (lv_ph2_shape k now) as (pp & ptsp & ppw & Eph2).
  exists h1, sq, sb, nxt, ns, sb'.
  split; [exact Hsh|].
  split.
  { intros Hft. destruct (Hacks Hft) as (Hall & Hlast). specialize (Hal Hft). subst al.
    split; [subst k'; reflexivity|]. split.
    - intros sn ts Hin Hge. destruct (Hall sn ts Hin Hge) as (s & Hs & Ha). exists s. split; [apply Hfin; exact Hs|exact Ha].
    - intros sn ts l Hl. destruct (Hlast sn ts l Hl) as (s & Hs & Ha). exists s. split; [apply Hfin; exact Hs|exact Ha]. }
  split.
  { intros Hn. apply Hfin2. apply Hwask. exact Hn. }
  split.
  { intros Hn. apply Hfin3. apply Hwins. exact Hn. }
  split.
  { rewrite <- E4. symmetry. apply lv_ph4_frame; rewrite Eph2; reflexivity. }
  split.
  { exact Hrel. }
  split.
  { intros Hft s Hin (Hna & Hd). destruct (Hpush Hft s Hin Hna Hd) as (w & Hw & Hp).
    exists w. split; [apply Hfin5; exact Hw|exact Hp]. }
  subst k'. ksimpl. repeat split; reflexivity.
Qed.

(* ------------------------------------------------------------------ *)
(* 4. wire round trip, and input_seg on an encoded segment             *)
(* ------------------------------------------------------------------ *)
Lemma lv_firstn_len_app (T : Type) (A B : list T) : firstn (length A) (A ++ B) = A.
Proof. induction A as [|x A IH]; cbn [length firstn app]; [destruct B; reflexivity|rewrite IH; reflexivity]. Qed.

Lemma lv_skipn_len_app (T : Type) (A B : list T) : skipn (length A) (A ++ B) = B.
Proof. induction A as [|x A IH]; cbn [length skipn app]; [reflexivity|exact IH]. Qed.

Lemma lv_take_app (a b : bytes) : take (blen a) (a ++ b) = a.
Proof. unfold take, blen. rewrite Nat2Z.id. apply lv_firstn_len_app. Qed.

Lemma lv_drop_app (a b : bytes) : drop (blen a) (a ++ b) = b.
Proof. unfold drop, blen. rewrite Nat2Z.id. apply lv_skipn_len_app. Qed.

Lemma lv_skip6 s rest :
  skipn 6 (encode_seg s ++ rest) =
  le16 (s_wnd s) ++ (le32 (s_ts s) ++ (le32 (s_sn s) ++ (le32 (s_una s) ++
     (le32 (blen (s_data s)) ++ (s_data s ++ rest))))).
Proof. reflexivity. Qed.
Lemma lv_skip8 s rest :
  skipn 8 (encode_seg s ++ rest) =
  le32 (s_ts s) ++ (le32 (s_sn s) ++ (le32 (s_una s) ++ (le32 (blen (s_data s)) ++ (s_data s ++ rest)))).
Proof. reflexivity. Qed.
Lemma lv_skip12 s rest :
  skipn 12 (encode_seg s ++ rest) =
  le32 (s_sn s) ++ (le32 (s_una s) ++ (le32 (blen (s_data s)) ++ (s_data s ++ rest))).
Proof. reflexivity. Qed.
Lemma lv_skip16 s rest :
  skipn 16 (encode_seg s ++ rest) = le32 (s_una s) ++ (le32 (blen (s_data s)) ++ (s_data s ++ rest)).
Proof. reflexivity. Qed.
Lemma lv_skip20 s rest :
  skipn 20 (encode_seg s ++ rest) = le32 (blen (s_data s)) ++ (s_data s ++ rest).
Proof. reflexivity. Qed.
Lemma lv_skip24 s rest : skipn 24 (encode_seg s ++ rest) = s_data s ++ rest.
Proof. reflexivity. Qed.
Lemma lv_skip0 s rest :
  encode_seg s ++ rest = le32 (s_conv s) ++ (s_cmd s :: s_frg s :: skipn 6 (encode_seg s ++ rest)).
Proof. reflexivity. Qed.

(* the header decoding of input_seg on an encoded well-formed segment *)
Lemma lv_decode_encode s rest : seg_wf s ->
  let data := encode_seg s ++ rest in
  rd32 data = s_conv s /\ nth 4 data 0 = s_cmd s /\ nth 5 data 0 = s_frg s /\
  rd16 (skipn 6 data) = s_wnd s /\ rd32 (skipn 8 data) = s_ts s /\
  rd32 (skipn 12 data) = s_sn s /\ rd32 (skipn 16 data) = s_una s /\
  rd32 (skipn 20 data) = blen (s_data s) /\
  skipn 24 data = s_data s ++ rest.
Proof.
  intros (Wc & Wcmd & Wfrg & Wwnd & Wts & Wsn & Wuna & Wd & Wlen). cbv zeta.
  assert (Hl : 0 <= blen (s_data s) < W32).
  { pose proof (blen_nonneg (s_data s)). unfold c_mtuLimit, W32 in *. lia. }
  split; [rewrite lv_skip0; apply rd32_le32; exact Wc|].
  split; [reflexivity|]. split; [reflexivity|].
  split; [rewrite lv_skip6; apply rd16_le16; exact Wwnd|].
  split; [rewrite lv_skip8; apply rd32_le32; exact Wts|].
  split; [rewrite lv_skip12; apply rd32_le32; exact Wsn|].
  split; [rewrite lv_skip16; apply rd32_le32; exact Wuna|].
  split; [rewrite lv_skip20; apply rd32_le32; exact Hl|].
  reflexivity.
Qed.

(* input_seg after the header has been decoded and accepted *)
Definition lv_in_tail (a : inp) (s : seg) (rest : bytes) (regular : bool) : res (inp * bytes) + Z :=
  let k := i_k a in
  let k := if regular then set_rmt_wnd k (s_wnd s) else k in
  let '(k, cnt) := parse_una k (s_una s) in
  let fl1 := (cnt >? 0) || i_flush a in
  let k := shrink_buf k in
  if s_cmd s =? c_IKCP_CMD_ACK then
    let k := parse_ack k (s_sn s) in
    let '(k, f) := parse_fastack k (s_sn s) (s_ts s) in
    let k := shrink_buf k in
    inl (Ok (mkInp k (s_ts s) true (f || fl1), rest))
  else if s_cmd s =? c_IKCP_CMD_PUSH then
    if itimediff (s_sn s) (u32 (rcv_nxt k + rcv_wnd k)) <? 0 then
      let k := set_acklist k (acklist k ++ [(s_sn s, s_ts s)]) in
      if itimediff (s_sn s) (rcv_nxt k) >=? 0 then
        match parse_data k (mkSeg (s_conv s) (s_cmd s) (s_frg s) (s_wnd s) (s_ts s) (s_sn s) (s_una s)
                                  0 0 0 0 0 (s_data s)) with
        | Panic w => inl (Panic w)
        | Ok (k, _) => inl (Ok (mkInp k (i_latest a) (i_rtt a) fl1, rest))
        end
      else inl (Ok (mkInp k (i_latest a) (i_rtt a) fl1, rest))
    else inl (Ok (mkInp k (i_latest a) (i_rtt a) fl1, rest))
  else if s_cmd s =? c_IKCP_CMD_WASK then
    inl (Ok (mkInp (set_probe_flags k (Z.lor (probe k) c_IKCP_ASK_TELL)) (i_latest a) (i_rtt a) fl1, rest))
  else inl (Ok (mkInp k (i_latest a) (i_rtt a) fl1, rest)).

Lemma lv_input_seg_eq a s rest regular :
  seg_wf s -> s_conv s = conv (i_k a) -> cmd_ok (s_cmd s) ->
  input_seg a (encode_seg s ++ rest) regular = lv_in_tail a s rest regular.
Proof.
  intros Hwf Hcv Hcmd.
  destruct (lv_decode_encode s rest Hwf) as (D1 & D2 & D3 & D4 & D5 & D6 & D7 & D8 & D9).
  pose proof Hwf as (_ & _ & _ & _ & _ & _ & _ & _ & Wlen).
  unfold input_seg, lv_in_tail. cbv zeta.
  rewrite D1, D2, D3, D4, D5, D6, D7, D8, D9.
  rewrite lv_take_app, lv_drop_app.
  rewrite Hcv, Z.eqb_refl. cbn [negb].
  assert (E1 : (blen (s_data s ++ rest) <? blen (s_data s)) || (blen (s_data s) >? c_mtuLimit) = false).
  { apply orb_false_iff. rewrite blen_app. pose proof (blen_nonneg rest). split.
    - apply Z.ltb_ge. lia.
    - rewrite Z.gtb_ltb. apply Z.ltb_ge. exact Wlen. }
  rewrite E1.
  assert (E2 : negb ((s_cmd s =? c_IKCP_CMD_PUSH) || (s_cmd s =? c_IKCP_CMD_ACK) ||
                     (s_cmd s =? c_IKCP_CMD_WASK) || (s_cmd s =? c_IKCP_CMD_WINS)) = false).
  { destruct Hcmd as [E|[E|[E|E]]]; rewrite E; reflexivity. }
  rewrite E2. rewrite <- Hcv. reflexivity.
Qed.

(* ---- what the acknowledgement bookkeeping leaves alone ---- *)
Definition lv_fr (k : kcp) :=
  (conv k, rcv_nxt k, rcv_wnd k, rmt_wnd k, acklist k, probe k, (rcv_queue k, rcv_buf k)).

Lemma lv_fr_parse_una k una : lv_fr (fst (parse_una k una)) = lv_fr k.
Proof. unfold parse_una. destruct (una_walk una (snd_buf k)) as [l c]. reflexivity. Qed.

Lemma lv_fr_shrink_buf k : lv_fr (shrink_buf k) = lv_fr k.
Proof.
  unfold shrink_buf. cbv zeta.
  destruct (snd_buf (set_snd_buf k (drop_acked (snd_buf k)))); reflexivity.
Qed.

Lemma lv_fr_parse_ack k sn : lv_fr (parse_ack k sn) = lv_fr k.
Proof.
  unfold parse_ack.
  destruct ((itimediff sn (snd_una k) <? 0) || (itimediff sn (snd_nxt k) >=? 0)); reflexivity.
Qed.

Lemma lv_fr_parse_fastack k sn ts : lv_fr (fst (parse_fastack k sn ts)) = lv_fr k.
Proof.
  unfold parse_fastack.
  destruct ((itimediff sn (snd_una k) <? 0) || (itimediff sn (snd_nxt k) >=? 0)); [reflexivity|].
  destruct (fastack_walk sn ts (fastresend k) (snd_buf k)) as [l f]. reflexivity.
Qed.

Lemma lv_parse_data_acklist k s k' f : parse_data k s = Ok (k', f) -> acklist k' = acklist k.
Proof.
  unfold parse_data. intros H.
  destruct ((itimediff (s_sn s) (u32 (rcv_nxt k + rcv_wnd k)) >=? 0) || (itimediff (s_sn s) (rcv_nxt k) <? 0)).
  { inversion H; reflexivity. }
  destruct (has_sn (s_sn s) (rcv_buf k)).
  { inversion H; subst. apply (do_move_ready_fields k). }
  destruct (blen (s_data s) >? c_mtuLimit); [discriminate|].
  inversion H; subst. destruct (do_move_ready_fields (set_rcv_buf k (insert_seg s (rcv_buf k)))) as
    (_ & _ & _ & _ & _ & _ & _ & _ & _ & _ & _ & _ & _ & _ & Ha & _). rewrite Ha. reflexivity.
Qed.

(* the state the command-specific part of input_seg starts from *)
Definition lv_pre (a : inp) (s : seg) (regular : bool) : kcp :=
  shrink_buf (fst (parse_una (if regular then set_rmt_wnd (i_k a) (s_wnd s) else i_k a) (s_una s))).

Lemma lv_fr_pre a s regular :
  lv_fr (lv_pre a s regular) = lv_fr (if regular then set_rmt_wnd (i_k a) (s_wnd s) else i_k a).
Proof. unfold lv_pre. rewrite lv_fr_shrink_buf, lv_fr_parse_una. reflexivity. Qed.

Lemma lv_in_tail_pre a s rest regular :
  lv_in_tail a s rest regular =
  let k := lv_pre a s regular in
  let fl1 := (snd (parse_una (if regular then set_rmt_wnd (i_k a) (s_wnd s) else i_k a) (s_una s)) >? 0) || i_flush a in
  if s_cmd s =? c_IKCP_CMD_ACK then
    let k := parse_ack k (s_sn s) in
    let '(k, f) := parse_fastack k (s_sn s) (s_ts s) in
    let k := shrink_buf k in
    inl (Ok (mkInp k (s_ts s) true (f || fl1), rest))
  else if s_cmd s =? c_IKCP_CMD_PUSH then
    if itimediff (s_sn s) (u32 (rcv_nxt k + rcv_wnd k)) <? 0 then
      let k := set_acklist k (acklist k ++ [(s_sn s, s_ts s)]) in
      if itimediff (s_sn s) (rcv_nxt k) >=? 0 then
        match parse_data k (mkSeg (s_conv s) (s_cmd s) (s_frg s) (s_wnd s) (s_ts s) (s_sn s) (s_una s)
                                  0 0 0 0 0 (s_data s)) with
        | Panic w => inl (Panic w)
        | Ok (k, _) => inl (Ok (mkInp k (i_latest a) (i_rtt a) fl1, rest))
        end
      else inl (Ok (mkInp k (i_latest a) (i_rtt a) fl1, rest))
    else inl (Ok (mkInp k (i_latest a) (i_rtt a) fl1, rest))
  else if s_cmd s =? c_IKCP_CMD_WASK then
    inl (Ok (mkInp (set_probe_flags k (Z.lor (probe k) c_IKCP_ASK_TELL)) (i_latest a) (i_rtt a) fl1, rest))
  else inl (Ok (mkInp k (i_latest a) (i_rtt a) fl1, rest)).
Proof.
  unfold lv_in_tail, lv_pre. cbv zeta.
  destruct (parse_una (if regular then set_rmt_wnd (i_k a) (s_wnd s) else i_k a) (s_una s)) as [k1 cnt].
  reflexivity.
Qed.

(* ------------------------------------------------------------------ *)
(* 5. the `state` field is write-only                                  *)
(* ------------------------------------------------------------------ *)
(* lv_ss k st: k with its state field replaced.  Every projection but `state` ignores it, every
   record update commutes with it (set_timer absorbs it).  The lemmas below are collected in the
   rewrite database lv_ss; lv_ss is never unfolded in the proofs that use them. *)
Definition lv_ss (k : kcp) (st : Z) : kcp := set_timer k st (ts_flush k) (updated k).

Lemma lv_ss_conv k st : conv (lv_ss k st) = conv k.
Proof. reflexivity. Qed.
Lemma lv_ss_mtu k st : mtu (lv_ss k st) = mtu k.
Proof. reflexivity. Qed.
Lemma lv_ss_mss k st : mss (lv_ss k st) = mss k.
Proof. reflexivity. Qed.
Lemma lv_ss_snd_una k st : snd_una (lv_ss k st) = snd_una k.
Proof. reflexivity. Qed.
Lemma lv_ss_snd_nxt k st : snd_nxt (lv_ss k st) = snd_nxt k.
Proof. reflexivity. Qed.
Lemma lv_ss_rcv_nxt k st : rcv_nxt (lv_ss k st) = rcv_nxt k.
Proof. reflexivity. Qed.
Lemma lv_ss_ssthresh k st : ssthresh (lv_ss k st) = ssthresh k.
Proof. reflexivity. Qed.
Lemma lv_ss_rx_rttvar k st : rx_rttvar (lv_ss k st) = rx_rttvar k.
Proof. reflexivity. Qed.
Lemma lv_ss_rx_srtt k st : rx_srtt (lv_ss k st) = rx_srtt k.
Proof. reflexivity. Qed.
Lemma lv_ss_rx_rto k st : rx_rto (lv_ss k st) = rx_rto k.
Proof. reflexivity. Qed.
Lemma lv_ss_rx_minrto k st : rx_minrto (lv_ss k st) = rx_minrto k.
Proof. reflexivity. Qed.
Lemma lv_ss_snd_wnd k st : snd_wnd (lv_ss k st) = snd_wnd k.
Proof. reflexivity. Qed.
Lemma lv_ss_rcv_wnd k st : rcv_wnd (lv_ss k st) = rcv_wnd k.
Proof. reflexivity. Qed.
Lemma lv_ss_rmt_wnd k st : rmt_wnd (lv_ss k st) = rmt_wnd k.
Proof. reflexivity. Qed.
Lemma lv_ss_cwnd k st : cwnd (lv_ss k st) = cwnd k.
Proof. reflexivity. Qed.
Lemma lv_ss_incr k st : incr (lv_ss k st) = incr k.
Proof. reflexivity. Qed.
Lemma lv_ss_probe k st : probe (lv_ss k st) = probe k.
Proof. reflexivity. Qed.
Lemma lv_ss_ts_probe k st : ts_probe (lv_ss k st) = ts_probe k.
Proof. reflexivity. Qed.
Lemma lv_ss_probe_wait k st : probe_wait (lv_ss k st) = probe_wait k.
Proof. reflexivity. Qed.
Lemma lv_ss_interval k st : interval (lv_ss k st) = interval k.
Proof. reflexivity. Qed.
Lemma lv_ss_ts_flush k st : ts_flush (lv_ss k st) = ts_flush k.
Proof. reflexivity. Qed.
Lemma lv_ss_nodelay k st : nodelay (lv_ss k st) = nodelay k.
Proof. reflexivity. Qed.
Lemma lv_ss_updated k st : updated (lv_ss k st) = updated k.
Proof. reflexivity. Qed.
Lemma lv_ss_dead_link k st : dead_link (lv_ss k st) = dead_link k.
Proof. reflexivity. Qed.
Lemma lv_ss_fastresend k st : fastresend (lv_ss k st) = fastresend k.
Proof. reflexivity. Qed.
Lemma lv_ss_nocwnd k st : nocwnd (lv_ss k st) = nocwnd k.
Proof. reflexivity. Qed.
Lemma lv_ss_stream k st : stream (lv_ss k st) = stream k.
Proof. reflexivity. Qed.
Lemma lv_ss_snd_queue k st : snd_queue (lv_ss k st) = snd_queue k.
Proof. reflexivity. Qed.
Lemma lv_ss_rcv_queue k st : rcv_queue (lv_ss k st) = rcv_queue k.
Proof. reflexivity. Qed.
Lemma lv_ss_snd_buf k st : snd_buf (lv_ss k st) = snd_buf k.
Proof. reflexivity. Qed.
Lemma lv_ss_rcv_buf k st : rcv_buf (lv_ss k st) = rcv_buf k.
Proof. reflexivity. Qed.
Lemma lv_ss_acklist k st : acklist (lv_ss k st) = acklist k.
Proof. reflexivity. Qed.
Lemma lv_ss_buflen k st : buflen (lv_ss k st) = buflen k.
Proof. reflexivity. Qed.
Lemma lv_ss_state k st : state (lv_ss k st) = st.
Proof. reflexivity. Qed.
Lemma lv_ss_set_queues k st a b c d : set_queues (lv_ss k st) a b c d = lv_ss (set_queues k a b c d) st.
Proof. reflexivity. Qed.
Lemma lv_ss_set_snd_queue k st a : set_snd_queue (lv_ss k st) a = lv_ss (set_snd_queue k a) st.
Proof. reflexivity. Qed.
Lemma lv_ss_set_rcv_queue k st a : set_rcv_queue (lv_ss k st) a = lv_ss (set_rcv_queue k a) st.
Proof. reflexivity. Qed.
Lemma lv_ss_set_snd_buf k st a : set_snd_buf (lv_ss k st) a = lv_ss (set_snd_buf k a) st.
Proof. reflexivity. Qed.
Lemma lv_ss_set_rcv_buf k st a : set_rcv_buf (lv_ss k st) a = lv_ss (set_rcv_buf k a) st.
Proof. reflexivity. Qed.
Lemma lv_ss_set_seq k st a b c : set_seq (lv_ss k st) a b c = lv_ss (set_seq k a b c) st.
Proof. reflexivity. Qed.
Lemma lv_ss_set_snd_una k st a : set_snd_una (lv_ss k st) a = lv_ss (set_snd_una k a) st.
Proof. reflexivity. Qed.
Lemma lv_ss_set_snd_nxt k st a : set_snd_nxt (lv_ss k st) a = lv_ss (set_snd_nxt k a) st.
Proof. reflexivity. Qed.
Lemma lv_ss_set_rcv_nxt k st a : set_rcv_nxt (lv_ss k st) a = lv_ss (set_rcv_nxt k a) st.
Proof. reflexivity. Qed.
Lemma lv_ss_set_rtt k st a b c d : set_rtt (lv_ss k st) a b c d = lv_ss (set_rtt k a b c d) st.
Proof. reflexivity. Qed.
Lemma lv_ss_set_cc k st a b c d : set_cc (lv_ss k st) a b c d = lv_ss (set_cc k a b c d) st.
Proof. reflexivity. Qed.
Lemma lv_ss_set_rmt_wnd k st a : set_rmt_wnd (lv_ss k st) a = lv_ss (set_rmt_wnd k a) st.
Proof. reflexivity. Qed.
Lemma lv_ss_set_probe k st a b c : set_probe (lv_ss k st) a b c = lv_ss (set_probe k a b c) st.
Proof. reflexivity. Qed.
Lemma lv_ss_set_probe_flags k st a : set_probe_flags (lv_ss k st) a = lv_ss (set_probe_flags k a) st.
Proof. reflexivity. Qed.
Lemma lv_ss_set_acklist k st a : set_acklist (lv_ss k st) a = lv_ss (set_acklist k a) st.
Proof. reflexivity. Qed.
Lemma lv_ss_set_config k st a b c d e f g h i j : set_config (lv_ss k st) a b c d e f g h i j = lv_ss (set_config k a b c d e f g h i j) st.
Proof. reflexivity. Qed.
Lemma lv_ss_set_timer k st a b c : set_timer (lv_ss k st) a b c = lv_ss (set_timer k a b c) a.
Proof. reflexivity. Qed.
Lemma lv_ss_ss k st st' : lv_ss (lv_ss k st) st' = lv_ss k st'.
Proof. reflexivity. Qed.
Global Hint Rewrite lv_ss_conv lv_ss_mtu lv_ss_mss lv_ss_snd_una lv_ss_snd_nxt lv_ss_rcv_nxt lv_ss_ssthresh lv_ss_rx_rttvar lv_ss_rx_srtt lv_ss_rx_rto lv_ss_rx_minrto lv_ss_snd_wnd lv_ss_rcv_wnd lv_ss_rmt_wnd lv_ss_cwnd lv_ss_incr lv_ss_probe lv_ss_ts_probe lv_ss_probe_wait lv_ss_interval lv_ss_ts_flush lv_ss_nodelay lv_ss_updated lv_ss_dead_link lv_ss_fastresend lv_ss_nocwnd lv_ss_stream lv_ss_snd_queue lv_ss_rcv_queue lv_ss_snd_buf lv_ss_rcv_buf lv_ss_acklist lv_ss_buflen lv_ss_state lv_ss_set_queues lv_ss_set_snd_queue lv_ss_set_rcv_queue lv_ss_set_snd_buf lv_ss_set_rcv_buf lv_ss_set_seq lv_ss_set_snd_una lv_ss_set_snd_nxt lv_ss_set_rcv_nxt lv_ss_set_rtt lv_ss_set_cc lv_ss_set_rmt_wnd lv_ss_set_probe lv_ss_set_probe_flags lv_ss_set_acklist lv_ss_set_config lv_ss_set_timer lv_ss_ss : lv_ss.

(* ---- functions that only read ---- *)
Lemma lv_ss_stream_append k st b : stream_append (lv_ss k st) b = stream_append k b.
Proof. reflexivity. Qed.
Lemma lv_ss_peeksize k st : peeksize (lv_ss k st) = peeksize k.
Proof. reflexivity. Qed.
Lemma lv_ss_wnd_unused k st : wnd_unused (lv_ss k st) = wnd_unused k.
Proof. reflexivity. Qed.
Lemma lv_ss_make_space k st s n : make_space (lv_ss k st) s n = make_space k s n.
Proof. reflexivity. Qed.
Lemma lv_ss_stage_write k st s x : stage_write (lv_ss k st) s x = stage_write k s x.
Proof. reflexivity. Qed.
Lemma lv_ss_max_queued k st : max_queued (lv_ss k st) = max_queued k.
Proof. reflexivity. Qed.
Lemma lv_ss_check k st now : check (lv_ss k st) now = check k now.
Proof. reflexivity. Qed.
Lemma lv_ss_h0 k st : lv_h0 (lv_ss k st) = lv_h0 k.
Proof. reflexivity. Qed.
Lemma lv_ss_cw k st : lv_cw (lv_ss k st) = lv_cw k.
Proof. reflexivity. Qed.
Lemma lv_ss_resent k st : lv_resent (lv_ss k st) = lv_resent k.
Proof. reflexivity. Qed.
Lemma lv_ss_ph3 k st h s f c : lv_ph3 (lv_ss k st) h s f c = lv_ph3 k h s f c.
Proof. reflexivity. Qed.
Lemma lv_ss_ph4 k st ft : lv_ph4 (lv_ss k st) ft = lv_ph4 k ft.
Proof. reflexivity. Qed.
Lemma lv_ss_flush_seg k st h r n now s a : flush_seg (lv_ss k st) h r n now s a = flush_seg k h r n now s a.
Proof. reflexivity. Qed.
Global Hint Rewrite lv_ss_stream_append lv_ss_peeksize lv_ss_wnd_unused lv_ss_make_space lv_ss_stage_write
  lv_ss_max_queued lv_ss_check lv_ss_h0 lv_ss_cw lv_ss_resent lv_ss_ph3 lv_ss_ph4 lv_ss_flush_seg : lv_ss.

Lemma lv_ss_flush_acks k st : forall al h s, flush_acks (lv_ss k st) h s al = flush_acks k h s al.
Proof.
  induction al as [|[sn ts] t IH]; intros h s; cbn [flush_acks]; [reflexivity|].
  autorewrite with lv_ss.
  destruct ((itimediff sn (rcv_nxt k) >=? 0) || match t with [] => true | _ :: _ => false end); [|apply IH].
  destruct (stage_write k _ _) as [st2|w]; [apply IH|reflexivity].
Qed.

Lemma lv_ss_flush_segs k st h r n now : forall l a,
  flush_segs (lv_ss k st) h r n now l a = flush_segs k h r n now l a.
Proof.
  induction l as [|s t IH]; intros a; cbn [flush_segs]; [reflexivity|].
  rewrite lv_ss_flush_seg. destruct (flush_seg k h r n now s a) as [[s' a']|w]; [|reflexivity].
  rewrite IH. reflexivity.
Qed.
Global Hint Rewrite lv_ss_flush_acks lv_ss_flush_segs : lv_ss.

(* ---- functions that transform the state ---- *)
Lemma lv_ss_do_move_ready k st : do_move_ready (lv_ss k st) = lv_ss (do_move_ready k) st.
Proof.
  unfold do_move_ready. autorewrite with lv_ss.
  destruct (move_ready (rcv_buf k) (rcv_queue k) (rcv_nxt k) (rcv_wnd k)) as [[rb rq] rn].
  autorewrite with lv_ss. reflexivity.
Qed.

Lemma lv_ss_parse_una k st una :
  parse_una (lv_ss k st) una = (lv_ss (fst (parse_una k una)) st, snd (parse_una k una)).
Proof.
  unfold parse_una. autorewrite with lv_ss. destruct (una_walk una (snd_buf k)) as [l c].
  autorewrite with lv_ss. reflexivity.
Qed.

Lemma lv_ss_shrink_buf k st : shrink_buf (lv_ss k st) = lv_ss (shrink_buf k) st.
Proof.
  unfold shrink_buf. cbv zeta. autorewrite with lv_ss.
  destruct (snd_buf (set_snd_buf k (drop_acked (snd_buf k)))); autorewrite with lv_ss; reflexivity.
Qed.

Lemma lv_ss_parse_ack k st sn : parse_ack (lv_ss k st) sn = lv_ss (parse_ack k sn) st.
Proof.
  unfold parse_ack. autorewrite with lv_ss.
  destruct ((itimediff sn (snd_una k) <? 0) || (itimediff sn (snd_nxt k) >=? 0)); reflexivity.
Qed.

Lemma lv_ss_parse_fastack k st sn ts :
  parse_fastack (lv_ss k st) sn ts = (lv_ss (fst (parse_fastack k sn ts)) st, snd (parse_fastack k sn ts)).
Proof.
  unfold parse_fastack. autorewrite with lv_ss.
  destruct ((itimediff sn (snd_una k) <? 0) || (itimediff sn (snd_nxt k) >=? 0)); [reflexivity|].
  destruct (fastack_walk sn ts (fastresend k) (snd_buf k)) as [l f]. autorewrite with lv_ss. reflexivity.
Qed.
Global Hint Rewrite lv_ss_do_move_ready lv_ss_shrink_buf lv_ss_parse_ack : lv_ss.

Lemma lv_ss_parse_data k st s :
  parse_data (lv_ss k st) s =
  match parse_data k s with Ok (k', f) => Ok (lv_ss k' st, f) | Panic w => Panic w end.
Proof.
  unfold parse_data. autorewrite with lv_ss.
  destruct ((itimediff (s_sn s) (u32 (rcv_nxt k + rcv_wnd k)) >=? 0) || (itimediff (s_sn s) (rcv_nxt k) <? 0));
    [reflexivity|].
  destruct (has_sn (s_sn s) (rcv_buf k)); [reflexivity|].
  destruct (blen (s_data s) >? c_mtuLimit); reflexivity.
Qed.

Lemma lv_ss_update_ack k st rtt : update_ack (lv_ss k st) rtt = lv_ss (update_ack k rtt) st.
Proof.
  unfold update_ack. autorewrite with lv_ss.
  destruct (if rx_srtt k =? 0 then _ else _) as [srtt var]. autorewrite with lv_ss. reflexivity.
Qed.

Lemma lv_ss_input_cwnd k st una0 : input_cwnd (lv_ss k st) una0 = lv_ss (input_cwnd k una0) st.
Proof.
  unfold input_cwnd. autorewrite with lv_ss.
  destruct ((nocwnd k =? 0) && (itimediff (snd_una k) una0 >? 0) && (cwnd k <? rmt_wnd k)); [|reflexivity].
  cbv zeta. destruct (if cwnd k <? ssthresh k then _ else _) as [cw inc].
  destruct (cw >? rmt_wnd k); autorewrite with lv_ss; reflexivity.
Qed.
Global Hint Rewrite lv_ss_update_ack lv_ss_input_cwnd : lv_ss.

(* ---- Input ---- *)
Definition lv_ssi (a : inp) (st : Z) : inp := mkInp (lv_ss (i_k a) st) (i_latest a) (i_rtt a) (i_flush a).

Definition lv_lift_seg (st : Z) (r : res (inp * bytes) + Z) : res (inp * bytes) + Z :=
  match r with
  | inl (Ok (a', rest)) => inl (Ok (lv_ssi a' st, rest))
  | inl (Panic w) => inl (Panic w)
  | inr c => inr c
  end.

Lemma lv_ss_in_tail a st s rest regular :
  lv_in_tail (lv_ssi a st) s rest regular = lv_lift_seg st (lv_in_tail a s rest regular).
Proof.
  unfold lv_in_tail. cbv zeta. cbn [lv_ssi i_k i_latest i_rtt i_flush].
  assert (E0 : (if regular then set_rmt_wnd (lv_ss (i_k a) st) (s_wnd s) else lv_ss (i_k a) st) =
               lv_ss (if regular then set_rmt_wnd (i_k a) (s_wnd s) else i_k a) st)
    by (destruct regular; reflexivity).
  rewrite E0, lv_ss_parse_una.
  destruct (parse_una (if regular then set_rmt_wnd (i_k a) (s_wnd s) else i_k a) (s_una s)) as [k1 cnt].
  cbn [fst snd]. autorewrite with lv_ss.
  destruct (s_cmd s =? c_IKCP_CMD_ACK).
  { rewrite lv_ss_parse_fastack.
    destruct (parse_fastack (parse_ack (shrink_buf k1) (s_sn s)) (s_sn s) (s_ts s)) as [k2 f].
    cbn [fst snd]. autorewrite with lv_ss. reflexivity. }
  destruct (s_cmd s =? c_IKCP_CMD_PUSH).
  { destruct (itimediff (s_sn s) (u32 (rcv_nxt (shrink_buf k1) + rcv_wnd (shrink_buf k1))) <? 0); [|reflexivity].
    destruct (itimediff (s_sn s) (rcv_nxt (set_acklist (shrink_buf k1) (acklist (shrink_buf k1) ++ [(s_sn s, s_ts s)]))) >=? 0);
      [|reflexivity].
    rewrite lv_ss_parse_data. destruct (parse_data _ _) as [[k2 f]|w]; reflexivity. }
  destruct (s_cmd s =? c_IKCP_CMD_WASK); reflexivity.
Qed.

Definition lv_hdr_of (data : bytes) : seg :=
  mkSeg (rd32 data) (nth 4 data 0) (nth 5 data 0) (rd16 (skipn 6 data)) (rd32 (skipn 8 data))
        (rd32 (skipn 12 data)) (rd32 (skipn 16 data)) 0 0 0 0 0
        (take (rd32 (skipn 20 data)) (skipn 24 data)).

(* input_seg on arbitrary bytes: three checks, then the command-specific part *)
Lemma lv_input_seg_gen a data regular :
  input_seg a data regular =
  let s := lv_hdr_of data in
  let len := rd32 (skipn 20 data) in
  if negb (s_conv s =? conv (i_k a)) then inr (-1)
  else if (blen (skipn 24 data) <? len) || (len >? c_mtuLimit) then inr (-2)
  else if negb ((s_cmd s =? c_IKCP_CMD_PUSH) || (s_cmd s =? c_IKCP_CMD_ACK) ||
                (s_cmd s =? c_IKCP_CMD_WASK) || (s_cmd s =? c_IKCP_CMD_WINS)) then inr (-3)
  else lv_in_tail a s (drop len (skipn 24 data)) regular.
Proof. unfold input_seg, lv_in_tail, lv_hdr_of. cbv zeta. lv_segf. reflexivity. Qed.

Lemma lv_ss_input_seg a st data regular :
  input_seg (lv_ssi a st) data regular = lv_lift_seg st (input_seg a data regular).
Proof.
  rewrite !lv_input_seg_gen. cbv zeta. cbn [lv_ssi i_k]. autorewrite with lv_ss.
  destruct (negb (s_conv (lv_hdr_of data) =? conv (i_k a))); [reflexivity|].
  destruct ((blen (skipn 24 data) <? rd32 (skipn 20 data)) || (rd32 (skipn 20 data) >? c_mtuLimit)); [reflexivity|].
  destruct (negb _); [reflexivity|].
  apply lv_ss_in_tail.
Qed.

Lemma lv_ss_input_loop regular st : forall fuel a data,
  input_loop fuel (lv_ssi a st) data regular =
  match input_loop fuel a data regular with
  | Ok (a', e) => Ok (lv_ssi a' st, e)
  | Panic w => Panic w
  end.
Proof.
  induction fuel as [|f IH]; intros a data; cbn [input_loop]; [reflexivity|].
  destruct (blen data <? c_IKCP_OVERHEAD); [reflexivity|].
  rewrite lv_ss_input_seg.
  destruct (input_seg a data regular) as [[[a' rest]|w]|c]; cbn [lv_lift_seg]; [apply IH|reflexivity|reflexivity].
Qed.

Lemma lv_ss_input_pre k st data regular nd now :
  input_pre (lv_ss k st) data regular nd now =
  match input_pre k data regular nd now with
  | Ok (k', c, fr) => Ok (lv_ss k' st, c, fr)
  | Panic w => Panic w
  end.
Proof.
  unfold input_pre. autorewrite with lv_ss.
  destruct (blen data <? c_IKCP_OVERHEAD); [reflexivity|].
  change (mkInp (lv_ss k st) 0 false false) with (lv_ssi (mkInp k 0 false false) st).
  rewrite lv_ss_input_loop.
  destruct (input_loop (S (length data / 24)) (mkInp k 0 false false) data regular) as [[a e]|w]; [|reflexivity].
  destruct e as [|code]; [|reflexivity].
  cbn [lv_ssi i_k i_latest i_rtt i_flush].
  assert (E : (if i_rtt a && regular && (itimediff now (i_latest a) >=? 0)
               then update_ack (lv_ss (i_k a) st) (itimediff now (i_latest a)) else lv_ss (i_k a) st) =
              lv_ss (if i_rtt a && regular && (itimediff now (i_latest a) >=? 0)
                     then update_ack (i_k a) (itimediff now (i_latest a)) else i_k a) st).
  { destruct (i_rtt a && regular && (itimediff now (i_latest a) >=? 0)); autorewrite with lv_ss; reflexivity. }
  cbv zeta. rewrite E. autorewrite with lv_ss.
  destruct (i_flush a); [reflexivity|].
  destruct (Z.of_nat (length (acklist _)) >=? mtu _ / c_IKCP_OVERHEAD); [reflexivity|].
  destruct (nd && _); reflexivity.
Qed.

(* ---- Send / Recv / configuration ---- *)
Lemma lv_ss_send k st b :
  send (lv_ss k st) b =
  match send k b with Ok (k', r) => Ok (lv_ss k' st, r) | Panic w => Panic w end.
Proof.
  unfold send. autorewrite with lv_ss.
  destruct (blen b =? 0); [reflexivity|].
  destruct (if stream k =? 0 then Ok (Some (snd_queue k, b)) else stream_append k b) as [[[q1 b1]|]|w];
    [|reflexivity|reflexivity].
  cbv zeta. autorewrite with lv_ss.
  destruct (negb (stream k =? 0) && (blen b1 =? 0)); [reflexivity|].
  destruct (frag_count (blen b1) (mss k) >? 255); [reflexivity|].
  destruct (fragment _ _ _ _ _ _) as [segs|w]; [|reflexivity].
  autorewrite with lv_ss. reflexivity.
Qed.

Lemma lv_ss_recv k st n :
  recv (lv_ss k st) n = let '(k', r, d) := recv k n in (lv_ss k' st, r, d).
Proof.
  unfold recv. cbv zeta. autorewrite with lv_ss.
  destruct (peeksize k <? 0); [reflexivity|].
  destruct (peeksize k >? n); [reflexivity|].
  destruct (pop_msg (rcv_queue k)) as [d rq]. autorewrite with lv_ss.
  destruct ((qlen (rcv_queue (do_move_ready (set_rcv_queue k rq))) <? rcv_wnd (do_move_ready (set_rcv_queue k rq)))
            && (qlen (rcv_queue k) >=? rcv_wnd k)); autorewrite with lv_ss; reflexivity.
Qed.

Lemma lv_ss_set_mtu k st m :
  set_mtu (lv_ss k st) m = let '(k', r) := set_mtu k m in (lv_ss k' st, r).
Proof.
  unfold set_mtu. autorewrite with lv_ss.
  destruct ((m <=? c_IKCP_OVERHEAD) || (m >? c_mtuLimit)); [reflexivity|].
  destruct (max_queued k >? m - c_IKCP_OVERHEAD); reflexivity.
Qed.

Lemma lv_ss_set_nodelay k st nd iv rs nc :
  set_nodelay (lv_ss k st) nd iv rs nc = lv_ss (set_nodelay k nd iv rs nc) st.
Proof.
  unfold set_nodelay. autorewrite with lv_ss.
  destruct (if nd >=? 0 then _ else _) as [ndv minrto]. reflexivity.
Qed.

(* ---- flush ---- *)
Lemma lv_ss_ph1 k st ft :
  lv_ph1 (lv_ss k st) ft =
  match lv_ph1 k ft with Ok (h, s, k1) => Ok (h, s, lv_ss k1 st) | Panic w => Panic w end.
Proof.
  unfold lv_ph1. autorewrite with lv_ss.
  destruct ((ft =? FLUSH_ACKONLY) || (ft =? FLUSH_FULL)); [|reflexivity].
  destruct (flush_acks k (lv_h0 k) (mkStage [] []) (acklist k)) as [[h s]|w]; reflexivity.
Qed.

Lemma lv_ss_ph2 k st now : lv_ph2 (lv_ss k st) now = lv_ss (lv_ph2 k now) st.
Proof.
  unfold lv_ph2. autorewrite with lv_ss.
  destruct (rmt_wnd k =? 0); [|reflexivity].
  destruct (probe_wait k =? 0); [reflexivity|].
  destruct (itimediff now (ts_probe k) >=? 0); reflexivity.
Qed.

Lemma lv_ss_k4 k st sq sb nxt : lv_k4 (lv_ss k st) sq sb nxt = lv_ss (lv_k4 k sq sb nxt) st.
Proof. reflexivity. Qed.

Lemma lv_ss_ph5 k st h ft ns now s : lv_ph5 (lv_ss k st) h ft ns now s = lv_ph5 k h ft ns now s.
Proof. unfold lv_ph5. cbv zeta. autorewrite with lv_ss. reflexivity. Qed.

Lemma lv_ss_k5 k st sb' a :
  lv_k5 (lv_ss k st) sb' a = lv_ss (lv_k5 k sb' a) (if f_dead a then 4294967295 else st).
Proof. unfold lv_k5. cbv zeta. destruct (f_dead a); reflexivity. Qed.

Lemma lv_ss_ph6 k st a cw r : lv_ph6 (lv_ss k st) a cw r = lv_ss (lv_ph6 k a cw r) st.
Proof.
  unfold lv_ph6. autorewrite with lv_ss. destruct (nocwnd k =? 0); [|reflexivity].
  cbv zeta. destruct (f_change a >? 0); destruct (f_lost a >? 0); autorewrite with lv_ss;
    match goal with |- context [cwnd ?x <? 1] => destruct (cwnd x <? 1) end; autorewrite with lv_ss; reflexivity.
Qed.

Lemma lv_ss_flush k st ft now :
  exists st', flush (lv_ss k st) ft now =
  match flush k ft now with Ok (k', nx, o) => Ok (lv_ss k' st', nx, o) | Panic w => Panic w end.
Proof.
  rewrite !lv_unfold. rewrite lv_ss_ph1.
  destruct (lv_ph1 k ft) as [[[h1 st1] k1]|w]; [|exists st; reflexivity].
  cbv zeta. rewrite lv_ss_ph2, lv_ss_ph3.
  destruct (lv_ph3 (lv_ph2 k1 now) h1 st1 c_IKCP_ASK_SEND c_IKCP_CMD_WASK) as [st2|w]; [|exists st; reflexivity].
  rewrite lv_ss_ph3.
  destruct (lv_ph3 (lv_ph2 k1 now) h1 st2 c_IKCP_ASK_TELL c_IKCP_CMD_WINS) as [st3|w]; [|exists st; reflexivity].
  rewrite lv_ss_set_probe_flags, lv_ss_ph4.
  destruct (lv_ph4 (set_probe_flags (lv_ph2 k1 now) 0) ft) as [[[sq sb] nxt] ns].
  rewrite lv_ss_k4, lv_ss_ph5.
  destruct (lv_ph5 (lv_k4 (set_probe_flags (lv_ph2 k1 now) 0) sq sb nxt) h1 ft ns now st3) as [[sb' a]|w];
    [|exists st; reflexivity].
  exists (if f_dead a then 4294967295 else st).
  rewrite lv_ss_k5, lv_ss_ph6, lv_ss_cw, lv_ss_resent. reflexivity.
Qed.

Lemma lv_ss_input k st data regular nd now :
  exists st', input (lv_ss k st) data regular nd now =
  match input k data regular nd now with Ok (k', c, o) => Ok (lv_ss k' st', c, o) | Panic w => Panic w end.
Proof.
  unfold input. rewrite lv_ss_input_pre.
  destruct (input_pre k data regular nd now) as [[[k1 c] fr]|w]; [|exists st; reflexivity].
  destruct fr.
  - exists st; reflexivity.
  - destruct (lv_ss_flush k1 st FLUSH_ACKONLY now) as (st' & E). exists st'. rewrite E.
    destruct (flush k1 FLUSH_ACKONLY now) as [[[k2 nx] o]|w]; reflexivity.
  - destruct (lv_ss_flush k1 st FLUSH_FULL now) as (st' & E). exists st'. rewrite E.
    destruct (flush k1 FLUSH_FULL now) as [[[k2 nx] o]|w]; reflexivity.
Qed.

Definition lv_upd_tail (k : kcp) (slap now : Z) : res (kcp * list bytes) :=
  if slap >=? 0 then
    let tsf := u32 (ts_flush k + interval k) in
    let tsf := if itimediff now tsf >=? 0 then u32 (now + interval k) else tsf in
    match flush (set_timer k (state k) tsf (updated k)) FLUSH_FULL now with
    | Ok (k', _, o) => Ok (k', o) | Panic w => Panic w end
  else Ok (k, []).

Lemma lv_update_unfold k now :
  update k now =
  let k1 := if updated k =? 0 then set_timer k (state k) now 1 else k in
  let slap := itimediff now (ts_flush k1) in
  if (slap >=? 10000) || (slap <? -10000)
  then lv_upd_tail (set_timer k1 (state k1) now (updated k1)) 0 now
  else lv_upd_tail k1 slap now.
Proof.
  unfold update, lv_upd_tail. cbv zeta.
  destruct ((itimediff now (ts_flush (if updated k =? 0 then set_timer k (state k) now 1 else k)) >=? 10000)
            || (itimediff now (ts_flush (if updated k =? 0 then set_timer k (state k) now 1 else k)) <? -10000));
    reflexivity.
Qed.

Lemma lv_ss_timer_irrel k st a b t u : lv_ss (set_timer k a t u) st = lv_ss (set_timer k b t u) st.
Proof. reflexivity. Qed.

Lemma lv_ss_upd_tail k st slap now :
  exists st', lv_upd_tail (lv_ss k st) slap now =
  match lv_upd_tail k slap now with Ok (k', o) => Ok (lv_ss k' st', o) | Panic w => Panic w end.
Proof.
  unfold lv_upd_tail. destruct (slap >=? 0); [|exists st; reflexivity].
  cbv zeta. autorewrite with lv_ss.
  set (tsf := if itimediff now (u32 (ts_flush k + interval k)) >=? 0 then u32 (now + interval k)
              else u32 (ts_flush k + interval k)).
  rewrite (lv_ss_timer_irrel k st st (state k)).
  destruct (lv_ss_flush (set_timer k (state k) tsf (updated k)) st FLUSH_FULL now) as (st' & E).
  exists st'. rewrite E.
  destruct (flush (set_timer k (state k) tsf (updated k)) FLUSH_FULL now) as [[[k2 nx] o]|w]; reflexivity.
Qed.

Lemma lv_ss_update k st now :
  exists st', update (lv_ss k st) now =
  match update k now with Ok (k', o) => Ok (lv_ss k' st', o) | Panic w => Panic w end.
Proof.
  rewrite !lv_update_unfold. cbv zeta. autorewrite with lv_ss.
  assert (E1 : (if updated k =? 0 then lv_ss (set_timer k st now 1) st else lv_ss k st) =
               lv_ss (if updated k =? 0 then set_timer k (state k) now 1 else k) st)
    by (destruct (updated k =? 0); reflexivity).
  rewrite E1. set (k1 := if updated k =? 0 then set_timer k (state k) now 1 else k).
  autorewrite with lv_ss.
  destruct ((itimediff now (ts_flush k1) >=? 10000) || (itimediff now (ts_flush k1) <? -10000)).
  - rewrite (lv_ss_timer_irrel k1 st st (state k1)). apply lv_ss_upd_tail.
  - apply lv_ss_upd_tail.
Qed.

Lemma lv_ss_step k st o :
  exists st', step (lv_ss k st) o =
  match step k o with Ok (k', x) => Ok (lv_ss k' st', x) | Panic w => Panic w end.
Proof.
  destruct o as [b|n|d reg nd now|full now|now|now|m|nd iv rs nc]; cbn [step].
  - exists st. rewrite lv_ss_send. destruct (send k b) as [[k' r]|w]; reflexivity.
  - exists st. rewrite lv_ss_recv. destruct (recv k n) as [[k' r] d]. reflexivity.
  - destruct (lv_ss_input k st d reg nd now) as (st' & E). exists st'. rewrite E.
    destruct (input k d reg nd now) as [[[k' r] o]|w]; reflexivity.
  - destruct (lv_ss_flush k st (if full then FLUSH_FULL else FLUSH_ACKONLY) now) as (st' & E). exists st'. rewrite E.
    destruct (flush k _ now) as [[[k' nx] o]|w]; reflexivity.
  - destruct (lv_ss_update k st now) as (st' & E). exists st'. rewrite E.
    destruct (update k now) as [[k' o]|w]; reflexivity.
  - exists st. rewrite lv_ss_check. reflexivity.
  - exists st. rewrite lv_ss_set_mtu. destruct (set_mtu k m) as [k' r]. reflexivity.
  - exists st. rewrite lv_ss_set_nodelay. reflexivity.
Qed.

(* ------------------------------------------------------------------ *)
(* 6. probe_wait is touched by flush only                              *)
(* ------------------------------------------------------------------ *)
Lemma lv_pw_do_move_ready k : probe_wait (do_move_ready k) = probe_wait k.
Proof.
  unfold do_move_ready.
  destruct (move_ready (rcv_buf k) (rcv_queue k) (rcv_nxt k) (rcv_wnd k)) as [[rb rq] rn]. reflexivity.
Qed.

Lemma lv_pw_parse_una k una : probe_wait (fst (parse_una k una)) = probe_wait k.
Proof. unfold parse_una. destruct (una_walk una (snd_buf k)) as [l c]. reflexivity. Qed.

Lemma lv_pw_shrink_buf k : probe_wait (shrink_buf k) = probe_wait k.
Proof.
  unfold shrink_buf. cbv zeta.
  destruct (snd_buf (set_snd_buf k (drop_acked (snd_buf k)))); reflexivity.
Qed.

Lemma lv_pw_parse_ack k sn : probe_wait (parse_ack k sn) = probe_wait k.
Proof.
  unfold parse_ack.
  destruct ((itimediff sn (snd_una k) <? 0) || (itimediff sn (snd_nxt k) >=? 0)); reflexivity.
Qed.

Lemma lv_pw_parse_fastack k sn ts : probe_wait (fst (parse_fastack k sn ts)) = probe_wait k.
Proof.
  unfold parse_fastack.
  destruct ((itimediff sn (snd_una k) <? 0) || (itimediff sn (snd_nxt k) >=? 0)); [reflexivity|].
  destruct (fastack_walk sn ts (fastresend k) (snd_buf k)) as [l f]. reflexivity.
Qed.

Lemma lv_pw_parse_data k s k' f : parse_data k s = Ok (k', f) -> probe_wait k' = probe_wait k.
Proof.
  unfold parse_data. intros H.
  destruct ((itimediff (s_sn s) (u32 (rcv_nxt k + rcv_wnd k)) >=? 0) || (itimediff (s_sn s) (rcv_nxt k) <? 0)).
  { inversion H; reflexivity. }
  destruct (has_sn (s_sn s) (rcv_buf k)).
  { inversion H; subst. apply lv_pw_do_move_ready. }
  destruct (blen (s_data s) >? c_mtuLimit); [discriminate|].
  inversion H; subst. rewrite lv_pw_do_move_ready. reflexivity.
Qed.

Lemma lv_pw_update_ack k rtt : probe_wait (update_ack k rtt) = probe_wait k.
Proof. unfold update_ack. destruct (if rx_srtt k =? 0 then _ else _) as [srtt var]. reflexivity. Qed.

Lemma lv_pw_input_cwnd k una0 : probe_wait (input_cwnd k una0) = probe_wait k.
Proof.
  unfold input_cwnd.
  destruct ((nocwnd k =? 0) && (itimediff (snd_una k) una0 >? 0) && (cwnd k <? rmt_wnd k)); [|reflexivity].
  cbv zeta. destruct (if cwnd k <? ssthresh k then _ else _) as [cw inc].
  destruct (cw >? rmt_wnd k); reflexivity.
Qed.

Lemma lv_pw_pre a s regular : probe_wait (lv_pre a s regular) = probe_wait (i_k a).
Proof. unfold lv_pre. rewrite lv_pw_shrink_buf, lv_pw_parse_una. destruct regular; reflexivity. Qed.

Lemma lv_pw_in_tail a s rest regular a' r :
  lv_in_tail a s rest regular = inl (Ok (a', r)) -> probe_wait (i_k a') = probe_wait (i_k a).
Proof.
  rewrite lv_in_tail_pre. cbv zeta. intros H. pose proof (lv_pw_pre a s regular) as P.
  destruct (s_cmd s =? c_IKCP_CMD_ACK).
  { pose proof (lv_pw_parse_fastack (parse_ack (lv_pre a s regular) (s_sn s)) (s_sn s) (s_ts s)) as P2.
    destruct (parse_fastack (parse_ack (lv_pre a s regular) (s_sn s)) (s_sn s) (s_ts s)) as [k2 f].
    cbn [fst] in P2. inversion H; subst a' r. cbn [i_k].
    rewrite lv_pw_shrink_buf, P2, lv_pw_parse_ack. exact P. }
  destruct (s_cmd s =? c_IKCP_CMD_PUSH).
  { destruct (itimediff (s_sn s) (u32 (rcv_nxt (lv_pre a s regular) + rcv_wnd (lv_pre a s regular))) <? 0);
      [|inversion H; subst a' r; exact P].
    destruct (itimediff (s_sn s) (rcv_nxt (set_acklist (lv_pre a s regular) (acklist (lv_pre a s regular) ++ [(s_sn s, s_ts s)]))) >=? 0);
      [|inversion H; subst a' r; exact P].
    destruct (parse_data _ _) as [[k2 f]|w] eqn:Ep; [|discriminate].
    inversion H; subst a' r. cbn [i_k]. rewrite (lv_pw_parse_data _ _ _ _ Ep). exact P. }
  destruct (s_cmd s =? c_IKCP_CMD_WASK); inversion H; subst a' r; exact P.
Qed.

Lemma lv_pw_input_seg a data regular a' r :
  input_seg a data regular = inl (Ok (a', r)) -> probe_wait (i_k a') = probe_wait (i_k a).
Proof.
  rewrite lv_input_seg_gen. cbv zeta.
  destruct (negb (s_conv (lv_hdr_of data) =? conv (i_k a))); [discriminate|].
  destruct ((blen (skipn 24 data) <? rd32 (skipn 20 data)) || (rd32 (skipn 20 data) >? c_mtuLimit)); [discriminate|].
  destruct (negb _); [discriminate|].
  apply lv_pw_in_tail.
Qed.

Lemma lv_pw_input_loop regular : forall fuel a data a' e,
  input_loop fuel a data regular = Ok (a', e) -> probe_wait (i_k a') = probe_wait (i_k a).
Proof.
  induction fuel as [|f IH]; intros a data a' e H; cbn [input_loop] in H.
  - inversion H; reflexivity.
  - destruct (blen data <? c_IKCP_OVERHEAD); [inversion H; reflexivity|].
    destruct (input_seg a data regular) as [[[a1 rest]|w]|c] eqn:Es.
    + rewrite (IH _ _ _ _ H). eapply lv_pw_input_seg. exact Es.
    + discriminate.
    + inversion H; reflexivity.
Qed.

Lemma lv_pw_input_pre k data regular nd now k' c fr :
  input_pre k data regular nd now = Ok (k', c, fr) -> probe_wait k' = probe_wait k.
Proof.
  unfold input_pre. intros H.
  destruct (blen data <? c_IKCP_OVERHEAD); [inversion H; reflexivity|].
  destruct (input_loop (S (length data / 24)) (mkInp k 0 false false) data regular) as [[a e]|w] eqn:El; [|discriminate].
  apply lv_pw_input_loop in El. cbn [i_k] in El.
  destruct e as [|code]; [|inversion H; subst; exact El].
  cbv zeta in H.
  assert (P : probe_wait (input_cwnd (if i_rtt a && regular && (itimediff now (i_latest a) >=? 0)
                                      then update_ack (i_k a) (itimediff now (i_latest a)) else i_k a) (snd_una k))
              = probe_wait k).
  { rewrite lv_pw_input_cwnd. destruct (i_rtt a && regular && (itimediff now (i_latest a) >=? 0));
      [rewrite lv_pw_update_ack|]; exact El. }
  destruct (i_flush a); [inversion H; subst; exact P|].
  destruct (Z.of_nat (length (acklist _)) >=? mtu _ / c_IKCP_OVERHEAD); [inversion H; subst; exact P|].
  destruct (nd && _); inversion H; subst; exact P.
Qed.

Lemma lv_pw_send k b k' r : send k b = Ok (k', r) -> probe_wait k' = probe_wait k.
Proof.
  unfold send. intros H.
  destruct (blen b =? 0); [inversion H; reflexivity|].
  destruct (if stream k =? 0 then Ok (Some (snd_queue k, b)) else stream_append k b) as [[[q1 b1]|]|w];
    [|inversion H; reflexivity|discriminate].
  cbv zeta in H.
  destruct (negb (stream k =? 0) && (blen b1 =? 0)); [inversion H; reflexivity|].
  destruct (frag_count (blen b1) (mss k) >? 255); [inversion H; reflexivity|].
  destruct (fragment _ _ _ _ _ _) as [segs|w]; [|discriminate].
  inversion H; reflexivity.
Qed.

Lemma lv_pw_recv k n k' r d : recv k n = (k', r, d) -> probe_wait k' = probe_wait k.
Proof.
  unfold recv. cbv zeta. intros H.
  destruct (peeksize k <? 0); [inversion H; reflexivity|].
  destruct (peeksize k >? n); [inversion H; reflexivity|].
  destruct (pop_msg (rcv_queue k)) as [d0 rq].
  destruct (_ && _); inversion H; subst; ksimpl; rewrite lv_pw_do_move_ready; reflexivity.
Qed.

Lemma lv_pw_set_mtu k m : probe_wait (fst (set_mtu k m)) = probe_wait k.
Proof.
  unfold set_mtu. destruct ((m <=? c_IKCP_OVERHEAD) || (m >? c_mtuLimit)); [reflexivity|].
  destruct (max_queued k >? m - c_IKCP_OVERHEAD); reflexivity.
Qed.

Lemma lv_pw_set_nodelay k nd iv rs nc : probe_wait (set_nodelay k nd iv rs nc) = probe_wait k.
Proof. unfold set_nodelay. destruct (if nd >=? 0 then _ else _) as [ndv minrto]. reflexivity. Qed.

(* the probe wait is 0 (no probing) or within [500 ms, 120 s] *)
Definition lv_probe_inv (k : kcp) : Prop := probe_wait k = 0 \/ 500 <= probe_wait k <= 120000.

Lemma lv_pi_ph2 k now : lv_probe_inv k -> lv_probe_inv (lv_ph2 k now).
Proof.
  unfold lv_probe_inv, lv_ph2. intros H.
  destruct (rmt_wnd k =? 0); [|left; reflexivity].
  destruct (probe_wait k =? 0) eqn:E0; [right; ksimpl; unfold c_IKCP_PROBE_INIT; lia|]. lv_b2z.
  destruct (itimediff now (ts_probe k) >=? 0); [|exact H].
  cbv zeta. ksimpl. right. unfold c_IKCP_PROBE_INIT, c_IKCP_PROBE_LIMIT.
  destruct H as [H|H]; [contradiction|].
  destruct (probe_wait k <? 500) eqn:E1; lv_b2z; [lia|].
  assert (Eu : u32 (probe_wait k + probe_wait k / 2) = probe_wait k + probe_wait k / 2).
  { apply u32_id. unfold W32. lia. }
  rewrite Eu. destruct (probe_wait k + probe_wait k / 2 >? 120000) eqn:E2; lv_b2z; lia.
Qed.

Lemma lv_pi_flush k ft now k' nx o : flush k ft now = Ok (k', nx, o) -> lv_probe_inv k -> lv_probe_inv k'.
Proof.
  intros H Hp.
  destruct (lv_flush_spec _ _ _ _ _ _ H)
    as (h1 & sq & sb & nxt & ns & sb' & _ & _ & _ & _ & _ & _ & _ & _ & Fpw & _).
  pose proof (lv_pi_ph2 k now Hp) as H2. unfold lv_probe_inv in *. rewrite Fpw. exact H2.
Qed.

Lemma lv_pi_upd_tail k slap now k' o :
  lv_upd_tail k slap now = Ok (k', o) -> lv_probe_inv k -> lv_probe_inv k'.
Proof.
  unfold lv_upd_tail. intros H Hp. destruct (slap >=? 0); [|inversion H; subst; exact Hp].
  cbv zeta in H.
  match type of H with context [flush ?x FLUSH_FULL now] =>
    destruct (flush x FLUSH_FULL now) as [[[k2 nx] o2]|w] eqn:Ef; [|discriminate] end.
  inversion H; subst k' o. eapply lv_pi_flush; [exact Ef|]. exact Hp.
Qed.

Lemma lv_pi_step k o k' x : step k o = Ok (k', x) -> lv_probe_inv k -> lv_probe_inv k'.
Proof.
  destruct o as [b|n|d reg nd now|full now|now|now|m|nd iv rs nc]; cbn [step]; intros H Hp.
  - destruct (send k b) as [[k1 r]|w] eqn:E; [|discriminate]. inversion H; subst k' x.
    unfold lv_probe_inv in *. rewrite (lv_pw_send _ _ _ _ E). exact Hp.
  - destruct (recv k n) as [[k1 r] d] eqn:E. inversion H; subst k' x.
    unfold lv_probe_inv in *. rewrite (lv_pw_recv _ _ _ _ _ E). exact Hp.
  - unfold input in H. destruct (input_pre k d reg nd now) as [[[k1 c] fr]|w] eqn:E; [|discriminate].
    assert (Hp1 : lv_probe_inv k1) by (unfold lv_probe_inv in *; rewrite (lv_pw_input_pre _ _ _ _ _ _ _ _ E); exact Hp).
    destruct fr.
    + inversion H; subst k' x. exact Hp1.
    + destruct (flush k1 FLUSH_ACKONLY now) as [[[k2 nx] o]|w] eqn:Ef; [|discriminate].
      inversion H; subst k' x. eapply lv_pi_flush; eassumption.
    + destruct (flush k1 FLUSH_FULL now) as [[[k2 nx] o]|w] eqn:Ef; [|discriminate].
      inversion H; subst k' x. eapply lv_pi_flush; eassumption.
  - destruct (flush k _ now) as [[[k2 nx] o]|w] eqn:Ef; [|discriminate].
    inversion H; subst k' x. eapply lv_pi_flush; eassumption.
  - destruct (update k now) as [[k2 o]|w] eqn:Eu; [|discriminate]. inversion H; subst k' x.
    rewrite lv_update_unfold in Eu. cbv zeta in Eu.
    destruct (_ || _) in Eu; (eapply lv_pi_upd_tail; [exact Eu|]);
      destruct (updated k =? 0); exact Hp.
  - inversion H; subst k' x. exact Hp.
  - destruct (set_mtu k m) as [k1 r] eqn:E. inversion H; subst k' x.
    unfold lv_probe_inv in *. pose proof (lv_pw_set_mtu k m) as P. rewrite E in P. cbn [fst] in P. rewrite P. exact Hp.
  - inversion H; subst k' x. unfold lv_probe_inv in *. rewrite lv_pw_set_nodelay. exact Hp.
Qed.

Lemma lv_pi_run : forall ops k k' outs, run k ops = Some (k', outs) -> lv_probe_inv k -> lv_probe_inv k'.
Proof.
  induction ops as [|o t IH]; intros k k' outs H Hp; cbn [run] in H.
  - inversion H; subst. exact Hp.
  - destruct (step k o) as [[k1 x]|w] eqn:Es; [|discriminate].
    destruct (run k1 t) as [[k2 xs]|] eqn:Er; [|discriminate].
    inversion H; subst k' outs. eapply IH; [exact Er|]. eapply lv_pi_step; eassumption.
Qed.
