(* C12 simulation, part 2: flush. *)
From Coq Require Import ZArith List Bool Lia.
From KV.Base Require Import Consts Word WordLemmas.
From KV.Kcp Require Import Kcp Step Net InvBase Shift ShiftBase.
Import ListNotations.
Local Open Scope Z_scope.

Ltac Zify.zify_post_hook ::= Z.div_mod_to_equations.

(* ------------------------------------------------------------------ *)
(* flush, phase by phase                                               *)
(* ------------------------------------------------------------------ *)
Definition shf_h0 (k : kcp) : seg :=
  mkSeg (conv k) c_IKCP_CMD_ACK 0 (wnd_unused k) 0 0 (rcv_nxt k) 0 0 0 0 0 [].

Definition shf_ph1 (k : kcp) (ft : Z) : res (seg * stage * kcp) :=
  if (ft =? FLUSH_ACKONLY) || (ft =? FLUSH_FULL)
  then match flush_acks k (shf_h0 k) (mkStage [] []) (acklist k) with
       | Ok (h, st) => Ok (h, st, set_acklist k [])
       | Panic w => Panic w
       end
  else Ok (shf_h0 k, mkStage [] [], k).

Definition shf_ph2 (k1 : kcp) (now : Z) : kcp :=
  if rmt_wnd k1 =? 0 then
    if probe_wait k1 =? 0 then set_probe k1 (probe k1) (u32 (now + c_IKCP_PROBE_INIT)) c_IKCP_PROBE_INIT
    else if itimediff now (ts_probe k1) >=? 0 then
      let pw := if probe_wait k1 <? c_IKCP_PROBE_INIT then c_IKCP_PROBE_INIT else probe_wait k1 in
      let pw := u32 (pw + pw / 2) in
      let pw := if pw >? c_IKCP_PROBE_LIMIT then c_IKCP_PROBE_LIMIT else pw in
      set_probe k1 (Z.lor (probe k1) c_IKCP_ASK_SEND) (u32 (now + pw)) pw
    else k1
  else set_probe k1 (probe k1) 0 0.

Definition shf_hdr (h1 : seg) (c : Z) : seg :=
  mkSeg (s_conv h1) c (s_frg h1) (s_wnd h1) (s_ts h1) (s_sn h1) (s_una h1) 0 0 0 0 0 [].

Definition shf_ph3 (k2 : kcp) (h1 : seg) (st : stage) (flag c : Z) : res stage :=
  if negb (Z.land (probe k2) flag =? 0)
  then stage_write k2 (make_space k2 st c_IKCP_OVERHEAD) (shf_hdr h1 c)
  else Ok st.

Definition shf_cw (k3 : kcp) : Z :=
  let cw0 := Z.min (snd_wnd k3) (rmt_wnd k3) in
  if nocwnd k3 =? 0 then Z.min (cwnd k3) cw0 else cw0.

Definition shf_ph4 (k3 : kcp) (ft : Z) : list seg * list seg * Z * Z :=
  if ft =? FLUSH_FULL
  then admit_segs (snd_queue k3) (snd_buf k3) (conv k3) (snd_una k3) (snd_nxt k3) (shf_cw k3) 0
  else (snd_queue k3, snd_buf k3, snd_nxt k3, 0).

Definition shf_k4 (k3 : kcp) (sq sb : list seg) (nxt : Z) : kcp :=
  set_snd_nxt (set_queues k3 sq (rcv_queue k3) sb (rcv_buf k3)) nxt.

Definition shf_resent (k4 : kcp) : Z :=
  if fastresend k4 <=? 0 then 4294967295 else u32 (fastresend k4).

Definition shf_ph5 (k4 : kcp) (h1 : seg) (ft newsegs now : Z) (st3 : stage) : res (list seg * fl) :=
  let a0 := mkFl st3 0 0 0 0 (interval k4) false in
  if ft =? FLUSH_FULL
  then flush_segs k4 h1 (shf_resent k4) newsegs now (snd_buf k4) a0
  else Ok (snd_buf k4, a0).

Definition shf_k5 (k4 : kcp) (sb' : list seg) (a : fl) : kcp :=
  let k5 := set_snd_buf k4 sb' in
  if f_dead a then set_timer k5 4294967295 (ts_flush k5) (updated k5) else k5.

Definition shf_ph6 (k5 : kcp) (a : fl) (cw resent : Z) : kcp :=
  if nocwnd k5 =? 0 then
    let k := k5 in
    let k := if f_change a >? 0 then
               let inflight := u32 (snd_nxt k - snd_una k) in
               let sst := Z.max (inflight / 2) c_IKCP_THRESH_MIN in
               let cwn := u32 (sst + resent) in
               set_cc k sst (rmt_wnd k) cwn (u32 (cwn * mss k))
             else k in
    let k := if f_lost a >? 0 then set_cc k (Z.max (cw / 2) c_IKCP_THRESH_MIN) (rmt_wnd k) 1 (mss k) else k in
    if cwnd k <? 1 then set_cc k (ssthresh k) (rmt_wnd k) 1 (mss k) else k
  else k5.

Lemma shf_flush_unfold k ft now :
  flush k ft now =
  match shf_ph1 k ft with
  | Panic w => Panic w
  | Ok (h1, st1, k1) =>
    let k2 := shf_ph2 k1 now in
    match shf_ph3 k2 h1 st1 c_IKCP_ASK_SEND c_IKCP_CMD_WASK with
    | Panic w => Panic w
    | Ok st2 =>
    match shf_ph3 k2 h1 st2 c_IKCP_ASK_TELL c_IKCP_CMD_WINS with
    | Panic w => Panic w
    | Ok st3 =>
    let k3 := set_probe_flags k2 0 in
    let '(sq, sb, nxt, newsegs) := shf_ph4 k3 ft in
    let k4 := shf_k4 k3 sq sb nxt in
    match shf_ph5 k4 h1 ft newsegs now st3 with
    | Panic w => Panic w
    | Ok (sb', a) =>
      Ok (shf_ph6 (shf_k5 k4 sb' a) a (shf_cw k3) (shf_resent k4), f_next a, flush_buffer (f_st a))
    end end end
  end.
Proof.
  unfold flush, shf_ph1, shf_ph2, shf_ph3, shf_ph4, shf_ph5, shf_ph6, shf_k4, shf_k5, shf_cw, shf_resent, shf_hdr, shf_h0.
  cbv zeta. reflexivity.
Qed.

(* ------------------------------------------------------------------ *)
(* headers                                                             *)
(* ------------------------------------------------------------------ *)
Definition shf_hd (p : shp) (h1 h2 : seg) : Prop :=
  s_conv h1 = s_conv h2 /\ is_u32 (s_conv h1) /\ s_cmd h1 = c_IKCP_CMD_ACK /\ s_cmd h2 = c_IKCP_CMD_ACK /\
  s_frg h1 = 0 /\ s_frg h2 = 0 /\ s_wnd h1 = s_wnd h2 /\ 0 <= s_wnd h1 < 65536 /\
  s_una h2 = sh (kp p) (s_una h1) /\ is_u32 (s_una h1) /\
  is_u32 (s_ts h1) /\ is_u32 (s_sn h1) /\ is_u32 (s_ts h2) /\ is_u32 (s_sn h2).

Lemma shf_wnd_unused_range k : 0 <= wnd_unused k < 65536.
Proof. unfold wnd_unused. destruct (qlen (rcv_queue k) <? rcv_wnd k); unfold u16; lia. Qed.

Lemma shf_wnd_unused p k1 k2 : shf_R p k1 k2 -> wnd_unused k1 = wnd_unused k2.
Proof.
  intros H. unfold wnd_unused. pose proof (G_cfg _ _ _ H) as Hc. shf_dcfg Hc.
  rewrite <- Crw, <- (shf_F2_qlen _ _ _ (G_rq _ _ _ H)). reflexivity.
Qed.

Lemma shf_h0_hd p k1 k2 : shf_R p k1 k2 -> shf_hd p (shf_h0 k1) (shf_h0 k2).
Proof.
  intros H. unfold shf_hd, shf_h0. cbn [s_conv s_cmd s_frg s_wnd s_una s_ts s_sn].
  pose proof (G_cfg _ _ _ H) as Hc. shf_dcfg Hc.
  shf_split; try reflexivity; try apply shf_u32_0.
  - exact Cconv.
  - exact (G_conv32 _ _ _ H).
  - apply shf_wnd_unused with p; exact H.
  - apply shf_wnd_unused_range.
  - apply shf_wnd_unused_range.
  - exact (G_rnxt _ _ _ H).
  - exact (G_rnxt32 _ _ _ H).
Qed.

(* ------------------------------------------------------------------ *)
(* phase 1                                                             *)
(* ------------------------------------------------------------------ *)
Lemma shf_flush_acks p k1 k2 :
  mtu k1 = mtu k2 -> buflen k1 = buflen k2 -> rcv_nxt k2 = sh (kp p) (rcv_nxt k1) ->
  forall al1 al2, Forall2 (shf_al p) al1 al2 ->
  forall h1 h2 st1 st2 h1' st1', shf_hd p h1 h2 -> shf_st p st1 st2 ->
  flush_acks k1 h1 st1 al1 = Ok (h1', st1') ->
  exists h2' st2', flush_acks k2 h2 st2 al2 = Ok (h2', st2') /\ shf_hd p h1' h2' /\ shf_st p st1' st2'.
Proof.
  intros Hm Hb Hn. induction 1 as [|a1 a2 t1 t2 Ha Ht IH]; intros h1 h2 st1 st2 h1' st1' Hh Hst E.
  - cbn [flush_acks] in *. inversion E; subst. do 2 eexists. split; [reflexivity|split; assumption].
  - destruct a1 as [sn1 ts1]. destruct a2 as [sn2 ts2].
    destruct Ha as ((Hsn & Hts) & Hu1 & Hu2). cbn [fst snd] in *. subst sn2 ts2.
    cbn [flush_acks] in *.
    assert (Hnil : (match t2 with [] => true | _ => false end) = (match t1 with [] => true | _ => false end)).
    { destruct Ht; reflexivity. }
    rewrite Hnil, Hn, itimediff_sh.
    pose proof (shf_make_space p k1 k2 st1 st2 c_IKCP_OVERHEAD Hm Hst) as Hsp.
    destruct ((itimediff sn1 (rcv_nxt k1) >=? 0) || (match t1 with [] => true | _ => false end)).
    + destruct Hh as (H1 & H2 & H3 & H4 & H5 & H6 & H7 & H8 & H9 & H10 & H11 & H12 & H13 & H14).
      set (n1 := mkSeg (s_conv h1) (s_cmd h1) (s_frg h1) (s_wnd h1) ts1 sn1 (s_una h1) 0 0 0 0 0 []) in *.
      set (n2 := mkSeg (s_conv h2) (s_cmd h2) (s_frg h2) (s_wnd h2) (sh (cp p) ts1) (sh (kp p) sn1) (s_una h2) 0 0 0 0 0 []).
      assert (Hw1 : seg_wf n1).
      { unfold seg_wf, n1. cbn [s_conv s_cmd s_frg s_wnd s_ts s_sn s_una s_data]. rewrite H3, H5.
        unfold c_IKCP_CMD_ACK, c_mtuLimit. shf_split; try assumption; try lia; try apply shf_bl_nil.
        rewrite blen_nil. lia. }
      assert (Hw2 : seg_wf n2).
      { unfold seg_wf, n2. cbn [s_conv s_cmd s_frg s_wnd s_ts s_sn s_una s_data]. rewrite H4, H6, <- H1, <- H7, H9.
        unfold c_IKCP_CMD_ACK, c_mtuLimit. shf_split; try assumption; try lia; try apply shf_sh_u32; try apply shf_bl_nil.
        rewrite blen_nil. lia. }
      assert (Hr : R_out_seg p n1 n2).
      { unfold R_out_seg, same_hdr, n1, n2. cbn [s_conv s_cmd s_frg s_wnd s_ts s_sn s_una s_data].
        shf_split; try assumption; try reflexivity; try congruence.
        - rewrite H3. unfold c_IKCP_CMD_ACK, c_IKCP_CMD_PUSH. intros F; discriminate.
        - intros _. split; reflexivity. }
      destruct (stage_write k1 (make_space k1 st1 c_IKCP_OVERHEAD) n1) as [st1a|w] eqn:Ew; [|discriminate].
      destruct (shf_stage_write p k1 k2 _ _ n1 n2 st1a Hb Hsp Hw1 Hw2 Hr Ew) as (st2a & Ew2 & Hsta).
      fold n2. rewrite Ew2. eapply IH; [|exact Hsta|exact E].
      unfold shf_hd, n1, n2. cbn [s_conv s_cmd s_frg s_wnd s_ts s_sn s_una s_data].
      shf_split; try assumption; try apply shf_sh_u32; lia.
    + eapply IH; [exact Hh|exact Hsp|exact E].
Qed.

Lemma shf_ph1_sim p k1 k2 ft h1 st1 k1' :
  shf_R p k1 k2 -> shf_ph1 k1 ft = Ok (h1, st1, k1') ->
  exists h2 st2 k2', shf_ph1 k2 ft = Ok (h2, st2, k2') /\ shf_hd p h1 h2 /\ shf_st p st1 st2 /\ shf_R p k1' k2'.
Proof.
  intros H. unfold shf_ph1. pose proof (G_cfg _ _ _ H) as Hc. shf_dcfg Hc.
  destruct ((ft =? FLUSH_ACKONLY) || (ft =? FLUSH_FULL)).
  - destruct (flush_acks k1 (shf_h0 k1) (mkStage [] []) (acklist k1)) as [[h st]|w] eqn:E; [|discriminate].
    destruct (shf_flush_acks p k1 k2 Cmtu Cbl (G_rnxt _ _ _ H) _ _ (G_al _ _ _ H) _ _ _ _ _ _
                (shf_h0_hd _ _ _ H) (shf_st0 p) E) as (h2 & st2 & E2 & Hh & Hs).
    rewrite E2. intros X; inversion X; subst. do 3 eexists. split; [reflexivity|].
    split; [exact Hh|]. split; [exact Hs|]. apply shf_R_set_acklist; [exact H|constructor].
  - intros X; inversion X; subst. do 3 eexists. split; [reflexivity|].
    split; [apply shf_h0_hd; exact H|]. split; [apply shf_st0|exact H].
Qed.

(* ------------------------------------------------------------------ *)
(* phase 2                                                             *)
(* ------------------------------------------------------------------ *)
Lemma shf_ph2_sim p k1 k2 now :
  shf_R p k1 k2 -> shf_R p (shf_ph2 k1 now) (shf_ph2 k2 (sh (co p) now)).
Proof.
  intros H. unfold shf_ph2. pose proof (G_cfg _ _ _ H) as Hc. shf_dcfg Hc.
  rewrite <- Crmt, <- Cpw, <- Cprobe.
  destruct (rmt_wnd k1 =? 0).
  - destruct (probe_wait k1 =? 0) eqn:Epw.
    + apply shf_R_set_probe; [exact H|]. intros _. apply shf_sh_add.
    + apply Z.eqb_neq in Epw. rewrite (G_tsprobe _ _ _ H Epw), itimediff_sh.
      destruct (itimediff now (ts_probe k1) >=? 0); [|exact H].
      cbv zeta. apply shf_R_set_probe; [exact H|]. intros _. apply shf_sh_add.
  - apply shf_R_set_probe; [exact H|]. intros F. contradiction.
Qed.

(* ------------------------------------------------------------------ *)
(* phase 3                                                             *)
(* ------------------------------------------------------------------ *)
Lemma shf_ph3_sim p k1 k2 h1 h2 st1 st2 flag c st1' :
  shf_R p k1 k2 -> shf_hd p h1 h2 -> shf_st p st1 st2 ->
  0 <= c < 256 -> c <> c_IKCP_CMD_PUSH -> c <> c_IKCP_CMD_ACK ->
  shf_ph3 k1 h1 st1 flag c = Ok st1' ->
  exists st2', shf_ph3 k2 h2 st2 flag c = Ok st2' /\ shf_st p st1' st2'.
Proof.
  intros H Hh Hst Hc1 Hc2 Hc3. unfold shf_ph3. pose proof (G_cfg _ _ _ H) as Hc. shf_dcfg Hc.
  rewrite <- Cprobe.
  destruct (negb (Z.land (probe k1) flag =? 0)); [|intros E; inversion E; subst; eexists; split; [reflexivity|exact Hst]].
  destruct Hh as (H1 & H2 & H3 & H4 & H5 & H6 & H7 & H8 & H9 & H10 & H11 & H12 & H13 & H14).
  intros E.
  assert (Hw1 : seg_wf (shf_hdr h1 c)).
  { unfold seg_wf, shf_hdr. cbn [s_conv s_cmd s_frg s_wnd s_ts s_sn s_una s_data]. rewrite H5.
    unfold c_mtuLimit. shf_split; try assumption; try lia; try apply shf_bl_nil. rewrite blen_nil. lia. }
  assert (Hw2 : seg_wf (shf_hdr h2 c)).
  { unfold seg_wf, shf_hdr. cbn [s_conv s_cmd s_frg s_wnd s_ts s_sn s_una s_data]. rewrite H6, <- H1, <- H7, H9.
    unfold c_mtuLimit. shf_split; try assumption; try lia; try apply shf_sh_u32; try apply shf_bl_nil.
    rewrite blen_nil. lia. }
  assert (Hr : R_out_seg p (shf_hdr h1 c) (shf_hdr h2 c)).
  { unfold R_out_seg, same_hdr, shf_hdr. cbn [s_conv s_cmd s_frg s_wnd s_ts s_sn s_una s_data].
    shf_split; try assumption; try reflexivity; try congruence; intros F; contradiction. }
  exact (shf_stage_write p k1 k2 _ _ _ _ _ Cbl (shf_make_space p k1 k2 st1 st2 c_IKCP_OVERHEAD Cmtu Hst) Hw1 Hw2 Hr E).
Qed.

(* ------------------------------------------------------------------ *)
(* phase 4                                                             *)
(* ------------------------------------------------------------------ *)
(* inside flush: segments just numbered have not been stamped yet *)
Definition shf_sbw (p : shp) (s1 s2 : seg) : Prop :=
  R_sq s1 s2 /\ s_conv s1 = s_conv s2 /\ s_cmd s1 = s_cmd s2 /\ s_sn s2 = sh (ko p) (s_sn s1) /\
  shf_dwf s1 /\ s_cmd s1 = c_IKCP_CMD_PUSH /\ is_u32 (s_conv s1) /\ is_u32 (s_sn s1) /\
  ((s_xmit s1 = 0 /\ s_acked s1 = 0) \/
   (s_ts s2 = sh (co p) (s_ts s1) /\ s_resendts s2 = sh (co p) (s_resendts s1) /\
    s_una s2 = sh (kp p) (s_una s1) /\ s_wnd s1 = s_wnd s2)).

Lemma shf_sb_sbw p s1 s2 : shf_sb p s1 s2 -> shf_sbw p s1 s2.
Proof.
  intros ((Hq & Hc & Hcmd & Hsn & Hts & Hrs & Hun & Hw) & Hd & Hp & Hcu & Hsu).
  unfold shf_sbw. shf_split; try assumption. right. shf_split; assumption.
Qed.

Lemma shf_admit p cv cw : forall sq1 sq2, Forall2 shf_sq sq1 sq2 ->
  forall sb1 sb2 una1 una2 nxt1 nxt2 n sq1' sb1' nxt1' n',
  Forall2 (shf_sbw p) sb1 sb2 -> una2 = sh (ko p) una1 -> nxt2 = sh (ko p) nxt1 -> is_u32 nxt1 -> is_u32 cv ->
  admit_segs sq1 sb1 cv una1 nxt1 cw n = (sq1', sb1', nxt1', n') ->
  exists sq2' sb2' nxt2', admit_segs sq2 sb2 cv una2 nxt2 cw n = (sq2', sb2', nxt2', n') /\
    Forall2 shf_sq sq1' sq2' /\ Forall2 (shf_sbw p) sb1' sb2' /\ nxt2' = sh (ko p) nxt1' /\ is_u32 nxt1'.
Proof.
  induction 1 as [|s1 s2 t1 t2 Hs Ht IH]; intros sb1 sb2 una1 una2 nxt1 nxt2 n sq1' sb1' nxt1' n' Hsb Hu Hn Hn32 Hcv E.
  - cbn [admit_segs] in *. inversion E; subst. do 3 eexists. split; [reflexivity|].
    shf_split; try assumption; try reflexivity. constructor.
  - cbn [admit_segs] in *. rewrite Hu, Hn, shf_itd_add.
    destruct (itimediff nxt1 (u32 (una1 + cw)) >=? 0).
    + inversion E; subst. do 3 eexists. split; [reflexivity|].
      shf_split; try assumption; try reflexivity. constructor; assumption.
    + rewrite shf_sh_add. eapply IH; [|reflexivity|reflexivity|apply u32_range|exact Hcv|exact E].
      apply shf_F2_snoc; [exact Hsb|].
      destruct Hs as ((Hfrg & Hdata & Hxmit & Hacked & Hfa & Hrto) & (Hf1 & Hbl1 & Hlen1) & Hx0 & Ha0).
      unfold shf_sbw, R_sq, shf_dwf. cbn [s_conv s_cmd s_frg s_wnd s_ts s_sn s_una s_data s_xmit s_acked s_fastack s_rto].
      shf_split; try assumption; try reflexivity; lia.
Qed.

Lemma shf_cw_eq p k1 k2 : shf_R p k1 k2 -> shf_cw k1 = shf_cw k2.
Proof.
  intros H. unfold shf_cw. pose proof (G_cfg _ _ _ H) as Hc. shf_dcfg Hc.
  rewrite <- Csw, <- Crmt, <- Cnc, <- Ccwnd. reflexivity.
Qed.

Lemma shf_ph4_sim p k1 k2 ft sq1 sb1 nxt1 ns :
  shf_R p k1 k2 -> shf_ph4 k1 ft = (sq1, sb1, nxt1, ns) ->
  exists sq2 sb2 nxt2, shf_ph4 k2 ft = (sq2, sb2, nxt2, ns) /\
    Forall2 shf_sq sq1 sq2 /\ Forall2 (shf_sbw p) sb1 sb2 /\ nxt2 = sh (ko p) nxt1 /\ is_u32 nxt1.
Proof.
  intros H. unfold shf_ph4. pose proof (G_cfg _ _ _ H) as Hc. shf_dcfg Hc.
  assert (Hw : Forall2 (shf_sbw p) (snd_buf k1) (snd_buf k2)).
  { eapply shf_F2_impl; [|exact (G_sndb _ _ _ H)]. apply shf_sb_sbw. }
  destruct (ft =? FLUSH_FULL).
  - rewrite <- (shf_cw_eq _ _ _ H), <- Cconv. intros E.
    eapply shf_admit; [exact (G_sndq _ _ _ H)|exact Hw|exact (G_una _ _ _ H)|exact (G_nxt _ _ _ H)
                      |exact (G_nxt32 _ _ _ H)|exact (G_conv32 _ _ _ H)|exact E].
  - intros E; inversion E; subst. do 3 eexists. split; [reflexivity|].
    shf_split; [exact (G_sndq _ _ _ H)|exact Hw|exact (G_nxt _ _ _ H)|exact (G_nxt32 _ _ _ H)].
Qed.

(* ------------------------------------------------------------------ *)
(* phase 5                                                             *)
(* ------------------------------------------------------------------ *)
Definition shf_fl (p : shp) (a1 a2 : fl) : Prop :=
  shf_st p (f_st a1) (f_st a2) /\ f_change a1 = f_change a2 /\ f_lost a1 = f_lost a2 /\
  f_fast a1 = f_fast a2 /\ f_early a1 = f_early a2 /\ f_next a1 = f_next a2 /\ f_dead a1 = f_dead a2.

Definition shf_decide (k : kcp) (resent newsegs now : Z) (s : seg) (a : fl) : bool * Z * Z * Z * fl :=
      if s_xmit s =? 0 then
        (true, rx_rto k, u32 (now + rx_rto k), s_fastack s, a)
      else if (s_fastack s >=? resent) && negb (s_fastack s =? 4294967295) then
        (true, rx_rto k, u32 (now + rx_rto k), 4294967295,
         mkFl (f_st a) (f_change a + 1) (f_lost a) (f_fast a + 1) (f_early a) (f_next a) (f_dead a))
      else if (s_fastack s >? 0) && negb (s_fastack s =? 4294967295) && (newsegs =? 0) then
        (true, rx_rto k, u32 (now + rx_rto k), 4294967295,
         mkFl (f_st a) (f_change a + 1) (f_lost a) (f_fast a) (f_early a + 1) (f_next a) (f_dead a))
      else if itimediff now (s_resendts s) >=? 0 then
        let rto := if nodelay k =? 0 then u32 (s_rto s + rx_rto k) else u32 (s_rto s + rx_rto k / 2) in
        (true, rto, u32 (now + rto), 0,
         mkFl (f_st a) (f_change a) (f_lost a + 1) (f_fast a) (f_early a) (f_next a) (f_dead a))
      else (false, s_rto s, s_resendts s, s_fastack s, a).

Definition shf_emit (k : kcp) (h : seg) (now : Z) (s : seg) (needsend : bool) (rto resendts fastack : Z) (a1 : fl)
  : res (seg * fl) :=
    let finish (s' : seg) (a' : fl) : res (seg * fl) :=
      let d := itimediff (s_resendts s') now in
      let nx := if (d >? 0) && (d <? f_next a') then d else f_next a' in
      Ok (s', mkFl (f_st a') (f_change a') (f_lost a') (f_fast a') (f_early a') nx (f_dead a')) in
    if needsend then
      let s' := mkSeg (s_conv s) (s_cmd s) (s_frg s) (s_wnd h) now (s_sn s) (s_una h)
                      rto (u32 (s_xmit s + 1)) resendts fastack (s_acked s) (s_data s) in
      let st1 := make_space k (f_st a1) (c_IKCP_OVERHEAD + blen (s_data s)) in
      match stage_write k st1 s' with
      | Panic w => Panic w
      | Ok st2 =>
          finish s' (mkFl st2 (f_change a1) (f_lost a1) (f_fast a1) (f_early a1) (f_next a1)
                          ((s_xmit s' >=? dead_link k) || f_dead a1))
      end
    else
      finish (mkSeg (s_conv s) (s_cmd s) (s_frg s) (s_wnd s) (s_ts s) (s_sn s) (s_una s)
                    rto (s_xmit s) resendts fastack (s_acked s) (s_data s)) a1.

Lemma shf_flush_seg_unfold k h resent newsegs now s a :
  flush_seg k h resent newsegs now s a =
  if s_acked s =? 1 then Ok (s, a)
  else let '(ns, rto, rts, fa, a1) := shf_decide k resent newsegs now s a in
       shf_emit k h now s ns rto rts fa a1.
Proof. unfold flush_seg, shf_decide, shf_emit. cbv zeta. reflexivity. Qed.

Lemma shf_decide_sim p k1 k2 resent newsegs now s1 s2 a1 a2 ns rto rts fa a1' :
  shf_cfg k1 k2 -> R_sq s1 s2 -> (s_xmit s1 <> 0 -> s_resendts s2 = sh (co p) (s_resendts s1)) ->
  shf_fl p a1 a2 ->
  shf_decide k1 resent newsegs now s1 a1 = (ns, rto, rts, fa, a1') ->
  exists a2', shf_decide k2 resent newsegs (sh (co p) now) s2 a2 = (ns, rto, sh (co p) rts, fa, a2') /\
              shf_fl p a1' a2' /\ (s_xmit s1 = 0 -> ns = true) /\
              (ns = false -> rto = s_rto s1 /\ rts = s_resendts s1 /\ fa = s_fastack s1).
Proof.
  intros Hc (Hfrg & Hdata & Hxmit & Hacked & Hfa & Hrto) Hrs Ha. shf_dcfg Hc.
  pose proof Ha as (Hst & A1 & A2 & A3 & A4 & A5 & A6).
  unfold shf_decide. rewrite <- Hxmit, <- Hfa, <- Hrto, <- Crto, <- Cnd.
  destruct (s_xmit s1 =? 0) eqn:Ex.
  - intros E; inversion E; subst. eexists. rewrite shf_sh_add. split; [reflexivity|].
    split; [exact Ha|]. split; [reflexivity|discriminate].
  - apply Z.eqb_neq in Ex. rewrite (Hrs Ex), itimediff_sh.
    destruct ((s_fastack s1 >=? resent) && negb (s_fastack s1 =? 4294967295)).
    { intros E; inversion E; subst. eexists. rewrite shf_sh_add. split; [reflexivity|].
      split; [|split; [contradiction|discriminate]].
      unfold shf_fl. cbn [f_st f_change f_lost f_fast f_early f_next f_dead]. rewrite A1, A3.
      shf_split; try assumption; try reflexivity; lia. }
    destruct ((s_fastack s1 >? 0) && negb (s_fastack s1 =? 4294967295) && (newsegs =? 0)).
    { intros E; inversion E; subst. eexists. rewrite shf_sh_add. split; [reflexivity|].
      split; [|split; [contradiction|discriminate]].
      unfold shf_fl. cbn [f_st f_change f_lost f_fast f_early f_next f_dead]. rewrite A1, A4.
      shf_split; try assumption; try reflexivity; lia. }
    destruct (itimediff now (s_resendts s1) >=? 0).
    { cbv zeta. intros E; inversion E; subst. eexists. rewrite shf_sh_add. split; [reflexivity|].
      split; [|split; [contradiction|discriminate]].
      unfold shf_fl. cbn [f_st f_change f_lost f_fast f_early f_next f_dead]. rewrite A2.
      shf_split; try assumption; try reflexivity; lia. }
    intros E; inversion E; subst. eexists. split; [reflexivity|].
    split; [exact Ha|]. split; [contradiction|]. intros _. shf_split; reflexivity.
Qed.

Lemma shf_emit_sim p k1 k2 h1 h2 now s1 s2 ns rto rts fa a1 a2 s1' a1' :
  shf_cfg k1 k2 -> shf_hd p h1 h2 -> is_u32 now -> shf_sbw p s1 s2 ->
  (ns = false -> shf_sb p s1 s2) -> shf_fl p a1 a2 ->
  shf_emit k1 h1 now s1 ns rto rts fa a1 = Ok (s1', a1') ->
  exists s2' a2', shf_emit k2 h2 (sh (co p) now) s2 ns rto (sh (co p) rts) fa a2 = Ok (s2', a2') /\
                  shf_sb p s1' s2' /\ shf_fl p a1' a2'.
Proof.
  intros Hc Hh Hnow Hw Hstrong Ha. shf_dcfg Hc.
  pose proof Ha as (Hst & A1 & A2 & A3 & A4 & A5 & A6).
  pose proof Hw as ((Hfrg & Hdata & Hxmit & Hacked & Hfa & Hrto) & Hcv & Hcmd & Hsn & (Hf1 & Hbl1 & Hlen1) & Hpush & Hcu & Hsu & _).
  destruct Hh as (H1 & H2 & H3 & H4 & H5 & H6 & H7 & H8 & H9 & H10 & H11 & H12 & H13 & H14).
  unfold shf_emit. cbv zeta. destruct ns.
  - set (n1 := mkSeg (s_conv s1) (s_cmd s1) (s_frg s1) (s_wnd h1) now (s_sn s1) (s_una h1) rto
                     (u32 (s_xmit s1 + 1)) rts fa (s_acked s1) (s_data s1)).
    set (n2 := mkSeg (s_conv s2) (s_cmd s2) (s_frg s2) (s_wnd h2) (sh (co p) now) (s_sn s2) (s_una h2) rto
                     (u32 (s_xmit s2 + 1)) (sh (co p) rts) fa (s_acked s2) (s_data s2)).
    assert (Hw1 : seg_wf n1).
    { unfold seg_wf, n1. cbn [s_conv s_cmd s_frg s_wnd s_ts s_sn s_una s_data]. rewrite Hpush.
      unfold c_IKCP_CMD_PUSH. shf_split; try assumption; lia. }
    assert (Hw2 : seg_wf n2).
    { unfold seg_wf, n2. cbn [s_conv s_cmd s_frg s_wnd s_ts s_sn s_una s_data].
      rewrite <- Hcv, <- Hcmd, Hpush, <- Hfrg, <- H7, Hsn, H9, <- Hdata.
      unfold c_IKCP_CMD_PUSH. shf_split; try assumption; try lia; apply shf_sh_u32. }
    assert (Hr : R_out_seg p n1 n2).
    { unfold R_out_seg, same_hdr, n1, n2. cbn [s_conv s_cmd s_frg s_wnd s_ts s_sn s_una s_data].
      shf_split; try assumption.
      - intros _. split; [exact Hsn|reflexivity].
      - rewrite Hpush. unfold c_IKCP_CMD_ACK, c_IKCP_CMD_PUSH. intros F; discriminate. }
    assert (Hsb' : shf_sb p n1 n2).
    { unfold shf_sb, R_sb, R_sq, shf_dwf, n1, n2.
      cbn [s_conv s_cmd s_frg s_wnd s_ts s_sn s_una s_data s_xmit s_acked s_fastack s_rto s_resendts].
      rewrite <- Hxmit. shf_split; try assumption; try reflexivity; lia. }
    rewrite <- Hdata.
    destruct (stage_write k1 (make_space k1 (f_st a1) (c_IKCP_OVERHEAD + blen (s_data s1))) n1) as [st1a|w] eqn:Ew;
      [|discriminate].
    destruct (shf_stage_write p k1 k2 _ _ n1 n2 st1a Cbl
                (shf_make_space p k1 k2 _ _ (c_IKCP_OVERHEAD + blen (s_data s1)) Cmtu Hst) Hw1 Hw2 Hr Ew)
      as (st2a & Ew2 & Hsta).
    rewrite Ew2. cbn [f_st f_change f_lost f_fast f_early f_next f_dead].
    change (s_resendts n1) with rts. change (s_resendts n2) with (sh (co p) rts).
    change (s_xmit n1) with (u32 (s_xmit s1 + 1)). change (s_xmit n2) with (u32 (s_xmit s2 + 1)).
    rewrite itimediff_sh, <- Hxmit, <- Cdl, <- A1, <- A2, <- A3, <- A4, <- A5, <- A6.
    intros E; inversion E; subst. do 2 eexists. split; [reflexivity|]. split; [exact Hsb'|].
    unfold shf_fl. cbn [f_st f_change f_lost f_fast f_early f_next f_dead]. shf_split; try assumption; try reflexivity; lia.
  - destruct (Hstrong eq_refl) as ((_ & _ & _ & _ & Hts & Hrs & Hun & Hwn) & _).
    cbn [f_st f_change f_lost f_fast f_early f_next f_dead s_resendts].
    rewrite itimediff_sh, <- A1, <- A2, <- A3, <- A4, <- A5, <- A6.
    intros E; inversion E; subst. do 2 eexists. split; [reflexivity|]. split.
    + unfold shf_sb, R_sb, R_sq, shf_dwf.
      cbn [s_conv s_cmd s_frg s_wnd s_ts s_sn s_una s_data s_xmit s_acked s_fastack s_rto s_resendts].
      shf_split; try assumption; try reflexivity; lia.
    + unfold shf_fl. cbn [f_st f_change f_lost f_fast f_early f_next f_dead]. shf_split; try assumption; try reflexivity; lia.
Qed.

Lemma shf_flush_seg_sim p k1 k2 h1 h2 resent newsegs now s1 s2 a1 a2 s1' a1' :
  shf_cfg k1 k2 -> shf_hd p h1 h2 -> is_u32 now -> shf_sbw p s1 s2 -> shf_fl p a1 a2 ->
  flush_seg k1 h1 resent newsegs now s1 a1 = Ok (s1', a1') ->
  exists s2' a2', flush_seg k2 h2 resent newsegs (sh (co p) now) s2 a2 = Ok (s2', a2') /\
                  shf_sb p s1' s2' /\ shf_fl p a1' a2'.
Proof.
  intros Hc Hh Hnow Hw Ha. rewrite !shf_flush_seg_unfold.
  pose proof Hw as (Hq & Hcv & Hcmd & Hsn & Hd & Hpush & Hcu & Hsu & Hor).
  pose proof Hq as (Hfrg & Hdata & Hxmit & Hacked & Hfa & Hrto).
  rewrite <- Hacked.
  destruct (s_acked s1 =? 1) eqn:Eack.
  - intros E; inversion E; subst. do 2 eexists. split; [reflexivity|]. split; [|exact Ha].
    destruct Hor as [[_ Hz]|(Hts & Hrs & Hun & Hwn)].
    + rewrite Hz in Eack. discriminate.
    + unfold shf_sb, R_sb. shf_split; assumption.
  - destruct (shf_decide k1 resent newsegs now s1 a1) as [[[[ns rto] rts] fa] a1m] eqn:Ed.
    assert (Hrs : s_xmit s1 <> 0 -> s_resendts s2 = sh (co p) (s_resendts s1)).
    { intros Hx. destruct Hor as [[Hz _]|(_ & Hrs & _)]; [contradiction|exact Hrs]. }
    destruct (shf_decide_sim p k1 k2 resent newsegs now s1 s2 a1 a2 ns rto rts fa a1m Hc Hq Hrs Ha Ed)
      as (a2m & Ed2 & Ham & Hns & _).
    rewrite Ed2. apply shf_emit_sim; try assumption.
    intros Hf. destruct Hor as [[Hz _]|(Hts & Hrs' & Hun & Hwn)].
    + rewrite (Hns Hz) in Hf. discriminate.
    + unfold shf_sb, R_sb. shf_split; assumption.
Qed.

Lemma shf_flush_segs_sim p k1 k2 h1 h2 resent newsegs now :
  shf_cfg k1 k2 -> shf_hd p h1 h2 -> is_u32 now ->
  forall l1 l2, Forall2 (shf_sbw p) l1 l2 -> forall a1 a2 l1' a1', shf_fl p a1 a2 ->
  flush_segs k1 h1 resent newsegs now l1 a1 = Ok (l1', a1') ->
  exists l2' a2', flush_segs k2 h2 resent newsegs (sh (co p) now) l2 a2 = Ok (l2', a2') /\
                  Forall2 (shf_sb p) l1' l2' /\ shf_fl p a1' a2'.
Proof.
  intros Hc Hh Hnow. induction 1 as [|s1 s2 t1 t2 Hs Ht IH]; intros a1 a2 l1' a1' Ha E.
  - cbn [flush_segs] in *. inversion E; subst. do 2 eexists. split; [reflexivity|]. split; [constructor|exact Ha].
  - cbn [flush_segs] in *.
    destruct (flush_seg k1 h1 resent newsegs now s1 a1) as [[s1' a1m]|w] eqn:Es; [|discriminate].
    destruct (shf_flush_seg_sim p k1 k2 h1 h2 resent newsegs now s1 s2 a1 a2 s1' a1m Hc Hh Hnow Hs Ha Es)
      as (s2' & a2m & Es2 & Hs' & Ham).
    rewrite Es2.
    destruct (flush_segs k1 h1 resent newsegs now t1 a1m) as [[t1' a1f]|w] eqn:Et; [|discriminate].
    destruct (IH _ _ _ _ Ham Et) as (t2' & a2f & Et2 & Ht' & Haf).
    rewrite Et2. inversion E; subst. do 2 eexists. split; [reflexivity|].
    split; [constructor; assumption|exact Haf].
Qed.

Lemma shf_ph4_strong p k1 k2 ft sq1 sb1 nxt1 ns :
  shf_R p k1 k2 -> (ft =? FLUSH_FULL) = false -> shf_ph4 k1 ft = (sq1, sb1, nxt1, ns) ->
  sb1 = snd_buf k1 /\ shf_ph4 k2 ft = (snd_queue k2, snd_buf k2, snd_nxt k2, 0).
Proof.
  intros H Hf. unfold shf_ph4. rewrite Hf. intros E; inversion E; subst. split; reflexivity.
Qed.

Lemma shf_resent_eq k1 k2 : shf_cfg k1 k2 -> shf_resent k1 = shf_resent k2.
Proof. intros Hc. shf_dcfg Hc. unfold shf_resent. rewrite <- Cfr. reflexivity. Qed.

Lemma shf_ph5_sim p k1 k2 h1 h2 ft ns now st1 st2 sb1' a1' :
  shf_cfg k1 k2 -> Forall2 (shf_sbw p) (snd_buf k1) (snd_buf k2) ->
  ((ft =? FLUSH_FULL) = false -> Forall2 (shf_sb p) (snd_buf k1) (snd_buf k2)) ->
  shf_hd p h1 h2 -> is_u32 now -> shf_st p st1 st2 ->
  shf_ph5 k1 h1 ft ns now st1 = Ok (sb1', a1') ->
  exists sb2' a2', shf_ph5 k2 h2 ft ns (sh (co p) now) st2 = Ok (sb2', a2') /\
                   Forall2 (shf_sb p) sb1' sb2' /\ shf_fl p a1' a2'.
Proof.
  intros Hc Hw Hs Hh Hnow Hst. unfold shf_ph5. cbv zeta.
  rewrite <- (shf_resent_eq _ _ Hc). pose proof Hc as Hc'. shf_dcfg Hc'. rewrite <- Civ.
  assert (Ha0 : shf_fl p (mkFl st1 0 0 0 0 (interval k1) false) (mkFl st2 0 0 0 0 (interval k1) false)).
  { unfold shf_fl. cbn [f_st f_change f_lost f_fast f_early f_next f_dead]. shf_split; try reflexivity. exact Hst. }
  destruct (ft =? FLUSH_FULL).
  - intros E. eapply shf_flush_segs_sim; eassumption.
  - intros E; inversion E; subst. do 2 eexists. split; [reflexivity|]. split; [apply Hs; reflexivity|exact Ha0].
Qed.

(* ------------------------------------------------------------------ *)
(* phases 5b / 6                                                       *)
(* ------------------------------------------------------------------ *)
Lemma shf_k5_sim p k1 k2 sq1 sq2 sb1 sb2 nxt1 nxt2 sb1' sb2' a1 a2 :
  shf_R p k1 k2 -> Forall2 shf_sq sq1 sq2 -> Forall2 (shf_sb p) sb1' sb2' ->
  nxt2 = sh (ko p) nxt1 -> is_u32 nxt1 -> f_dead a1 = f_dead a2 ->
  shf_R p (shf_k5 (shf_k4 k1 sq1 sb1 nxt1) sb1' a1) (shf_k5 (shf_k4 k2 sq2 sb2 nxt2) sb2' a2).
Proof.
  intros H Hsq Hsb Hn Hn32 Hd. unfold shf_k5. cbv zeta. rewrite <- Hd.
  change (set_snd_buf (shf_k4 k1 sq1 sb1 nxt1) sb1') with (shf_k4 k1 sq1 sb1' nxt1).
  change (set_snd_buf (shf_k4 k2 sq2 sb2 nxt2) sb2') with (shf_k4 k2 sq2 sb2' nxt2).
  assert (H5 : shf_R p (shf_k4 k1 sq1 sb1' nxt1) (shf_k4 k2 sq2 sb2' nxt2)).
  { unfold shf_k4. apply shf_R_set_snd_nxt; [|exact Hn|exact Hn32].
    apply shf_R_set_queues; try assumption; [exact (G_rq _ _ _ H)|exact (G_rb _ _ _ H)]. }
  destruct (f_dead a1); [|exact H5].
  pose proof (G_cfg _ _ _ H5) as Hc. shf_dcfg Hc. rewrite <- Cupd.
  apply shf_R_set_timer; [exact H5|exact (G_tsflush _ _ _ H5)|exact (G_tsflush0 _ _ _ H5)].
Qed.

Lemma shf_ph6_sim p k1 k2 a1 a2 cw resent :
  shf_R p k1 k2 -> f_change a1 = f_change a2 -> f_lost a1 = f_lost a2 ->
  shf_R p (shf_ph6 k1 a1 cw resent) (shf_ph6 k2 a2 cw resent).
Proof.
  intros H A1 A2. unfold shf_ph6. pose proof (G_cfg _ _ _ H) as Hc. shf_dcfg Hc.
  rewrite <- Cnc, <- A1, <- A2. destruct (nocwnd k1 =? 0); [|exact H]. cbv zeta.
  rewrite (G_nxt _ _ _ H), (G_una _ _ _ H), shf_sh_sub, <- Crmt, <- Cmss.
  match goal with |- shf_R p (if cwnd ?x <? 1 then _ else _) (if cwnd ?y <? 1 then _ else _) =>
    set (kb1 := x); set (kb2 := y) end.
  assert (Hb : shf_R p kb1 kb2).
  { unfold kb1, kb2.
    match goal with |- shf_R p (if _ then set_cc ?x _ _ _ _ else _) (if _ then set_cc ?y _ _ _ _ else _) =>
      set (ka1 := x); set (ka2 := y) end.
    assert (Ha : shf_R p ka1 ka2).
    { unfold ka1, ka2. destruct (f_change a1 >? 0); [apply shf_R_set_cc|]; exact H. }
    clearbody ka1 ka2. pose proof (G_cfg _ _ _ Ha) as Hc'.
    destruct Hc' as (_ & _ & Cmss' & _ & _ & _ & Crmt' & _).
    rewrite <- Crmt', <- Cmss'. destruct (f_lost a1 >? 0); [apply shf_R_set_cc|]; exact Ha. }
  clearbody kb1 kb2. pose proof (G_cfg _ _ _ Hb) as Hc'.
  destruct Hc' as (_ & _ & Cmss' & _ & _ & _ & Crmt' & Ccw' & _ & Csst' & _).
  rewrite <- Crmt', <- Cmss', <- Ccw', <- Csst'. destruct (cwnd kb1 <? 1); [apply shf_R_set_cc|]; exact Hb.
Qed.

(* ------------------------------------------------------------------ *)
(* flush                                                               *)
(* ------------------------------------------------------------------ *)
Lemma shf_cfg_k4 p k1 k2 sq1 sq2 sb1 sb2 n1 n2 :
  shf_R p k1 k2 -> shf_cfg (shf_k4 k1 sq1 sb1 n1) (shf_k4 k2 sq2 sb2 n2).
Proof. intros H. exact (G_cfg _ _ _ H). Qed.

Lemma shf_flush_sim p k1 k2 ft now k1' nx o1 :
  shf_R p k1 k2 -> is_u32 now -> flush k1 ft now = Ok (k1', nx, o1) ->
  exists k2' o2, flush k2 ft (sh (co p) now) = Ok (k2', nx, o2) /\ shf_R p k1' k2' /\
                 Forall2 (shf_dg p) o1 o2.
Proof.
  intros H Hnow. rewrite !shf_flush_unfold.
  destruct (shf_ph1 k1 ft) as [[[h1 st1] ka1]|w] eqn:E1; [|discriminate].
  destruct (shf_ph1_sim p k1 k2 ft h1 st1 ka1 H E1) as (h2 & st2 & ka2 & E1' & Hh & Hst & Ha).
  rewrite E1'. cbv zeta.
  pose proof (shf_ph2_sim p ka1 ka2 now Ha) as Hb.
  set (kb1 := shf_ph2 ka1 now) in *. set (kb2 := shf_ph2 ka2 (sh (co p) now)) in *. clearbody kb1 kb2.
  destruct (shf_ph3 kb1 h1 st1 c_IKCP_ASK_SEND c_IKCP_CMD_WASK) as [st1b|w] eqn:E3; [|discriminate].
  assert (W1 : 0 <= c_IKCP_CMD_WASK < 256) by (unfold c_IKCP_CMD_WASK; lia).
  assert (W2 : c_IKCP_CMD_WASK <> c_IKCP_CMD_PUSH) by (unfold c_IKCP_CMD_WASK, c_IKCP_CMD_PUSH; lia).
  assert (W3 : c_IKCP_CMD_WASK <> c_IKCP_CMD_ACK) by (unfold c_IKCP_CMD_WASK, c_IKCP_CMD_ACK; lia).
  assert (V1 : 0 <= c_IKCP_CMD_WINS < 256) by (unfold c_IKCP_CMD_WINS; lia).
  assert (V2 : c_IKCP_CMD_WINS <> c_IKCP_CMD_PUSH) by (unfold c_IKCP_CMD_WINS, c_IKCP_CMD_PUSH; lia).
  assert (V3 : c_IKCP_CMD_WINS <> c_IKCP_CMD_ACK) by (unfold c_IKCP_CMD_WINS, c_IKCP_CMD_ACK; lia).
  destruct (shf_ph3_sim p kb1 kb2 h1 h2 st1 st2 c_IKCP_ASK_SEND c_IKCP_CMD_WASK st1b Hb Hh Hst W1 W2 W3 E3)
    as (st2b & E3' & Hstb).
  rewrite E3'.
  destruct (shf_ph3 kb1 h1 st1b c_IKCP_ASK_TELL c_IKCP_CMD_WINS) as [st1c|w] eqn:E4; [|discriminate].
  destruct (shf_ph3_sim p kb1 kb2 h1 h2 st1b st2b c_IKCP_ASK_TELL c_IKCP_CMD_WINS st1c Hb Hh Hstb V1 V2 V3 E4)
    as (st2c & E4' & Hstc).
  rewrite E4'.
  pose proof (shf_R_set_probe_flags p kb1 kb2 0 Hb) as Hc.
  set (kc1 := set_probe_flags kb1 0) in *. set (kc2 := set_probe_flags kb2 0) in *. clearbody kc1 kc2.
  destruct (shf_ph4 kc1 ft) as [[[sq1 sb1] nxt1] ns] eqn:E5.
  destruct (shf_ph4_sim p kc1 kc2 ft sq1 sb1 nxt1 ns Hc E5) as (sq2 & sb2 & nxt2 & E5' & Hsq & Hsbw & Hn & Hn32).
  rewrite E5'.
  destruct (shf_ph5 (shf_k4 kc1 sq1 sb1 nxt1) h1 ft ns now st1c) as [[sb1' a1]|w] eqn:E6; [|discriminate].
  assert (Hstrong : (ft =? FLUSH_FULL) = false ->
                    Forall2 (shf_sb p) (snd_buf (shf_k4 kc1 sq1 sb1 nxt1)) (snd_buf (shf_k4 kc2 sq2 sb2 nxt2))).
  { intros Hf. destruct (shf_ph4_strong p kc1 kc2 ft sq1 sb1 nxt1 ns Hc Hf E5) as (X1 & X2).
    rewrite X2 in E5'. inversion E5'; subst. exact (G_sndb _ _ _ Hc). }
  destruct (shf_ph5_sim p (shf_k4 kc1 sq1 sb1 nxt1) (shf_k4 kc2 sq2 sb2 nxt2) h1 h2 ft ns now st1c st2c sb1' a1
              (shf_cfg_k4 p kc1 kc2 _ _ _ _ _ _ Hc) Hsbw Hstrong Hh Hnow Hstc E6) as (sb2' & a2 & E6' & Hsb' & Hfl).
  rewrite E6'. destruct Hfl as (Hsta & A1 & A2 & A3 & A4 & A5 & A6).
  rewrite <- (shf_cw_eq _ _ _ Hc), <- (shf_resent_eq _ _ (shf_cfg_k4 p kc1 kc2 sq1 sq2 sb1 sb2 nxt1 nxt2 Hc)), <- A5.
  intros E; inversion E; subst. do 2 eexists. split; [reflexivity|].
  split; [|apply shf_flush_buffer; exact Hsta].
  apply shf_ph6_sim; [|exact A1|exact A2]. apply shf_k5_sim; try assumption; reflexivity.
Qed.
