(* C12 simulation, part 3: Input. *)
From Coq Require Import ZArith List Bool Lia.
From KV.Base Require Import Consts Word WordLemmas.
From KV.Kcp Require Import Kcp Step Net InvBase Shift ShiftBase ShiftApi ShiftFlush.
Import ListNotations.
Local Open Scope Z_scope.

Ltac Zify.zify_post_hook ::= Z.div_mod_to_equations.

(* ------------------------------------------------------------------ *)
(* sender-side walks                                                   *)
(* ------------------------------------------------------------------ *)
Lemma shf_una_walk p una : forall l1 l2, Forall2 (shf_sb p) l1 l2 ->
  snd (una_walk (sh (ko p) una) l2) = snd (una_walk una l1) /\
  Forall2 (shf_sb p) (fst (una_walk una l1)) (fst (una_walk (sh (ko p) una) l2)).
Proof.
  induction 1 as [|s1 s2 t1 t2 Hs Ht IH]; [split; [reflexivity|constructor]|].
  cbn [una_walk]. pose proof Hs as ((_ & _ & _ & Hsn & _) & _). rewrite Hsn, itimediff_sh.
  destruct (itimediff una (s_sn s1) >? 0).
  - destruct (una_walk una t1) as [r1 c1]. destruct (una_walk (sh (ko p) una) t2) as [r2 c2].
    cbn [fst snd] in *. destruct IH as [IH1 IH2]. split; [rewrite IH1; reflexivity|exact IH2].
  - cbn [fst snd]. split; [reflexivity|constructor; assumption].
Qed.

Lemma shf_parse_una p k1 k2 una k1' c :
  shf_R p k1 k2 -> parse_una k1 una = (k1', c) ->
  exists k2', parse_una k2 (sh (ko p) una) = (k2', c) /\ shf_R p k1' k2'.
Proof.
  intros H. unfold parse_una.
  destruct (shf_una_walk p una _ _ (G_sndb _ _ _ H)) as [H1 H2].
  destruct (una_walk una (snd_buf k1)) as [l1 c1]. destruct (una_walk (sh (ko p) una) (snd_buf k2)) as [l2 c2].
  cbn [fst snd] in *. subst c2. intros E; inversion E; subst. eexists. split; [reflexivity|].
  apply shf_R_set_snd_buf; assumption.
Qed.

Lemma shf_drop_acked p : forall l1 l2, Forall2 (shf_sb p) l1 l2 ->
  Forall2 (shf_sb p) (drop_acked l1) (drop_acked l2).
Proof.
  induction 1 as [|s1 s2 t1 t2 Hs Ht IH]; [constructor|].
  cbn [drop_acked]. pose proof Hs as (((_ & _ & _ & Hacked & _) & _) & _). rewrite <- Hacked.
  destruct (s_acked s1 =? 0); [constructor; assumption|exact IH].
Qed.

Lemma shf_shrink_buf p k1 k2 : shf_R p k1 k2 -> shf_R p (shrink_buf k1) (shrink_buf k2).
Proof.
  intros H. unfold shrink_buf. cbv zeta.
  pose proof (shf_drop_acked p _ _ (G_sndb _ _ _ H)) as Hd.
  pose proof (shf_R_set_snd_buf p k1 k2 _ _ H Hd) as H1.
  change (snd_buf (set_snd_buf k1 (drop_acked (snd_buf k1)))) with (drop_acked (snd_buf k1)).
  change (snd_buf (set_snd_buf k2 (drop_acked (snd_buf k2)))) with (drop_acked (snd_buf k2)).
  destruct Hd as [|s1 s2 t1 t2 Hs Ht].
  - apply shf_R_set_snd_una; [exact H1|]. exact (G_nxt _ _ _ H).
  - apply shf_R_set_snd_una; [exact H1|]. destruct Hs as ((_ & _ & _ & Hsn & _) & _). exact Hsn.
Qed.

Lemma shf_ack_walk p sn : is_u32 sn -> forall l1 l2, Forall2 (shf_sb p) l1 l2 ->
  Forall2 (shf_sb p) (ack_walk sn l1) (ack_walk (sh (ko p) sn) l2).
Proof.
  intros Hu. induction 1 as [|s1 s2 t1 t2 Hs Ht IH]; [constructor|].
  cbn [ack_walk].
  pose proof Hs as (((Hfrg & Hdata & Hxmit & Hacked & Hfa & Hrto) & Hcv & Hcmd & Hsn & Hts & Hrs & Hun & Hwn)
                    & (Hf1 & Hbl1 & Hlen1) & Hpush & Hcu & Hsu).
  rewrite Hsn, (shf_sh_eqb _ _ _ Hu Hsu), itimediff_sh.
  destruct (sn =? s_sn s1).
  - constructor; [|exact Ht].
    unfold shf_sb, R_sb, R_sq, shf_dwf.
    cbn [s_conv s_cmd s_frg s_wnd s_ts s_sn s_una s_data s_xmit s_acked s_fastack s_rto s_resendts].
    rewrite blen_nil. unfold c_mtuLimit.
    shf_split; try assumption; try reflexivity; try apply shf_bl_nil; lia.
  - destruct (itimediff sn (s_sn s1) <? 0); constructor; assumption.
Qed.

Lemma shf_parse_ack p k1 k2 sn :
  shf_R p k1 k2 -> is_u32 sn -> shf_R p (parse_ack k1 sn) (parse_ack k2 (sh (ko p) sn)).
Proof.
  intros H Hu. unfold parse_ack. rewrite (G_una _ _ _ H), (G_nxt _ _ _ H), !itimediff_sh.
  destruct ((itimediff sn (snd_una k1) <? 0) || (itimediff sn (snd_nxt k1) >=? 0)); [exact H|].
  apply shf_R_set_snd_buf; [exact H|]. apply shf_ack_walk; [exact Hu|exact (G_sndb _ _ _ H)].
Qed.

Lemma shf_fastack_walk p sn ts fr : is_u32 sn -> forall l1 l2, Forall2 (shf_sb p) l1 l2 ->
  snd (fastack_walk (sh (ko p) sn) (sh (co p) ts) fr l2) = snd (fastack_walk sn ts fr l1) /\
  Forall2 (shf_sb p) (fst (fastack_walk sn ts fr l1)) (fst (fastack_walk (sh (ko p) sn) (sh (co p) ts) fr l2)).
Proof.
  intros Hu. induction 1 as [|s1 s2 t1 t2 Hs Ht IH]; [split; [reflexivity|constructor]|].
  cbn [fastack_walk].
  pose proof Hs as (((Hfrg & Hdata & Hxmit & Hacked & Hfa & Hrto) & Hcv & Hcmd & Hsn & Hts & Hrs & Hun & Hwn)
                    & (Hf1 & Hbl1 & Hlen1) & Hpush & Hcu & Hsu).
  rewrite Hsn, Hts, (shf_sh_eqb _ _ _ Hu Hsu), !itimediff_sh, <- Hfa.
  destruct (itimediff sn (s_sn s1) <? 0); [cbn [fst snd]; split; [reflexivity|constructor; assumption]|].
  destruct (fastack_walk sn ts fr t1) as [r1 f1].
  destruct (fastack_walk (sh (ko p) sn) (sh (co p) ts) fr t2) as [r2 f2].
  cbn [fst snd] in IH. destruct IH as [IH1 IH2]. subst f2.
  destruct (negb (sn =? s_sn s1) && (itimediff (s_ts s1) ts <=? 0)).
  - destruct (s_fastack s1 =? 4294967295).
    + cbn [fst snd]. split; [reflexivity|constructor; assumption].
    + cbn [fst snd]. split; [reflexivity|]. constructor; [|exact IH2].
      unfold shf_sb, R_sb, R_sq, shf_dwf, set_seg_fastack.
      cbn [s_conv s_cmd s_frg s_wnd s_ts s_sn s_una s_data s_xmit s_acked s_fastack s_rto s_resendts].
      shf_split; try assumption; try reflexivity; lia.
  - cbn [fst snd]. split; [reflexivity|constructor; assumption].
Qed.

Lemma shf_parse_fastack p k1 k2 sn ts k1' f :
  shf_R p k1 k2 -> is_u32 sn -> parse_fastack k1 sn ts = (k1', f) ->
  exists k2', parse_fastack k2 (sh (ko p) sn) (sh (co p) ts) = (k2', f) /\ shf_R p k1' k2'.
Proof.
  intros H Hu. unfold parse_fastack. rewrite (G_una _ _ _ H), (G_nxt _ _ _ H), !itimediff_sh.
  pose proof (G_cfg _ _ _ H) as Hc. shf_dcfg Hc. rewrite <- Cfr.
  destruct ((itimediff sn (snd_una k1) <? 0) || (itimediff sn (snd_nxt k1) >=? 0));
    [intros E; inversion E; subst; eexists; split; [reflexivity|exact H]|].
  destruct (shf_fastack_walk p sn ts (fastresend k1) Hu _ _ (G_sndb _ _ _ H)) as [H1 H2].
  destruct (fastack_walk sn ts (fastresend k1) (snd_buf k1)) as [l1 f1].
  destruct (fastack_walk (sh (ko p) sn) (sh (co p) ts) (fastresend k1) (snd_buf k2)) as [l2 f2].
  cbn [fst snd] in *. subst f2. intros E; inversion E; subst. eexists. split; [reflexivity|].
  apply shf_R_set_snd_buf; assumption.
Qed.

(* ------------------------------------------------------------------ *)
(* receiver side                                                       *)
(* ------------------------------------------------------------------ *)
Lemma shf_insert_seg p s1 s2 : shf_rb p s1 s2 -> forall l1 l2, Forall2 (shf_rb p) l1 l2 ->
  Forall2 (shf_rb p) (insert_seg s1 l1) (insert_seg s2 l2).
Proof.
  intros Hs. induction 1 as [|e1 e2 t1 t2 He Ht IH]; cbn [insert_seg]; [constructor; [exact Hs|constructor]|].
  pose proof Hs as ((Hsn & _) & _). pose proof He as ((Hen & _) & _).
  rewrite Hsn, Hen, itimediff_sh.
  destruct (itimediff (s_sn e1) (s_sn s1) >? 0); constructor; try assumption. constructor; assumption.
Qed.

Lemma shf_has_sn p sn : is_u32 sn -> forall l1 l2, Forall2 (shf_rb p) l1 l2 ->
  has_sn (sh (kp p) sn) l2 = has_sn sn l1.
Proof.
  intros Hu. induction 1 as [|e1 e2 t1 t2 He Ht IH]; [reflexivity|].
  rewrite !has_sn_cons, IH. destruct He as ((Hen & _) & Heu).
  rewrite Hen, (shf_sh_eqb _ _ _ Heu Hu). reflexivity.
Qed.

Lemma shf_parse_data p k1 k2 s1 s2 k1' f :
  shf_R p k1 k2 -> shf_rb p s1 s2 -> parse_data k1 s1 = Ok (k1', f) ->
  exists k2', parse_data k2 s2 = Ok (k2', f) /\ shf_R p k1' k2'.
Proof.
  intros H Hs. unfold parse_data. cbv zeta.
  pose proof Hs as ((Hsn & Hfrg & Hdata) & Hsu).
  pose proof (G_cfg _ _ _ H) as Hc. shf_dcfg Hc.
  rewrite Hsn, (G_rnxt _ _ _ H), <- Crw, shf_itd_add, itimediff_sh, <- Hdata,
          (shf_has_sn p _ Hsu _ _ (G_rb _ _ _ H)).
  destruct ((itimediff (s_sn s1) (u32 (rcv_nxt k1 + rcv_wnd k1)) >=? 0) || (itimediff (s_sn s1) (rcv_nxt k1) <? 0));
    [intros E; inversion E; subst; eexists; split; [reflexivity|exact H]|].
  destruct (has_sn (s_sn s1) (rcv_buf k1)).
  - intros E; inversion E; subst. eexists. split; [reflexivity|]. apply shf_do_move_ready. exact H.
  - destruct (blen (s_data s1) >? c_mtuLimit); [discriminate|].
    intros E; inversion E; subst. eexists. split; [reflexivity|]. apply shf_do_move_ready.
    apply shf_R_set_rcv_buf; [exact H|]. apply shf_insert_seg; [exact Hs|exact (G_rb _ _ _ H)].
Qed.

(* ------------------------------------------------------------------ *)
(* RTT, congestion window                                              *)
(* ------------------------------------------------------------------ *)
Lemma shf_update_ack p k1 k2 rtt : shf_R p k1 k2 -> shf_R p (update_ack k1 rtt) (update_ack k2 rtt).
Proof.
  intros H. unfold update_ack. pose proof (G_cfg _ _ _ H) as Hc. shf_dcfg Hc.
  rewrite <- Csrtt, <- Cvar, <- Civ, <- Cminrto.
  match goal with |- shf_R p (let '(a, b) := ?x in _) _ => destruct x as [srtt var] end.
  apply shf_R_set_rtt. exact H.
Qed.

Lemma shf_input_cwnd p k1 k2 una0 :
  shf_R p k1 k2 -> shf_R p (input_cwnd k1 una0) (input_cwnd k2 (sh (ko p) una0)).
Proof.
  intros H. unfold input_cwnd. pose proof (G_cfg _ _ _ H) as Hc. shf_dcfg Hc.
  rewrite (G_una _ _ _ H), itimediff_sh, <- Cnc, <- Ccwnd, <- Crmt, <- Cmss, <- Csst, <- Cincr.
  destruct ((nocwnd k1 =? 0) && (itimediff (snd_una k1) una0 >? 0) && (cwnd k1 <? rmt_wnd k1)); [|exact H].
  cbv zeta.
  match goal with |- shf_R p (let '(a, b) := ?x in _) _ => destruct x as [cw inc] end.
  destruct (cw >? rmt_wnd k1); apply shf_R_set_cc; exact H.
Qed.

(* ------------------------------------------------------------------ *)
(* one segment, in terms of the decoded header                         *)
(* ------------------------------------------------------------------ *)
Definition shf_iseg (a : inp) (s : seg) (regular : bool) : res inp + Z :=
  let k := i_k a in
  if negb (s_conv s =? conv k) then inr (-1)
  else if negb ((s_cmd s =? c_IKCP_CMD_PUSH) || (s_cmd s =? c_IKCP_CMD_ACK) || (s_cmd s =? c_IKCP_CMD_WASK) || (s_cmd s =? c_IKCP_CMD_WINS))
  then inr (-3)
  else
    let k := if regular then set_rmt_wnd k (s_wnd s) else k in
    let '(k, cnt) := parse_una k (s_una s) in
    let fl1 := (cnt >? 0) || i_flush a in
    let k := shrink_buf k in
    if s_cmd s =? c_IKCP_CMD_ACK then
      let k := parse_ack k (s_sn s) in
      let '(k, f) := parse_fastack k (s_sn s) (s_ts s) in
      let k := shrink_buf k in
      inl (Ok (mkInp k (s_ts s) true (f || fl1)))
    else if s_cmd s =? c_IKCP_CMD_PUSH then
      if itimediff (s_sn s) (u32 (rcv_nxt k + rcv_wnd k)) <? 0 then
        let k := set_acklist k (acklist k ++ [(s_sn s, s_ts s)]) in
        if itimediff (s_sn s) (rcv_nxt k) >=? 0 then
          match parse_data k (mkSeg (s_conv s) (s_cmd s) (s_frg s) (s_wnd s) (s_ts s) (s_sn s) (s_una s) 0 0 0 0 0 (s_data s)) with
          | Panic w => inl (Panic w)
          | Ok (k, _) => inl (Ok (mkInp k (i_latest a) (i_rtt a) fl1))
          end
        else inl (Ok (mkInp k (i_latest a) (i_rtt a) fl1))
      else inl (Ok (mkInp k (i_latest a) (i_rtt a) fl1))
    else if s_cmd s =? c_IKCP_CMD_WASK then
      inl (Ok (mkInp (set_probe_flags k (Z.lor (probe k) c_IKCP_ASK_TELL)) (i_latest a) (i_rtt a) fl1))
    else inl (Ok (mkInp k (i_latest a) (i_rtt a) fl1)).

Definition shf_lift (rest : bytes) (r : res inp + Z) : res (inp * bytes) + Z :=
  match r with
  | inr c => inr c
  | inl (Panic w) => inl (Panic w)
  | inl (Ok a') => inl (Ok (a', rest))
  end.

Lemma shf_decode_encode a s rest regular :
  seg_wf s -> input_seg a (encode_seg s ++ rest) regular = shf_lift rest (shf_iseg a s regular).
Proof.
  intros Hwf. destruct (shf_decode s rest Hwf) as (D1 & D2 & D3 & D4 & D5 & D6 & D7 & D8 & D9).
  unfold input_seg. rewrite D1, D2, D3, D4, D5, D6, D7, D8, D9. cbv zeta.
  rewrite shf_take_app, shf_drop_app.
  assert (Hlen : (blen (s_data s ++ rest) <? blen (s_data s)) || (blen (s_data s) >? c_mtuLimit) = false).
  { destruct Hwf as (_ & _ & _ & _ & _ & _ & _ & _ & H9). rewrite blen_app.
    pose proof (blen_nonneg rest). apply orb_false_iff. split; [apply Z.ltb_ge; lia|].
    destruct (Z.gtb_spec (blen (s_data s)) c_mtuLimit); [lia|reflexivity]. }
  rewrite Hlen. unfold shf_iseg, shf_lift. cbv zeta.
  repeat (match goal with
          | |- context [match ?x with (_, _) => _ end] => destruct x
          | |- context [if ?c then _ else _] => destruct c
          | |- context [match ?x with Ok _ => _ | Panic _ => _ end] => destruct x
          end); reflexivity.
Qed.

(* ------------------------------------------------------------------ *)
(* simulation of one segment                                           *)
(* ------------------------------------------------------------------ *)
Definition shf_inp (p : shp) (a1 a2 : inp) : Prop :=
  shf_R p (i_k a1) (i_k a2) /\ i_rtt a1 = i_rtt a2 /\ i_flush a1 = i_flush a2 /\
  (i_rtt a1 = true -> i_latest a2 = sh (co p) (i_latest a1)).

Lemma shf_iseg_sim p a1 a2 s1 s2 reg :
  shf_inp p a1 a2 -> seg_wf s1 -> R_in_seg p s1 s2 ->
  match shf_iseg a1 s1 reg with
  | inr c => shf_iseg a2 s2 reg = inr c
  | inl (Panic _) => True
  | inl (Ok a1') => exists a2', shf_iseg a2 s2 reg = inl (Ok a2') /\ shf_inp p a1' a2'
  end.
Proof.
  intros (HR & Hrtt & Hfl & Hlat) Hwf ((Hcv & Hcmd & Hfrg & Hwnd & Hdata) & Huna & HP & HA).
  destruct Hwf as (W1 & W2 & W3 & W4 & W5 & W6 & W7 & W8 & W9).
  unfold shf_iseg. cbv zeta.
  pose proof (G_cfg _ _ _ HR) as Hc. shf_dcfg Hc.
  rewrite <- Hcv, <- Hcmd, <- Hwnd, <- Hfrg, <- Hdata, <- Cconv, Huna, <- Hfl, <- Hrtt.
  destruct (negb (s_conv s1 =? conv (i_k a1))); [reflexivity|].
  destruct (negb ((s_cmd s1 =? c_IKCP_CMD_PUSH) || (s_cmd s1 =? c_IKCP_CMD_ACK) ||
                  (s_cmd s1 =? c_IKCP_CMD_WASK) || (s_cmd s1 =? c_IKCP_CMD_WINS))); [reflexivity|].
  assert (H1 : shf_R p (if reg then set_rmt_wnd (i_k a1) (s_wnd s1) else i_k a1)
                       (if reg then set_rmt_wnd (i_k a2) (s_wnd s1) else i_k a2)).
  { destruct reg; [apply shf_R_set_rmt_wnd|]; exact HR. }
  set (ka1 := if reg then set_rmt_wnd (i_k a1) (s_wnd s1) else i_k a1) in *.
  set (ka2 := if reg then set_rmt_wnd (i_k a2) (s_wnd s1) else i_k a2) in *.
  clearbody ka1 ka2.
  destruct (parse_una ka1 (s_una s1)) as [kb1 cnt] eqn:Eu.
  destruct (shf_parse_una p ka1 ka2 (s_una s1) kb1 cnt H1 Eu) as (kb2 & Eu2 & H2).
  rewrite Eu2.
  pose proof (shf_shrink_buf p kb1 kb2 H2) as H3.
  set (kc1 := shrink_buf kb1) in *. set (kc2 := shrink_buf kb2) in *. clearbody kc1 kc2.
  destruct (s_cmd s1 =? c_IKCP_CMD_ACK) eqn:Ea.
  { apply Z.eqb_eq in Ea. destruct (HA Ea) as [Hsn Hts]. rewrite Hsn, Hts.
    pose proof (shf_parse_ack p kc1 kc2 (s_sn s1) H3 W6) as H4.
    set (kd1 := parse_ack kc1 (s_sn s1)) in *. set (kd2 := parse_ack kc2 (sh (ko p) (s_sn s1))) in *.
    clearbody kd1 kd2.
    destruct (parse_fastack kd1 (s_sn s1) (s_ts s1)) as [ke1 f] eqn:Ef.
    destruct (shf_parse_fastack p kd1 kd2 (s_sn s1) (s_ts s1) ke1 f H4 W6 Ef) as (ke2 & Ef2 & H5).
    rewrite Ef2. eexists. split; [reflexivity|].
    unfold shf_inp. cbn [i_k i_rtt i_flush i_latest].
    split; [apply shf_shrink_buf; exact H5|]. split; [reflexivity|]. split; [reflexivity|]. intros _; reflexivity. }
  destruct (s_cmd s1 =? c_IKCP_CMD_PUSH) eqn:Ep.
  { apply Z.eqb_eq in Ep. destruct (HP Ep) as [Hsn Hts]. rewrite Hsn, Hts.
    pose proof (G_cfg _ _ _ H3) as Hc3. destruct Hc3 as (_ & _ & _ & _ & _ & Crw3 & _).
    rewrite (G_rnxt _ _ _ H3), <- Crw3, shf_itd_add.
    destruct (itimediff (s_sn s1) (u32 (rcv_nxt kc1 + rcv_wnd kc1)) <? 0).
    - assert (H4 : shf_R p (set_acklist kc1 (acklist kc1 ++ [(s_sn s1, s_ts s1)]))
                           (set_acklist kc2 (acklist kc2 ++ [(sh (kp p) (s_sn s1), sh (cp p) (s_ts s1))]))).
      { apply shf_R_set_acklist; [exact H3|]. apply shf_F2_snoc; [exact (G_al _ _ _ H3)|].
        unfold shf_al, R_ack. cbn [fst snd]. shf_split; try assumption; reflexivity. }
      set (kd1 := set_acklist kc1 (acklist kc1 ++ [(s_sn s1, s_ts s1)])) in *.
      set (kd2 := set_acklist kc2 (acklist kc2 ++ [(sh (kp p) (s_sn s1), sh (cp p) (s_ts s1))])) in *.
      change (rcv_nxt kd1) with (rcv_nxt kc1). change (rcv_nxt kd2) with (rcv_nxt kc2).
      rewrite (G_rnxt _ _ _ H3), itimediff_sh. clearbody kd1 kd2.
      destruct (itimediff (s_sn s1) (rcv_nxt kc1) >=? 0).
      + match goal with |- match match parse_data kd1 ?x with _ => _ end with _ => _ end =>
          destruct (parse_data kd1 x) as [[kf1 f]|w] eqn:Epd; [|exact I] end.
        match type of Epd with parse_data kd1 ?x = _ => set (n1 := x) in * end.
        match goal with |- context [parse_data kd2 ?y] => set (n2 := y) end.
        assert (Hn : shf_rb p n1 n2).
        { unfold shf_rb, R_rcv, n1, n2. cbn [s_sn s_frg s_data]. shf_split; try reflexivity. exact W6. }
        destruct (shf_parse_data p kd1 kd2 n1 n2 kf1 f H4 Hn Epd) as (kf2 & Epd2 & H5).
        rewrite Epd2. eexists. split; [reflexivity|].
        unfold shf_inp. cbn [i_k i_rtt i_flush i_latest]. shf_split; try assumption; reflexivity.
      + eexists. split; [reflexivity|].
        unfold shf_inp. cbn [i_k i_rtt i_flush i_latest]. shf_split; try assumption; reflexivity.
    - eexists. split; [reflexivity|].
      unfold shf_inp. cbn [i_k i_rtt i_flush i_latest]. shf_split; try assumption; reflexivity. }
  pose proof (G_cfg _ _ _ H3) as Hc3. destruct Hc3 as (_ & _ & _ & _ & _ & _ & _ & _ & _ & _ & _ & _ & _ & _ & Cpr3 & _).
  rewrite <- Cpr3.
  destruct (s_cmd s1 =? c_IKCP_CMD_WASK).
  - eexists. split; [reflexivity|].
    unfold shf_inp. cbn [i_k i_rtt i_flush i_latest]. shf_split; try assumption; try reflexivity.
    apply shf_R_set_probe_flags. exact H3.
  - eexists. split; [reflexivity|].
    unfold shf_inp. cbn [i_k i_rtt i_flush i_latest]. shf_split; try assumption; reflexivity.
Qed.

(* ------------------------------------------------------------------ *)
(* the segment loop                                                    *)
(* ------------------------------------------------------------------ *)
Fixpoint shf_iloop (a : inp) (l : list seg) (regular : bool) : res (inp * loop_end) :=
  match l with
  | [] => Ok (a, LDone)
  | s :: t => match shf_iseg a s regular with
              | inr code => Ok (a, LErr code)
              | inl (Panic w) => Panic w
              | inl (Ok a') => shf_iloop a' t regular
              end
  end.

Lemma shf_iloop_eq reg : forall l fuel a, Forall seg_wf l -> (length l < fuel)%nat ->
  input_loop fuel a (concat (map encode_seg l)) reg = shf_iloop a l reg.
Proof.
  induction l as [|s t IH]; intros fuel a Hwf Hf.
  - destruct fuel; reflexivity.
  - destruct fuel as [|f]; [cbn [length] in Hf; lia|].
    inversion Hwf as [|x y Hs Ht]; subst x y.
    cbn [map concat input_loop shf_iloop].
    assert (Hl : (blen (encode_seg s ++ concat (map encode_seg t)) <? c_IKCP_OVERHEAD) = false).
    { rewrite blen_app, shf_encode_len. pose proof (blen_nonneg (s_data s)).
      pose proof (blen_nonneg (concat (map encode_seg t))). unfold c_IKCP_OVERHEAD. apply Z.ltb_ge. lia. }
    rewrite Hl, shf_decode_encode by exact Hs. unfold shf_lift.
    destruct (shf_iseg a s reg) as [[a'|w]|c]; try reflexivity.
    apply IH; [exact Ht|cbn [length] in Hf; lia].
Qed.

Lemma shf_iloop_sim p reg : forall l1 l2, Forall2 (R_in_seg p) l1 l2 -> Forall seg_wf l1 ->
  forall a1 a2, shf_inp p a1 a2 ->
  match shf_iloop a1 l1 reg with
  | Ok (a1', e) => exists a2', shf_iloop a2 l2 reg = Ok (a2', e) /\ shf_inp p a1' a2'
  | Panic _ => True
  end.
Proof.
  induction 1 as [|s1 s2 t1 t2 Hs Ht IH]; intros Hwf a1 a2 Ha.
  - cbn [shf_iloop]. eexists. split; [reflexivity|exact Ha].
  - inversion Hwf as [|x y Hw1 Hwt]; subst x y. cbn [shf_iloop].
    pose proof (shf_iseg_sim p a1 a2 s1 s2 reg Ha Hw1 Hs) as Hsim.
    destruct (shf_iseg a1 s1 reg) as [[a1'|w]|c].
    + destruct Hsim as (a2' & E2 & Ha'). rewrite E2. apply IH; assumption.
    + exact I.
    + rewrite Hsim. eexists. split; [reflexivity|exact Ha].
Qed.

(* ------------------------------------------------------------------ *)
(* Input                                                               *)
(* ------------------------------------------------------------------ *)
Lemma shf_concat_in_len p l1 l2 :
  Forall2 (R_in_seg p) l1 l2 -> length (concat (map encode_seg l1)) = length (concat (map encode_seg l2)).
Proof.
  induction 1 as [|s1 s2 t1 t2 Hr Ht IH]; [reflexivity|].
  cbn [map concat]. rewrite !app_length, IH.
  destruct Hr as ((_ & _ & _ & _ & Hd) & _).
  pose proof (shf_encode_len s1) as E1. pose proof (shf_encode_len s2) as E2. unfold blen in *. rewrite Hd in E1. lia.
Qed.

Lemma shf_concat_len_ge : forall l, (24 * length l <= length (concat (map encode_seg l)))%nat.
Proof.
  induction l as [|s t IH]; [cbn; lia|].
  cbn [map concat length]. rewrite app_length.
  pose proof (shf_encode_len s) as E. unfold blen in E. lia.
Qed.

Lemma shf_input_pre_sim p k1 k2 d1 d2 reg nd now k1' code fr :
  shf_R p k1 k2 -> R_dgram (R_in_seg p) d1 d2 -> is_u32 now ->
  input_pre k1 d1 reg nd now = Ok (k1', code, fr) ->
  exists k2', input_pre k2 d2 reg nd (sh (co p) now) = Ok (k2', code, fr) /\ shf_R p k1' k2'.
Proof.
  intros H (l1 & l2 & E1 & E2 & Hw1 & Hw2 & HF) Hnow. subst d1 d2. unfold input_pre. cbv zeta.
  pose proof (shf_concat_in_len p l1 l2 HF) as Hlen.
  unfold blen. rewrite <- Hlen. fold (blen (concat (map encode_seg l1))).
  destruct (blen (concat (map encode_seg l1)) <? c_IKCP_OVERHEAD);
    [intros E; inversion E; subst; eexists; split; [reflexivity|exact H]|].
  assert (Hf1 : (length l1 < S (length (concat (map encode_seg l1)) / 24))%nat).
  { pose proof (shf_concat_len_ge l1) as Hg.
    assert (length l1 <= length (concat (map encode_seg l1)) / 24)%nat by (apply Nat.div_le_lower_bound; lia). lia. }
  assert (Hf2 : (length l2 < S (length (concat (map encode_seg l1)) / 24))%nat).
  { rewrite <- (shf_F2_len _ _ _ _ _ HF). exact Hf1. }
  rewrite !shf_iloop_eq by assumption.
  assert (Ha0 : shf_inp p (mkInp k1 0 false false) (mkInp k2 0 false false)).
  { unfold shf_inp. cbn [i_k i_rtt i_flush i_latest]. shf_split; try reflexivity; [exact H|discriminate]. }
  pose proof (shf_iloop_sim p reg l1 l2 HF Hw1 _ _ Ha0) as Hsim.
  destruct (shf_iloop (mkInp k1 0 false false) l1 reg) as [[a1 e]|w]; [|discriminate].
  destruct Hsim as (a2 & El2 & (HR & Hrtt & Hfl & Hlat)). rewrite El2.
  destruct e as [|c]; [|intros E; inversion E; subst; eexists; split; [reflexivity|exact HR]].
  rewrite <- Hrtt, <- Hfl.
  assert (H1 : shf_R p (if i_rtt a1 && reg && (itimediff now (i_latest a1) >=? 0)
                        then update_ack (i_k a1) (itimediff now (i_latest a1)) else i_k a1)
                       (if i_rtt a1 && reg && (itimediff (sh (co p) now) (i_latest a2) >=? 0)
                        then update_ack (i_k a2) (itimediff (sh (co p) now) (i_latest a2)) else i_k a2)).
  { destruct (i_rtt a1); [|exact HR]. rewrite (Hlat eq_refl), itimediff_sh.
    destruct (true && reg && (itimediff now (i_latest a1) >=? 0)); [apply shf_update_ack|]; exact HR. }
  match type of H1 with shf_R p ?x ?y => set (kb1 := x) in *; set (kb2 := y) in * end.
  clearbody kb1 kb2.
  rewrite (G_una _ _ _ H).
  pose proof (shf_input_cwnd p kb1 kb2 (snd_una k1) H1) as H2.
  set (kc1 := input_cwnd kb1 (snd_una k1)) in *. set (kc2 := input_cwnd kb2 (sh (ko p) (snd_una k1))) in *.
  clearbody kc1 kc2.
  pose proof (G_cfg _ _ _ H2) as Hc. destruct Hc as (_ & Cmtu & _).
  rewrite <- Cmtu, <- (shf_F2_len _ _ _ _ _ (G_al _ _ _ H2)).
  destruct (i_flush a1); [intros E; inversion E; subst; eexists; split; [reflexivity|exact H2]|].
  destruct (Z.of_nat (length (acklist kc1)) >=? mtu kc1 / c_IKCP_OVERHEAD);
    [intros E; inversion E; subst; eexists; split; [reflexivity|exact H2]|].
  destruct (nd && (Z.of_nat (length (acklist kc1)) >? 0));
    intros E; inversion E; subst; eexists; (split; [reflexivity|exact H2]).
Qed.

Lemma shf_input_sim p k1 k2 d1 d2 reg nd now k1' r o1 :
  shf_R p k1 k2 -> R_dgram (R_in_seg p) d1 d2 -> is_u32 now ->
  input k1 d1 reg nd now = Ok (k1', r, o1) ->
  exists k2' o2, input k2 d2 reg nd (sh (co p) now) = Ok (k2', r, o2) /\ shf_R p k1' k2' /\
                 Forall2 (shf_dg p) o1 o2.
Proof.
  intros H Hd Hnow. unfold input.
  destruct (input_pre k1 d1 reg nd now) as [[[ka1 code] fr]|w] eqn:Ep; [|discriminate].
  destruct (shf_input_pre_sim p k1 k2 d1 d2 reg nd now ka1 code fr H Hd Hnow Ep) as (ka2 & Ep2 & Ha).
  rewrite Ep2.
  destruct fr.
  - intros E; inversion E; subst. do 2 eexists. split; [reflexivity|]. split; [exact Ha|constructor].
  - destruct (flush ka1 FLUSH_ACKONLY now) as [[[kb1 nx] ob]|w] eqn:Ef; [|discriminate].
    destruct (shf_flush_sim p ka1 ka2 _ now kb1 nx ob Ha Hnow Ef) as (kb2 & o2 & Ef2 & Hb & Ho).
    rewrite Ef2. intros E; inversion E; subst. do 2 eexists. split; [reflexivity|]. split; assumption.
  - destruct (flush ka1 FLUSH_FULL now) as [[[kb1 nx] ob]|w] eqn:Ef; [|discriminate].
    destruct (shf_flush_sim p ka1 ka2 _ now kb1 nx ob Ha Hnow Ef) as (kb2 & o2 & Ef2 & Hb & Ho).
    rewrite Ef2. intros E; inversion E; subst. do 2 eexists. split; [reflexivity|]. split; assumption.
Qed.
