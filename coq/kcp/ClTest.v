From Coq Require Import ZArith List Bool Lia.
From KV.Base Require Import Consts Word WordLemmas.
From KV.Kcp Require Import Kcp Step Net InvAll LiveBase CleanBase Clean.
Import ListNotations.
Local Open Scope Z_scope.
Definition ack := encode_seg (mkSeg 7 82 0 32 1100 0 1 0 0 0 0 0 []).
Definition ops := [OSend [1;2;3]; OUpdate 1000; OUpdate 1100; OInput ack true false 1130; OUpdate 1200].
Eval vm_compute in (match run (kcp_new 7) ops with Some (k', outs) => Some (snd_buf k', snd_queue k', map o_dgrams outs, map o_ret outs) | None => None end).
Goal clean_history (kcp_new 7) ops.
Proof. vm_compute. Show.
Abort.
