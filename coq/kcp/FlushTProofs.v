(* Facts about FlushT (flush with a clock that advances by tx per datagram handed to the output
   callback):
     1. tx = 0 is the existing model: flush_t/input_t/update_t k .. now 0 = flush/input/update k .. now;
     2. one segment: ts is the NEW clock reading, resendts is armed from the PREVIOUS one;
     3. between two readings at most one datagram is handed to the callback;
     4. whole buffer: the reading a retransmission timer is armed from is at most ONE callback
        time older than the timestamp of the segment - never the start of the flush;
     5. a concrete run (vm_compute). *)
From Coq Require Import ZArith List Bool Lia.
From KV.Base Require Import Consts Word.
From KV.Kcp Require Import Kcp LiveBase CleanBase FlushT.
Import ListNotations.
Local Open Scope Z_scope.

(* ------------------------------------------------------------------ *)
(* 0. the clock                                                        *)
(* ------------------------------------------------------------------ *)
Lemma ft_clk_zero now st : 0 <= now < W32 -> clk now 0 st = now.
Proof. intros H. unfold clk, u32. rewrite Z.mul_0_l, Z.add_0_r. apply Z.mod_small. exact H. Qed.

Lemma ft_clk_wrap now tx st : clk now tx st = u32 (clkZ now tx st).
Proof. reflexivity. Qed.

Definition nouts (a : fl) : nat := length (outs (f_st a)).

(* ------------------------------------------------------------------ *)
(* 1. flush_seg_t in terms of the decision function of LiveBase        *)
(* ------------------------------------------------------------------ *)
Definition ft_finish (c : Z) (s' : seg) (a' : fl) : res (seg * fl * Z) :=
  let d := itimediff (s_resendts s') c in
  let nx := if (d >? 0) && (d <? f_next a') then d else f_next a' in
  Ok (s', mkFl (f_st a') (f_change a') (f_lost a') (f_fast a') (f_early a') nx (f_dead a'), c).

Lemma ft_seg_unfold k h resent newsegs now tx cur s a :
  flush_seg_t k h resent newsegs now tx cur s a =
  if s_acked s =? 1 then Ok (s, a, cur)
  else
    let '(needsend, rto, rts, fa, a1) := lv_decide k resent newsegs cur s a in
    if needsend then
      match stage_write k (make_space k (f_st a1) (c_IKCP_OVERHEAD + blen (s_data s)))
                        (lv_sent h (clk now tx (f_st a1)) s rto rts fa) with
      | Panic w => Panic w
      | Ok st2 =>
          ft_finish (clk now tx (f_st a1)) (lv_sent h (clk now tx (f_st a1)) s rto rts fa)
            (mkFl st2 (f_change a1) (f_lost a1) (f_fast a1) (f_early a1) (f_next a1)
                  ((u32 (s_xmit s + 1) >=? dead_link k) || f_dead a1))
      end
    else ft_finish cur (lv_kept s rto rts fa) a1.
Proof.
  unfold flush_seg_t, lv_decide, ft_finish, lv_sent, lv_kept.
  destruct (s_acked s =? 1); [reflexivity|].
  destruct (s_xmit s =? 0); [reflexivity|].
  destruct ((s_fastack s >=? resent) && negb (s_fastack s =? 4294967295)); [reflexivity|].
  destruct ((s_fastack s >? 0) && negb (s_fastack s =? 4294967295) && (newsegs =? 0)); [reflexivity|].
  destruct (itimediff cur (s_resendts s) >=? 0); reflexivity.
Qed.

(* ------------------------------------------------------------------ *)
(* 2. tx = 0 is the existing model                                     *)
(* ------------------------------------------------------------------ *)
Lemma ft_seg_zero k h resent newsegs now s a : 0 <= now < W32 ->
  flush_seg_t k h resent newsegs now 0 now s a =
  match flush_seg k h resent newsegs now s a with
  | Ok (s', a') => Ok (s', a', now)
  | Panic w => Panic w
  end.
Proof.
  intros Hn. rewrite ft_seg_unfold, lv_flush_seg_unfold.
  destruct (s_acked s =? 1); [reflexivity|].
  destruct (lv_decide k resent newsegs now s a) as [[[[ns rto] rts] fa] a1].
  rewrite !(ft_clk_zero now (f_st a1) Hn).
  destruct ns; [|reflexivity].
  destruct (stage_write k _ _); reflexivity.
Qed.

Lemma ft_segs_zero k h resent newsegs now : 0 <= now < W32 -> forall l a,
  flush_segs_t k h resent newsegs now 0 now l a =
  match flush_segs k h resent newsegs now l a with
  | Ok (l', a') => Ok (l', a', now)
  | Panic w => Panic w
  end.
Proof.
  intros Hn. induction l as [|s t IH]; intros a; cbn [flush_segs_t flush_segs]; [reflexivity|].
  rewrite (ft_seg_zero _ _ _ _ _ _ _ Hn).
  destruct (flush_seg k h resent newsegs now s a) as [[s' a']|w]; [|reflexivity].
  rewrite IH. destruct (flush_segs k h resent newsegs now t a') as [[t' a'']|w]; reflexivity.
Qed.

(* phase 5 of flush_t *)
Definition ft_ph5 (k4 : kcp) (h1 : seg) (ft newsegs now tx : Z) (st3 : stage) : res (list seg * fl) :=
  let a0 := mkFl st3 0 0 0 0 (interval k4) false in
  if ft =? FLUSH_FULL
  then match flush_segs_t k4 h1 (lv_resent k4) newsegs now tx (clk now tx st3) (snd_buf k4) a0 with
       | Ok (sb', a, _) => Ok (sb', a)
       | Panic w => Panic w
       end
  else Ok (snd_buf k4, a0).

Lemma ft_unfold k ft now tx :
  flush_t k ft now tx =
  match lv_ph1 k ft with
  | Panic w => Panic w
  | Ok (h1, st1, k1) =>
    let k2 := lv_ph2 k1 (clk now tx st1) in
    match lv_ph3 k2 h1 st1 c_IKCP_ASK_SEND c_IKCP_CMD_WASK with
    | Panic w => Panic w
    | Ok st2 =>
    match lv_ph3 k2 h1 st2 c_IKCP_ASK_TELL c_IKCP_CMD_WINS with
    | Panic w => Panic w
    | Ok st3 =>
    let k3 := set_probe_flags k2 0 in
    let '(sq, sb, nxt, newsegs) := lv_ph4 k3 ft in
    let k4 := lv_k4 k3 sq sb nxt in
    match ft_ph5 k4 h1 ft newsegs now tx st3 with
    | Panic w => Panic w
    | Ok (sb', a) =>
      Ok (lv_ph6 (lv_k5 k4 sb' a) a (lv_cw k3) (lv_resent k4), f_next a, flush_buffer (f_st a))
    end end end
  end.
Proof.
  unfold flush_t, lv_ph1, lv_ph3, lv_ph4, ft_ph5, lv_k4, lv_k5, lv_ph6, lv_cw, lv_resent, lv_hdr, lv_h0, lv_ph2.
  cbv zeta. reflexivity.
Qed.

Lemma ft_ph5_zero k4 h1 ft newsegs now st3 : 0 <= now < W32 ->
  ft_ph5 k4 h1 ft newsegs now 0 st3 = lv_ph5 k4 h1 ft newsegs now st3.
Proof.
  intros Hn. unfold ft_ph5, lv_ph5. cbv zeta.
  destruct (ft =? FLUSH_FULL); [|reflexivity].
  rewrite (ft_clk_zero now st3 Hn), (ft_segs_zero _ _ _ _ _ Hn).
  destruct (flush_segs k4 h1 (lv_resent k4) newsegs now (snd_buf k4) _) as [[l' a']|w]; reflexivity.
Qed.

Lemma ft_flush_t_zero k ft now : 0 <= now < W32 -> flush_t k ft now 0 = flush k ft now.
Proof.
  intros Hn. rewrite ft_unfold, lv_unfold.
  destruct (lv_ph1 k ft) as [[[h1 st1] k1]|w]; [|reflexivity].
  rewrite (ft_clk_zero now st1 Hn). cbv zeta.
  destruct (lv_ph3 (lv_ph2 k1 now) h1 st1 c_IKCP_ASK_SEND c_IKCP_CMD_WASK) as [st2|w]; [|reflexivity].
  destruct (lv_ph3 (lv_ph2 k1 now) h1 st2 c_IKCP_ASK_TELL c_IKCP_CMD_WINS) as [st3|w]; [|reflexivity].
  destruct (lv_ph4 (set_probe_flags (lv_ph2 k1 now) 0) ft) as [[[sq sb] nxt] ns].
  rewrite (ft_ph5_zero _ _ _ _ _ _ Hn). reflexivity.
Qed.

Lemma ft_input_t_zero k data regular ack_nodelay now : 0 <= now < W32 ->
  input_t k data regular ack_nodelay now 0 = input k data regular ack_nodelay now.
Proof.
  intros Hn. unfold input_t, input.
  destruct (input_pre k data regular ack_nodelay now) as [[[k1 code] fr]|w]; [|reflexivity].
  destruct fr; [reflexivity| |]; rewrite (ft_flush_t_zero _ _ _ Hn); reflexivity.
Qed.

Lemma ft_update_t_zero k now : 0 <= now < W32 -> update_t k now 0 = update k now.
Proof.
  intros Hn. unfold update_t, update. cbv zeta.
  destruct (if (itimediff now (ts_flush (if updated k =? 0 then set_timer k (state k) now 1 else k)) >=? 10000)
               || (itimediff now (ts_flush (if updated k =? 0 then set_timer k (state k) now 1 else k)) <? -10000)
            then _ else _) as [k1 slap].
  destruct (slap >=? 0); [|reflexivity].
  rewrite (ft_flush_t_zero _ _ _ Hn). reflexivity.
Qed.

(* ------------------------------------------------------------------ *)
(* 3. one segment                                                      *)
(* ------------------------------------------------------------------ *)
(* the backed-off timeout of a segment whose timer expired *)
Definition ft_backoff (k : kcp) (s : seg) : Z :=
  if nodelay k =? 0 then u32 (s_rto s + rx_rto k) else u32 (s_rto s + rx_rto k / 2).

Lemma ft_decide_spec k resent newsegs cur s a ns rto rts fa a1 :
  lv_decide k resent newsegs cur s a = (ns, rto, rts, fa, a1) ->
  f_st a1 = f_st a /\
  (ns = true ->
     rts = u32 (cur + rto) /\
     (s_xmit s = 0 \/ cl_fast resent s \/ cl_early newsegs s -> rto = rx_rto k) /\
     (s_xmit s <> 0 -> ~ cl_fast resent s -> ~ cl_early newsegs s ->
        cl_timeout cur s /\ rto = ft_backoff k s)) /\
  (ns = false -> rto = s_rto s /\ rts = s_resendts s /\ fa = s_fastack s /\ a1 = a).
Proof.
  unfold lv_decide. intros H.
  destruct (s_xmit s =? 0) eqn:E0; lv_b2z.
  { inversion H; subst. split; [reflexivity|]. split; [|discriminate].
    intros _. split; [reflexivity|]. split; [reflexivity|]. intros N; contradiction. }
  destruct ((s_fastack s >=? resent) && negb (s_fastack s =? 4294967295)) eqn:E1.
  { apply andb_true_iff in E1. destruct E1 as (E1 & E1'). apply negb_true_iff in E1'. lv_b2z.
    inversion H; subst. split; [reflexivity|]. split; [|discriminate].
    intros _. split; [reflexivity|]. split; [reflexivity|].
    intros _ N. exfalso. apply N. split; [lia|exact E1']. }
  assert (N1 : ~ cl_fast resent s).
  { intros (F1 & F2). apply andb_false_iff in E1. destruct E1 as [E1|E1].
    - lv_b2z. lia.
    - apply negb_false_iff in E1. lv_b2z. contradiction. }
  destruct ((s_fastack s >? 0) && negb (s_fastack s =? 4294967295) && (newsegs =? 0)) eqn:E2.
  { apply andb_true_iff in E2. destruct E2 as (E2 & E2c). apply andb_true_iff in E2. destruct E2 as (E2a & E2b).
    apply negb_true_iff in E2b. lv_b2z.
    inversion H; subst. split; [reflexivity|]. split; [|discriminate].
    intros _. split; [reflexivity|]. split; [reflexivity|].
    intros _ _ N. exfalso. apply N. split; [lia|]. split; [exact E2b|reflexivity]. }
  assert (N2 : ~ cl_early newsegs s).
  { intros (F1 & F2 & F3). apply andb_false_iff in E2. destruct E2 as [E2|E2].
    - apply andb_false_iff in E2. destruct E2 as [E2|E2].
      + lv_b2z. lia.
      + apply negb_false_iff in E2. lv_b2z. contradiction.
    - lv_b2z. contradiction. }
  destruct (itimediff cur (s_resendts s) >=? 0) eqn:E3; lv_b2z.
  { cbv zeta in H. inversion H; subst. split; [reflexivity|]. split; [|discriminate].
    intros _. split; [reflexivity|]. split.
    - intros [C|[C|C]]; [contradiction|exfalso; exact (N1 C)|exfalso; exact (N2 C)].
    - intros _ _ _. split; [unfold cl_timeout; lia|reflexivity]. }
  inversion H; subst. split; [reflexivity|]. split; [discriminate|].
  intros _. repeat split.
Qed.

(* what flush_seg_t does to one buffer entry *)
Definition ft_seg_post (k : kcp) (resent newsegs now tx cur : Z) (s : seg) (a : fl)
    (s' : seg) (a' : fl) (cur' : Z) : Prop :=
  (* not transmitted: nothing changes, no clock reading *)
  (s' = s /\ cur' = cur /\ f_st a' = f_st a)
  \/
  (* transmitted: the clock is re-read when the segment is handed to the staging buffer (before
     make_space); ts is that reading, the timer was armed with the previous one *)
  (s_acked s <> 1 /\
   s_xmit s' = u32 (s_xmit s + 1) /\
   cur' = clk now tx (f_st a) /\
   s_ts s' = cur' /\
   s_resendts s' = u32 (cur + s_rto s') /\
   (s_xmit s = 0 \/ cl_fast resent s \/ cl_early newsegs s -> s_rto s' = rx_rto k) /\
   (s_xmit s <> 0 -> ~ cl_fast resent s -> ~ cl_early newsegs s ->
      cl_timeout cur s /\ s_rto s' = ft_backoff k s) /\
   stage_write k (make_space k (f_st a) (c_IKCP_OVERHEAD + blen (s_data s))) s' = Ok (f_st a')).

Lemma ft_timer_from_handoff k h resent newsegs now tx cur s a s' a' cur' :
  flush_seg_t k h resent newsegs now tx cur s a = Ok (s', a', cur') ->
  ft_seg_post k resent newsegs now tx cur s a s' a' cur'.
Proof.
  rewrite ft_seg_unfold. intros H. unfold ft_seg_post.
  destruct (s_acked s =? 1) eqn:Ea; lv_b2z.
  { inversion H; subst. left. repeat split. }
  destruct (lv_decide k resent newsegs cur s a) as [[[[ns rto] rts] fa] a1] eqn:D.
  destruct (ft_decide_spec _ _ _ _ _ _ _ _ _ _ _ D) as (Dst & Dt & Df).
  destruct ns.
  - destruct (Dt eq_refl) as (Hrts & Hr1 & Hr2). rewrite Dst in H.
    destruct (stage_write k _ _) as [st2|w] eqn:Ew; [|discriminate].
    unfold ft_finish in H. inversion H; subst s' a' cur'. right. cbn [f_st]. unfold lv_sent. lv_segf.
    split; [exact Ea|]. split; [reflexivity|]. split; [reflexivity|]. split; [reflexivity|].
    split; [exact Hrts|]. split; [exact Hr1|]. split; [exact Hr2|]. exact Ew.
  - destruct (Df eq_refl) as (E1 & E2 & E3 & E4). subst rto rts fa a1.
    unfold ft_finish in H. inversion H; subst s' a' cur'. left. cbn [f_st].
    split; [apply cl_kept_id|]. split; reflexivity.
Qed.

(* ------------------------------------------------------------------ *)
(* 4. at most one datagram between two clock readings                  *)
(* ------------------------------------------------------------------ *)
Lemma ft_make_space_outs k st n :
  (length (outs st) <= length (outs (make_space k st n)) <= S (length (outs st)))%nat.
Proof.
  unfold make_space. destruct (blen (cur st) + n >? mtu k); cbn [outs length]; lia.
Qed.

Lemma ft_stage_write_outs k st s st' : stage_write k st s = Ok st' -> outs st' = outs st.
Proof.
  unfold stage_write. destruct (_ >? _); [discriminate|]. intros H. inversion H. reflexivity.
Qed.

Lemma ft_one_output k st n s st2 :
  stage_write k (make_space k st n) s = Ok st2 ->
  (length (outs st) <= length (outs st2) <= S (length (outs st)))%nat.
Proof.
  intros H. rewrite (ft_stage_write_outs _ _ _ _ H). apply ft_make_space_outs.
Qed.

Lemma ft_mul_mono tx (a b : nat) : 0 <= tx -> (a <= b)%nat -> tx * Z.of_nat a <= tx * Z.of_nat b.
Proof. intros Ht Hab. apply Z.mul_le_mono_nonneg_l; lia. Qed.

(* ... hence the clock advances by at most tx across the staging of one segment *)
Lemma ft_clock_step k st n s st2 now tx : 0 <= tx ->
  stage_write k (make_space k st n) s = Ok st2 ->
  clkZ now tx st <= clkZ now tx st2 <= clkZ now tx st + tx.
Proof.
  intros Ht H. pose proof (ft_one_output _ _ _ _ _ H) as (H1 & H2). unfold clkZ.
  pose proof (ft_mul_mono tx _ _ Ht H1). pose proof (ft_mul_mono tx _ _ Ht H2).
  rewrite Nat2Z.inj_succ in *. lia.
Qed.

(* ------------------------------------------------------------------ *)
(* 5. the whole buffer                                                 *)
(* ------------------------------------------------------------------ *)
(* one buffer entry before/after phase 5.  n0, n1: datagrams handed to the callback before phase 5
   started / when it ended.  For a transmitted entry: nr datagrams had been output when the clock
   value its timer was armed from was read, nt when its timestamp was read. *)
Definition ft_lag (now tx : Z) (n0 n1 : nat) (s s' : seg) : Prop :=
  s' = s \/
  exists nr nt : nat,
    s_xmit s' = u32 (s_xmit s + 1) /\
    s_ts s' = u32 (now + tx * Z.of_nat nt) /\
    s_resendts s' = u32 (u32 (now + tx * Z.of_nat nr) + s_rto s') /\
    (n0 <= nr /\ nr <= nt /\ nt <= S nr /\ nt <= n1)%nat.

Lemma ft_Forall2_impl (A B : Type) (R R' : A -> B -> Prop) l l' :
  (forall a b, R a b -> R' a b) -> Forall2 R l l' -> Forall2 R' l l'.
Proof. intros Hi. induction 1; constructor; auto. Qed.

Lemma ft_lag_weaken now tx n0 n1 m0 m1 s s' :
  (m0 <= n0)%nat -> (n1 <= m1)%nat -> ft_lag now tx n0 n1 s s' -> ft_lag now tx m0 m1 s s'.
Proof.
  intros H0 H1 [E|(nr & nt & A & B & C & D)]; [left; exact E|].
  right. exists nr, nt. repeat split; try assumption; lia.
Qed.

(* the invariant of the loop: `cur` was read when nr datagrams had been output, and at most one
   more has been output since *)
Definition ft_inv (now tx cur : Z) (nr : nat) (a : fl) : Prop :=
  cur = u32 (now + tx * Z.of_nat nr) /\ (nr <= nouts a /\ nouts a <= S nr)%nat.

Lemma ft_seg_inv k h resent newsegs now tx cur s a s' a' cur' nr :
  ft_inv now tx cur nr a ->
  flush_seg_t k h resent newsegs now tx cur s a = Ok (s', a', cur') ->
  ft_lag now tx nr (nouts a') s s' /\ (nouts a <= nouts a')%nat /\
  exists nr', ft_inv now tx cur' nr' a' /\ (nr <= nr')%nat.
Proof.
  intros (Hc & Hn1 & Hn2) H. apply ft_timer_from_handoff in H.
  destruct H as [(E1 & E2 & E3)|(_ & Hx & Hcur & Hts & Hrts & _ & _ & Hw)].
  - subst s' cur'. unfold nouts in *. rewrite E3.
    split; [left; reflexivity|]. split; [lia|].
    exists nr. split; [|lia]. split; [exact Hc|]. unfold nouts. rewrite E3. lia.
  - pose proof (ft_one_output _ _ _ _ _ Hw) as (O1 & O2). fold (nouts a) in O1, O2. fold (nouts a') in O1, O2.
    split; [|split; [exact O1|]].
    + right. exists nr, (nouts a). split; [exact Hx|].
      split; [rewrite Hts, Hcur; reflexivity|].
      split; [rewrite Hrts, Hc; reflexivity|]. lia.
    + exists (nouts a). split; [|lia]. split; [rewrite Hcur; reflexivity|]. lia.
Qed.

Lemma ft_segs_inv k h resent newsegs now tx : forall l a cur nr l' a' cur',
  ft_inv now tx cur nr a ->
  flush_segs_t k h resent newsegs now tx cur l a = Ok (l', a', cur') ->
  Forall2 (ft_lag now tx nr (nouts a')) l l' /\ (nouts a <= nouts a')%nat /\
  exists nr', ft_inv now tx cur' nr' a' /\ (nr <= nr')%nat.
Proof.
  induction l as [|s t IH]; intros a cur nr l' a' cur' Hi H; cbn [flush_segs_t] in H.
  - inversion H; subst. split; [constructor|]. split; [lia|]. exists nr. split; [exact Hi|lia].
  - destruct (flush_seg_t k h resent newsegs now tx cur s a) as [[[s1 a1] c1]|w] eqn:E1; [|discriminate].
    destruct (flush_segs_t k h resent newsegs now tx c1 t a1) as [[[t2 a2] c2]|w] eqn:E2; [|discriminate].
    inversion H; subst l' a' cur'.
    destruct (ft_seg_inv _ _ _ _ _ _ _ _ _ _ _ _ _ Hi E1) as (L1 & M1 & nr1 & I1 & R1).
    destruct (IH _ _ _ _ _ _ I1 E2) as (L2 & M2 & nr2 & I2 & R2).
    split; [|split; [lia|exists nr2; split; [exact I2|lia]]].
    constructor.
    + eapply ft_lag_weaken; [| |exact L1]; lia.
    + eapply ft_Forall2_impl; [|exact L2]. intros x y Hxy. eapply ft_lag_weaken; [| |exact Hxy]; lia.
Qed.

(* the main theorem: phase 5 started with a fresh reading *)
Lemma ft_timer_lag k h resent newsegs now tx l a l' a' cur' :
  flush_segs_t k h resent newsegs now tx (clk now tx (f_st a)) l a = Ok (l', a', cur') ->
  Forall2 (ft_lag now tx (nouts a) (nouts a')) l l'.
Proof.
  intros H. eapply ft_segs_inv in H; [exact (proj1 H)|].
  split; [reflexivity|]. unfold nouts. lia.
Qed.

(* the same without the 32-bit wrap: c is the clock value the timer was armed from *)
Definition ft_lagZ (now tx : Z) (n0 : nat) (s s' : seg) : Prop :=
  s' = s \/
  exists c : Z,
    s_xmit s' = u32 (s_xmit s + 1) /\
    s_resendts s' = u32 (c + s_rto s') /\
    s_ts s' - tx <= c <= s_ts s' /\
    now + tx * Z.of_nat n0 <= c.

Lemma ft_lag_nowrap now tx n0 n1 s s' :
  0 <= now -> 0 <= tx -> now + tx * Z.of_nat n1 < W32 ->
  ft_lag now tx n0 n1 s s' -> ft_lagZ now tx n0 s s'.
Proof.
  intros Hn Ht Hw [E|(nr & nt & A & B & C & D0 & D1 & D2 & D3)]; [left; exact E|].
  right. exists (now + tx * Z.of_nat nr).
  pose proof (ft_mul_mono tx _ _ Ht D0). pose proof (ft_mul_mono tx _ _ Ht D1).
  pose proof (ft_mul_mono tx _ _ Ht D2). pose proof (ft_mul_mono tx _ _ Ht D3).
  pose proof (ft_mul_mono tx 0 n0 Ht (Nat.le_0_l _)) as P0. rewrite Z.mul_0_r in P0.
  rewrite Nat2Z.inj_succ in *.
  assert (U1 : u32 (now + tx * Z.of_nat nr) = now + tx * Z.of_nat nr) by (apply Z.mod_small; lia).
  assert (U2 : u32 (now + tx * Z.of_nat nt) = now + tx * Z.of_nat nt) by (apply Z.mod_small; lia).
  rewrite U1 in C. rewrite U2 in B.
  split; [exact A|]. split; [exact C|]. rewrite B. lia.
Qed.

Lemma ft_timer_lag_nowrap k h resent newsegs now tx l a l' a' cur' :
  0 <= now -> 0 <= tx -> clkZ now tx (f_st a') < W32 ->
  flush_segs_t k h resent newsegs now tx (clk now tx (f_st a)) l a = Ok (l', a', cur') ->
  Forall2 (ft_lagZ now tx (nouts a)) l l'.
Proof.
  intros Hn Ht Hw H. apply ft_timer_lag in H.
  eapply ft_Forall2_impl; [|exact H]. intros x y. apply ft_lag_nowrap; assumption.
Qed.

(* ------------------------------------------------------------------ *)
(* 6. the same on flush_t: the buffer before (with the entries admitted by this flush) and after *)
(* ------------------------------------------------------------------ *)
Lemma ft_flush_buffer_len st : (length (outs st) <= length (flush_buffer st))%nat.
Proof.
  unfold flush_buffer. rewrite rev_length. destruct (blen (cur st) >? 0); cbn [length]; lia.
Qed.

Lemma ft_ph1_buf k ft h1 st1 k1 : lv_ph1 k ft = Ok (h1, st1, k1) -> snd_buf k1 = snd_buf k.
Proof.
  unfold lv_ph1. destruct ((ft =? FLUSH_ACKONLY) || (ft =? FLUSH_FULL)).
  - destruct (flush_acks k (lv_h0 k) _ (acklist k)) as [[h st]|w]; [|discriminate].
    intros H. inversion H. reflexivity.
  - intros H. inversion H. reflexivity.
Qed.

Lemma ft_flush_t_timer_lag k now tx k' nx o :
  flush_t k FLUSH_FULL now tx = Ok (k', nx, o) ->
  exists adm, Forall2 (ft_lag now tx 0 (length o)) (snd_buf k ++ adm) (snd_buf k').
Proof.
  rewrite ft_unfold. intros H.
  destruct (lv_ph1 k FLUSH_FULL) as [[[h1 st1] k1]|w] eqn:E1; [|discriminate]. cbv zeta in H.
  destruct (lv_ph3 _ h1 st1 c_IKCP_ASK_SEND c_IKCP_CMD_WASK) as [st2|w]; [|discriminate].
  destruct (lv_ph3 _ h1 st2 c_IKCP_ASK_TELL c_IKCP_CMD_WINS) as [st3|w]; [|discriminate].
  destruct (lv_ph4 _ FLUSH_FULL) as [[[sq sb] nxt] ns] eqn:E4.
  destruct (ft_ph5 _ h1 FLUSH_FULL ns now tx st3) as [[sb' a]|w] eqn:E5; [|discriminate].
  inversion H; subst k' nx o. clear H.
  destruct (cl_ph4_spec _ _ _ _ _ _ E4) as (pre & adm & _ & Esb & _).
  exists adm.
  assert (Eb : snd_buf (set_probe_flags (lv_ph2 k1 (clk now tx st1)) 0) = snd_buf k).
  { destruct (lv_ph2_shape k1 (clk now tx st1)) as (p & tsp & pw & Ep). rewrite Ep.
    rewrite <- (ft_ph1_buf _ _ _ _ _ E1). reflexivity. }
  rewrite Eb in Esb.
  match goal with |- Forall2 _ _ (snd_buf (lv_ph6 (lv_k5 ?k4 _ _) _ ?cw ?rs)) =>
    destruct (lv_ph6_shape (lv_k5 k4 sb' a) a cw rs) as (x1 & x2 & x3 & E6); rewrite E6;
    destruct (lv_k5_shape k4 sb' a) as (x4 & E7); rewrite E7 end.
  change (Forall2 (ft_lag now tx 0 (length (flush_buffer (f_st a)))) (snd_buf k ++ adm) sb').
  unfold ft_ph5 in E5. cbv zeta in E5.
  replace (FLUSH_FULL =? FLUSH_FULL) with true in E5 by reflexivity.
  destruct (flush_segs_t _ h1 _ ns now tx (clk now tx st3) _ _) as [[[l' a'] c']|w] eqn:E; [|discriminate].
  inversion E5; subst l' a'. clear E5.
  apply (ft_timer_lag _ _ _ _ _ _ _ (mkFl st3 0 0 0 0 _ false)) in E.
  unfold lv_k4 in E. change (snd_buf (set_snd_nxt (set_queues _ sq _ sb _) nxt)) with sb in E.
  rewrite Esb in E.
  eapply ft_Forall2_impl; [|exact E]. intros x y. apply ft_lag_weaken; [lia|].
  apply ft_flush_buffer_len.
Qed.

(* ------------------------------------------------------------------ *)
(* 7. a concrete run: congestion window off, four full-size messages queued, tx = 2.
      Each segment fills a datagram, so make_space hands the previous datagram to the callback
      when the next segment is staged - AFTER the clock reading for that segment. *)
(* ------------------------------------------------------------------ *)
Definition ft_ex_msg : bytes := repeat 7 1376.
Definition ft_ex_send (k : kcp) : kcp := match send k ft_ex_msg with Ok (k', _) => k' | Panic _ => k end.
Definition ft_ex_k0 : kcp := set_nodelay (kcp_new 5) 0 (-1) (-1) 1.
Definition ft_ex_k3 : kcp := ft_ex_send (ft_ex_send (ft_ex_send ft_ex_k0)).
Definition ft_ex_k4 : kcp := ft_ex_send ft_ex_k3.
(* (sn, xmit, ts, resendts) of the buffer entries, next interval, lengths of the datagrams *)
Definition ft_ex_view (r : res (kcp * Z * list bytes)) : option (list (Z * Z * Z * Z) * Z * list nat) :=
  match r with
  | Ok (k', nx, o) =>
      Some (map (fun s => (s_sn s, s_xmit s, s_ts s, s_resendts s)) (snd_buf k'), nx, map (@length Z) o)
  | Panic _ => None
  end.

Example ft_example3 :
  ft_ex_view (flush_t ft_ex_k3 FLUSH_FULL 1000 2) =
  Some ([(0, 1, 1000, 1200); (1, 1, 1000, 1200); (2, 1, 1002, 1200)], 100,
        [1400%nat; 1400%nat; 1400%nat]).
Proof. vm_compute. reflexivity. Qed.

Example ft_example4 :
  ft_ex_view (flush_t ft_ex_k4 FLUSH_FULL 1000 2) =
  Some ([(0, 1, 1000, 1200); (1, 1, 1000, 1200); (2, 1, 1002, 1200); (3, 1, 1004, 1202)], 100,
        [1400%nat; 1400%nat; 1400%nat; 1400%nat]) /\
  ft_ex_view (flush ft_ex_k4 FLUSH_FULL 1000) =
  Some ([(0, 1, 1000, 1200); (1, 1, 1000, 1200); (2, 1, 1000, 1200); (3, 1, 1000, 1200)], 100,
        [1400%nat; 1400%nat; 1400%nat; 1400%nat]).
Proof. vm_compute. split; reflexivity. Qed.
