(* C12 simulation, part 1: Recv / Send / Check / SetMtu / NoDelay and the receive-side walks. *)
From Coq Require Import ZArith List Bool Lia.
From KV.Base Require Import Consts Word WordLemmas.
From KV.Kcp Require Import Kcp Step Net InvBase Shift ShiftBase.
Import ListNotations.
Local Open Scope Z_scope.

Ltac Zify.zify_post_hook ::= Z.div_mod_to_equations.

(* ------------------------------------------------------------------ *)
(* move_ready                                                          *)
(* ------------------------------------------------------------------ *)
Lemma shf_move_ready p rw : forall rb1 rb2, Forall2 (shf_rb p) rb1 rb2 ->
  forall rq1 rq2 rn1 rn2 rb1' rq1' rn1',
  Forall2 (R_rcv p) rq1 rq2 -> rn2 = sh (kp p) rn1 -> is_u32 rn1 ->
  move_ready rb1 rq1 rn1 rw = (rb1', rq1', rn1') ->
  exists rb2' rq2' rn2', move_ready rb2 rq2 rn2 rw = (rb2', rq2', rn2') /\
    Forall2 (shf_rb p) rb1' rb2' /\ Forall2 (R_rcv p) rq1' rq2' /\ rn2' = sh (kp p) rn1' /\ is_u32 rn1'.
Proof.
  induction 1 as [|s1 s2 t1 t2 Hs Ht IH]; intros rq1 rq2 rn1 rn2 rb1' rq1' rn1' Hq Hn Hu Hm.
  - cbn [move_ready] in *. inversion Hm; subst. do 3 eexists. split; [reflexivity|].
    shf_split; try assumption; try reflexivity. constructor.
  - cbn [move_ready] in *. destruct Hs as [Hr Hsu]. pose proof Hr as (Hsn & Hfrg & Hdata).
    rewrite Hsn, Hn, (shf_sh_eqb _ _ _ Hsu Hu), <- (shf_F2_qlen _ _ _ Hq).
    destruct ((s_sn s1 =? rn1) && (qlen rq1 <? rw)) eqn:E.
    + rewrite shf_sh_add. eapply IH; [|reflexivity|apply u32_range|exact Hm].
      apply shf_F2_snoc; assumption.
    + inversion Hm; subst. do 3 eexists. split; [reflexivity|].
      shf_split; try assumption; try reflexivity. constructor; [split; assumption|exact Ht].
Qed.

Lemma shf_do_move_ready p k1 k2 : shf_R p k1 k2 -> shf_R p (do_move_ready k1) (do_move_ready k2).
Proof.
  intros H. unfold do_move_ready.
  destruct (move_ready (rcv_buf k1) (rcv_queue k1) (rcv_nxt k1) (rcv_wnd k1)) as [[rb1 rq1] rn1] eqn:E1.
  destruct (shf_move_ready p (rcv_wnd k1) _ _ (G_rb _ _ _ H) _ _ _ _ _ _ _ (G_rq _ _ _ H) (G_rnxt _ _ _ H)
              (G_rnxt32 _ _ _ H) E1) as (rb2 & rq2 & rn2 & E2 & H1 & H2 & H3 & H4).
  pose proof (G_cfg _ _ _ H) as Hc. shf_dcfg Hc. rewrite <- Crw, E2.
  apply shf_R_set_rcv_nxt; [|exact H3|exact H4].
  apply shf_R_set_queues; try assumption; [exact (G_sndq _ _ _ H)|exact (G_sndb _ _ _ H)].
Qed.

(* ------------------------------------------------------------------ *)
(* Recv                                                                *)
(* ------------------------------------------------------------------ *)
Lemma shf_msg_size p q1 q2 : Forall2 (R_rcv p) q1 q2 -> msg_size q1 = msg_size q2.
Proof.
  induction 1 as [|s1 s2 t1 t2 (Hsn & Hfrg & Hdata) Ht IH]; [reflexivity|].
  cbn [msg_size]. rewrite <- Hfrg, <- Hdata, IH. reflexivity.
Qed.

Lemma shf_peeksize p k1 k2 : shf_R p k1 k2 -> peeksize k1 = peeksize k2.
Proof.
  intros H. unfold peeksize. pose proof (G_rq _ _ _ H) as Hq.
  rewrite <- (shf_msg_size _ _ _ Hq), <- (shf_F2_qlen _ _ _ Hq).
  destruct Hq as [|s1 s2 t1 t2 (Hsn & Hfrg & Hdata) Ht]; [reflexivity|].
  rewrite <- Hfrg, <- Hdata. reflexivity.
Qed.

Lemma shf_pop_msg p q1 q2 : Forall2 (R_rcv p) q1 q2 ->
  fst (pop_msg q1) = fst (pop_msg q2) /\ Forall2 (R_rcv p) (snd (pop_msg q1)) (snd (pop_msg q2)).
Proof.
  induction 1 as [|s1 s2 t1 t2 (Hsn & Hfrg & Hdata) Ht IH]; [split; [reflexivity|constructor]|].
  cbn [pop_msg]. rewrite <- Hfrg, <- Hdata.
  destruct (s_frg s1 =? 0); [split; [reflexivity|exact Ht]|].
  destruct (pop_msg t1) as [d1 r1]. destruct (pop_msg t2) as [d2 r2]. cbn [fst snd] in *.
  destruct IH as [IH1 IH2]. split; [rewrite IH1; reflexivity|exact IH2].
Qed.

Lemma shf_recv p k1 k2 n k1' r d :
  shf_R p k1 k2 -> recv k1 n = (k1', r, d) ->
  exists k2', recv k2 n = (k2', r, d) /\ shf_R p k1' k2'.
Proof.
  intros H. unfold recv. cbv zeta. rewrite <- (shf_peeksize _ _ _ H).
  destruct (peeksize k1 <? 0); [intros E; inversion E; subst; eexists; split; [reflexivity|assumption]|].
  destruct (peeksize k1 >? n); [intros E; inversion E; subst; eexists; split; [reflexivity|assumption]|].
  pose proof (G_rq _ _ _ H) as Hq. pose proof (G_cfg _ _ _ H) as Hc. shf_dcfg Hc.
  destruct (shf_pop_msg _ _ _ Hq) as [Hd Hr].
  rewrite <- (shf_F2_qlen _ _ _ Hq), <- Crw.
  destruct (pop_msg (rcv_queue k1)) as [d1 rq1]. destruct (pop_msg (rcv_queue k2)) as [d2 rq2].
  cbn [fst snd] in Hd, Hr. subst d2.
  pose proof (shf_do_move_ready _ _ _ (shf_R_set_rcv_queue _ _ _ _ _ H Hr)) as Hm.
  set (m1 := do_move_ready (set_rcv_queue k1 rq1)) in *.
  set (m2 := do_move_ready (set_rcv_queue k2 rq2)) in *.
  pose proof (G_rq _ _ _ Hm) as Hq'. pose proof (G_cfg _ _ _ Hm) as Hc'.
  destruct Hc' as (_ & _ & _ & _ & _ & Crw' & _ & _ & _ & _ & _ & _ & _ & _ & Cprobe' & _).
  rewrite <- (shf_F2_qlen _ _ _ Hq'), <- Crw', <- Cprobe'.
  intros E. inversion E; subst. eexists. split; [reflexivity|].
  destruct ((qlen (rcv_queue m1) <? rcv_wnd m1) && (qlen (rcv_queue k1) >=? rcv_wnd k1));
    [apply shf_R_set_probe_flags|]; exact Hm.
Qed.

(* ------------------------------------------------------------------ *)
(* Send                                                                *)
(* ------------------------------------------------------------------ *)
Lemma shf_blen_take n b : blen (take n b) <= Z.max 0 n.
Proof. unfold blen, take. rewrite firstn_length. lia. Qed.

Lemma shf_R_sq_refl s : R_sq s s.
Proof. unfold R_sq. repeat split. Qed.

Lemma shf_u8_range x : 0 <= u8 x < 256.
Proof. unfold u8. lia. Qed.

Lemma shf_fragment_ok : forall fuel count i m st b l,
  is_byte_list b -> fragment fuel count i m st b = Ok l -> Forall2 shf_sq l l.
Proof.
  induction fuel as [|f IH]; intros count i m st b l Hb E; cbn [fragment] in E.
  - inversion E; subst. constructor.
  - destruct (i >=? count); [inversion E; subst; constructor|].
    destruct (Z.min (blen b) m >? c_mtuLimit) eqn:Es; [discriminate|].
    destruct (fragment f count (i + 1) m st (drop (Z.min (blen b) m) b)) as [l'|w] eqn:Er; [|discriminate].
    inversion E; subst. constructor; [|eapply IH; [|exact Er]; apply shf_bl_drop; exact Hb].
    split; [apply shf_R_sq_refl|]. split; [|split; reflexivity].
    unfold shf_dwf, new_seg_data. cbn [s_frg s_data].
    split; [destruct (st =? 0); [apply shf_u8_range|lia]|].
    split; [apply shf_bl_take; exact Hb|].
    pose proof (shf_blen_take (Z.min (blen b) m) b) as Ht. pose proof (blen_take_le (Z.min (blen b) m) b) as Ht'.
    destruct (Z.gtb_spec (Z.min (blen b) m) c_mtuLimit); [discriminate|].
    unfold c_mtuLimit in *. lia.
Qed.

Lemma shf_stream_append p k1 k2 b :
  shf_R p k1 k2 -> is_byte_list b ->
  match stream_append k1 b with
  | Ok (Some (q1, b1)) => exists q2, stream_append k2 b = Ok (Some (q2, b1)) /\ Forall2 shf_sq q1 q2 /\ is_byte_list b1
  | Ok None => stream_append k2 b = Ok None
  | Panic _ => True
  end.
Proof.
  intros H Hb. unfold stream_append.
  pose proof (G_sndq _ _ _ H) as Hq. pose proof (shf_F2_rev _ _ _ _ _ Hq) as Hrev.
  pose proof (G_cfg _ _ _ H) as Hc. shf_dcfg Hc. rewrite <- Cmss.
  destruct Hrev as [|s1 s2 t1 t2 Hs Ht].
  - eexists. split; [reflexivity|]. split; assumption.
  - pose proof Hs as ((Hfrg & Hdata & Hxmit & Hacked & Hfa & Hrto) & (Hf1 & Hbl1 & Hlen1) & Hx0 & Ha0).
    rewrite <- Hdata.
    destruct (blen (s_data s1) <? mss k1) eqn:El; [|eexists; split; [reflexivity|split; assumption]].
    cbv zeta.
    destruct (frag_count (blen (drop (Z.min (blen b) (mss k1 - blen (s_data s1))) b)) (mss k1) >? 255); [reflexivity|].
    destruct (blen (s_data s1) + Z.min (blen b) (mss k1 - blen (s_data s1)) >? c_mtuLimit) eqn:Eo; [exact I|].
    eexists. split; [reflexivity|]. split; [|apply shf_bl_drop; exact Hb].
    apply shf_F2_snoc; [apply shf_F2_rev; exact Ht|].
    unfold set_seg_data. split; [unfold R_sq; cbn [s_frg s_data s_xmit s_acked s_fastack s_rto]; repeat split; assumption|].
    split; [|split; assumption].
    unfold shf_dwf. cbn [s_frg s_data]. split; [exact Hf1|].
    split; [apply shf_bl_app; split; [exact Hbl1|apply shf_bl_take; exact Hb]|].
    rewrite blen_app.
    pose proof (shf_blen_take (Z.min (blen b) (mss k1 - blen (s_data s1))) b) as Ht'.
    pose proof (blen_nonneg b). apply Z.ltb_lt in El.
    destruct (Z.gtb_spec (blen (s_data s1) + Z.min (blen b) (mss k1 - blen (s_data s1))) c_mtuLimit); [discriminate|].
    lia.
Qed.

Lemma shf_send p k1 k2 b k1' r :
  shf_R p k1 k2 -> is_byte_list b -> send k1 b = Ok (k1', r) ->
  exists k2', send k2 b = Ok (k2', r) /\ shf_R p k1' k2'.
Proof.
  intros H Hb. unfold send.
  destruct (blen b =? 0); [intros E; inversion E; subst; eexists; split; [reflexivity|exact H]|].
  pose proof (G_cfg _ _ _ H) as Hc. shf_dcfg Hc. rewrite <- Cstream, <- Cmss.
  assert (Hpre : match (if stream k1 =? 0 then Ok (Some (snd_queue k1, b)) else stream_append k1 b) with
                 | Ok (Some (q1, b1)) => exists q2,
                     (if stream k1 =? 0 then Ok (Some (snd_queue k2, b)) else stream_append k2 b) = Ok (Some (q2, b1)) /\
                     Forall2 shf_sq q1 q2 /\ is_byte_list b1
                 | Ok None => (if stream k1 =? 0 then Ok (Some (snd_queue k2, b)) else stream_append k2 b) = Ok None
                 | Panic _ => True end).
  { destruct (stream k1 =? 0); [|apply (shf_stream_append p); assumption].
    eexists. split; [reflexivity|]. split; [exact (G_sndq _ _ _ H)|exact Hb]. }
  destruct (if stream k1 =? 0 then Ok (Some (snd_queue k1, b)) else stream_append k1 b) as [[[q1 b1]|]|w];
    [| |discriminate].
  - destruct Hpre as (q2 & E2 & Hq & Hb1). rewrite E2.
    pose proof (shf_R_set_snd_queue _ _ _ _ _ H Hq) as H1.
    destruct (negb (stream k1 =? 0) && (blen b1 =? 0));
      [intros E; inversion E; subst; eexists; split; [reflexivity|exact H1]|].
    destruct (frag_count (blen b1) (mss k1) >? 255);
      [intros E; inversion E; subst; eexists; split; [reflexivity|exact H1]|].
    match goal with |- context [fragment ?a ?b ?c ?d ?e ?f] => destruct (fragment a b c d e f) as [segs|w] eqn:Ef end;
      [|discriminate].
    intros E; inversion E; subst. eexists. split; [reflexivity|].
    apply shf_R_set_snd_queue; [exact H1|].
    apply Forall2_app; [exact Hq|]. eapply shf_fragment_ok; [exact Hb1|exact Ef].
  - rewrite Hpre. intros E; inversion E; subst. eexists. split; [reflexivity|exact H].
Qed.

(* ------------------------------------------------------------------ *)
(* Check                                                               *)
(* ------------------------------------------------------------------ *)
Lemma shf_check_walk p now : forall l1 l2, Forall2 (shf_sb p) l1 l2 ->
  forall tm, check_walk (sh (co p) now) l2 tm = check_walk now l1 tm.
Proof.
  induction 1 as [|s1 s2 t1 t2 Hs Ht IH]; intros tm; [reflexivity|].
  cbn [check_walk]. destruct Hs as ((_ & _ & _ & _ & _ & Hrs & _) & _).
  rewrite Hrs, itimediff_sh, !IH. reflexivity.
Qed.

Lemma shf_check p k1 k2 now :
  shf_R p k1 k2 -> check k2 (sh (co p) now) = sh (co p) (check k1 now).
Proof.
  intros H. unfold check. pose proof (G_cfg _ _ _ H) as Hc. shf_dcfg Hc. rewrite <- Cupd, <- Civ.
  destruct (updated k1 =? 0) eqn:Eu; [reflexivity|].
  apply Z.eqb_neq in Eu. rewrite (G_tsflush _ _ _ H Eu), itimediff_sh.
  rewrite (shf_check_walk _ _ _ _ (G_sndb _ _ _ H)).
  destruct ((itimediff now (ts_flush k1) >=? 10000) || (itimediff now (ts_flush k1) <? -10000)).
  - rewrite !itimediff_sh. destruct (itimediff now now >=? 0); [reflexivity|].
    destruct (check_walk now (snd_buf k1) 2147483647); [|reflexivity].
    rewrite shf_sh_add. reflexivity.
  - rewrite !itimediff_sh. destruct (itimediff now (ts_flush k1) >=? 0); [reflexivity|].
    destruct (check_walk now (snd_buf k1) 2147483647); [|reflexivity].
    rewrite shf_sh_add. reflexivity.
Qed.

(* ------------------------------------------------------------------ *)
(* SetMtu / NoDelay                                                    *)
(* ------------------------------------------------------------------ *)
Lemma shf_fold_max (Q : seg -> seg -> Prop) :
  (forall a b, Q a b -> s_data a = s_data b) ->
  forall l1 l2, Forall2 Q l1 l2 -> forall a, fold_max l1 a = fold_max l2 a.
Proof.
  intros HQ l1 l2 HF. unfold fold_max. induction HF as [|s1 s2 t1 t2 Hs Ht IH]; intros a; [reflexivity|].
  cbn [fold_left]. rewrite (HQ _ _ Hs). apply IH.
Qed.

Lemma shf_max_queued p k1 k2 : shf_R p k1 k2 -> max_queued k1 = max_queued k2.
Proof.
  intros H. unfold max_queued.
  apply (shf_fold_max (fun a b => s_data a = s_data b)); [auto|].
  apply Forall2_app.
  - eapply shf_F2_impl; [|exact (G_sndq _ _ _ H)]. intros a b ((_ & Hd & _) & _). exact Hd.
  - eapply shf_F2_impl; [|exact (G_sndb _ _ _ H)]. intros a b (((_ & Hd & _) & _) & _). exact Hd.
Qed.

Lemma shf_set_mtu p k1 k2 m k1' r :
  shf_R p k1 k2 -> set_mtu k1 m = (k1', r) ->
  exists k2', set_mtu k2 m = (k2', r) /\ shf_R p k1' k2'.
Proof.
  intros H. unfold set_mtu. rewrite <- (shf_max_queued _ _ _ H).
  pose proof (G_cfg _ _ _ H) as Hc. shf_dcfg Hc.
  rewrite <- Csw, <- Crw, <- Civ, <- Cnd, <- Cfr, <- Cnc, <- Cstream.
  destruct ((m <=? c_IKCP_OVERHEAD) || (m >? c_mtuLimit));
    [intros E; inversion E; subst; eexists; split; [reflexivity|exact H]|].
  destruct (max_queued k1 >? m - c_IKCP_OVERHEAD);
    [intros E; inversion E; subst; eexists; split; [reflexivity|exact H]|].
  intros E; inversion E; subst. eexists. split; [reflexivity|]. apply shf_R_set_config. exact H.
Qed.

Lemma shf_set_nodelay p k1 k2 nd iv rs nc :
  shf_R p k1 k2 -> shf_R p (set_nodelay k1 nd iv rs nc) (set_nodelay k2 nd iv rs nc).
Proof.
  intros H. unfold set_nodelay. pose proof (G_cfg _ _ _ H) as Hc. shf_dcfg Hc.
  rewrite <- Cmtu, <- Cmss, <- Csw, <- Crw, <- Civ, <- Cnd, <- Cfr, <- Cnc, <- Cstream, <- Cbl,
          <- Cminrto, <- Cvar, <- Csrtt, <- Crto.
  destruct (if nd >=? 0 then (u32 nd, if negb (nd =? 0) then c_IKCP_RTO_NDL else c_IKCP_RTO_MIN)
            else (nodelay k1, rx_minrto k1)) as [ndv minrto].
  apply shf_R_set_rtt. apply shf_R_set_config. exact H.
Qed.
