(* A concrete run of the two-endpoint system: data written, the first transmission lost, the
   retransmission delivered twice, then read.  Non-vacuity witness for C01. *)
From Coq Require Import ZArith List Bool Lia.
From KV.Base Require Import Consts Word WordLemmas.
From KV.Kcp Require Import Kcp Step Net InvAll NetAll.
Import ListNotations.
Local Open Scope Z_scope.

Definition ex_k : kcp := set_nodelay (kcp_new 7) 1 10 2 1.
Definition ex_s0 : sys := mkSys ex_k ex_k (mkSG 0 [] []) (mkRG 0 []) [].

Definition ex_last (s : sys) : bytes := last (wire s) [].

Definition ex_step (s : option sys) (f : sys -> ev) : option sys :=
  match s with Some s => sys_step s (f s) | None => None end.

Definition ex_events : list (sys -> ev) :=
  [ (fun _ => EA (OSend [1; 2; 3]));
    (fun _ => EA (OFlush true 1000));            (* first transmission: lost *)
    (fun _ => EA (OFlush true 2000));            (* retransmission *)
    (fun s => EB (OInput (ex_last s) true false 2001));
    (fun s => EB (OInput (ex_last s) true false 2002));   (* duplicate *)
    (fun _ => EB (ORecv 100)) ].

Fixpoint ex_states (s : sys) (fs : list (sys -> ev)) : list (sys * ev) :=
  match fs with
  | [] => []
  | f :: t => match sys_step s (f s) with
              | Some s1 => (s, f s) :: ex_states s1 t
              | None => []
              end
  end.

Definition ex_final : sys :=
  fold_left (fun s f => match sys_step s (f s) with Some s1 => s1 | None => s end) ex_events ex_s0.

Lemma ex_init : sys_init ex_s0.
Proof.
  unfold sys_init, ex_s0; cbn [sA sB gA gB wire].
  assert (Hi : inv ex_k). { apply nodelay_inv. apply inv_new. unfold W32. lia. }
  split; [exact Hi|]. split; [exact Hi|].
  split; [unfold is_u32, W32; cbn; lia|].
  split; [reflexivity|]. split; [reflexivity|]. split; [reflexivity|].
  split; [reflexivity|]. split; [reflexivity|]. split; [reflexivity|].
  split; [reflexivity|]. split; reflexivity.
Qed.

Lemma bytes_dec_ok : forall l, forallb (fun x => (0 <=? x) && (x <? 256)) l = true -> is_byte_list l.
Proof.
  induction l as [|x t IH]; intros H; constructor.
  - cbn in H. apply andb_true_iff in H. destruct H as [H _]. apply andb_true_iff in H. lia.
  - apply IH. cbn in H. apply andb_true_iff in H. apply H.
Qed.

Lemma in_dec_ok : forall (d : bytes) l, existsb (fun x => if list_eq_dec Z.eq_dec x d then true else false) l = true -> In d l.
Proof.
  intros d l H. apply existsb_exists in H. destruct H as (x & Hin & Hx).
  destruct (list_eq_dec Z.eq_dec x d); [subst; exact Hin | discriminate].
Qed.

Ltac ex_evok :=
  match goal with
  | |- ev_ok _ (EA _) => split; [cbn; first [apply bytes_dec_ok; vm_compute; reflexivity | exact I] | cbn; first [exact I | (unfold is_u32, W32; lia)]]
  | |- ev_ok _ (EB (OInput _ _ _ _)) =>
      split; [split; [cbn; apply bytes_dec_ok; vm_compute; reflexivity | cbn; unfold is_u32, W32; lia]
             | apply in_dec_ok; vm_compute; reflexivity]
  | |- ev_ok _ (EB _) => split; [split; [exact I | exact I] | exact I]
  end.

Lemma net_example :
  exists s0 evs s, sys_init s0 /\ sys_run s0 evs s /\ stream (sA s0) = 0 /\
     no_wrap (sg_numbered (gA s)) /\ rg_delivered (gB s) = [[1; 2; 3]] /\ (length (wire s) >= 2)%nat.
Proof.
  exists ex_s0, (map snd (ex_states ex_s0 ex_events)), ex_final.
  split; [exact ex_init|].
  split.
  - (* the run, step by step *)
    let l := eval vm_compute in (map snd (ex_states ex_s0 ex_events)) in
    change (map snd (ex_states ex_s0 ex_events)) with l.
    let f := eval vm_compute in ex_final in change ex_final with f.
    do 6 (eapply run_cons; [ex_evok | vm_compute; reflexivity |]).
    apply run_nil.
  - split; [reflexivity|]. split; [vm_compute; reflexivity|]. split; [vm_compute; reflexivity|].
    vm_compute. lia.
Qed.
