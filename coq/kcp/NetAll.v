(* Composition of the sender and receiver ghost invariants over every run of the
   two-endpoint system (C01). *)
From Coq Require Import ZArith List Bool Lia.
From KV.Base Require Import Consts Word WordLemmas.
From KV.Kcp Require Import Kcp Step Net InvAll.
From KV.Kcp Require Export NetSender NetReceiver.
Import ListNotations.
Local Open Scope Z_scope.

Lemma op_ok32_ok : forall o, op_ok32 o -> op_ok o.
Proof. intros o [H _]; exact H. Qed.

Lemma is_prefix_refl {T} (a : list T) : is_prefix a a.
Proof. exists []. rewrite app_nil_r. reflexivity. Qed.

Lemma is_prefix_trans {T} (a b c : list T) : is_prefix a b -> is_prefix b c -> is_prefix a c.
Proof. intros [x Hx] [y Hy]. exists (x ++ y). subst. rewrite app_assoc. reflexivity. Qed.

Lemma is_prefix_app {T} (a b : list T) : is_prefix a (a ++ b).
Proof. exists b. reflexivity. Qed.

(* ---- the sender side along a run: invariant, monotone numbering, genuine wire ---- *)
Record a_side (s : sys) : Prop := mkAS {
  AS_inv : sender_inv (gA s) (sA s);
  AS_wire : Forall (genuine_dgram (sg_isn (gA s)) (sg_numbered (gA s))) (wire s)
}.

Lemma a_side_step :
  forall s e s1, a_side s -> inv (sB s) -> ev_ok s e -> sys_step s e = Some s1 ->
    a_side s1 /\ inv (sB s1) /\ sg_isn (gA s1) = sg_isn (gA s) /\ stream (sA s1) = stream (sA s) /\
    (exists ext, sg_numbered (gA s1) = sg_numbered (gA s) ++ ext) /\
    rg_isn (gB s1) = rg_isn (gB s).
Proof.
  intros s e s1 [Hsi Hw] HB Hok Hst. destruct e as [o|o]; cbn [sys_step ev_ok] in *.
  - destruct (step (sA s) o) as [[k' x]|w] eqn:Hs; [|discriminate]. inversion Hst; subst; clear Hst. cbn.
    destruct (sender_step (gA s) (sA s) o k' x Hsi Hok Hs) as (Hsi' & (ext & Hext) & Hisn & Hgen & Hstr).
    cbv zeta in Hsi', Hext, Hisn, Hgen.
    split; [split; [exact Hsi'|]|].
    + cbn [gA wire sA]. rewrite Hisn. apply Forall_app. split; [|exact Hgen].
      eapply Forall_impl; [|exact Hw]. intros d Hd. rewrite Hext. apply genuine_mono. exact Hd.
    + split; [exact HB|]. split; [exact Hisn|]. split; [exact Hstr|]. split; [exists ext; exact Hext | reflexivity].
  - destruct Hok as [Hok _].
    destruct (step (sB s) o) as [[k' x]|w] eqn:Hs; [|discriminate]. inversion Hst; subst; clear Hst. cbn.
    destruct (step_ok (sB s) o HB (op_ok32_ok _ Hok)) as (k2 & x2 & Hs2 & Hi2 & _).
    rewrite Hs in Hs2. inversion Hs2; subst.
    split; [split; [exact Hsi | exact Hw]|].
    split; [exact Hi2|]. split; [reflexivity|]. split; [reflexivity|].
    split; [exists []; rewrite app_nil_r; reflexivity|].
    destruct o; cbn; try reflexivity. destruct (o_ret x2 >=? 0); reflexivity.
Qed.

Lemma a_side_run :
  forall s evs s2, sys_run s evs s2 -> a_side s -> inv (sB s) ->
    a_side s2 /\ inv (sB s2) /\ sg_isn (gA s2) = sg_isn (gA s) /\ stream (sA s2) = stream (sA s) /\
    (exists ext, sg_numbered (gA s2) = sg_numbered (gA s) ++ ext) /\ rg_isn (gB s2) = rg_isn (gB s).
Proof.
  induction 1 as [s|s e s1 t s2 Hok Hst Hrun IH]; intros HA HB.
  - split; [exact HA|]. split; [exact HB|]. split; [reflexivity|]. split; [reflexivity|].
    split; [exists []; rewrite app_nil_r; reflexivity | reflexivity].
  - destruct (a_side_step s e s1 HA HB Hok Hst) as (HA1 & HB1 & Hisn & Hstr & (ext & Hext) & Hrisn).
    destruct (IH HA1 HB1) as (HA2 & HB2 & Hisn2 & Hstr2 & (ext2 & Hext2) & Hrisn2).
    split; [exact HA2|]. split; [exact HB2|]. split; [congruence|]. split; [congruence|].
    split; [|congruence].
    exists (ext ++ ext2). rewrite Hext2, Hext, app_assoc. reflexivity.
Qed.

(* ---- the receiver side w.r.t. a fixed src that extends the sender's numbering ---- *)
Lemma b_side_run :
  forall src s evs s2, sys_run s evs s2 ->
    a_side s -> receiver_inv src (gB s) (sB s) -> src_wf src -> no_wrap src ->
    rg_isn (gB s) = sg_isn (gA s) ->
    (exists ext, src = sg_numbered (gA s2) ++ ext) ->
    receiver_inv src (gB s2) (sB s2).
Proof.
  induction 1 as [s|s e s1 t s2 Hok Hst Hrun IH]; intros HA HR Hwf Hnw Hisn Hsrc.
  - exact HR.
  - pose proof (RI_inv _ _ _ HR) as HB.
    destruct (a_side_step s e s1 HA HB Hok Hst) as (HA1 & HB1 & Hisn1 & _ & (ext1 & Hext1) & Hrisn1).
    destruct (a_side_run s1 t s2 Hrun HA1 HB1) as (_ & _ & _ & _ & (ext2 & Hext2) & _).
    apply IH; auto; try congruence.
    destruct e as [o|o]; cbn [sys_step ev_ok] in *.
    + destruct (step (sA s) o) as [[k' x]|w]; [|discriminate]. inversion Hst; subst. cbn. exact HR.
    + destruct Hok as [Hok Hin].
      destruct (step (sB s) o) as [[k' x]|w] eqn:Hs; [|discriminate]. inversion Hst; subst. cbn.
      eapply receiver_step; eauto.
      intros d r n t0 Heq. subst o.
      destruct HA as [_ Hw]. rewrite Forall_forall in Hw. specialize (Hw d Hin).
      destruct Hsrc as (ext & Hsrc). cbn in Hext1, Hext2. rewrite Hisn.
      rewrite Hsrc, Hext2. cbn. rewrite <- app_assoc. apply genuine_mono. exact Hw.
Qed.

Lemma init_sides :
  forall s0 src, sys_init s0 ->
    a_side s0 /\ receiver_inv src (gB s0) (sB s0) /\ rg_isn (gB s0) = sg_isn (gA s0).
Proof.
  intros s0 src (HA & HB & Hc & Hq & Hb & Hal & Hrq & Hrb & Hrn & HgA & HgB & Hw).
  rewrite HgA, HgB. cbn [sg_isn rg_isn].
  split; [split|split].
  - rewrite HgA. apply sender_init; auto.
  - rewrite Hw. constructor.
  - apply receiver_init; auto. apply (I_una_u32 _ HA).
  - reflexivity.
Qed.

Theorem net_final :
  forall s0 evs s, sys_init s0 -> sys_run s0 evs s -> no_wrap (sg_numbered (gA s)) ->
    sender_inv (gA s) (sA s) /\ receiver_inv (sg_numbered (gA s)) (gB s) (sB s) /\ stream (sA s) = stream (sA s0).
Proof.
  intros s0 evs s Hinit Hrun Hnw.
  destruct (init_sides s0 (sg_numbered (gA s)) Hinit) as (HA & HR & Hisn).
  pose proof (RI_inv _ _ _ HR) as HB.
  destruct (a_side_run s0 evs s Hrun HA HB) as ([HA2 _] & _ & _ & Hstr & _ & _).
  split; [exact HA2|]. split; [|exact Hstr].
  eapply b_side_run; eauto.
  - eapply sender_src_wf; eauto.
  - exists []. rewrite app_nil_r. reflexivity.
Qed.

Theorem net_run_inv :
  forall s0 evs s, sys_init s0 -> sys_run s0 evs s -> inv (sA s) /\ inv (sB s).
Proof.
  intros s0 evs s Hinit Hrun.
  destruct (init_sides s0 [] Hinit) as (HA & HR & _).
  destruct (a_side_run s0 evs s Hrun HA (RI_inv _ _ _ HR)) as ([HA2 _] & HB2 & _).
  split; [apply (SI_inv _ _ HA2) | exact HB2].
Qed.

Theorem net_wire_genuine :
  forall s0 evs s, sys_init s0 -> sys_run s0 evs s ->
    Forall (genuine_dgram (sg_isn (gA s)) (sg_numbered (gA s))) (wire s).
Proof.
  intros s0 evs s Hinit Hrun.
  destruct (init_sides s0 [] Hinit) as (HA & HR & _).
  destruct (a_side_run s0 evs s Hrun HA (RI_inv _ _ _ HR)) as ([_ Hw] & _). exact Hw.
Qed.

Theorem net_message_prefix :
  forall s0 evs s, sys_init s0 -> sys_run s0 evs s -> stream (sA s0) = 0 ->
    no_wrap (sg_numbered (gA s)) -> is_prefix (rg_delivered (gB s)) (sg_accepted (gA s)).
Proof.
  intros s0 evs s Hinit Hrun Hstr Hnw.
  destruct (net_final s0 evs s Hinit Hrun Hnw) as (HS & HR & Hst).
  destruct (RI_nxt _ _ _ HR) as (r & done & Hrange & _ & _ & Hdel & Hb).
  rewrite Hdel. rewrite <- (SI_message _ _ HS) by congruence.
  eapply is_prefix_trans; [apply messages_prefix; exact Hb|].
  apply messages_app_prefix.
Qed.

Theorem net_stream_prefix :
  forall s0 evs s, sys_init s0 -> sys_run s0 evs s -> stream (sA s0) <> 0 ->
    no_wrap (sg_numbered (gA s)) -> is_prefix (concat (rg_delivered (gB s))) (concat (sg_accepted (gA s))).
Proof.
  intros s0 evs s Hinit Hrun Hstr Hnw.
  destruct (net_final s0 evs s Hinit Hrun Hnw) as (HS & HR & Hst).
  destruct (RI_nxt _ _ _ HR) as (r & done & Hrange & _ & _ & Hdel & Hb).
  rewrite Hdel, (concat_messages_boundary _ Hb).
  rewrite <- (SI_stream _ _ HS) by congruence.
  eapply is_prefix_trans; [apply stream_bytes_firstn_prefix|]. apply is_prefix_app.
Qed.
