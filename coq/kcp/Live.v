(* Liveness building blocks: the lemmas the statement files C02.v (eventual delivery) and C03.v
   (flow control: zero window, probes, resumption) `exact`.  Helpers are in LiveBase.v (prefix lv_).
   The notions the statements are phrased with (set_state, eq_mod_state, emits_ack, emits_push,
   emits_cmd, probe_inv) are defined HERE. *)
From Coq Require Import ZArith List Bool Lia.
From KV.Base Require Import Consts Word WordLemmas.
From KV.Kcp Require Import Kcp Step Net InvBase LiveBase.
Import ListNotations.
Local Open Scope Z_scope.

Ltac Zify.zify_post_hook ::= Z.div_mod_to_equations.

(* ------------------------------------------------------------------ *)
(* notions                                                             *)
(* ------------------------------------------------------------------ *)
Definition set_state (k : kcp) (st : Z) : kcp := set_timer k st (ts_flush k) (updated k).
Definition eq_mod_state (k1 k2 : kcp) : Prop := set_state k1 0 = set_state k2 0.

Definition emits_ack (o : list bytes) (una sn ts : Z) : Prop :=
  exists d segs s, In d o /\ d = concat (map encode_seg segs) /\ In s segs /\
                   s_cmd s = c_IKCP_CMD_ACK /\ s_sn s = sn /\ s_ts s = ts /\ s_una s = una.

Definition emits_push (o : list bytes) (sn frg : Z) (data : bytes) : Prop :=
  exists d segs s, In d o /\ d = concat (map encode_seg segs) /\ In s segs /\
                   s_cmd s = c_IKCP_CMD_PUSH /\ s_sn s = sn /\ s_frg s = frg /\ s_data s = data.

Definition emits_cmd (o : list bytes) (cmd wnd : Z) : Prop :=
  exists d segs s, In d o /\ d = concat (map encode_seg segs) /\ In s segs /\ s_cmd s = cmd /\ s_wnd s = wnd.

Definition probe_inv (k : kcp) : Prop := probe_wait k = 0 \/ 500 <= probe_wait k <= 120000.

(* ------------------------------------------------------------------ *)
(* small facts                                                         *)
(* ------------------------------------------------------------------ *)
Lemma lv_land_lor_send p : Z.land (Z.lor p c_IKCP_ASK_SEND) c_IKCP_ASK_SEND <> 0.
Proof.
  unfold c_IKCP_ASK_SEND. rewrite Z.land_lor_distr_l. change (Z.land 1 1) with 1.
  intros H. apply Z.lor_eq_0_iff in H. destruct H as (_ & H). discriminate.
Qed.

Lemma lv_land_lor_tell p : Z.land (Z.lor p c_IKCP_ASK_TELL) c_IKCP_ASK_TELL <> 0.
Proof.
  unfold c_IKCP_ASK_TELL. rewrite Z.land_lor_distr_l. change (Z.land 2 2) with 2.
  intros H. apply Z.lor_eq_0_iff in H. destruct H as (_ & H). discriminate.
Qed.

Lemma lv_land_lor_send_tell p : Z.land (Z.lor p c_IKCP_ASK_SEND) c_IKCP_ASK_TELL = Z.land p c_IKCP_ASK_TELL.
Proof.
  unfold c_IKCP_ASK_SEND, c_IKCP_ASK_TELL. rewrite Z.land_lor_distr_l. change (Z.land 1 2) with 0.
  apply Z.lor_0_r.
Qed.

Lemma lv_ph2_probe_tell k now :
  Z.land (probe (lv_ph2 k now)) c_IKCP_ASK_TELL = Z.land (probe k) c_IKCP_ASK_TELL.
Proof.
  unfold lv_ph2. destruct (rmt_wnd k =? 0); [|reflexivity].
  destruct (probe_wait k =? 0); [reflexivity|].
  destruct (itimediff now (ts_probe k) >=? 0); [|reflexivity].
  cbv zeta. ksimpl. apply lv_land_lor_send_tell.
Qed.

Lemma lv_emits_ack o k sn ts :
  (exists s, lv_emits o s /\ lv_ackseg (lv_h0 k) sn ts s) -> emits_ack o (rcv_nxt k) sn ts.
Proof.
  intros (s & (d & segs & Hd & He & Hi) & (A1 & A2 & A3 & A4 & A5 & A6)).
  exists d, segs, s. unfold lv_h0 in *. lv_segf_in A2. lv_segf_in A4. repeat split; assumption.
Qed.

(* ---- admit_segs ---- *)
Lemma lv_admit_app cv una cw : forall sq sb nxt n sq' sb' nxt' n',
  admit_segs sq sb cv una nxt cw n = (sq', sb', nxt', n') -> exists adm, sb' = sb ++ adm.
Proof.
  induction sq as [|s t IH]; intros sb nxt n sq' sb' nxt' n' H; cbn [admit_segs] in H.
  - inversion H; subst. exists []. symmetry; apply app_nil_r.
  - destruct (itimediff nxt (u32 (una + cw)) >=? 0).
    + inversion H; subst. exists []. symmetry; apply app_nil_r.
    + destruct (IH _ _ _ _ _ _ _ H) as (adm & Ha). rewrite <- app_assoc in Ha.
      eexists. exact Ha.
Qed.

Lemma lv_admit_stop cv una cw sq sb nxt n :
  itimediff nxt (u32 (una + cw)) >= 0 -> admit_segs sq sb cv una nxt cw n = (sq, sb, nxt, n).
Proof.
  intros H. destruct sq as [|s t]; [reflexivity|]. cbn [admit_segs].
  destruct (itimediff nxt (u32 (una + cw)) >=? 0) eqn:E; [reflexivity|]. lv_b2z. lia.
Qed.

(* ------------------------------------------------------------------ *)
(* C02                                                                 *)
(* ------------------------------------------------------------------ *)

(* 2. an acknowledgement is owed for every PUSH below the upper window edge *)
Lemma ack_owed :
  forall a s rest regular, seg_wf s -> s_cmd s = c_IKCP_CMD_PUSH -> s_conv s = conv (i_k a) ->
    inv (i_k a) ->
    itimediff (s_sn s) (u32 (rcv_nxt (i_k a) + rcv_wnd (i_k a))) < 0 ->
    exists a', input_seg a (encode_seg s ++ rest) regular = inl (Ok (a', rest)) /\
               acklist (i_k a') = acklist (i_k a) ++ [(s_sn s, s_ts s)].
Proof.
  intros a s rest regular Hwf Hcmd Hcv _ Hwin.
  rewrite (lv_input_seg_eq a s rest regular Hwf Hcv) by (left; exact Hcmd).
  rewrite lv_in_tail_pre. cbv zeta.
  pose proof (lv_fr_pre a s regular) as Hfr.
  assert (Hfr' : rcv_nxt (lv_pre a s regular) = rcv_nxt (i_k a) /\
                 rcv_wnd (lv_pre a s regular) = rcv_wnd (i_k a) /\
                 acklist (lv_pre a s regular) = acklist (i_k a)).
  { unfold lv_fr in Hfr. destruct regular; inversion Hfr; repeat split; reflexivity. }
  destruct Hfr' as (F1 & F2 & F3).
  rewrite Hcmd. change (c_IKCP_CMD_PUSH =? c_IKCP_CMD_ACK) with false.
  change (c_IKCP_CMD_PUSH =? c_IKCP_CMD_PUSH) with true. cbv iota.
  rewrite F1, F2, F3.
  destruct (itimediff (s_sn s) (u32 (rcv_nxt (i_k a) + rcv_wnd (i_k a))) <? 0) eqn:E; lv_b2z; [|lia].
  destruct (itimediff (s_sn s) (rcv_nxt (set_acklist (lv_pre a s regular) (acklist (i_k a) ++ [(s_sn s, s_ts s)]))) >=? 0).
  - destruct (parse_data _ _) as [[k2 f]|w] eqn:Ep.
    + eexists. split; [reflexivity|]. cbn [i_k].
      rewrite (lv_parse_data_acklist _ _ _ _ Ep). reflexivity.
    + exfalso. unfold parse_data in Ep. lv_segf_in Ep.
      destruct Hwf as (_ & _ & _ & _ & _ & _ & _ & _ & Wlen).
      destruct (_ || _) in Ep; [discriminate|].
      destruct (has_sn _ _) in Ep; [discriminate|].
      destruct (blen (s_data s) >? c_mtuLimit) eqn:El; [|discriminate]. lv_b2z. lia.
  - eexists. split; [reflexivity|]. reflexivity.
Qed.

(* 3. a flush of either kind empties the list; every pending ack is emitted or covered *)
Lemma flush_acks_owed :
  forall k ft now k' nx o, inv k -> (ft = FLUSH_FULL \/ ft = FLUSH_ACKONLY) ->
    flush k ft now = Ok (k', nx, o) ->
    acklist k' = [] /\
    (forall sn ts, In (sn, ts) (acklist k) ->
        emits_ack o (rcv_nxt k) sn ts \/ itimediff sn (rcv_nxt k) < 0) /\
    (forall sn ts l, acklist k = l ++ [(sn, ts)] -> emits_ack o (rcv_nxt k) sn ts).
Proof.
  intros k ft now k' nx o _ Hft H.
  destruct (lv_flush_spec _ _ _ _ _ _ H) as (h1 & sq & sb & nxt & ns & sb' & _ & Hacks & _).
  destruct (Hacks Hft) as (Hnil & Hall & Hlast).
  split; [exact Hnil|]. split.
  - intros sn ts Hin. destruct (Z_lt_ge_dec (itimediff sn (rcv_nxt k)) 0) as [Hlt|Hge]; [right; exact Hlt|].
    left. apply lv_emits_ack. apply Hall; assumption.
  - intros sn ts l Hl. apply lv_emits_ack. eapply Hlast; exact Hl.
Qed.

(* 4. a due segment is retransmitted by the next full flush *)
Lemma retransmit_due :
  forall k now k' nx o s, inv k -> flush k FLUSH_FULL now = Ok (k', nx, o) ->
    In s (snd_buf k) -> s_acked s <> 1 ->
    (s_xmit s = 0 \/ itimediff now (s_resendts s) >= 0) ->
    emits_push o (s_sn s) (s_frg s) (s_data s).
Proof.
  intros k now k' nx o s Hinv H Hin Hna Hdue.
  destruct (lv_flush_spec _ _ _ _ _ _ H) as (h1 & sq & sb & nxt & ns & sb' & _ & _ & _ & _ & E4 & _ & Hpush & _).
  unfold lv_ph4 in E4. change (FLUSH_FULL =? FLUSH_FULL) with true in E4. cbv iota in E4.
  destruct (lv_admit_app _ _ _ _ _ _ _ _ _ _ _ E4) as (adm & Hsb).
  assert (Hin' : In s sb) by (rewrite Hsb; apply in_or_app; left; exact Hin).
  destruct (Hpush eq_refl s Hin' (conj Hna Hdue)) as (w & (d & segs & Hd & He & Hi) & P1 & P2 & P3 & P4).
  exists d, segs, w. split; [exact Hd|]. split; [exact He|]. split; [exact Hi|].
  split; [|split; [exact P2|split; [exact P3|exact P4]]].
  rewrite P1. pose proof (I_sb_push _ Hinv) as Hp. rewrite Forall_forall in Hp. apply (Hp s Hin).
Qed.

(* 5. back-off is additive *)
Lemma backoff_step :
  forall k h resent newsegs now s a s' a', inv k ->
    s_acked s <> 1 -> s_xmit s <> 0 -> (s_fastack s <? resent) = true -> s_fastack s = 0 ->
    itimediff now (s_resendts s) >= 0 ->
    flush_seg k h resent newsegs now s a = Ok (s', a') ->
    s_rto s' = u32 (s_rto s + (if nodelay k =? 0 then rx_rto k else rx_rto k / 2)) /\
    s_resendts s' = u32 (now + s_rto s') /\ s_xmit s' = u32 (s_xmit s + 1).
Proof.
  intros k h resent newsegs now s a s' a' _ Hna Hx Hfa Hf0 Hdue H.
  rewrite lv_flush_seg_unfold in H.
  destruct (s_acked s =? 1) eqn:Ea; lv_b2z; [contradiction|].
  assert (D : lv_decide k resent newsegs now s a =
              (true, (if nodelay k =? 0 then u32 (s_rto s + rx_rto k) else u32 (s_rto s + rx_rto k / 2)),
               u32 (now + (if nodelay k =? 0 then u32 (s_rto s + rx_rto k) else u32 (s_rto s + rx_rto k / 2))), 0,
               mkFl (f_st a) (f_change a) (f_lost a + 1) (f_fast a) (f_early a) (f_next a) (f_dead a))).
  { unfold lv_decide.
    destruct (s_xmit s =? 0) eqn:E0; lv_b2z; [contradiction|].
    assert (E1 : (s_fastack s >=? resent) = false) by (rewrite Z.geb_leb; apply Z.leb_gt; lia).
    rewrite E1. cbn [andb]. rewrite Hf0. change (0 >? 0) with false. cbn [andb].
    destruct (itimediff now (s_resendts s) >=? 0) eqn:E3; lv_b2z; [reflexivity|lia]. }
  rewrite D in H.
  destruct (stage_write k _ _) as [st2|w]; [|discriminate].
  unfold lv_finish in H. inversion H; subst s' a'. unfold lv_sent. lv_segf.
  split; [destruct (nodelay k =? 0); reflexivity|]. split; reflexivity.
Qed.

(* 6. Check *)
Lemma lv_check_walk_none now : forall l tm s,
  In s l -> itimediff (s_resendts s) now <= 0 -> check_walk now l tm = None.
Proof.
  induction l as [|e t IH]; intros tm s Hin Hd; [contradiction|]. cbn [check_walk].
  destruct (itimediff (s_resendts e) now <=? 0) eqn:E; [reflexivity|]. lv_b2z.
  destruct Hin as [Heq|Hin]; [subst e; lia|]. eapply IH; eassumption.
Qed.

Lemma lv_check_walk_some now : forall l tm r,
  check_walk now l tm = Some r ->
  r <= tm /\ (0 < tm -> 0 < r) /\ forall s, In s l -> r <= itimediff (s_resendts s) now.
Proof.
  induction l as [|e t IH]; intros tm r H; cbn [check_walk] in H.
  - inversion H; subst. split; [lia|]. split; [intros Hp; exact Hp|]. intros s [].
  - destruct (itimediff (s_resendts e) now <=? 0) eqn:E; [discriminate|]. lv_b2z.
    destruct (IH _ _ H) as (H1 & H2 & H3).
    destruct (itimediff (s_resendts e) now <? tm) eqn:E2; lv_b2z.
    + split; [lia|]. split; [intros _; apply H2; lia|].
      intros s [Heq|Hin]; [subst s; lia|apply H3; exact Hin].
    + split; [lia|]. split; [exact H2|].
      intros s [Heq|Hin]; [subst s; lia|apply H3; exact Hin].
Qed.

Lemma lv_itd_neg a b : -10000 <= itimediff a b < 0 -> 0 < itimediff b a <= 10000.
Proof. unfold itimediff, i32, W32, H32. lia. Qed.

Lemma lv_itd_add now m : 0 <= m < H32 -> itimediff (u32 (now + m)) now = m.
Proof. unfold itimediff, i32, u32, W32, H32. lia. Qed.

Lemma check_sound :
  forall k now, is_u32 now -> 10 <= interval k <= 5000 -> updated k <> 0 ->
    let t := check k now in
    0 <= itimediff t now <= interval k /\
    (itimediff now (ts_flush k) >= 0 -> t = now) /\
    (forall s, In s (snd_buf k) -> -10000 <= itimediff now (ts_flush k) < 0 ->
               itimediff (s_resendts s) now <= 0 -> t = now) /\
    (forall s, In s (snd_buf k) -> -10000 <= itimediff now (ts_flush k) < 0 ->
               0 < itimediff (s_resendts s) now -> itimediff t now <= itimediff (s_resendts s) now).
Proof.
  intros k now _ Hiv Hupd. cbv zeta. unfold check.
  destruct (updated k =? 0) eqn:Eu; lv_b2z; [contradiction|].
  pose proof (itimediff_self now) as Hself.
  assert (Hnow : 0 <= itimediff now now <= interval k) by lia.
  destruct ((itimediff now (ts_flush k) >=? 10000) || (itimediff now (ts_flush k) <? -10000)) eqn:Er.
  { (* resynchronised: flush is due now *)
    rewrite Hself. change (0 >=? 0) with true. cbv iota.
    split; [exact Hnow|]. split; [reflexivity|]. split; [reflexivity|].
    intros s _ _ Hp. lia. }
  apply orb_false_iff in Er. destruct Er as (Er1 & Er2). lv_b2z.
  destruct (itimediff now (ts_flush k) >=? 0) eqn:Ed; lv_b2z.
  { split; [exact Hnow|]. split; [reflexivity|]. split; [reflexivity|].
    intros s _ _ Hp. lia. }
  assert (Htf : 0 < itimediff (ts_flush k) now <= 10000) by (apply lv_itd_neg; lia).
  destruct (check_walk now (snd_buf k) 2147483647) as [tmp|] eqn:Ew.
  - destruct (lv_check_walk_some _ _ _ _ Ew) as (W1 & W2 & W3).
    assert (W2' : 0 < tmp) by (apply W2; lia).
    set (m0 := if tmp >=? itimediff (ts_flush k) now then u32 (itimediff (ts_flush k) now) else u32 tmp).
    assert (Hm0 : 0 < m0 <= tmp /\ m0 <= itimediff (ts_flush k) now).
    { unfold m0. destruct (tmp >=? itimediff (ts_flush k) now) eqn:E; lv_b2z.
      - rewrite u32_id by (unfold W32; lia). lia.
      - rewrite u32_id by (unfold W32; lia). lia. }
    set (m1 := if m0 >=? interval k then interval k else m0).
    assert (Hm1 : 0 < m1 <= interval k /\ m1 <= m0).
    { unfold m1. destruct (m0 >=? interval k) eqn:E; lv_b2z; lia. }
    assert (Ht : itimediff (u32 (now + m1)) now = m1) by (apply lv_itd_add; unfold H32; lia).
    rewrite Ht.
    split; [lia|]. split; [intros Hge; lia|]. split.
    + intros s Hin _ Hle. specialize (W3 s Hin). lia.
    + intros s Hin _ Hp. specialize (W3 s Hin). lia.
  - split; [exact Hnow|]. split; [reflexivity|]. split; [reflexivity|].
    intros s _ _ Hp. lia.
Qed.

(* 7. Update flushes when due *)
Lemma update_flushes :
  forall k now, updated k <> 0 -> 0 <= itimediff now (ts_flush k) < 10000 ->
    exists tsf, update k now =
      match flush (set_timer k (state k) tsf (updated k)) FLUSH_FULL now with
      | Ok (k', _, o) => Ok (k', o) | Panic w => Panic w end.
Proof.
  intros k now Hupd Hd. unfold update.
  destruct (updated k =? 0) eqn:Eu; lv_b2z; [contradiction|].
  assert (Er : (itimediff now (ts_flush k) >=? 10000) || (itimediff now (ts_flush k) <? -10000) = false).
  { apply orb_false_iff. split; [rewrite Z.geb_leb; apply Z.leb_gt; lia|apply Z.ltb_ge; lia]. }
  rewrite Er.
  assert (Eg : (itimediff now (ts_flush k) >=? 0) = true) by (rewrite Z.geb_leb; apply Z.leb_le; lia).
  rewrite Eg. eexists. reflexivity.
Qed.

Lemma first_update_flushes :
  forall k now, updated k = 0 ->
    exists k0, update k now =
      match flush k0 FLUSH_FULL now with Ok (k', _, o) => Ok (k', o) | Panic w => Panic w end.
Proof.
  intros k now Hupd. unfold update. rewrite Hupd. change (0 =? 0) with true. cbv iota.
  ksimpl. rewrite itimediff_self.
  change ((0 >=? 10000) || (0 <? -10000)) with false. cbv iota.
  change (0 >=? 0) with true. cbv iota. eexists. reflexivity.
Qed.

(* ------------------------------------------------------------------ *)
(* C03                                                                 *)
(* ------------------------------------------------------------------ *)

(* 1. standstill *)
Lemma lv_cw_zero k : inv k -> rmt_wnd k = 0 -> lv_cw k = 0.
Proof.
  intros Hinv H0. unfold lv_cw. rewrite H0. pose proof (I_snd_wnd _ Hinv). pose proof (I_cwnd _ Hinv).
  cbv zeta. destruct (nocwnd k =? 0); lia.
Qed.

Lemma sender_standstill :
  forall k ft now k' nx o, inv k -> rmt_wnd k = 0 -> flush k ft now = Ok (k', nx, o) ->
    snd_nxt k' = snd_nxt k /\ snd_queue k' = snd_queue k /\ qlen (snd_buf k') = qlen (snd_buf k).
Proof.
  intros k ft now k' nx o Hinv H0 H.
  destruct (lv_flush_spec _ _ _ _ _ _ H)
    as (h1 & sq & sb & nxt & ns & sb' & _ & _ & _ & _ & E4 & Hrel & _ & _ & _ & _ & Fq & Fb & Fn).
  assert (E : (sq, sb, nxt, ns) = (snd_queue k, snd_buf k, snd_nxt k, 0)).
  { rewrite <- E4. unfold lv_ph4. destruct (ft =? FLUSH_FULL); [|reflexivity].
    apply lv_admit_stop. rewrite (lv_cw_zero k Hinv H0).
    rewrite (I_snd_nxt _ Hinv). pose proof (I_sb_wnd _ Hinv). pose proof (I_snd_wnd _ Hinv).
    pose proof (qlen_nonneg (snd_buf k)).
    rewrite itimediff_index by (unfold H32; lia). lia. }
  injection E as Eq1 Eq2 Eq3 Eq4.
  split; [rewrite Fn; exact Eq3|]. split; [rewrite Fq; exact Eq1|].
  rewrite Fb, (lv_rel_length _ _ Hrel), Eq2. reflexivity.
Qed.

(* 2. the probe timer arms ... *)
Lemma probe_arms :
  forall k ft now k' nx o, rmt_wnd k = 0 -> probe_wait k = 0 -> flush k ft now = Ok (k', nx, o) ->
    probe_wait k' = 500 /\ ts_probe k' = u32 (now + 500).
Proof.
  intros k ft now k' nx o H0 Hp H.
  destruct (lv_flush_spec _ _ _ _ _ _ H)
    as (h1 & sq & sb & nxt & ns & sb' & _ & _ & _ & _ & _ & _ & _ & _ & Fpw & Ftp & _).
  rewrite Fpw, Ftp. unfold lv_ph2. rewrite H0, Hp. change (0 =? 0) with true. cbv iota.
  ksimpl. split; reflexivity.
Qed.

(* ... and fires *)
Lemma lv_wnd_of_hdr k h1 c : lv_same_hdr (lv_h0 k) h1 -> s_wnd (lv_hdr h1 c) = wnd_unused k.
Proof. intros (_ & _ & _ & Hw & _). unfold lv_hdr. lv_segf. rewrite Hw. reflexivity. Qed.

Lemma probe_fires :
  forall k ft now k' nx o, inv k -> rmt_wnd k = 0 -> probe_wait k <> 0 ->
    itimediff now (ts_probe k) >= 0 -> flush k ft now = Ok (k', nx, o) ->
    emits_cmd o c_IKCP_CMD_WASK (wnd_unused k) /\
    probe_wait k' = Z.min (u32 (Z.max (probe_wait k) 500 + Z.max (probe_wait k) 500 / 2)) 120000 /\
    ts_probe k' = u32 (now + probe_wait k').
Proof.
  intros k ft now k' nx o _ H0 Hp Hd H.
  destruct (lv_flush_spec _ _ _ _ _ _ H)
    as (h1 & sq & sb & nxt & ns & sb' & Hsh & _ & Hwask & _ & _ & _ & _ & _ & Fpw & Ftp & _).
  assert (E2 : lv_ph2 k now =
               set_probe k (Z.lor (probe k) c_IKCP_ASK_SEND)
                 (u32 (now + Z.min (u32 (Z.max (probe_wait k) 500 + Z.max (probe_wait k) 500 / 2)) 120000))
                 (Z.min (u32 (Z.max (probe_wait k) 500 + Z.max (probe_wait k) 500 / 2)) 120000)).
  { unfold lv_ph2. rewrite H0. change (0 =? 0) with true. cbv iota.
    destruct (probe_wait k =? 0) eqn:E0; lv_b2z; [contradiction|].
    destruct (itimediff now (ts_probe k) >=? 0) eqn:E1; lv_b2z; [|lia].
    cbv zeta. unfold c_IKCP_PROBE_INIT, c_IKCP_PROBE_LIMIT.
    assert (Em : (if probe_wait k <? 500 then 500 else probe_wait k) = Z.max (probe_wait k) 500).
    { destruct (probe_wait k <? 500) eqn:E; lv_b2z; lia. }
    rewrite Em.
    assert (En : forall x, (if x >? 120000 then 120000 else x) = Z.min x 120000).
    { intros x. destruct (x >? 120000) eqn:E; lv_b2z; lia. }
    rewrite En. reflexivity. }
  rewrite E2 in Hwask, Fpw, Ftp. ksimpl_in Hwask. ksimpl_in Fpw. ksimpl_in Ftp.
  split.
  - destruct (Hwask (lv_land_lor_send _)) as (d & segs & Hd' & He & Hi).
    exists d, segs, (lv_hdr h1 c_IKCP_CMD_WASK). split; [exact Hd'|]. split; [exact He|]. split; [exact Hi|].
    split; [reflexivity|apply lv_wnd_of_hdr; exact Hsh].
  - split; [exact Fpw|]. rewrite Ftp, Fpw. reflexivity.
Qed.

(* 4. a probe is answered *)
Lemma wask_sets_tell :
  forall a s rest regular, seg_wf s -> s_cmd s = c_IKCP_CMD_WASK -> s_conv s = conv (i_k a) -> inv (i_k a) ->
    exists a', input_seg a (encode_seg s ++ rest) regular = inl (Ok (a', rest)) /\
               Z.land (probe (i_k a')) c_IKCP_ASK_TELL <> 0.
Proof.
  intros a s rest regular Hwf Hcmd Hcv _.
  rewrite (lv_input_seg_eq a s rest regular Hwf Hcv) by (right; right; left; exact Hcmd).
  rewrite lv_in_tail_pre. cbv zeta. rewrite Hcmd.
  change (c_IKCP_CMD_WASK =? c_IKCP_CMD_ACK) with false.
  change (c_IKCP_CMD_WASK =? c_IKCP_CMD_PUSH) with false.
  change (c_IKCP_CMD_WASK =? c_IKCP_CMD_WASK) with true. cbv iota.
  eexists. split; [reflexivity|]. cbn [i_k]. ksimpl. apply lv_land_lor_tell.
Qed.

Lemma tell_emits_wins :
  forall k ft now k' nx o, inv k -> Z.land (probe k) c_IKCP_ASK_TELL <> 0 ->
    flush k ft now = Ok (k', nx, o) ->
    emits_cmd o c_IKCP_CMD_WINS (wnd_unused k) /\ probe k' = 0.
Proof.
  intros k ft now k' nx o _ Ht H.
  destruct (lv_flush_spec _ _ _ _ _ _ H)
    as (h1 & sq & sb & nxt & ns & sb' & Hsh & _ & _ & Hwins & _ & _ & _ & Fp & _).
  split; [|exact Fp].
  rewrite lv_ph2_probe_tell in Hwins.
  destruct (Hwins Ht) as (d & segs & Hd' & He & Hi).
  exists d, segs, (lv_hdr h1 c_IKCP_CMD_WINS). split; [exact Hd'|]. split; [exact He|]. split; [exact Hi|].
  split; [reflexivity|apply lv_wnd_of_hdr; exact Hsh].
Qed.

(* 5. re-opening is announced *)
Lemma reopen_announced :
  forall k n k' r d, inv k -> recv k n = (k', r, d) ->
    qlen (rcv_queue k) >= rcv_wnd k -> qlen (rcv_queue k') < rcv_wnd k' ->
    Z.land (probe k') c_IKCP_ASK_TELL <> 0 /\ wnd_unused k' > 0.
Proof.
  intros k n k' r d Hinv H Hfull Hopen. unfold recv in H. cbv zeta in H.
  destruct (peeksize k <? 0); [inversion H; subst k'; lia|].
  destruct (peeksize k >? n); [inversion H; subst k'; lia|].
  destruct (pop_msg (rcv_queue k)) as [d0 rq].
  assert (Ef : (qlen (rcv_queue k) >=? rcv_wnd k) = true) by (rewrite Z.geb_leb; apply Z.leb_le; lia).
  rewrite Ef in H.
  set (k1 := do_move_ready (set_rcv_queue k rq)) in *.
  assert (Hw : rcv_wnd k1 = rcv_wnd k).
  { unfold k1. destruct (do_move_ready_fields (set_rcv_queue k rq)) as
      (_ & _ & _ & _ & _ & _ & _ & _ & _ & Hr & _). rewrite Hr. reflexivity. }
  destruct ((qlen (rcv_queue k1) <? rcv_wnd k1) && true) eqn:E.
  - inversion H; subst k' r d. clear H. apply andb_true_iff in E. destruct E as (E & _). lv_b2z.
    split; [ksimpl; apply lv_land_lor_tell|].
    unfold wnd_unused. ksimpl.
    destruct (qlen (rcv_queue k1) <? rcv_wnd k1) eqn:E'; lv_b2z; [|lia].
    pose proof (I_rcv_wnd _ Hinv). pose proof (qlen_nonneg (rcv_queue k1)).
    unfold u16. rewrite Z.mod_small by lia. lia.
  - inversion H; subst k' r d. rewrite andb_true_r in E. lv_b2z. lia.
Qed.

(* 6. a window update re-opens the sender *)
Lemma window_update :
  forall a s rest, seg_wf s -> cmd_ok (s_cmd s) -> s_conv s = conv (i_k a) -> inv (i_k a) ->
    (s_cmd s = c_IKCP_CMD_PUSH -> False) ->
    exists a', input_seg a (encode_seg s ++ rest) true = inl (Ok (a', rest)) /\ rmt_wnd (i_k a') = s_wnd s.
Proof.
  intros a s rest Hwf Hcmd Hcv _ Hnp.
  rewrite (lv_input_seg_eq a s rest true Hwf Hcv Hcmd).
  rewrite lv_in_tail_pre. cbv zeta.
  pose proof (lv_fr_pre a s true) as Hfr.
  assert (F : rmt_wnd (lv_pre a s true) = s_wnd s).
  { unfold lv_fr in Hfr. inversion Hfr. reflexivity. }
  destruct Hcmd as [E|[E|[E|E]]]; [contradiction| | |]; rewrite E.
  - change (c_IKCP_CMD_ACK =? c_IKCP_CMD_ACK) with true. cbv iota.
    pose proof (lv_fr_parse_fastack (parse_ack (lv_pre a s true) (s_sn s)) (s_sn s) (s_ts s)) as F2.
    destruct (parse_fastack (parse_ack (lv_pre a s true) (s_sn s)) (s_sn s) (s_ts s)) as [k2 f].
    cbn [fst] in F2.
    eexists. split; [reflexivity|]. cbn [i_k].
    pose proof (lv_fr_shrink_buf k2) as F3. rewrite F2, lv_fr_parse_ack in F3.
    unfold lv_fr in F3. inversion F3 as [[A1 A2 A3 A4 A5 A6 A7 A8]]. rewrite A4. exact F.
  - change (c_IKCP_CMD_WASK =? c_IKCP_CMD_ACK) with false.
    change (c_IKCP_CMD_WASK =? c_IKCP_CMD_PUSH) with false.
    change (c_IKCP_CMD_WASK =? c_IKCP_CMD_WASK) with true. cbv iota.
    eexists. split; [reflexivity|]. cbn [i_k]. ksimpl. exact F.
  - change (c_IKCP_CMD_WINS =? c_IKCP_CMD_ACK) with false.
    change (c_IKCP_CMD_WINS =? c_IKCP_CMD_PUSH) with false.
    change (c_IKCP_CMD_WINS =? c_IKCP_CMD_WASK) with false. cbv iota.
    eexists. split; [reflexivity|]. cbn [i_k]. exact F.
Qed.

Lemma resume_admits :
  forall k now k' nx o, inv k -> snd_buf k = [] -> snd_queue k <> [] -> rmt_wnd k > 0 ->
    (nocwnd k = 0 -> cwnd k > 0) ->
    flush k FLUSH_FULL now = Ok (k', nx, o) -> qlen (snd_buf k') >= 1.
Proof.
  intros k now k' nx o Hinv Hsb Hsq Hrmt Hcw H.
  destruct (lv_flush_spec _ _ _ _ _ _ H)
    as (h1 & sq & sb & nxt & ns & sb' & _ & _ & _ & _ & E4 & Hrel & _ & _ & _ & _ & Fq & Fb & Fn).
  rewrite Fb, (lv_rel_length _ _ Hrel).
  unfold lv_ph4 in E4. change (FLUSH_FULL =? FLUSH_FULL) with true in E4. cbv iota in E4.
  destruct (snd_queue k) as [|s t] eqn:Eq; [contradiction|].
  assert (Hcwr : 1 <= lv_cw k < 32768).
  { unfold lv_cw. cbv zeta. pose proof (I_snd_wnd _ Hinv).
    destruct (nocwnd k =? 0) eqn:En; lv_b2z; [specialize (Hcw En)|]; lia. }
  cbn [admit_segs] in E4.
  assert (Ec : (itimediff (snd_nxt k) (u32 (snd_una k + lv_cw k)) >=? 0) = false).
  { rewrite Z.geb_leb. apply Z.leb_gt. rewrite (I_snd_nxt _ Hinv), Hsb. change (qlen []) with 0.
    rewrite itimediff_index by (unfold H32; lia). lia. }
  rewrite Ec in E4.
  destruct (lv_admit_app _ _ _ _ _ _ _ _ _ _ _ E4) as (adm & Ha).
  rewrite Ha, !qlen_app, qlen_cons, qlen_nil. pose proof (qlen_nonneg adm). pose proof (qlen_nonneg (snd_buf k)). lia.
Qed.

(* 3. back-off bounds, for every operation sequence *)
Lemma probe_backoff :
  forall ops k k' outs, inv k -> probe_inv k -> Forall op_ok ops -> run k ops = Some (k', outs) -> probe_inv k'.
Proof.
  intros ops k k' outs _ Hp _ Hr. exact (lv_pi_run ops k k' outs Hr Hp).
Qed.

(* ------------------------------------------------------------------ *)
(* C02.1 no give-up: the state flag is write-only                      *)
(* ------------------------------------------------------------------ *)
Lemma lv_eq_mod_state_ss k st : eq_mod_state (lv_ss k st) k.
Proof. reflexivity. Qed.

Lemma lv_eq_mod_state_inv k1 k2 : eq_mod_state k1 k2 -> k1 = lv_ss k2 (state k1).
Proof.
  unfold eq_mod_state, set_state. intros H.
  transitivity (lv_ss (set_timer k1 0 (ts_flush k1) (updated k1)) (state k1)); [destruct k1; reflexivity|].
  rewrite H. reflexivity.
Qed.

Lemma no_giveup :
  forall k1 k2 o, eq_mod_state k1 k2 ->
    match step k1 o, step k2 o with
    | Ok (k1', x1), Ok (k2', x2) => eq_mod_state k1' k2' /\ x1 = x2
    | Panic w1, Panic w2 => w1 = w2
    | _, _ => False
    end.
Proof.
  intros k1 k2 o H. rewrite (lv_eq_mod_state_inv k1 k2 H).
  destruct (lv_ss_step k2 (state k1) o) as (st' & E). rewrite E.
  destruct (step k2 o) as [[k2' x2]|w].
  - split; [apply lv_eq_mod_state_ss|reflexivity].
  - reflexivity.
Qed.

Print Assumptions no_giveup.
Print Assumptions ack_owed.
Print Assumptions flush_acks_owed.
Print Assumptions retransmit_due.
Print Assumptions backoff_step.
Print Assumptions check_sound.
Print Assumptions update_flushes.
Print Assumptions first_update_flushes.
Print Assumptions sender_standstill.
Print Assumptions probe_arms.
Print Assumptions probe_fires.
Print Assumptions probe_backoff.
Print Assumptions wask_sets_tell.
Print Assumptions tell_emits_wins.
Print Assumptions reopen_announced.
Print Assumptions window_update.
Print Assumptions resume_admits.
