(* C05 - no datagram can crash or bloat the process (the protocol core's part).
   "Panic" is a value of the model: every function returns `Panic why` wherever the Go code
   would fault on a slice bound.  Statements only. *)
From Coq Require Import ZArith List Bool.
From KV.Base Require Import Consts Word.
From KV.Kcp Require Import Kcp Step InvAll.
Import ListNotations.
Local Open Scope Z_scope.

(* Input is total on ANY byte string of ANY length at ANY reachable state (including the
   flush it may trigger), keeps the invariant - hence the buffering bounds of C04 - and the
   datagrams it emits are well formed. *)
Theorem c05_input_total :
  forall k d regular nd now, inv k -> is_byte_list d ->
    exists k' r o, input k d regular nd now = Ok (k', r, o) /\ inv k' /\ Forall (dgram_ok k') o.
Proof. exact input_ok. Qed.
Print Assumptions c05_input_total.

(* ... and so is every other call, for every operation sequence (no fuel, no length bound). *)
Theorem c05_never_panics :
  forall ops k, inv k -> Forall op_ok ops -> run k ops <> None.
Proof. exact run_never_panics. Qed.
Print Assumptions c05_never_panics.

(* Bounded state after any input: at most rcv_wnd segments in each receive structure, each of
   at most mtuLimit bytes. *)
Theorem c05_bounded_state :
  forall k, inv k ->
    qlen (rcv_queue k) <= rcv_wnd k /\ qlen (rcv_buf k) <= rcv_wnd k /\
    Forall (fun s => seg_len s <= c_mtuLimit) (rcv_queue k ++ rcv_buf k).
Proof. exact inv_bounded_state. Qed.
Print Assumptions c05_bounded_state.

(* Pending acknowledgements: one datagram adds at most len/24 of them, every flush empties
   the list, and an Input that returns 0 leaves fewer than mtu/24. *)
Theorem c05_acklist :
  forall k d regular nd now k' r o, inv k -> is_byte_list d ->
    input k d regular nd now = Ok (k', r, o) ->
    alen (acklist k') <= alen (acklist k) + blen d / c_IKCP_OVERHEAD /\
    (r = 0 -> alen (acklist k') < mtu k' / c_IKCP_OVERHEAD).
Proof. exact input_acklist. Qed.
Print Assumptions c05_acklist.

Theorem c05_flush_empties_acklist :
  forall k ft now k' nx o, flush k ft now = Ok (k', nx, o) ->
    ft = FLUSH_FULL \/ ft = FLUSH_ACKONLY -> acklist k' = [].
Proof. exact flush_acklist. Qed.
Print Assumptions c05_flush_empties_acklist.

(* The faithful model of the code BEFORE the repair of F8 panicked on an oversize PUSH; the
   repaired code answers -2.  Witness kept as a regression: *)
Example c05_oversize_push_rejected :
  let hdr := le32 7 ++ [81; 0] ++ le16 32 ++ le32 0 ++ le32 0 ++ le32 0 ++ le32 2000 in
  exists k', input (kcp_new 7) (hdr ++ repeat 0 2000) true false 1000 = Ok (k', -2, []).
Proof. exact oversize_push_rejected. Qed.
