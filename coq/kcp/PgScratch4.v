From Coq Require Import ZArith List Bool Lia.
From KV.Base Require Import Consts Word WordLemmas.
From KV.Kcp Require Import Kcp Step Net InvBase InvInputBase InvInput LiveBase NetSenderBase NetReceiver
  ProgressBase PgScratch1 PgScratch2 PgScratch3.
Import ListNotations.
Local Open Scope Z_scope.

Ltac Zify.zify_post_hook ::= Z.div_mod_to_equations.

(* ================================================================== *)
(* parse_data inside the window, with indices                          *)
(* ================================================================== *)
Lemma pg_parse_data isn k sg r i :
  rb_sorted (rcv_nxt k) 0 (rcv_wnd k) (rcv_buf k) -> 1 <= rcv_wnd k < 32768 ->
  rcv_nxt k = u32 (isn + r) -> 0 <= r -> r + rcv_wnd k + 1 < H32 ->
  s_sn sg = u32 (isn + i) -> r <= i < r + rcv_wnd k -> blen (s_data sg) <= c_mtuLimit ->
  exists k' f m, parse_data k sg = Ok (k', f) /\
    0 <= m /\ rcv_nxt k' = u32 (isn + (r + m)) /\ qlen (rcv_queue k') = qlen (rcv_queue k) + m /\
    (m = 0 -> rcv_queue k' = rcv_queue k) /\
    (forall j, 0 <= j < H32 -> (j < r \/ has_sn (u32 (isn + j)) (rcv_buf k) = true) ->
               (j < r + m \/ has_sn (u32 (isn + j)) (rcv_buf k') = true)) /\
    (i < r + m \/ has_sn (u32 (isn + i)) (rcv_buf k') = true) /\ moved k' /\
    (i = r -> qlen (rcv_queue k) < rcv_wnd k -> 1 <= m) /\
    rcv_wnd k' = rcv_wnd k /\ acklist k' = acklist k /\ conv k' = conv k /\
    snd_queue k' = snd_queue k /\ snd_buf k' = snd_buf k.
Proof.
  intros Hsort Hw Hn Hr Hb Hsn Hi Hlen.
  assert (Hu : is_u32 (rcv_nxt k)) by (rewrite Hn; apply u32_range).
  pose proof (rb_sorted_length _ _ _ _ Hsort) as Hql.
  unfold parse_data. cbv zeta.
  assert (D1 : itimediff (s_sn sg) (u32 (rcv_nxt k + rcv_wnd k)) = i - (r + rcv_wnd k)).
  { rewrite Hsn, Hn, u32_add_mod. replace (isn + r + rcv_wnd k) with (isn + (r + rcv_wnd k)) by lia.
    apply itimediff_index. unfold H32 in *. lia. }
  assert (D2 : itimediff (s_sn sg) (rcv_nxt k) = i - r).
  { rewrite Hsn, Hn. apply itimediff_index. unfold H32 in *. lia. }
  rewrite D1, D2.
  assert (Ew : (i - (r + rcv_wnd k) >=? 0) || (i - r <? 0) = false).
  { apply orb_false_iff. split; [rewrite Z.geb_leb; apply Z.leb_gt; lia|apply Z.ltb_ge; lia]. }
  rewrite Ew.
  destruct (has_sn (s_sn sg) (rcv_buf k)) eqn:Eh.
  - (* already parked *)
    destruct (pg_do_move_ready isn k r Hn Hr) as (m & M1 & M2 & M3 & M0 & M4 & M5 & M6); [lia|].
    pose proof (do_move_ready_fields k) as F.
    exists (do_move_ready k), true, m. split; [reflexivity|].
    split; [lia|]. split; [exact M2|]. split; [exact M3|]. split; [intros E0; apply M0; exact E0|].
    split; [exact M4|].
    split; [apply M4; [unfold H32 in *; lia|right; rewrite <- Hsn; exact Eh]|].
    split; [exact M5|]. split.
    + intros Eir Hroom. subst i.
      assert (Eh' : has_sn (rcv_nxt k) (rcv_buf k) = true) by (rewrite Hn, <- Hsn; exact Eh).
      destruct (pg_sorted_head _ _ _ Hsort Hu Eh') as (x & t & El & Ex).
      rewrite El in M6. apply M6; assumption.
    + destruct F as (F1 & F2 & F3 & F4 & F5 & F6 & F7 & F8 & F9 & F10 & F11 & F12 & F13 & F14 & F15 & F16).
      unfold do_move_ready.
      destruct (move_ready (rcv_buf k) (rcv_queue k) (rcv_nxt k) (rcv_wnd k)) as [[rb rq] rn].
      ksimpl. repeat split; reflexivity.
  - destruct (blen (s_data sg) >? c_mtuLimit) eqn:El; lv_b2z; [lia|].
    set (k1 := set_rcv_buf k (insert_seg sg (rcv_buf k))).
    assert (Hn1 : rcv_nxt k1 = u32 (isn + r)) by exact Hn.
    assert (Hq1 : qlen (rcv_buf k1) = 1 + qlen (rcv_buf k)) by (unfold k1; ksimpl; apply insert_seg_qlen).
    destruct (pg_do_move_ready isn k1 r Hn1 Hr) as (m & M1 & M2 & M3 & M0 & M4 & M5 & M6); [lia|].
    exists (do_move_ready k1), false, m. split; [reflexivity|].
    split; [lia|]. split; [exact M2|]. split; [exact M3|]. split; [intros E0; apply M0; exact E0|].
    split.
    { intros j Hj Hc. apply M4; [exact Hj|]. destruct Hc as [Hc|Hc]; [left; exact Hc|right].
      unfold k1. ksimpl. apply pg_has_sn_insert. right; exact Hc. }
    split.
    { apply M4; [unfold H32 in *; lia|]. right. unfold k1. ksimpl. apply pg_has_sn_insert. left. exact Hsn. }
    split; [exact M5|]. split.
    + intros Eir Hroom. subst i.
      assert (Ehd : insert_seg sg (rcv_buf k) = sg :: rcv_buf k).
      { apply (pg_insert_head (rcv_nxt k) (rcv_wnd k)); [exact Hsort|exact Eh|rewrite Hn; exact Hsn|exact Hu]. }
      unfold k1 in M6. ksimpl_in M6. rewrite Ehd in M6. apply M6; [rewrite Hn; exact Hsn|exact Hroom].
    + unfold do_move_ready.
      destruct (move_ready (rcv_buf k1) (rcv_queue k1) (rcv_nxt k1) (rcv_wnd k1)) as [[rb rq] rn].
      unfold k1. ksimpl. repeat split; reflexivity.
Qed.

(* ================================================================== *)
(* B: one endpoint that only receives data                             *)
(* ================================================================== *)
Definition pg_ackp (isn : Z) (k : kcp) (p : Z * Z) : Prop :=
  is_u32 (fst p) /\ is_u32 (snd p) /\ got isn k (idx isn (fst p)).

Record pg_bi (isn : Z) (src : list (Z * bytes)) (g : receiver_ghost) (k : kcp) : Prop := mkBI {
  BI_inv : inv k;
  BI_rcv : nr_rcvk src g k;
  BI_isn : rg_isn g = isn /\ is_u32 isn;
  BI_idle : snd_queue k = [] /\ snd_buf k = [];
  BI_acks : Forall (pg_ackp isn k) (acklist k);
  BI_moved : moved k
}.

(* how the receive side of an endpoint evolves *)
Definition pg_bmono (isn : Z) (k k' : kcp) : Prop :=
  idx isn (rcv_nxt k) <= idx isn (rcv_nxt k') /\
  (forall i, got isn k i -> got isn k' i) /\
  (idx isn (rcv_nxt k') = idx isn (rcv_nxt k) -> qlen (rcv_queue k') <= qlen (rcv_queue k)) /\
  rcv_wnd k' = rcv_wnd k /\ conv k' = conv k.

Lemma pg_bmono_refl isn k : pg_bmono isn k k.
Proof. unfold pg_bmono. repeat split; auto; lia. Qed.

Lemma pg_bmono_trans isn k1 k2 k3 : pg_bmono isn k1 k2 -> pg_bmono isn k2 k3 -> pg_bmono isn k1 k3.
Proof.
  intros (A1 & A2 & A3 & A4 & A5) (B1 & B2 & B3 & B4 & B5).
  split; [lia|]. split; [auto|]. split; [intros E; assert (idx isn (rcv_nxt k2) = idx isn (rcv_nxt k1)) by lia;
    assert (idx isn (rcv_nxt k3) = idx isn (rcv_nxt k2)) by lia; specialize (A3 ltac:(assumption));
    specialize (B3 ltac:(assumption)); lia|].
  split; congruence.
Qed.

Lemma pg_bmono_rv isn k k' : pg_rv k' = pg_rv k -> conv k' = conv k -> pg_bmono isn k k'.
Proof.
  intros H Hc. pose proof H as H0. unfold pg_rv in H0. inversion H0 as [[E1 E2 E3 E4]].
  unfold pg_bmono. rewrite E1, E2. split; [lia|]. split; [intros i; apply pg_rv_got; exact H|].
  split; [lia|]. split; assumption.
Qed.

(* the index of rcv_nxt under the receiver invariant *)
Lemma pg_ridx src g k isn :
  nr_rcvk src g k -> rg_isn g = isn -> no_wrap src ->
  exists r, rcv_nxt k = u32 (isn + r) /\ 0 <= r <= Z.of_nat (length src) /\ idx isn (rcv_nxt k) = r.
Proof.
  intros ((r & done & Hrd & Hrn & _) & _) Hisn Hnw. exists (Z.of_nat r). rewrite <- Hisn.
  split; [exact Hrn|]. split; [lia|]. rewrite Hrn. apply pg_idx_u32. unfold no_wrap, H32, W32 in *. lia.
Qed.

Lemma pg_ackp_mono isn k k' p : (forall i, got isn k i -> got isn k' i) -> pg_ackp isn k p -> pg_ackp isn k' p.
Proof. intros H (A & B & C). split; [exact A|]. split; [exact B|apply H; exact C]. Qed.

(* snd side of an idle endpoint through the pre-flush part of Input *)
Lemma pg_idle_pre k k' : ns_pre k k' -> snd_queue k = [] /\ snd_buf k = [] -> snd_queue k' = [] /\ snd_buf k' = [].
Proof.
  intros ((j & Hj & F) & Hq & _) [Eq Eb]. split; [congruence|].
  rewrite Eb in F. destruct j; cbn [skipn] in F; inversion F; reflexivity.
Qed.

Lemma pg_b_seg isn src g a s rest reg :
  no_wrap src -> pg_bi isn src g (i_k a) -> is_byte_list rest ->
  seg_wf s -> s_conv s = conv (i_k a) -> cmd_ok (s_cmd s) -> genuine_seg isn src s ->
  exists a', input_seg a (encode_seg s ++ rest) reg = inl (Ok (a', rest)) /\
    pg_bi isn src g (i_k a') /\ pg_bmono isn (i_k a) (i_k a') /\
    (exists ext, acklist (i_k a') = acklist (i_k a) ++ ext) /\
    (s_cmd s = c_IKCP_CMD_PUSH -> forall i, s_sn s = u32 (isn + i) -> 0 <= i < H32 - 65536 ->
       (i < idx isn (rcv_nxt (i_k a)) \/
        (i = idx isn (rcv_nxt (i_k a)) /\ qlen (rcv_queue (i_k a)) < rcv_wnd (i_k a))) ->
       i < idx isn (rcv_nxt (i_k a')) /\ acklist (i_k a') <> []).
Proof.
  intros Hnw [Hinv Hrcv [Hisn Hisnu] Hidle Hacks Hmoved] Hrest Hwf Hcv Hcmd Hgen.
  set (k := i_k a) in *.
  destruct (pg_ridx src g k isn Hrcv Hisn Hnw) as (r & Hrn & Hr & Hridx).
  pose proof (I_rcv_wnd _ Hinv) as Hrw. pose proof (I_rb_sorted _ Hinv) as Hsort.
  assert (Hsrc : Z.of_nat (length src) < H32 - 65536) by exact Hnw.
  (* the generic facts: shape of the result, inv, receiver invariant, idle sender *)
  assert (Hbytes : is_byte_list (encode_seg s ++ rest)).
  { apply ns_is_byte_list_app. split; [apply nr_encode_bytes; exact Hwf|exact Hrest]. }
  assert (Hblen : c_IKCP_OVERHEAD <= blen (encode_seg s ++ rest)).
  { rewrite blen_app, lv_encode_len. pose proof (blen_nonneg (s_data s)). pose proof (blen_nonneg rest). lia. }
  pose proof (ii_input_seg_ok a _ reg Hinv Hbytes Hblen) as Hii.
  pose proof (nr_input_seg src g a s rest reg Hnw Hwf) as Hnr. rewrite Hisn in Hnr. specialize (Hnr Hgen Hrcv).
  pose proof (ns_input_seg_pre a _ reg Hbytes) as Hns.
  (* the explicit result *)
  assert (Hexp : exists a', input_seg a (encode_seg s ++ rest) reg = inl (Ok (a', rest)) /\
     pg_bmono isn k (i_k a') /\ moved (i_k a') /\
     (exists ext, acklist (i_k a') = acklist k ++ ext /\ Forall (pg_ackp isn (i_k a')) ext) /\
     (s_cmd s = c_IKCP_CMD_PUSH -> forall i, s_sn s = u32 (isn + i) -> 0 <= i < H32 - 65536 ->
       (i < r \/ (i = r /\ qlen (rcv_queue k) < rcv_wnd k)) ->
       i < idx isn (rcv_nxt (i_k a')) /\ acklist (i_k a') <> [])).
  { rewrite (lv_input_seg_eq a s rest reg Hwf Hcv Hcmd). rewrite lv_in_tail_pre. cbv zeta.
    pose proof (lv_fr_pre a s reg) as Hfr.
    assert (Hfr' : conv (lv_pre a s reg) = conv k /\ rcv_nxt (lv_pre a s reg) = rcv_nxt k /\
                   rcv_wnd (lv_pre a s reg) = rcv_wnd k /\ acklist (lv_pre a s reg) = acklist k /\
                   rcv_queue (lv_pre a s reg) = rcv_queue k /\ rcv_buf (lv_pre a s reg) = rcv_buf k).
    { unfold lv_fr in Hfr. fold k in Hfr. destruct reg; inversion Hfr; repeat split; reflexivity. }
    destruct Hfr' as (P1 & P2 & P3 & P4 & P5 & P6).
    set (kp := lv_pre a s reg) in *.
    assert (Hrvp : pg_rv kp = pg_rv k) by (unfold pg_rv; rewrite P2, P3, P5, P6; reflexivity).
    (* a state with the receive side and the acklist of kp *)
    assert (Hsame : forall k', pg_rv k' = pg_rv kp -> conv k' = conv kp -> acklist k' = acklist kp ->
              pg_bmono isn k k' /\ moved k' /\
              (exists ext, acklist k' = acklist k ++ ext /\ Forall (pg_ackp isn k') ext)).
    { intros k' Hrv Hc Ha. assert (Hrv' : pg_rv k' = pg_rv k) by congruence.
      split; [apply pg_bmono_rv; [exact Hrv'|congruence]|].
      split; [apply (pg_rv_moved k); assumption|].
      exists []. rewrite app_nil_r. split; [congruence|constructor]. }
    destruct Hcmd as [E|[E|[E|E]]]; rewrite E.
    - (* PUSH *)
      change (c_IKCP_CMD_PUSH =? c_IKCP_CMD_ACK) with false.
      change (c_IKCP_CMD_PUSH =? c_IKCP_CMD_PUSH) with true. cbv iota.
      destruct (Hgen E) as (i0 & Hi0 & Hsn0 & _).
      rewrite P2, P3, P4.
      assert (Hinj : forall i, s_sn s = u32 (isn + i) -> 0 <= i < H32 - 65536 -> i = Z.of_nat i0).
      { intros i Hs Hi. apply (u32_inj_index isn); [unfold H32 in *; lia|congruence]. }
      assert (D1 : itimediff (s_sn s) (u32 (rcv_nxt k + rcv_wnd k)) = Z.of_nat i0 - (r + rcv_wnd k)).
      { rewrite Hsn0, Hrn, u32_add_mod. replace (isn + r + rcv_wnd k) with (isn + (r + rcv_wnd k)) by lia.
        apply itimediff_index. unfold H32 in *. lia. }
      rewrite D1.
      destruct (Z.of_nat i0 - (r + rcv_wnd k) <? 0) eqn:Ew; lv_b2z.
      + set (k4 := set_acklist kp (acklist k ++ [(s_sn s, s_ts s)])).
        assert (D2 : itimediff (s_sn s) (rcv_nxt k4) = Z.of_nat i0 - r).
        { unfold k4. ksimpl. rewrite P2, Hsn0, Hrn. apply itimediff_index. unfold H32 in *. lia. }
        rewrite D2.
        assert (Hu32 : is_u32 (s_sn s) /\ is_u32 (s_ts s)).
        { destruct Hwf as (_ & _ & _ & _ & W5 & W6 & _). split; assumption. }
        assert (Hidx0 : idx isn (s_sn s) = Z.of_nat i0).
        { rewrite Hsn0. apply pg_idx_u32. unfold H32, W32 in *. lia. }
        destruct (Z.of_nat i0 - r >=? 0) eqn:Ed; lv_b2z.
        * (* inside the window *)
          set (sg := mkSeg (s_conv s) c_IKCP_CMD_PUSH (s_frg s) (s_wnd s) (s_ts s) (s_sn s) (s_una s) 0 0 0 0 0 (s_data s)).
          destruct (pg_parse_data isn k4 sg r (Z.of_nat i0)) as
            (k5 & f & m & Epd & M0 & M1 & M2 & Mz & M3 & M4 & M5 & M6 & M7 & M8 & M9 & _).
          { unfold k4. ksimpl. rewrite P2, P3, P6. exact Hsort. }
          { unfold k4. ksimpl. rewrite P3. exact Hrw. }
          { unfold k4. ksimpl. rewrite P2. exact Hrn. }
          { lia. }
          { unfold k4. ksimpl. rewrite P3. unfold H32 in *. lia. }
          { exact Hsn0. }
          { unfold k4. ksimpl. rewrite P3. lia. }
          { destruct Hwf as (_ & _ & _ & _ & _ & _ & _ & _ & W9). exact W9. }
          fold sg. rewrite Epd. eexists. split; [reflexivity|]. cbn [i_k].
          assert (Hr5 : idx isn (rcv_nxt k5) = r + m).
          { rewrite M1. apply pg_idx_u32. pose proof (qlen_nonneg (rcv_queue k4)).
            assert (qlen (rcv_queue k5) <= rcv_wnd k5 \/ True) by (right; exact I).
            unfold k4 in M2. ksimpl_in M2. rewrite P5 in M2.
            (* m <= number of buffered segments + 1 <= window + 1 *)
            assert (m <= rcv_wnd k + 1).
            { destruct Hnr as [_ Hnr5]. rewrite lv_input_seg_eq, lv_in_tail_pre in Hnr5 by assumption. clear Hnr5.
              destruct (Z_le_gt_dec m (rcv_wnd k + 1)) as [Hle|Hgt]; [exact Hle|exfalso].
              (* use the bound from pg_do_move_ready through pg_parse_data: not exported; bound by H32 instead *)
              clear -Hgt. exact (False_ind _ (Z.lt_irrefl 0 ltac:(fail))). }
            unfold H32, W32 in *. lia. }
          admit.
        * admit.
      + admit.
    - admit.
    - admit.
    - admit. }
  admit.
Admitted.
