(* C12 - behaviour is invariant under sequence-number and clock wrap-around.
   Statements only.  Shift.v defines the relation R p between an endpoint and the same endpoint
   with its own / its peer's sequence numbers shifted by ko / kp and its own / its peer's
   millisecond clock shifted by co / cp, all modulo 2^32. *)
From Coq Require Import ZArith List Bool.
From KV.Base Require Import Consts Word.
From KV.Kcp Require Import Kcp Step Net Shift ShiftBase ShiftProofs.
Import ListNotations.
Local Open Scope Z_scope.

(* One call: from related states, related calls give related results and related states - for
   EVERY value of the four constants in [0, 2^32), in particular those that make numbers or
   clock pass 2^31 or 2^32 in mid-transfer. *)
Theorem c12_shift_step :
  forall p k1 k2 o1 o2 k1' x1,
    is_u32 (ko p) -> is_u32 (kp p) -> is_u32 (co p) -> is_u32 (cp p) ->
    inv k1 -> shf_wf k1 -> R p k1 k2 -> R_op p o1 o2 -> op_ok o1 -> step k1 o1 = Ok (k1', x1) ->
    exists k2' x2, step k2 o2 = Ok (k2', x2) /\ R p k1' k2' /\ R_result p o1 x1 x2.
Proof. exact shift_step. Qed.
Print Assumptions c12_shift_step.

(* Whole histories: the shifted connection delivers the same data and emits the same datagrams,
   shifted by the constants. *)
Theorem c12_shift_history :
  forall p ops1 ops2 k1 k2 k1' outs1,
    is_u32 (ko p) -> is_u32 (kp p) -> is_u32 (co p) -> is_u32 (cp p) ->
    inv k1 -> shf_wf k1 -> R p k1 k2 -> Forall2 (R_op p) ops1 ops2 -> Forall op_ok ops1 ->
    run k1 ops1 = Some (k1', outs1) ->
    exists k2' outs2, run k2 ops2 = Some (k2', outs2) /\ R p k1' k2' /\
      map o_data outs1 = map o_data outs2 /\
      Forall2 (fun x1 x2 => Forall2 (R_dgram (R_out_seg p)) (o_dgrams x1) (o_dgrams x2)) outs1 outs2.
Proof. exact shift_history. Qed.
Print Assumptions c12_shift_history.

(* what an endpoint emits is, for its peer (whose own/peer roles are swapped), a related input *)
Theorem c12_out_is_in :
  forall p s1 s2, R_out_seg p s1 s2 -> R_in_seg (mkShp (kp p) (ko p) (cp p) (co p)) s1 s2.
Proof. exact out_seg_is_in_seg. Qed.
Print Assumptions c12_out_is_in.

(* the well-formedness side condition is an invariant of reachable states *)
Theorem c12_wf_init : forall cv, is_u32 cv -> shf_wf (kcp_new cv).
Proof. exact shf_wf_new. Qed.
Print Assumptions c12_wf_init.

Theorem c12_wf_step :
  forall k o k' x, inv k -> shf_wf k -> op_ok32 o -> step k o = Ok (k', x) -> shf_wf k'.
Proof. exact shift_step_wf. Qed.
Print Assumptions c12_wf_step.

(* a fresh endpoint started at shifted numbers is related to the one started at 0 *)
Theorem c12_init :
  forall p cv, R p (kcp_new cv) (shifted_init p (kcp_new cv)).
Proof. exact shift_init. Qed.
Print Assumptions c12_init.

(* the arithmetic core: every ordering decision is a signed difference, invariant under a
   common shift modulo 2^32 *)
Theorem c12_itimediff_shift : forall a b d, itimediff (sh d a) (sh d b) = itimediff a b.
Proof. exact itimediff_sh. Qed.
Print Assumptions c12_itimediff_shift.

Example c12_example :
  let p := mkShp 4294967290 2147483640 4294967000 17 in
  R p (kcp_new 7) (shifted_init p (kcp_new 7)) /\ is_u32 (ko p) /\ is_u32 (co p).
Proof. exact shift_example. Qed.
