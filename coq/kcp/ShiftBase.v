(* C12 helpers: shift arithmetic, list facts, the well-formedness side condition `shf_wf`,
   the strengthened (internal) relation `shf_R` = R + the unary facts of k1 the simulation
   needs (so that no invariant has to be re-proved for intermediate states), its setters,
   datagram / staging-buffer relations, and the header round trip. *)
From Coq Require Import ZArith List Bool Lia.
From KV.Base Require Import Consts Word WordLemmas.
From KV.Kcp Require Import Kcp Step Net InvBase Shift.
Import ListNotations.
Local Open Scope Z_scope.

Ltac Zify.zify_post_hook ::= Z.div_mod_to_equations.

(* ------------------------------------------------------------------ *)
(* shift arithmetic                                                    *)
(* ------------------------------------------------------------------ *)
Lemma itimediff_sh : forall a b d, itimediff (sh d a) (sh d b) = itimediff a b.
Proof. intros a b d. unfold sh. apply itimediff_shift. Qed.

Lemma shf_sh_u32 d a : is_u32 (sh d a).
Proof. unfold sh, is_u32. apply u32_range. Qed.

Lemma shf_sh_add d a c : u32 (sh d a + c) = sh d (u32 (a + c)).
Proof. unfold sh. rewrite !u32_add_mod. f_equal. lia. Qed.

Lemma shf_sh_eqb d a b : is_u32 a -> is_u32 b -> (sh d a =? sh d b) = (a =? b).
Proof.
  unfold sh, u32, is_u32, W32. intros Ha Hb.
  destruct (a =? b) eqn:E.
  - apply Z.eqb_eq in E. subst b. apply Z.eqb_refl.
  - apply Z.eqb_neq in E. apply Z.eqb_neq. lia.
Qed.

Lemma shf_sh_sub d a b : u32 (sh d a - sh d b) = u32 (a - b).
Proof. unfold sh, u32, W32. lia. Qed.

Lemma shf_itd_add d a b c : itimediff (sh d a) (u32 (sh d b + c)) = itimediff a (u32 (b + c)).
Proof. rewrite shf_sh_add. apply itimediff_sh. Qed.

Lemma shf_itd_add_l d a b c : itimediff (u32 (sh d a + c)) (sh d b) = itimediff (u32 (a + c)) b.
Proof. rewrite shf_sh_add. apply itimediff_sh. Qed.

Lemma shf_u32_0 : is_u32 0.
Proof. unfold is_u32, W32. lia. Qed.

(* ------------------------------------------------------------------ *)
(* lists                                                               *)
(* ------------------------------------------------------------------ *)
Lemma shf_F2_len (A B : Type) (Q : A -> B -> Prop) l1 l2 : Forall2 Q l1 l2 -> length l1 = length l2.
Proof. induction 1; cbn [length]; congruence. Qed.

Lemma shf_F2_qlen (Q : seg -> seg -> Prop) l1 l2 : Forall2 Q l1 l2 -> qlen l1 = qlen l2.
Proof. intros H. unfold qlen. rewrite (shf_F2_len _ _ _ _ _ H). reflexivity. Qed.

Lemma shf_F2_snoc (A B : Type) (Q : A -> B -> Prop) l1 l2 a b :
  Forall2 Q l1 l2 -> Q a b -> Forall2 Q (l1 ++ [a]) (l2 ++ [b]).
Proof. intros H Hq. apply Forall2_app; [exact H|]. constructor; [exact Hq|constructor]. Qed.

Lemma shf_F2_rev (A B : Type) (Q : A -> B -> Prop) l1 l2 :
  Forall2 Q l1 l2 -> Forall2 Q (rev l1) (rev l2).
Proof.
  induction 1 as [|a b t1 t2 Hq Ht IH]; cbn [rev]; [constructor|].
  apply shf_F2_snoc; assumption.
Qed.

Lemma shf_F2_impl (A B : Type) (Q1 Q2 : A -> B -> Prop) :
  (forall a b, Q1 a b -> Q2 a b) -> forall l1 l2, Forall2 Q1 l1 l2 -> Forall2 Q2 l1 l2.
Proof. intros H l1 l2 HF. induction HF; constructor; auto. Qed.

Lemma shf_F2_left (A B : Type) (Q : A -> B -> Prop) (P : A -> Prop) :
  (forall a b, Q a b -> P a) -> forall l1 l2, Forall2 Q l1 l2 -> Forall P l1.
Proof. intros H l1 l2 HF. induction HF; constructor; eauto. Qed.

Lemma shf_F2_and (A B : Type) (Q : A -> B -> Prop) (P : A -> Prop) l1 l2 :
  Forall2 Q l1 l2 -> Forall P l1 -> Forall2 (fun a b => Q a b /\ P a) l1 l2.
Proof.
  induction 1 as [|a b t1 t2 Hq Ht IH]; intros HP; [constructor|].
  inversion HP as [|x y Hx Hy]; subst x y. constructor; [split; assumption|apply IH; exact Hy].
Qed.

Lemma shf_bl_app a b : is_byte_list (a ++ b) <-> is_byte_list a /\ is_byte_list b.
Proof. unfold is_byte_list. apply Forall_app. Qed.

Lemma shf_bl_take n b : is_byte_list b -> is_byte_list (take n b).
Proof.
  unfold is_byte_list, take. intros H. rewrite <- (firstn_skipn (Z.to_nat n) b) in H.
  apply Forall_app in H. exact (proj1 H).
Qed.

Lemma shf_bl_drop n b : is_byte_list b -> is_byte_list (drop n b).
Proof.
  unfold is_byte_list, drop. intros H. rewrite <- (firstn_skipn (Z.to_nat n) b) in H.
  apply Forall_app in H. exact (proj2 H).
Qed.

Lemma shf_bl_nil : is_byte_list [].
Proof. constructor. Qed.

(* ------------------------------------------------------------------ *)
(* the side condition of C12 (an invariant of reachable states)        *)
(* ------------------------------------------------------------------ *)
Definition shf_segwf (s : seg) : Prop := 0 <= s_frg s < 256 /\ is_byte_list (s_data s).

Record shf_wf (k : kcp) : Prop := mkWf {
  W_conv : is_u32 (conv k);
  W_sq : Forall shf_segwf (snd_queue k);
  W_sb : Forall shf_segwf (snd_buf k);
  W_al : Forall (fun a => is_u32 (fst a) /\ is_u32 (snd a)) (acklist k)
}.

Lemma shf_wf_new : forall cv, is_u32 cv -> shf_wf (kcp_new cv).
Proof. intros cv H. unfold kcp_new; constructor; ksimpl; [exact H|constructor|constructor|constructor]. Qed.

(* ------------------------------------------------------------------ *)
(* the strengthened relation                                           *)
(* ------------------------------------------------------------------ *)
Definition shf_dwf (s : seg) : Prop :=
  0 <= s_frg s < 256 /\ is_byte_list (s_data s) /\ blen (s_data s) <= c_mtuLimit.

Definition shf_sq (s1 s2 : seg) : Prop :=
  R_sq s1 s2 /\ shf_dwf s1 /\ s_xmit s1 = 0 /\ s_acked s1 = 0.

Definition shf_sb (p : shp) (s1 s2 : seg) : Prop :=
  R_sb p s1 s2 /\ shf_dwf s1 /\ s_cmd s1 = c_IKCP_CMD_PUSH /\ is_u32 (s_conv s1) /\ is_u32 (s_sn s1).

Definition shf_rb (p : shp) (s1 s2 : seg) : Prop := R_rcv p s1 s2 /\ is_u32 (s_sn s1).

Definition shf_al (p : shp) (a1 a2 : Z * Z) : Prop :=
  R_ack p a1 a2 /\ is_u32 (fst a1) /\ is_u32 (snd a1).

Definition shf_cfg (k1 k2 : kcp) : Prop :=
  conv k1 = conv k2 /\ mtu k1 = mtu k2 /\ mss k1 = mss k2 /\ state k1 = state k2 /\
  snd_wnd k1 = snd_wnd k2 /\ rcv_wnd k1 = rcv_wnd k2 /\ rmt_wnd k1 = rmt_wnd k2 /\
  cwnd k1 = cwnd k2 /\ incr k1 = incr k2 /\ ssthresh k1 = ssthresh k2 /\
  rx_rttvar k1 = rx_rttvar k2 /\ rx_srtt k1 = rx_srtt k2 /\ rx_rto k1 = rx_rto k2 /\
  rx_minrto k1 = rx_minrto k2 /\ probe k1 = probe k2 /\ probe_wait k1 = probe_wait k2 /\
  interval k1 = interval k2 /\ nodelay k1 = nodelay k2 /\ updated k1 = updated k2 /\
  dead_link k1 = dead_link k2 /\ fastresend k1 = fastresend k2 /\ nocwnd k1 = nocwnd k2 /\
  stream k1 = stream k2 /\ buflen k1 = buflen k2.

Record shf_R (p : shp) (k1 k2 : kcp) : Prop := mkSR {
  G_cfg : shf_cfg k1 k2;
  G_una : snd_una k2 = sh (ko p) (snd_una k1);
  G_nxt : snd_nxt k2 = sh (ko p) (snd_nxt k1);
  G_rnxt : rcv_nxt k2 = sh (kp p) (rcv_nxt k1);
  G_tsprobe : probe_wait k1 <> 0 -> ts_probe k2 = sh (co p) (ts_probe k1);
  G_tsflush : updated k1 <> 0 -> ts_flush k2 = sh (co p) (ts_flush k1);
  G_tsflush0 : updated k1 = 0 -> ts_flush k2 = ts_flush k1;
  G_sndq : Forall2 shf_sq (snd_queue k1) (snd_queue k2);
  G_sndb : Forall2 (shf_sb p) (snd_buf k1) (snd_buf k2);
  G_rq : Forall2 (R_rcv p) (rcv_queue k1) (rcv_queue k2);
  G_rb : Forall2 (shf_rb p) (rcv_buf k1) (rcv_buf k2);
  G_al : Forall2 (shf_al p) (acklist k1) (acklist k2);
  G_conv32 : is_u32 (conv k1);
  G_nxt32 : is_u32 (snd_nxt k1);
  G_rnxt32 : is_u32 (rcv_nxt k1)
}.

(* names for the 24 configuration equalities *)
Ltac shf_dcfg H :=
  destruct H as (Cconv & Cmtu & Cmss & Cstate & Csw & Crw & Crmt & Ccwnd & Cincr & Csst & Cvar &
                 Csrtt & Crto & Cminrto & Cprobe & Cpw & Civ & Cnd & Cupd & Cdl & Cfr & Cnc &
                 Cstream & Cbl).

Ltac shf_dR H :=
  let c := fresh "Hcfg" in
  destruct H as [c Huna Hnxt Hrnxt Htsp Htsf Htsf0 Hsq Hsb Hrq Hrb Hal Hc32 Hn32 Hr32];
  shf_dcfg c.

(* splits syntactic conjunctions only (does not unfold is_u32) *)
Ltac shf_split := repeat match goal with |- _ /\ _ => split end.

Ltac shf_cfg_tac :=
  unfold shf_cfg; ksimpl; repeat split; try assumption; try reflexivity.

(* contiguous numbering from an is_u32 base gives is_u32 numbers *)
Lemma shf_contig_u32 : forall l b, is_u32 b -> contiguous b l -> Forall (fun s => is_u32 (s_sn s)) l.
Proof.
  induction l as [|s t IH]; intros b Hb Hc; [constructor|].
  cbn [contiguous] in Hc. destruct Hc as [Hs Ht]. constructor; [rewrite Hs; exact Hb|].
  apply IH with (u32 (b + 1)); [apply u32_range|exact Ht].
Qed.

Lemma shf_Forall_and3 (A : Type) (P1 P2 P3 : A -> Prop) l :
  Forall P1 l -> Forall P2 l -> Forall P3 l -> Forall (fun a => P1 a /\ P2 a /\ P3 a) l.
Proof.
  intros H1 H2 H3. rewrite Forall_forall in *. intros a Ha. auto.
Qed.

Lemma shf_mss_le k : inv k -> mss k <= c_mtuLimit.
Proof. intros H. pose proof (I_mtu _ H). pose proof (I_mss _ H). unfold c_IKCP_OVERHEAD in *. lia. Qed.

(* entry: R + inv + wf give the strengthened relation *)
Lemma shf_R_of_R p k1 k2 : inv k1 -> shf_wf k1 -> R p k1 k2 -> shf_R p k1 k2.
Proof.
  intros Hi Hw HR. destruct HR as [c Huna Hnxt Hrnxt Htsp Htsf Htsf0 Hsq Hsb Hrq Hrb Hal].
  pose proof (shf_mss_le _ Hi) as Hmss.
  constructor; try assumption.
  - (* snd_queue *)
    assert (HF : Forall (fun s => shf_dwf s /\ s_xmit s = 0 /\ s_acked s = 0) (snd_queue k1)).
    { pose proof (I_sq_len _ Hi) as H1. pose proof (I_sq_fresh _ Hi) as H2. pose proof (W_sq _ Hw) as H3.
      rewrite Forall_forall in *. intros s Hs. specialize (H1 s Hs). specialize (H2 s Hs).
      specialize (H3 s Hs). cbv beta in *. unfold shf_dwf, shf_segwf, seg_len in *.
      destruct H3 as [H3 H3']. split; [split; [exact H3|split; [exact H3'|lia]]|exact H2]. }
    apply (shf_F2_and _ _ _ _ _ _ Hsq) in HF.
    eapply shf_F2_impl; [|exact HF]. cbv beta. intros a b (H1 & H2 & H3 & H4). unfold shf_sq. auto.
  - (* snd_buf *)
    assert (HF : Forall (fun s => shf_dwf s /\ s_cmd s = c_IKCP_CMD_PUSH /\ is_u32 (s_conv s) /\ is_u32 (s_sn s)) (snd_buf k1)).
    { pose proof (I_sb_len _ Hi) as H1. pose proof (I_sb_push _ Hi) as H2. pose proof (W_sb _ Hw) as H3.
      pose proof (shf_contig_u32 _ _ (I_una_u32 _ Hi) (I_sb_contig _ Hi)) as H4.
      pose proof (W_conv _ Hw) as H5.
      rewrite Forall_forall in *. intros s Hs. specialize (H1 s Hs). specialize (H2 s Hs).
      specialize (H3 s Hs). specialize (H4 s Hs). cbv beta in *.
      unfold shf_dwf, shf_segwf, seg_len in *. destruct H2 as [H2 H2']. rewrite H2.
      destruct H3 as [H3 H3']. split; [split; [exact H3|split; [exact H3'|lia]]|].
      split; [exact H2'|split; [exact H5|exact H4]]. }
    apply (shf_F2_and _ _ _ _ _ _ Hsb) in HF.
    eapply shf_F2_impl; [|exact HF]. cbv beta. intros a b (H1 & H2 & H3 & H4 & H5). unfold shf_sb. auto.
  - (* rcv_buf *)
    pose proof (rb_sorted_Forall_u32 _ _ _ _ (I_rb_sorted _ Hi)) as HF.
    apply (shf_F2_and _ _ _ _ _ _ Hrb) in HF. exact HF.
  - (* acklist *)
    pose proof (W_al _ Hw) as HF.
    apply (shf_F2_and _ _ _ _ _ _ Hal) in HF. exact HF.
  - exact (W_conv _ Hw).
  - rewrite (I_snd_nxt _ Hi). apply u32_range.
  - exact (I_rnxt_u32 _ Hi).
Qed.

(* exit *)
Lemma shf_R_to_R p k1 k2 : shf_R p k1 k2 -> R p k1 k2.
Proof.
  intros H. destruct H as [c Huna Hnxt Hrnxt Htsp Htsf Htsf0 Hsq Hsb Hrq Hrb Hal Hc32 Hn32 Hr32].
  constructor; try assumption.
  - eapply shf_F2_impl; [|exact Hsq]. intros a b Hq. exact (proj1 Hq).
  - eapply shf_F2_impl; [|exact Hsb]. intros a b Hq. exact (proj1 Hq).
  - eapply shf_F2_impl; [|exact Hrb]. intros a b Hq. exact (proj1 Hq).
  - eapply shf_F2_impl; [|exact Hal]. intros a b Hq. exact (proj1 Hq).
Qed.

Lemma shf_R_to_wf p k1 k2 : shf_R p k1 k2 -> shf_wf k1.
Proof.
  intros H. destruct H as [c Huna Hnxt Hrnxt Htsp Htsf Htsf0 Hsq Hsb Hrq Hrb Hal Hc32 Hn32 Hr32].
  constructor.
  - exact Hc32.
  - eapply shf_F2_left; [|exact Hsq]. intros a b (_ & (H1 & H2 & _) & _). split; assumption.
  - eapply shf_F2_left; [|exact Hsb]. intros a b (_ & (H1 & H2 & _) & _). split; assumption.
  - eapply shf_F2_left; [|exact Hal]. intros a b (_ & H1). exact H1.
Qed.

(* ------------------------------------------------------------------ *)
(* setters                                                             *)
(* ------------------------------------------------------------------ *)
Ltac shf_set_tac H :=
  shf_dR H; constructor; ksimpl; try assumption; try (shf_cfg_tac; fail).

Lemma shf_R_set_queues p k1 k2 sq1 sq2 rq1 rq2 sb1 sb2 rb1 rb2 :
  shf_R p k1 k2 -> Forall2 shf_sq sq1 sq2 -> Forall2 (R_rcv p) rq1 rq2 ->
  Forall2 (shf_sb p) sb1 sb2 -> Forall2 (shf_rb p) rb1 rb2 ->
  shf_R p (set_queues k1 sq1 rq1 sb1 rb1) (set_queues k2 sq2 rq2 sb2 rb2).
Proof. intros H H1 H2 H3 H4. shf_set_tac H. Qed.

Lemma shf_R_set_snd_queue p k1 k2 q1 q2 :
  shf_R p k1 k2 -> Forall2 shf_sq q1 q2 -> shf_R p (set_snd_queue k1 q1) (set_snd_queue k2 q2).
Proof. intros H H1. shf_set_tac H. Qed.

Lemma shf_R_set_rcv_queue p k1 k2 q1 q2 :
  shf_R p k1 k2 -> Forall2 (R_rcv p) q1 q2 -> shf_R p (set_rcv_queue k1 q1) (set_rcv_queue k2 q2).
Proof. intros H H1. shf_set_tac H. Qed.

Lemma shf_R_set_snd_buf p k1 k2 q1 q2 :
  shf_R p k1 k2 -> Forall2 (shf_sb p) q1 q2 -> shf_R p (set_snd_buf k1 q1) (set_snd_buf k2 q2).
Proof. intros H H1. shf_set_tac H. Qed.

Lemma shf_R_set_rcv_buf p k1 k2 q1 q2 :
  shf_R p k1 k2 -> Forall2 (shf_rb p) q1 q2 -> shf_R p (set_rcv_buf k1 q1) (set_rcv_buf k2 q2).
Proof. intros H H1. shf_set_tac H. Qed.

Lemma shf_R_set_snd_una p k1 k2 u1 u2 :
  shf_R p k1 k2 -> u2 = sh (ko p) u1 -> shf_R p (set_snd_una k1 u1) (set_snd_una k2 u2).
Proof. intros H H1. shf_set_tac H. Qed.

Lemma shf_R_set_snd_nxt p k1 k2 u1 u2 :
  shf_R p k1 k2 -> u2 = sh (ko p) u1 -> is_u32 u1 -> shf_R p (set_snd_nxt k1 u1) (set_snd_nxt k2 u2).
Proof. intros H H1 H2. shf_set_tac H. Qed.

Lemma shf_R_set_rcv_nxt p k1 k2 u1 u2 :
  shf_R p k1 k2 -> u2 = sh (kp p) u1 -> is_u32 u1 -> shf_R p (set_rcv_nxt k1 u1) (set_rcv_nxt k2 u2).
Proof. intros H H1 H2. shf_set_tac H. Qed.

Lemma shf_R_set_rtt p k1 k2 a b c d :
  shf_R p k1 k2 -> shf_R p (set_rtt k1 a b c d) (set_rtt k2 a b c d).
Proof. intros H. shf_set_tac H. Qed.

Lemma shf_R_set_cc p k1 k2 a b c d :
  shf_R p k1 k2 -> shf_R p (set_cc k1 a b c d) (set_cc k2 a b c d).
Proof. intros H. shf_set_tac H. Qed.

Lemma shf_R_set_rmt_wnd p k1 k2 w :
  shf_R p k1 k2 -> shf_R p (set_rmt_wnd k1 w) (set_rmt_wnd k2 w).
Proof. intros H. shf_set_tac H. Qed.

Lemma shf_R_set_probe p k1 k2 pr t1 t2 pw :
  shf_R p k1 k2 -> (pw <> 0 -> t2 = sh (co p) t1) ->
  shf_R p (set_probe k1 pr t1 pw) (set_probe k2 pr t2 pw).
Proof. intros H H1. shf_set_tac H. Qed.

Lemma shf_R_set_probe_flags p k1 k2 pr :
  shf_R p k1 k2 -> shf_R p (set_probe_flags k1 pr) (set_probe_flags k2 pr).
Proof. intros H. shf_set_tac H. Qed.

Lemma shf_R_set_timer p k1 k2 st t1 t2 upd :
  shf_R p k1 k2 -> (upd <> 0 -> t2 = sh (co p) t1) -> (upd = 0 -> t2 = t1) ->
  shf_R p (set_timer k1 st t1 upd) (set_timer k2 st t2 upd).
Proof. intros H H1 H2. shf_set_tac H. Qed.

Lemma shf_R_set_acklist p k1 k2 l1 l2 :
  shf_R p k1 k2 -> Forall2 (shf_al p) l1 l2 -> shf_R p (set_acklist k1 l1) (set_acklist k2 l2).
Proof. intros H H1. shf_set_tac H. Qed.

Lemma shf_R_set_config p k1 k2 mt ms sw rw iv nd fr nc stm bl :
  shf_R p k1 k2 ->
  shf_R p (set_config k1 mt ms sw rw iv nd fr nc stm bl) (set_config k2 mt ms sw rw iv nd fr nc stm bl).
Proof. intros H. shf_set_tac H. Qed.

(* ------------------------------------------------------------------ *)
(* datagrams and the staging buffer                                    *)
(* ------------------------------------------------------------------ *)
Lemma shf_encode_len s : blen (encode_seg s) = 24 + blen (s_data s).
Proof. unfold encode_seg, le32, le16, blen. rewrite !app_length. cbn [length]. lia. Qed.

Definition shf_dg (p : shp) : bytes -> bytes -> Prop := R_dgram (R_out_seg p).

Lemma shf_dg_nil p : shf_dg p [] [].
Proof. exists [], []. repeat split; constructor. Qed.

Lemma shf_dg_snoc p d1 d2 s1 s2 :
  shf_dg p d1 d2 -> seg_wf s1 -> seg_wf s2 -> R_out_seg p s1 s2 ->
  shf_dg p (d1 ++ encode_seg s1) (d2 ++ encode_seg s2).
Proof.
  intros (l1 & l2 & E1 & E2 & W1 & W2 & HF) Hw1 Hw2 Hr.
  exists (l1 ++ [s1]), (l2 ++ [s2]).
  rewrite !map_app, !concat_app. cbn [map concat]. rewrite !app_nil_r.
  split; [rewrite E1; reflexivity|]. split; [rewrite E2; reflexivity|].
  split; [apply Forall_app; split; [exact W1|constructor; [exact Hw1|constructor]]|].
  split; [apply Forall_app; split; [exact W2|constructor; [exact Hw2|constructor]]|].
  apply shf_F2_snoc; assumption.
Qed.

Lemma shf_concat_blen p l1 l2 :
  Forall2 (R_out_seg p) l1 l2 -> blen (concat (map encode_seg l1)) = blen (concat (map encode_seg l2)).
Proof.
  induction 1 as [|s1 s2 t1 t2 Hr Ht IH]; [reflexivity|].
  cbn [map concat]. rewrite !blen_app, !shf_encode_len, IH.
  destruct Hr as ((_ & _ & _ & _ & Hd) & _). rewrite Hd. reflexivity.
Qed.

Lemma shf_dg_blen p d1 d2 : shf_dg p d1 d2 -> blen d1 = blen d2.
Proof. intros (l1 & l2 & E1 & E2 & _ & _ & HF). subst. eapply shf_concat_blen; exact HF. Qed.

Definition shf_st (p : shp) (st1 st2 : stage) : Prop :=
  shf_dg p (cur st1) (cur st2) /\ Forall2 (shf_dg p) (outs st1) (outs st2).

Lemma shf_st0 p : shf_st p (mkStage [] []) (mkStage [] []).
Proof. split; [apply shf_dg_nil|constructor]. Qed.

Lemma shf_make_space p k1 k2 st1 st2 sp :
  mtu k1 = mtu k2 -> shf_st p st1 st2 -> shf_st p (make_space k1 st1 sp) (make_space k2 st2 sp).
Proof.
  intros Hm [Hc Ho]. unfold make_space. rewrite <- Hm, <- (shf_dg_blen _ _ _ Hc).
  destruct (blen (cur st1) + sp >? mtu k1).
  - split; cbn [cur outs]; [apply shf_dg_nil|constructor; assumption].
  - split; assumption.
Qed.

Lemma shf_stage_write p k1 k2 st1 st2 s1 s2 st1' :
  buflen k1 = buflen k2 -> shf_st p st1 st2 -> seg_wf s1 -> seg_wf s2 -> R_out_seg p s1 s2 ->
  stage_write k1 st1 s1 = Ok st1' ->
  exists st2', stage_write k2 st2 s2 = Ok st2' /\ shf_st p st1' st2'.
Proof.
  intros Hb [Hc Ho] Hw1 Hw2 Hr. unfold stage_write.
  pose proof Hr as ((_ & _ & _ & _ & Hd) & _).
  rewrite <- Hb, <- (shf_dg_blen _ _ _ Hc), <- Hd.
  destruct (blen (cur st1) + c_IKCP_OVERHEAD + blen (s_data s1) >? buflen k1); [discriminate|].
  intros E. inversion E; subst st1'. eexists. split; [reflexivity|].
  split; cbn [cur outs]; [apply shf_dg_snoc; assumption|exact Ho].
Qed.

Lemma shf_flush_buffer p st1 st2 :
  shf_st p st1 st2 -> Forall2 (shf_dg p) (flush_buffer st1) (flush_buffer st2).
Proof.
  intros [Hc Ho]. unfold flush_buffer. rewrite <- (shf_dg_blen _ _ _ Hc).
  destruct (blen (cur st1) >? 0); apply shf_F2_rev; [constructor; assumption|exact Ho].
Qed.

(* ------------------------------------------------------------------ *)
(* header round trip                                                   *)
(* ------------------------------------------------------------------ *)
Lemma shf_decode s rest :
  seg_wf s ->
  rd32 (encode_seg s ++ rest) = s_conv s /\
  nth 4 (encode_seg s ++ rest) 0 = s_cmd s /\
  nth 5 (encode_seg s ++ rest) 0 = s_frg s /\
  rd16 (skipn 6 (encode_seg s ++ rest)) = s_wnd s /\
  rd32 (skipn 8 (encode_seg s ++ rest)) = s_ts s /\
  rd32 (skipn 12 (encode_seg s ++ rest)) = s_sn s /\
  rd32 (skipn 16 (encode_seg s ++ rest)) = s_una s /\
  rd32 (skipn 20 (encode_seg s ++ rest)) = blen (s_data s) /\
  skipn 24 (encode_seg s ++ rest) = s_data s ++ rest.
Proof.
  intros (H1 & H2 & H3 & H4 & H5 & H6 & H7 & H8 & H9).
  pose proof (blen_nonneg (s_data s)) as H10.
  unfold is_u32, W32, c_mtuLimit in *.
  unfold encode_seg, le32, le16. cbn [app skipn nth rd32 rd16].
  repeat split; lia.
Qed.

Lemma shf_take_app (d r : bytes) : take (blen d) (d ++ r) = d.
Proof.
  unfold take, blen. rewrite Nat2Z.id, firstn_app, firstn_all, Nat.sub_diag.
  cbn [firstn]. apply app_nil_r.
Qed.

Lemma shf_drop_app (d r : bytes) : drop (blen d) (d ++ r) = r.
Proof.
  unfold drop, blen. rewrite Nat2Z.id, skipn_app, skipn_all, Nat.sub_diag. reflexivity.
Qed.

Lemma shf_encode_bytes s : seg_wf s -> is_byte_list (encode_seg s).
Proof.
  intros (H1 & H2 & H3 & H4 & H5 & H6 & H7 & H8 & H9).
  unfold encode_seg, le32, le16. unfold is_byte_list in *.
  repeat (apply Forall_cons; [lia|]). exact H8.
Qed.
