(* Helper lemmas for NetReceiver.v (all names prefixed nr_, except the four list lemmas the
   composition uses: messages_app, messages_prefix, messages_app_prefix,
   stream_bytes_firstn_prefix, concat_messages_boundary):
   - list facts: firstn/skipn arithmetic, `messages`, `at_boundary`, the fragment chain;
   - wire round trip: the header decoding of `input_seg` applied to `encode_seg s ++ rest`;
   - frame lemmas: what does not touch rcv_nxt / rcv_queue / rcv_buf (`nr_rcv`);
   - the receive-side invariant `nr_rcvk` across move_ready / parse_data / pop_msg. *)
From Coq Require Import ZArith List Bool Lia.
From KV.Base Require Import Consts Word WordLemmas.
From KV.Kcp Require Import Kcp Step Net InvBase InvApi.
Import ListNotations.
Local Open Scope Z_scope.

Ltac Zify.zify_post_hook ::= Z.div_mod_to_equations.

(* ------------------------------------------------------------------ *)
(* 1. plain list facts                                                 *)
(* ------------------------------------------------------------------ *)
Lemma nr_firstn_len_app (T : Type) (A B : list T) : firstn (length A) (A ++ B) = A.
Proof. induction A as [|x t IH]; [reflexivity|]. cbn [length app firstn]. rewrite IH. reflexivity. Qed.

Lemma nr_skipn_len_app (T : Type) (A B : list T) : skipn (length A) (A ++ B) = B.
Proof. induction A as [|x t IH]; [reflexivity|]. cbn [length app skipn]. exact IH. Qed.

Lemma nr_firstn_add (T : Type) : forall d n (l : list T),
  firstn (d + n) l = firstn d l ++ firstn n (skipn d l).
Proof.
  induction d as [|d IH]; intros n l; [reflexivity|].
  destruct l as [|x t].
  - cbn [skipn]. rewrite !firstn_nil. reflexivity.
  - cbn [Nat.add firstn skipn app]. rewrite IH. reflexivity.
Qed.

Lemma nr_skipn_add (T : Type) : forall d n (l : list T), skipn n (skipn d l) = skipn (d + n) l.
Proof.
  induction d as [|d IH]; intros n l; [reflexivity|].
  destruct l as [|x t].
  - cbn [skipn]. rewrite !skipn_nil. reflexivity.
  - cbn [Nat.add skipn]. apply IH.
Qed.

Lemma nr_nth_error_skipn (T : Type) : forall d n (l : list T),
  nth_error (skipn d l) n = nth_error l (d + n).
Proof.
  induction d as [|d IH]; intros n l; [reflexivity|].
  destruct l as [|x t].
  - cbn [skipn]. destruct n; reflexivity.
  - cbn [Nat.add skipn nth_error]. apply IH.
Qed.

Lemma nr_firstn_snoc (T : Type) : forall n (l : list T) x,
  nth_error l n = Some x -> firstn (S n) l = firstn n l ++ [x].
Proof.
  induction n as [|n IH]; intros l x H; destruct l as [|y t]; try discriminate.
  - cbn [nth_error] in H. inversion H; subst. reflexivity.
  - cbn [nth_error] in H. change (firstn (S (S n)) (y :: t)) with (y :: firstn (S n) t).
    rewrite (IH _ _ H). reflexivity.
Qed.

Lemma nr_nth_error_firstn (T : Type) : forall n (l : list T) i p,
  nth_error (firstn n l) i = Some p -> nth_error l i = Some p.
Proof.
  induction n as [|n IH]; intros l i p H.
  - destruct i; discriminate.
  - destruct l as [|x t]; [destruct i; discriminate|].
    destruct i as [|i]; [exact H|]. cbn [firstn nth_error] in *. exact (IH _ _ _ H).
Qed.

Lemma nr_in_firstn (T : Type) n (l : list T) x : In x (firstn n l) -> In x l.
Proof. intros H. rewrite <- (firstn_skipn n l). apply in_or_app. left; exact H. Qed.

Lemma nr_in_skipn (T : Type) n (l : list T) x : In x (skipn n l) -> In x l.
Proof. intros H. rewrite <- (firstn_skipn n l). apply in_or_app. right; exact H. Qed.

Lemma nr_Forall_sub (T : Type) (P : T -> Prop) c d (l : list T) :
  Forall P l -> Forall P (firstn c (skipn d l)).
Proof.
  rewrite !Forall_forall. intros H x Hx. apply H.
  eapply nr_in_skipn. eapply nr_in_firstn. exact Hx.
Qed.

(* a prefix A of a window [d, d+c) of src *)
Lemma nr_split_firstn (T : Type) (A B : list T) c d (src : list T) :
  A ++ B = firstn c (skipn d src) ->
  (length A <= c)%nat /\
  firstn (d + length A) src = firstn d src ++ A /\
  B = firstn (c - length A) (skipn (d + length A) src).
Proof.
  intros E.
  assert (Hlen : (length A <= c)%nat).
  { pose proof (f_equal (@length T) E) as HL. rewrite app_length, firstn_length in HL. lia. }
  split; [exact Hlen|].
  assert (HA : A = firstn (length A) (skipn d src)).
  { rewrite <- (nr_firstn_len_app T A B) at 1. rewrite E, firstn_firstn.
    rewrite Nat.min_l by exact Hlen. reflexivity. }
  split.
  - rewrite nr_firstn_add. rewrite <- HA. reflexivity.
  - rewrite <- (nr_skipn_len_app T A B) at 1. rewrite E, skipn_firstn_comm, nr_skipn_add. reflexivity.
Qed.

(* ------------------------------------------------------------------ *)
(* 2. messages / at_boundary / stream_bytes                            *)
(* ------------------------------------------------------------------ *)
Lemma nr_at_boundary_snoc l p : at_boundary (l ++ [p]) <-> fst p = 0.
Proof. unfold at_boundary. rewrite rev_app_distr. cbn [rev app]. tauto. Qed.

Lemma nr_at_boundary_inv l : at_boundary l -> l = [] \/ exists l0 d, l = l0 ++ [(0, d)].
Proof.
  unfold at_boundary. intros H. destruct (rev l) as [|p t] eqn:E.
  - left. rewrite <- (rev_involutive l), E. reflexivity.
  - right. destruct p as [f d]. cbn [fst] in H. subst f. exists (rev t), d.
    rewrite <- (rev_involutive l), E. reflexivity.
Qed.

Lemma nr_at_boundary_nil : at_boundary [].
Proof. exact I. Qed.

Lemma nr_messages_aux_split : forall l0 cur d B,
  messages_aux cur (l0 ++ (0, d) :: B) = messages_aux cur (l0 ++ [(0, d)]) ++ messages_aux [] B.
Proof.
  induction l0 as [|[f x] t IH]; intros cur d B.
  - cbn [app messages_aux]. rewrite Z.eqb_refl. reflexivity.
  - cbn [app messages_aux]. destruct (f =? 0).
    + rewrite IH. reflexivity.
    + apply IH.
Qed.

Lemma messages_app l q : at_boundary l -> messages (l ++ q) = messages l ++ messages q.
Proof.
  intros H. destruct (nr_at_boundary_inv l H) as [E|(l0 & d & E)]; subst l.
  - reflexivity.
  - unfold messages. rewrite <- app_assoc. cbn [app]. apply nr_messages_aux_split.
Qed.

Lemma nr_messages_aux_prefix : forall l cur q,
  is_prefix (messages_aux cur l) (messages_aux cur (l ++ q)).
Proof.
  induction l as [|[f x] t IH]; intros cur q.
  - cbn [messages_aux app]. exists (messages_aux cur q). reflexivity.
  - cbn [app messages_aux]. destruct (f =? 0).
    + destruct (IH [] q) as [c Hc]. exists c. rewrite Hc. reflexivity.
    + apply IH.
Qed.

(* no side condition needed: an unfinished trailing message of l contributes nothing *)
Lemma messages_app_prefix : forall l q, is_prefix (messages l) (messages (l ++ q)).
Proof. intros l q. apply nr_messages_aux_prefix. Qed.

Lemma messages_prefix : forall l n,
  at_boundary (firstn n l) -> is_prefix (messages (firstn n l)) (messages l).
Proof.
  intros l n _. rewrite <- (firstn_skipn n l) at 2. apply messages_app_prefix.
Qed.

Lemma stream_bytes_app a b : stream_bytes (a ++ b) = stream_bytes a ++ stream_bytes b.
Proof. unfold stream_bytes. rewrite map_app, concat_app. reflexivity. Qed.

Lemma stream_bytes_firstn_prefix : forall l n,
  is_prefix (stream_bytes (firstn n l)) (stream_bytes l).
Proof.
  intros l n. exists (stream_bytes (skipn n l)).
  rewrite <- stream_bytes_app, firstn_skipn. reflexivity.
Qed.

Lemma nr_concat_messages_aux : forall l0 cur d,
  concat (messages_aux cur (l0 ++ [(0, d)])) = cur ++ stream_bytes (l0 ++ [(0, d)]).
Proof.
  induction l0 as [|[f x] t IH]; intros cur d.
  - cbn [app messages_aux]. rewrite Z.eqb_refl. unfold stream_bytes.
    cbn [map snd concat messages_aux]. rewrite !app_nil_r. reflexivity.
  - cbn [app messages_aux]. destruct (f =? 0).
    + cbn [concat]. rewrite IH. unfold stream_bytes. cbn [map snd concat app].
      rewrite <- app_assoc. reflexivity.
    + rewrite IH. unfold stream_bytes. cbn [map snd concat]. rewrite <- app_assoc. reflexivity.
Qed.

Lemma concat_messages_boundary : forall l, at_boundary l -> concat (messages l) = stream_bytes l.
Proof.
  intros l H. destruct (nr_at_boundary_inv l H) as [E|(l0 & d & E)]; subst l.
  - reflexivity.
  - unfold messages. rewrite nr_concat_messages_aux. reflexivity.
Qed.

(* ------------------------------------------------------------------ *)
(* 3. the fragment chain and pop_msg                                   *)
(* ------------------------------------------------------------------ *)
Definition nr_chain (l : list (Z * bytes)) : Prop :=
  forall i p q, nth_error l i = Some p -> nth_error l (S i) = Some q -> fst p > 0 -> fst q = fst p - 1.

Lemma nr_chain_tail p l : nr_chain (p :: l) -> nr_chain l.
Proof. intros H i a b Ha Hb. exact (H (S i) a b Ha Hb). Qed.

Lemma nr_chain_skipn n : forall l, nr_chain l -> nr_chain (skipn n l).
Proof.
  induction n as [|n IH]; intros l H; [exact H|].
  destruct l as [|x t]; [exact H|]. cbn [skipn]. apply IH. exact (nr_chain_tail _ _ H).
Qed.

Lemma nr_chain_firstn n l : nr_chain l -> nr_chain (firstn n l).
Proof.
  intros H i p q Hp Hq. apply (H i); eapply nr_nth_error_firstn; eassumption.
Qed.

(* a queue whose head announces f more fragments, and that holds them: pop_msg removes exactly
   one message *)
Lemma nr_pop_msg_spec : forall q cur,
  nr_chain (map pay q) -> Forall (fun s => 0 <= s_frg s) q ->
  match q with
  | [] => True
  | s :: _ => s_frg s + 1 <= qlen q ->
      exists m e rq d, pop_msg q = (d, rq) /\ q = (m ++ [e]) ++ rq /\ s_frg e = 0 /\
        messages_aux cur (map pay (m ++ [e])) = [cur ++ d]
  end.
Proof.
  induction q as [|s t IH]; intros cur Hc Hf; [exact I|].
  intros Hlen. cbn [pop_msg].
  destruct (s_frg s =? 0) eqn:E0.
  - apply Z.eqb_eq in E0. exists [], s, t, (s_data s).
    split; [reflexivity|]. split; [reflexivity|]. split; [exact E0|].
    cbn [app map]. unfold pay. cbn [messages_aux]. rewrite E0. reflexivity.
  - apply Z.eqb_neq in E0.
    pose proof (Forall_inv Hf) as Hs0. cbv beta in Hs0.
    rewrite qlen_cons in Hlen.
    destruct t as [|s' t'].
    { rewrite qlen_nil in Hlen. lia. }
    assert (Hs' : s_frg s' = s_frg s - 1).
    { apply (Hc 0%nat (pay s) (pay s')); [reflexivity|reflexivity|]. unfold pay; cbn [fst]. lia. }
    specialize (IH (cur ++ s_data s) (nr_chain_tail _ _ Hc) (Forall_inv_tail Hf)).
    cbv beta iota in IH.
    destruct IH as (m & e & rq & d & Hp & Hq & He & Hm); [lia|].
    rewrite Hp. exists (s :: m), e, rq, (s_data s ++ d).
    split; [reflexivity|]. split; [rewrite Hq; reflexivity|]. split; [exact He|].
    change (map pay ((s :: m) ++ [e])) with ((s_frg s, s_data s) :: map pay (m ++ [e])).
    cbn [messages_aux].
    destruct (s_frg s =? 0) eqn:E1; [apply Z.eqb_eq in E1; contradiction|].
    rewrite Hm, app_assoc. reflexivity.
Qed.

(* ------------------------------------------------------------------ *)
(* 4. wire round trip                                                  *)
(* ------------------------------------------------------------------ *)
Lemma nr_skip24 s rest : skipn 24 (encode_seg s ++ rest) = s_data s ++ rest.
Proof. reflexivity. Qed.
Lemma nr_skip20 s rest :
  skipn 20 (encode_seg s ++ rest) = le32 (blen (s_data s)) ++ (s_data s ++ rest).
Proof. reflexivity. Qed.
Lemma nr_skip16 s rest :
  skipn 16 (encode_seg s ++ rest) = le32 (s_una s) ++ (le32 (blen (s_data s)) ++ (s_data s ++ rest)).
Proof. reflexivity. Qed.
Lemma nr_skip12 s rest :
  skipn 12 (encode_seg s ++ rest) =
  le32 (s_sn s) ++ (le32 (s_una s) ++ (le32 (blen (s_data s)) ++ (s_data s ++ rest))).
Proof. reflexivity. Qed.
Lemma nr_skip8 s rest :
  skipn 8 (encode_seg s ++ rest) =
  le32 (s_ts s) ++ (le32 (s_sn s) ++ (le32 (s_una s) ++ (le32 (blen (s_data s)) ++ (s_data s ++ rest)))).
Proof. reflexivity. Qed.
Lemma nr_skip6 s rest :
  skipn 6 (encode_seg s ++ rest) =
  le16 (s_wnd s) ++ (le32 (s_ts s) ++ (le32 (s_sn s) ++ (le32 (s_una s) ++
     (le32 (blen (s_data s)) ++ (s_data s ++ rest))))).
Proof. reflexivity. Qed.
Lemma nr_skip0 s rest :
  encode_seg s ++ rest =
  le32 (s_conv s) ++ (s_cmd s :: s_frg s :: skipn 6 (encode_seg s ++ rest)).
Proof. reflexivity. Qed.
Lemma nr_nth4 s rest : nth 4 (encode_seg s ++ rest) 0 = s_cmd s.
Proof. reflexivity. Qed.
Lemma nr_nth5 s rest : nth 5 (encode_seg s ++ rest) 0 = s_frg s.
Proof. reflexivity. Qed.

Lemma nr_take_app (a b : bytes) : take (blen a) (a ++ b) = a.
Proof. unfold take, blen. rewrite Nat2Z.id. apply nr_firstn_len_app. Qed.

Lemma nr_drop_app (a b : bytes) : drop (blen a) (a ++ b) = b.
Proof. unfold drop, blen. rewrite Nat2Z.id. apply nr_skipn_len_app. Qed.

(* the header decoding of input_seg on an encoded well-formed segment *)
Lemma nr_decode_encode s rest : seg_wf s ->
  let data := encode_seg s ++ rest in
  rd32 data = s_conv s /\ nth 4 data 0 = s_cmd s /\ nth 5 data 0 = s_frg s /\
  rd16 (skipn 6 data) = s_wnd s /\ rd32 (skipn 8 data) = s_ts s /\
  rd32 (skipn 12 data) = s_sn s /\ rd32 (skipn 16 data) = s_una s /\
  rd32 (skipn 20 data) = blen (s_data s) /\
  skipn 24 data = s_data s ++ rest /\
  take (blen (s_data s)) (skipn 24 data) = s_data s /\
  drop (blen (s_data s)) (skipn 24 data) = rest.
Proof.
  intros (Wc & Wcmd & Wfrg & Wwnd & Wts & Wsn & Wuna & Wd & Wlen). cbv zeta.
  assert (Hl : 0 <= blen (s_data s) < W32).
  { pose proof (blen_nonneg (s_data s)). unfold c_mtuLimit, W32 in *. lia. }
  split; [rewrite nr_skip0; apply rd32_le32; exact Wc|].
  split; [reflexivity|]. split; [reflexivity|].
  split; [rewrite nr_skip6; apply rd16_le16; exact Wwnd|].
  split; [rewrite nr_skip8; apply rd32_le32; exact Wts|].
  split; [rewrite nr_skip12; apply rd32_le32; exact Wsn|].
  split; [rewrite nr_skip16; apply rd32_le32; exact Wuna|].
  split; [rewrite nr_skip20; apply rd32_le32; exact Hl|].
  split; [reflexivity|].
  rewrite nr_skip24. split; [apply nr_take_app|apply nr_drop_app].
Qed.

(* an encoded well-formed segment consists of bytes *)
Lemma nr_bytes_of (l : list Z) : bytes_ok l -> is_byte_list l.
Proof. intros H. exact H. Qed.

Lemma nr_encode_bytes s : seg_wf s -> is_byte_list (encode_seg s).
Proof.
  intros (Wc & Wcmd & Wfrg & Wwnd & Wts & Wsn & Wuna & Wd & Wlen).
  unfold encode_seg, is_byte_list.
  repeat (apply Forall_app; split); try (apply nr_bytes_of; apply le32_bytes);
    try (apply nr_bytes_of; apply le16_bytes); try exact Wd.
  constructor; [exact Wcmd|]. constructor; [exact Wfrg|constructor].
Qed.

Lemma nr_dgram_bytes isn src d : genuine_dgram isn src d -> is_byte_list d.
Proof.
  intros (segs & -> & Hwf & _). unfold is_byte_list.
  induction Hwf as [|s t Hs Ht IH]; [constructor|].
  cbn [map concat]. apply Forall_app. split; [apply nr_encode_bytes; exact Hs|exact IH].
Qed.

(* ------------------------------------------------------------------ *)
(* 5. frames: what leaves the receive side alone                       *)
(* ------------------------------------------------------------------ *)
Definition nr_rcv (k : kcp) : Z * list seg * list seg := (rcv_nxt k, rcv_queue k, rcv_buf k).

Lemma nr_rcv_if (b : bool) k1 k2 : nr_rcv (if b then k1 else k2) = if b then nr_rcv k1 else nr_rcv k2.
Proof. destruct b; reflexivity. Qed.

Lemma nr_if_same (T : Type) (b : bool) (x : T) : (if b then x else x) = x.
Proof. destruct b; reflexivity. Qed.

Lemma nr_fr_cc k a b c d : nr_rcv (set_cc k a b c d) = nr_rcv k.
Proof. reflexivity. Qed.
Lemma nr_fr_rmt_wnd k v : nr_rcv (set_rmt_wnd k v) = nr_rcv k.
Proof. reflexivity. Qed.
Lemma nr_fr_probe k a b c : nr_rcv (set_probe k a b c) = nr_rcv k.
Proof. reflexivity. Qed.
Lemma nr_fr_probe_flags k a : nr_rcv (set_probe_flags k a) = nr_rcv k.
Proof. reflexivity. Qed.
Lemma nr_fr_timer k a b c : nr_rcv (set_timer k a b c) = nr_rcv k.
Proof. reflexivity. Qed.
Lemma nr_fr_acklist k a : nr_rcv (set_acklist k a) = nr_rcv k.
Proof. reflexivity. Qed.
Lemma nr_fr_rtt k a b c d : nr_rcv (set_rtt k a b c d) = nr_rcv k.
Proof. reflexivity. Qed.
Lemma nr_fr_snd_buf k l : nr_rcv (set_snd_buf k l) = nr_rcv k.
Proof. reflexivity. Qed.
Lemma nr_fr_snd_queue k l : nr_rcv (set_snd_queue k l) = nr_rcv k.
Proof. reflexivity. Qed.
Lemma nr_fr_snd_una k v : nr_rcv (set_snd_una k v) = nr_rcv k.
Proof. reflexivity. Qed.
Lemma nr_fr_snd_nxt k v : nr_rcv (set_snd_nxt k v) = nr_rcv k.
Proof. reflexivity. Qed.
Lemma nr_fr_config k a b c d e f g h i j :
  rcv_nxt (set_config k a b c d e f g h i j) = rcv_nxt k /\
  rcv_queue (set_config k a b c d e f g h i j) = rcv_queue k /\
  rcv_buf (set_config k a b c d e f g h i j) = rcv_buf k.
Proof. repeat split. Qed.

Lemma nr_parse_una_frame k una : nr_rcv (fst (parse_una k una)) = nr_rcv k.
Proof. unfold parse_una. destruct (una_walk una (snd_buf k)) as [l c]. reflexivity. Qed.

Lemma nr_shrink_buf_frame k : nr_rcv (shrink_buf k) = nr_rcv k.
Proof.
  unfold shrink_buf. cbv zeta.
  destruct (snd_buf (set_snd_buf k (drop_acked (snd_buf k)))); reflexivity.
Qed.

Lemma nr_parse_ack_frame k sn : nr_rcv (parse_ack k sn) = nr_rcv k.
Proof. unfold parse_ack. destruct (_ || _); reflexivity. Qed.

Lemma nr_parse_fastack_frame k sn ts : nr_rcv (fst (parse_fastack k sn ts)) = nr_rcv k.
Proof.
  unfold parse_fastack. destruct (_ || _); [reflexivity|].
  destruct (fastack_walk sn ts (fastresend k) (snd_buf k)) as [l f]. reflexivity.
Qed.

Lemma nr_update_ack_frame k rtt : nr_rcv (update_ack k rtt) = nr_rcv k.
Proof. destruct (update_ack_shape k rtt) as (var & srtt & rto & E). rewrite E. reflexivity. Qed.

Lemma nr_input_cwnd_frame k una0 : nr_rcv (input_cwnd k una0) = nr_rcv k.
Proof.
  unfold input_cwnd. destruct (_ && _); [|reflexivity]. cbv zeta.
  match goal with |- nr_rcv (match ?X with _ => _ end) = _ => destruct X as [cw inc] end.
  destruct (cw >? rmt_wnd k); reflexivity.
Qed.

Lemma nr_send_frame k b k' r : send k b = Ok (k', r) -> nr_rcv k' = nr_rcv k.
Proof.
  rewrite send_unfold. destruct (blen b =? 0); [intros H; inversion H; reflexivity|].
  destruct (if stream k =? 0 then Ok (Some (snd_queue k, b)) else stream_append k b)
    as [[[q1 b1]|]|w]; [| intros H; inversion H; reflexivity | discriminate].
  unfold send_tail. cbv zeta.
  destruct (negb (stream k =? 0) && (blen b1 =? 0)); [intros H; inversion H; reflexivity|].
  destruct (frag_count (blen b1) (mss k) >? 255); [intros H; inversion H; reflexivity|].
  match goal with |- match ?X with _ => _ end = _ -> _ => destruct X as [segs|w] end;
    [intros H; inversion H; reflexivity|discriminate].
Qed.

Lemma nr_set_mtu_frame k m : nr_rcv (fst (set_mtu k m)) = nr_rcv k.
Proof.
  unfold set_mtu. destruct (_ || _); [reflexivity|].
  destruct (max_queued k >? m - c_IKCP_OVERHEAD); reflexivity.
Qed.

Lemma nr_set_nodelay_frame k nd iv rs nc : nr_rcv (set_nodelay k nd iv rs nc) = nr_rcv k.
Proof. unfold set_nodelay. destruct (nd >=? 0); reflexivity. Qed.

(* flush only reads the receive side *)
Ltac nr_let1 H n :=
  match type of H with
  | (let x := ?X in @?B x) = ?R => set (n := X) in H; change (B n = R) in H; cbv beta in H
  end.

Lemma nr_flush_frame k ft now k' nx o : flush k ft now = Ok (k', nx, o) -> nr_rcv k' = nr_rcv k.
Proof.
  intros H. cbv beta delta [flush] in H.
  nr_let1 H h0. clearbody h0. nr_let1 H st0. clearbody st0.
  match type of H with match ?X with _ => _ end = _ =>
    destruct X as [[[h1 st1] k1]|w] eqn:E1; [|discriminate] end.
  assert (R1 : nr_rcv k1 = nr_rcv k).
  { destruct ((ft =? FLUSH_ACKONLY) || (ft =? FLUSH_FULL)).
    - destruct (flush_acks k h0 st0 (acklist k)) as [[h st]|w]; [|discriminate].
      inversion E1; subst. reflexivity.
    - inversion E1; subst. reflexivity. }
  clear E1.
  nr_let1 H k2.
  assert (R2 : nr_rcv k2 = nr_rcv k1).
  { unfold k2. destruct (rmt_wnd k1 =? 0); [|reflexivity].
    destruct (probe_wait k1 =? 0); [reflexivity|].
    destruct (itimediff now (ts_probe k1) >=? 0); reflexivity. }
  clearbody k2.
  nr_let1 H wask. clearbody wask. nr_let1 H wins. clearbody wins. nr_let1 H hdr. clearbody hdr.
  match type of H with match ?X with _ => _ end = _ =>
    destruct X as [st2|w]; [|discriminate] end.
  match type of H with match ?X with _ => _ end = _ =>
    destruct X as [st3|w]; [|discriminate] end.
  nr_let1 H k3.
  assert (R3 : nr_rcv k3 = nr_rcv k2) by reflexivity.
  clearbody k3.
  nr_let1 H cw0. clearbody cw0. nr_let1 H cw. clearbody cw.
  match type of H with match ?X with _ => _ end = _ =>
    destruct X as [[[sq sb] nxt] newsegs] end.
  nr_let1 H k4.
  assert (R4 : nr_rcv k4 = nr_rcv k3) by reflexivity.
  clearbody k4.
  nr_let1 H resent. clearbody resent. nr_let1 H a0. clearbody a0.
  match type of H with match ?X with _ => _ end = _ =>
    destruct X as [[sb' a]|w]; [|discriminate] end.
  nr_let1 H k5.
  assert (R5 : nr_rcv k5 = nr_rcv k4) by reflexivity.
  clearbody k5.
  nr_let1 H k5'.
  assert (R5' : nr_rcv k5' = nr_rcv k5) by (unfold k5'; destruct (f_dead a); reflexivity).
  clearbody k5'.
  nr_let1 H k6.
  assert (R6 : nr_rcv k6 = nr_rcv k5').
  { unfold k6. destruct (nocwnd k5' =? 0); [|reflexivity]. cbv zeta.
    repeat (rewrite ?nr_rcv_if; ksimpl; rewrite ?nr_fr_cc; rewrite ?nr_if_same). reflexivity. }
  clearbody k6.
  inversion H; subst. congruence.
Qed.

Lemma nr_update_frame k now k' o : update k now = Ok (k', o) -> nr_rcv k' = nr_rcv k.
Proof.
  unfold update. cbv zeta.
  set (k1 := if updated k =? 0 then set_timer k (state k) now 1 else k).
  assert (R1 : nr_rcv k1 = nr_rcv k) by (unfold k1; destruct (updated k =? 0); reflexivity).
  clearbody k1.
  match goal with |- match ?X with _ => _ end = _ -> _ => destruct X as [k2 slap] eqn:E2 end.
  assert (R2 : nr_rcv k2 = nr_rcv k1).
  { destruct (_ || _) in E2; inversion E2; subst; reflexivity. }
  clear E2. destruct (slap >=? 0).
  - match goal with |- match ?X with _ => _ end = _ -> _ => destruct X as [[[k3 nx] o3]|w] eqn:Ef end;
      [|discriminate].
    intros H. inversion H; subst. rewrite (nr_flush_frame _ _ _ _ _ _ Ef). rewrite nr_fr_timer.
    congruence.
  - intros H. inversion H; subst. congruence.
Qed.

(* ------------------------------------------------------------------ *)
(* 6. the receive-side invariant                                       *)
(* ------------------------------------------------------------------ *)
Definition nr_parked (src : list (Z * bytes)) (isn : Z) (s : seg) : Prop :=
  exists i, (i < length src)%nat /\ s_sn s = u32 (isn + Z.of_nat i) /\ nth_error src i = Some (pay s).

Definition nr_rcv_l (src : list (Z * bytes)) (isn : Z) (dl : list bytes)
                    (rn : Z) (rq rb : list seg) : Prop :=
  (exists r done, (done <= r <= length src)%nat /\ rn = u32 (isn + Z.of_nat r) /\
      map pay rq = firstn (r - done) (skipn done src) /\
      dl = messages (firstn done src) /\ at_boundary (firstn done src)) /\
  Forall (nr_parked src isn) rb.

Definition nr_rcvk (src : list (Z * bytes)) (g : receiver_ghost) (k : kcp) : Prop :=
  nr_rcv_l src (rg_isn g) (rg_delivered g) (rcv_nxt k) (rcv_queue k) (rcv_buf k).

Lemma nr_receiver_inv_iff src g k :
  receiver_inv src g k <-> inv k /\ is_u32 (rg_isn g) /\ nr_rcvk src g k.
Proof.
  split.
  - intros [H1 H2 H3 H4]. split; [exact H1|]. split; [exact H2|]. split; [exact H3|exact H4].
  - intros (H1 & H2 & H3 & H4). constructor; assumption.
Qed.

Lemma nr_rcvk_frame src g k k' : nr_rcv k' = nr_rcv k -> nr_rcvk src g k -> nr_rcvk src g k'.
Proof.
  unfold nr_rcv, nr_rcvk. intros E H. inversion E as [[E1 E2 E3]]. rewrite E1, E2, E3. exact H.
Qed.

Lemma nr_move_ready src isn dl rw : no_wrap src -> forall rb rq rn rb' rq' rn',
  move_ready rb rq rn rw = (rb', rq', rn') ->
  nr_rcv_l src isn dl rn rq rb -> nr_rcv_l src isn dl rn' rq' rb'.
Proof.
  intros Hnw. induction rb as [|s t IH]; intros rq rn rb' rq' rn' E H; cbn [move_ready] in E.
  - inversion E; subst; exact H.
  - destruct ((s_sn s =? rn) && (qlen rq <? rw)) eqn:Ec.
    + apply andb_prop in Ec. destruct Ec as [E1 _]. apply Z.eqb_eq in E1.
      apply (IH _ _ _ _ _ E). clear IH E.
      destruct H as ((r & done & Hrd & Hrn & Hq & Hdl & Hb) & Hrb).
      pose proof (Forall_inv Hrb) as (i & Hi & Hsn & Hnth).
      assert (Hir : i = r).
      { apply Nat2Z.inj. apply (u32_inj_index isn); [|congruence].
        unfold no_wrap in Hnw. unfold H32 in *. lia. }
      subst i.
      split; [|exact (Forall_inv_tail Hrb)].
      exists (S r), done. split; [lia|]. split.
      * rewrite Hrn, u32_add_mod. f_equal. lia.
      * split; [|split; assumption].
        rewrite map_app. cbn [map]. rewrite Hq.
        replace (S r - done)%nat with (S (r - done)) by lia.
        symmetry. apply nr_firstn_snoc. rewrite nr_nth_error_skipn.
        replace (done + (r - done))%nat with r by lia. exact Hnth.
    + inversion E; subst; exact H.
Qed.

Lemma nr_do_move_ready src g k : no_wrap src -> nr_rcvk src g k -> nr_rcvk src g (do_move_ready k).
Proof.
  intros Hnw H. unfold do_move_ready.
  destruct (move_ready (rcv_buf k) (rcv_queue k) (rcv_nxt k) (rcv_wnd k)) as [[rb rq] rn] eqn:E.
  unfold nr_rcvk. ksimpl. exact (nr_move_ready _ _ _ _ Hnw _ _ _ _ _ _ E H).
Qed.

Lemma nr_parse_data src g k s k' f :
  no_wrap src -> nr_rcvk src g k -> nr_parked src (rg_isn g) s ->
  parse_data k s = Ok (k', f) -> nr_rcvk src g k'.
Proof.
  intros Hnw H Hs. unfold parse_data. cbv zeta.
  destruct (_ || _); [intros E; inversion E; subst; exact H|].
  destruct (has_sn (s_sn s) (rcv_buf k)).
  - intros E; inversion E; subst. apply nr_do_move_ready; assumption.
  - destruct (blen (s_data s) >? c_mtuLimit); [discriminate|].
    intros E; inversion E; subst. apply nr_do_move_ready; [exact Hnw|].
    unfold nr_rcvk in *. ksimpl. destruct H as [H1 H2]. split; [exact H1|].
    apply insert_seg_Forall; assumption.
Qed.

(* ------------------------------------------------------------------ *)
(* 7. Recv                                                             *)
(* ------------------------------------------------------------------ *)
Lemma nr_peeksize_ge0 k :
  Forall (fun s => 0 <= s_frg s <= 254) (rcv_queue k) -> peeksize k <? 0 = false ->
  match rcv_queue k with [] => False | s :: _ => s_frg s + 1 <= qlen (rcv_queue k) end.
Proof.
  unfold peeksize. destruct (rcv_queue k) as [|s t] eqn:Eq; intros Hf H.
  - change (-1 <? 0) with true in H. discriminate.
  - destruct (s_frg s =? 0) eqn:E0.
    + apply Z.eqb_eq in E0. rewrite E0, qlen_cons. pose proof (qlen_nonneg t). lia.
    + destruct (qlen (s :: t) <? u8 (s_frg s + 1)) eqn:E1.
      * change (-1 <? 0) with true in H. discriminate.
      * apply Z.ltb_ge in E1. pose proof (Forall_inv Hf) as Hs. cbv beta in Hs.
        unfold u8 in E1. rewrite Z.mod_small in E1 by lia. exact E1.
Qed.

Lemma nr_recv src g k n k' r d :
  src_wf src -> no_wrap src -> nr_rcvk src g k ->
  recv k n = (k', r, d) ->
  nr_rcvk src (if r >=? 0 then mkRG (rg_isn g) (rg_delivered g ++ [d]) else g) k'.
Proof.
  intros [Hwf Hch] Hnw H. unfold recv. cbv zeta.
  destruct (peeksize k <? 0) eqn:Ep.
  { intros E; inversion E; subst. change (-1 >=? 0) with false. cbv iota. exact H. }
  destruct (peeksize k >? n).
  { intros E; inversion E; subst. change (-2 >=? 0) with false. cbv iota. exact H. }
  destruct H as ((r0 & done & Hrd & Hrn & Hq & Hdl & Hb) & Hrb).
  assert (Hfrg : Forall (fun s => 0 <= s_frg s <= 254) (rcv_queue k)).
  { apply (Forall_map pay (fun p => 0 <= fst p <= 254)). rewrite Hq. apply nr_Forall_sub.
    eapply Forall_impl; [|exact Hwf]. cbv beta. intros p Hp. exact (proj1 Hp). }
  assert (Hchq : nr_chain (map pay (rcv_queue k))).
  { rewrite Hq. apply nr_chain_firstn, nr_chain_skipn. exact Hch. }
  pose proof (nr_peeksize_ge0 k Hfrg Ep) as Hhead.
  assert (Hfrg0 : Forall (fun s => 0 <= s_frg s) (rcv_queue k)).
  { eapply Forall_impl; [|exact Hfrg]. cbv beta. intros s Hs. lia. }
  pose proof (nr_pop_msg_spec (rcv_queue k) [] Hchq Hfrg0) as Hpop.
  destruct (rcv_queue k) as [|s t] eqn:Eq; [contradiction|]. rewrite <- Eq in *.
  destruct (Hpop Hhead) as (m & e & rq & d0 & Hp & Hsplit & He & Hm). clear Hpop.
  rewrite Hp.
  set (k1 := do_move_ready (set_rcv_queue k rq)).
  intros E.
  assert (Ek : nr_rcv k' = nr_rcv k1 /\ r = blen d0 /\ d = d0).
  { destruct ((qlen (rcv_queue k1) <? rcv_wnd k1) && (qlen (rcv_queue k) >=? rcv_wnd k));
      inversion E; subst; repeat split. }
  destruct Ek as (Ek & -> & ->). clear E.
  assert (Hge : blen d0 >=? 0 = true).
  { apply Z.geb_le. apply blen_nonneg. }
  rewrite Hge.
  apply (nr_rcvk_frame _ _ _ _ Ek). unfold k1. apply nr_do_move_ready; [exact Hnw|].
  unfold nr_rcvk. ksimpl. cbn [rg_isn rg_delivered]. split; [|exact Hrb].
  rewrite Hsplit, map_app in Hq.
  destruct (nr_split_firstn _ _ _ _ _ _ Hq) as (HA & HF & HB).
  set (A := map pay (m ++ [e])) in *.
  exists r0, (done + length A)%nat.
  split; [lia|]. split; [exact Hrn|].
  split; [rewrite HB; f_equal; lia|].
  rewrite HF. split.
  - rewrite messages_app by exact Hb. rewrite <- Hdl. f_equal.
    unfold messages. rewrite Hm. reflexivity.
  - unfold A. rewrite map_app, app_assoc. cbn [map]. apply nr_at_boundary_snoc.
    unfold pay. cbn [fst]. exact He.
Qed.
