(* Helper lemmas for InvInput.v: byte lists / header decoding, the invariant with the sender
   base made a parameter (`ii_invb`), frame lemmas for the record updates, list-level lemmas
   for the sender walks (una_walk, drop_acked, ack_walk, fastack_walk) and for the receive
   side (insert_seg, move_ready). *)
From Coq Require Import ZArith List Bool Lia.
From KV.Base Require Import Consts Word WordLemmas.
From KV.Kcp Require Import Kcp Step.
Import ListNotations.
Local Open Scope Z_scope.

Ltac Zify.zify_post_hook ::= Z.div_mod_to_equations.

(* ------------------------------------------------------------------ *)
(* byte lists and header fields                                        *)
(* ------------------------------------------------------------------ *)
Lemma ii_bl_skipn n : forall l, is_byte_list l -> is_byte_list (skipn n l).
Proof.
  unfold is_byte_list. induction n as [|n IH]; intros l H; [exact H|].
  destruct l as [|x t]; [exact H|]. cbn [skipn]. apply IH. exact (Forall_inv_tail H).
Qed.

Lemma ii_bl_drop n l : is_byte_list l -> is_byte_list (drop n l).
Proof. unfold drop. apply ii_bl_skipn. Qed.

Lemma ii_rd32_range l : is_byte_list l -> is_u32 (rd32 l).
Proof.
  unfold is_byte_list, is_u32, W32, rd32. intros H.
  destruct l as [|a [|b0 [|c [|d t]]]]; try lia.
  pose proof (Forall_inv H) as Ha. pose proof (Forall_inv_tail H) as H1.
  pose proof (Forall_inv H1) as Hb. pose proof (Forall_inv_tail H1) as H2.
  pose proof (Forall_inv H2) as Hc. pose proof (Forall_inv_tail H2) as H3.
  pose proof (Forall_inv H3) as Hd. cbv beta in *. lia.
Qed.

Lemma ii_rd16_range l : is_byte_list l -> 0 <= rd16 l < 65536.
Proof.
  unfold is_byte_list, rd16. intros H.
  destruct l as [|a [|b0 t]]; try lia.
  pose proof (Forall_inv H) as Ha. pose proof (Forall_inv_tail H) as H1.
  pose proof (Forall_inv H1) as Hb. cbv beta in *. lia.
Qed.

Lemma ii_blen_nonneg b : 0 <= blen b.
Proof. unfold blen. lia. Qed.

Lemma ii_blen_skipn n l : blen (skipn n l) = blen l - Z.of_nat (Nat.min n (length l)).
Proof. unfold blen. rewrite skipn_length. lia. Qed.

Lemma ii_blen_drop_le n l : blen (drop n l) <= blen l.
Proof. unfold drop, blen. rewrite skipn_length. lia. Qed.

Lemma ii_blen_take_le n l : 0 <= n -> blen (take n l) <= n.
Proof.
  intros Hn. unfold take, blen. pose proof (firstn_le_length (Z.to_nat n) l) as H. lia.
Qed.

(* ------------------------------------------------------------------ *)
(* wrap arithmetic used by the receive window                          *)
(* ------------------------------------------------------------------ *)
Lemma ii_in_window sn rnxt rwnd :
  1 <= rwnd < 32768 -> itimediff sn (u32 (rnxt + rwnd)) < 0 -> 0 <= itimediff sn rnxt ->
  itimediff sn rnxt < rwnd.
Proof. unfold itimediff, i32, u32, W32, H32. lia. Qed.

Lemma ii_diff_diff a c base :
  0 <= itimediff a base -> 0 <= itimediff c base ->
  itimediff a c = itimediff a base - itimediff c base.
Proof. unfold itimediff, i32, W32, H32. lia. Qed.

Lemma ii_diff_inj a c base :
  is_u32 a -> is_u32 c -> itimediff a base = itimediff c base -> a = c.
Proof. unfold is_u32, itimediff, i32, W32, H32. lia. Qed.

Lemma ii_diff_succ a base : 1 <= itimediff a base ->
  itimediff a (u32 (base + 1)) = itimediff a base - 1.
Proof. unfold itimediff, i32, u32, W32, H32. lia. Qed.

(* ------------------------------------------------------------------ *)
(* the invariant with the sender base as a parameter                   *)
(* ------------------------------------------------------------------ *)
Record ii_invb (b : Z) (k : kcp) : Prop := mkIIb {
  B_mtu : c_IKCP_OVERHEAD < mtu k <= c_mtuLimit;
  B_mss : mss k = mtu k - c_IKCP_OVERHEAD;
  B_buflen : buflen k = (mtu k + c_IKCP_OVERHEAD) * 3;
  B_sq_len : Forall (fun s => seg_len s <= mss k) (snd_queue k);
  B_sb_len : Forall (fun s => seg_len s <= mss k) (snd_buf k);
  B_sq_fresh : Forall (fun s => s_xmit s = 0 /\ s_acked s = 0) (snd_queue k);
  B_sb_push : Forall (fun s => s_conv s = conv k /\ s_cmd s = c_IKCP_CMD_PUSH) (snd_buf k);
  B_sb_contig : contiguous b (snd_buf k);
  B_snd_nxt : snd_nxt k = u32 (b + qlen (snd_buf k));
  B_sb_wnd : qlen (snd_buf k) <= snd_wnd k;
  B_una_u32 : is_u32 b;
  B_rq_wnd : qlen (rcv_queue k) <= rcv_wnd k;
  B_rb_sorted : rb_sorted (rcv_nxt k) 0 (rcv_wnd k) (rcv_buf k);
  B_rq_len : Forall (fun s => seg_len s <= c_mtuLimit) (rcv_queue k);
  B_rb_len : Forall (fun s => seg_len s <= c_mtuLimit) (rcv_buf k);
  B_rnxt_u32 : is_u32 (rcv_nxt k);
  B_snd_wnd : 1 <= snd_wnd k < 32768;
  B_rcv_wnd : 1 <= rcv_wnd k < 32768;
  B_rmt_wnd : 0 <= rmt_wnd k < 65536;
  B_cwnd : 0 <= cwnd k;
  B_rto_max : rx_rto k <= c_IKCP_RTO_MAX;
  B_minrto : rx_minrto k = c_IKCP_RTO_NDL \/ rx_minrto k = c_IKCP_RTO_MIN
}.

Lemma ii_invb_of_inv k : inv k -> ii_invb (snd_una k) k.
Proof. intros []. constructor; assumption. Qed.

Lemma ii_inv_of_invb b k : ii_invb b k -> snd_una k = b -> inv k.
Proof. intros [] E. subst b. constructor; assumption. Qed.

(* fields Input never changes (acklist apart) *)
Definition ii_fix (k k' : kcp) : Prop :=
  mtu k' = mtu k /\ rx_minrto k' = rx_minrto k /\ conv k' = conv k /\ rx_rto k' = rx_rto k.
Definition ii_same (k k' : kcp) : Prop := ii_fix k k' /\ acklist k' = acklist k.

Lemma ii_fix_refl k : ii_fix k k.
Proof. unfold ii_fix. auto. Qed.
Lemma ii_fix_trans k1 k2 k3 : ii_fix k1 k2 -> ii_fix k2 k3 -> ii_fix k1 k3.
Proof. unfold ii_fix. intuition congruence. Qed.
Lemma ii_same_refl k : ii_same k k.
Proof. unfold ii_same, ii_fix. auto. Qed.
Lemma ii_same_trans k1 k2 k3 : ii_same k1 k2 -> ii_same k2 k3 -> ii_same k1 k3.
Proof. unfold ii_same, ii_fix. intuition congruence. Qed.
Lemma ii_same_fix k k' : ii_same k k' -> ii_fix k k'.
Proof. intros [H _]; exact H. Qed.

(* ---- frame lemmas ---- *)
Lemma ii_fr_cc b k sst rmt cw inc :
  ii_invb b k -> 0 <= rmt < 65536 -> 0 <= cw -> ii_invb b (set_cc k sst rmt cw inc).
Proof. intros [] Hr Hc. constructor; assumption. Qed.

Lemma ii_fr_snd_buf b b' k l :
  ii_invb b k ->
  Forall (fun s => seg_len s <= mss k) l ->
  Forall (fun s => s_conv s = conv k /\ s_cmd s = c_IKCP_CMD_PUSH) l ->
  contiguous b' l -> snd_nxt k = u32 (b' + qlen l) -> qlen l <= snd_wnd k -> is_u32 b' ->
  ii_invb b' (set_snd_buf k l).
Proof. intros [] H1 H2 H3 H4 H5 H6. constructor; assumption. Qed.

Lemma ii_fr_snd_una b k u : ii_invb b k -> ii_invb b (set_snd_una k u).
Proof. intros []. constructor; assumption. Qed.

Lemma ii_fr_acklist b k al : ii_invb b k -> ii_invb b (set_acklist k al).
Proof. intros []. constructor; assumption. Qed.

Lemma ii_fr_probe b k p tsp pw : ii_invb b k -> ii_invb b (set_probe k p tsp pw).
Proof. intros []. constructor; assumption. Qed.

Lemma ii_fr_rtt b k var srtt rto :
  ii_invb b k -> rto <= c_IKCP_RTO_MAX -> ii_invb b (set_rtt k var srtt rto (rx_minrto k)).
Proof. intros [] Hr. constructor; assumption. Qed.

Lemma ii_fr_rcv_buf b k rb :
  ii_invb b k -> rb_sorted (rcv_nxt k) 0 (rcv_wnd k) rb ->
  Forall (fun s => seg_len s <= c_mtuLimit) rb -> ii_invb b (set_rcv_buf k rb).
Proof. intros [] H1 H2. constructor; assumption. Qed.

Lemma ii_fr_rcv b k rq rb rn :
  ii_invb b k -> qlen rq <= rcv_wnd k -> rb_sorted rn 0 (rcv_wnd k) rb ->
  Forall (fun s => seg_len s <= c_mtuLimit) rq -> Forall (fun s => seg_len s <= c_mtuLimit) rb ->
  is_u32 rn ->
  ii_invb b (set_rcv_nxt (set_queues k (snd_queue k) rq (snd_buf k) rb) rn).
Proof. intros [] H1 H2 H3 H4 H5. constructor; assumption. Qed.

(* ------------------------------------------------------------------ *)
(* sender side, list level                                             *)
(* ------------------------------------------------------------------ *)
Definition ii_segp (m cv : Z) (s : seg) : Prop :=
  seg_len s <= m /\ s_conv s = cv /\ s_cmd s = c_IKCP_CMD_PUSH.

Definition ii_snd_ok (m cv w nxt base : Z) (l : list seg) : Prop :=
  Forall (ii_segp m cv) l /\ contiguous base l /\ nxt = u32 (base + qlen l) /\
  qlen l <= w /\ is_u32 base.

Lemma ii_snd_ok_of_invb b k :
  ii_invb b k -> ii_snd_ok (mss k) (conv k) (snd_wnd k) (snd_nxt k) b (snd_buf k).
Proof.
  intros H. unfold ii_snd_ok.
  split; [|split; [exact (B_sb_contig _ _ H)|split; [exact (B_snd_nxt _ _ H)|
           split; [exact (B_sb_wnd _ _ H)|exact (B_una_u32 _ _ H)]]]].
  pose proof (B_sb_len _ _ H) as H1. pose proof (B_sb_push _ _ H) as H2.
  rewrite Forall_forall in *. intros s Hs. unfold ii_segp.
  specialize (H1 s Hs). specialize (H2 s Hs). cbv beta in *. tauto.
Qed.

Lemma ii_fr_snd_ok b b' k l :
  ii_invb b k -> ii_snd_ok (mss k) (conv k) (snd_wnd k) (snd_nxt k) b' l ->
  ii_invb b' (set_snd_buf k l).
Proof.
  intros H (H1 & H2 & H3 & H4 & H5).
  apply ii_fr_snd_buf with b; try assumption.
  - rewrite Forall_forall in *. intros s Hs. exact (proj1 (H1 s Hs)).
  - rewrite Forall_forall in *. intros s Hs. exact (proj2 (H1 s Hs)).
Qed.

Lemma ii_qlen_cons s (t : list seg) : qlen (s :: t) = qlen t + 1.
Proof. unfold qlen. cbn [length]. lia. Qed.

Lemma ii_qlen_nonneg (l : list seg) : 0 <= qlen l.
Proof. unfold qlen. lia. Qed.

Lemma ii_snd_tail m cv w nxt base s t :
  ii_snd_ok m cv w nxt base (s :: t) -> ii_snd_ok m cv w nxt (u32 (base + 1)) t.
Proof.
  intros (Hl & Hc & Hn & Hw & Hu). rewrite ii_qlen_cons in *.
  split; [exact (Forall_inv_tail Hl)|].
  split; [exact (proj2 Hc)|].
  split; [rewrite u32_add_mod, Hn; f_equal; lia|].
  split; [lia|]. apply u32_range.
Qed.

Lemma ii_una_walk_ok m cv w nxt una : forall l base,
  ii_snd_ok m cv w nxt base l -> exists base', ii_snd_ok m cv w nxt base' (fst (una_walk una l)).
Proof.
  induction l as [|s t IH]; intros base H; cbn [una_walk].
  - exists base; exact H.
  - destruct (itimediff una (s_sn s) >? 0) eqn:E.
    + destruct (una_walk una t) as [r c] eqn:Eu. cbn [fst] in *.
      exact (IH _ (ii_snd_tail _ _ _ _ _ _ _ H)).
    + exists base; exact H.
Qed.

Lemma ii_drop_acked_ok m cv w nxt : forall l base,
  ii_snd_ok m cv w nxt base l -> exists base', ii_snd_ok m cv w nxt base' (drop_acked l).
Proof.
  induction l as [|s t IH]; intros base H; cbn [drop_acked].
  - exists base; exact H.
  - destruct (s_acked s =? 0) eqn:E.
    + exists base; exact H.
    + exact (IH _ (ii_snd_tail _ _ _ _ _ _ _ H)).
Qed.

(* ack_walk / fastack_walk change elements only in acked/data(:=[])/fastack *)
Definition ii_sim (s s' : seg) : Prop :=
  s_sn s' = s_sn s /\ seg_len s' <= seg_len s /\ s_conv s' = s_conv s /\ s_cmd s' = s_cmd s.

Lemma ii_sim_refl s : ii_sim s s.
Proof. unfold ii_sim. repeat split; lia. Qed.

Lemma ii_sim_refl_list l : Forall2 ii_sim l l.
Proof. induction l as [|s t IH]; constructor; [apply ii_sim_refl|exact IH]. Qed.

Lemma ii_F2_length (A B : Type) (R : A -> B -> Prop) l l' :
  Forall2 R l l' -> length l' = length l.
Proof. induction 1 as [|x y t t' Hxy HF IH]; [reflexivity|]. cbn [length]. rewrite IH. reflexivity. Qed.

Lemma ii_sim_snd_ok m cv w nxt l l' : Forall2 ii_sim l l' ->
  forall base, ii_snd_ok m cv w nxt base l -> ii_snd_ok m cv w nxt base l'.
Proof.
  intros HF base (Hl & Hc & Hn & Hw & Hu).
  assert (Hq : qlen l' = qlen l).
  { unfold qlen. rewrite (ii_F2_length _ _ _ _ _ HF). reflexivity. }
  rewrite <- Hq in Hn, Hw.
  split; [|split; [|split; [exact Hn|split; [exact Hw|exact Hu]]]].
  - clear Hc Hn Hw Hq. induction HF as [|s s' t t' Hs HF IH]; [constructor|].
    constructor; [|exact (IH (Forall_inv_tail Hl))].
    pose proof (Forall_inv Hl) as H0. unfold ii_segp, ii_sim in *.
    destruct Hs as (E1 & E2 & E3 & E4). destruct H0 as (A1 & A2 & A3).
    rewrite E3, E4. repeat split; [lia|assumption|assumption].
  - clear Hl Hn Hw Hq Hu. revert base Hc.
    induction HF as [|s s' t t' Hs HF IH]; intros base Hc; [exact I|].
    cbn [contiguous] in *. destruct Hc as [Hc1 Hc2].
    split; [rewrite (proj1 Hs); exact Hc1|exact (IH _ Hc2)].
Qed.

Lemma ii_ack_walk_sim sn : forall l, Forall2 ii_sim l (ack_walk sn l).
Proof.
  induction l as [|s t IH]; cbn [ack_walk]; [constructor|].
  destruct (sn =? s_sn s) eqn:E1.
  - constructor; [|apply ii_sim_refl_list].
    unfold ii_sim, seg_len. cbn [s_sn s_data s_conv s_cmd].
    repeat split. change (blen []) with 0. apply ii_blen_nonneg.
  - destruct (itimediff sn (s_sn s) <? 0) eqn:E2; [apply ii_sim_refl_list|].
    constructor; [apply ii_sim_refl|exact IH].
Qed.

Lemma ii_fastack_walk_sim sn ts fr : forall l, Forall2 ii_sim l (fst (fastack_walk sn ts fr l)).
Proof.
  induction l as [|s t IH]; cbn [fastack_walk]; [constructor|].
  destruct (itimediff sn (s_sn s) <? 0) eqn:E1; [apply ii_sim_refl_list|].
  destruct (fastack_walk sn ts fr t) as [t' f] eqn:Et. cbn [fst] in IH.
  destruct (negb (sn =? s_sn s) && (itimediff (s_ts s) ts <=? 0)) eqn:E2.
  - destruct (s_fastack s =? 4294967295) eqn:E3; cbn [fst].
    + constructor; [apply ii_sim_refl|exact IH].
    + constructor; [|exact IH]. unfold ii_sim, seg_len, set_seg_fastack.
      cbn [s_sn s_data s_conv s_cmd]. repeat split; lia.
  - cbn [fst]. constructor; [apply ii_sim_refl|exact IH].
Qed.

(* ------------------------------------------------------------------ *)
(* receive side, list level                                            *)
(* ------------------------------------------------------------------ *)
Lemma ii_rb_cons base lo hi s t :
  rb_sorted base lo hi (s :: t) =
  (lo <= itimediff (s_sn s) base < hi /\ is_u32 (s_sn s) /\
   rb_sorted base (itimediff (s_sn s) base + 1) hi t).
Proof. reflexivity. Qed.

Lemma ii_rb_weaken base : forall l lo lo' hi hi',
  lo' <= lo -> hi <= hi' -> rb_sorted base lo hi l -> rb_sorted base lo' hi' l.
Proof.
  induction l as [|s t IH]; intros lo lo' hi hi' Hlo Hhi H; [exact I|].
  rewrite ii_rb_cons in *. destruct H as (Hd & Hu & Ht).
  split; [lia|]. split; [exact Hu|].
  apply IH with (lo := itimediff (s_sn s) base + 1) (hi := hi); [lia|exact Hhi|exact Ht].
Qed.

Lemma ii_rb_shift base hi : forall l lo,
  1 <= lo -> rb_sorted base lo hi l -> rb_sorted (u32 (base + 1)) (lo - 1) (hi - 1) l.
Proof.
  induction l as [|s t IH]; intros lo Hlo H; [exact I|].
  rewrite ii_rb_cons in *. destruct H as (Hd & Hu & Ht).
  rewrite ii_diff_succ by lia.
  split; [lia|]. split; [exact Hu|].
  replace (itimediff (s_sn s) base - 1 + 1) with (itimediff (s_sn s) base + 1 - 1) by lia.
  apply IH; [lia|exact Ht].
Qed.

Lemma ii_insert_sorted base hi s : is_u32 (s_sn s) -> forall l lo,
  0 <= lo -> lo <= itimediff (s_sn s) base < hi -> has_sn (s_sn s) l = false ->
  rb_sorted base lo hi l -> rb_sorted base lo hi (insert_seg s l).
Proof.
  intros Hus. induction l as [|e t IH]; intros lo Hlo Hds Hhas H; cbn [insert_seg].
  - rewrite ii_rb_cons. split; [exact Hds|]. split; [exact Hus|exact I].
  - unfold has_sn in Hhas. cbn [existsb] in Hhas.
    apply orb_false_elim in Hhas. destruct Hhas as [Hne Hhas].
    apply Z.eqb_neq in Hne.
    rewrite ii_rb_cons in H. destruct H as (Hde & Hue & Ht).
    assert (Hdd : itimediff (s_sn e) (s_sn s)
                  = itimediff (s_sn e) base - itimediff (s_sn s) base)
      by (apply ii_diff_diff; lia).
    assert (Hneq : itimediff (s_sn e) base <> itimediff (s_sn s) base).
    { intros E. apply Hne. exact (ii_diff_inj _ _ _ Hue Hus E). }
    destruct (itimediff (s_sn e) (s_sn s) >? 0) eqn:Eg.
    + apply Z.gtb_lt in Eg.
      rewrite ii_rb_cons. split; [exact Hds|]. split; [exact Hus|].
      rewrite ii_rb_cons. split; [lia|]. split; [exact Hue|exact Ht].
    + assert (Eg' : itimediff (s_sn e) (s_sn s) <= 0).
      { destruct (Z.gtb_spec (itimediff (s_sn e) (s_sn s)) 0) as [G|G]; [discriminate|exact G]. }
      rewrite ii_rb_cons. split; [exact Hde|]. split; [exact Hue|].
      apply IH; [lia|lia|exact Hhas|exact Ht].
Qed.

Lemma ii_insert_len s : forall l,
  seg_len s <= c_mtuLimit -> Forall (fun x => seg_len x <= c_mtuLimit) l ->
  Forall (fun x => seg_len x <= c_mtuLimit) (insert_seg s l).
Proof.
  induction l as [|e t IH]; intros Hs H; cbn [insert_seg].
  - constructor; [exact Hs|constructor].
  - destruct (itimediff (s_sn e) (s_sn s) >? 0).
    + constructor; [exact Hs|exact H].
    + constructor; [exact (Forall_inv H)|exact (IH Hs (Forall_inv_tail H))].
Qed.

Definition ii_rcv_ok (rwnd rnxt : Z) (rq rb : list seg) : Prop :=
  qlen rq <= rwnd /\ rb_sorted rnxt 0 rwnd rb /\
  Forall (fun s => seg_len s <= c_mtuLimit) rq /\ Forall (fun s => seg_len s <= c_mtuLimit) rb /\
  is_u32 rnxt.

Lemma ii_move_ready_ok rwnd : forall rb rq rnxt rb' rq' rn',
  ii_rcv_ok rwnd rnxt rq rb -> move_ready rb rq rnxt rwnd = (rb', rq', rn') ->
  ii_rcv_ok rwnd rn' rq' rb'.
Proof.
  induction rb as [|s t IH]; intros rq rnxt rb' rq' rn' H E; cbn [move_ready] in E.
  - inversion E; subst. exact H.
  - destruct ((s_sn s =? rnxt) && (qlen rq <? rwnd)) eqn:Ec.
    + apply andb_prop in Ec. destruct Ec as [E1 E2].
      apply Z.eqb_eq in E1. apply Z.ltb_lt in E2.
      apply (IH _ _ _ _ _) with (2 := E). clear IH E.
      destruct H as (Hq & Hs & Hlq & Hlb & Hu).
      rewrite ii_rb_cons in Hs. destruct Hs as (Hd & Hus & Ht).
      rewrite E1, itimediff_self in Hd, Ht.
      split; [|split; [|split; [|split]]].
      * unfold qlen in *. rewrite app_length. cbn [length]. lia.
      * apply ii_rb_weaken with (lo := 0 + 1 - 1) (hi := rwnd - 1); [lia|lia|].
        apply ii_rb_shift; [lia|exact Ht].
      * apply Forall_app. split; [exact Hlq|].
        constructor; [exact (Forall_inv Hlb)|constructor].
      * exact (Forall_inv_tail Hlb).
      * apply u32_range.
    + inversion E; subst. exact H.
Qed.
