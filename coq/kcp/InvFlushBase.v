(* Helper lemmas for InvFlush.v: flush split into its phases, one lemma (or two: a structural
   one and a "no fault" one) per phase.  All names are prefixed fl_. *)
From Coq Require Import ZArith List Bool Lia.
From KV.Base Require Import Consts Word WordLemmas.
From KV.Kcp Require Import Kcp Step.
Import ListNotations.
Local Open Scope Z_scope.

Ltac Zify.zify_post_hook ::= Z.div_mod_to_equations.

(* ---- tactics ---- *)
Ltac fl_b2z :=
  repeat match goal with
  | H : (_ >? _) = true |- _ => apply Z.gtb_lt in H
  | H : (_ >? _) = false |- _ => rewrite Z.gtb_ltb in H; apply Z.ltb_ge in H
  | H : (_ <? _) = true |- _ => apply Z.ltb_lt in H
  | H : (_ <? _) = false |- _ => apply Z.ltb_ge in H
  | H : (_ >=? _) = true |- _ => rewrite Z.geb_leb in H; apply Z.leb_le in H
  | H : (_ >=? _) = false |- _ => rewrite Z.geb_leb in H; apply Z.leb_gt in H
  | H : (_ <=? _) = true |- _ => apply Z.leb_le in H
  | H : (_ <=? _) = false |- _ => apply Z.leb_gt in H
  | H : (_ =? _) = true |- _ => apply Z.eqb_eq in H
  | H : (_ =? _) = false |- _ => apply Z.eqb_neq in H
  end.

(* projections of record updates compute: no projection lemmas needed *)
Ltac fl_fields :=
  cbn [set_queues set_snd_queue set_rcv_queue set_snd_buf set_rcv_buf set_seq set_snd_una
       set_snd_nxt set_rcv_nxt set_rtt set_cc set_rmt_wnd set_probe set_probe_flags set_timer
       set_acklist
       conv mtu mss state snd_una snd_nxt rcv_nxt ssthresh rx_rttvar rx_srtt rx_rto rx_minrto
       snd_wnd rcv_wnd rmt_wnd cwnd incr probe ts_probe probe_wait interval ts_flush nodelay
       updated dead_link fastresend nocwnd stream snd_queue rcv_queue snd_buf rcv_buf acklist
       buflen].
Ltac fl_fields_in H :=
  cbn [set_queues set_snd_queue set_rcv_queue set_snd_buf set_rcv_buf set_seq set_snd_una
       set_snd_nxt set_rcv_nxt set_rtt set_cc set_rmt_wnd set_probe set_probe_flags set_timer
       set_acklist
       conv mtu mss state snd_una snd_nxt rcv_nxt ssthresh rx_rttvar rx_srtt rx_rto rx_minrto
       snd_wnd rcv_wnd rmt_wnd cwnd incr probe ts_probe probe_wait interval ts_flush nodelay
       updated dead_link fastresend nocwnd stream snd_queue rcv_queue snd_buf rcv_buf acklist
       buflen] in H.
Ltac fl_segf :=
  cbn [s_conv s_cmd s_frg s_wnd s_ts s_sn s_una s_rto s_xmit s_resendts s_fastack s_acked s_data].

(* ---- lengths ---- *)
Lemma fl_qlen_app l1 l2 : qlen (l1 ++ l2) = qlen l1 + qlen l2.
Proof. unfold qlen. rewrite app_length. lia. Qed.

Lemma fl_qlen_nonneg l : 0 <= qlen l.
Proof. unfold qlen. lia. Qed.

Lemma fl_qlen_cons s l : qlen (s :: l) = qlen l + 1.
Proof. unfold qlen. cbn [length]. lia. Qed.

Lemma fl_blen_app a b : blen (a ++ b) = blen a + blen b.
Proof. unfold blen. rewrite app_length. lia. Qed.

Lemma fl_blen_nonneg a : 0 <= blen a.
Proof. unfold blen. lia. Qed.

Lemma fl_blen_nil : blen [] = 0.
Proof. reflexivity. Qed.

Lemma fl_encode_len s : blen (encode_seg s) = c_IKCP_OVERHEAD + blen (s_data s).
Proof.
  unfold encode_seg, blen, c_IKCP_OVERHEAD. rewrite !app_length.
  cbn [length le32 le16]. lia.
Qed.

(* ---- frame: what wire_seg_ok / dgram_ok read of the state ---- *)
Definition fl_wire_same (k k' : kcp) : Prop :=
  conv k' = conv k /\ mtu k' = mtu k /\ mss k' = mss k /\
  rcv_queue k' = rcv_queue k /\ rcv_wnd k' = rcv_wnd k /\ rcv_nxt k' = rcv_nxt k.

Lemma fl_wnd_unused_frame k k' :
  rcv_queue k' = rcv_queue k -> rcv_wnd k' = rcv_wnd k -> wnd_unused k' = wnd_unused k.
Proof. intros Hq Hw. unfold wnd_unused. rewrite Hq, Hw. reflexivity. Qed.

Lemma fl_wire_frame k k' s : fl_wire_same k k' -> wire_seg_ok k s -> wire_seg_ok k' s.
Proof.
  intros (Hc & Hm & Hs & Hq & Hw & Hn) (W1 & W2 & W3 & W4 & W5 & W6).
  unfold wire_seg_ok. rewrite Hc, Hs, Hn, (fl_wnd_unused_frame k k' Hq Hw). repeat split; assumption.
Qed.

Lemma fl_dgram_frame k k' d : fl_wire_same k k' -> dgram_ok k d -> dgram_ok k' d.
Proof.
  intros Hs (Hl & segs & Hne & Hd & Hw). pose proof Hs as (Hc & Hm & _).
  split; [rewrite Hm; exact Hl|]. exists segs. split; [exact Hne|]. split; [exact Hd|].
  eapply Forall_impl; [|exact Hw]. intros s. apply fl_wire_frame. exact Hs.
Qed.

(* ---- the staging buffer ---- *)
Definition fl_K1 (k : kcp) : Prop :=
  c_IKCP_OVERHEAD < mtu k <= c_mtuLimit /\ mss k = mtu k - c_IKCP_OVERHEAD /\
  buflen k = (mtu k + c_IKCP_OVERHEAD) * 3.

Lemma fl_K1_inv k : inv k -> fl_K1 k.
Proof. intros H. split; [apply (I_mtu k H)|]. split; [apply (I_mss k H)|apply (I_buflen k H)]. Qed.

Definition fl_stage_ok (k : kcp) (st : stage) : Prop :=
  (exists segs, cur st = concat (map encode_seg segs) /\ Forall (wire_seg_ok k) segs) /\
  blen (cur st) <= mtu k /\ Forall (dgram_ok k) (outs st).

Lemma fl_stage0_ok k : fl_K1 k -> fl_stage_ok k (mkStage [] []).
Proof.
  intros (Hm & _). split; [exists []; split; [reflexivity|constructor]|].
  cbn [cur outs]. rewrite fl_blen_nil. unfold c_IKCP_OVERHEAD in Hm. split; [lia|constructor].
Qed.

Lemma fl_space_ok k0 k st space :
  mtu k = mtu k0 -> 0 <= space <= mtu k0 -> fl_stage_ok k0 st ->
  fl_stage_ok k0 (make_space k st space) /\ blen (cur (make_space k st space)) + space <= mtu k0.
Proof.
  intros Hm Hs ((segs & Hc & Hw) & Hl & Ho). unfold make_space. rewrite Hm.
  destruct (blen (cur st) + space >? mtu k0) eqn:E; fl_b2z.
  - unfold fl_stage_ok. cbn [cur outs]. rewrite fl_blen_nil. split; [|lia].
    split; [exists []; split; [reflexivity|constructor]|]. split; [lia|].
    constructor; [|exact Ho]. split; [lia|]. exists segs. split; [|split; assumption].
    intro Hn. subst segs. cbn [map concat] in Hc. rewrite Hc, fl_blen_nil in E. lia.
  - split; [|lia]. split; [exists segs; split; assumption|]. split; assumption.
Qed.

Lemma fl_stwrite_ok k0 k st s :
  fl_K1 k0 -> buflen k = buflen k0 -> fl_stage_ok k0 st -> wire_seg_ok k0 s ->
  blen (cur st) + c_IKCP_OVERHEAD + blen (s_data s) <= mtu k0 ->
  exists st', stage_write k st s = Ok st' /\ fl_stage_ok k0 st'.
Proof.
  intros (Hm & Hmss & Hb) Hbl ((segs & Hc & Hw) & Hl & Ho) Hs Hfit.
  unfold stage_write. rewrite Hbl, Hb.
  destruct (blen (cur st) + c_IKCP_OVERHEAD + blen (s_data s) >? (mtu k0 + c_IKCP_OVERHEAD) * 3) eqn:E; fl_b2z.
  - unfold c_IKCP_OVERHEAD in *. lia.
  - eexists. split; [reflexivity|]. unfold fl_stage_ok. cbn [cur outs]. split.
    + exists (segs ++ [s]). split.
      * rewrite map_app, concat_app. cbn [map concat]. rewrite app_nil_r, Hc. reflexivity.
      * apply Forall_app. split; [exact Hw|]. constructor; [exact Hs|constructor].
    + split; [|exact Ho]. rewrite fl_blen_app, fl_encode_len. lia.
Qed.

(* make room for one segment, then write it *)
Lemma fl_write_ok k0 k st s space :
  fl_K1 k0 -> mtu k = mtu k0 -> buflen k = buflen k0 -> fl_stage_ok k0 st -> wire_seg_ok k0 s ->
  space = c_IKCP_OVERHEAD + blen (s_data s) ->
  exists st', stage_write k (make_space k st space) s = Ok st' /\ fl_stage_ok k0 st'.
Proof.
  intros HK Hm Hb Hst Hs Hsp. pose proof HK as (Hmt & Hmss & _).
  assert (Hr : 0 <= space <= mtu k0).
  { destruct Hs as (_ & _ & _ & _ & Hl & _). unfold seg_len in Hl.
    pose proof (fl_blen_nonneg (s_data s)). unfold c_IKCP_OVERHEAD in *. lia. }
  destruct (fl_space_ok k0 k st space Hm Hr Hst) as (Hst1 & Hfit).
  apply (fl_stwrite_ok k0 k _ s HK Hb Hst1 Hs). lia.
Qed.

Lemma fl_flush_buffer_ok k st : fl_stage_ok k st -> Forall (dgram_ok k) (flush_buffer st).
Proof.
  intros ((segs & Hc & Hw) & Hl & Ho). unfold flush_buffer. apply Forall_rev.
  destruct (blen (cur st) >? 0) eqn:E; fl_b2z; [|exact Ho].
  constructor; [|exact Ho]. split; [lia|]. exists segs. split; [|split; assumption].
  intro Hn. subst segs. cbn [map concat] in Hc. rewrite Hc, fl_blen_nil in E. lia.
Qed.

(* ---- headers ---- *)
Definition fl_h0 (k : kcp) : seg :=
  mkSeg (conv k) c_IKCP_CMD_ACK 0 (wnd_unused k) 0 0 (rcv_nxt k) 0 0 0 0 0 [].

Definition fl_hdr_ok (k : kcp) (h : seg) : Prop :=
  s_conv h = conv k /\ s_cmd h = c_IKCP_CMD_ACK /\ s_wnd h = wnd_unused k /\ s_una h = rcv_nxt k.

Lemma fl_h0_ok k : fl_hdr_ok k (fl_h0 k).
Proof. repeat split. Qed.

Lemma fl_hdr_wire k h c ts sn frg :
  fl_K1 k -> fl_hdr_ok k h -> cmd_ok c -> c <> c_IKCP_CMD_PUSH \/ True ->
  wire_seg_ok k (mkSeg (s_conv h) c frg (s_wnd h) ts sn (s_una h) 0 0 0 0 0 []).
Proof.
  intros (Hm & Hmss & _) (H1 & H2 & H3 & H4) Hc _. unfold wire_seg_ok, seg_len. fl_segf.
  rewrite fl_blen_nil. repeat split; try assumption. unfold c_IKCP_OVERHEAD in *. lia.
Qed.

(* ---- phase 1 ---- *)
Lemma fl_acks_ok k : fl_K1 k ->
  forall al h st, fl_hdr_ok k h -> fl_stage_ok k st ->
    exists h' st', flush_acks k h st al = Ok (h', st') /\ fl_hdr_ok k h' /\ fl_stage_ok k st'.
Proof.
  intros HK. induction al as [|[sn ts] t IH]; intros h st Hh Hst.
  - exists h, st. cbn [flush_acks]. split; [reflexivity|split; assumption].
  - cbn [flush_acks].
    assert (Hsp : 0 <= c_IKCP_OVERHEAD <= mtu k) by (destruct HK as (Hm & _); unfold c_IKCP_OVERHEAD in *; lia).
    destruct (fl_space_ok k k st c_IKCP_OVERHEAD eq_refl Hsp Hst) as (Hst1 & Hfit).
    destruct ((itimediff sn (rcv_nxt k) >=? 0) || match t with [] => true | _ :: _ => false end) eqn:E.
    + set (h1 := mkSeg (s_conv h) (s_cmd h) (s_frg h) (s_wnd h) ts sn (s_una h) 0 0 0 0 0 []).
      assert (Hh1 : fl_hdr_ok k h1) by (unfold fl_hdr_ok, h1; fl_segf; exact Hh).
      assert (Hw1 : wire_seg_ok k h1).
      { unfold h1. apply fl_hdr_wire; [exact HK|exact Hh| |right; exact I].
        destruct Hh as (_ & B & _). rewrite B. right; left; reflexivity. }
      destruct (fl_stwrite_ok k k (make_space k st c_IKCP_OVERHEAD) h1 HK eq_refl Hst1 Hw1) as (st2 & Hw & Hst2).
      { unfold h1. fl_segf. rewrite fl_blen_nil. lia. }
      rewrite Hw. apply IH; assumption.
    + apply IH; assumption.
Qed.

Definition fl_ph1 (k : kcp) (ft : Z) : res (seg * stage * kcp) :=
  if (ft =? FLUSH_ACKONLY) || (ft =? FLUSH_FULL)
  then match flush_acks k (fl_h0 k) (mkStage [] []) (acklist k) with
       | Ok (h, st) => Ok (h, st, set_acklist k [])
       | Panic w => Panic w
       end
  else Ok (fl_h0 k, mkStage [] [], k).

Lemma fl_set_acklist_id k : set_acklist k (acklist k) = k.
Proof. destruct k; reflexivity. Qed.

(* structural *)
Lemma fl_ph1_shape k ft h1 st1 k1 :
  fl_ph1 k ft = Ok (h1, st1, k1) ->
  exists al, k1 = set_acklist k al /\ (ft = FLUSH_FULL \/ ft = FLUSH_ACKONLY -> al = []).
Proof.
  unfold fl_ph1. intros H.
  destruct ((ft =? FLUSH_ACKONLY) || (ft =? FLUSH_FULL)) eqn:E.
  - destruct (flush_acks k (fl_h0 k) (mkStage [] []) (acklist k)) as [[h st]|w]; [|discriminate].
    inversion H; subst. exists []. split; [reflexivity|]. intros _; reflexivity.
  - inversion H; subst. exists (acklist k1). split; [symmetry; apply fl_set_acklist_id|].
    apply orb_false_iff in E. destruct E as (E1 & E2). fl_b2z. intros [F|F]; contradiction.
Qed.

Lemma fl_ph1_ok k ft : fl_K1 k ->
  exists h1 st1 k1, fl_ph1 k ft = Ok (h1, st1, k1) /\ fl_hdr_ok k h1 /\ fl_stage_ok k st1.
Proof.
  intros HK. unfold fl_ph1. destruct ((ft =? FLUSH_ACKONLY) || (ft =? FLUSH_FULL)).
  - destruct (fl_acks_ok k HK (acklist k) (fl_h0 k) (mkStage [] []) (fl_h0_ok k) (fl_stage0_ok k HK))
      as (h' & st' & He & Hh & Hs).
    rewrite He. exists h', st', (set_acklist k []). split; [reflexivity|split; assumption].
  - exists (fl_h0 k), (mkStage [] []), k. split; [reflexivity|]. split; [apply fl_h0_ok|apply fl_stage0_ok; exact HK].
Qed.

(* ---- phase 2 ---- *)
Definition fl_ph2 (k1 : kcp) (now : Z) : kcp :=
  if rmt_wnd k1 =? 0 then
    if probe_wait k1 =? 0 then set_probe k1 (probe k1) (u32 (now + c_IKCP_PROBE_INIT)) c_IKCP_PROBE_INIT
    else if itimediff now (ts_probe k1) >=? 0 then
      let pw := if probe_wait k1 <? c_IKCP_PROBE_INIT then c_IKCP_PROBE_INIT else probe_wait k1 in
      let pw := u32 (pw + pw / 2) in
      let pw := if pw >? c_IKCP_PROBE_LIMIT then c_IKCP_PROBE_LIMIT else pw in
      set_probe k1 (Z.lor (probe k1) c_IKCP_ASK_SEND) (u32 (now + pw)) pw
    else k1
  else set_probe k1 (probe k1) 0 0.

Lemma fl_set_probe_id k : set_probe k (probe k) (ts_probe k) (probe_wait k) = k.
Proof. destruct k; reflexivity. Qed.

Lemma fl_ph2_shape k1 now : exists p tsp pw, fl_ph2 k1 now = set_probe k1 p tsp pw.
Proof.
  unfold fl_ph2. destruct (rmt_wnd k1 =? 0).
  - destruct (probe_wait k1 =? 0); [do 3 eexists; reflexivity|].
    destruct (itimediff now (ts_probe k1) >=? 0); [do 3 eexists; reflexivity|].
    exists (probe k1), (ts_probe k1), (probe_wait k1). symmetry. apply fl_set_probe_id.
  - do 3 eexists; reflexivity.
Qed.

(* ---- phase 3 ---- *)
Definition fl_hdr (h1 : seg) (c : Z) : seg :=
  mkSeg (s_conv h1) c (s_frg h1) (s_wnd h1) (s_ts h1) (s_sn h1) (s_una h1) 0 0 0 0 0 [].

Definition fl_ph3 (k2 : kcp) (h1 : seg) (st : stage) (flag c : Z) : res stage :=
  if negb (Z.land (probe k2) flag =? 0)
  then stage_write k2 (make_space k2 st c_IKCP_OVERHEAD) (fl_hdr h1 c)
  else Ok st.

Lemma fl_ph3_ok k0 k2 h1 st flag c :
  fl_K1 k0 -> mtu k2 = mtu k0 -> buflen k2 = buflen k0 -> fl_hdr_ok k0 h1 -> fl_stage_ok k0 st ->
  cmd_ok c ->
  exists st', fl_ph3 k2 h1 st flag c = Ok st' /\ fl_stage_ok k0 st'.
Proof.
  intros HK Hm Hb Hh Hst Hc. unfold fl_ph3.
  destruct (negb (Z.land (probe k2) flag =? 0)); [|exists st; split; [reflexivity|exact Hst]].
  apply (fl_write_ok k0 k2 st (fl_hdr h1 c) c_IKCP_OVERHEAD HK Hm Hb Hst).
  - unfold fl_hdr. apply fl_hdr_wire; [exact HK|exact Hh|exact Hc|right; exact I].
  - unfold fl_hdr. fl_segf. rewrite fl_blen_nil. lia.
Qed.

(* ---- phase 4 ---- *)
Lemma fl_contig_app l1 : forall b l2,
  contiguous b l1 -> contiguous (u32 (b + qlen l1)) l2 -> is_u32 b -> contiguous b (l1 ++ l2).
Proof.
  induction l1 as [|s t IH]; intros b l2 H1 H2 Hb.
  - cbn [app]. unfold qlen in H2. cbn [length Z.of_nat] in H2.
    rewrite Z.add_0_r, u32_id in H2; assumption.
  - cbn [app contiguous] in *. destruct H1 as (Hs & Ht). split; [exact Hs|].
    apply IH; [exact Ht| |apply u32_range].
    rewrite u32_add_mod. rewrite fl_qlen_cons in H2.
    replace (b + 1 + qlen t) with (b + (qlen t + 1)) by lia. exact H2.
Qed.

Definition fl_fresh (m : Z) (s : seg) : Prop := seg_len s <= m /\ s_xmit s = 0 /\ s_acked s = 0.

Lemma fl_admit_spec W m cv una cw :
  0 <= cw <= W -> W < 32768 ->
  forall sq sb nxt n sq' sb' nxt' n',
    admit_segs sq sb cv una nxt cw n = (sq', sb', nxt', n') ->
    nxt = u32 (una + qlen sb) -> qlen sb <= W -> Forall (fl_fresh m) sq ->
    exists pre adm,
      sq = pre ++ sq' /\ sb' = sb ++ adm /\ nxt' = u32 (una + qlen sb') /\ qlen sb' <= W /\
      n' = n + qlen adm /\ (adm = [] \/ qlen sb' <= cw) /\
      Forall (fun s => fl_fresh m s /\ s_conv s = cv /\ s_cmd s = c_IKCP_CMD_PUSH) adm /\
      contiguous (u32 (una + qlen sb)) adm.
Proof.
  intros Hcw HW. induction sq as [|s t IH]; intros sb nxt n sq' sb' nxt' n' He Hn Hl Hf.
  - cbn [admit_segs] in He. inversion He; subst. exists [], []. rewrite !app_nil_r.
    split; [reflexivity|]. split; [reflexivity|]. split; [reflexivity|]. split; [assumption|].
    split; [unfold qlen; cbn [length Z.of_nat]; lia|]. split; [left; reflexivity|].
    split; [constructor|exact I].
  - cbn [admit_segs] in He.
    destruct (itimediff nxt (u32 (una + cw)) >=? 0) eqn:E.
    + inversion He; subst. exists [], []. rewrite !app_nil_r.
    split; [reflexivity|]. split; [reflexivity|]. split; [reflexivity|]. split; [assumption|].
    split; [unfold qlen; cbn [length Z.of_nat]; lia|]. split; [left; reflexivity|].
    split; [constructor|exact I].
    + fl_b2z. pose proof (fl_qlen_nonneg sb) as Hq0.
      assert (Hlt : qlen sb < cw).
      { rewrite Hn in E. rewrite itimediff_index in E; [lia|]. unfold H32. lia. }
      set (s' := mkSeg cv c_IKCP_CMD_PUSH (s_frg s) (s_wnd s) (s_ts s) nxt (s_una s)
                       (s_rto s) (s_xmit s) (s_resendts s) (s_fastack s) (s_acked s) (s_data s)) in *.
      assert (Hq1 : qlen (sb ++ [s']) = qlen sb + 1).
      { rewrite fl_qlen_app. unfold qlen at 2. cbn [length Z.of_nat]. lia. }
      inversion Hf as [|x y Hfs Hft]; subst x y.
      destruct (IH (sb ++ [s']) (u32 (nxt + 1)) (n + 1) sq' sb' nxt' n' He) as
          (pre & adm & Hsq & Hsb & Hnx & Hlen & Hn' & Hcwb & Hadm & Hcont).
      * rewrite Hn, Hq1, u32_add_mod. f_equal. lia.
      * lia.
      * exact Hft.
      * exists (s :: pre), (s' :: adm). rewrite <- app_assoc in Hsb. cbn [app] in Hsb.
        split; [cbn [app]; rewrite Hsq; reflexivity|]. split; [exact Hsb|].
        split; [exact Hnx|]. split; [exact Hlen|]. split; [rewrite fl_qlen_cons; lia|].
        split.
        { right. destruct Hcwb as [Hnil|Hle]; [|exact Hle].
          subst adm. rewrite Hsb. change (sb ++ [s']) with (sb ++ [s']). rewrite Hq1. lia. }
        split.
        { constructor; [|exact Hadm]. destruct Hfs as (F1 & F2 & F3).
          unfold fl_fresh, seg_len, s'. fl_segf. repeat split; assumption. }
        cbn [contiguous]. split; [unfold s'; fl_segf; exact Hn|].
        rewrite Hq1 in Hcont. rewrite u32_add_mod.
        replace (una + qlen sb + 1) with (una + (qlen sb + 1)) by lia. exact Hcont.
Qed.

Definition fl_cw (k3 : kcp) : Z :=
  let cw0 := Z.min (snd_wnd k3) (rmt_wnd k3) in
  if nocwnd k3 =? 0 then Z.min (cwnd k3) cw0 else cw0.

Definition fl_ph4 (k3 : kcp) (ft : Z) : list seg * list seg * Z * Z :=
  if ft =? FLUSH_FULL
  then admit_segs (snd_queue k3) (snd_buf k3) (conv k3) (snd_una k3) (snd_nxt k3) (fl_cw k3) 0
  else (snd_queue k3, snd_buf k3, snd_nxt k3, 0).

Definition fl_k4 (k3 : kcp) (sq sb : list seg) (nxt : Z) : kcp :=
  set_snd_nxt (set_queues k3 sq (rcv_queue k3) sb (rcv_buf k3)) nxt.

Definition fl_resent (k4 : kcp) : Z :=
  if fastresend k4 <=? 0 then 4294967295 else u32 (fastresend k4).

(* ---- phase 5 ---- *)
(* what flush_seg keeps of a segment *)
Definition fl_seg_rel (full : Prop) (s s' : seg) : Prop :=
  s_sn s' = s_sn s /\ s_data s' = s_data s /\ s_conv s' = s_conv s /\ s_cmd s' = s_cmd s /\
  s_acked s' = s_acked s /\ (full -> s_xmit s = 0 -> s_acked s = 0 -> s_xmit s' = 1).

Lemma fl_seg_rel_refl (P : Prop) s : ~ P -> fl_seg_rel P s s.
Proof. intros Hn. repeat split. intros Hp; contradiction. Qed.

Lemma fl_seg_rel_weaken (P : Prop) s s' : fl_seg_rel True s s' -> fl_seg_rel P s s'.
Proof.
  intros (R1 & R2 & R3 & R4 & R5 & R6). repeat split; try assumption. intros _. apply R6. exact I.
Qed.

Lemma fl_u32_1 : u32 (0 + 1) = 1.
Proof. reflexivity. Qed.

Lemma fl_seg_rel_of k h resent newsegs now s a s' a' :
  flush_seg k h resent newsegs now s a = Ok (s', a') -> fl_seg_rel True s s'.
Proof.
  unfold flush_seg. intros H.
  destruct (s_acked s =? 1) eqn:Ea.
  { inversion H; subst. repeat split. fl_b2z. intros _ _ Hk. rewrite Hk in Ea. discriminate. }
  assert (Hgen : forall t : bool * Z * Z * Z * fl,
    (let '(needsend, rto, resendts, fastack, a1) := t in
    let finish (s' : seg) (a' : fl) : res (seg * fl) :=
      let d := itimediff (s_resendts s') now in
      let nx := if (d >? 0) && (d <? f_next a') then d else f_next a' in
      Ok (s', mkFl (f_st a') (f_change a') (f_lost a') (f_fast a') (f_early a') nx (f_dead a')) in
    if needsend then
      let s' := mkSeg (s_conv s) (s_cmd s) (s_frg s) (s_wnd h) now (s_sn s) (s_una h)
                      rto (u32 (s_xmit s + 1)) resendts fastack (s_acked s) (s_data s) in
      let st1 := make_space k (f_st a1) (c_IKCP_OVERHEAD + blen (s_data s)) in
      match stage_write k st1 s' with
      | Panic w => Panic w
      | Ok st2 =>
          finish s' (mkFl st2 (f_change a1) (f_lost a1) (f_fast a1) (f_early a1) (f_next a1)
                          ((s_xmit s' >=? dead_link k) || f_dead a1))
      end
    else
      finish (mkSeg (s_conv s) (s_cmd s) (s_frg s) (s_wnd s) (s_ts s) (s_sn s) (s_una s)
                    rto (s_xmit s) resendts fastack (s_acked s) (s_data s)) a1) = Ok (s', a') ->
    (s_xmit s = 0 -> (let '(ns, _, _, _, _) := t in ns) = true) -> fl_seg_rel True s s').
  { intros [[[[ns rto] rts] fa] a1] HH Hx. cbv beta iota zeta in HH, Hx. destruct ns.
    - destruct (stage_write k _ _); [|discriminate]. inversion HH; subst.
      unfold fl_seg_rel. fl_segf. repeat split. intros _ Hz _. rewrite Hz. apply fl_u32_1.
    - inversion HH; subst. unfold fl_seg_rel. fl_segf. repeat split.
      intros _ Hz _. specialize (Hx Hz). discriminate. }
  apply (Hgen _ H). intros Hz.
  destruct (s_xmit s =? 0) eqn:Ex; [reflexivity|]. fl_b2z. contradiction.
Qed.

Lemma fl_seg_ok k0 k h resent newsegs now s a :
  fl_K1 k0 -> mtu k = mtu k0 -> buflen k = buflen k0 -> fl_hdr_ok k0 h ->
  fl_stage_ok k0 (f_st a) ->
  seg_len s <= mss k0 -> s_conv s = conv k0 -> s_cmd s = c_IKCP_CMD_PUSH ->
  exists s' a', flush_seg k h resent newsegs now s a = Ok (s', a') /\ fl_stage_ok k0 (f_st a').
Proof.
  intros HK Hm Hb Hh Hst Hl Hc Hp. unfold flush_seg.
  destruct (s_acked s =? 1) eqn:Ea.
  { exists s, a. split; [reflexivity|exact Hst]. }
  assert (Hgen : forall t : bool * Z * Z * Z * fl,
    fl_stage_ok k0 (f_st (let '(_, _, _, _, a1) := t in a1)) ->
    exists (s' : seg) (a' : fl),
    (let '(needsend, rto, resendts, fastack, a1) := t in
    let finish (s' : seg) (a' : fl) : res (seg * fl) :=
      let d := itimediff (s_resendts s') now in
      let nx := if (d >? 0) && (d <? f_next a') then d else f_next a' in
      Ok (s', mkFl (f_st a') (f_change a') (f_lost a') (f_fast a') (f_early a') nx (f_dead a')) in
    if needsend then
      let s' := mkSeg (s_conv s) (s_cmd s) (s_frg s) (s_wnd h) now (s_sn s) (s_una h)
                      rto (u32 (s_xmit s + 1)) resendts fastack (s_acked s) (s_data s) in
      let st1 := make_space k (f_st a1) (c_IKCP_OVERHEAD + blen (s_data s)) in
      match stage_write k st1 s' with
      | Panic w => Panic w
      | Ok st2 =>
          finish s' (mkFl st2 (f_change a1) (f_lost a1) (f_fast a1) (f_early a1) (f_next a1)
                          ((s_xmit s' >=? dead_link k) || f_dead a1))
      end
    else
      finish (mkSeg (s_conv s) (s_cmd s) (s_frg s) (s_wnd s) (s_ts s) (s_sn s) (s_una s)
                    rto (s_xmit s) resendts fastack (s_acked s) (s_data s)) a1) = Ok (s', a') /\
    fl_stage_ok k0 (f_st a')).
  { intros [[[[ns rto] rts] fa] a1] Hst1. cbv beta iota zeta in Hst1 |- *. destruct ns.
    - set (s1 := mkSeg (s_conv s) (s_cmd s) (s_frg s) (s_wnd h) now (s_sn s) (s_una h)
                       rto (u32 (s_xmit s + 1)) rts fa (s_acked s) (s_data s)).
      assert (Hw : wire_seg_ok k0 s1).
      { destruct Hh as (H1 & H2 & H3 & H4). unfold wire_seg_ok, seg_len, s1. fl_segf.
        repeat split; try assumption.
        - rewrite Hp. left; reflexivity.
        - intros Hne. contradiction. }
      destruct (fl_write_ok k0 k (f_st a1) s1 (c_IKCP_OVERHEAD + blen (s_data s)) HK Hm Hb Hst1 Hw)
        as (st2 & Hwr & Hst2); [reflexivity|].
      rewrite Hwr. do 2 eexists. split; [reflexivity|]. cbn [f_st]. exact Hst2.
    - do 2 eexists. split; [reflexivity|]. cbn [f_st]. exact Hst1. }
  apply Hgen.
  destruct (s_xmit s =? 0); [exact Hst|].
  destruct ((s_fastack s >=? resent) && negb (s_fastack s =? 4294967295)); [exact Hst|].
  destruct ((s_fastack s >? 0) && negb (s_fastack s =? 4294967295) && (newsegs =? 0)); [exact Hst|].
  destruct (itimediff now (s_resendts s) >=? 0); exact Hst.
Qed.

Lemma fl_segs_rel k h resent newsegs now : forall l a l' a',
  flush_segs k h resent newsegs now l a = Ok (l', a') -> Forall2 (fl_seg_rel True) l l'.
Proof.
  induction l as [|s t IH]; intros a l' a' H; cbn [flush_segs] in H.
  - inversion H; subst. constructor.
  - destruct (flush_seg k h resent newsegs now s a) as [[s1 a1]|w] eqn:E1; [|discriminate].
    destruct (flush_segs k h resent newsegs now t a1) as [[t1 a2]|w] eqn:E2; [|discriminate].
    inversion H; subst. constructor; [eapply fl_seg_rel_of; exact E1|eapply IH; exact E2].
Qed.

Lemma fl_segs_ok k0 k h resent newsegs now :
  fl_K1 k0 -> mtu k = mtu k0 -> buflen k = buflen k0 -> fl_hdr_ok k0 h ->
  forall l a, fl_stage_ok k0 (f_st a) ->
    Forall (fun s => seg_len s <= mss k0) l ->
    Forall (fun s => s_conv s = conv k0 /\ s_cmd s = c_IKCP_CMD_PUSH) l ->
    exists l' a', flush_segs k h resent newsegs now l a = Ok (l', a') /\ fl_stage_ok k0 (f_st a').
Proof.
  intros HK Hm Hb Hh. induction l as [|s t IH]; intros a Hst Hl Hp; cbn [flush_segs].
  - exists [], a. split; [reflexivity|exact Hst].
  - inversion Hl as [|x y Hl1 Hl2]; subst x y. inversion Hp as [|x y [Hp1 Hp1'] Hp2]; subst x y.
    destruct (fl_seg_ok k0 k h resent newsegs now s a HK Hm Hb Hh Hst Hl1 Hp1 Hp1') as (s1 & a1 & E1 & Hst1).
    rewrite E1. destruct (IH a1 Hst1 Hl2 Hp2) as (t1 & a2 & E2 & Hst2).
    rewrite E2. exists (s1 :: t1), a2. split; [reflexivity|exact Hst2].
Qed.

(* consequences of Forall2 fl_seg_rel *)
Lemma fl_rel_length P l l' : Forall2 (fl_seg_rel P) l l' -> qlen l' = qlen l.
Proof.
  induction 1 as [|s s' t t' Hr Ht IH]; [reflexivity|]. rewrite !fl_qlen_cons, IH. reflexivity.
Qed.

Lemma fl_rel_contig P l l' : Forall2 (fl_seg_rel P) l l' -> forall b, contiguous b l -> contiguous b l'.
Proof.
  induction 1 as [|s s' t t' Hr Ht IH]; intros b Hc; [exact I|].
  cbn [contiguous] in *. destruct Hc as (H1 & H2). destruct Hr as (R1 & _).
  split; [rewrite R1; exact H1|apply IH; exact H2].
Qed.

Lemma fl_rel_len P m l l' : Forall2 (fl_seg_rel P) l l' ->
  Forall (fun s => seg_len s <= m) l -> Forall (fun s => seg_len s <= m) l'.
Proof.
  induction 1 as [|s s' t t' Hr Ht IH]; intros Hf; [constructor|].
  inversion Hf as [|x y H1 H2]; subst x y. destruct Hr as (_ & R2 & _).
  constructor; [unfold seg_len in *; rewrite R2; exact H1|apply IH; exact H2].
Qed.

Lemma fl_rel_push P cv l l' : Forall2 (fl_seg_rel P) l l' ->
  Forall (fun s => s_conv s = cv /\ s_cmd s = c_IKCP_CMD_PUSH) l ->
  Forall (fun s => s_conv s = cv /\ s_cmd s = c_IKCP_CMD_PUSH) l'.
Proof.
  induction 1 as [|s s' t t' Hr Ht IH]; intros Hf; [constructor|].
  inversion Hf as [|x y [H1 H1'] H2]; subst x y. destruct Hr as (_ & _ & R3 & R4 & _).
  constructor; [rewrite R3, R4; split; assumption|apply IH; exact H2].
Qed.

Lemma fl_rel_xmit (P : Prop) m l l' : P -> Forall2 (fl_seg_rel P) l l' ->
  Forall (fl_fresh m) l -> Forall (fun s => s_xmit s = 1) l'.
Proof.
  intros HP. induction 1 as [|s s' t t' Hr Ht IH]; intros Hf; [constructor|].
  inversion Hf as [|x y (_ & H1 & H1') H2]; subst x y. destruct Hr as (_ & _ & _ & _ & _ & R6).
  constructor; [apply R6; assumption|apply IH; exact H2].
Qed.

Definition fl_ph5 (k4 : kcp) (h1 : seg) (ft newsegs now : Z) (st3 : stage) : res (list seg * fl) :=
  let a0 := mkFl st3 0 0 0 0 (interval k4) false in
  if ft =? FLUSH_FULL
  then flush_segs k4 h1 (fl_resent k4) newsegs now (snd_buf k4) a0
  else Ok (snd_buf k4, a0).

Definition fl_k5 (k4 : kcp) (sb' : list seg) (a : fl) : kcp :=
  let k5 := set_snd_buf k4 sb' in
  if f_dead a then set_timer k5 4294967295 (ts_flush k5) (updated k5) else k5.

Lemma fl_set_timer_id k : set_timer k (state k) (ts_flush k) (updated k) = k.
Proof. destruct k; reflexivity. Qed.

Lemma fl_k5_shape k4 sb' a :
  exists st, fl_k5 k4 sb' a =
             set_timer (set_snd_buf k4 sb') st (ts_flush (set_snd_buf k4 sb')) (updated (set_snd_buf k4 sb')).
Proof.
  unfold fl_k5. destruct (f_dead a); [eexists; reflexivity|].
  exists (state (set_snd_buf k4 sb')). symmetry. apply fl_set_timer_id.
Qed.

(* ---- phase 6 ---- *)
Definition fl_ph6 (k5 : kcp) (a : fl) (cw resent : Z) : kcp :=
  if nocwnd k5 =? 0 then
    let k := k5 in
    let k := if f_change a >? 0 then
               let inflight := u32 (snd_nxt k - snd_una k) in
               let sst := Z.max (inflight / 2) c_IKCP_THRESH_MIN in
               let cwn := u32 (sst + resent) in
               set_cc k sst (rmt_wnd k) cwn (u32 (cwn * mss k))
             else k in
    let k := if f_lost a >? 0 then set_cc k (Z.max (cw / 2) c_IKCP_THRESH_MIN) (rmt_wnd k) 1 (mss k) else k in
    if cwnd k <? 1 then set_cc k (ssthresh k) (rmt_wnd k) 1 (mss k) else k
  else k5.

Lemma fl_set_cc_id k : set_cc k (ssthresh k) (rmt_wnd k) (cwnd k) (incr k) = k.
Proof. destruct k; reflexivity. Qed.

Lemma fl_set_cc_cc k a b c a' b' c' :
  set_cc (set_cc k a (rmt_wnd k) b c) a' (rmt_wnd (set_cc k a (rmt_wnd k) b c)) b' c' =
  set_cc k a' (rmt_wnd k) b' c'.
Proof. destruct k; reflexivity. Qed.

(* one conditional update of the congestion state *)
Lemma fl_cc_step (P : Z -> Prop) k5 kk (c : bool) sst cwn inc :
  (exists s w i, kk = set_cc k5 s (rmt_wnd k5) w i /\ P w) -> P cwn ->
  exists s w i, (if c then set_cc kk sst (rmt_wnd kk) cwn inc else kk) = set_cc k5 s (rmt_wnd k5) w i /\ P w.
Proof.
  intros (s & w & i & He & Hp) Hc. destruct c; [|exists s, w, i; split; assumption].
  subst kk. rewrite fl_set_cc_cc. exists sst, cwn, inc. split; [reflexivity|exact Hc].
Qed.

Lemma fl_ph6_shape k5 a cw resent :
  exists sst cwn inc, fl_ph6 k5 a cw resent = set_cc k5 sst (rmt_wnd k5) cwn inc /\
                      (0 <= cwnd k5 -> 0 <= cwn) /\ (nocwnd k5 = 0 -> 1 <= cwn).
Proof.
  unfold fl_ph6. destruct (nocwnd k5 =? 0) eqn:En.
  - cbv zeta.
    assert (S0 : exists s w i, k5 = set_cc k5 s (rmt_wnd k5) w i /\ (0 <= cwnd k5 -> 0 <= w)).
    { exists (ssthresh k5), (cwnd k5), (incr k5). split; [symmetry; apply fl_set_cc_id|intros H0; exact H0]. }
    match goal with |- context [if f_change a >? 0 then set_cc k5 ?s _ ?w ?i else k5] =>
      destruct (fl_cc_step (fun z => 0 <= cwnd k5 -> 0 <= z) k5 k5 (f_change a >? 0) s w i S0) as (s1 & w1 & i1 & E1 & P1);
        [intros _; apply u32_range|]
    end.
    rewrite E1.
    match goal with |- context [if f_lost a >? 0 then set_cc ?kk ?s _ ?w ?i else ?kk] =>
      destruct (fl_cc_step (fun z => 0 <= cwnd k5 -> 0 <= z) k5 kk (f_lost a >? 0) s w i) as (s2 & w2 & i2 & E2 & P2);
        [exists s1, w1, i1; split; [reflexivity|exact P1]|intros _; lia|]
    end.
    rewrite E2. fl_fields.
    destruct (w2 <? 1) eqn:Ew; fl_b2z.
    + rewrite fl_set_cc_cc. do 3 eexists. split; [reflexivity|]. split; [intros _; lia|]. intros _; lia.
    + do 3 eexists. split; [reflexivity|]. split; [intros _; lia|]. intros _; lia.
  - fl_b2z. exists (ssthresh k5), (cwnd k5), (incr k5). split; [symmetry; apply fl_set_cc_id|].
    split; [intros H0; exact H0|]. intros Hn; contradiction.
Qed.

(* ---- flush, phase by phase ---- *)
Lemma fl_unfold k ft now :
  flush k ft now =
  match fl_ph1 k ft with
  | Panic w => Panic w
  | Ok (h1, st1, k1) =>
    let k2 := fl_ph2 k1 now in
    match fl_ph3 k2 h1 st1 c_IKCP_ASK_SEND c_IKCP_CMD_WASK with
    | Panic w => Panic w
    | Ok st2 =>
    match fl_ph3 k2 h1 st2 c_IKCP_ASK_TELL c_IKCP_CMD_WINS with
    | Panic w => Panic w
    | Ok st3 =>
    let k3 := set_probe_flags k2 0 in
    let '(sq, sb, nxt, newsegs) := fl_ph4 k3 ft in
    let k4 := fl_k4 k3 sq sb nxt in
    match fl_ph5 k4 h1 ft newsegs now st3 with
    | Panic w => Panic w
    | Ok (sb', a) =>
      Ok (fl_ph6 (fl_k5 k4 sb' a) a (fl_cw k3) (fl_resent k4), f_next a, flush_buffer (f_st a))
    end end end
  end.
Proof.
  unfold flush, fl_ph1, fl_ph2, fl_ph3, fl_ph4, fl_k4, fl_ph5, fl_k5, fl_ph6, fl_cw, fl_resent, fl_hdr, fl_h0.
  cbv zeta. reflexivity.
Qed.

Lemma fl_invert k ft now k' nx o :
  flush k ft now = Ok (k', nx, o) ->
  exists h1 st1 k1 st2 st3 sq sb nxt ns sb' a,
    fl_ph1 k ft = Ok (h1, st1, k1) /\
    fl_ph3 (fl_ph2 k1 now) h1 st1 c_IKCP_ASK_SEND c_IKCP_CMD_WASK = Ok st2 /\
    fl_ph3 (fl_ph2 k1 now) h1 st2 c_IKCP_ASK_TELL c_IKCP_CMD_WINS = Ok st3 /\
    fl_ph4 (set_probe_flags (fl_ph2 k1 now) 0) ft = (sq, sb, nxt, ns) /\
    fl_ph5 (fl_k4 (set_probe_flags (fl_ph2 k1 now) 0) sq sb nxt) h1 ft ns now st3 = Ok (sb', a) /\
    k' = fl_ph6 (fl_k5 (fl_k4 (set_probe_flags (fl_ph2 k1 now) 0) sq sb nxt) sb' a) a
                (fl_cw (set_probe_flags (fl_ph2 k1 now) 0))
                (fl_resent (fl_k4 (set_probe_flags (fl_ph2 k1 now) 0) sq sb nxt)) /\
    nx = f_next a /\ o = flush_buffer (f_st a).
Proof.
  rewrite fl_unfold. intros H.
  destruct (fl_ph1 k ft) as [[[h1 st1] k1]|w]; [|discriminate]. cbv zeta in H.
  destruct (fl_ph3 (fl_ph2 k1 now) h1 st1 c_IKCP_ASK_SEND c_IKCP_CMD_WASK) as [st2|w] eqn:E2; [|discriminate].
  destruct (fl_ph3 (fl_ph2 k1 now) h1 st2 c_IKCP_ASK_TELL c_IKCP_CMD_WINS) as [st3|w] eqn:E3; [|discriminate].
  destruct (fl_ph4 (set_probe_flags (fl_ph2 k1 now) 0) ft) as [[[sq sb] nxt] ns] eqn:E4.
  destruct (fl_ph5 (fl_k4 (set_probe_flags (fl_ph2 k1 now) 0) sq sb nxt) h1 ft ns now st3) as [[sb' a]|w] eqn:E5; [|discriminate].
  inversion H; subst.
  exists h1, st1, k1, st2, st3, sq, sb, nxt, ns, sb', a. repeat split; assumption.
Qed.

Lemma fl_compose k ft now h1 st1 k1 st2 st3 sq sb nxt ns sb' a :
    fl_ph1 k ft = Ok (h1, st1, k1) ->
    fl_ph3 (fl_ph2 k1 now) h1 st1 c_IKCP_ASK_SEND c_IKCP_CMD_WASK = Ok st2 ->
    fl_ph3 (fl_ph2 k1 now) h1 st2 c_IKCP_ASK_TELL c_IKCP_CMD_WINS = Ok st3 ->
    fl_ph4 (set_probe_flags (fl_ph2 k1 now) 0) ft = (sq, sb, nxt, ns) ->
    fl_ph5 (fl_k4 (set_probe_flags (fl_ph2 k1 now) 0) sq sb nxt) h1 ft ns now st3 = Ok (sb', a) ->
    flush k ft now =
    Ok (fl_ph6 (fl_k5 (fl_k4 (set_probe_flags (fl_ph2 k1 now) 0) sq sb nxt) sb' a) a
               (fl_cw (set_probe_flags (fl_ph2 k1 now) 0))
               (fl_resent (fl_k4 (set_probe_flags (fl_ph2 k1 now) 0) sq sb nxt)),
        f_next a, flush_buffer (f_st a)).
Proof.
  intros E1 E2 E3 E4 E5. rewrite fl_unfold, E1. cbv zeta. rewrite E2, E3, E4, E5. reflexivity.
Qed.
