(* C02 "a healed network always drains the backlog": proofs.
   Definitions (two-way system sys2, link_inv, healed_round, probe_round, drain_round) are in
   ProgressBase.v, the statements in C02b.v.  Helper names are prefixed pg_.
   1. runs of the two-way system; reach2 one step at a time (pg_reach)
   2. what Net.v's theorems give for every reachable state
   3. between the link invariant and the single-endpoint predicates of ProgressBase.v
   4. link_step / link_reach: the link invariant holds in every reachable state
   5. the healed round, piece by piece
   6. c02_round_total, c02_round_progress, c02_queue_progress
   7. the backlog is only renumbered by the round: c02_round (no-wrap bound on the start state)
   8. zero-window probing: c02_probe_round
   9. everything accepted so far as a list; the rounds as event lists (c02_round_is_run)
   10. c02_drains
   11. c02_delivered, c02_drains_delivered *)
From Coq Require Import ZArith List Bool Lia.
From KV.Base Require Import Consts Word WordLemmas.
From KV.Kcp Require Import Kcp Step Net InvBase InvApi InvInputBase InvInput InvFlushBase InvFlush InvAll
  LiveBase Live NetSenderBase NetSender NetReceiver NetAll ProgressBase.
Import ListNotations.
Local Open Scope Z_scope.

Ltac Zify.zify_post_hook ::= Z.div_mod_to_equations.

(* ================================================================== *)
(* 1. runs of the two-way system                                       *)
(* ================================================================== *)
Lemma pg_step_proj s e s' : sys2_step s e = Some s' -> sys_step (s1 s) e = Some (s1 s').
Proof.
  unfold sys2_step. destruct (sys_step (s1 s) e) as [t|]; [|discriminate].
  intros H; inversion H; subst. reflexivity.
Qed.

(* a run of the two-way system is a run of Net.v's system *)
Lemma pg_run_proj s evs s' : sys2_run s evs s' -> sys_run (s1 s) evs (s1 s').
Proof.
  induction 1 as [s|s e sa t sb Hok Hst Hrun IH]; [constructor|].
  apply run_cons with (s1 sa); [exact (proj1 Hok)|exact (pg_step_proj _ _ _ Hst)|exact IH].
Qed.

Lemma pg_run_snoc s0 evs s e s' :
  sys2_run s0 evs s -> ev_ok2 s e -> sys2_step s e = Some s' -> sys2_run s0 (evs ++ [e]) s'.
Proof.
  induction 1 as [s|s e0 sa t sb Hok Hst Hrun IH]; intros Hok' Hst'.
  - cbn [app]. eapply run2_cons; [exact Hok'|exact Hst'|constructor].
  - cbn [app]. eapply run2_cons; [exact Hok|exact Hst|]. apply IH; assumption.
Qed.

(* reach2, one step at a time *)
Inductive pg_reach : sys2 -> Prop :=
| pr_init : forall s, sys2_init s -> pg_reach s
| pr_step : forall s e s', pg_reach s -> ev_ok2 s e -> sys2_step s e = Some s' -> pg_reach s'.

Lemma pg_reach_run s0 evs s : sys2_run s0 evs s -> pg_reach s0 -> pg_reach s.
Proof.
  induction 1 as [s|s e sa t sb Hok Hst Hrun IH]; intros H0; [exact H0|].
  apply IH. eapply pr_step; eassumption.
Qed.

Lemma pg_reach_iff s : reach2 s <-> pg_reach s.
Proof.
  split.
  - intros (s0 & evs & Hi & Hr). apply (pg_reach_run s0 evs s Hr). apply pr_init. exact Hi.
  - induction 1 as [s Hi|s e s' Hr IH Hok Hst].
    + exists s, []. split; [exact Hi|constructor].
    + destruct IH as (s0 & evs & Hi & Hrun). exists s0, (evs ++ [e]). split; [exact Hi|].
      eapply pg_run_snoc; eassumption.
Qed.

(* ---- the shape of one step ---- *)
Lemma pg_stepA s o s' : sys2_step s (EA o) = Some s' ->
  exists k' x, step (kA s) o = Ok (k', x) /\
    s' = mkSys2 (mkSys k' (kB s) (ghost_sender (gA (s1 s)) (kA s) o k' x) (gB (s1 s))
                       (wire (s1 s) ++ o_dgrams x)) (wireB s).
Proof.
  unfold sys2_step, sys_step, kA, kB. destruct (step (sA (s1 s)) o) as [[k' x]|w]; [|discriminate].
  intros H; inversion H; subst. exists k', x. rewrite app_nil_r. split; reflexivity.
Qed.

Lemma pg_stepB s o s' : sys2_step s (EB o) = Some s' ->
  exists k' x, step (kB s) o = Ok (k', x) /\
    s' = mkSys2 (mkSys (kA s) k' (gA (s1 s)) (ghost_receiver (gB (s1 s)) o x) (wire (s1 s)))
                (wireB s ++ o_dgrams x).
Proof.
  unfold sys2_step, sys_step, emitted, kA, kB. destruct (step (sB (s1 s)) o) as [[k' x]|w]; [|discriminate].
  intros H; inversion H; subst. exists k', x. split; reflexivity.
Qed.

(* ================================================================== *)
(* 2. what Net.v's theorems give for every reachable state             *)
(* ================================================================== *)
Lemma pg_reach_sys s : pg_reach s -> exists s0 evs, sys_init s0 /\ sys_run s0 evs (s1 s).
Proof.
  intros H. apply pg_reach_iff in H. destruct H as (s0 & evs & (Hi & _) & Hr).
  exists (s1 s0), evs. split; [exact Hi|exact (pg_run_proj _ _ _ Hr)].
Qed.

Lemma pg_reach_base s : pg_reach s ->
  inv (kA s) /\ inv (kB s) /\ sender_inv (gA (s1 s)) (kA s) /\ rg_isn (gB (s1 s)) = isn_of s /\
  Forall (genuine_dgram (isn_of s) (numbered_of s)) (wire (s1 s)).
Proof.
  intros H. destruct (pg_reach_sys s H) as (s0 & evs & Hi & Hr).
  destruct (init_sides s0 [] Hi) as (HA & HR & Hisn).
  destruct (a_side_run s0 evs (s1 s) Hr HA (RI_inv _ _ _ HR)) as ([HA2 Hw] & HB2 & Hisn2 & _ & _ & Hrisn).
  unfold kA, kB, isn_of, numbered_of.
  split; [exact (SI_inv _ _ HA2)|]. split; [exact HB2|]. split; [exact HA2|]. split; [congruence|exact Hw].
Qed.

Lemma pg_reach_receiver s : pg_reach s -> no_wrap (numbered_of s) ->
  receiver_inv (numbered_of s) (gB (s1 s)) (kB s).
Proof.
  intros H Hnw. destruct (pg_reach_sys s H) as (s0 & evs & Hi & Hr).
  destruct (net_final s0 evs (s1 s) Hi Hr Hnw) as (_ & HR & _). exact HR.
Qed.

(* the numbering only grows *)
Lemma pg_step_numbered s e s' : pg_reach s -> ev_ok2 s e -> sys2_step s e = Some s' ->
  isn_of s' = isn_of s /\ exists ext, numbered_of s' = numbered_of s ++ ext.
Proof.
  intros Hr Hok Hst. destruct (pg_reach_base s Hr) as (HiA & HiB & Hsi & _).
  destruct (a_side_step (s1 s) e (s1 s')) as (_ & _ & Hisn & _ & Hext & _).
  - split; [exact Hsi|]. destruct (pg_reach_base s Hr) as (_ & _ & _ & _ & Hw). exact Hw.
  - exact HiB.
  - exact (proj1 Hok).
  - exact (pg_step_proj _ _ _ Hst).
  - split; [exact Hisn|exact Hext].
Qed.

Lemma pg_no_wrap_prefix (l ext : list (Z * bytes)) : no_wrap (l ++ ext) -> no_wrap l.
Proof. unfold no_wrap. rewrite app_length. lia. Qed.

(* ---- totality: a call on a reachable state never faults ---- *)
Lemma pg_ev_op_ok s e : ev_ok2 s e -> op_ok (match e with EA o | EB o => o end).
Proof. intros [H _]. destruct e as [o|o]; cbn in H; [exact (proj1 H)|exact (proj1 (proj1 H))]. Qed.

Lemma pg_step_total s e : pg_reach s -> ev_ok2 s e -> exists s', sys2_step s e = Some s'.
Proof.
  intros Hr Hok. destruct (pg_reach_base s Hr) as (HiA & HiB & _).
  pose proof (pg_ev_op_ok s e Hok) as Hop.
  unfold sys2_step, sys_step. destruct e as [o|o].
  - destruct (step_ok (kA s) o HiA Hop) as (k' & x & E & _). unfold kA in E. rewrite E. eexists; reflexivity.
  - destruct (step_ok (kB s) o HiB Hop) as (k' & x & E & _). unfold kB in E. rewrite E. eexists; reflexivity.
Qed.

(* ---- B's datagrams are byte strings (so A may be given them) ---- *)
Lemma pg_wireB_bytes s : pg_reach s ->
  (exists gb, sender_inv gb (kB s)) /\ Forall is_byte_list (wireB s).
Proof.
  induction 1 as [s Hi|s e s' Hr IH Hok Hst].
  - destruct Hi as ((HA & HB & Hc & _) & Hw & Hcv & Hq & Hb & Ha). split.
    + exists (mkSG (snd_una (kB s)) [] []). apply sender_init; try assumption; [|reflexivity].
      rewrite Hcv. exact Hc.
    + rewrite Hw. constructor.
  - destruct IH as ((gb & Hgb) & Hbytes). destruct e as [o|o].
    + destruct (pg_stepA _ _ _ Hst) as (k' & x & _ & ->). unfold kB. cbn [s1 sB wireB].
      split; [exists gb; exact Hgb|exact Hbytes].
    + destruct (pg_stepB _ _ _ Hst) as (k' & x & E & ->). unfold kB. cbn [s1 sB wireB].
      destruct Hok as [[Hop _] _].
      destruct (sender_step gb (kB s) o k' x Hgb Hop E) as (Hsi' & _ & _ & Hgen & _).
      split; [eexists; exact Hsi'|]. apply Forall_app. split; [exact Hbytes|].
      eapply Forall_impl; [|exact Hgen]. intros d Hd. exact (nr_dgram_bytes _ _ _ Hd).
Qed.

(* ================================================================== *)
(* 3. between the link invariant and the single-endpoint predicates    *)
(* ================================================================== *)
Lemma pg_sbG_nth G : forall l av,
  pg_sbG G av l <-> (forall j x, nth_error l j = Some x -> s_acked x <> 0 -> G (av + Z.of_nat j)).
Proof.
  induction l as [|y t IH]; intros av; cbn [pg_sbG].
  - split; [intros _ j x H; destruct j; discriminate|intros _; exact I].
  - split.
    + intros [H1 H2] j x Hn Ha. destruct j as [|j]; cbn [nth_error] in Hn.
      * inversion Hn; subst. rewrite Z.add_0_r. exact (H1 Ha).
      * rewrite Nat2Z.inj_succ. replace (av + Z.succ (Z.of_nat j)) with (av + 1 + Z.of_nat j) by lia.
        exact (proj1 (IH (av + 1)) H2 j x Hn Ha).
    + intros H. split.
      * intros Ha. specialize (H 0%nat y eq_refl Ha). rewrite Z.add_0_r in H. exact H.
      * apply IH. intros j x Hn Ha. specialize (H (S j) x Hn Ha). rewrite Nat2Z.inj_succ in H.
        replace (av + 1 + Z.of_nat j) with (av + Z.succ (Z.of_nat j)) by lia. exact H.
Qed.

(* A's index *)
Lemma pg_aidx s : pg_reach s -> no_wrap (numbered_of s) ->
  snd_una (kA s) = u32 (isn_of s + a_idx s) /\ 0 <= a_idx s /\
  a_idx s + qlen (snd_buf (kA s)) = Z.of_nat (length (numbered_of s)).
Proof.
  intros Hr Hnw. destruct (pg_reach_base s Hr) as (_ & _ & Hsi & _).
  destruct (SI_una _ _ Hsi) as (a & Ha & Hu & HF). fold (isn_of s) in Hu. fold (numbered_of s) in Ha, HF.
  assert (Hidx : a_idx s = Z.of_nat a).
  { unfold a_idx. fold (kA s) in Hu. rewrite Hu. apply pg_idx_u32. unfold no_wrap, H32, W32 in *. lia. }
  rewrite Hidx. split; [exact Hu|]. split; [lia|].
  apply ns_F2_length in HF. rewrite skipn_length in HF. unfold qlen. fold (kA s) in HF. lia.
Qed.

(* B's index *)
Lemma pg_ridx_sys s : pg_reach s -> no_wrap (numbered_of s) ->
  rcv_nxt (kB s) = u32 (isn_of s + r_idx s) /\ 0 <= r_idx s <= Z.of_nat (length (numbered_of s)).
Proof.
  intros Hr Hnw. destruct (pg_reach_base s Hr) as (_ & _ & _ & Hisn & _).
  pose proof (pg_reach_receiver s Hr Hnw) as HR. apply nr_receiver_inv_iff in HR. destruct HR as (_ & _ & Hk).
  destruct (pg_ridx _ _ _ _ Hk Hisn Hnw) as (r & H1 & H2 & H3). unfold r_idx. rewrite H3. split; assumption.
Qed.

Lemma pg_ai_of_link s : pg_reach s -> link_inv s ->
  pg_ai (received s) (isn_of s) (kA s) (a_idx s).
Proof.
  intros Hr Hl. destruct (pg_aidx s Hr (L_nowrap _ Hl)) as (Hu & Ha & _).
  split; [exact Ha|]. split; [exact Hu|]. split; [exact (L1_una _ Hl)|].
  split; [apply pg_sbG_nth; exact (L1_acked _ Hl)|exact (L1_head _ Hl)].
Qed.

Lemma pg_bi_of_link s : pg_reach s -> link_inv s ->
  pg_bi (isn_of s) (numbered_of s) (gB (s1 s)) (kB s).
Proof.
  intros Hr Hl. destruct (pg_reach_base s Hr) as (_ & HiB & Hsi & Hisn & _).
  pose proof (pg_reach_receiver s Hr (L_nowrap _ Hl)) as HR. apply nr_receiver_inv_iff in HR.
  destruct HR as (_ & _ & Hk). destruct (SI_isn _ _ Hsi) as [Hu Hc].
  constructor.
  - exact HiB.
  - exact Hk.
  - split; [exact Hisn|exact Hu].
  - rewrite (LB_conv _ Hl). exact Hc.
  - exact (LB_idle _ Hl).
  - exact (LB_acks _ Hl).
  - exact (LB_moved _ Hl).
Qed.

(* an acknowledgement segment of the history, as A's Input needs it *)
Lemma pg_segA_of_ack s x : pg_reach s -> link_inv s -> ack_seg s x ->
  pg_segA (received s) (isn_of s) (conv (kA s)) (a_idx s + qlen (snd_buf (kA s))) x.
Proof.
  intros Hr Hl (Hwf & Hc & Hcmd & Hu & Hack).
  destruct (pg_aidx s Hr (L_nowrap _ Hl)) as (_ & _ & HM).
  destruct (pg_ridx_sys s Hr (L_nowrap _ Hl)) as (_ & Hrr).
  pose proof (L_nowrap _ Hl) as Hnw. unfold no_wrap in Hnw.
  split; [exact Hwf|]. split; [exact Hc|]. split; [exact Hcmd|]. split.
  - exists (idx (isn_of s) (s_una x)). split.
    + symmetry. apply pg_u32_idx. destruct Hwf as (_ & _ & _ & _ & _ & _ & W & _). exact W.
    + pose proof (pg_idx_range (isn_of s) (s_una x)). split; [lia|].
      intros j Hj. split; [unfold H32 in *; lia|]. left. fold (r_idx s). lia.
  - intros Hc' j Hj Hsn. specialize (Hack Hc'). rewrite <- Hsn in Hack.
    rewrite pg_idx_u32 in Hack by (unfold H32, W32 in *; lia). exact Hack.
Qed.

(* a segment B emitted, as the history records it *)
Lemma pg_ack_of_bseg s x : conv (kB s) = conv (kA s) -> pg_bseg (isn_of s) (kB s) x -> ack_seg s x.
Proof.
  intros Hcv (A & B & C & D & E & _). split; [exact A|]. split; [congruence|]. split; [exact C|].
  split; [unfold r_idx; rewrite D; lia|exact E].
Qed.

(* merging the two descriptions of a datagram A emitted *)
Lemma pg_F2_merge (P1 P2 Q : seg -> Prop) (R : seg -> seg -> Prop) :
  (forall a b, R a b -> P1 a -> P2 b -> Q b) ->
  forall l1 l2, Forall2 R l1 l2 -> Forall P1 l1 -> Forall P2 l2 -> Forall Q l2.
Proof.
  intros H l1 l2 HF. induction HF as [|a b t1 t2 Hab HF IH]; intros H1 H2; [constructor|].
  constructor; [exact (H a b Hab (Forall_inv H1) (Forall_inv H2))|].
  exact (IH (Forall_inv_tail H1) (Forall_inv_tail H2)).
Qed.

Lemma pg_data_merge isn src k d :
  inv k -> is_u32 (conv k) -> genuine_dgram isn src d -> dgram_ok k d ->
  exists segs, d = concat (map encode_seg segs) /\
    Forall (fun x => seg_wf x /\ s_conv x = conv k /\ cmd_ok (s_cmd x) /\ genuine_seg isn src x) segs.
Proof.
  intros Hinv Hcv (sg & E1 & Hwf & Hgen) ((_ & Hlen) & sd & _ & E2 & Hw).
  assert (HF : Forall2 pg_same_wire sd sg).
  { apply pg_decode_uniq; [congruence|]. rewrite <- E2. pose proof (I_mtu _ Hinv). unfold c_mtuLimit, W32 in *. lia. }
  exists sg. split; [exact E1|].
  assert (H1 : Forall (fun x => seg_wf x /\ genuine_seg isn src x) sg).
  { clear -Hwf Hgen. induction sg; [constructor|]. constructor.
    - split; [exact (Forall_inv Hwf)|exact (Forall_inv Hgen)].
    - apply IHsg; [exact (Forall_inv_tail Hwf)|exact (Forall_inv_tail Hgen)]. }
  apply (pg_F2_merge (wire_seg_ok k) (fun x => seg_wf x /\ genuine_seg isn src x) _ pg_same_wire) with sd;
    [|exact HF|exact Hw|exact H1].
  intros a b (Rc & Rcmd & _) (Wc & Wcmd & _) (Bwf & Bgen).
  split; [exact Bwf|]. split; [|split; [rewrite <- Rcmd; exact Wcmd|exact Bgen]].
  destruct Bwf as (Bu & _). rewrite Wc in Rc. rewrite !u32_id in Rc by assumption. congruence.
Qed.

(* the conversation id never changes *)
Lemma pg_step_conv g k o k' x : sender_inv g k -> op_ok32 o -> step k o = Ok (k', x) -> conv k' = conv k.
Proof.
  intros Hsi [Hop _] Hstep. pose proof (SI_inv _ _ Hsi) as Hinv.
  destruct o as [b|n|d reg nd now|full now|now|now|m|nd iv rs nc]; cbn [step op_ok] in *.
  - destruct (send k b) as [[k1 r]|w] eqn:Hs; [|discriminate]. inversion Hstep; subst.
    destruct (ns_send_ok k b k' r _ _ Hinv Hop (ns_src_ok_of g k Hsi) Hs) as (q' & Ek & _). subst k'. reflexivity.
  - pose proof (ns_sf_recv k n) as Hsf. destruct (recv k n) as [[k1 r] d]. cbn [fst] in Hsf.
    inversion Hstep; subst. apply Hsf.
  - unfold input in Hstep.
    destruct (input_pre_ok k d reg nd now Hinv Hop) as (k1 & r & fr & Hpre & Hinv1 & _ & _ & _ & Hc1 & _).
    rewrite Hpre in Hstep.
    assert (Hfl : forall ft k2 nx o, flush k1 ft now = Ok (k2, nx, o) -> conv k2 = conv k).
    { intros ft k2 nx o Hf. destruct (flush_ok k1 ft now Hinv1) as (k3 & nx3 & o3 & Hf3 & _ & _ & _ & _ & _ & _ & Hc3).
      rewrite Hf in Hf3. inversion Hf3; subst. congruence. }
    destruct fr.
    + inversion Hstep; subst. exact Hc1.
    + destruct (flush k1 FLUSH_ACKONLY now) as [[[k2 nx] o]|w] eqn:Hf; [|discriminate].
      inversion Hstep; subst. exact (Hfl _ _ _ _ Hf).
    + destruct (flush k1 FLUSH_FULL now) as [[[k2 nx] o]|w] eqn:Hf; [|discriminate].
      inversion Hstep; subst. exact (Hfl _ _ _ _ Hf).
  - destruct (flush k (if full then FLUSH_FULL else FLUSH_ACKONLY) now) as [[[k2 nx] o]|w] eqn:Hf; [|discriminate].
    inversion Hstep; subst.
    destruct (flush_ok k (if full then FLUSH_FULL else FLUSH_ACKONLY) now Hinv) as (k3 & nx3 & o3 & Hf3 & _ & _ & _ & _ & _ & _ & Hc3).
    rewrite Hf in Hf3. inversion Hf3; subst. exact Hc3.
  - unfold update in Hstep.
    set (k1 := if updated k =? 0 then set_timer k (state k) now 1 else k) in *.
    assert (H1 : inv k1 /\ conv k1 = conv k).
    { unfold k1. destruct (updated k =? 0); [split; [apply inv_set_timer; exact Hinv|reflexivity]|split; [exact Hinv|reflexivity]]. }
    set (p := if (itimediff now (ts_flush k1) >=? 10000) || (itimediff now (ts_flush k1) <? -10000)
              then (set_timer k1 (state k1) now (updated k1), 0) else (k1, itimediff now (ts_flush k1))) in *.
    assert (H2 : inv (fst p) /\ conv (fst p) = conv k).
    { destruct H1 as [I1 C1]. unfold p.
      destruct ((itimediff now (ts_flush k1) >=? 10000) || (itimediff now (ts_flush k1) <? -10000)); cbn [fst];
        [split; [apply inv_set_timer; exact I1|exact C1]|split; assumption]. }
    destruct p as [k2 slap]. cbn [fst] in H2. destruct H2 as [I2 C2].
    destruct (slap >=? 0).
    + match type of Hstep with context [flush ?kk FLUSH_FULL now] => set (k3 := kk) in * end.
      assert (I3 : inv k3) by (apply inv_set_timer; exact I2).
      destruct (flush k3 FLUSH_FULL now) as [[[k4 nx] o]|w] eqn:Hf; [|discriminate].
      inversion Hstep; subst.
      destruct (flush_ok k3 FLUSH_FULL now I3) as (k5 & nx5 & o5 & Hf5 & _ & _ & _ & _ & _ & _ & Hc5).
      rewrite Hf in Hf5. inversion Hf5; subst. rewrite Hc5. exact C2.
    + inversion Hstep; subst. exact C2.
  - inversion Hstep; subst. reflexivity.
  - pose proof (ns_sf_set_mtu k m) as Hsf. destruct (set_mtu k m) as [k1 r]. cbn [fst] in Hsf.
    inversion Hstep; subst. apply Hsf.
  - inversion Hstep; subst. apply (ns_sf_set_nodelay k nd iv rs nc).
Qed.

(* ================================================================== *)
(* 4. the link invariant, one step                                     *)
(* ================================================================== *)
(* what an A step leaves alone / a B step leaves alone *)
Definition pg_frameB (s s' : sys2) : Prop :=
  kB s' = kB s /\ gB (s1 s') = gB (s1 s) /\ wireB s' = wireB s /\ isn_of s' = isn_of s /\
  conv (kA s') = conv (kA s).

Definition pg_frameA (s s' : sys2) : Prop :=
  kA s' = kA s /\ gA (s1 s') = gA (s1 s) /\ wire (s1 s') = wire (s1 s).

Lemma pg_frameA_isn s s' : pg_frameA s s' -> isn_of s' = isn_of s /\ numbered_of s' = numbered_of s /\ a_idx s' = a_idx s.
Proof. intros (E1 & E2 & _). unfold isn_of, numbered_of, a_idx, isn_of. rewrite E1, E2. auto. Qed.

Lemma pg_ack_seg_frameB s s' x : pg_frameB s s' -> ack_seg s x -> ack_seg s' x.
Proof.
  intros (E1 & _ & _ & E4 & E5) (A & B & C & D & E).
  unfold ack_seg, r_idx, received. rewrite E1, E4, E5.
  split; [exact A|]. split; [exact B|]. split; [exact C|]. split; [exact D|exact E].
Qed.

(* ---- an A step ---- *)
Lemma pg_link_a s o s' :
  pg_reach s -> link_inv s -> ev_ok2 s (EA o) -> sys2_step s (EA o) = Some s' -> no_wrap (numbered_of s') ->
  link_inv s' /\ pg_frameB s s' /\ a_idx s <= a_idx s' /\
  (forall d rg nd t x segs, o = OInput d rg nd t -> d = concat (map encode_seg (x :: segs)) ->
     Forall (ack_seg s) (x :: segs) -> idx (isn_of s) (s_una x) <= a_idx s').
Proof.
  intros Hr Hl Hok Hst Hnw'.
  destruct (pg_reach_base s Hr) as (HiA & HiB & Hsi & Hgisn & Hwg).
  assert (Hr' : pg_reach s') by (eapply pr_step; eassumption).
  destruct (pg_reach_base s' Hr') as (HiA' & _ & Hsi' & _ & _).
  destruct (pg_step_numbered s (EA o) s' Hr Hok Hst) as (Hisn' & ext & Hext).
  pose proof (L_nowrap _ Hl) as Hnw.
  destruct (pg_stepA _ _ _ Hst) as (k' & x & E & Es').
  assert (F : kB s' = kB s /\ gB (s1 s') = gB (s1 s) /\ wireB s' = wireB s /\ kA s' = k' /\
              wire (s1 s') = wire (s1 s) ++ o_dgrams x) by (subst s'; repeat split; reflexivity).
  destruct F as (F1 & F2 & F3 & F4 & F5).
  destruct Hok as [[Hop Hclk] Hin]. cbn [ev_ok] in *.
  assert (Hop32 : op_ok32 o) by (split; assumption).
  pose proof (pg_step_conv _ _ _ _ _ Hsi Hop32 E) as Hconv. rewrite <- F4 in Hconv.
  assert (HfB : pg_frameB s s') by (repeat split; assumption).
  destruct (pg_aidx s Hr Hnw) as (Hu & Ha0 & HM).
  destruct (pg_aidx s' Hr' Hnw') as (Hu' & Ha0' & HM').
  (* A's side *)
  destruct (pg_a_step (received s) (gA (s1 s)) (kA s) o k' x (a_idx s)) as (av' & Hav' & Hai' & Hprog);
    [exact Hsi|exact (pg_ai_of_link s Hr Hl)|rewrite HM; exact Hnw|exact Hop32| |exact E|].
  { intros d rg nd t Eo. subst o. cbn in Hin.
    destruct (proj1 (Forall_forall _ _) (L2_acks _ Hl) d Hin) as (segs & Ed & Hsegs).
    exists segs. split; [exact Ed|]. eapply Forall_impl; [|exact Hsegs]. intros y. apply pg_segA_of_ack; assumption. }
  fold (isn_of s) in Hai', Hprog.
  assert (Eav : a_idx s' = av').
  { unfold a_idx. rewrite Hisn', F4. destruct Hai' as (_ & U & _). rewrite U. apply pg_idx_u32.
    unfold no_wrap, H32, W32 in *. lia. }
  assert (Hrec : forall i, received s' i <-> received s i).
  { intros i. unfold received. rewrite Hisn', F1. tauto. }
  split; [|split; [exact HfB|split; [lia|]]].
  - constructor.
    + exact Hnw'.
    + intros i Hi. apply Hrec. rewrite Eav in Hi. destruct Hai' as (_ & _ & H & _). apply H. exact Hi.
    + intros j y Hn Hack. apply Hrec. rewrite Eav. rewrite F4 in Hn.
      destruct Hai' as (_ & _ & _ & H & _). exact (proj1 (pg_sbG_nth _ _ _) H j y Hn Hack).
    + rewrite F4. destruct Hai' as (_ & _ & _ & _ & H). exact H.
    + rewrite F3. eapply Forall_impl; [|exact (L2_acks _ Hl)].
      intros d (segs & Ed & Hsegs). exists segs. split; [exact Ed|].
      eapply Forall_impl; [|exact Hsegs]. intros y. apply pg_ack_seg_frameB. exact HfB.
    + rewrite F5. apply Forall_app. split.
      * eapply Forall_impl; [|exact (L0_data _ Hl)].
        intros d (segs & Ed & Hsegs). exists segs. split; [exact Ed|].
        eapply Forall_impl; [|exact Hsegs]. intros y (A & B & C & D).
        split; [exact A|]. split; [congruence|]. split; [exact C|].
        rewrite Hisn', Hext.
        intros Hc. destruct (D Hc) as (i & Hi & Hsn & Hnth). exists i.
        split; [rewrite app_length; lia|]. split; [exact Hsn|]. rewrite nth_error_app1 by exact Hi. exact Hnth.
      * destruct (sender_step _ _ _ _ _ Hsi Hop32 E) as (_ & _ & _ & Hgen & _). cbv zeta in Hgen.
        destruct (step_ok (kA s) o HiA Hop) as (k2 & x2 & E2 & _ & Hout). rewrite E in E2. inversion E2; subst k2 x2.
        unfold out_ok in Hout.
        assert (Hcv' : is_u32 (conv k')) by (rewrite <- F4; exact (proj2 (SI_isn _ _ Hsi'))).
        rewrite F4 in HiA'.
        apply Forall_forall. intros d Hd.
        destruct (pg_data_merge (isn_of s) (numbered_of s') k' d HiA' Hcv') as (segs & Ed & Hsegs).
        { subst s'. exact (proj1 (Forall_forall _ _) Hgen d Hd). }
        { exact (proj1 (Forall_forall _ _) Hout d Hd). }
        exists segs. split; [exact Ed|]. unfold data_seg. rewrite Hisn', F4. exact Hsegs.
    + rewrite F1, (LB_conv _ Hl). symmetry. exact Hconv.
    + rewrite F1. exact (LB_idle _ Hl).
    + rewrite F1. eapply Forall_impl; [|exact (LB_acks _ Hl)]. intros p (A & B & C).
      split; [exact A|]. split; [exact B|]. apply Hrec. rewrite Hisn'. exact C.
    + rewrite F1. exact (LB_moved _ Hl).
  - intros d rg nd t y segs Eo Ed Hsegs. rewrite Eav.
    assert (HsegsA : Forall (pg_segA (received s) (isn_of s) (conv (kA s)) (a_idx s + qlen (snd_buf (kA s)))) (y :: segs)).
    { eapply Forall_impl; [|exact Hsegs]. intros z. apply pg_segA_of_ack; assumption. }
    pose proof (Forall_inv Hsegs) as (Hwf & _ & _ & Hu0 & _).
    destruct (pg_ridx_sys s Hr Hnw) as (_ & Hrr).
    apply (Hprog d rg nd t (y :: segs) Eo Ed HsegsA y); [left; reflexivity| |].
    + symmetry. apply pg_u32_idx. destruct Hwf as (_ & _ & _ & _ & _ & _ & W & _). exact W.
    + pose proof (pg_idx_range (isn_of s) (s_una y)). lia.
Qed.

(* ---- a B step ---- *)
Lemma pg_link_b s o s' :
  pg_reach s -> link_inv s -> ev_ok2 s (EB o) -> sys2_step s (EB o) = Some s' ->
  link_inv s' /\ pg_frameA s s' /\ pg_bmono (isn_of s) (kB s) (kB s') /\
  exists out, wireB s' = wireB s ++ out /\ Forall (ns_dg (pg_bseg (isn_of s) (kB s'))) out /\
    (acklist (kB s) <> [] -> acklist (kB s') <> [] \/ pg_out_some (isn_of s) (kB s') out).
Proof.
  intros Hr Hl Hok Hst.
  destruct (pg_reach_base s Hr) as (HiA & HiB & Hsi & Hgisn & Hwg).
  pose proof (L_nowrap _ Hl) as Hnw.
  destruct (pg_stepB _ _ _ Hst) as (k' & x & E & Es').
  destruct Hok as [[Hop32 Hin] Hns]. cbn [ev_ok] in *.
  destruct (pg_b_step (isn_of s) (numbered_of s) (gB (s1 s)) (kB s) o k' x) as (P1 & P2 & P3 & P4);
    [exact Hnw|exact (sender_src_wf _ _ Hsi)|exact (pg_bi_of_link s Hr Hl)|exact Hop32|exact Hns| |exact E|].
  { intros d rg nd t Eo. subst o.
    destruct (proj1 (Forall_forall _ _) (L0_data _ Hl) d Hin) as (segs & Ed & Hsegs).
    exists segs. split; [exact Ed|]. rewrite (LB_conv _ Hl). exact Hsegs. }
  assert (F : kA s' = kA s /\ gA (s1 s') = gA (s1 s) /\ wire (s1 s') = wire (s1 s) /\ kB s' = k' /\
              gB (s1 s') = ghost_receiver (gB (s1 s)) o x /\ wireB s' = wireB s ++ o_dgrams x)
    by (subst s'; repeat split; reflexivity).
  destruct F as (F1 & F2 & F3 & F4 & F5 & F6).
  assert (HfA : pg_frameA s s') by (repeat split; assumption).
  destruct (pg_frameA_isn s s' HfA) as (G1 & G2 & G3).
  rewrite <- F4 in P1, P2, P3, P4.
  pose proof P2 as (T1 & T2 & _ & _ & T5).
  assert (Hrec : forall i, received s i -> received s' i).
  { intros i. unfold received. rewrite G1. apply T2. }
  assert (Hcv' : conv (kB s') = conv (kA s')) by (rewrite T5, F1; exact (LB_conv _ Hl)).
  split; [|split; [exact HfA|split; [exact P2|]]].
  - constructor.
    + rewrite G2. exact Hnw.
    + intros i Hi. apply Hrec. rewrite G3 in Hi. exact (L1_una _ Hl i Hi).
    + intros j y Hn Hack. rewrite G3. rewrite F1 in Hn. apply Hrec. exact (L1_acked _ Hl j y Hn Hack).
    + rewrite F1. exact (L1_head _ Hl).
    + rewrite F6. apply Forall_app. split.
      * eapply Forall_impl; [|exact (L2_acks _ Hl)].
        intros d (segs & Ed & Hsegs). exists segs. split; [exact Ed|].
        eapply Forall_impl; [|exact Hsegs]. intros y (A & B & C & D & E0).
        split; [exact A|]. split; [rewrite F1; exact B|]. split; [exact C|].
        split; [unfold r_idx in *; rewrite G1; lia|]. intros Hc. apply Hrec. rewrite G1. exact (E0 Hc).
      * eapply Forall_impl; [|exact P3]. intros d (segs & Ed & Hsegs). exists segs. split; [exact Ed|].
        eapply Forall_impl; [|exact Hsegs]. intros y Hy. apply pg_ack_of_bseg; [exact Hcv'|]. rewrite G1. exact Hy.
    + rewrite F3. eapply Forall_impl; [|exact (L0_data _ Hl)].
      intros d (segs & Ed & Hsegs). exists segs. split; [exact Ed|].
      eapply Forall_impl; [|exact Hsegs]. intros y. unfold data_seg. rewrite G1, G2, F1. tauto.
    + exact Hcv'.
    + exact (BI_idle _ _ _ _ P1).
    + pose proof (BI_acks _ _ _ _ P1) as Ha. eapply Forall_impl; [|exact Ha]. intros p (A & B & C).
      split; [exact A|]. split; [exact B|]. unfold received. rewrite G1. exact C.
    + exact (BI_moved _ _ _ _ P1).
  - exists (o_dgrams x). split; [exact F6|]. split; [exact P3|exact P4].
Qed.

Theorem link_step : forall s e s',
  reach2 s -> link_inv s -> ev_ok2 s e -> sys2_step s e = Some s' -> no_wrap (numbered_of s') -> link_inv s'.
Proof.
  intros s e s' Hr Hl Hok Hst Hnw. apply pg_reach_iff in Hr. destruct e as [o|o].
  - exact (proj1 (pg_link_a s o s' Hr Hl Hok Hst Hnw)).
  - exact (proj1 (pg_link_b s o s' Hr Hl Hok Hst)).
Qed.

Lemma pg_link_init s : sys2_init s -> link_inv s.
Proof.
  intros ((HA & HB & Hc & Hq & Hb & Hal & Hrq & Hrb & Hrn & HgA & HgB & Hw) & Hw2 & Hcv & Hq2 & Hb2 & Ha2).
  constructor.
  - unfold numbered_of. rewrite HgA. cbn. unfold no_wrap, H32. cbn. lia.
  - intros i Hi. exfalso. unfold a_idx, isn_of in Hi. rewrite HgA in Hi. cbn [sg_isn] in Hi.
    unfold idx, kA in Hi. rewrite Z.sub_diag in Hi. change (u32 0) with 0 in Hi. lia.
  - intros j x Hn. unfold kA in Hn. rewrite Hb in Hn. destruct j; discriminate.
  - unfold head_unacked, kA. rewrite Hb. exact I.
  - rewrite Hw2. constructor.
  - rewrite Hw. constructor.
  - exact Hcv.
  - split; assumption.
  - rewrite Ha2. constructor.
  - unfold moved, kB. rewrite Hrb. exact I.
Qed.

Lemma pg_link_reach s : pg_reach s -> no_wrap (numbered_of s) -> link_inv s.
Proof.
  induction 1 as [s Hi|s e s' Hr IH Hok Hst]; intros Hnw.
  - exact (pg_link_init s Hi).
  - destruct (pg_step_numbered s e s' Hr Hok Hst) as (_ & ext & Hext).
    assert (Hnw0 : no_wrap (numbered_of s)) by (rewrite Hext in Hnw; exact (pg_no_wrap_prefix _ _ Hnw)).
    apply (link_step s e s'); [apply pg_reach_iff; exact Hr|exact (IH Hnw0)|exact Hok|exact Hst|exact Hnw].
Qed.

Theorem link_reach : forall s, reach2 s -> no_wrap (numbered_of s) -> link_inv s.
Proof. intros s Hr. apply pg_link_reach. apply pg_reach_iff. exact Hr. Qed.

(* ================================================================== *)
(* 5. the healed round, piece by piece                                 *)
(* ================================================================== *)
(* a datagram of the B -> A history whose first segment acknowledges beyond index a0 *)
Definition pg_good (s : sys2) (a0 : Z) (d : bytes) : Prop :=
  exists x t, d = concat (map encode_seg (x :: t)) /\ Forall (ack_seg s) (x :: t) /\
              a0 < idx (isn_of s) (s_una x).

(* B is beyond index a0 and owes or has sent (since position n0 of its history) an acknowledgement *)
Definition pg_goal (n0 : nat) (a0 : Z) (s : sys2) : Prop :=
  a0 < r_idx s /\ (acklist (kB s) <> [] \/ exists d, In d (skipn n0 (wireB s)) /\ pg_good s a0 d).

Lemma pg_skipn_app_le (T : Type) (n : nat) (l o : list T) : (n <= length l)%nat -> skipn n (l ++ o) = skipn n l ++ o.
Proof. intros H. rewrite skipn_app. replace (n - length l)%nat with 0%nat by lia. reflexivity. Qed.

Lemma pg_ack_seg_b_mono s s' x :
  pg_frameA s s' -> pg_bmono (isn_of s) (kB s) (kB s') -> ack_seg s x -> ack_seg s' x.
Proof.
  intros HfA (T1 & T2 & _) (A & B & C & D & E). destruct (pg_frameA_isn s s' HfA) as (G1 & _).
  destruct HfA as (F1 & _).
  split; [exact A|]. split; [rewrite F1; exact B|]. split; [exact C|].
  split; [unfold r_idx in *; rewrite G1; lia|]. intros Hc. unfold received. rewrite G1. apply T2. exact (E Hc).
Qed.

Lemma pg_good_b_mono s s' a0 d :
  pg_frameA s s' -> pg_bmono (isn_of s) (kB s) (kB s') -> pg_good s a0 d -> pg_good s' a0 d.
Proof.
  intros HfA Hm (x & t & Ed & Hs & Ha). destruct (pg_frameA_isn s s' HfA) as (G1 & _).
  exists x, t. split; [exact Ed|]. split; [|rewrite G1; exact Ha].
  eapply Forall_impl; [|exact Hs]. intros y. apply pg_ack_seg_b_mono; assumption.
Qed.

Lemma pg_good_a_frame s s' a0 d : pg_frameB s s' -> pg_good s a0 d -> pg_good s' a0 d.
Proof.
  intros HfB (x & t & Ed & Hs & Ha). pose proof HfB as (_ & _ & _ & E4 & _).
  exists x, t. split; [exact Ed|]. split; [|rewrite E4; exact Ha].
  eapply Forall_impl; [|exact Hs]. intros y. apply pg_ack_seg_frameB. exact HfB.
Qed.

(* what pg_out_some gives once B is beyond a0 *)
Lemma pg_good_of_out s a0 out :
  conv (kB s) = conv (kA s) -> a0 < r_idx s -> pg_out_some (isn_of s) (kB s) out ->
  exists d, In d out /\ pg_good s a0 d.
Proof.
  intros Hcv Hr (d & x & t & Hd & Ed & Hs). exists d. split; [exact Hd|]. exists x, t. split; [exact Ed|].
  split.
  - eapply Forall_impl; [|exact Hs]. intros y. apply pg_ack_of_bseg. exact Hcv.
  - destruct (Forall_inv Hs) as (_ & _ & _ & Hu & _). rewrite Hu. exact Hr.
Qed.

(* ---- one B step and the goal ---- *)
Lemma pg_goal_b_step s o s' n0 a0 :
  pg_reach s -> link_inv s -> ev_ok2 s (EB o) -> sys2_step s (EB o) = Some s' ->
  (n0 <= length (wireB s))%nat -> pg_goal n0 a0 s -> pg_goal n0 a0 s'.
Proof.
  intros Hr Hl Hok Hst Hn0 (Hg1 & Hg2).
  destruct (pg_link_b s o s' Hr Hl Hok Hst) as (Hl' & HfA & Hm & out & Hw & Hout & T5).
  destruct (pg_frameA_isn s s' HfA) as (G1 & _). pose proof Hm as (T1 & _).
  assert (Hr' : a0 < r_idx s') by (unfold r_idx in *; rewrite G1; lia).
  split; [exact Hr'|].
  destruct Hg2 as [Hne|(d & Hd & Hgood)].
  - destruct (T5 Hne) as [H|H]; [left; exact H|right].
    rewrite <- G1 in H. destruct (pg_good_of_out s' a0 out (LB_conv _ Hl') Hr' H) as (d & Hd & Hgood).
    exists d. split; [|exact Hgood]. rewrite Hw, pg_skipn_app_le by exact Hn0. apply in_or_app. right; exact Hd.
  - right. exists d. split; [rewrite Hw, pg_skipn_app_le by exact Hn0; apply in_or_app; left; exact Hd|].
    exact (pg_good_b_mono s s' a0 d HfA Hm Hgood).
Qed.

(* ---- the Input that carries PUSH a0 ---- *)
Lemma pg_goal_hit s d rg nd t s' n0 a0 segs w :
  pg_reach s -> link_inv s -> ev_ok2 s (EB (OInput d rg nd t)) ->
  sys2_step s (EB (OInput d rg nd t)) = Some s' -> (n0 <= length (wireB s))%nat ->
  d = concat (map encode_seg segs) -> Forall (data_seg s) segs -> In w segs ->
  s_cmd w = c_IKCP_CMD_PUSH -> s_sn w = u32 (isn_of s + a0) -> 0 <= a0 < H32 - 65536 ->
  pg_J (isn_of s) (kB s) a0 -> pg_goal n0 a0 s'.
Proof.
  intros Hr Hl Hok Hst Hn0 Ed Hsegs Hw Hcmd Hsn Ha0 HJ.
  destruct (pg_link_b s _ s' Hr Hl Hok Hst) as (Hl' & HfA & Hm & out & Hwb & _ & _).
  destruct (pg_frameA_isn s s' HfA) as (G1 & _).
  destruct (pg_stepB _ _ _ Hst) as (k' & x & E & Es').
  cbn [step] in E. destruct (input (kB s) d rg nd t) as [[[k1 r] o]|e] eqn:Ein; [|discriminate].
  inversion E; subst k' x. clear E.
  assert (F : kB s' = k1 /\ wireB s' = wireB s ++ o) by (subst s'; split; reflexivity).
  destruct F as (F4 & F6).
  rewrite Ed in Ein.
  destruct (pg_b_input (isn_of s) (numbered_of s) (gB (s1 s)) (kB s) segs rg nd t k1 r o) as (_ & _ & _ & _ & Hhit);
    [exact (L_nowrap _ Hl)|exact (pg_bi_of_link s Hr Hl)|rewrite (LB_conv _ Hl); exact Hsegs|exact Ein|].
  destruct (Hhit w a0 Hw Hcmd Hsn Ha0 HJ) as (H1 & H2). rewrite <- F4 in H1, H2.
  assert (Hr' : a0 < r_idx s') by (unfold r_idx; rewrite G1; exact H1).
  split; [exact Hr'|]. destruct H2 as [H2|H2]; [left; exact H2|right].
  rewrite <- G1 in H2. destruct (pg_good_of_out s' a0 o (LB_conv _ Hl') Hr' H2) as (d0 & Hd0 & Hgood).
  exists d0. split; [|exact Hgood]. rewrite F6, pg_skipn_app_le by exact Hn0. apply in_or_app. right; exact Hd0.
Qed.

(* ---- the drain ---- *)
Lemma pg_recv_ev_ok s n : ev_ok2 s (EB (ORecv n)).
Proof. split; [split; [split; exact I|exact I]|exact I]. Qed.

Lemma pg_drain_props n : forall s s',
  drain n s = Some s' -> pg_reach s -> no_wrap (numbered_of s) ->
  pg_reach s' /\ pg_frameA s s' /\ pg_bmono (isn_of s) (kB s) (kB s') /\
  (length (wireB s) <= length (wireB s'))%nat /\
  (forall n0 a0, (n0 <= length (wireB s))%nat -> pg_goal n0 a0 s -> pg_goal n0 a0 s').
Proof.
  induction n as [|n IH]; intros s s' Hd Hr Hnw; cbn [drain] in Hd.
  - inversion Hd; subst s'. split; [exact Hr|]. split; [repeat split|]. split; [apply pg_bmono_refl|].
    split; [lia|auto].
  - destruct (peeksize (kB s) <? 0).
    { inversion Hd; subst s'. split; [exact Hr|]. split; [repeat split|]. split; [apply pg_bmono_refl|].
      split; [lia|auto]. }
    destruct (sys2_step s (EB (ORecv (peeksize (kB s))))) as [sa|] eqn:Hst; [|discriminate]. cbn [bind2] in Hd.
    pose proof (pg_recv_ev_ok s (peeksize (kB s))) as Hok.
    pose proof (pg_link_reach s Hr Hnw) as Hl.
    assert (Hra : pg_reach sa) by (eapply pr_step; eassumption).
    destruct (pg_link_b s _ sa Hr Hl Hok Hst) as (Hla & HfA & Hm & out & Hw & _ & _).
    destruct (pg_frameA_isn s sa HfA) as (G1 & G2 & _).
    destruct (IH sa s' Hd Hra) as (R1 & R2 & R3 & R4 & R5); [rewrite G2; exact Hnw|].
    split; [exact R1|]. split.
    { destruct HfA as (A1 & A2 & A3). destruct R2 as (B1 & B2 & B3). repeat split; congruence. }
    split; [eapply pg_bmono_trans; [exact Hm|rewrite <- G1; exact R3]|].
    rewrite Hw, app_length in R4. split; [lia|].
    intros n0 a0 Hn0 Hg. apply R5; [rewrite Hw, app_length; lia|].
    exact (pg_goal_b_step s _ sa n0 a0 Hr Hl Hok Hst Hn0 Hg).
Qed.

(* termination: each successful read removes a segment from rcv_queue ++ rcv_buf *)
Lemma pg_move_ready_count rw : forall rb rq rn rb' rq' rn',
  move_ready rb rq rn rw = (rb', rq', rn') -> (length rb' + length rq' = length rb + length rq)%nat.
Proof.
  induction rb as [|s t IH]; intros rq rn rb' rq' rn' E; cbn [move_ready] in E.
  - inversion E; subst. reflexivity.
  - destruct ((s_sn s =? rn) && (qlen rq <? rw)).
    + apply IH in E. rewrite app_length in E. cbn [length] in *. lia.
    + inversion E; subst. reflexivity.
Qed.

Lemma pg_pop_msg_lt : forall q d r, q <> [] -> pop_msg q = (d, r) -> (length r < length q)%nat.
Proof.
  induction q as [|s t IH]; intros d r Hne Hp; [contradiction|]. cbn [pop_msg] in Hp.
  destruct (s_frg s =? 0).
  - inversion Hp; subst. cbn [length]. lia.
  - destruct (pop_msg t) as [d' r'] eqn:Et. inversion Hp; subst d r.
    destruct t as [|u v]; [cbn in Et; inversion Et; subst; cbn; lia|].
    specialize (IH d' r' ltac:(discriminate) eq_refl). cbn [length] in *. lia.
Qed.

Lemma pg_recv_count k k' r d :
  recv k (peeksize k) = (k', r, d) -> (peeksize k <? 0) = false ->
  (length (rcv_queue k') + length (rcv_buf k') < length (rcv_queue k) + length (rcv_buf k))%nat.
Proof.
  intros H Hp. unfold recv in H. cbv zeta in H. rewrite Hp in H.
  assert (E : (peeksize k >? peeksize k) = false) by (rewrite Z.gtb_ltb; apply Z.ltb_irrefl).
  rewrite E in H.
  assert (Hne : rcv_queue k <> []).
  { intros En. unfold peeksize in Hp. rewrite En in Hp. discriminate. }
  destruct (pop_msg (rcv_queue k)) as [d0 rq] eqn:Ep.
  pose proof (pg_pop_msg_lt _ _ _ Hne Ep) as Hlt.
  assert (Hc : (length (rcv_buf (do_move_ready (set_rcv_queue k rq))) + length (rcv_queue (do_move_ready (set_rcv_queue k rq)))
               = length (rcv_buf k) + length rq)%nat).
  { unfold do_move_ready.
    destruct (move_ready (rcv_buf (set_rcv_queue k rq)) (rcv_queue (set_rcv_queue k rq))
                (rcv_nxt (set_rcv_queue k rq)) (rcv_wnd (set_rcv_queue k rq))) as [[rb' rq'] rn'] eqn:Em.
    apply pg_move_ready_count in Em. ksimpl. ksimpl_in Em. exact Em. }
  destruct ((qlen (rcv_queue (do_move_ready (set_rcv_queue k rq))) <? rcv_wnd (do_move_ready (set_rcv_queue k rq))) &&
            (qlen (rcv_queue k) >=? rcv_wnd k)); inversion H; subst k'; ksimpl; lia.
Qed.

Lemma pg_drain_done n : forall s s',
  drain n s = Some s' -> (length (rcv_queue (kB s)) + length (rcv_buf (kB s)) <= n)%nat ->
  peeksize (kB s') < 0.
Proof.
  induction n as [|n IH]; intros s s' Hd Hn; cbn [drain] in Hd.
  - inversion Hd; subst s'. unfold peeksize. destruct (rcv_queue (kB s)); [lia|cbn [length] in Hn; lia].
  - destruct (peeksize (kB s) <? 0) eqn:Ep.
    { inversion Hd; subst s'. apply Z.ltb_lt. exact Ep. }
    destruct (sys2_step s (EB (ORecv (peeksize (kB s))))) as [sa|] eqn:Hst; [|discriminate]. cbn [bind2] in Hd.
    apply (IH sa s' Hd).
    destruct (pg_stepB _ _ _ Hst) as (k' & x & E & Es'). cbn [step] in E.
    destruct (recv (kB s) (peeksize (kB s))) as [[k1 r] d] eqn:Er. inversion E; subst k' x.
    pose proof (pg_recv_count _ _ _ _ Er Ep) as Hlt.
    assert (F : kB sa = k1) by (subst sa; reflexivity). rewrite F. lia.
Qed.

(* ---- delivering A's datagrams to B ---- *)
Lemma pg_inputB_ev_ok s d t : pg_reach s -> is_u32 t -> In d (wire (s1 s)) ->
  ev_ok2 s (EB (OInput d true false t)).
Proof.
  intros Hr Ht Hin. destruct (pg_reach_base s Hr) as (_ & _ & _ & _ & Hw).
  split; [|exact I]. split; [|exact Hin]. split; [|exact Ht].
  exact (nr_dgram_bytes _ _ _ (proj1 (Forall_forall _ _) Hw d Hin)).
Qed.

Lemma pg_deliver_b t a0 n0 : forall ds s s',
  deliver (fun d => EB (OInput d true false t)) ds s = Some s' ->
  pg_reach s -> no_wrap (numbered_of s) -> is_u32 t ->
  (forall d, In d ds -> In d (wire (s1 s))) -> (n0 <= length (wireB s))%nat ->
  pg_reach s' /\ pg_frameA s s' /\ pg_bmono (isn_of s) (kB s) (kB s') /\ (n0 <= length (wireB s'))%nat /\
  (pg_goal n0 a0 s -> pg_goal n0 a0 s') /\
  (forall d segs w, In d ds -> d = concat (map encode_seg segs) -> Forall (data_seg s) segs -> In w segs ->
     s_cmd w = c_IKCP_CMD_PUSH -> s_sn w = u32 (isn_of s + a0) -> 0 <= a0 < H32 - 65536 ->
     pg_J (isn_of s) (kB s) a0 -> pg_goal n0 a0 s').
Proof.
  induction ds as [|d0 ds IH]; intros s s' Hd Hr Hnw Ht Hin Hn0; cbn [deliver] in Hd.
  - inversion Hd; subst s'. split; [exact Hr|]. split; [repeat split|]. split; [apply pg_bmono_refl|].
    split; [exact Hn0|]. split; [auto|]. intros d segs w [].
  - destruct (sys2_step s (EB (OInput d0 true false t))) as [sa|] eqn:Hst; [|discriminate]. cbn [bind2] in Hd.
    assert (Hok : ev_ok2 s (EB (OInput d0 true false t))) by (apply pg_inputB_ev_ok; [exact Hr|exact Ht|apply Hin; left; reflexivity]).
    pose proof (pg_link_reach s Hr Hnw) as Hl.
    assert (Hra : pg_reach sa) by (eapply pr_step; eassumption).
    destruct (pg_link_b s _ sa Hr Hl Hok Hst) as (Hla & HfA & Hm & out & Hw & _ & _).
    destruct (pg_frameA_isn s sa HfA) as (G1 & G2 & _).
    assert (Hn0a : (n0 <= length (wireB sa))%nat) by (rewrite Hw, app_length; lia).
    destruct (IH sa s' Hd Hra) as (R1 & R2 & R3 & R4 & R5 & R6);
      [rewrite G2; exact Hnw|exact Ht| |exact Hn0a|].
    { intros d Hdin. destruct HfA as (_ & _ & A3). rewrite A3. apply Hin. right; exact Hdin. }
    split; [exact R1|]. split.
    { destruct HfA as (A1 & A2 & A3). destruct R2 as (B1 & B2 & B3). repeat split; congruence. }
    split; [eapply pg_bmono_trans; [exact Hm|rewrite <- G1; exact R3]|].
    split; [exact R4|]. split.
    { intros Hg. apply R5. exact (pg_goal_b_step s _ sa n0 a0 Hr Hl Hok Hst Hn0 Hg). }
    intros d segs w Hdin Ed Hsegs Hw0 Hcmd Hsn Ha0 HJ. destruct Hdin as [Hdin|Hdin].
    + subst d0. apply R5.
      exact (pg_goal_hit s d true false t sa n0 a0 segs w Hr Hl Hok Hst Hn0 Ed Hsegs Hw0 Hcmd Hsn Ha0 HJ).
    + apply (R6 d segs w Hdin Ed); try assumption.
      * eapply Forall_impl; [|exact Hsegs]. intros y. unfold data_seg. destruct HfA as (A1 & _).
        rewrite G1, G2, A1. tauto.
      * rewrite G1. exact Hsn.
      * rewrite G1. exact (pg_J_mono _ _ _ _ Hm HJ).
Qed.

(* ---- delivering B's datagrams to A ---- *)
Lemma pg_inputA_ev_ok s d t : pg_reach s -> is_u32 t -> In d (wireB s) ->
  ev_ok2 s (EA (OInput d true false t)).
Proof.
  intros Hr Ht Hin. destruct (pg_wireB_bytes s Hr) as (_ & Hb).
  split; [|exact Hin]. split; [|exact Ht]. exact (proj1 (Forall_forall _ _) Hb d Hin).
Qed.

Lemma pg_deliver_a_reach t : forall ds s s',
  deliver (fun d => EA (OInput d true false t)) ds s = Some s' ->
  pg_reach s -> is_u32 t -> (forall d, In d ds -> In d (wireB s)) ->
  pg_reach s' /\ (exists ext, numbered_of s' = numbered_of s ++ ext).
Proof.
  induction ds as [|d0 ds IH]; intros s s' Hd Hr Ht Hin; cbn [deliver] in Hd.
  - inversion Hd; subst s'. split; [exact Hr|]. exists []. rewrite app_nil_r. reflexivity.
  - destruct (sys2_step s (EA (OInput d0 true false t))) as [sa|] eqn:Hst; [|discriminate]. cbn [bind2] in Hd.
    assert (Hok : ev_ok2 s (EA (OInput d0 true false t))) by (apply pg_inputA_ev_ok; [exact Hr|exact Ht|apply Hin; left; reflexivity]).
    assert (Hra : pg_reach sa) by (eapply pr_step; eassumption).
    destruct (pg_step_numbered s _ sa Hr Hok Hst) as (_ & e1 & He1).
    destruct (pg_stepA _ _ _ Hst) as (k' & x & _ & Es').
    assert (Fw : wireB sa = wireB s) by (subst sa; reflexivity).
    destruct (IH sa s' Hd Hra Ht) as (R1 & e2 & He2).
    { intros d Hdin. rewrite Fw. apply Hin. right; exact Hdin. }
    split; [exact R1|]. exists (e1 ++ e2). rewrite He2, He1, app_assoc. reflexivity.
Qed.

Lemma pg_deliver_a t a0 : forall ds s s',
  deliver (fun d => EA (OInput d true false t)) ds s = Some s' ->
  pg_reach s -> is_u32 t -> (forall d, In d ds -> In d (wireB s)) -> no_wrap (numbered_of s') ->
  a_idx s <= a_idx s' /\ ((exists d, In d ds /\ pg_good s a0 d) -> a0 < a_idx s').
Proof.
  induction ds as [|d0 ds IH]; intros s s' Hd Hr Ht Hin Hnw'; cbn [deliver] in Hd.
  - inversion Hd; subst s'. split; [lia|]. intros (d & [] & _).
  - destruct (sys2_step s (EA (OInput d0 true false t))) as [sa|] eqn:Hst; [|discriminate]. cbn [bind2] in Hd.
    assert (Hok : ev_ok2 s (EA (OInput d0 true false t))) by (apply pg_inputA_ev_ok; [exact Hr|exact Ht|apply Hin; left; reflexivity]).
    assert (Hra : pg_reach sa) by (eapply pr_step; eassumption).
    destruct (pg_stepA _ _ _ Hst) as (k' & x & _ & Es').
    assert (Fw : wireB sa = wireB s) by (subst sa; reflexivity).
    assert (Hina : forall d, In d ds -> In d (wireB sa)) by (intros d Hdin; rewrite Fw; apply Hin; right; exact Hdin).
    destruct (pg_deliver_a_reach t ds sa s' Hd Hra Ht Hina) as (_ & e2 & He2).
    assert (Hnwa : no_wrap (numbered_of sa)) by (rewrite He2 in Hnw'; exact (pg_no_wrap_prefix _ _ Hnw')).
    destruct (pg_step_numbered s _ sa Hr Hok Hst) as (_ & e1 & He1).
    assert (Hnw : no_wrap (numbered_of s)) by (rewrite He1 in Hnwa; exact (pg_no_wrap_prefix _ _ Hnwa)).
    pose proof (pg_link_reach s Hr Hnw) as Hl.
    destruct (pg_link_a s _ sa Hr Hl Hok Hst Hnwa) as (Hla & HfB & Hmono & Hprog).
    destruct (IH sa s' Hd Hra Ht Hina Hnw') as (R1 & R2).
    split; [lia|]. intros (d & Hdin & Hgood). destruct Hdin as [Hdin|Hdin].
    + subst d0. destruct Hgood as (y & segs & Ed & Hsegs & Ha).
      specialize (Hprog d true false t y segs eq_refl Ed Hsegs). lia.
    + apply R2. exists d. split; [exact Hdin|]. exact (pg_good_a_frame s sa a0 d HfB Hgood).
Qed.

(* ---- A's flush puts the head of snd_buf on the wire ---- *)
Lemma pg_flushA_ev_ok s t : is_u32 t -> ev_ok2 s (EA (OFlush true t)).
Proof. intros Ht. split; [split; [exact I|exact Ht]|exact I]. Qed.

Lemma pg_flush_push s t s' :
  pg_reach s -> is_u32 t -> head_due s t -> sys2_step s (EA (OFlush true t)) = Some s' ->
  no_wrap (numbered_of s') ->
  exists d segs w, In d (new_wire s s') /\ d = concat (map encode_seg segs) /\ Forall (data_seg s') segs /\
    In w segs /\ s_cmd w = c_IKCP_CMD_PUSH /\ s_sn w = u32 (isn_of s + a_idx s).
Proof.
  intros Hr Ht Hdue Hst Hnw'.
  pose proof (pg_flushA_ev_ok s t Ht) as Hok.
  destruct (pg_step_numbered s _ s' Hr Hok Hst) as (Hisn' & ext & Hext).
  assert (Hnw : no_wrap (numbered_of s)) by (rewrite Hext in Hnw'; exact (pg_no_wrap_prefix _ _ Hnw')).
  pose proof (pg_link_reach s Hr Hnw) as Hl.
  destruct (pg_link_a s _ s' Hr Hl Hok Hst Hnw') as (Hl' & _).
  assert (Hr' : pg_reach s') by (eapply pr_step; eassumption).
  destruct (pg_reach_base s Hr) as (HiA & _). destruct (pg_reach_base s' Hr') as (HiA' & _).
  destruct (pg_stepA _ _ _ Hst) as (k' & x & E & Es').
  pose proof (step_output_size (kA s) (OFlush true t) k' x HiA I E) as Hsize.
  cbn [step] in E. destruct (flush (kA s) FLUSH_FULL t) as [[[k1 nx] o]|e] eqn:Hfl; [|discriminate].
  inversion E; subst k' x. clear E. cbn [o_dgrams] in *.
  assert (F : kA s' = k1 /\ wire (s1 s') = wire (s1 s) ++ o) by (rewrite Es'; split; reflexivity).
  destruct F as (F4 & F5).
  unfold head_due in Hdue. destruct (snd_buf (kA s)) as [|h rest] eqn:Eb; [contradiction|].
  assert (Hinh : In h (snd_buf (kA s))) by (rewrite Eb; left; reflexivity).
  assert (Hna : s_acked h <> 1).
  { pose proof (L1_head _ Hl) as Hh. unfold head_unacked in Hh. rewrite Eb in Hh. lia. }
  destruct (retransmit_due (kA s) t k1 nx o h HiA Hfl Hinh Hna Hdue) as (d & segs1 & w1 & Hd & Ed & Hw1 & Hcmd & Hsn & _).
  assert (Hsnh : s_sn h = u32 (isn_of s + a_idx s)).
  { pose proof (I_sb_contig _ HiA) as Hc. rewrite Eb in Hc. destruct Hc as [Hc _].
    rewrite Hc. exact (proj1 (pg_aidx s Hr Hnw)). }
  assert (Hdw : In d (wire (s1 s'))) by (rewrite F5; apply in_or_app; right; exact Hd).
  destruct (proj1 (Forall_forall _ _) (L0_data _ Hl') d Hdw) as (segs2 & Ed2 & Hsegs2).
  assert (HF : Forall2 pg_same_wire segs1 segs2).
  { apply pg_decode_uniq; [congruence|]. rewrite <- Ed.
    pose proof (proj1 (Forall_forall _ _) Hsize d Hd) as Hb. rewrite <- F4 in Hb.
    pose proof (I_mtu _ HiA'). unfold c_mtuLimit, W32 in *. lia. }
  destruct (ns_F2_in _ _ _ _ _ HF w1 Hw1) as (w2 & Hw2 & (_ & Rcmd & _ & _ & _ & Rsn & _)).
  exists d, segs2, w2. split.
  { unfold new_wire. rewrite F5, ns_skipn_app_len. exact Hd. }
  split; [exact Ed2|]. split; [exact Hsegs2|]. split; [exact Hw2|]. split; [congruence|].
  destruct (proj1 (Forall_forall _ _) Hsegs2 w2 Hw2) as ((_ & _ & _ & _ & _ & Wsn & _) & _).
  rewrite <- (u32_id (s_sn w2)) by exact Wsn. rewrite <- Rsn, Hsn, Hsnh. unfold u32. rewrite Z.mod_mod; [reflexivity|unfold W32; lia].
Qed.

(* ---- a drained B has room, and nothing below A's acknowledgement point is missing ---- *)
Lemma pg_msg_size_nonneg : forall q, 0 <= msg_size q.
Proof.
  induction q as [|s t IH]; cbn [msg_size]; [lia|].
  pose proof (blen_nonneg (s_data s)). destruct (s_frg s =? 0); lia.
Qed.

Lemma pg_drained_room s :
  pg_reach s -> no_wrap (numbered_of s) -> peeksize (kB s) < 0 -> b8 s ->
  qlen (rcv_queue (kB s)) < rcv_wnd (kB s).
Proof.
  intros Hr Hnw Hp Hb8.
  destruct (pg_reach_base s Hr) as (_ & HiB & Hsi & _).
  pose proof (pg_reach_receiver s Hr Hnw) as HR.
  pose proof (I_rcv_wnd _ HiB) as Hrw.
  destruct (RI_nxt _ _ _ HR) as (r & done & _ & _ & Hq & _).
  destruct (sender_src_wf _ _ Hsi) as [Hwf _]. fold (numbered_of s) in Hwf.
  unfold peeksize in Hp. destruct (rcv_queue (kB s)) as [|x q] eqn:Eq; [rewrite qlen_nil; lia|].
  assert (Hin : In (pay x) (numbered_of s)).
  { cbn [map] in Hq. eapply nr_in_skipn. eapply nr_in_firstn. rewrite <- Hq. left; reflexivity. }
  pose proof (proj1 (Forall_forall _ _) Hwf _ Hin) as ((W1 & W2) & _).
  pose proof (proj1 (Forall_forall _ _) Hb8 _ Hin) as W3. unfold pay in W1, W2, W3. cbn [fst] in W1, W2, W3.
  destruct (s_frg x =? 0); [pose proof (blen_nonneg (s_data x)); lia|].
  destruct (qlen (x :: q) <? u8 (s_frg x + 1)) eqn:E; lv_b2z.
  - unfold u8 in E. rewrite Z.mod_small in E by lia. lia.
  - pose proof (pg_msg_size_nonneg (x :: q)). lia.
Qed.

Lemma pg_drained_J s :
  pg_reach s -> no_wrap (numbered_of s) -> peeksize (kB s) < 0 -> b8 s ->
  pg_J (isn_of s) (kB s) (a_idx s).
Proof.
  intros Hr Hnw Hp Hb8.
  pose proof (pg_link_reach s Hr Hnw) as Hl.
  destruct (pg_reach_base s Hr) as (_ & HiB & _).
  destruct (pg_ridx_sys s Hr Hnw) as (Hrn & Hrr).
  destruct (pg_aidx s Hr Hnw) as (_ & Ha0 & HM).
  pose proof (pg_drained_room s Hr Hnw Hp Hb8) as Hroom.
  unfold pg_J. fold (r_idx s).
  destruct (Z_lt_ge_dec (a_idx s) (r_idx s)) as [Hlt|Hge]; [left; exact Hlt|right].
  split; [|exact Hroom].
  destruct (Z.eq_dec (a_idx s) (r_idx s)) as [E|Hne]; [exact E|exfalso].
  assert (Hlt : r_idx s < a_idx s) by lia.
  destruct (L1_una _ Hl (r_idx s) ltac:(lia)) as (_ & [Hc|Hc]); [unfold r_idx in Hc; lia|].
  rewrite <- Hrn in Hc.
  destruct (pg_sorted_head _ _ _ (I_rb_sorted _ HiB) (I_rnxt_u32 _ HiB) Hc) as (x & t & El & Ex).
  pose proof (LB_moved _ Hl) as Hm. unfold moved in Hm. rewrite El in Hm. destruct Hm as [Hm|Hm]; [contradiction|lia].
Qed.

(* ================================================================== *)
(* 6. the theorems                                                     *)
(* ================================================================== *)
Lemma pg_drain_total n : forall s, pg_reach s -> exists s', drain n s = Some s' /\ pg_reach s'.
Proof.
  induction n as [|n IH]; intros s Hr; cbn [drain]; [exists s; split; [reflexivity|exact Hr]|].
  destruct (peeksize (kB s) <? 0); [exists s; split; [reflexivity|exact Hr]|].
  pose proof (pg_recv_ev_ok s (peeksize (kB s))) as Hok.
  destruct (pg_step_total s _ Hr Hok) as (sa & Hst). rewrite Hst. cbn [bind2].
  apply IH. eapply pr_step; eassumption.
Qed.

Lemma pg_drain_frame n : forall s s', drain n s = Some s' -> pg_reach s ->
  pg_reach s' /\ pg_frameA s s' /\ exists out, wireB s' = wireB s ++ out.
Proof.
  induction n as [|n IH]; intros s s' Hd Hr; cbn [drain] in Hd.
  - inversion Hd; subst. split; [exact Hr|]. split; [repeat split|]. exists []. rewrite app_nil_r. reflexivity.
  - destruct (peeksize (kB s) <? 0).
    { inversion Hd; subst. split; [exact Hr|]. split; [repeat split|]. exists []. rewrite app_nil_r. reflexivity. }
    destruct (sys2_step s (EB (ORecv (peeksize (kB s))))) as [sa|] eqn:Hst; [|discriminate]. cbn [bind2] in Hd.
    pose proof (pg_recv_ev_ok s (peeksize (kB s))) as Hok.
    assert (Hra : pg_reach sa) by (eapply pr_step; eassumption).
    destruct (pg_stepB _ _ _ Hst) as (k' & x & _ & Es').
    assert (F : kA sa = kA s /\ gA (s1 sa) = gA (s1 s) /\ wire (s1 sa) = wire (s1 s) /\ wireB sa = wireB s ++ o_dgrams x)
      by (subst sa; repeat split; reflexivity).
    destruct F as (F1 & F2 & F3 & F4).
    destruct (IH sa s' Hd Hra) as (R1 & (B1 & B2 & B3) & out & Hw).
    split; [exact R1|]. split; [repeat split; congruence|]. exists (o_dgrams x ++ out). rewrite Hw, F4, app_assoc. reflexivity.
Qed.

Lemma pg_deliver_b_total t : forall ds s, pg_reach s -> is_u32 t -> (forall d, In d ds -> In d (wire (s1 s))) ->
  exists s', deliver (fun d => EB (OInput d true false t)) ds s = Some s' /\ pg_reach s' /\ pg_frameA s s' /\
             exists out, wireB s' = wireB s ++ out.
Proof.
  induction ds as [|d0 ds IH]; intros s Hr Ht Hin; cbn [deliver].
  - exists s. split; [reflexivity|]. split; [exact Hr|]. split; [repeat split|]. exists []. rewrite app_nil_r. reflexivity.
  - assert (Hok : ev_ok2 s (EB (OInput d0 true false t))) by (apply pg_inputB_ev_ok; [exact Hr|exact Ht|apply Hin; left; reflexivity]).
    destruct (pg_step_total s _ Hr Hok) as (sa & Hst). rewrite Hst. cbn [bind2].
    assert (Hra : pg_reach sa) by (eapply pr_step; eassumption).
    destruct (pg_stepB _ _ _ Hst) as (k' & x & _ & Es').
    assert (F : kA sa = kA s /\ gA (s1 sa) = gA (s1 s) /\ wire (s1 sa) = wire (s1 s) /\ wireB sa = wireB s ++ o_dgrams x)
      by (subst sa; repeat split; reflexivity).
    destruct F as (F1 & F2 & F3 & F4).
    destruct (IH sa Hra Ht) as (s' & Hd & R1 & (B1 & B2 & B3) & out & Hw).
    { intros d Hdin. rewrite F3. apply Hin. right; exact Hdin. }
    exists s'. split; [exact Hd|]. split; [exact R1|]. split; [repeat split; congruence|].
    exists (o_dgrams x ++ out). rewrite Hw, F4, app_assoc. reflexivity.
Qed.

Lemma pg_deliver_a_total t : forall ds s, pg_reach s -> is_u32 t -> (forall d, In d ds -> In d (wireB s)) ->
  exists s', deliver (fun d => EA (OInput d true false t)) ds s = Some s' /\ pg_reach s'.
Proof.
  induction ds as [|d0 ds IH]; intros s Hr Ht Hin; cbn [deliver].
  - exists s. split; [reflexivity|exact Hr].
  - assert (Hok : ev_ok2 s (EA (OInput d0 true false t))) by (apply pg_inputA_ev_ok; [exact Hr|exact Ht|apply Hin; left; reflexivity]).
    destruct (pg_step_total s _ Hr Hok) as (sa & Hst). rewrite Hst. cbn [bind2].
    assert (Hra : pg_reach sa) by (eapply pr_step; eassumption).
    destruct (pg_stepA _ _ _ Hst) as (k' & x & _ & Es').
    assert (Fw : wireB sa = wireB s) by (subst sa; reflexivity).
    apply (IH sa Hra Ht). intros d Hdin. rewrite Fw. apply Hin. right; exact Hdin.
Qed.

Lemma pg_in_skipn (T : Type) n (l : list T) x : In x (skipn n l) -> In x l.
Proof. exact (nr_in_skipn T n l x). Qed.

Lemma pg_flushB_ev_ok s t : is_u32 t -> ev_ok2 s (EB (OFlush true t)).
Proof. intros Ht. split; [split; [split; [exact I|exact Ht]|exact I]|exact I]. Qed.

(* the round is total and stays inside the reachable states *)
Theorem c02_round_total : forall s t, reach2 s -> is_u32 t ->
  exists s', healed_round s t = Some s' /\ reach2 s'.
Proof.
  intros s t Hr Ht. apply pg_reach_iff in Hr. unfold healed_round, b_drain.
  destruct (pg_drain_total (length (rcv_queue (kB s)) + length (rcv_buf (kB s))) s Hr) as (s_1 & E1 & R1). rewrite E1. cbn [bind2].
  destruct (pg_step_total s_1 _ R1 (pg_flushA_ev_ok s_1 t Ht)) as (s_2 & E2). rewrite E2. cbn [bind2].
  assert (R2 : pg_reach s_2) by (eapply pr_step; [exact R1|exact (pg_flushA_ev_ok s_1 t Ht)|exact E2]).
  destruct (pg_deliver_b_total t (new_wire s_1 s_2) s_2 R2 Ht) as (s_3 & E3 & R3 & _).
  { intros d Hd. exact (pg_in_skipn _ _ _ _ Hd). }
  rewrite E3. cbn [bind2].
  destruct (pg_drain_total (length (rcv_queue (kB s_3)) + length (rcv_buf (kB s_3))) s_3 R3) as (s_4 & E4 & R4).
  rewrite E4. cbn [bind2].
  destruct (pg_step_total s_4 _ R4 (pg_flushB_ev_ok s_4 t Ht)) as (s_5 & E5). rewrite E5. cbn [bind2].
  assert (R5 : pg_reach s_5) by (eapply pr_step; [exact R4|exact (pg_flushB_ev_ok s_4 t Ht)|exact E5]).
  destruct (pg_deliver_a_total t (new_wireB s_2 s_5) s_5 R5 Ht) as (s' & E6 & R6).
  { intros d Hd. exact (pg_in_skipn _ _ _ _ Hd). }
  exists s'. split; [exact E6|]. apply pg_reach_iff. exact R6.
Qed.

(* progress: the round strictly advances A's cumulative acknowledgement point *)
Theorem c02_round_progress : forall s t s',
  reach2 s -> is_u32 t -> head_due s t -> b8 s ->
  healed_round s t = Some s' -> no_wrap (numbered_of s') ->
  a_idx s < a_idx s'.
Proof.
  intros s t s' Hr Ht Hdue Hb8 Hround Hnw'. apply pg_reach_iff in Hr.
  unfold healed_round, b_drain in Hround.
  destruct (drain _ s) as [s_1|] eqn:E1; [|discriminate]. cbn [bind2] in Hround.
  destruct (sys2_step s_1 (EA (OFlush true t))) as [s_2|] eqn:E2; [|discriminate]. cbn [bind2] in Hround.
  destruct (deliver _ (new_wire s_1 s_2) s_2) as [s_3|] eqn:E3; [|discriminate]. cbn [bind2] in Hround.
  destruct (drain _ s_3) as [s_4|] eqn:E4; [|discriminate]. cbn [bind2] in Hround.
  destruct (sys2_step s_4 (EB (OFlush true t))) as [s_5|] eqn:E5; [|discriminate]. cbn [bind2] in Hround.
  rename Hround into E6.
  (* reachability and frames of every stage *)
  destruct (pg_drain_frame _ s s_1 E1 Hr) as (R1 & A1 & _).
  pose proof (pg_flushA_ev_ok s_1 t Ht) as Ok2.
  assert (R2 : pg_reach s_2) by (eapply pr_step; [exact R1|exact Ok2|exact E2]).
  destruct (pg_step_numbered s_1 _ s_2 R1 Ok2 E2) as (I2 & ext2 & N2).
  assert (Hin3 : forall d, In d (new_wire s_1 s_2) -> In d (wire (s1 s_2))) by (intros d Hd; exact (pg_in_skipn _ _ _ _ Hd)).
  destruct (pg_deliver_b_total t (new_wire s_1 s_2) s_2 R2 Ht Hin3) as (s_3' & E3' & R3 & A3 & out3 & W3).
  rewrite E3 in E3'. inversion E3'; subst s_3'. clear E3'.
  destruct (pg_drain_frame _ s_3 s_4 E4 R3) as (R4 & A4 & out4 & W4).
  pose proof (pg_flushB_ev_ok s_4 t Ht) as Ok5.
  assert (R5 : pg_reach s_5) by (eapply pr_step; [exact R4|exact Ok5|exact E5]).
  destruct (pg_stepB _ _ _ E5) as (k5 & x5 & Est5 & Es5).
  assert (F5 : kA s_5 = kA s_4 /\ gA (s1 s_5) = gA (s1 s_4) /\ wire (s1 s_5) = wire (s1 s_4) /\
               kB s_5 = k5 /\ wireB s_5 = wireB s_4 ++ o_dgrams x5) by (subst s_5; repeat split; reflexivity).
  destruct F5 as (F51 & F52 & F53 & F54 & F55).
  assert (A5 : pg_frameA s_4 s_5) by (repeat split; assumption).
  assert (Hin6 : forall d, In d (new_wireB s_2 s_5) -> In d (wireB s_5)) by (intros d Hd; exact (pg_in_skipn _ _ _ _ Hd)).
  destruct (pg_deliver_a_reach t _ s_5 s' E6 R5 Ht Hin6) as (R6 & ext6 & N6).
  (* the numbering of every stage is a prefix of the last one *)
  destruct (pg_frameA_isn _ _ A1) as (I1 & N1 & X1).
  destruct (pg_frameA_isn _ _ A3) as (I3 & N3 & X3).
  destruct (pg_frameA_isn _ _ A4) as (I4 & N4 & X4).
  destruct (pg_frameA_isn _ _ A5) as (I5 & N5 & X5).
  assert (Hnw5 : no_wrap (numbered_of s_5)) by (rewrite N6 in Hnw'; exact (pg_no_wrap_prefix _ _ Hnw')).
  assert (Hnw4 : no_wrap (numbered_of s_4)) by congruence.
  assert (Hnw3 : no_wrap (numbered_of s_3)) by congruence.
  assert (Hnw2 : no_wrap (numbered_of s_2)) by congruence.
  assert (Hnw1 : no_wrap (numbered_of s_1)) by (rewrite N2 in Hnw2; exact (pg_no_wrap_prefix _ _ Hnw2)).
  assert (Hnw0 : no_wrap (numbered_of s)) by congruence.
  set (a0 := a_idx s).
  assert (Ha0 : 0 <= a0 < H32 - 65536).
  { destruct (pg_aidx s Hr Hnw0) as (_ & H1 & H2). pose proof (qlen_nonneg (snd_buf (kA s))).
    unfold a0. unfold no_wrap in Hnw0. lia. }
  (* (i) B is drained: room, and it has everything below a0 *)
  destruct (pg_drain_props _ s s_1 E1 Hr Hnw0) as (_ & _ & M1 & _).
  assert (Hp1 : peeksize (kB s_1) < 0) by (apply (pg_drain_done _ s s_1 E1); lia).
  assert (HJ1 : pg_J (isn_of s_1) (kB s_1) a0).
  { unfold a0. rewrite <- X1. apply pg_drained_J; try assumption.
    unfold b8 in *. rewrite N1. destruct M1 as (_ & _ & _ & T4 & _). rewrite T4. exact Hb8. }
  (* (ii) A flushes: the head of snd_buf is on the wire *)
  assert (Hdue1 : head_due s_1 t) by (unfold head_due in *; destruct A1 as (A11 & _); rewrite A11; exact Hdue).
  destruct (pg_flush_push s_1 t s_2 R1 Ht Hdue1 E2 Hnw2) as (dh & segs & w & Hdh & Edh & Hsegs & Hw & Hcmd & Hsn).
  pose proof (pg_link_reach s_1 R1 Hnw1) as L1.
  destruct (pg_link_a s_1 _ s_2 R1 L1 Ok2 E2 Hnw2) as (L2 & B2 & Hmono2 & _).
  assert (HJ2 : pg_J (isn_of s_2) (kB s_2) a0).
  { destruct B2 as (B21 & _ & _ & B24 & _). rewrite B21, B24. exact HJ1. }
  (* (iii) delivery to B *)
  set (n0 := length (wireB s_2)).
  destruct (pg_deliver_b t a0 n0 _ s_2 s_3 E3 R2 Hnw2 Ht Hin3 (le_n _)) as (_ & _ & _ & Hn3 & _ & Hhit).
  assert (G3 : pg_goal n0 a0 s_3).
  { apply (Hhit dh segs w Hdh Edh Hsegs Hw Hcmd); [|exact Ha0|exact HJ2].
    rewrite I2, Hsn, X1. reflexivity. }
  (* (iv) the second drain *)
  destruct (pg_drain_props _ s_3 s_4 E4 R3 Hnw3) as (_ & _ & _ & Hn4 & Hg4).
  assert (G4 : pg_goal n0 a0 s_4) by (apply Hg4; [exact Hn3|exact G3]).
  (* (v) B flushes *)
  pose proof (pg_link_reach s_4 R4 Hnw4) as L4.
  assert (G5 : pg_goal n0 a0 s_5) by (apply (pg_goal_b_step s_4 _ s_5 n0 a0 R4 L4 Ok5 E5); [lia|exact G4]).
  assert (Hal5 : acklist (kB s_5) = []).
  { cbn [step] in Est5. destruct (flush (kB s_4) FLUSH_FULL t) as [[[k6 nx] o6]|e] eqn:Hfl; [|discriminate].
    injection Est5 as Ek5 Ex5. rewrite F54, <- Ek5. exact (flush_acklist _ _ _ _ _ _ Hfl (or_introl eq_refl)). }
  destruct G5 as (_ & [Hne|(d & Hd & Hgood)]); [rewrite Hal5 in Hne; contradiction|].
  (* (vi) delivery to A *)
  destruct (pg_deliver_a t a0 _ s_5 s' E6 R5 Ht Hin6 Hnw') as (_ & Hfin).
  fold a0. apply Hfin. exists d. split; [exact Hd|exact Hgood].
Qed.

(* the queue half: with nothing outstanding and an open window, a flush numbers queued data *)
Theorem c02_queue_progress : forall s t,
  reach2 s -> is_u32 t -> snd_buf (kA s) = [] -> snd_queue (kA s) <> [] -> rmt_wnd (kA s) > 0 ->
  (nocwnd (kA s) = 0 -> cwnd (kA s) > 0) ->
  exists s', sys2_step s (EA (OFlush true t)) = Some s' /\ reach2 s' /\ snd_buf (kA s') <> [].
Proof.
  intros s t Hr Ht Hb Hq Hw Hcw. apply pg_reach_iff in Hr.
  pose proof (pg_flushA_ev_ok s t Ht) as Hok.
  destruct (pg_step_total s _ Hr Hok) as (s' & Hst). exists s'. split; [exact Hst|].
  split; [apply pg_reach_iff; eapply pr_step; eassumption|].
  destruct (pg_reach_base s Hr) as (HiA & _).
  destruct (pg_stepA _ _ _ Hst) as (k' & x & E & Es').
  cbn [step] in E. destruct (flush (kA s) FLUSH_FULL t) as [[[k1 nx] o]|e] eqn:Hfl; [|discriminate].
  injection E as Ek Ex.
  assert (F : kA s' = k1) by (rewrite Es', <- Ek; reflexivity).
  rewrite F. pose proof (resume_admits (kA s) t k1 nx o HiA Hb Hq Hw Hcw Hfl) as H.
  intros En. rewrite En, qlen_nil in H. lia.
Qed.

(* ================================================================== *)
(* 7. the backlog is only renumbered, never lengthened, by the round   *)
(* ================================================================== *)
Lemma pg_flush_len k ft now k' nx o :
  inv k -> flush k ft now = Ok (k', nx, o) ->
  snd_una k' = snd_una k /\
  exists n, (length (snd_buf k') = length (snd_buf k) + n /\ length (snd_queue k) = n + length (snd_queue k'))%nat.
Proof.
  intros Hinv Hfl.
  destruct (fl_shape k ft now k' nx o Hfl)
    as (al & tsp & pw & st & sst & cwn & inc & h1 & st3 & sq & sb & nxt & ns & k4 & sb' & a &
        Hk' & _ & _ & _ & E4 & Esb & E5).
  pose proof (fl_ph5_rel _ _ _ _ _ _ _ _ E5) as Hrel. rewrite Esb in Hrel.
  apply ns_F2_length in Hrel.
  assert (H4 : exists pre adm, snd_queue k = pre ++ sq /\ sb = snd_buf k ++ adm /\ length pre = length adm).
  { unfold fl_ph4 in E4. destruct (ft =? FLUSH_FULL).
    - destruct (ns_admit_spec _ _ _ _ _ _ _ _ _ _ _ E4) as (pre & adm & A1 & A2 & A3).
      exists pre, adm. split; [exact A1|]. split; [exact A2|exact (ns_F2_length _ _ _ _ _ A3)].
    - inversion E4; subst. exists [], []. rewrite app_nil_r. auto. }
  destruct H4 as (pre & adm & A1 & A2 & A3).
  subst k'. unfold fl_final. fl_fields. split; [reflexivity|].
  exists (length adm). rewrite <- Hrel, A2, A1, !app_length. lia.
Qed.

Lemma pg_newly_len g k o k' x :
  sender_inv g k -> op_ok32 o -> (forall b, o <> OSend b) -> step k o = Ok (k', x) ->
  (length (newly_numbered k k') + length (snd_queue k') = length (snd_queue k))%nat.
Proof.
  intros Hsi [Hop _] Hns Hstep. pose proof (SI_inv _ _ Hsi) as Hinv.
  assert (Hquiet : forall k1, snd_queue k1 = snd_queue k -> snd_buf k1 = snd_buf k -> snd_una k1 = snd_una k ->
            k' = k1 -> (length (newly_numbered k k') + length (snd_queue k') = length (snd_queue k))%nat).
  { intros k1 E1 E2 E3 ->. rewrite (ns_newly_nil k k1 Hinv E3 E2), E1. reflexivity. }
  assert (Hflush : forall k1 j ft now k2 nx o2, inv k1 -> (j <= length (snd_buf k))%nat ->
            snd_una k1 = u32 (snd_una k + Z.of_nat j) -> length (snd_buf k1) = (length (snd_buf k) - j)%nat ->
            snd_queue k1 = snd_queue k -> flush k1 ft now = Ok (k2, nx, o2) -> k' = k2 ->
            (length (newly_numbered k k') + length (snd_queue k') = length (snd_queue k))%nat).
  { intros k1 j ft now k2 nx o2 Hi1 Hj Hu Hl Hq Hfl ->.
    destruct (pg_flush_len k1 ft now k2 nx o2 Hi1 Hfl) as (Hu2 & n & L1 & L2).
    rewrite (ns_newly_shift k k2 j Hinv Hj) by congruence.
    rewrite map_length, skipn_length. rewrite <- Hq. lia. }
  destruct o as [b|n|d reg nd now|full now|now|now|m|nd iv rs nc]; cbn [step op_ok] in *.
  - exfalso. exact (Hns b eq_refl).
  - pose proof (ns_sf_recv k n) as Hsf. destruct (recv k n) as [[k1 r] d]. cbn [fst] in Hsf.
    inversion Hstep; subst k' x. destruct Hsf as (Sq & Sb & Su & _). apply (Hquiet k1); auto.
  - unfold input in Hstep.
    destruct (input_pre_ok k d reg nd now Hinv Hop) as (k1 & r & fr & Hpre & Hinv1 & _).
    rewrite Hpre in Hstep.
    pose proof (ns_input_pre_pre k d reg nd now k1 r fr Hop Hpre) as Hp.
    destruct (ns_pre_sender g k k1 Hsi Hp Hinv1) as (_ & _ & j & Hj & Hu & Hl).
    pose proof Hp as (_ & Hq & _).
    destruct fr.
    + inversion Hstep; subst k' x.
      rewrite (ns_newly_shift k k1 j Hinv Hj Hu), map_length, skipn_length, Hq. lia.
    + destruct (flush k1 FLUSH_ACKONLY now) as [[[k2 nx] o]|w] eqn:Hfl; [|discriminate].
      inversion Hstep; subst k' x. exact (Hflush k1 j _ now k2 nx o Hinv1 Hj Hu Hl Hq Hfl eq_refl).
    + destruct (flush k1 FLUSH_FULL now) as [[[k2 nx] o]|w] eqn:Hfl; [|discriminate].
      inversion Hstep; subst k' x. exact (Hflush k1 j _ now k2 nx o Hinv1 Hj Hu Hl Hq Hfl eq_refl).
  - destruct (flush k (if full then FLUSH_FULL else FLUSH_ACKONLY) now) as [[[k2 nx] o]|w] eqn:Hfl; [|discriminate].
    inversion Hstep; subst k' x.
    apply (Hflush k 0%nat (if full then FLUSH_FULL else FLUSH_ACKONLY) now k2 nx o Hinv); try reflexivity; [lia| |lia|exact Hfl].
    cbn [Z.of_nat]. rewrite Z.add_0_r, u32_id by exact (I_una_u32 _ Hinv). reflexivity.
  - unfold update in Hstep.
    set (k1 := if updated k =? 0 then set_timer k (state k) now 1 else k) in *.
    set (p := if (itimediff now (ts_flush k1) >=? 10000) || (itimediff now (ts_flush k1) <? -10000)
              then (set_timer k1 (state k1) now (updated k1), 0) else (k1, itimediff now (ts_flush k1))) in *.
    assert (H2 : inv (fst p) /\ snd_queue (fst p) = snd_queue k /\ snd_buf (fst p) = snd_buf k /\ snd_una (fst p) = snd_una k).
    { assert (H1 : inv k1 /\ snd_queue k1 = snd_queue k /\ snd_buf k1 = snd_buf k /\ snd_una k1 = snd_una k).
      { unfold k1. destruct (updated k =? 0); [split; [apply inv_set_timer; exact Hinv|auto]|auto]. }
      destruct H1 as (I1 & Q1 & B1 & U1). unfold p.
      destruct ((itimediff now (ts_flush k1) >=? 10000) || (itimediff now (ts_flush k1) <? -10000)); cbn [fst];
        [split; [apply inv_set_timer; exact I1|auto]|auto]. }
    destruct p as [k2 slap]. cbn [fst] in H2. destruct H2 as (I2 & Q2 & B2 & U2).
    destruct (slap >=? 0).
    + match type of Hstep with context [flush ?kk FLUSH_FULL now] => set (k3 := kk) in * end.
      destruct (flush k3 FLUSH_FULL now) as [[[k4 nx] o]|w] eqn:Hfl; [|discriminate].
      inversion Hstep; subst k' x.
      apply (Hflush k3 0%nat FLUSH_FULL now k4 nx o); try reflexivity; [apply inv_set_timer; exact I2|lia| | |exact Q2|exact Hfl].
      * cbn [Z.of_nat]. rewrite Z.add_0_r, u32_id by exact (I_una_u32 _ Hinv). exact U2.
      * change (snd_buf k3) with (snd_buf k2). rewrite B2. lia.
    + inversion Hstep; subst k' x. apply (Hquiet k2); auto.
  - inversion Hstep; subst k' x. apply (Hquiet k); auto.
  - pose proof (ns_sf_set_mtu k m) as Hsf. destruct (set_mtu k m) as [k1 r]. cbn [fst] in Hsf.
    inversion Hstep; subst k' x. destruct Hsf as (Sq & Sb & Su & _). apply (Hquiet k1); auto.
  - inversion Hstep; subst k' x. destruct (ns_sf_set_nodelay k nd iv rs nc) as (Sq & Sb & Su & _).
    apply (Hquiet (set_nodelay k nd iv rs nc)); auto.
Qed.

Lemma pg_no_wrap_all s : no_wrap_all s -> no_wrap (numbered_of s).
Proof. unfold no_wrap_all, no_wrap, backlog_len. lia. Qed.

Lemma pg_backlog_a s o s' :
  pg_reach s -> ev_ok2 s (EA o) -> (forall b, o <> OSend b) -> sys2_step s (EA o) = Some s' ->
  backlog_len s' = backlog_len s.
Proof.
  intros Hr Hok Hns Hst. destruct (pg_reach_base s Hr) as (_ & _ & Hsi & _).
  destruct (pg_stepA _ _ _ Hst) as (k' & x & E & Es').
  pose proof (pg_newly_len _ _ _ _ _ Hsi (proj1 Hok) Hns E) as H.
  unfold backlog_len, numbered_of, kA. rewrite Es'. cbn [s1 sA gA ghost_sender sg_numbered].
  rewrite app_length. fold (kA s). lia.
Qed.

Lemma pg_backlog_frameA s s' : pg_frameA s s' -> backlog_len s' = backlog_len s.
Proof. intros (E1 & E2 & _). unfold backlog_len, numbered_of. rewrite E1, E2. reflexivity. Qed.

Lemma pg_deliver_a_backlog t : forall ds s s',
  deliver (fun d => EA (OInput d true false t)) ds s = Some s' ->
  pg_reach s -> is_u32 t -> (forall d, In d ds -> In d (wireB s)) -> backlog_len s' = backlog_len s.
Proof.
  induction ds as [|d0 ds IH]; intros s s' Hd Hr Ht Hin; cbn [deliver] in Hd.
  - inversion Hd; subst; reflexivity.
  - destruct (sys2_step s (EA (OInput d0 true false t))) as [sa|] eqn:Hst; [|discriminate]. cbn [bind2] in Hd.
    assert (Hok : ev_ok2 s (EA (OInput d0 true false t))) by (apply pg_inputA_ev_ok; [exact Hr|exact Ht|apply Hin; left; reflexivity]).
    assert (Hra : pg_reach sa) by (eapply pr_step; eassumption).
    destruct (pg_stepA _ _ _ Hst) as (k' & x & _ & Es').
    assert (Fw : wireB sa = wireB s) by (subst sa; reflexivity).
    rewrite (IH sa s' Hd Hra Ht) by (intros d Hdin; rewrite Fw; apply Hin; right; exact Hdin).
    apply (pg_backlog_a s _ sa Hr Hok); [intros; discriminate|exact Hst].
Qed.

(* C02, with the no-wrap bound stated on the start state only *)
Theorem c02_round : forall s t,
  reach2 s -> no_wrap_all s -> is_u32 t -> head_due s t -> b8 s ->
  exists s', healed_round s t = Some s' /\ reach2 s' /\ no_wrap_all s' /\ a_idx s < a_idx s'.
Proof.
  intros s t Hr Hnw Ht Hdue Hb8.
  destruct (c02_round_total s t Hr Ht) as (s' & Hround & Hr').
  exists s'. split; [exact Hround|]. split; [exact Hr'|].
  assert (Hbl : backlog_len s' = backlog_len s).
  { apply pg_reach_iff in Hr. clear Hr'. unfold healed_round, b_drain in Hround.
    destruct (drain _ s) as [s_1|] eqn:E1; [|discriminate]. cbn [bind2] in Hround.
    destruct (sys2_step s_1 (EA (OFlush true t))) as [s_2|] eqn:E2; [|discriminate]. cbn [bind2] in Hround.
    destruct (deliver _ (new_wire s_1 s_2) s_2) as [s_3|] eqn:E3; [|discriminate]. cbn [bind2] in Hround.
    destruct (drain _ s_3) as [s_4|] eqn:E4; [|discriminate]. cbn [bind2] in Hround.
    destruct (sys2_step s_4 (EB (OFlush true t))) as [s_5|] eqn:E5; [|discriminate]. cbn [bind2] in Hround.
    destruct (pg_drain_frame _ s s_1 E1 Hr) as (R1 & A1 & _).
    pose proof (pg_flushA_ev_ok s_1 t Ht) as Ok2.
    assert (R2 : pg_reach s_2) by (eapply pr_step; [exact R1|exact Ok2|exact E2]).
    assert (Hin3 : forall d, In d (new_wire s_1 s_2) -> In d (wire (s1 s_2))) by (intros d Hd; exact (pg_in_skipn _ _ _ _ Hd)).
    destruct (pg_deliver_b_total t (new_wire s_1 s_2) s_2 R2 Ht Hin3) as (s_3' & E3' & R3 & A3 & _).
    rewrite E3 in E3'. inversion E3'; subst s_3'. clear E3'.
    destruct (pg_drain_frame _ s_3 s_4 E4 R3) as (R4 & A4 & _).
    pose proof (pg_flushB_ev_ok s_4 t Ht) as Ok5.
    assert (R5 : pg_reach s_5) by (eapply pr_step; [exact R4|exact Ok5|exact E5]).
    destruct (pg_stepB _ _ _ E5) as (k5 & x5 & _ & Es5).
    assert (A5 : pg_frameA s_4 s_5) by (subst s_5; repeat split; reflexivity).
    assert (Hin6 : forall d, In d (new_wireB s_2 s_5) -> In d (wireB s_5)) by (intros d Hd; exact (pg_in_skipn _ _ _ _ Hd)).
    rewrite (pg_deliver_a_backlog t _ s_5 s' Hround R5 Ht Hin6).
    rewrite (pg_backlog_frameA _ _ A5), (pg_backlog_frameA _ _ A4), (pg_backlog_frameA _ _ A3).
    rewrite (pg_backlog_a s_1 _ s_2 R1 Ok2 ltac:(intros; discriminate) E2).
    exact (pg_backlog_frameA _ _ A1). }
  assert (Hnw' : no_wrap_all s') by (unfold no_wrap_all; rewrite Hbl; exact Hnw).
  split; [exact Hnw'|].
  exact (c02_round_progress s t s' Hr Ht Hdue Hb8 Hround (pg_no_wrap_all s' Hnw')).
Qed.

(* ================================================================== *)
(* 8. zero-window probing: the window announcement reaches A           *)
(* ================================================================== *)
(* the receiver owes a window announcement / its delivery queue is full *)
Definition pg_tell (k : kcp) : Prop := Z.land (probe k) c_IKCP_ASK_TELL <> 0.
Definition pg_full (k : kcp) : Prop := rcv_wnd k <= qlen (rcv_queue k).

Lemma pg_wnd_unused_pos k : inv k -> ~ pg_full k -> 0 < wnd_unused k.
Proof.
  intros Hinv Hn. unfold pg_full in Hn. unfold wnd_unused. pose proof (I_rcv_wnd _ Hinv). pose proof (qlen_nonneg (rcv_queue k)).
  destruct (qlen (rcv_queue k) <? rcv_wnd k) eqn:E; lv_b2z; [|lia]. unfold u16. rewrite Z.mod_small; lia.
Qed.

Lemma pg_move_ready_grow rw : forall rb rq rn rb' rq' rn',
  move_ready rb rq rn rw = (rb', rq', rn') -> qlen rq <= qlen rq'.
Proof.
  induction rb as [|s t IH]; intros rq rn rb' rq' rn' E; cbn [move_ready] in E.
  - inversion E; subst. lia.
  - destruct ((s_sn s =? rn) && (qlen rq <? rw)).
    + apply IH in E. rewrite qlen_app, qlen_cons, qlen_nil in E. lia.
    + inversion E; subst. lia.
Qed.

Lemma pg_do_move_ready_grow k :
  qlen (rcv_queue k) <= qlen (rcv_queue (do_move_ready k)) /\ probe (do_move_ready k) = probe k /\
  rcv_wnd (do_move_ready k) = rcv_wnd k.
Proof.
  pose proof (do_move_ready_fields k) as F. split; [|split; apply F].
  unfold do_move_ready.
  destruct (move_ready (rcv_buf k) (rcv_queue k) (rcv_nxt k) (rcv_wnd k)) as [[rb rq] rn] eqn:E.
  ksimpl. exact (pg_move_ready_grow _ _ _ _ _ _ _ E).
Qed.

Lemma pg_parse_data_grow k s k' f : parse_data k s = Ok (k', f) ->
  qlen (rcv_queue k) <= qlen (rcv_queue k') /\ probe k' = probe k /\ rcv_wnd k' = rcv_wnd k.
Proof.
  unfold parse_data. cbv zeta. intros H.
  destruct ((itimediff (s_sn s) (u32 (rcv_nxt k + rcv_wnd k)) >=? 0) || (itimediff (s_sn s) (rcv_nxt k) <? 0)).
  { inversion H; subst. split; [lia|split; reflexivity]. }
  destruct (has_sn (s_sn s) (rcv_buf k)).
  { inversion H; subst. apply pg_do_move_ready_grow. }
  destruct (blen (s_data s) >? c_mtuLimit); [discriminate|]. inversion H; subst.
  exact (pg_do_move_ready_grow (set_rcv_buf k (insert_seg s (rcv_buf k)))).
Qed.

(* one segment: a WASK sets the flag, nothing clears it, the queue does not shrink *)
Lemma pg_seg_tell a x rest reg a' :
  seg_wf x -> s_conv x = conv (i_k a) -> cmd_ok (s_cmd x) ->
  input_seg a (encode_seg x ++ rest) reg = inl (Ok (a', rest)) ->
  (pg_tell (i_k a) -> pg_tell (i_k a')) /\ (s_cmd x = c_IKCP_CMD_WASK -> pg_tell (i_k a')) /\
  qlen (rcv_queue (i_k a)) <= qlen (rcv_queue (i_k a')) /\ rcv_wnd (i_k a') = rcv_wnd (i_k a).
Proof.
  intros Hwf Hcv Hcmd. rewrite (lv_input_seg_eq a x rest reg Hwf Hcv Hcmd), lv_in_tail_pre. cbv zeta.
  pose proof (lv_fr_pre a x reg) as Hfr. set (k := i_k a) in *.
  assert (Hp : probe (lv_pre a x reg) = probe k /\ rcv_queue (lv_pre a x reg) = rcv_queue k /\
               rcv_wnd (lv_pre a x reg) = rcv_wnd k).
  { unfold lv_fr in Hfr. destruct reg; inversion Hfr; repeat split; reflexivity. }
  destruct Hp as (P1 & P2 & P3). set (kp := lv_pre a x reg) in *.
  assert (Hsame : forall k', probe k' = probe kp -> rcv_queue k' = rcv_queue kp -> rcv_wnd k' = rcv_wnd kp ->
            (pg_tell k -> pg_tell k') /\ qlen (rcv_queue k) <= qlen (rcv_queue k') /\ rcv_wnd k' = rcv_wnd k).
  { intros k' E1 E2 E3. unfold pg_tell. rewrite E1, E2, E3, P1, P2, P3. split; [auto|split; [lia|reflexivity]]. }
  destruct Hcmd as [E|[E|[E|E]]]; rewrite E.
  - change (c_IKCP_CMD_PUSH =? c_IKCP_CMD_ACK) with false.
    change (c_IKCP_CMD_PUSH =? c_IKCP_CMD_PUSH) with true. cbv iota.
    assert (Hno : c_IKCP_CMD_PUSH = c_IKCP_CMD_WASK -> pg_tell (i_k a')) by (intros H; discriminate).
    destruct (itimediff (s_sn x) (u32 (rcv_nxt kp + rcv_wnd kp)) <? 0).
    + set (k4 := set_acklist kp (acklist kp ++ [(s_sn x, s_ts x)])).
      destruct (itimediff (s_sn x) (rcv_nxt k4) >=? 0).
      * destruct (parse_data k4 _) as [[k5 f]|w] eqn:Epd; [|discriminate].
        intros H; inversion H; subst a'. cbn [i_k]. destruct (pg_parse_data_grow _ _ _ _ Epd) as (G1 & G2 & G3).
        destruct (Hsame k4 eq_refl eq_refl eq_refl) as (S1 & S2 & S3).
        split; [intros Ht; unfold pg_tell; rewrite G2; exact (S1 Ht)|]. split; [intros H0; discriminate|].
        split; [lia|congruence].
      * intros H; inversion H; subst a'. cbn [i_k].
        destruct (Hsame k4 eq_refl eq_refl eq_refl) as (S1 & S2 & S3).
        split; [exact S1|]. split; [intros H0; discriminate|]. split; assumption.
    + intros H; inversion H; subst a'. cbn [i_k].
      destruct (Hsame kp eq_refl eq_refl eq_refl) as (S1 & S2 & S3).
      split; [exact S1|]. split; [intros H0; discriminate|]. split; assumption.
  - change (c_IKCP_CMD_ACK =? c_IKCP_CMD_ACK) with true. cbv iota.
    pose proof (lv_fr_parse_fastack (parse_ack kp (s_sn x)) (s_sn x) (s_ts x)) as F2.
    destruct (parse_fastack (parse_ack kp (s_sn x)) (s_sn x) (s_ts x)) as [k2 f]. cbn [fst] in F2.
    pose proof (lv_fr_shrink_buf k2) as F3. rewrite F2, lv_fr_parse_ack in F3.
    intros H; inversion H; subst a'. cbn [i_k].
    assert (F : probe (shrink_buf k2) = probe kp /\ rcv_queue (shrink_buf k2) = rcv_queue kp /\
                rcv_wnd (shrink_buf k2) = rcv_wnd kp) by (unfold lv_fr in F3; inversion F3; repeat split; reflexivity).
    destruct F as (F4 & F5 & F6). destruct (Hsame _ F4 F5 F6) as (S1 & S2 & S3).
    split; [exact S1|]. split; [intros H0; discriminate|]. split; assumption.
  - change (c_IKCP_CMD_WASK =? c_IKCP_CMD_ACK) with false.
    change (c_IKCP_CMD_WASK =? c_IKCP_CMD_PUSH) with false.
    change (c_IKCP_CMD_WASK =? c_IKCP_CMD_WASK) with true. cbv iota.
    intros H; inversion H; subst a'. cbn [i_k].
    assert (Ht : pg_tell (set_probe_flags kp (Z.lor (probe kp) c_IKCP_ASK_TELL))) by (unfold pg_tell; ksimpl; apply lv_land_lor_tell).
    split; [intros _; exact Ht|]. split; [intros _; exact Ht|]. ksimpl. rewrite P2, P3. split; [lia|reflexivity].
  - change (c_IKCP_CMD_WINS =? c_IKCP_CMD_ACK) with false.
    change (c_IKCP_CMD_WINS =? c_IKCP_CMD_PUSH) with false.
    change (c_IKCP_CMD_WINS =? c_IKCP_CMD_WASK) with false. cbv iota.
    intros H; inversion H; subst a'. cbn [i_k].
    destruct (Hsame kp eq_refl eq_refl eq_refl) as (S1 & S2 & S3).
    split; [exact S1|]. split; [intros H0; discriminate|]. split; assumption.
Qed.

(* the flag and the queue across a whole Input of B *)
Lemma pg_b_input_tell isn src g k segs reg nd now k' r o :
  no_wrap src -> pg_bi isn src g k -> Forall (pg_segB isn src (conv k)) segs ->
  input k (concat (map encode_seg segs)) reg nd now = Ok (k', r, o) ->
  (pg_full k -> pg_full k') /\
  (o = [] -> (pg_tell k \/ exists x, In x segs /\ s_cmd x = c_IKCP_CMD_WASK) -> pg_tell k').
Proof.
  intros Hnw Hbi HQ Hin.
  destruct segs as [|s1 t1].
  { cbn [map concat] in Hin. unfold input in Hin. rewrite pg_input_pre_nil in Hin. inversion Hin; subst k' r o.
    split; [auto|]. intros _ [H|(x & [] & _)]. exact H. }
  set (segs := s1 :: t1) in *.
  set (I := fun (pre : list seg) (a : inp) =>
    pg_bi isn src g (i_k a) /\ conv (i_k a) = conv k /\ rcv_wnd (i_k a) = rcv_wnd k /\
    qlen (rcv_queue k) <= qlen (rcv_queue (i_k a)) /\
    ((pg_tell k \/ exists x, In x pre /\ s_cmd x = c_IKCP_CMD_WASK) -> pg_tell (i_k a))).
  destruct (pg_input_pre I (pg_segB isn src (conv k)) reg k segs nd now) as (a' & HI & Epre).
  { intros s (H & _). exact H. }
  { intros pre a s rest (I1 & I2 & I3 & I4 & I5) (Q1 & Q2 & Q3 & Q4) Hrest.
    destruct (pg_b_seg isn src g a s rest reg Hnw I1 Hrest Q1) as (a1 & E1 & B1 & B2 & _);
      [congruence|exact Q3|exact Q4|].
    destruct (pg_seg_tell a s rest reg a1 Q1 ltac:(congruence) Q3 E1) as (T1 & T2 & T3 & T4).
    exists a1. split; [exact E1|]. split; [exact B1|].
    split; [destruct B2 as (_ & _ & _ & _ & H); congruence|]. split; [congruence|]. split; [lia|].
    intros [H|(x & Hx & Hc)]; [apply T1, I5; left; exact H|].
    apply in_app_or in Hx. destruct Hx as [Hx|[Hx|[]]].
    - apply T1, I5. right. exists x. split; assumption.
    - subst x. exact (T2 Hc). }
  { exact HQ. }
  { discriminate. }
  { split; [exact Hbi|]. split; [reflexivity|]. split; [reflexivity|]. split; [cbn [i_k]; lia|].
    intros [H|(x & [] & _)]. exact H. }
  destruct HI as (I1 & I2 & I3 & I4 & I5).
  set (k3 := pg_post k a' reg now) in *.
  destruct (pg_fx_all _ _ (pg_fx_post k a' reg now)) as
    (X1 & X2 & X3 & X4 & X5 & X6 & X7 & X8 & X9 & X10 & X11 & X12 & X13 & X14 & X15 & X16 & X17 & X18).
  fold k3 in X1, X2, X3, X4, X5, X6, X7, X8, X9, X10, X11, X12, X13, X14, X15, X16, X17, X18.
  assert (Hinv3 : inv k3).
  { assert (Hbl : is_byte_list (concat (map encode_seg segs))).
    { apply pg_concat_bytes. eapply Forall_impl; [|exact HQ]. intros s (H & _). exact H. }
    destruct (input_pre_ok k _ reg nd now (BI_inv _ _ _ _ Hbi) Hbl) as (k2 & r2 & fr2 & E2 & Hi2 & _).
    rewrite Epre in E2. inversion E2; subst. exact Hi2. }
  assert (Hbi3 : pg_bi isn src g k3).
  { apply (pg_bi_frame isn src g (i_k a')); try assumption. unfold pg_rv. rewrite X5, X13, X15, X7. reflexivity. }
  assert (Hfull3 : pg_full k -> pg_full k3) by (unfold pg_full; rewrite X7, X13, I3; lia).
  unfold input in Hin. rewrite Epre in Hin.
  assert (Hfl : forall ft k4 nx o4, ft = FLUSH_FULL \/ ft = FLUSH_ACKONLY -> flush k3 ft now = Ok (k4, nx, o4) ->
             pg_full k -> pg_full k4).
  { intros ft k4 nx o4 Hft Ef Hf.
    destruct (pg_b_flush isn src g k3 ft now k4 nx o4 Hbi3 Hft Ef) as (_ & F2 & _).
    unfold pg_rv in F2. inversion F2 as [[E1 E2 E3 E4]]. unfold pg_full. rewrite E2, E4. exact (Hfull3 Hf). }
  destruct (pg_freq k3 a' nd).
  - inversion Hin; subst k' r o. split; [exact Hfull3|]. intros _ H. unfold pg_tell. rewrite X9. exact (I5 H).
  - destruct (flush k3 FLUSH_ACKONLY now) as [[[k4 nx] o4]|w] eqn:Ef; [|discriminate].
    inversion Hin; subst k' r o. split; [exact (Hfl _ _ _ _ (or_intror eq_refl) Ef)|].
    intros Eo H. exfalso. subst o4.
    assert (Ht3 : Z.land (probe k3) c_IKCP_ASK_TELL <> 0) by (rewrite X9; exact (I5 H)).
    destruct (tell_emits_wins k3 _ now k4 nx [] Hinv3 Ht3 Ef) as ((d & _ & _ & [] & _) & _).
  - destruct (flush k3 FLUSH_FULL now) as [[[k4 nx] o4]|w] eqn:Ef; [|discriminate].
    inversion Hin; subst k' r o. split; [exact (Hfl _ _ _ _ (or_introl eq_refl) Ef)|].
    intros Eo H. exfalso. subst o4.
    assert (Ht3 : Z.land (probe k3) c_IKCP_ASK_TELL <> 0) by (rewrite X9; exact (I5 H)).
    destruct (tell_emits_wins k3 _ now k4 nx [] Hinv3 Ht3 Ef) as ((d & _ & _ & [] & _) & _).
Qed.

(* Recv: the flag is kept, and re-opening a full queue sets it *)
Lemma pg_recv_tell k n k' r d : inv k -> recv k n = (k', r, d) ->
  (pg_tell k -> pg_tell k') /\ (pg_full k -> pg_full k' \/ pg_tell k').
Proof.
  intros Hinv H. unfold recv in H. cbv zeta in H.
  destruct (peeksize k <? 0); [inversion H; subst; split; auto|].
  destruct (peeksize k >? n); [inversion H; subst; split; auto|].
  destruct (pop_msg (rcv_queue k)) as [d0 rq].
  set (k1 := do_move_ready (set_rcv_queue k rq)) in *.
  destruct (pg_do_move_ready_grow (set_rcv_queue k rq)) as (_ & G2 & G3). fold k1 in G2, G3.
  destruct (qlen (rcv_queue k1) <? rcv_wnd k1) eqn:E1; lv_b2z; cbn [andb] in H.
  - destruct (qlen (rcv_queue k) >=? rcv_wnd k) eqn:E2; lv_b2z; inversion H; subst k' r d.
    + assert (Ht : pg_tell (set_probe_flags k1 (Z.lor (probe k1) c_IKCP_ASK_TELL))) by (unfold pg_tell; ksimpl; apply lv_land_lor_tell).
      split; [intros _; exact Ht|intros _; right; exact Ht].
    + split; [unfold pg_tell; rewrite G2; auto|]. intros Hf. unfold pg_full in Hf. lia.
  - inversion H; subst k' r d. split; [unfold pg_tell; rewrite G2; auto|].
    intros _. left. unfold pg_full. lia.
Qed.

(* A: after Input of a datagram of control segments, rmt_wnd is the window of its last segment *)
Definition pg_ctlseg (cv : Z) (x : seg) : Prop :=
  seg_wf x /\ s_conv x = cv /\
  (s_cmd x = c_IKCP_CMD_ACK \/ s_cmd x = c_IKCP_CMD_WASK \/ s_cmd x = c_IKCP_CMD_WINS).

Lemma pg_a_input_wnd k x t nd now k' r o :
  inv k -> Forall (pg_ctlseg (conv k)) (x :: t) ->
  input k (concat (map encode_seg (x :: t))) true nd now = Ok (k', r, o) ->
  rmt_wnd k' = s_wnd (last (x :: t) x).
Proof.
  intros Hinv HQ Hin.
  set (I := fun (pre : list seg) (a : inp) =>
    inv (i_k a) /\ conv (i_k a) = conv k /\ (pre <> [] -> rmt_wnd (i_k a) = s_wnd (last pre x))).
  destruct (pg_input_pre I (pg_ctlseg (conv k)) true k (x :: t) nd now) as (a' & HI & Epre).
  { intros s (H & _). exact H. }
  { intros pre a s rest (I1 & I2 & I3) (Q1 & Q2 & Q3) Hrest.
    assert (Hcok : cmd_ok (s_cmd s)) by (unfold cmd_ok; tauto).
    destruct (window_update a s rest Q1 Hcok ltac:(congruence) I1) as (a1 & E1 & W1).
    { intros Hc. unfold c_IKCP_CMD_ACK, c_IKCP_CMD_WASK, c_IKCP_CMD_WINS, c_IKCP_CMD_PUSH in *. lia. }
    assert (Hbytes : is_byte_list (encode_seg s ++ rest)).
    { apply ns_is_byte_list_app. split; [apply nr_encode_bytes; exact Q1|exact Hrest]. }
    assert (Hblen : c_IKCP_OVERHEAD <= blen (encode_seg s ++ rest)).
    { rewrite blen_app, lv_encode_len. pose proof (blen_nonneg (s_data s)). pose proof (blen_nonneg rest). lia. }
    pose proof (ii_input_seg_ok a _ true I1 Hbytes Hblen) as Hii. rewrite E1 in Hii.
    destruct Hii as (Hinv1 & (_ & _ & Hc1 & _) & _).
    exists a1. split; [exact E1|]. split; [exact Hinv1|]. split; [congruence|].
    intros _. rewrite last_last. exact W1. }
  { exact HQ. }
  { discriminate. }
  { split; [exact Hinv|]. split; [reflexivity|]. intros H; contradiction. }
  destruct HI as (I1 & I2 & I3). specialize (I3 ltac:(discriminate)).
  set (k3 := pg_post k a' true now) in *.
  destruct (pg_fx_all _ _ (pg_fx_post k a' true now)) as
    (X1 & X2 & X3 & X4 & X5 & X6 & X7 & X8 & _).
  fold k3 in X8.
  unfold input in Hin. rewrite Epre in Hin.
  assert (Hfl : forall ft k4 nx o4, flush k3 ft now = Ok (k4, nx, o4) -> rmt_wnd k4 = rmt_wnd k3).
  { intros ft k4 nx o4 Ef.
    destruct (fl_shape k3 ft now k4 nx o4 Ef)
      as (al & tsp & pw & st & sst & cwn & inc & h1 & st3 & sq & sb & nxt & ns & k5 & sb' & a & Hk' & _).
    subst k4. reflexivity. }
  destruct (pg_freq k3 a' nd).
  - inversion Hin; subst k' r o. congruence.
  - destruct (flush k3 FLUSH_ACKONLY now) as [[[k4 nx] o4]|w] eqn:Ef; [|discriminate].
    inversion Hin; subst k' r o. rewrite (Hfl _ _ _ _ Ef). congruence.
  - destruct (flush k3 FLUSH_FULL now) as [[[k4 nx] o4]|w] eqn:Ef; [|discriminate].
    inversion Hin; subst k' r o. rewrite (Hfl _ _ _ _ Ef). congruence.
Qed.

(* the last datagram of a piece of the B -> A history announces an open window *)
Definition pg_wlast (s : sys2) (E : list bytes) : Prop :=
  exists pre d x t, E = pre ++ [d] /\ d = concat (map encode_seg (x :: t)) /\
    Forall (ack_seg s) (x :: t) /\ Forall (fun y => 0 < s_wnd y) (x :: t).

(* B owes a window announcement, or its queue is full (reading will make it owe one), or the
   last thing it said since position n0 of its history announced an open window *)
Definition pg_omega (n0 : nat) (s : sys2) : Prop :=
  pg_tell (kB s) \/ pg_full (kB s) \/ pg_wlast s (skipn n0 (wireB s)).

Lemma pg_wlast_b_mono s s' E :
  pg_frameA s s' -> pg_bmono (isn_of s) (kB s) (kB s') -> pg_wlast s E -> pg_wlast s' E.
Proof.
  intros HfA Hm (pre & d & x & t & E1 & E2 & H1 & H2). exists pre, d, x, t.
  split; [exact E1|]. split; [exact E2|]. split; [|exact H2].
  eapply Forall_impl; [|exact H1]. intros y. apply pg_ack_seg_b_mono; assumption.
Qed.

(* what a B step that emitted something leaves behind *)
Lemma pg_omega_out s o s' n0 :
  pg_reach s -> link_inv s -> ev_ok2 s (EB o) -> sys2_step s (EB o) = Some s' ->
  (n0 <= length (wireB s))%nat ->
  exists out, wireB s' = wireB s ++ out /\
    (out <> [] -> pg_full (kB s') \/ pg_wlast s' (skipn n0 (wireB s'))) /\
    (out = [] -> pg_wlast s (skipn n0 (wireB s)) -> pg_wlast s' (skipn n0 (wireB s'))).
Proof.
  intros Hr Hl Hok Hst Hn0.
  destruct (pg_link_b s o s' Hr Hl Hok Hst) as (Hl' & HfA & Hm & out & Hw & Hout & _).
  destruct (pg_frameA_isn s s' HfA) as (G1 & _).
  assert (Hr' : pg_reach s') by (eapply pr_step; eassumption).
  destruct (pg_reach_base s Hr) as (_ & HiB & _). destruct (pg_reach_base s' Hr') as (_ & HiB' & _).
  destruct (pg_stepB _ _ _ Hst) as (k' & x & E & Es').
  assert (F : kB s' = k' /\ wireB s' = wireB s ++ o_dgrams x) by (subst s'; split; reflexivity).
  destruct F as (F4 & F6).
  assert (Eout : out = o_dgrams x) by (rewrite F6 in Hw; exact (eq_sym (app_inv_head _ _ _ Hw))).
  pose proof (step_output_size (kB s) o k' x HiB (proj1 (proj1 (proj1 Hok))) E) as Hsize. rewrite <- Eout in Hsize.
  exists out. split; [exact Hw|]. split.
  - intros Hne. destruct (Z_le_gt_dec (rcv_wnd (kB s')) (qlen (rcv_queue (kB s')))) as [Hf|Hnf]; [left; exact Hf|right].
    destruct (exists_last Hne) as (pre & d & Ep).
    assert (Hd : In d out) by (rewrite Ep; apply in_or_app; right; left; reflexivity).
    destruct (proj1 (Forall_forall _ _) Hout d Hd) as (segs & Ed & Hsegs).
    pose proof (proj1 (Forall_forall _ _) Hsize d Hd) as Hb.
    destruct segs as [|y t]; [rewrite Ed in Hb; cbn in Hb; lia|].
    assert (Hpos : 0 < wnd_unused (kB s')) by (apply pg_wnd_unused_pos; [exact HiB'|unfold pg_full; lia]).
    exists (skipn n0 (wireB s) ++ pre), d, y, t. split.
    { rewrite Hw, Ep, pg_skipn_app_le by exact Hn0. rewrite app_assoc. reflexivity. }
    split; [exact Ed|]. split.
    + eapply Forall_impl; [|exact Hsegs]. intros z Hz. apply pg_ack_of_bseg; [exact (LB_conv _ Hl')|]. rewrite G1. exact Hz.
    + eapply Forall_impl; [|exact Hsegs]. intros z (_ & _ & _ & _ & _ & Wz). rewrite Wz. exact Hpos.
  - intros -> Hwl. rewrite Hw, app_nil_r. exact (pg_wlast_b_mono s s' _ HfA Hm Hwl).
Qed.

(* ---- Input ---- *)
Lemma pg_omega_input s d rg nd t s' n0 segs :
  pg_reach s -> link_inv s -> ev_ok2 s (EB (OInput d rg nd t)) ->
  sys2_step s (EB (OInput d rg nd t)) = Some s' -> (n0 <= length (wireB s))%nat ->
  d = concat (map encode_seg segs) -> Forall (data_seg s) segs ->
  (pg_omega n0 s \/ exists x, In x segs /\ s_cmd x = c_IKCP_CMD_WASK) -> pg_omega n0 s'.
Proof.
  intros Hr Hl Hok Hst Hn0 Ed Hsegs Hpre.
  destruct (pg_omega_out s _ s' n0 Hr Hl Hok Hst Hn0) as (out & Hw & Hne & Hnil).
  destruct (pg_stepB _ _ _ Hst) as (k' & x & E & Es').
  cbn [step] in E. destruct (input (kB s) d rg nd t) as [[[k1 r] o]|e] eqn:Ein; [|discriminate].
  injection E as Ek Ex.
  assert (F : kB s' = k1 /\ wireB s' = wireB s ++ o) by (rewrite Es', <- Ek, <- Ex; split; reflexivity).
  destruct F as (F4 & F6).
  assert (Eout : out = o) by (rewrite F6 in Hw; exact (eq_sym (app_inv_head _ _ _ Hw))).
  rewrite Ed in Ein.
  destruct (pg_b_input_tell (isn_of s) (numbered_of s) (gB (s1 s)) (kB s) segs rg nd t k1 r o) as (T1 & T2);
    [exact (L_nowrap _ Hl)|exact (pg_bi_of_link s Hr Hl)|rewrite (LB_conv _ Hl); exact Hsegs|exact Ein|].
  rewrite <- F4 in T1, T2. unfold pg_omega.
  destruct o as [|d0 o0].
  - subst out. specialize (T2 eq_refl).
    destruct Hpre as [[Ht|[Hf|Hwl]]|Hwask].
    + left. apply T2. left; exact Ht.
    + right; left. exact (T1 Hf).
    + right; right. exact (Hnil eq_refl Hwl).
    + left. apply T2. right; exact Hwask.
  - right. apply Hne. rewrite Eout. discriminate.
Qed.

(* ---- Recv ---- *)
Lemma pg_omega_recv s n s' n0 :
  pg_reach s -> link_inv s -> sys2_step s (EB (ORecv n)) = Some s' -> (n0 <= length (wireB s))%nat ->
  pg_omega n0 s -> pg_omega n0 s'.
Proof.
  intros Hr Hl Hst Hn0 Hom. pose proof (pg_recv_ev_ok s n) as Hok.
  destruct (pg_omega_out s _ s' n0 Hr Hl Hok Hst Hn0) as (out & Hw & _ & Hnil).
  destruct (pg_reach_base s Hr) as (_ & HiB & _).
  destruct (pg_stepB _ _ _ Hst) as (k' & x & E & Es').
  cbn [step] in E. destruct (recv (kB s) n) as [[k1 r] d] eqn:Er. injection E as Ek Ex.
  assert (F : kB s' = k1 /\ wireB s' = wireB s ++ []) by (rewrite Es', <- Ek, <- Ex; split; reflexivity).
  destruct F as (F4 & F6).
  assert (Eout : out = []) by (rewrite F6 in Hw; exact (eq_sym (app_inv_head _ _ _ Hw))).
  destruct (pg_recv_tell (kB s) n k1 r d HiB Er) as (T1 & T2). rewrite <- F4 in T1, T2.
  unfold pg_omega. destruct Hom as [Ht|[Hf|Hwl]].
  - left. exact (T1 Ht).
  - destruct (T2 Hf) as [H|H]; [right; left; exact H|left; exact H].
  - right; right. exact (Hnil Eout Hwl).
Qed.

(* ---- the flush after the drain ---- *)
Lemma pg_omega_flush s t s' n0 :
  pg_reach s -> link_inv s -> is_u32 t -> sys2_step s (EB (OFlush true t)) = Some s' ->
  (n0 <= length (wireB s))%nat -> pg_omega n0 s -> ~ pg_full (kB s) ->
  pg_wlast s' (skipn n0 (wireB s')).
Proof.
  intros Hr Hl Ht Hst Hn0 Hom Hnf. pose proof (pg_flushB_ev_ok s t Ht) as Hok.
  destruct (pg_omega_out s _ s' n0 Hr Hl Hok Hst Hn0) as (out & Hw & Hne & Hnil).
  destruct (pg_reach_base s Hr) as (_ & HiB & _).
  destruct (pg_stepB _ _ _ Hst) as (k' & x & E & Es').
  cbn [step] in E. destruct (flush (kB s) FLUSH_FULL t) as [[[k1 nx] o]|e] eqn:Hfl; [|discriminate].
  injection E as Ek Ex.
  assert (F : kB s' = k1 /\ wireB s' = wireB s ++ o) by (rewrite Es', <- Ek, <- Ex; split; reflexivity).
  destruct F as (F4 & F6).
  assert (Eout : out = o) by (rewrite F6 in Hw; exact (eq_sym (app_inv_head _ _ _ Hw))).
  pose proof (nr_flush_frame _ _ _ _ _ _ Hfl) as Hfr. unfold nr_rcv in Hfr. inversion Hfr as [[R1 R2 R3]].
  destruct (fl_shape _ _ _ _ _ _ Hfl) as (al & tsp & pw & st & sst & cwn & inc & h1 & st3 & sq & sb & nxt & ns & k5 & sb' & a & Hk' & _).
  assert (Rw : rcv_wnd (kB s') = rcv_wnd (kB s)) by (rewrite F4, Hk'; reflexivity).
  assert (Hnf' : ~ pg_full (kB s')) by (unfold pg_full in *; rewrite Rw, F4, R2; exact Hnf).
  destruct o as [|d0 o0].
  - destruct Hom as [Htl|[Hf|Hwl]]; [exfalso|contradiction|exact (Hnil Eout Hwl)].
    destruct (tell_emits_wins (kB s) _ t k1 nx [] HiB Htl Hfl) as ((d & _ & _ & [] & _) & _).
  - destruct (Hne ltac:(rewrite Eout; discriminate)) as [H|H]; [contradiction|exact H].
Qed.

(* ---- the drain and the delivery keep it ---- *)
Lemma pg_drain_omega n n0 : forall s s',
  drain n s = Some s' -> pg_reach s -> no_wrap (numbered_of s) -> (n0 <= length (wireB s))%nat ->
  pg_omega n0 s -> pg_omega n0 s'.
Proof.
  induction n as [|n IH]; intros s s' Hd Hr Hnw Hn0 Hom; cbn [drain] in Hd.
  - inversion Hd; subst; exact Hom.
  - destruct (peeksize (kB s) <? 0); [inversion Hd; subst; exact Hom|].
    destruct (sys2_step s (EB (ORecv (peeksize (kB s))))) as [sa|] eqn:Hst; [|discriminate]. cbn [bind2] in Hd.
    pose proof (pg_recv_ev_ok s (peeksize (kB s))) as Hok.
    pose proof (pg_link_reach s Hr Hnw) as Hl.
    assert (Hra : pg_reach sa) by (eapply pr_step; eassumption).
    destruct (pg_link_b s _ sa Hr Hl Hok Hst) as (_ & HfA & _ & out & Hw & _).
    destruct (pg_frameA_isn s sa HfA) as (_ & G2 & _).
    apply (IH sa s' Hd Hra); [rewrite G2; exact Hnw|rewrite Hw, app_length; lia|].
    exact (pg_omega_recv s _ sa n0 Hr Hl Hst Hn0 Hom).
Qed.

Lemma pg_deliver_b_omega t n0 : forall ds s s',
  deliver (fun d => EB (OInput d true false t)) ds s = Some s' ->
  pg_reach s -> no_wrap (numbered_of s) -> is_u32 t ->
  (forall d, In d ds -> In d (wire (s1 s))) -> (n0 <= length (wireB s))%nat ->
  (pg_omega n0 s -> pg_omega n0 s') /\
  (forall d segs w, In d ds -> d = concat (map encode_seg segs) -> Forall (data_seg s) segs -> In w segs ->
     s_cmd w = c_IKCP_CMD_WASK -> pg_omega n0 s').
Proof.
  induction ds as [|d0 ds IH]; intros s s' Hd Hr Hnw Ht Hin Hn0; cbn [deliver] in Hd.
  - inversion Hd; subst s'. split; [auto|]. intros d segs w [].
  - destruct (sys2_step s (EB (OInput d0 true false t))) as [sa|] eqn:Hst; [|discriminate]. cbn [bind2] in Hd.
    assert (Hok : ev_ok2 s (EB (OInput d0 true false t))) by (apply pg_inputB_ev_ok; [exact Hr|exact Ht|apply Hin; left; reflexivity]).
    pose proof (pg_link_reach s Hr Hnw) as Hl.
    assert (Hra : pg_reach sa) by (eapply pr_step; eassumption).
    destruct (pg_link_b s _ sa Hr Hl Hok Hst) as (_ & HfA & _ & out & Hw & _).
    destruct (pg_frameA_isn s sa HfA) as (G1 & G2 & _).
    destruct (IH sa s' Hd Hra) as (R1 & R2);
      [rewrite G2; exact Hnw|exact Ht| |rewrite Hw, app_length; lia|].
    { intros d Hdin. destruct HfA as (_ & _ & A3). rewrite A3. apply Hin. right; exact Hdin. }
    destruct (proj1 (Forall_forall _ _) (L0_data _ Hl) d0 (Hin d0 (or_introl eq_refl))) as (segs0 & Ed0 & Hsegs0).
    split.
    { intros Hom. apply R1. apply (pg_omega_input s d0 true false t sa n0 segs0 Hr Hl Hok Hst Hn0 Ed0 Hsegs0). left; exact Hom. }
    intros d segs w Hdin Ed Hsegs Hw0 Hcmd. destruct Hdin as [Hdin|Hdin].
    + subst d. apply R1. apply (pg_omega_input s d0 true false t sa n0 segs Hr Hl Hok Hst Hn0 Ed Hsegs).
      right. exists w. split; assumption.
    + apply (R2 d segs w Hdin Ed); try assumption.
      eapply Forall_impl; [|exact Hsegs]. intros y. unfold data_seg. destruct HfA as (A1 & _).
      rewrite G1, G2, A1. tauto.
Qed.

(* ---- A: the last datagram decides rmt_wnd ---- *)
Lemma pg_deliver_a_wnd t : forall ds s s',
  deliver (fun d => EA (OInput d true false t)) ds s = Some s' ->
  pg_reach s -> is_u32 t -> (forall d, In d ds -> In d (wireB s)) -> pg_wlast s ds ->
  0 < rmt_wnd (kA s').
Proof.
  induction ds as [|d0 ds IH]; intros s s' Hd Hr Ht Hin Hwl; cbn [deliver] in Hd.
  - destruct Hwl as (pre & d & x & t0 & E & _). destruct pre; discriminate.
  - destruct (sys2_step s (EA (OInput d0 true false t))) as [sa|] eqn:Hst; [|discriminate]. cbn [bind2] in Hd.
    assert (Hok : ev_ok2 s (EA (OInput d0 true false t))) by (apply pg_inputA_ev_ok; [exact Hr|exact Ht|apply Hin; left; reflexivity]).
    assert (Hra : pg_reach sa) by (eapply pr_step; eassumption).
    destruct (pg_reach_base s Hr) as (HiA & _ & Hsi & _).
    destruct (pg_stepA _ _ _ Hst) as (k' & x & E & Es').
    assert (F : kB sa = kB s /\ gB (s1 sa) = gB (s1 s) /\ wireB sa = wireB s /\ kA sa = k') by (subst sa; repeat split; reflexivity).
    destruct F as (F1 & F2 & F3 & F4).
    destruct (pg_step_numbered s _ sa Hr Hok Hst) as (Hisn & _).
    assert (Hcv : conv (kA sa) = conv (kA s)).
    { rewrite F4. exact (pg_step_conv _ _ _ _ _ Hsi (proj1 Hok) E). }
    assert (HfB : pg_frameB s sa) by (repeat split; assumption).
    destruct Hwl as (pre & d & y & t0 & Eds & Ed & Hack & Hpos).
    destruct ds as [|d1 ds'].
    + (* d0 is the last datagram *)
      destruct pre as [|p pre']; [|destruct pre'; discriminate]. cbn [app] in Eds. inversion Eds; subst d0.
      cbn [deliver] in Hd. inversion Hd; subst s'. rewrite F4.
      cbn [step] in E. destruct (input (kA s) d true false t) as [[[k1 r] o]|e] eqn:Ein; [|discriminate].
      injection E as Ek Ex. rewrite <- Ek. rewrite Ed in Ein.
      assert (Hctl : Forall (pg_ctlseg (conv (kA s))) (y :: t0)).
      { eapply Forall_impl; [|exact Hack]. intros z (A & B & C & _). split; [exact A|]. split; [exact B|exact C]. }
      rewrite (pg_a_input_wnd (kA s) y t0 false t k1 r o HiA Hctl Ein).
      assert (Hl : In (last (y :: t0) y) (y :: t0)).
      { clear. generalize y at 1 3. induction t0 as [|z u IHu]; intros y0; [left; reflexivity|].
        change (last (y0 :: z :: u) y) with (last (z :: u) y). right. apply IHu. }
      exact (proj1 (Forall_forall _ _) Hpos _ Hl).
    + apply (IH sa s' Hd Hra Ht).
      * intros d' Hd'. rewrite F3. apply Hin. right; exact Hd'.
      * destruct pre as [|p pre']; [destruct ds'; discriminate|]. cbn [app] in Eds. inversion Eds; subst p.
        exists pre', d, y, t0. split; [assumption|]. split; [exact Ed|]. split; [|exact Hpos].
        eapply Forall_impl; [|exact Hack]. intros z. apply pg_ack_seg_frameB. exact HfB.
Qed.

(* ---- A's flushes while the window is closed ---- *)
Lemma pg_flush_zero_wnd k ft now k' nx o :
  inv k -> rmt_wnd k = 0 -> flush k ft now = Ok (k', nx, o) ->
  rmt_wnd k' = 0 /\ newly_numbered k k' = [].
Proof.
  intros Hinv H0 Hfl.
  destruct (sender_standstill k ft now k' nx o Hinv H0 Hfl) as (_ & _ & Hq).
  destruct (fl_shape k ft now k' nx o Hfl)
    as (al & tsp & pw & st & sst & cwn & inc & h1 & st3 & sq & sb & nxt & ns & k5 & sb' & a & Hk' & _).
  assert (Hu : snd_una k' = snd_una k) by (subst k'; reflexivity).
  split; [subst k'; exact H0|].
  rewrite (ns_newly_same k k' Hinv Hu), skipn_all2; [reflexivity|]. unfold qlen in Hq. lia.
Qed.

Lemma pg_probe_armed k ft now k' nx o :
  rmt_wnd k = 0 -> probe_inv k -> flush k ft now = Ok (k', nx, o) ->
  probe_wait k' <> 0 /\ probe_inv k'.
Proof.
  intros H0 Hp Hfl. split; [|exact (lv_pi_flush k ft now k' nx o Hfl Hp)].
  destruct (lv_flush_spec _ _ _ _ _ _ Hfl)
    as (h1 & sq & sb & nxt & ns & sb' & _ & _ & _ & _ & _ & _ & _ & _ & Fpw & _).
  rewrite Fpw. unfold lv_ph2. rewrite H0. change (0 =? 0) with true. cbv iota.
  destruct (probe_wait k =? 0) eqn:E0; lv_b2z; [ksimpl; unfold c_IKCP_PROBE_INIT; lia|].
  destruct (itimediff now (ts_probe k) >=? 0); [|exact E0].
  cbv zeta. ksimpl. unfold c_IKCP_PROBE_INIT, c_IKCP_PROBE_LIMIT.
  destruct Hp as [Hp|Hp]; [contradiction|].
  destruct (probe_wait k <? 500) eqn:E1; lv_b2z; [lia|].
  assert (Hu : u32 (probe_wait k + probe_wait k / 2) = probe_wait k + probe_wait k / 2) by (apply u32_id; unfold W32; lia).
  rewrite Hu. destruct (probe_wait k + probe_wait k / 2 >? 120000); lia.
Qed.

Lemma pg_flushA_zero s t s' :
  pg_reach s -> is_u32 t -> rmt_wnd (kA s) = 0 -> probe_inv (kA s) ->
  sys2_step s (EA (OFlush true t)) = Some s' ->
  pg_reach s' /\ pg_frameB s s' /\ numbered_of s' = numbered_of s /\ rmt_wnd (kA s') = 0 /\
  probe_wait (kA s') <> 0 /\ probe_inv (kA s') /\ exists o, wire (s1 s') = wire (s1 s) ++ o.
Proof.
  intros Hr Ht H0 Hp Hst. pose proof (pg_flushA_ev_ok s t Ht) as Hok.
  assert (Hr' : pg_reach s') by (eapply pr_step; eassumption).
  destruct (pg_reach_base s Hr) as (HiA & _ & Hsi & _).
  destruct (pg_stepA _ _ _ Hst) as (k' & x & E & Es').
  pose proof (pg_step_conv _ _ _ _ _ Hsi (proj1 Hok) E) as Hcv.
  cbn [step] in E. destruct (flush (kA s) FLUSH_FULL t) as [[[k1 nx] o]|e] eqn:Hfl; [|discriminate].
  injection E as Ek Ex.
  destruct (pg_flush_zero_wnd (kA s) _ t k1 nx o HiA H0 Hfl) as (Z1 & Z2).
  destruct (pg_probe_armed (kA s) _ t k1 nx o H0 Hp Hfl) as (Z3 & Z4).
  rewrite <- Ek in Es', Hcv.
  assert (F : kA s' = k1 /\ kB s' = kB s /\ gB (s1 s') = gB (s1 s) /\ wireB s' = wireB s /\
              isn_of s' = isn_of s /\ numbered_of s' = numbered_of s ++ newly_numbered (kA s) k1 /\
              wire (s1 s') = wire (s1 s) ++ o_dgrams x) by (rewrite Es'; repeat split; reflexivity).
  destruct F as (F1 & F2 & F3 & F4 & F5 & F6 & F7).
  split; [exact Hr'|]. split; [repeat split; try assumption; rewrite F1; exact Hcv|].
  split; [rewrite F6, Z2, app_nil_r; reflexivity|]. rewrite F1.
  split; [exact Z1|]. split; [exact Z3|]. split; [exact Z4|]. exists (o_dgrams x). exact F7.
Qed.

(* the due probe puts a WASK on the wire *)
Lemma pg_flush_wask s t s' :
  pg_reach s -> is_u32 t -> no_wrap (numbered_of s') -> rmt_wnd (kA s) = 0 -> probe_wait (kA s) <> 0 ->
  itimediff t (ts_probe (kA s)) >= 0 -> sys2_step s (EA (OFlush true t)) = Some s' ->
  exists d segs w, In d (new_wire s s') /\ d = concat (map encode_seg segs) /\ Forall (data_seg s') segs /\
    In w segs /\ s_cmd w = c_IKCP_CMD_WASK.
Proof.
  intros Hr Ht Hnw' H0 Hpw Hdue Hst.
  pose proof (pg_flushA_ev_ok s t Ht) as Hok.
  assert (Hr' : pg_reach s') by (eapply pr_step; eassumption).
  pose proof (pg_link_reach s' Hr' Hnw') as Hl'.
  destruct (pg_reach_base s Hr) as (HiA & _). destruct (pg_reach_base s' Hr') as (HiA' & _).
  destruct (pg_stepA _ _ _ Hst) as (k' & x & E & Es').
  pose proof (step_output_size (kA s) (OFlush true t) k' x HiA I E) as Hsize.
  cbn [step] in E. destruct (flush (kA s) FLUSH_FULL t) as [[[k1 nx] o]|e] eqn:Hfl; [|discriminate].
  injection E as Ek Ex. rewrite <- Ek, <- Ex in Es'. rewrite <- Ex in Hsize. cbn [o_dgrams] in *.
  assert (F : kA s' = k1 /\ wire (s1 s') = wire (s1 s) ++ o) by (rewrite Es'; split; reflexivity).
  destruct F as (F4 & F5).
  destruct (probe_fires (kA s) _ t k1 nx o HiA H0 Hpw Hdue Hfl) as ((d & segs1 & w1 & Hd & Ed & Hw1 & Hcmd & _) & _).
  assert (Hdw : In d (wire (s1 s'))) by (rewrite F5; apply in_or_app; right; exact Hd).
  destruct (proj1 (Forall_forall _ _) (L0_data _ Hl') d Hdw) as (segs2 & Ed2 & Hsegs2).
  assert (HF : Forall2 pg_same_wire segs1 segs2).
  { apply pg_decode_uniq; [congruence|]. rewrite <- Ed.
    pose proof (proj1 (Forall_forall _ _) Hsize d Hd) as Hb. rewrite <- Ek, <- F4 in Hb.
    pose proof (I_mtu _ HiA'). unfold c_mtuLimit, W32 in *. lia. }
  destruct (ns_F2_in _ _ _ _ _ HF w1 Hw1) as (w2 & Hw2 & (_ & Rcmd & _)).
  exists d, segs2, w2. split; [unfold new_wire; rewrite F5, ns_skipn_app_len; exact Hd|].
  split; [exact Ed2|]. split; [exact Hsegs2|]. split; [exact Hw2|congruence].
Qed.

(* C03's probe round: a closed window re-opens *)
Theorem c02_probe_round : forall s t,
  reach2 s -> no_wrap (numbered_of s) -> probe_inv (kA s) -> is_u32 t -> rmt_wnd (kA s) = 0 -> b8 s ->
  exists s', probe_round s t = Some s' /\ reach2 s' /\ 0 < rmt_wnd (kA s').
Proof.
  intros s t Hr Hnw Hp Ht H0 Hb8. apply pg_reach_iff in Hr. unfold probe_round.
  (* the two flushes of A *)
  destruct (pg_step_total s _ Hr (pg_flushA_ev_ok s t Ht)) as (s_1 & E1). rewrite E1. cbn [bind2].
  destruct (pg_flushA_zero s t s_1 Hr Ht H0 Hp E1) as (R1 & B1 & N1 & Z1 & P1 & Q1 & o1 & W1).
  set (t2 := u32 (ts_probe (kA s_1))).
  assert (Ht2 : is_u32 t2) by apply u32_range.
  destruct (pg_step_total s_1 _ R1 (pg_flushA_ev_ok s_1 t2 Ht2)) as (s_2 & E2). rewrite E2. cbn [bind2].
  destruct (pg_flushA_zero s_1 t2 s_2 R1 Ht2 Z1 Q1 E2) as (R2 & B2 & N2 & Z2 & P2 & Q2 & o2 & W2).
  assert (Hnw2 : no_wrap (numbered_of s_2)) by (rewrite N2, N1; exact Hnw).
  assert (Hdue : itimediff t2 (ts_probe (kA s_1)) >= 0).
  { unfold t2. rewrite itimediff_u32_l, itimediff_self. lia. }
  destruct (pg_flush_wask s_1 t2 s_2 R1 Ht2 Hnw2 Z1 P1 Hdue E2) as (dw & segs & w & Hdw & Edw & Hsegs & Hw & Hcmd).
  (* delivery to B *)
  assert (Enw : new_wire s s_2 = o1 ++ o2).
  { unfold new_wire. rewrite W2, W1, <- app_assoc, ns_skipn_app_len. reflexivity. }
  assert (Hin3 : forall d, In d (new_wire s s_2) -> In d (wire (s1 s_2))) by (intros d Hd; exact (pg_in_skipn _ _ _ _ Hd)).
  destruct (pg_deliver_b_total t (new_wire s s_2) s_2 R2 Ht Hin3) as (s_3 & E3 & R3 & A3 & out3 & W3).
  rewrite E3. cbn [bind2].
  set (n0 := length (wireB s_2)).
  destruct (pg_deliver_b_omega t n0 _ s_2 s_3 E3 R2 Hnw2 Ht Hin3 (le_n _)) as (_ & Hhit).
  assert (O3 : pg_omega n0 s_3).
  { apply (Hhit dw segs w); try assumption. rewrite Enw. apply in_or_app. right.
    unfold new_wire in Hdw. rewrite W2, ns_skipn_app_len in Hdw. exact Hdw. }
  destruct (pg_frameA_isn _ _ A3) as (I3 & N3 & _).
  assert (Hnw3 : no_wrap (numbered_of s_3)) by (rewrite N3; exact Hnw2).
  assert (Hn3 : (n0 <= length (wireB s_3))%nat) by (rewrite W3, app_length; unfold n0; lia).
  (* the drain *)
  unfold b_drain.
  destruct (pg_drain_total (length (rcv_queue (kB s_3)) + length (rcv_buf (kB s_3))) s_3 R3) as (s_4 & E4 & R4).
  rewrite E4. cbn [bind2].
  destruct (pg_drain_frame _ s_3 s_4 E4 R3) as (_ & A4 & out4 & W4).
  destruct (pg_frameA_isn _ _ A4) as (I4 & N4 & X4).
  assert (Hnw4 : no_wrap (numbered_of s_4)) by (rewrite N4; exact Hnw3).
  pose proof (pg_drain_omega _ n0 s_3 s_4 E4 R3 Hnw3 Hn3 O3) as O4.
  assert (Hp4 : peeksize (kB s_4) < 0) by (apply (pg_drain_done _ s_3 s_4 E4); lia).
  destruct (pg_drain_props _ s_3 s_4 E4 R3 Hnw3) as (_ & _ & M4 & _).
  destruct (pg_deliver_b t 0 n0 _ s_2 s_3 E3 R2 Hnw2 Ht Hin3 (le_n _)) as (_ & _ & M3 & _).
  assert (Hroom : ~ pg_full (kB s_4)).
  { assert (Hb84 : b8 s_4).
    { unfold b8 in *. rewrite N4, N3, N2, N1.
      destruct M4 as (_ & _ & _ & T4 & _). destruct M3 as (_ & _ & _ & T3 & _).
      destruct B2 as (B21 & _). destruct B1 as (B11 & _). rewrite T4, T3, B21, B11. exact Hb8. }
    pose proof (pg_drained_room s_4 R4 Hnw4 Hp4 Hb84). unfold pg_full. lia. }
  (* B's flush *)
  destruct (pg_step_total s_4 _ R4 (pg_flushB_ev_ok s_4 t Ht)) as (s_5 & E5). rewrite E5. cbn [bind2].
  assert (R5 : pg_reach s_5) by (eapply pr_step; [exact R4|exact (pg_flushB_ev_ok s_4 t Ht)|exact E5]).
  pose proof (pg_link_reach s_4 R4 Hnw4) as L4.
  assert (Hn4 : (n0 <= length (wireB s_4))%nat) by (rewrite W4, app_length; lia).
  pose proof (pg_omega_flush s_4 t s_5 n0 R4 L4 Ht E5 Hn4 O4 Hroom) as Hwl.
  (* delivery to A *)
  assert (Hin6 : forall d, In d (new_wireB s_2 s_5) -> In d (wireB s_5)) by (intros d Hd; exact (pg_in_skipn _ _ _ _ Hd)).
  destruct (pg_deliver_a_total t (new_wireB s_2 s_5) s_5 R5 Ht Hin6) as (s' & E6 & R6).
  exists s'. split; [exact E6|]. split; [apply pg_reach_iff; exact R6|].
  exact (pg_deliver_a_wnd t _ s_5 s' E6 R5 Ht Hin6 Hwl).
Qed.

(* ================================================================== *)
(* 9. everything accepted so far, as a list                            *)
(* ================================================================== *)
Lemma pg_flush_app k ft now k' nx o :
  flush k ft now = Ok (k', nx, o) ->
  exists pre, snd_queue k = pre ++ snd_queue k' /\
              map pay (skipn (length (snd_buf k)) (snd_buf k')) = map pay pre.
Proof.
  intros Hfl.
  destruct (lv_flush_spec _ _ _ _ _ _ Hfl)
    as (h1 & sq & sb & nxt & ns & sb' & _ & _ & _ & _ & E4 & Hrel & _ & _ & _ & _ & Fq & Fb & _).
  assert (H4 : exists pre adm, snd_queue k = pre ++ sq /\ sb = snd_buf k ++ adm /\ map pay adm = map pay pre).
  { unfold lv_ph4 in E4. destruct (ft =? FLUSH_FULL).
    - destruct (ns_admit_spec _ _ _ _ _ _ _ _ _ _ _ E4) as (pre & adm & A1 & A2 & A3).
      exists pre, adm. split; [exact A1|]. split; [exact A2|exact (ns_adm_pay _ _ _ A3)].
    - inversion E4; subst. exists [], []. rewrite app_nil_r. auto. }
  destruct H4 as (pre & adm & A1 & A2 & A3).
  exists pre. rewrite Fq, Fb. split; [exact A1|].
  rewrite A2 in Hrel. destruct (Forall2_app_inv_l _ _ Hrel) as (l1 & l2 & K1 & K2 & El).
  rewrite El, (ns_F2_length _ _ _ _ _ K1), ns_skipn_app_len, <- A3.
  clear -K2. induction K2 as [|a b t t' (_ & Hd & Hf & _) _ IH]; [reflexivity|].
  cbn [map]. rewrite IH. unfold pay. rewrite Hd, Hf. reflexivity.
Qed.

Lemma pg_newly_app g k o k' x :
  sender_inv g k -> op_ok32 o -> (forall b, o <> OSend b) -> step k o = Ok (k', x) ->
  newly_numbered k k' ++ map pay (snd_queue k') = map pay (snd_queue k).
Proof.
  intros Hsi [Hop _] Hns Hstep. pose proof (SI_inv _ _ Hsi) as Hinv.
  assert (Hquiet : forall k1, snd_queue k1 = snd_queue k -> snd_buf k1 = snd_buf k -> snd_una k1 = snd_una k ->
            k' = k1 -> newly_numbered k k' ++ map pay (snd_queue k') = map pay (snd_queue k)).
  { intros k1 E1 E2 E3 ->. rewrite (ns_newly_nil k k1 Hinv E3 E2), E1. reflexivity. }
  assert (Hflush : forall k1 j ft now k2 nx o2, (j <= length (snd_buf k))%nat ->
            snd_una k1 = u32 (snd_una k + Z.of_nat j) -> length (snd_buf k1) = (length (snd_buf k) - j)%nat ->
            snd_queue k1 = snd_queue k -> snd_una k2 = snd_una k1 -> flush k1 ft now = Ok (k2, nx, o2) -> k' = k2 ->
            newly_numbered k k' ++ map pay (snd_queue k') = map pay (snd_queue k)).
  { intros k1 j ft now k2 nx o2 Hj Hu Hl Hq Hu2 Hfl ->.
    destruct (pg_flush_app k1 ft now k2 nx o2 Hfl) as (pre & P1 & P2).
    rewrite (ns_newly_shift k k2 j Hinv Hj) by congruence.
    rewrite <- Hl, P2, <- Hq, P1, map_app. reflexivity. }
  assert (Hfu : forall k1 ft now k2 nx o2, inv k1 -> flush k1 ft now = Ok (k2, nx, o2) -> snd_una k2 = snd_una k1).
  { intros k1 ft now k2 nx o2 Hi1 Hfl. exact (proj1 (pg_flush_len k1 ft now k2 nx o2 Hi1 Hfl)). }
  destruct o as [b|n|d reg nd now|full now|now|now|m|nd iv rs nc]; cbn [step op_ok] in *.
  - exfalso. exact (Hns b eq_refl).
  - pose proof (ns_sf_recv k n) as Hsf. destruct (recv k n) as [[k1 r] d]. cbn [fst] in Hsf.
    inversion Hstep; subst k' x. destruct Hsf as (Sq & Sb & Su & _). apply (Hquiet k1); auto.
  - unfold input in Hstep.
    destruct (input_pre_ok k d reg nd now Hinv Hop) as (k1 & r & fr & Hpre & Hinv1 & _).
    rewrite Hpre in Hstep.
    pose proof (ns_input_pre_pre k d reg nd now k1 r fr Hop Hpre) as Hp.
    destruct (ns_pre_sender g k k1 Hsi Hp Hinv1) as (_ & _ & j & Hj & Hu & Hl).
    pose proof Hp as (_ & Hq & _).
    destruct fr.
    + inversion Hstep; subst k' x.
      rewrite (ns_newly_shift k k1 j Hinv Hj Hu), <- Hl, skipn_all, Hq. reflexivity.
    + destruct (flush k1 FLUSH_ACKONLY now) as [[[k2 nx] o]|w] eqn:Hfl; [|discriminate].
      inversion Hstep; subst k' x. exact (Hflush k1 j _ now k2 nx o Hj Hu Hl Hq (Hfu _ _ _ _ _ _ Hinv1 Hfl) Hfl eq_refl).
    + destruct (flush k1 FLUSH_FULL now) as [[[k2 nx] o]|w] eqn:Hfl; [|discriminate].
      inversion Hstep; subst k' x. exact (Hflush k1 j _ now k2 nx o Hj Hu Hl Hq (Hfu _ _ _ _ _ _ Hinv1 Hfl) Hfl eq_refl).
  - destruct (flush k (if full then FLUSH_FULL else FLUSH_ACKONLY) now) as [[[k2 nx] o]|w] eqn:Hfl; [|discriminate].
    inversion Hstep; subst k' x.
    apply (Hflush k 0%nat (if full then FLUSH_FULL else FLUSH_ACKONLY) now k2 nx o); try reflexivity; [lia| |lia|exact (Hfu _ _ _ _ _ _ Hinv Hfl)|exact Hfl].
    cbn [Z.of_nat]. rewrite Z.add_0_r, u32_id by exact (I_una_u32 _ Hinv). reflexivity.
  - unfold update in Hstep.
    set (k1 := if updated k =? 0 then set_timer k (state k) now 1 else k) in *.
    set (p := if (itimediff now (ts_flush k1) >=? 10000) || (itimediff now (ts_flush k1) <? -10000)
              then (set_timer k1 (state k1) now (updated k1), 0) else (k1, itimediff now (ts_flush k1))) in *.
    assert (H2 : inv (fst p) /\ snd_queue (fst p) = snd_queue k /\ snd_buf (fst p) = snd_buf k /\ snd_una (fst p) = snd_una k).
    { assert (H1 : inv k1 /\ snd_queue k1 = snd_queue k /\ snd_buf k1 = snd_buf k /\ snd_una k1 = snd_una k).
      { unfold k1. destruct (updated k =? 0); [split; [apply inv_set_timer; exact Hinv|auto]|auto]. }
      destruct H1 as (I1 & Q1 & B1 & U1). unfold p.
      destruct ((itimediff now (ts_flush k1) >=? 10000) || (itimediff now (ts_flush k1) <? -10000)); cbn [fst];
        [split; [apply inv_set_timer; exact I1|auto]|auto]. }
    destruct p as [k2 slap]. cbn [fst] in H2. destruct H2 as (I2 & Q2 & B2 & U2).
    destruct (slap >=? 0).
    + match type of Hstep with context [flush ?kk FLUSH_FULL now] => set (k3 := kk) in * end.
      assert (I3 : inv k3) by (apply inv_set_timer; exact I2).
      destruct (flush k3 FLUSH_FULL now) as [[[k4 nx] o]|w] eqn:Hfl; [|discriminate].
      inversion Hstep; subst k' x.
      apply (Hflush k3 0%nat FLUSH_FULL now k4 nx o); try reflexivity; [lia| | |exact Q2|exact (Hfu _ _ _ _ _ _ I3 Hfl)|exact Hfl].
      * cbn [Z.of_nat]. rewrite Z.add_0_r, u32_id by exact (I_una_u32 _ Hinv). exact U2.
      * change (snd_buf k3) with (snd_buf k2). rewrite B2. lia.
    + inversion Hstep; subst k' x. apply (Hquiet k2); auto.
  - inversion Hstep; subst k' x. apply (Hquiet k); auto.
  - pose proof (ns_sf_set_mtu k m) as Hsf. destruct (set_mtu k m) as [k1 r]. cbn [fst] in Hsf.
    inversion Hstep; subst k' x. destruct Hsf as (Sq & Sb & Su & _). apply (Hquiet k1); auto.
  - inversion Hstep; subst k' x. destruct (ns_sf_set_nodelay k nd iv rs nc) as (Sq & Sb & Su & _).
    apply (Hquiet (set_nodelay k nd iv rs nc)); auto.
Qed.

Lemma pg_all_src_len s : length (all_src s) = backlog_len s.
Proof. unfold all_src, backlog_len. rewrite app_length, map_length. reflexivity. Qed.

(* events other than A's Send *)
Definition pg_quiet (e : ev) : Prop := match e with EA (OSend _) => False | _ => True end.

(* what a step other than A's Send preserves *)
Lemma pg_quiet_step s e s' :
  pg_reach s -> no_wrap_all s -> ev_ok2 s e -> pg_quiet e -> sys2_step s e = Some s' ->
  pg_reach s' /\ all_src s' = all_src s /\ a_idx s <= a_idx s' /\ rcv_wnd (kB s') = rcv_wnd (kB s) /\
  (probe_inv (kA s) -> probe_inv (kA s')).
Proof.
  intros Hr Hnwa Hok Hq Hst.
  assert (Hr' : pg_reach s') by (eapply pr_step; eassumption).
  split; [exact Hr'|].
  pose proof (pg_no_wrap_all s Hnwa) as Hnw. pose proof (pg_link_reach s Hr Hnw) as Hl.
  destruct e as [o|o].
  - destruct (pg_reach_base s Hr) as (_ & _ & Hsi & _).
    destruct (pg_stepA _ _ _ Hst) as (k' & x & E & Es').
    assert (Hns : forall b, o <> OSend b) by (intros b Eo; subst o; exact Hq).
    pose proof (pg_newly_app _ _ _ _ _ Hsi (proj1 Hok) Hns E) as Happ.
    assert (Hall : all_src s' = all_src s).
    { unfold all_src, numbered_of, kA. rewrite Es'. cbn [s1 sA gA ghost_sender sg_numbered].
      rewrite <- app_assoc. fold (kA s). rewrite Happ. reflexivity. }
    assert (Hnw' : no_wrap (numbered_of s')).
    { apply pg_no_wrap_all. unfold no_wrap_all. rewrite <- pg_all_src_len, Hall, pg_all_src_len. exact Hnwa. }
    destruct (pg_link_a s o s' Hr Hl Hok Hst Hnw') as (_ & (B1 & _) & Hmono & _).
    split; [exact Hall|]. split; [exact Hmono|]. split; [rewrite B1; reflexivity|].
    assert (F : kA s' = k') by (rewrite Es'; reflexivity). rewrite F.
    exact (lv_pi_step _ _ _ _ E).
  - destruct (pg_link_b s o s' Hr Hl Hok Hst) as (_ & HfA & (_ & _ & _ & T4 & _) & _).
    destruct (pg_frameA_isn s s' HfA) as (_ & G2 & G3). destruct HfA as (F1 & _).
    split; [unfold all_src; rewrite G2, F1; reflexivity|]. split; [lia|]. split; [exact T4|].
    rewrite F1. auto.
Qed.

Lemma pg_quiet_run s evs s' :
  sys2_run s evs s' -> Forall pg_quiet evs -> pg_reach s -> no_wrap_all s ->
  pg_reach s' /\ all_src s' = all_src s /\ a_idx s <= a_idx s' /\ rcv_wnd (kB s') = rcv_wnd (kB s) /\
  (probe_inv (kA s) -> probe_inv (kA s')).
Proof.
  induction 1 as [s|s e sa t sb Hok Hst Hrun IH]; intros Hq Hr Hnwa.
  - split; [exact Hr|]. split; [reflexivity|]. split; [lia|]. split; [reflexivity|auto].
  - destruct (pg_quiet_step s e sa Hr Hnwa Hok (Forall_inv Hq) Hst) as (R1 & A1 & M1 & W1 & P1).
    assert (Hnwa' : no_wrap_all sa).
    { unfold no_wrap_all. rewrite <- pg_all_src_len, A1, pg_all_src_len. exact Hnwa. }
    destruct (IH (Forall_inv_tail Hq) R1 Hnwa') as (R2 & A2 & M2 & W2 & P2).
    split; [exact R2|]. split; [congruence|]. split; [lia|]. split; [congruence|auto].
Qed.

(* ---- the rounds as event lists ---- *)
Lemma pg_run_app s e1 s1 e2 s2 : sys2_run s e1 s1 -> sys2_run s1 e2 s2 -> sys2_run s (e1 ++ e2) s2.
Proof.
  induction 1 as [s|s e sa t sb Hok Hst Hrun IH]; intros H2; [exact H2|].
  cbn [app]. eapply run2_cons; [exact Hok|exact Hst|apply IH; exact H2].
Qed.

Lemma pg_run_one s e s' : ev_ok2 s e -> sys2_step s e = Some s' -> sys2_run s [e] s'.
Proof. intros Hok Hst. eapply run2_cons; [exact Hok|exact Hst|constructor]. Qed.

Lemma pg_drain_run n : forall s s', drain n s = Some s' ->
  exists evs, sys2_run s evs s' /\ Forall pg_quiet evs.
Proof.
  induction n as [|n IH]; intros s s' Hd; cbn [drain] in Hd.
  - inversion Hd; subst. exists []. split; constructor.
  - destruct (peeksize (kB s) <? 0); [inversion Hd; subst; exists []; split; constructor|].
    destruct (sys2_step s (EB (ORecv (peeksize (kB s))))) as [sa|] eqn:Hst; [|discriminate]. cbn [bind2] in Hd.
    destruct (IH sa s' Hd) as (evs & Hrun & Hq).
    exists (EB (ORecv (peeksize (kB s))) :: evs). split; [|constructor; [exact I|exact Hq]].
    eapply run2_cons; [apply pg_recv_ev_ok|exact Hst|exact Hrun].
Qed.

Lemma pg_deliver_b_run t : forall ds s s',
  deliver (fun d => EB (OInput d true false t)) ds s = Some s' -> pg_reach s -> is_u32 t ->
  (forall d, In d ds -> In d (wire (s1 s))) ->
  exists evs, sys2_run s evs s' /\ Forall pg_quiet evs.
Proof.
  induction ds as [|d0 ds IH]; intros s s' Hd Hr Ht Hin; cbn [deliver] in Hd.
  - inversion Hd; subst. exists []. split; constructor.
  - destruct (sys2_step s (EB (OInput d0 true false t))) as [sa|] eqn:Hst; [|discriminate]. cbn [bind2] in Hd.
    assert (Hok : ev_ok2 s (EB (OInput d0 true false t))) by (apply pg_inputB_ev_ok; [exact Hr|exact Ht|apply Hin; left; reflexivity]).
    assert (Hra : pg_reach sa) by (eapply pr_step; eassumption).
    destruct (pg_stepB _ _ _ Hst) as (k' & x & _ & Es').
    assert (F3 : wire (s1 sa) = wire (s1 s)) by (subst sa; reflexivity).
    destruct (IH sa s' Hd Hra Ht) as (evs & Hrun & Hq).
    { intros d Hdin. rewrite F3. apply Hin. right; exact Hdin. }
    exists (EB (OInput d0 true false t) :: evs). split; [|constructor; [exact I|exact Hq]].
    eapply run2_cons; [exact Hok|exact Hst|exact Hrun].
Qed.

Lemma pg_deliver_a_run t : forall ds s s',
  deliver (fun d => EA (OInput d true false t)) ds s = Some s' -> pg_reach s -> is_u32 t ->
  (forall d, In d ds -> In d (wireB s)) ->
  exists evs, sys2_run s evs s' /\ Forall pg_quiet evs.
Proof.
  induction ds as [|d0 ds IH]; intros s s' Hd Hr Ht Hin; cbn [deliver] in Hd.
  - inversion Hd; subst. exists []. split; constructor.
  - destruct (sys2_step s (EA (OInput d0 true false t))) as [sa|] eqn:Hst; [|discriminate]. cbn [bind2] in Hd.
    assert (Hok : ev_ok2 s (EA (OInput d0 true false t))) by (apply pg_inputA_ev_ok; [exact Hr|exact Ht|apply Hin; left; reflexivity]).
    assert (Hra : pg_reach sa) by (eapply pr_step; eassumption).
    destruct (pg_stepA _ _ _ Hst) as (k' & x & _ & Es').
    assert (Fw : wireB sa = wireB s) by (subst sa; reflexivity).
    destruct (IH sa s' Hd Hra Ht) as (evs & Hrun & Hq).
    { intros d Hdin. rewrite Fw. apply Hin. right; exact Hdin. }
    exists (EA (OInput d0 true false t) :: evs). split; [|constructor; [exact I|exact Hq]].
    eapply run2_cons; [exact Hok|exact Hst|exact Hrun].
Qed.

(* the healed round IS a run: a concrete finite list of admissible events *)
Theorem c02_round_is_run : forall s t s', reach2 s -> is_u32 t -> healed_round s t = Some s' ->
  exists evs, sys2_run s evs s' /\ Forall pg_quiet evs.
Proof.
  intros s t s' Hr Ht Hround. apply pg_reach_iff in Hr. unfold healed_round, b_drain in Hround.
  destruct (drain _ s) as [s_1|] eqn:E1; [|discriminate]. cbn [bind2] in Hround.
  destruct (sys2_step s_1 (EA (OFlush true t))) as [s_2|] eqn:E2; [|discriminate]. cbn [bind2] in Hround.
  destruct (deliver _ (new_wire s_1 s_2) s_2) as [s_3|] eqn:E3; [|discriminate]. cbn [bind2] in Hround.
  destruct (drain _ s_3) as [s_4|] eqn:E4; [|discriminate]. cbn [bind2] in Hround.
  destruct (sys2_step s_4 (EB (OFlush true t))) as [s_5|] eqn:E5; [|discriminate]. cbn [bind2] in Hround.
  destruct (pg_drain_run _ s s_1 E1) as (ev1 & Run1 & Q1).
  pose proof (pg_reach_run _ _ _ Run1 Hr) as R1.
  pose proof (pg_run_one _ _ _ (pg_flushA_ev_ok s_1 t Ht) E2) as Run2.
  pose proof (pg_reach_run _ _ _ Run2 R1) as R2.
  destruct (pg_deliver_b_run t _ s_2 s_3 E3 R2 Ht) as (ev3 & Run3 & Q3).
  { intros d Hd. exact (pg_in_skipn _ _ _ _ Hd). }
  pose proof (pg_reach_run _ _ _ Run3 R2) as R3.
  destruct (pg_drain_run _ s_3 s_4 E4) as (ev4 & Run4 & Q4).
  pose proof (pg_reach_run _ _ _ Run4 R3) as R4.
  pose proof (pg_run_one _ _ _ (pg_flushB_ev_ok s_4 t Ht) E5) as Run5.
  pose proof (pg_reach_run _ _ _ Run5 R4) as R5.
  destruct (pg_deliver_a_run t _ s_5 s' Hround R5 Ht) as (ev6 & Run6 & Q6).
  { intros d Hd. exact (pg_in_skipn _ _ _ _ Hd). }
  exists (ev1 ++ [EA (OFlush true t)] ++ ev3 ++ ev4 ++ [EB (OFlush true t)] ++ ev6).
  split.
  - repeat (eapply pg_run_app; [eassumption|]). exact Run6.
  - repeat (apply Forall_app; split); try assumption; repeat constructor.
Qed.

Theorem c02_probe_is_run : forall s t s', reach2 s -> is_u32 t -> probe_round s t = Some s' ->
  exists evs, sys2_run s evs s' /\ Forall pg_quiet evs.
Proof.
  intros s t s' Hr Ht Hround. apply pg_reach_iff in Hr. unfold probe_round, b_drain in Hround.
  destruct (sys2_step s (EA (OFlush true t))) as [s_1|] eqn:E1; [|discriminate]. cbn [bind2] in Hround.
  destruct (sys2_step s_1 (EA (OFlush true (u32 (ts_probe (kA s_1)))))) as [s_2|] eqn:E2; [|discriminate]. cbn [bind2] in Hround.
  destruct (deliver _ (new_wire s s_2) s_2) as [s_3|] eqn:E3; [|discriminate]. cbn [bind2] in Hround.
  destruct (drain _ s_3) as [s_4|] eqn:E4; [|discriminate]. cbn [bind2] in Hround.
  destruct (sys2_step s_4 (EB (OFlush true t))) as [s_5|] eqn:E5; [|discriminate]. cbn [bind2] in Hround.
  pose proof (pg_run_one _ _ _ (pg_flushA_ev_ok s t Ht) E1) as Run1.
  pose proof (pg_reach_run _ _ _ Run1 Hr) as R1.
  pose proof (pg_run_one _ _ _ (pg_flushA_ev_ok s_1 _ (u32_range _)) E2) as Run2.
  pose proof (pg_reach_run _ _ _ Run2 R1) as R2.
  destruct (pg_deliver_b_run t _ s_2 s_3 E3 R2 Ht) as (ev3 & Run3 & Q3).
  { intros d Hd. exact (pg_in_skipn _ _ _ _ Hd). }
  pose proof (pg_reach_run _ _ _ Run3 R2) as R3.
  destruct (pg_drain_run _ s_3 s_4 E4) as (ev4 & Run4 & Q4).
  pose proof (pg_reach_run _ _ _ Run4 R3) as R4.
  pose proof (pg_run_one _ _ _ (pg_flushB_ev_ok s_4 t Ht) E5) as Run5.
  pose proof (pg_reach_run _ _ _ Run5 R4) as R5.
  destruct (pg_deliver_a_run t _ s_5 s' Hround R5 Ht) as (ev6 & Run6 & Q6).
  { intros d Hd. exact (pg_in_skipn _ _ _ _ Hd). }
  exists ([EA (OFlush true t)] ++ [EA (OFlush true (u32 (ts_probe (kA s_1))))] ++ ev3 ++ ev4 ++ [EB (OFlush true t)] ++ ev6).
  split.
  - repeat (eapply pg_run_app; [eassumption|]). exact Run6.
  - repeat (apply Forall_app; split); try assumption; repeat constructor.
Qed.

(* ================================================================== *)
(* 10. the backlog drains                                              *)
(* ================================================================== *)
Lemma pg_no_wrap_all_eq s s' : all_src s' = all_src s -> no_wrap_all s -> no_wrap_all s'.
Proof. intros E H. unfold no_wrap_all. rewrite <- pg_all_src_len, E, pg_all_src_len. exact H. Qed.

Lemma pg_b8_of_all s : b8_all s -> b8 s.
Proof. unfold b8_all, b8, all_src. intros H. apply Forall_app in H. exact (proj1 H). Qed.

Lemma pg_b8_all_eq s s' : all_src s' = all_src s -> rcv_wnd (kB s') = rcv_wnd (kB s) -> b8_all s -> b8_all s'.
Proof. unfold b8_all. intros E1 E2 H. rewrite E1, E2. exact H. Qed.

(* nothing unacknowledged means nothing outstanding and nothing queued *)
Lemma pg_unacked_facts s : pg_reach s -> no_wrap_all s ->
  unacked s = qlen (snd_buf (kA s)) + qlen (snd_queue (kA s)) /\ 0 <= unacked s.
Proof.
  intros Hr Hnw. destruct (pg_aidx s Hr (pg_no_wrap_all s Hnw)) as (_ & Ha & HM).
  unfold unacked, backlog_len, qlen in *. pose proof (Zle_0_nat (length (snd_buf (kA s)))).
  pose proof (Zle_0_nat (length (snd_queue (kA s)))). lia.
Qed.

Lemma pg_unacked_zero s : pg_reach s -> no_wrap_all s -> unacked s <= 0 ->
  snd_buf (kA s) = [] /\ snd_queue (kA s) = [].
Proof.
  intros Hr Hnw H0. destruct (pg_unacked_facts s Hr Hnw) as (E & _). unfold qlen in E.
  split; [destruct (snd_buf (kA s))|destruct (snd_queue (kA s))]; try reflexivity; cbn [length] in E; lia.
Qed.

(* an A flush as a quiet step, with what it does to the sending side *)
Lemma pg_flushA_facts s t s' : pg_reach s -> is_u32 t -> sys2_step s (EA (OFlush true t)) = Some s' ->
  exists nx o, flush (kA s) FLUSH_FULL t = Ok (kA s', nx, o).
Proof.
  intros Hr Ht Hst. destruct (pg_stepA _ _ _ Hst) as (k' & x & E & Es').
  cbn [step] in E. destruct (flush (kA s) FLUSH_FULL t) as [[[k1 nx] o]|e] eqn:Hfl; [|discriminate].
  injection E as Ek Ex. exists nx, o. rewrite Es', <- Ek. reflexivity.
Qed.

Lemma pg_flush_rmt k ft now k' nx o : flush k ft now = Ok (k', nx, o) ->
  rmt_wnd k' = rmt_wnd k /\ nocwnd k' = nocwnd k.
Proof.
  intros Hfl. destruct (fl_shape k ft now k' nx o Hfl)
    as (al & tsp & pw & st & sst & cwn & inc & h1 & st3 & sq & sb & nxt & ns & k5 & sb' & a & Hk' & _).
  subst k'. split; reflexivity.
Qed.

Lemma pg_drain_round_progress s :
  reach2 s -> no_wrap_all s -> b8_all s -> probe_inv (kA s) -> 0 < unacked s ->
  exists s', drain_round s = Some s' /\ reach2 s' /\ no_wrap_all s' /\ b8_all s' /\ probe_inv (kA s') /\
             0 <= unacked s' < unacked s.
Proof.
  intros Hr2 Hnwa Hb8 Hp Hun. pose proof Hr2 as Hr. apply pg_reach_iff in Hr.
  assert (Ht0 : is_u32 0) by (unfold is_u32, W32; lia).
  unfold drain_round.
  (* (a) re-open the window *)
  assert (Ha : exists s_a, (if rmt_wnd (kA s) =? 0 then probe_round s 0 else Some s) = Some s_a /\
            pg_reach s_a /\ all_src s_a = all_src s /\ a_idx s <= a_idx s_a /\
            rcv_wnd (kB s_a) = rcv_wnd (kB s) /\ probe_inv (kA s_a) /\ 0 < rmt_wnd (kA s_a)).
  { destruct (rmt_wnd (kA s) =? 0) eqn:E0; lv_b2z.
    - destruct (c02_probe_round s 0 Hr2 (pg_no_wrap_all s Hnwa) Hp Ht0 E0 (pg_b8_of_all s Hb8)) as (s_a & Ea & _ & Hw).
      destruct (c02_probe_is_run s 0 s_a Hr2 Ht0 Ea) as (evs & Hrun & Hq).
      destruct (pg_quiet_run s evs s_a Hrun Hq Hr Hnwa) as (R & A & M & W & P).
      exists s_a. repeat split; auto.
    - exists s. destruct (pg_reach_base s Hr) as (HiA & _). pose proof (I_rmt_wnd _ HiA).
      repeat split; auto; lia. }
  destruct Ha as (s_a & Ea & Ra & Aa & Ma & Wa & Pa & Hwa). rewrite Ea. cbn [bind2].
  pose proof (pg_no_wrap_all_eq s s_a Aa Hnwa) as Hnwa_a.
  (* (b) first flush *)
  pose proof (pg_flushA_ev_ok s_a 0 Ht0) as Okb.
  destruct (pg_step_total s_a _ Ra Okb) as (s_b & Eb). rewrite Eb. cbn [bind2].
  destruct (pg_quiet_step s_a _ s_b Ra Hnwa_a Okb I Eb) as (Rb & Ab & Mb & Wb & Pb).
  pose proof (pg_no_wrap_all_eq s_a s_b Ab Hnwa_a) as Hnwa_b.
  destruct (pg_flushA_facts s_a 0 s_b Ra Ht0 Eb) as (nxb & ob & Hflb).
  destruct (pg_flush_rmt _ _ _ _ _ _ Hflb) as (Hrb & Hncb).
  destruct (pg_reach_base s_a Ra) as (HiAa & _).
  pose proof (flush_cwnd_ge1 _ _ _ _ _ _ HiAa Hflb) as Hcwb.
  (* (c) second flush *)
  pose proof (pg_flushA_ev_ok s_b 0 Ht0) as Okc.
  destruct (pg_step_total s_b _ Rb Okc) as (s_c & Ec). rewrite Ec. cbn [bind2].
  destruct (pg_quiet_step s_b _ s_c Rb Hnwa_b Okc I Ec) as (Rc & Ac & Mc & Wc & Pc).
  pose proof (pg_no_wrap_all_eq s_b s_c Ac Hnwa_b) as Hnwa_c.
  destruct (pg_flushA_facts s_b 0 s_c Rb Ht0 Ec) as (nxc & oc & Hflc).
  destruct (pg_reach_base s_b Rb) as (HiAb & _).
  assert (Hempty : snd_buf (kA s_c) = [] -> snd_queue (kA s_c) = []).
  { intros Hbc. destruct (pg_flush_len _ _ _ _ _ _ HiAb Hflc) as (_ & n & L1 & L2).
    rewrite Hbc in L1. cbn [length] in L1.
    assert (Hbb : snd_buf (kA s_b) = []) by (destruct (snd_buf (kA s_b)); [reflexivity|cbn [length] in L1; lia]).
    destruct (snd_queue (kA s_b)) as [|q0 qt] eqn:Eq.
    - cbn [length] in L2. destruct (snd_queue (kA s_c)); [reflexivity|cbn [length] in L2; lia].
    - exfalso.
      assert (Hge : qlen (snd_buf (kA s_c)) >= 1).
      { apply (resume_admits (kA s_b) 0 (kA s_c) nxc oc HiAb Hbb); [rewrite Eq; discriminate|lia| |exact Hflc].
        intros Hn. rewrite Hncb in Hn. specialize (Hcwb Hn). lia. }
      rewrite Hbc, qlen_nil in Hge. lia. }
  (* (d) the healed round *)
  assert (Rc2 : reach2 s_c) by (apply pg_reach_iff; exact Rc).
  assert (Htd : is_u32 (t_due s_c)).
  { unfold t_due. destruct (snd_buf (kA s_c)); [exact Ht0|apply u32_range]. }
  destruct (c02_round_total s_c (t_due s_c) Rc2 Htd) as (s' & Ed & Rd2).
  exists s'. split; [exact Ed|]. split; [exact Rd2|].
  destruct (c02_round_is_run s_c (t_due s_c) s' Rc2 Htd Ed) as (evs & Hrun & Hq).
  destruct (pg_quiet_run s_c evs s' Hrun Hq Rc Hnwa_c) as (Rd & Ad & Md & Wd & Pd).
  pose proof (pg_no_wrap_all_eq s_c s' Ad Hnwa_c) as Hnwa_d.
  assert (Aall : all_src s' = all_src s) by congruence.
  assert (Wall : rcv_wnd (kB s') = rcv_wnd (kB s)) by congruence.
  split; [exact Hnwa_d|]. split; [exact (pg_b8_all_eq s s' Aall Wall Hb8)|]. split; [auto|].
  destruct (pg_unacked_facts s' Rd Hnwa_d) as (_ & Hge0). split; [exact Hge0|].
  assert (Hbl : backlog_len s' = backlog_len s) by (rewrite <- !pg_all_src_len, Aall; reflexivity).
  assert (Hblc : backlog_len s_c = backlog_len s) by (rewrite <- !pg_all_src_len; congruence).
  unfold unacked in *. rewrite Hbl.
  destruct (snd_buf (kA s_c)) as [|h rest] eqn:Ebc.
  - (* nothing outstanding after the flushes: everything had been acknowledged *)
    specialize (Hempty eq_refl).
    destruct (pg_unacked_facts s_c Rc Hnwa_c) as (Euc & _). unfold unacked in Euc.
    rewrite Ebc, Hempty, Hblc in Euc. cbn in Euc.
    lia.
  - (* the head is due: strict progress *)
    assert (Hdue : head_due s_c (t_due s_c)).
    { unfold head_due, t_due. rewrite Ebc. right. rewrite itimediff_u32_l, itimediff_self. lia. }
    assert (Hb8c : b8 s_c).
    { apply pg_b8_of_all. apply (pg_b8_all_eq s s_c); [congruence|congruence|exact Hb8]. }
    pose proof (c02_round_progress s_c (t_due s_c) s' Rc2 Htd Hdue Hb8c Ed (pg_no_wrap_all s' Hnwa_d)) as Hlt.
    lia.
Qed.

Lemma pg_drains_aux : forall m s,
  unacked s <= Z.of_nat m -> reach2 s -> no_wrap_all s -> b8_all s -> probe_inv (kA s) ->
  exists n s', (n <= m)%nat /\ drain_rounds n s = Some s' /\ reach2 s' /\ no_wrap_all s' /\ b8_all s' /\
               snd_buf (kA s') = [] /\ snd_queue (kA s') = [].
Proof.
  induction m as [|m IH]; intros s Hm Hr Hnw Hb8 Hp.
  - exists 0%nat, s. split; [lia|]. split; [reflexivity|]. split; [exact Hr|]. split; [exact Hnw|]. split; [exact Hb8|].
    apply pg_unacked_zero; [apply pg_reach_iff; exact Hr|exact Hnw|lia].
  - destruct (Z_le_gt_dec (unacked s) 0) as [H0|Hpos].
    + exists 0%nat, s. split; [lia|]. split; [reflexivity|]. split; [exact Hr|]. split; [exact Hnw|]. split; [exact Hb8|].
      apply pg_unacked_zero; [apply pg_reach_iff; exact Hr|exact Hnw|exact H0].
    + destruct (pg_drain_round_progress s Hr Hnw Hb8 Hp ltac:(lia)) as (s1 & E1 & R1 & N1 & B1 & P1 & U1).
      destruct (IH s1 ltac:(lia) R1 N1 B1 P1) as (n & s' & Hn & En & R' & N' & B' & E1' & E2').
      exists (S n), s'. split; [lia|]. cbn [drain_rounds]. rewrite E1. cbn [bind2].
      split; [exact En|]. split; [exact R'|]. split; [exact N'|]. split; [exact B'|]. split; assumption.
Qed.

(* C02: a healed network drains the backlog: at most one draining round per unacknowledged segment *)
Theorem c02_drains : forall s,
  reach2 s -> no_wrap_all s -> b8_all s -> probe_inv (kA s) ->
  exists n s', Z.of_nat n <= unacked s /\ drain_rounds n s = Some s' /\ reach2 s' /\
               waitsnd (kA s') = 0.
Proof.
  intros s Hr Hnw Hb8 Hp.
  destruct (pg_unacked_facts s ltac:(apply pg_reach_iff; exact Hr) Hnw) as (_ & Hge).
  destruct (pg_drains_aux (Z.to_nat (unacked s)) s ltac:(lia) Hr Hnw Hb8 Hp) as (n & s' & Hn & En & R' & _ & _ & E1 & E2).
  exists n, s'. split; [lia|]. split; [exact En|]. split; [exact R'|].
  unfold waitsnd. rewrite E1, E2. reflexivity.
Qed.

(* ================================================================== *)
(* 11. drained on both sides: everything accepted has been delivered   *)
(* ================================================================== *)
(* fragment counters count down inside a message *)
Lemma pg_chain_down (src : list (Z * bytes)) (done : nat) (f : Z) :
  src_wf src -> forall j p0, nth_error src done = Some p0 -> fst p0 = f ->
  (done + j < length src)%nat -> Z.of_nat j < f ->
  exists p, nth_error src (done + j) = Some p /\ fst p = f - Z.of_nat j.
Proof.
  intros [_ Hch]. induction j as [|j IH]; intros p0 H0 Hf Hlen Hj.
  - exists p0. rewrite Nat.add_0_r. split; [exact H0|lia].
  - destruct (IH p0 H0 Hf ltac:(lia) ltac:(lia)) as (p & Hp & Hfp).
    destruct (nth_error src (done + S j)) as [q|] eqn:Eq; [|apply nth_error_None in Eq; lia].
    exists q. split; [reflexivity|].
    replace (done + S j)%nat with (S (done + j)) in Eq by lia.
    rewrite (Hch _ _ _ Hp Eq ltac:(lia)). lia.
Qed.

Theorem c02_delivered : forall s,
  reach2 s -> no_wrap (numbered_of s) -> waitsnd (kA s) = 0 -> peeksize (kB s) < 0 -> b8 s ->
  rcv_queue (kB s) = [] /\
  (stream (kA s) = 0 -> rg_delivered (gB (s1 s)) = sg_accepted (gA (s1 s))) /\
  (stream (kA s) <> 0 -> concat (rg_delivered (gB (s1 s))) = concat (sg_accepted (gA (s1 s)))).
Proof.
  intros s Hr2 Hnw Hws Hp Hb8. pose proof Hr2 as Hr. apply pg_reach_iff in Hr.
  destruct (pg_reach_base s Hr) as (HiA & HiB & Hsi & Hgisn & _).
  pose proof (pg_reach_receiver s Hr Hnw) as HR.
  (* A is empty *)
  assert (Hemp : snd_buf (kA s) = [] /\ snd_queue (kA s) = []).
  { unfold waitsnd, qlen in Hws. split; [destruct (snd_buf (kA s))|destruct (snd_queue (kA s))]; try reflexivity;
      cbn [length] in Hws; lia. }
  destruct Hemp as [Eb Eq].
  destruct (pg_aidx s Hr Hnw) as (_ & _ & HM). rewrite Eb, qlen_nil in HM.
  (* so B has everything *)
  destruct (pg_ridx_sys s Hr Hnw) as (Hrn & Hrr).
  pose proof (pg_drained_J s Hr Hnw Hp Hb8) as HJ. unfold pg_J in HJ. fold (r_idx s) in HJ.
  assert (Hr_all : r_idx s = Z.of_nat (length (numbered_of s))) by lia.
  destruct (RI_nxt _ _ _ HR) as (r & done & Hrd & Hrnx & Hq & Hdel & Hbd).
  fold (numbered_of s) in Hrd, Hq, Hdel, Hbd. set (N := numbered_of s) in *.
  assert (Er : r = length N).
  { apply Nat2Z.inj. rewrite <- Hr_all. symmetry. unfold r_idx. rewrite Hrnx, Hgisn. apply pg_idx_u32.
    unfold no_wrap, H32, W32 in *. lia. }
  subst r.
  assert (Hq' : map pay (rcv_queue (kB s)) = skipn done N).
  { rewrite Hq. apply firstn_all2. rewrite skipn_length. lia. }
  pose proof (sender_src_wf _ _ Hsi) as Hwf. fold N in Hwf.
  pose proof (SI_boundary _ _ Hsi) as Hbnd. fold (kA s) in Hbnd. rewrite Eq in Hbnd. cbn [map] in Hbnd.
  rewrite app_nil_r in Hbnd. fold N in Hbnd.
  (* the delivery queue cannot hold a proper message prefix: N ends at a message boundary *)
  assert (Hrq : rcv_queue (kB s) = []).
  { destruct (rcv_queue (kB s)) as [|x q] eqn:Erq; [reflexivity|exfalso].
    assert (Hlen : length (x :: q) = (length N - done)%nat).
    { rewrite <- (map_length pay), Hq', skipn_length. reflexivity. }
    cbn [length] in Hlen.
    assert (Hx : nth_error N done = Some (pay x)).
    { pose proof (nr_nth_error_skipn _ done 0 N) as H. rewrite <- Hq', Nat.add_0_r in H. cbn [map nth_error] in H.
      symmetry. exact H. }
    destruct Hwf as [Hrange Hch].
    pose proof (proj1 (Forall_forall _ _) Hrange _ (nth_error_In _ _ Hx)) as ((V1 & V2) & _).
    unfold pay in V1, V2. cbn [fst] in V1, V2.
    unfold peeksize in Hp. rewrite Erq in Hp.
    destruct (s_frg x =? 0) eqn:E0; [pose proof (blen_nonneg (s_data x)); lia|]. lv_b2z.
    destruct (qlen (x :: q) <? u8 (s_frg x + 1)) eqn:E1; lv_b2z;
      [|pose proof (pg_msg_size_nonneg (x :: q)); lia].
    unfold u8 in E1. rewrite Z.mod_small in E1 by lia. unfold qlen in E1. cbn [length] in E1.
    destruct (pg_chain_down N done (s_frg x) (conj Hrange Hch) (length q) (pay x) Hx eq_refl ltac:(lia) ltac:(lia))
      as (p & Hpn & Hfp).
    destruct (nr_at_boundary_inv N Hbnd) as [En|(l0 & d & En)]; [rewrite En in Hx; destruct done; discriminate|].
    assert (Hlast : nth_error N (done + length q) = Some (0, d)).
    { rewrite En. rewrite nth_error_app2; rewrite En, app_length in Hlen; cbn [length] in Hlen; [|lia].
      replace (done + length q - length l0)%nat with 0%nat by lia. reflexivity. }
    rewrite Hlast in Hpn. inversion Hpn; subst p. cbn [fst] in Hfp. lia. }
  split; [exact Hrq|].
  assert (Hdone : firstn done N = N).
  { rewrite Hrq in Hq'. cbn [map] in Hq'. apply firstn_all2.
    assert (H : length (skipn done N) = 0%nat) by (rewrite <- Hq'; reflexivity). rewrite skipn_length in H. lia. }
  rewrite Hdone in Hdel, Hbd. split.
  - intros Hs. rewrite Hdel. pose proof (SI_message _ _ Hsi Hs) as Hm. fold (kA s) in Hm.
    rewrite Eq in Hm. cbn [map] in Hm. rewrite app_nil_r in Hm. exact Hm.
  - intros Hs. rewrite Hdel, (concat_messages_boundary _ Hbd).
    pose proof (SI_stream _ _ Hsi Hs) as Hm. fold (kA s) in Hm. rewrite Eq in Hm. cbn [map concat] in Hm.
    rewrite app_nil_r in Hm. exact Hm.
Qed.

(* ... and when B's reader has caught up, everything accepted has been delivered *)
Theorem c02_drains_delivered : forall s,
  reach2 s -> no_wrap_all s -> b8_all s -> probe_inv (kA s) ->
  exists n s' s'', Z.of_nat n <= unacked s /\ drain_rounds n s = Some s' /\ b_drain s' = Some s'' /\
    reach2 s'' /\ waitsnd (kA s'') = 0 /\ rcv_queue (kB s'') = [] /\
    (stream (kA s'') = 0 -> rg_delivered (gB (s1 s'')) = sg_accepted (gA (s1 s''))) /\
    (stream (kA s'') <> 0 -> concat (rg_delivered (gB (s1 s''))) = concat (sg_accepted (gA (s1 s'')))).
Proof.
  intros s Hr Hnw Hb8 Hp.
  destruct (pg_unacked_facts s ltac:(apply pg_reach_iff; exact Hr) Hnw) as (_ & Hge).
  destruct (pg_drains_aux (Z.to_nat (unacked s)) s ltac:(lia) Hr Hnw Hb8 Hp) as (n & s' & Hn & En & R' & N' & B' & E1 & E2).
  pose proof R' as Rp. apply pg_reach_iff in Rp.
  unfold b_drain.
  destruct (pg_drain_total (length (rcv_queue (kB s')) + length (rcv_buf (kB s'))) s' Rp) as (s'' & Ed & Rd).
  exists n, s', s''. split; [lia|]. split; [exact En|]. split; [exact Ed|].
  assert (Rd2 : reach2 s'') by (apply pg_reach_iff; exact Rd). split; [exact Rd2|].
  destruct (pg_drain_frame _ s' s'' Ed Rp) as (_ & HfA & _).
  destruct (pg_frameA_isn _ _ HfA) as (_ & G2 & _). pose proof HfA as (F1 & F2 & _).
  destruct (pg_drain_props _ s' s'' Ed Rp (pg_no_wrap_all s' N')) as (_ & _ & (_ & _ & _ & T4 & _) & _).
  assert (Hws : waitsnd (kA s'') = 0) by (unfold waitsnd; rewrite F1, E1, E2; reflexivity).
  split; [exact Hws|].
  apply c02_delivered; try assumption.
  - rewrite G2. exact (pg_no_wrap_all s' N').
  - apply (pg_drain_done _ s' s'' Ed). lia.
  - unfold b8. rewrite G2, T4. exact (pg_b8_of_all s' B').
Qed.

Print Assumptions link_step.
Print Assumptions link_reach.
Print Assumptions c02_round_total.
Print Assumptions c02_round_progress.
Print Assumptions c02_queue_progress.
Print Assumptions c02_round.
Print Assumptions c02_probe_round.
Print Assumptions c02_round_is_run.
Print Assumptions c02_probe_is_run.
Print Assumptions c02_drains.
Print Assumptions c02_delivered.
Print Assumptions c02_drains_delivered.
