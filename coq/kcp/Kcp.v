(* kcp.go transcribed: the ARQ state machine as total executable Gallina functions.
   - all machine integers are Z with the wrap written out (KV.Base.Word);
   - the clock is an argument `now` (flush reads the clock three times; under the fake clock
     of the harness the three readings are equal);
   - queues are lists (licensed by C20: the ring buffer refines the list queue);
   - rcv_buf (container/heap + marks) is a list kept sorted by _itimediff with duplicate sn
     refused; heap.Pop returns its head;
   - every place where the Go code could fault (slice bounds) returns Panic;
   - every function returns the datagrams handed to `output`, in emission order.
   No proofs in this file. *)
From Coq Require Import ZArith List Bool.
From KV.Base Require Import Consts Word.
Import ListNotations.
Local Open Scope Z_scope.

Definition bytes := list Z.
Definition blen (b : bytes) : Z := Z.of_nat (length b).

Record seg := mkSeg {
  s_conv : Z; s_cmd : Z; s_frg : Z; s_wnd : Z; s_ts : Z; s_sn : Z; s_una : Z;
  s_rto : Z; s_xmit : Z; s_resendts : Z; s_fastack : Z; s_acked : Z;
  s_data : bytes }.

Definition seg0 : seg := mkSeg 0 0 0 0 0 0 0 0 0 0 0 0 [].

Record kcp := mkKcp {
  conv : Z; mtu : Z; mss : Z; state : Z;
  snd_una : Z; snd_nxt : Z; rcv_nxt : Z;
  ssthresh : Z; rx_rttvar : Z; rx_srtt : Z; rx_rto : Z; rx_minrto : Z;
  snd_wnd : Z; rcv_wnd : Z; rmt_wnd : Z; cwnd : Z; incr : Z;
  probe : Z; ts_probe : Z; probe_wait : Z;
  interval : Z; ts_flush : Z; nodelay : Z; updated : Z;
  dead_link : Z; fastresend : Z; nocwnd : Z; stream : Z;
  snd_queue : list seg; rcv_queue : list seg; snd_buf : list seg; rcv_buf : list seg;
  acklist : list (Z * Z);
  buflen : Z   (* len(kcp.buffer) *)
}.

Inductive res (T : Type) := Ok (v : T) | Panic (why : Z).
Arguments Ok {T} v.
Arguments Panic {T} why.

(* panic sites *)
Definition P_newSegment := 1.   (* Get()[:size], size > cap of a pool buffer *)
Definition P_streamAppend := 2. (* seg.data[:oldlen+extend] beyond cap *)
Definition P_parseData := 3.    (* Get()[:len] in parse_data *)
Definition P_flushBuffer := 4.  (* writing past the staging buffer in flush *)

(* ---- record updates (explicit, so that the extraction stays first-order) ---- *)
Definition set_queues (k : kcp) sq rq sb rb : kcp :=
  mkKcp (conv k) (mtu k) (mss k) (state k) (snd_una k) (snd_nxt k) (rcv_nxt k)
    (ssthresh k) (rx_rttvar k) (rx_srtt k) (rx_rto k) (rx_minrto k)
    (snd_wnd k) (rcv_wnd k) (rmt_wnd k) (cwnd k) (incr k) (probe k) (ts_probe k) (probe_wait k)
    (interval k) (ts_flush k) (nodelay k) (updated k) (dead_link k) (fastresend k) (nocwnd k) (stream k)
    sq rq sb rb (acklist k) (buflen k).
Definition set_snd_queue k q := set_queues k q (rcv_queue k) (snd_buf k) (rcv_buf k).
Definition set_rcv_queue k q := set_queues k (snd_queue k) q (snd_buf k) (rcv_buf k).
Definition set_snd_buf k q := set_queues k (snd_queue k) (rcv_queue k) q (rcv_buf k).
Definition set_rcv_buf k q := set_queues k (snd_queue k) (rcv_queue k) (snd_buf k) q.

Definition set_seq (k : kcp) una nxt rnxt : kcp :=
  mkKcp (conv k) (mtu k) (mss k) (state k) una nxt rnxt
    (ssthresh k) (rx_rttvar k) (rx_srtt k) (rx_rto k) (rx_minrto k)
    (snd_wnd k) (rcv_wnd k) (rmt_wnd k) (cwnd k) (incr k) (probe k) (ts_probe k) (probe_wait k)
    (interval k) (ts_flush k) (nodelay k) (updated k) (dead_link k) (fastresend k) (nocwnd k) (stream k)
    (snd_queue k) (rcv_queue k) (snd_buf k) (rcv_buf k) (acklist k) (buflen k).
Definition set_snd_una k v := set_seq k v (snd_nxt k) (rcv_nxt k).
Definition set_snd_nxt k v := set_seq k (snd_una k) v (rcv_nxt k).
Definition set_rcv_nxt k v := set_seq k (snd_una k) (snd_nxt k) v.

Definition set_rtt (k : kcp) var srtt rto minrto : kcp :=
  mkKcp (conv k) (mtu k) (mss k) (state k) (snd_una k) (snd_nxt k) (rcv_nxt k)
    (ssthresh k) var srtt rto minrto
    (snd_wnd k) (rcv_wnd k) (rmt_wnd k) (cwnd k) (incr k) (probe k) (ts_probe k) (probe_wait k)
    (interval k) (ts_flush k) (nodelay k) (updated k) (dead_link k) (fastresend k) (nocwnd k) (stream k)
    (snd_queue k) (rcv_queue k) (snd_buf k) (rcv_buf k) (acklist k) (buflen k).

Definition set_cc (k : kcp) sst rmt cw inc : kcp :=
  mkKcp (conv k) (mtu k) (mss k) (state k) (snd_una k) (snd_nxt k) (rcv_nxt k)
    sst (rx_rttvar k) (rx_srtt k) (rx_rto k) (rx_minrto k)
    (snd_wnd k) (rcv_wnd k) rmt cw inc (probe k) (ts_probe k) (probe_wait k)
    (interval k) (ts_flush k) (nodelay k) (updated k) (dead_link k) (fastresend k) (nocwnd k) (stream k)
    (snd_queue k) (rcv_queue k) (snd_buf k) (rcv_buf k) (acklist k) (buflen k).
Definition set_rmt_wnd k v := set_cc k (ssthresh k) v (cwnd k) (incr k).

Definition set_probe (k : kcp) p tsp pw : kcp :=
  mkKcp (conv k) (mtu k) (mss k) (state k) (snd_una k) (snd_nxt k) (rcv_nxt k)
    (ssthresh k) (rx_rttvar k) (rx_srtt k) (rx_rto k) (rx_minrto k)
    (snd_wnd k) (rcv_wnd k) (rmt_wnd k) (cwnd k) (incr k) p tsp pw
    (interval k) (ts_flush k) (nodelay k) (updated k) (dead_link k) (fastresend k) (nocwnd k) (stream k)
    (snd_queue k) (rcv_queue k) (snd_buf k) (rcv_buf k) (acklist k) (buflen k).
Definition set_probe_flags k p := set_probe k p (ts_probe k) (probe_wait k).

Definition set_timer (k : kcp) st tsf upd : kcp :=
  mkKcp (conv k) (mtu k) (mss k) st (snd_una k) (snd_nxt k) (rcv_nxt k)
    (ssthresh k) (rx_rttvar k) (rx_srtt k) (rx_rto k) (rx_minrto k)
    (snd_wnd k) (rcv_wnd k) (rmt_wnd k) (cwnd k) (incr k) (probe k) (ts_probe k) (probe_wait k)
    (interval k) tsf (nodelay k) upd (dead_link k) (fastresend k) (nocwnd k) (stream k)
    (snd_queue k) (rcv_queue k) (snd_buf k) (rcv_buf k) (acklist k) (buflen k).

Definition set_acklist (k : kcp) al : kcp :=
  mkKcp (conv k) (mtu k) (mss k) (state k) (snd_una k) (snd_nxt k) (rcv_nxt k)
    (ssthresh k) (rx_rttvar k) (rx_srtt k) (rx_rto k) (rx_minrto k)
    (snd_wnd k) (rcv_wnd k) (rmt_wnd k) (cwnd k) (incr k) (probe k) (ts_probe k) (probe_wait k)
    (interval k) (ts_flush k) (nodelay k) (updated k) (dead_link k) (fastresend k) (nocwnd k) (stream k)
    (snd_queue k) (rcv_queue k) (snd_buf k) (rcv_buf k) al (buflen k).

Definition set_config (k : kcp) mt ms sw rw iv nd fr nc stm bl : kcp :=
  mkKcp (conv k) mt ms (state k) (snd_una k) (snd_nxt k) (rcv_nxt k)
    (ssthresh k) (rx_rttvar k) (rx_srtt k) (rx_rto k) (rx_minrto k)
    sw rw (rmt_wnd k) (cwnd k) (incr k) (probe k) (ts_probe k) (probe_wait k)
    iv (ts_flush k) nd (updated k) (dead_link k) fr nc stm
    (snd_queue k) (rcv_queue k) (snd_buf k) (rcv_buf k) (acklist k) bl.

Definition set_seg_data (s : seg) d : seg :=
  mkSeg (s_conv s) (s_cmd s) (s_frg s) (s_wnd s) (s_ts s) (s_sn s) (s_una s)
        (s_rto s) (s_xmit s) (s_resendts s) (s_fastack s) (s_acked s) d.
Definition set_seg_fastack (s : seg) f : seg :=
  mkSeg (s_conv s) (s_cmd s) (s_frg s) (s_wnd s) (s_ts s) (s_sn s) (s_una s)
        (s_rto s) (s_xmit s) (s_resendts s) f (s_acked s) (s_data s).

(* ---- NewKCP ---- *)
Definition kcp_new (cv : Z) : kcp :=
  mkKcp cv c_IKCP_MTU_DEF (c_IKCP_MTU_DEF - c_IKCP_OVERHEAD) 0
    0 0 0
    c_IKCP_THRESH_INIT 0 0 c_IKCP_RTO_DEF c_IKCP_RTO_MIN
    c_IKCP_WND_SND c_IKCP_WND_RCV c_IKCP_WND_RCV 0 0
    0 0 0
    c_IKCP_INTERVAL c_IKCP_INTERVAL 0 0
    c_IKCP_DEADLINK 0 0 0
    [] [] [] [] []
    ((c_IKCP_MTU_DEF + c_IKCP_OVERHEAD) * 3).

(* ---- wire format of one segment ---- *)
Definition encode_seg (s : seg) : bytes :=
  le32 (s_conv s) ++ [s_cmd s; s_frg s] ++ le16 (s_wnd s) ++ le32 (s_ts s) ++ le32 (s_sn s)
       ++ le32 (s_una s) ++ le32 (blen (s_data s)) ++ s_data s.

(* ---- PeekSize / Recv ---- *)
Definition qlen (q : list seg) : Z := Z.of_nat (length q).

Fixpoint msg_size (q : list seg) : Z :=
  match q with
  | [] => 0
  | s :: t => if s_frg s =? 0 then blen (s_data s) else blen (s_data s) + msg_size t
  end.

Definition peeksize (k : kcp) : Z :=
  match rcv_queue k with
  | [] => -1
  | s :: _ =>
      if s_frg s =? 0 then blen (s_data s)
      else if qlen (rcv_queue k) <? u8 (s_frg s + 1) then -1   (* int(seg.frg+1): uint8 arithmetic *)
      else msg_size (rcv_queue k)
  end.

(* pop segments up to and including the first with frg = 0 (or all of them) *)
Fixpoint pop_msg (q : list seg) : bytes * list seg :=
  match q with
  | [] => ([], [])
  | s :: t =>
      if s_frg s =? 0 then (s_data s, t)
      else let '(d, r) := pop_msg t in (s_data s ++ d, r)
  end.

(* sorted insertion: the position heap.Pop would give it (order: _itimediff on sn) *)
Fixpoint insert_seg (s : seg) (l : list seg) : list seg :=
  match l with
  | [] => [s]
  | e :: t => if itimediff (s_sn e) (s_sn s) >? 0 then s :: l else e :: insert_seg s t
  end.

Definition has_sn (sn : Z) (l : list seg) : bool := existsb (fun e => s_sn e =? sn) l.

(* move available data from rcv_buf -> rcv_queue *)
Fixpoint move_ready (rb : list seg) (rq : list seg) (rnxt : Z) (rwnd : Z) : list seg * list seg * Z :=
  match rb with
  | [] => (rb, rq, rnxt)
  | s :: t =>
      if (s_sn s =? rnxt) && (qlen rq <? rwnd)
      then move_ready t (rq ++ [s]) (u32 (rnxt + 1)) rwnd
      else (rb, rq, rnxt)
  end.

Definition do_move_ready (k : kcp) : kcp :=
  let '(rb, rq, rn) := move_ready (rcv_buf k) (rcv_queue k) (rcv_nxt k) (rcv_wnd k) in
  set_rcv_nxt (set_queues k (snd_queue k) rq (snd_buf k) rb) rn.

(* Recv(buffer) with len(buffer) = buflen: (state, n, bytes written) *)
Definition recv (k : kcp) (buflen_ : Z) : kcp * Z * bytes :=
  let ps := peeksize k in
  if ps <? 0 then (k, -1, [])
  else if ps >? buflen_ then (k, -2, [])
  else
    let fast_recover := qlen (rcv_queue k) >=? rcv_wnd k in
    let '(d, rq) := pop_msg (rcv_queue k) in
    let k1 := do_move_ready (set_rcv_queue k rq) in
    let k2 := if (qlen (rcv_queue k1) <? rcv_wnd k1) && fast_recover
              then set_probe_flags k1 (Z.lor (probe k1) c_IKCP_ASK_TELL) else k1 in
    (k2, blen d, d).

(* ---- Send ---- *)
Definition frag_count (n m : Z) : Z := if n <=? m then 1 else (n + m - 1) / m.

Definition take (n : Z) (b : bytes) : bytes := firstn (Z.to_nat n) b.
Definition drop (n : Z) (b : bytes) : bytes := skipn (Z.to_nat n) b.

Definition new_seg_data (frg : Z) (d : bytes) : seg :=
  mkSeg 0 0 frg 0 0 0 0 0 0 0 0 0 d.

(* the fragmentation loop; i counts down the remaining fragments *)
Fixpoint fragment (fuel : nat) (count i : Z) (m : Z) (stream_ : Z) (b : bytes) : res (list seg) :=
  match fuel with
  | O => Ok []
  | S f =>
      if i >=? count then Ok []
      else
        let size := Z.min (blen b) m in
        if size >? c_mtuLimit then Panic P_newSegment
        else
          let sg := new_seg_data (if stream_ =? 0 then u8 (count - i - 1) else 0) (take size b) in
          match fragment f count (i + 1) m stream_ (drop size b) with
          | Ok l => Ok (sg :: l)
          | Panic w => Panic w
          end
  end.

(* stream mode: what the last queued segment absorbs.  Returns (queue', rest of buffer). *)
Definition stream_append (k : kcp) (b : bytes) : res (option (list seg * bytes)) :=
  match rev (snd_queue k) with
  | [] => Ok (Some (snd_queue k, b))
  | last :: before =>
      if blen (s_data last) <? mss k then
        let capacity := mss k - blen (s_data last) in
        let extend := Z.min (blen b) capacity in
        let rest := drop extend b in
        (* refuse before touching the queue when the remainder cannot be fragmented *)
        if frag_count (blen rest) (mss k) >? 255 then Ok None
        else if blen (s_data last) + extend >? c_mtuLimit then Panic P_streamAppend
        else Ok (Some (rev before ++ [set_seg_data last (s_data last ++ take extend b)], rest))
      else Ok (Some (snd_queue k, b))
  end.

Definition send (k : kcp) (b : bytes) : res (kcp * Z) :=
  if blen b =? 0 then Ok (k, -1)
  else
    let pre := if stream k =? 0 then Ok (Some (snd_queue k, b)) else stream_append k b in
    match pre with
    | Panic w => Panic w
    | Ok None => Ok (k, -2)
    | Ok (Some (q1, b1)) =>
        let k1 := set_snd_queue k q1 in
        if (negb (stream k =? 0)) && (blen b1 =? 0) then Ok (k1, 0)
        else
          let count := frag_count (blen b1) (mss k) in
          if count >? 255 then Ok (k1, -2)
          else
            let count := if count =? 0 then 1 else count in
            match fragment (Z.to_nat count) count 0 (mss k) (stream k) b1 with
            | Panic w => Panic w
            | Ok segs => Ok (set_snd_queue k1 (q1 ++ segs), 0)
            end
    end.

(* ---- RTT estimator (update_ack).  int32 arithmetic on srtt/rttvar, uint32 on rto ---- *)
Definition update_ack (k : kcp) (rtt : Z) : kcp :=
  let '(srtt, var) :=
    if rx_srtt k =? 0 then (rtt, asr rtt 1)
    else
      let delta := i32 (rtt - rx_srtt k) in
      let srtt := i32 (rx_srtt k + asr delta 3) in
      let delta := if delta <? 0 then i32 (- delta) else delta in
      if rtt <? i32 (srtt - rx_rttvar k)
      then (srtt, i32 (rx_rttvar k + asr (i32 (delta - rx_rttvar k)) 5))
      else (srtt, i32 (rx_rttvar k + asr (i32 (delta - rx_rttvar k)) 2)) in
  let rto := u32 (u32 srtt + Z.max (interval k) (u32 (u32 var * 4))) in
  set_rtt k var srtt (Z.min (Z.max (rx_minrto k) rto) c_IKCP_RTO_MAX) (rx_minrto k).

(* ---- acknowledgement processing ---- *)
(* segments acknowledged selectively leave snd_buf once they reach its head *)
Fixpoint drop_acked (l : list seg) : list seg :=
  match l with
  | s :: t => if s_acked s =? 0 then l else drop_acked t
  | [] => []
  end.

Definition shrink_buf (k : kcp) : kcp :=
  let k := set_snd_buf k (drop_acked (snd_buf k)) in
  match snd_buf k with
  | s :: _ => set_snd_una k (s_sn s)
  | [] => set_snd_una k (snd_nxt k)
  end.

Fixpoint ack_walk (sn : Z) (l : list seg) : list seg :=
  match l with
  | [] => []
  | s :: t =>
      if sn =? s_sn s then
        mkSeg (s_conv s) (s_cmd s) (s_frg s) (s_wnd s) (s_ts s) (s_sn s) (s_una s)
              (s_rto s) (s_xmit s) (s_resendts s) (s_fastack s) 1 [] :: t
      else if itimediff sn (s_sn s) <? 0 then l
      else s :: ack_walk sn t
  end.

Definition parse_ack (k : kcp) (sn : Z) : kcp :=
  if (itimediff sn (snd_una k) <? 0) || (itimediff sn (snd_nxt k) >=? 0) then k
  else set_snd_buf k (ack_walk sn (snd_buf k)).

Fixpoint fastack_walk (sn ts fr : Z) (l : list seg) : list seg * bool :=
  match l with
  | [] => ([], false)
  | s :: t =>
      if itimediff sn (s_sn s) <? 0 then (l, false)
      else if negb (sn =? s_sn s) && (itimediff (s_ts s) ts <=? 0) then
        if s_fastack s =? 4294967295 then
          let '(t', f) := fastack_walk sn ts fr t in (s :: t', f)
        else
          let fa := u32 (s_fastack s + 1) in
          let '(t', f) := fastack_walk sn ts fr t in
          (set_seg_fastack s fa :: t', (fa >=? u32 fr) || f)
      else let '(t', f) := fastack_walk sn ts fr t in (s :: t', f)
  end.

Definition parse_fastack (k : kcp) (sn ts : Z) : kcp * bool :=
  if (itimediff sn (snd_una k) <? 0) || (itimediff sn (snd_nxt k) >=? 0) then (k, false)
  else let '(l, f) := fastack_walk sn ts (fastresend k) (snd_buf k) in (set_snd_buf k l, f).

Fixpoint una_walk (una : Z) (l : list seg) : list seg * Z :=
  match l with
  | [] => ([], 0)
  | s :: t =>
      if itimediff una (s_sn s) >? 0 then let '(r, c) := una_walk una t in (r, c + 1)
      else (l, 0)
  end.

Definition parse_una (k : kcp) (una : Z) : kcp * Z :=
  let '(l, c) := una_walk una (snd_buf k) in (set_snd_buf k l, c).

Definition parse_data (k : kcp) (s : seg) : res (kcp * bool) :=
  let sn := s_sn s in
  if (itimediff sn (u32 (rcv_nxt k + rcv_wnd k)) >=? 0) || (itimediff sn (rcv_nxt k) <? 0)
  then Ok (k, true)
  else
    if has_sn sn (rcv_buf k) then Ok (do_move_ready k, true)
    else if blen (s_data s) >? c_mtuLimit then Panic P_parseData
    else Ok (do_move_ready (set_rcv_buf k (insert_seg s (rcv_buf k))), false).

(* ---- flush ---- *)
Record stage := mkStage { cur : bytes; outs : list bytes (* most recent first *) }.

Definition make_space (k : kcp) (st : stage) (space : Z) : stage :=
  if blen (cur st) + space >? mtu k then mkStage [] (cur st :: outs st) else st.

(* seg.encode(ptr) [+ copy of the payload]: faults when the staging buffer is too short *)
Definition stage_write (k : kcp) (st : stage) (s : seg) : res stage :=
  if blen (cur st) + c_IKCP_OVERHEAD + blen (s_data s) >? buflen k then Panic P_flushBuffer
  else Ok (mkStage (cur st ++ encode_seg s) (outs st)).

Definition flush_buffer (st : stage) : list bytes :=
  rev (if blen (cur st) >? 0 then cur st :: outs st else outs st).

Definition wnd_unused (k : kcp) : Z :=
  if qlen (rcv_queue k) <? rcv_wnd k then u16 (rcv_wnd k - qlen (rcv_queue k)) else 0.

(* phase 1: header template h carries conv/cmd/wnd/una and the sn/ts of the last ack written *)
Fixpoint flush_acks (k : kcp) (h : seg) (st : stage) (al : list (Z * Z)) : res (seg * stage) :=
  match al with
  | [] => Ok (h, st)
  | (sn, ts) :: t =>
      let st1 := make_space k st c_IKCP_OVERHEAD in
      if (itimediff sn (rcv_nxt k) >=? 0) || (match t with [] => true | _ => false end) then
        let h1 := mkSeg (s_conv h) (s_cmd h) (s_frg h) (s_wnd h) ts sn (s_una h) 0 0 0 0 0 [] in
        match stage_write k st1 h1 with
        | Ok st2 => flush_acks k h1 st2 t
        | Panic w => Panic w
        end
      else flush_acks k h st1 t
  end.

(* phase 4: snd_queue -> snd_buf while snd_nxt < snd_una + cwnd *)
Fixpoint admit_segs (sq sb : list seg) (cv una nxt cw : Z) (n : Z) : list seg * list seg * Z * Z :=
  match sq with
  | [] => (sq, sb, nxt, n)
  | s :: t =>
      if itimediff nxt (u32 (una + cw)) >=? 0 then (sq, sb, nxt, n)
      else
        let s' := mkSeg cv c_IKCP_CMD_PUSH (s_frg s) (s_wnd s) (s_ts s) nxt (s_una s)
                        (s_rto s) (s_xmit s) (s_resendts s) (s_fastack s) (s_acked s) (s_data s) in
        admit_segs t (sb ++ [s']) cv una (u32 (nxt + 1)) cw (n + 1)
  end.

Record fl := mkFl { f_st : stage; f_change : Z; f_lost : Z; f_fast : Z; f_early : Z;
                    f_next : Z; f_dead : bool }.

(* phase 5, one segment.  Returns the updated segment and accumulator. *)
Definition flush_seg (k : kcp) (h : seg) (resent : Z) (newsegs : Z) (now : Z) (s : seg) (a : fl)
  : res (seg * fl) :=
  if s_acked s =? 1 then Ok (s, a)
  else
    let '(needsend, rto, resendts, fastack, a1) :=
      if s_xmit s =? 0 then
        (true, rx_rto k, u32 (now + rx_rto k), s_fastack s, a)
      else if (s_fastack s >=? resent) && negb (s_fastack s =? 4294967295) then
        (true, rx_rto k, u32 (now + rx_rto k), 4294967295,
         mkFl (f_st a) (f_change a + 1) (f_lost a) (f_fast a + 1) (f_early a) (f_next a) (f_dead a))
      else if (s_fastack s >? 0) && negb (s_fastack s =? 4294967295) && (newsegs =? 0) then
        (true, rx_rto k, u32 (now + rx_rto k), 4294967295,
         mkFl (f_st a) (f_change a + 1) (f_lost a) (f_fast a) (f_early a + 1) (f_next a) (f_dead a))
      else if itimediff now (s_resendts s) >=? 0 then
        let rto := if nodelay k =? 0 then u32 (s_rto s + rx_rto k) else u32 (s_rto s + rx_rto k / 2) in
        (true, rto, u32 (now + rto), 0,
         mkFl (f_st a) (f_change a) (f_lost a + 1) (f_fast a) (f_early a) (f_next a) (f_dead a))
      else (false, s_rto s, s_resendts s, s_fastack s, a) in
    let finish (s' : seg) (a' : fl) : res (seg * fl) :=
      let d := itimediff (s_resendts s') now in
      let nx := if (d >? 0) && (d <? f_next a') then d else f_next a' in
      Ok (s', mkFl (f_st a') (f_change a') (f_lost a') (f_fast a') (f_early a') nx (f_dead a')) in
    if needsend then
      let s' := mkSeg (s_conv s) (s_cmd s) (s_frg s) (s_wnd h) now (s_sn s) (s_una h)
                      rto (u32 (s_xmit s + 1)) resendts fastack (s_acked s) (s_data s) in
      let st1 := make_space k (f_st a1) (c_IKCP_OVERHEAD + blen (s_data s)) in
      match stage_write k st1 s' with
      | Panic w => Panic w
      | Ok st2 =>
          finish s' (mkFl st2 (f_change a1) (f_lost a1) (f_fast a1) (f_early a1) (f_next a1)
                          ((s_xmit s' >=? dead_link k) || f_dead a1))
      end
    else
      finish (mkSeg (s_conv s) (s_cmd s) (s_frg s) (s_wnd s) (s_ts s) (s_sn s) (s_una s)
                    rto (s_xmit s) resendts fastack (s_acked s) (s_data s)) a1.

Fixpoint flush_segs (k : kcp) (h : seg) (resent newsegs now : Z) (l : list seg) (a : fl)
  : res (list seg * fl) :=
  match l with
  | [] => Ok ([], a)
  | s :: t =>
      match flush_seg k h resent newsegs now s a with
      | Panic w => Panic w
      | Ok (s', a') =>
          match flush_segs k h resent newsegs now t a' with
          | Panic w => Panic w
          | Ok (t', a'') => Ok (s' :: t', a'')
          end
      end
  end.

Definition FLUSH_ACKONLY := c_IKCP_FLUSH_ACKONLY.
Definition FLUSH_FULL := c_IKCP_FLUSH_FULL.

(* flush(flushType): (state, suggested interval, datagrams in emission order) *)
Definition flush (k : kcp) (ftype : Z) (now : Z) : res (kcp * Z * list bytes) :=
  let h0 := mkSeg (conv k) c_IKCP_CMD_ACK 0 (wnd_unused k) 0 0 (rcv_nxt k) 0 0 0 0 0 [] in
  let st0 := mkStage [] [] in
  (* phase 1 *)
  match (if (ftype =? FLUSH_ACKONLY) || (ftype =? FLUSH_FULL)
         then match flush_acks k h0 st0 (acklist k) with
              | Ok (h, st) => Ok (h, st, set_acklist k [])
              | Panic w => Panic w
              end
         else Ok (h0, st0, k)) with
  | Panic w => Panic w
  | Ok (h1, st1, k1) =>
  (* phase 2 *)
  let k2 :=
    if rmt_wnd k1 =? 0 then
      if probe_wait k1 =? 0 then set_probe k1 (probe k1) (u32 (now + c_IKCP_PROBE_INIT)) c_IKCP_PROBE_INIT
      else if itimediff now (ts_probe k1) >=? 0 then
        let pw := if probe_wait k1 <? c_IKCP_PROBE_INIT then c_IKCP_PROBE_INIT else probe_wait k1 in
        let pw := u32 (pw + pw / 2) in
        let pw := if pw >? c_IKCP_PROBE_LIMIT then c_IKCP_PROBE_LIMIT else pw in
        set_probe k1 (Z.lor (probe k1) c_IKCP_ASK_SEND) (u32 (now + pw)) pw
      else k1
    else set_probe k1 (probe k1) 0 0 in
  (* phase 3 *)
  let wask := negb (Z.land (probe k2) c_IKCP_ASK_SEND =? 0) in
  let wins := negb (Z.land (probe k2) c_IKCP_ASK_TELL =? 0) in
  let hdr c := mkSeg (s_conv h1) c (s_frg h1) (s_wnd h1) (s_ts h1) (s_sn h1) (s_una h1) 0 0 0 0 0 [] in
  match (if wask then stage_write k2 (make_space k2 st1 c_IKCP_OVERHEAD) (hdr c_IKCP_CMD_WASK) else Ok st1) with
  | Panic w => Panic w
  | Ok st2 =>
  match (if wins then stage_write k2 (make_space k2 st2 c_IKCP_OVERHEAD) (hdr c_IKCP_CMD_WINS) else Ok st2) with
  | Panic w => Panic w
  | Ok st3 =>
  let k3 := set_probe_flags k2 0 in
  (* phase 4 *)
  let cw0 := Z.min (snd_wnd k3) (rmt_wnd k3) in
  let cw := if nocwnd k3 =? 0 then Z.min (cwnd k3) cw0 else cw0 in
  let '(sq, sb, nxt, newsegs) :=
    if ftype =? FLUSH_FULL
    then admit_segs (snd_queue k3) (snd_buf k3) (conv k3) (snd_una k3) (snd_nxt k3) cw 0
    else (snd_queue k3, snd_buf k3, snd_nxt k3, 0) in
  let k4 := set_snd_nxt (set_queues k3 sq (rcv_queue k3) sb (rcv_buf k3)) nxt in
  let resent := if fastresend k4 <=? 0 then 4294967295 else u32 (fastresend k4) in
  (* phase 5 *)
  let a0 := mkFl st3 0 0 0 0 (interval k4) false in
  match (if ftype =? FLUSH_FULL
         then flush_segs k4 h1 resent newsegs now (snd_buf k4) a0
         else Ok (snd_buf k4, a0)) with
  | Panic w => Panic w
  | Ok (sb', a) =>
  let k5 := set_snd_buf k4 sb' in
  let k5 := if f_dead a then set_timer k5 4294967295 (ts_flush k5) (updated k5) else k5 in
  (* phase 6 *)
  let k6 :=
    if nocwnd k5 =? 0 then
      let k := k5 in
      let k := if f_change a >? 0 then
                 let inflight := u32 (snd_nxt k - snd_una k) in
                 let sst := Z.max (inflight / 2) c_IKCP_THRESH_MIN in
                 let cwn := u32 (sst + resent) in
                 set_cc k sst (rmt_wnd k) cwn (u32 (cwn * mss k))
               else k in
      let k := if f_lost a >? 0 then set_cc k (Z.max (cw / 2) c_IKCP_THRESH_MIN) (rmt_wnd k) 1 (mss k) else k in
      if cwnd k <? 1 then set_cc k (ssthresh k) (rmt_wnd k) 1 (mss k) else k
    else k5 in
  Ok (k6, f_next a, flush_buffer (f_st a))
  end end end end.

(* ---- Input ---- *)
Inductive loop_end := LDone | LErr (code : Z).

Record inp := mkInp { i_k : kcp; i_latest : Z; i_rtt : bool; i_flush : bool }.

(* one iteration of the segment loop of Input; data has >= 24 bytes *)
Definition input_seg (a : inp) (data : bytes) (regular : bool) : res (inp * bytes) + Z :=
  let k := i_k a in
  let cv := rd32 data in
  let cmd := nth 4 data 0 in
  let frg := nth 5 data 0 in
  let wnd := rd16 (skipn 6 data) in
  let ts := rd32 (skipn 8 data) in
  let sn := rd32 (skipn 12 data) in
  let una := rd32 (skipn 16 data) in
  let length := rd32 (skipn 20 data) in
  let data := skipn 24 data in
  if negb (cv =? conv k) then inr (-1)
  else if (blen data <? length) || (length >? c_mtuLimit) then inr (-2)
  else if negb ((cmd =? c_IKCP_CMD_PUSH) || (cmd =? c_IKCP_CMD_ACK) || (cmd =? c_IKCP_CMD_WASK) || (cmd =? c_IKCP_CMD_WINS))
  then inr (-3)
  else
    let k := if regular then set_rmt_wnd k wnd else k in
    let '(k, cnt) := parse_una k una in
    let fl1 := (cnt >? 0) || i_flush a in
    let k := shrink_buf k in
    let rest := drop length data in
    if cmd =? c_IKCP_CMD_ACK then
      let k := parse_ack k sn in
      let '(k, f) := parse_fastack k sn ts in
      let k := shrink_buf k in
      inl (Ok (mkInp k ts true (f || fl1), rest))
    else if cmd =? c_IKCP_CMD_PUSH then
      if itimediff sn (u32 (rcv_nxt k + rcv_wnd k)) <? 0 then
        let k := set_acklist k (acklist k ++ [(sn, ts)]) in
        if itimediff sn (rcv_nxt k) >=? 0 then
          match parse_data k (mkSeg cv cmd frg wnd ts sn una 0 0 0 0 0 (take length data)) with
          | Panic w => inl (Panic w)
          | Ok (k, _) => inl (Ok (mkInp k (i_latest a) (i_rtt a) fl1, rest))
          end
        else inl (Ok (mkInp k (i_latest a) (i_rtt a) fl1, rest))
      else inl (Ok (mkInp k (i_latest a) (i_rtt a) fl1, rest))
    else if cmd =? c_IKCP_CMD_WASK then
      inl (Ok (mkInp (set_probe_flags k (Z.lor (probe k) c_IKCP_ASK_TELL)) (i_latest a) (i_rtt a) fl1, rest))
    else inl (Ok (mkInp k (i_latest a) (i_rtt a) fl1, rest)).

Fixpoint input_loop (fuel : nat) (a : inp) (data : bytes) (regular : bool) : res (inp * loop_end) :=
  match fuel with
  | O => Ok (a, LDone)
  | S f =>
      if blen data <? c_IKCP_OVERHEAD then Ok (a, LDone)
      else
        match input_seg a data regular with
        | inr code => Ok (a, LErr code)
        | inl (Panic w) => Panic w
        | inl (Ok (a', rest)) => input_loop f a' rest regular
        end
  end.

(* the congestion-window update at the end of Input *)
Definition input_cwnd (k : kcp) (una0 : Z) : kcp :=
  if (nocwnd k =? 0) && (itimediff (snd_una k) una0 >? 0) && (cwnd k <? rmt_wnd k) then
    let m := mss k in
    let '(cw, inc) :=
      if cwnd k <? ssthresh k then (u32 (cwnd k + 1), u32 (incr k + m))
      else
        let inc := if incr k <? m then m else incr k in
        let inc := u32 (inc + (u32 (m * m) / inc + m / 16)) in
        if u32 ((cwnd k + 1) * m) <=? inc
        then ((if m >? 0 then u32 (inc + m - 1) / m else u32 (inc + m - 1)), inc)
        else (cwnd k, inc) in
    if cw >? rmt_wnd k then set_cc k (ssthresh k) (rmt_wnd k) (rmt_wnd k) (u32 (rmt_wnd k * m))
    else set_cc k (ssthresh k) (rmt_wnd k) cw inc
  else k.

(* Input up to (not including) the flush it may request *)
Inductive flush_req := FNone | FAck | FFull.

Definition input_pre (k : kcp) (data : bytes) (regular ack_nodelay : bool) (now : Z)
  : res (kcp * Z * flush_req) :=
  let una0 := snd_una k in
  if blen data <? c_IKCP_OVERHEAD then Ok (k, -1, FNone)
  else
    match input_loop (S (length data / 24)) (mkInp k 0 false false) data regular with
    | Panic w => Panic w
    | Ok (a, LErr code) => Ok (i_k a, code, FNone)
    | Ok (a, LDone) =>
        let k := i_k a in
        let k := if i_rtt a && regular && (itimediff now (i_latest a) >=? 0)
                 then update_ack k (itimediff now (i_latest a)) else k in
        let k := input_cwnd k una0 in
        if i_flush a then Ok (k, 0, FFull)
        else if Z.of_nat (length (acklist k)) >=? mtu k / c_IKCP_OVERHEAD then Ok (k, 0, FAck)
        else if ack_nodelay && (Z.of_nat (length (acklist k)) >? 0) then Ok (k, 0, FAck)
        else Ok (k, 0, FNone)
    end.

(* Input(data, pktType, ackNoDelay): (state, return code, datagrams) *)
Definition input (k : kcp) (data : bytes) (regular ack_nodelay : bool) (now : Z)
  : res (kcp * Z * list bytes) :=
  match input_pre k data regular ack_nodelay now with
  | Panic w => Panic w
  | Ok (k, code, FNone) => Ok (k, code, [])
  | Ok (k, code, fr) =>
      match flush k (match fr with FFull => FLUSH_FULL | _ => FLUSH_ACKONLY end) now with
      | Ok (k', _, o) => Ok (k', code, o)
      | Panic w => Panic w
      end
  end.

(* ---- Update / Check ---- *)
Definition update (k : kcp) (now : Z) : res (kcp * list bytes) :=
  let k := if updated k =? 0 then set_timer k (state k) now 1 else k in
  let slap := itimediff now (ts_flush k) in
  let '(k, slap) := if (slap >=? 10000) || (slap <? -10000) then (set_timer k (state k) now (updated k), 0) else (k, slap) in
  if slap >=? 0 then
    let tsf := u32 (ts_flush k + interval k) in
    let tsf := if itimediff now tsf >=? 0 then u32 (now + interval k) else tsf in
    match flush (set_timer k (state k) tsf (updated k)) FLUSH_FULL now with
    | Ok (k', _, o) => Ok (k', o) | Panic w => Panic w end
  else Ok (k, []).

Fixpoint check_walk (now : Z) (l : list seg) (tm : Z) : option Z :=
  match l with
  | [] => Some tm
  | s :: t =>
      let d := itimediff (s_resendts s) now in
      if d <=? 0 then None else check_walk now t (if d <? tm then d else tm)
  end.

Definition check (k : kcp) (now : Z) : Z :=
  if updated k =? 0 then now
  else
    let tsf := ts_flush k in
    let tsf := if (itimediff now tsf >=? 10000) || (itimediff now tsf <? -10000) then now else tsf in
    if itimediff now tsf >=? 0 then now
    else
      let tm_flush := itimediff tsf now in
      match check_walk now (snd_buf k) 2147483647 with
      | None => now
      | Some tm_packet =>
          let minimal := if tm_packet >=? tm_flush then u32 tm_flush else u32 tm_packet in
          let minimal := if minimal >=? interval k then interval k else minimal in
          u32 (now + minimal)
      end.

(* ---- configuration ---- *)
(* the largest payload a queued or unacknowledged segment holds *)
Definition max_queued (k : kcp) : Z :=
  fold_left (fun m s => Z.max m (blen (s_data s))) (snd_queue k ++ snd_buf k) 0.

Definition set_mtu (k : kcp) (m : Z) : kcp * Z :=
  if (m <=? c_IKCP_OVERHEAD) || (m >? c_mtuLimit) then (k, -1)
  else if max_queued k >? m - c_IKCP_OVERHEAD then (k, -1)
  else (set_config k m (m - c_IKCP_OVERHEAD) (snd_wnd k) (rcv_wnd k) (interval k) (nodelay k)
                   (fastresend k) (nocwnd k) (stream k) ((m + c_IKCP_OVERHEAD) * 3), 0).

Definition set_nodelay (k : kcp) (nd iv rs nc : Z) : kcp :=
  let '(ndv, minrto) :=
    if nd >=? 0 then (u32 nd, if negb (nd =? 0) then c_IKCP_RTO_NDL else c_IKCP_RTO_MIN)
    else (nodelay k, rx_minrto k) in
  let ivv := if iv >=? 0 then (if iv >? 5000 then 5000 else if iv <? 10 then 10 else iv) else interval k in
  let frv := if rs >=? 0 then i32 rs else fastresend k in
  let ncv := if nc >=? 0 then i32 nc else nocwnd k in
  set_rtt (set_config k (mtu k) (mss k) (snd_wnd k) (rcv_wnd k) ivv ndv frv ncv (stream k) (buflen k))
          (rx_rttvar k) (rx_srtt k) (rx_rto k) minrto.

Definition set_wndsize (k : kcp) (sw rw : Z) : kcp :=
  set_config k (mtu k) (mss k) (if sw >? 0 then u32 sw else snd_wnd k) (if rw >? 0 then u32 rw else rcv_wnd k)
             (interval k) (nodelay k) (fastresend k) (nocwnd k) (stream k) (buflen k).

Definition set_stream (k : kcp) (v : Z) : kcp :=
  set_config k (mtu k) (mss k) (snd_wnd k) (rcv_wnd k) (interval k) (nodelay k) (fastresend k) (nocwnd k) v (buflen k).

Definition waitsnd (k : kcp) : Z := qlen (snd_buf k) + qlen (snd_queue k).
