(* The receiver invariant of Net.v across every call: an endpoint that is only ever fed genuine
   datagrams (PUSH number u32(isn+i) carries src[i]) accepts src in order, parks only segments
   of src, and hands its reader exactly the messages of a prefix of src.
   `inv k'` after a call is taken from the one-step theorem InvAll.step_ok (`nr_step_inv`). *)
From Coq Require Import ZArith List Bool Lia.
From KV.Base Require Import Consts Word WordLemmas.
From KV.Kcp Require Import Kcp Step Net InvBase InvApi InvAll.
From KV.Kcp Require Export NetReceiverBase.
Import ListNotations.
Local Open Scope Z_scope.

Ltac Zify.zify_post_hook ::= Z.div_mod_to_equations.

(* ------------------------------------------------------------------ *)
(* one segment of a genuine datagram                                   *)
(* ------------------------------------------------------------------ *)
Lemma nr_input_seg src g a s rest regular :
  no_wrap src -> seg_wf s -> genuine_seg (rg_isn g) src s -> nr_rcvk src g (i_k a) ->
  match input_seg a (encode_seg s ++ rest) regular with
  | inl (Ok (a', rest')) => rest' = rest /\ nr_rcvk src g (i_k a')
  | _ => True
  end.
Proof.
  intros Hnw Hwf Hgen Hk.
  destruct (nr_decode_encode s rest Hwf) as (D0 & D4 & D5 & D6 & D8 & D12 & D16 & D20 & D24 & Dt & Dd).
  unfold input_seg. cbv zeta.
  rewrite D0, D4, D5, D6, D8, D12, D16, D20, Dt, Dd. clear D0 D4 D5 D6 D8 D12 D16 D20 D24 Dt Dd.
  set (k := i_k a) in *.
  destruct (negb (s_conv s =? conv k)); [exact I|].
  destruct (_ || _); [exact I|].
  destruct (negb _); [exact I|].
  set (k1 := if regular then set_rmt_wnd k (s_wnd s) else k).
  assert (R1 : nr_rcv k1 = nr_rcv k) by (unfold k1; destruct regular; reflexivity).
  clearbody k1.
  pose proof (nr_parse_una_frame k1 (s_una s)) as R2.
  destruct (parse_una k1 (s_una s)) as [k2 cnt]. cbn [fst] in R2.
  pose proof (nr_shrink_buf_frame k2) as R3.
  set (k3 := shrink_buf k2) in *. clearbody k3.
  assert (H3 : nr_rcvk src g k3).
  { apply nr_rcvk_frame with k; [congruence|exact Hk]. }
  clear R1 R2 R3 Hk.
  destruct (s_cmd s =? c_IKCP_CMD_ACK) eqn:Eack.
  { pose proof (nr_parse_ack_frame k3 (s_sn s)) as R4.
    set (k4 := parse_ack k3 (s_sn s)) in *. clearbody k4.
    pose proof (nr_parse_fastack_frame k4 (s_sn s) (s_ts s)) as R5.
    destruct (parse_fastack k4 (s_sn s) (s_ts s)) as [k5 f]. cbn [fst] in R5.
    pose proof (nr_shrink_buf_frame k5) as R6.
    cbn [i_k]. split; [reflexivity|].
    apply nr_rcvk_frame with k3; [congruence|exact H3]. }
  destruct (s_cmd s =? c_IKCP_CMD_PUSH) eqn:Epush.
  { apply Z.eqb_eq in Epush.
    destruct (itimediff (s_sn s) (u32 (rcv_nxt k3 + rcv_wnd k3)) <? 0);
      [|cbn [i_k]; split; [reflexivity|exact H3]].
    set (k4 := set_acklist k3 (acklist k3 ++ [(s_sn s, s_ts s)])).
    assert (H4 : nr_rcvk src g k4) by (apply nr_rcvk_frame with k3; [reflexivity|exact H3]).
    clearbody k4.
    destruct (itimediff (s_sn s) (rcv_nxt k4) >=? 0);
      [|cbn [i_k]; split; [reflexivity|exact H4]].
    match goal with |- context [parse_data k4 ?S] => set (sg := S) end.
    assert (Hp : nr_parked src (rg_isn g) sg).
    { destruct (Hgen Epush) as (i & Hi & Hsn & Hnth). exists i.
      split; [exact Hi|]. split; [exact Hsn|exact Hnth]. }
    destruct (parse_data k4 sg) as [[k5 f]|w] eqn:Epd; [|exact I].
    cbn [i_k]. split; [reflexivity|].
    exact (nr_parse_data _ _ _ _ _ _ Hnw H4 Hp Epd). }
  destruct (s_cmd s =? c_IKCP_CMD_WASK).
  { cbn [i_k]. split; [reflexivity|]. apply nr_rcvk_frame with k3; [reflexivity|exact H3]. }
  cbn [i_k]. split; [reflexivity|exact H3].
Qed.

(* ------------------------------------------------------------------ *)
(* the segment loop, any fuel                                          *)
(* ------------------------------------------------------------------ *)
Lemma nr_input_loop src g regular : no_wrap src -> forall fuel segs a a' e,
  Forall seg_wf segs -> Forall (genuine_seg (rg_isn g) src) segs ->
  nr_rcvk src g (i_k a) ->
  input_loop fuel a (concat (map encode_seg segs)) regular = Ok (a', e) ->
  nr_rcvk src g (i_k a').
Proof.
  intros Hnw. induction fuel as [|f IH]; intros segs a a' e Hwf Hgen Hk E; cbn [input_loop] in E.
  - inversion E; subst; exact Hk.
  - destruct segs as [|s t].
    + cbn [map concat] in E. change (blen [] <? c_IKCP_OVERHEAD) with true in E.
      inversion E; subst; exact Hk.
    + cbn [map concat] in E.
      destruct (blen (encode_seg s ++ concat (map encode_seg t)) <? c_IKCP_OVERHEAD);
        [inversion E; subst; exact Hk|].
      pose proof (nr_input_seg src g a s (concat (map encode_seg t)) regular Hnw
                    (Forall_inv Hwf) (Forall_inv Hgen) Hk) as Hs.
      destruct (input_seg a (encode_seg s ++ concat (map encode_seg t)) regular)
        as [[[a1 rest]|w]|code].
      * destruct Hs as [-> Hk1].
        exact (IH t a1 a' e (Forall_inv_tail Hwf) (Forall_inv_tail Hgen) Hk1 E).
      * discriminate.
      * inversion E; subst; exact Hk.
Qed.

(* ------------------------------------------------------------------ *)
(* Input                                                               *)
(* ------------------------------------------------------------------ *)
Lemma nr_input_pre src g k d regular nd now k' r fr :
  no_wrap src -> genuine_dgram (rg_isn g) src d -> nr_rcvk src g k ->
  input_pre k d regular nd now = Ok (k', r, fr) -> nr_rcvk src g k'.
Proof.
  intros Hnw (segs & -> & Hwf & Hgen) Hk. unfold input_pre. cbv zeta.
  destruct (blen _ <? c_IKCP_OVERHEAD); [intros E; inversion E; subst; exact Hk|].
  match goal with |- match input_loop ?f ?a ?dd regular with _ => _ end = _ -> _ =>
    destruct (input_loop f a dd regular) as [[a' e]|w] eqn:El; [|discriminate] end.
  pose proof (nr_input_loop src g regular Hnw _ segs (mkInp k 0 false false) a' e Hwf Hgen Hk El) as Ha.
  destruct e as [|code]; [|intros E; inversion E; subst; exact Ha].
  set (k1 := i_k a') in *.
  set (k2 := if i_rtt a' && regular && (itimediff now (i_latest a') >=? 0)
             then update_ack k1 (itimediff now (i_latest a')) else k1).
  assert (R2 : nr_rcv k2 = nr_rcv k1).
  { unfold k2. destruct (_ && _); [apply nr_update_ack_frame|reflexivity]. }
  clearbody k2.
  pose proof (nr_input_cwnd_frame k2 (snd_una k)) as R3.
  set (k3 := input_cwnd k2 (snd_una k)) in *. clearbody k3.
  assert (H3 : nr_rcvk src g k3) by (apply nr_rcvk_frame with k1; [congruence|exact Ha]).
  destruct (i_flush a'); [intros E; inversion E; subst; exact H3|].
  destruct (_ >=? _); [intros E; inversion E; subst; exact H3|].
  destruct (_ && _); intros E; inversion E; subst; exact H3.
Qed.

Lemma nr_input src g k d regular nd now k' r o :
  no_wrap src -> genuine_dgram (rg_isn g) src d -> nr_rcvk src g k ->
  input k d regular nd now = Ok (k', r, o) -> nr_rcvk src g k'.
Proof.
  intros Hnw Hd Hk. unfold input.
  destruct (input_pre k d regular nd now) as [[[k1 r1] fr]|w] eqn:Ep; [|discriminate].
  pose proof (nr_input_pre _ _ _ _ _ _ _ _ _ _ Hnw Hd Hk Ep) as H1.
  destruct fr.
  - intros E; inversion E; subst; exact H1.
  - destruct (flush k1 FLUSH_ACKONLY now) as [[[k2 nx] o2]|w] eqn:Ef; [|discriminate].
    intros E; inversion E; subst.
    apply nr_rcvk_frame with k1; [exact (nr_flush_frame _ _ _ _ _ _ Ef)|exact H1].
  - destruct (flush k1 FLUSH_FULL now) as [[[k2 nx] o2]|w] eqn:Ef; [|discriminate].
    intros E; inversion E; subst.
    apply nr_rcvk_frame with k1; [exact (nr_flush_frame _ _ _ _ _ _ Ef)|exact H1].
Qed.

(* ------------------------------------------------------------------ *)
(* the receive side across one step (no appeal to `inv`)               *)
(* ------------------------------------------------------------------ *)
Lemma nr_step src g k o k' x :
  nr_rcvk src g k -> src_wf src -> no_wrap src ->
  (forall d r n t, o = OInput d r n t -> genuine_dgram (rg_isn g) src d) ->
  step k o = Ok (k', x) -> nr_rcvk src (ghost_receiver g o x) k'.
Proof.
  intros Hk Hwf Hnw Hgen.
  destruct o as [b|n|d reg nd now|full now|now|now|m|nd iv rs nc]; cbn [step ghost_receiver].
  - destruct (send k b) as [[k1 r]|w] eqn:E; [|discriminate].
    intros H; inversion H; subst.
    apply nr_rcvk_frame with k; [exact (nr_send_frame _ _ _ _ E)|exact Hk].
  - destruct (recv k n) as [[k1 r] d] eqn:E.
    intros H; inversion H; subst. cbn [o_ret o_data].
    exact (nr_recv _ _ _ _ _ _ _ Hwf Hnw Hk E).
  - destruct (input k d reg nd now) as [[[k1 r] o]|w] eqn:E; [|discriminate].
    intros H; inversion H; subst.
    exact (nr_input _ _ _ _ _ _ _ _ _ _ Hnw (Hgen _ _ _ _ eq_refl) Hk E).
  - destruct (flush k (if full then FLUSH_FULL else FLUSH_ACKONLY) now) as [[[k1 nx] o]|w] eqn:E;
      [|discriminate].
    intros H; inversion H; subst.
    apply nr_rcvk_frame with k; [exact (nr_flush_frame _ _ _ _ _ _ E)|exact Hk].
  - destruct (update k now) as [[k1 o]|w] eqn:E; [|discriminate].
    intros H; inversion H; subst.
    apply nr_rcvk_frame with k; [exact (nr_update_frame _ _ _ _ E)|exact Hk].
  - intros H; inversion H; subst. exact Hk.
  - pose proof (nr_set_mtu_frame k m) as R. destruct (set_mtu k m) as [k1 r]. cbn [fst] in R.
    intros H; inversion H; subst. apply nr_rcvk_frame with k; [exact R|exact Hk].
  - intros H; inversion H; subst.
    apply nr_rcvk_frame with k; [apply nr_set_nodelay_frame|exact Hk].
Qed.

Lemma nr_ghost_isn g o x : rg_isn (ghost_receiver g o x) = rg_isn g.
Proof.
  destruct o; cbn [ghost_receiver]; try reflexivity.
  destruct (o_ret x >=? 0); reflexivity.
Qed.

(* ------------------------------------------------------------------ *)
(* the theorems                                                        *)
(* ------------------------------------------------------------------ *)
(* InvAll.step_ok: every call on a state satisfying inv returns a state satisfying inv *)
Lemma nr_step_inv :
  forall k o, inv k -> op_ok o -> forall k' x, step k o = Ok (k', x) -> inv k'.
Proof.
  intros k o Hi Ho k' x Hs. destruct (step_ok k o Hi Ho) as (k2 & x2 & E & Hi2 & _).
  rewrite E in Hs. inversion Hs; subst. exact Hi2.
Qed.

Theorem receiver_step : forall src g k o k' x,
  receiver_inv src g k -> src_wf src -> no_wrap src -> op_ok32 o ->
  (forall d r n t, o = OInput d r n t -> genuine_dgram (rg_isn g) src d) ->
  step k o = Ok (k', x) -> receiver_inv src (ghost_receiver g o x) k'.
Proof.
  intros src g k o k' x H Hwf Hnw Hop Hgen Hs.
  apply nr_receiver_inv_iff in H. destruct H as (Hinv & Hisn & Hk).
  apply nr_receiver_inv_iff.
  split; [exact (nr_step_inv k o Hinv (proj1 Hop) k' x Hs)|].
  split; [rewrite nr_ghost_isn; exact Hisn|].
  exact (nr_step _ _ _ _ _ _ Hk Hwf Hnw Hgen Hs).
Qed.

Theorem receiver_input_idempotent :
  forall src g k d regular nd now k' x,
    receiver_inv src g k -> src_wf src -> no_wrap src -> is_u32 now ->
    genuine_dgram (rg_isn g) src d ->
    step k (OInput d regular nd now) = Ok (k', x) ->
    receiver_inv src g k'.
Proof.
  intros src g k d regular nd now k' x H Hwf Hnw Hnow Hd Hs.
  change g with (ghost_receiver g (OInput d regular nd now) x).
  apply (receiver_step src g k (OInput d regular nd now) k' x H Hwf Hnw); [| |exact Hs].
  - split; [exact (nr_dgram_bytes _ _ _ Hd)|exact Hnow].
  - intros d0 r0 n0 t0 E. inversion E; subst. exact Hd.
Qed.

Theorem receiver_init : forall src k isn,
  inv k -> is_u32 isn -> rcv_queue k = [] -> rcv_buf k = [] -> rcv_nxt k = isn ->
  receiver_inv src (mkRG isn []) k.
Proof.
  intros src k isn Hinv Hisn Hq Hb Hn.
  apply nr_receiver_inv_iff. split; [exact Hinv|]. split; [exact Hisn|].
  unfold nr_rcvk, nr_rcv_l. cbn [rg_isn rg_delivered]. rewrite Hq, Hb, Hn. split; [|constructor].
  exists 0%nat, 0%nat. split; [lia|]. split.
  - cbn [Z.of_nat]. rewrite Z.add_0_r. symmetry. apply u32_id. exact Hisn.
  - split; [reflexivity|]. split; [reflexivity|exact I].
Qed.

Print Assumptions receiver_step.
Print Assumptions receiver_input_idempotent.
Print Assumptions receiver_init.
Print Assumptions messages_prefix.
Print Assumptions messages_app_prefix.
Print Assumptions stream_bytes_firstn_prefix.
Print Assumptions concat_messages_boundary.
