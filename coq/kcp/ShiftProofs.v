(* C12: the theorems used by C12.v. *)
From Coq Require Import ZArith List Bool Lia.
From KV.Base Require Import Consts Word WordLemmas.
From KV.Kcp Require Import Kcp Step Net InvBase Shift ShiftBase ShiftApi ShiftFlush ShiftInput ShiftWf.
Import ListNotations.
Local Open Scope Z_scope.

Ltac Zify.zify_post_hook ::= Z.div_mod_to_equations.

(* ------------------------------------------------------------------ *)
(* Update                                                              *)
(* ------------------------------------------------------------------ *)
Lemma shf_set_timer_upd p k1 k2 t1 t2 :
  shf_R p k1 k2 -> updated k1 <> 0 -> t2 = sh (co p) t1 ->
  shf_R p (set_timer k1 (state k1) t1 (updated k1)) (set_timer k2 (state k2) t2 (updated k2)).
Proof.
  intros H Hu Ht. pose proof (G_cfg _ _ _ H) as Hc. shf_dcfg Hc. rewrite <- Cstate, <- Cupd.
  apply shf_R_set_timer; [exact H|intros _; exact Ht|intros F; contradiction].
Qed.

Lemma shf_update_sim p k1 k2 now k1' o1 :
  shf_R p k1 k2 -> is_u32 now -> update k1 now = Ok (k1', o1) ->
  exists k2' o2, update k2 (sh (co p) now) = Ok (k2', o2) /\ shf_R p k1' k2' /\ Forall2 (shf_dg p) o1 o2.
Proof.
  intros H Hnow. unfold update. cbv zeta.
  assert (Ha : shf_R p (if updated k1 =? 0 then set_timer k1 (state k1) now 1 else k1)
                       (if updated k2 =? 0 then set_timer k2 (state k2) (sh (co p) now) 1 else k2) /\
               updated (if updated k1 =? 0 then set_timer k1 (state k1) now 1 else k1) <> 0).
  { pose proof (G_cfg _ _ _ H) as Hc. shf_dcfg Hc. rewrite <- Cstate, <- Cupd.
    destruct (updated k1 =? 0) eqn:Eu.
    - split; [|ksimpl; discriminate].
      apply shf_R_set_timer; [exact H|intros _; reflexivity|intros F; discriminate].
    - split; [exact H|apply Z.eqb_neq; exact Eu]. }
  set (ka1 := if updated k1 =? 0 then set_timer k1 (state k1) now 1 else k1) in *.
  set (ka2 := if updated k2 =? 0 then set_timer k2 (state k2) (sh (co p) now) 1 else k2) in *.
  clearbody ka1 ka2. destruct Ha as [Ha Hua].
  rewrite (G_tsflush _ _ _ Ha Hua), itimediff_sh.
  assert (Hb : exists kb1 kb2 slap,
             (if (itimediff now (ts_flush ka1) >=? 10000) || (itimediff now (ts_flush ka1) <? -10000)
              then (set_timer ka1 (state ka1) now (updated ka1), 0) else (ka1, itimediff now (ts_flush ka1))) = (kb1, slap) /\
             (if (itimediff now (ts_flush ka1) >=? 10000) || (itimediff now (ts_flush ka1) <? -10000)
              then (set_timer ka2 (state ka2) (sh (co p) now) (updated ka2), 0) else (ka2, itimediff now (ts_flush ka1))) = (kb2, slap) /\
             shf_R p kb1 kb2 /\ updated kb1 <> 0).
  { destruct ((itimediff now (ts_flush ka1) >=? 10000) || (itimediff now (ts_flush ka1) <? -10000)).
    - do 3 eexists. split; [reflexivity|]. split; [reflexivity|].
      split; [apply shf_set_timer_upd; [exact Ha|exact Hua|reflexivity]|ksimpl; exact Hua].
    - do 3 eexists. split; [reflexivity|]. split; [reflexivity|]. split; assumption. }
  destruct Hb as (kb1 & kb2 & slap & Eb1 & Eb2 & Hb & Hub). rewrite Eb1, Eb2.
  destruct (slap >=? 0); [|intros E; inversion E; subst; do 2 eexists; split; [reflexivity|split; [exact Hb|constructor]]].
  pose proof (G_cfg _ _ _ Hb) as Hc. shf_dcfg Hc.
  rewrite (G_tsflush _ _ _ Hb Hub), <- Civ, shf_sh_add, itimediff_sh.
  assert (Hc' : shf_R p
    (set_timer kb1 (state kb1)
       (if itimediff now (u32 (ts_flush kb1 + interval kb1)) >=? 0 then u32 (now + interval kb1)
        else u32 (ts_flush kb1 + interval kb1)) (updated kb1))
    (set_timer kb2 (state kb2)
       (if itimediff now (u32 (ts_flush kb1 + interval kb1)) >=? 0 then u32 (sh (co p) now + interval kb1)
        else sh (co p) (u32 (ts_flush kb1 + interval kb1))) (updated kb2))).
  { apply shf_set_timer_upd; [exact Hb|exact Hub|].
    destruct (itimediff now (u32 (ts_flush kb1 + interval kb1)) >=? 0); [apply shf_sh_add|reflexivity]. }
  match type of Hc' with shf_R p ?x ?y => set (kc1 := x) in *; set (kc2 := y) in * end.
  clearbody kc1 kc2.
  destruct (flush kc1 FLUSH_FULL now) as [[[kd1 nx] ob]|w] eqn:Ef; [|discriminate].
  destruct (shf_flush_sim p kc1 kc2 _ now kd1 nx ob Hc' Hnow Ef) as (kd2 & o2 & Ef2 & Hd & Ho).
  rewrite Ef2. intros E; inversion E; subst. do 2 eexists. split; [reflexivity|]. split; assumption.
Qed.

(* ------------------------------------------------------------------ *)
(* one step                                                            *)
(* ------------------------------------------------------------------ *)
Lemma shf_step_sim p k1 k2 o1 o2 k1' x1 :
  shf_R p k1 k2 -> R_op p o1 o2 -> op_ok o1 -> step k1 o1 = Ok (k1', x1) ->
  exists k2' x2, step k2 o2 = Ok (k2', x2) /\ shf_R p k1' k2' /\ R_result p o1 x1 x2.
Proof.
  intros H Hop Hok.
  destruct Hop as [b|n|d1 d2 reg nd now Hd Hnow|f now Hnow|now Hnow|now Hnow|m|a b c d]; cbn [step op_ok] in *.
  - destruct (send k1 b) as [[ka1 r]|w] eqn:E; [|discriminate].
    destruct (shf_send p k1 k2 b ka1 r H Hok E) as (ka2 & E2 & Ha). rewrite E2.
    intros X; inversion X; subst. do 2 eexists. split; [reflexivity|]. split; [exact Ha|].
    unfold R_result. cbn [o_ret o_data o_dgrams]. split; [reflexivity|]. split; [reflexivity|constructor].
  - destruct (recv k1 n) as [[ka1 r] d] eqn:E.
    destruct (shf_recv p k1 k2 n ka1 r d H E) as (ka2 & E2 & Ha). rewrite E2.
    intros X; inversion X; subst. do 2 eexists. split; [reflexivity|]. split; [exact Ha|].
    unfold R_result. cbn [o_ret o_data o_dgrams]. split; [reflexivity|]. split; [reflexivity|constructor].
  - destruct (input k1 d1 reg nd now) as [[[ka1 r] o]|w] eqn:E; [|discriminate].
    destruct (shf_input_sim p k1 k2 d1 d2 reg nd now ka1 r o H Hd Hnow E) as (ka2 & o2 & E2 & Ha & Ho). rewrite E2.
    intros X; inversion X; subst. do 2 eexists. split; [reflexivity|]. split; [exact Ha|].
    unfold R_result. cbn [o_ret o_data o_dgrams]. split; [reflexivity|]. split; [reflexivity|exact Ho].
  - destruct (flush k1 (if f then FLUSH_FULL else FLUSH_ACKONLY) now) as [[[ka1 nx] o]|w] eqn:E; [|discriminate].
    destruct (shf_flush_sim p k1 k2 _ now ka1 nx o H Hnow E) as (ka2 & o2 & E2 & Ha & Ho). rewrite E2.
    intros X; inversion X; subst. do 2 eexists. split; [reflexivity|]. split; [exact Ha|].
    unfold R_result. cbn [o_ret o_data o_dgrams]. split; [reflexivity|]. split; [reflexivity|exact Ho].
  - destruct (update k1 now) as [[ka1 o]|w] eqn:E; [|discriminate].
    destruct (shf_update_sim p k1 k2 now ka1 o H Hnow E) as (ka2 & o2 & E2 & Ha & Ho). rewrite E2.
    intros X; inversion X; subst. do 2 eexists. split; [reflexivity|]. split; [exact Ha|].
    unfold R_result. cbn [o_ret o_data o_dgrams]. split; [reflexivity|]. split; [reflexivity|exact Ho].
  - intros X; inversion X; subst. do 2 eexists. split; [reflexivity|]. split; [exact H|].
    unfold R_result. cbn [o_ret o_data o_dgrams]. split; [apply shf_check; exact H|]. split; [reflexivity|constructor].
  - destruct (set_mtu k1 m) as [ka1 r] eqn:E.
    destruct (shf_set_mtu p k1 k2 m ka1 r H E) as (ka2 & E2 & Ha). rewrite E2.
    intros X; inversion X; subst. do 2 eexists. split; [reflexivity|]. split; [exact Ha|].
    unfold R_result. cbn [o_ret o_data o_dgrams]. split; [reflexivity|]. split; [reflexivity|constructor].
  - intros X; inversion X; subst. do 2 eexists. split; [reflexivity|]. split; [apply shf_set_nodelay; exact H|].
    unfold R_result. cbn [o_ret o_data o_dgrams]. split; [reflexivity|]. split; [reflexivity|constructor].
Qed.

Theorem shift_step :
  forall p k1 k2 o1 o2 k1' x1,
    is_u32 (ko p) -> is_u32 (kp p) -> is_u32 (co p) -> is_u32 (cp p) ->
    inv k1 -> shf_wf k1 -> R p k1 k2 -> R_op p o1 o2 -> op_ok o1 -> step k1 o1 = Ok (k1', x1) ->
    exists k2' x2, step k2 o2 = Ok (k2', x2) /\ R p k1' k2' /\ R_result p o1 x1 x2.
Proof.
  intros p k1 k2 o1 o2 k1' x1 _ _ _ _ Hi Hw HR Hop Hok Hs.
  destruct (shf_step_sim p k1 k2 o1 o2 k1' x1 (shf_R_of_R p k1 k2 Hi Hw HR) Hop Hok Hs) as (k2' & x2 & E & H' & Hr).
  exists k2', x2. split; [exact E|]. split; [apply shf_R_to_R; exact H'|exact Hr].
Qed.

(* ------------------------------------------------------------------ *)
(* histories                                                           *)
(* ------------------------------------------------------------------ *)
Lemma shf_history p : forall ops1 ops2, Forall2 (R_op p) ops1 ops2 -> Forall op_ok ops1 ->
  forall k1 k2 k1' outs1, shf_R p k1 k2 -> run k1 ops1 = Some (k1', outs1) ->
  exists k2' outs2, run k2 ops2 = Some (k2', outs2) /\ shf_R p k1' k2' /\
    map o_data outs1 = map o_data outs2 /\
    Forall2 (fun x1 x2 => Forall2 (R_dgram (R_out_seg p)) (o_dgrams x1) (o_dgrams x2)) outs1 outs2.
Proof.
  induction 1 as [|o1 o2 t1 t2 Ho Ht IH]; intros Hok k1 k2 k1' outs1 H E.
  - cbn [run] in *. inversion E; subst. do 2 eexists. split; [reflexivity|]. split; [exact H|].
    split; [reflexivity|constructor].
  - inversion Hok as [|x y Hok1 Hokt]; subst x y. cbn [run] in *.
    destruct (step k1 o1) as [[ka1 x1]|w] eqn:Es; [|discriminate].
    destruct (shf_step_sim p k1 k2 o1 o2 ka1 x1 H Ho Hok1 Es) as (ka2 & x2 & Es2 & Ha & (Hr1 & Hr2 & Hr3)).
    rewrite Es2.
    destruct (run ka1 t1) as [[kb1 xs1]|] eqn:Er; [|discriminate].
    destruct (IH Hokt ka1 ka2 kb1 xs1 Ha Er) as (kb2 & xs2 & Er2 & Hb & Hm & Hf).
    rewrite Er2. inversion E; subst. do 2 eexists. split; [reflexivity|]. split; [exact Hb|].
    split; [cbn [map]; rewrite Hr2, Hm; reflexivity|constructor; assumption].
Qed.

Theorem shift_history :
  forall p ops1 ops2 k1 k2 k1' outs1,
    is_u32 (ko p) -> is_u32 (kp p) -> is_u32 (co p) -> is_u32 (cp p) ->
    inv k1 -> shf_wf k1 -> R p k1 k2 -> Forall2 (R_op p) ops1 ops2 -> Forall op_ok ops1 ->
    run k1 ops1 = Some (k1', outs1) ->
    exists k2' outs2, run k2 ops2 = Some (k2', outs2) /\ R p k1' k2' /\
      map o_data outs1 = map o_data outs2 /\
      Forall2 (fun x1 x2 => Forall2 (R_dgram (R_out_seg p)) (o_dgrams x1) (o_dgrams x2)) outs1 outs2.
Proof.
  intros p ops1 ops2 k1 k2 k1' outs1 _ _ _ _ Hi Hw HR Hops Hok Hrun.
  destruct (shf_history p ops1 ops2 Hops Hok k1 k2 k1' outs1 (shf_R_of_R p k1 k2 Hi Hw HR) Hrun)
    as (k2' & outs2 & E & H' & Hm & Hf).
  exists k2', outs2. split; [exact E|]. split; [apply shf_R_to_R; exact H'|]. split; assumption.
Qed.

(* ------------------------------------------------------------------ *)
(* the small statements                                                *)
(* ------------------------------------------------------------------ *)
Theorem out_seg_is_in_seg :
  forall p s1 s2, R_out_seg p s1 s2 -> R_in_seg (mkShp (kp p) (ko p) (cp p) (co p)) s1 s2.
Proof. intros p s1 s2 H. exact H. Qed.

Theorem shift_init : forall p cv, R p (kcp_new cv) (shifted_init p (kcp_new cv)).
Proof.
  intros p cv. unfold shifted_init, kcp_new. constructor; ksimpl.
  - repeat split.
  - reflexivity.
  - reflexivity.
  - reflexivity.
  - intros F. exfalso. apply F. reflexivity.
  - intros F. exfalso. apply F. reflexivity.
  - intros _. reflexivity.
  - constructor.
  - constructor.
  - constructor.
  - constructor.
  - constructor.
Qed.

Theorem shift_example :
  let p := mkShp 4294967290 2147483640 4294967000 17 in
  R p (kcp_new 7) (shifted_init p (kcp_new 7)) /\ is_u32 (ko p) /\ is_u32 (co p).
Proof.
  intros p. split; [apply shift_init|]. subst p. unfold is_u32, W32. cbn [ko co]. lia.
Qed.

(* ------------------------------------------------------------------ *)
(* the side condition is an invariant                                  *)
(* ------------------------------------------------------------------ *)
Theorem shift_step_wf :
  forall k o k' x, inv k -> shf_wf k -> op_ok32 o -> step k o = Ok (k', x) -> shf_wf k'.
Proof.
  intros k o k' x _ Hw [Hok _] Hs. exact (shf_wf_step k o k' x Hw Hok Hs).
Qed.
