(* C18 - RTO stays within its bounds (the estimator half; the clean-path half is in C18b). *)
From Coq Require Import ZArith List Bool.
From KV.Base Require Import Consts Word.
From KV.Kcp Require Import Kcp Step InvAll.
Import ListNotations.
Local Open Scope Z_scope.

(* NoDelay may be called at any time as long as its mode argument is negative ("leave the mode
   unchanged": interval, fast-resend threshold and congestion-control flag may change) *)
Definition no_nodelay_switch (o : op) : Prop := match o with ONoDelay nd _ _ _ => nd < 0 | _ => True end.

(* For every sequence of calls and inputs - including forged acknowledgement timestamps and
   arbitrary clock values - the retransmission timeout stays between the configured minimum
   (30 ms in no-delay mode, 100 ms otherwise) and 60 s, as long as the no-delay MODE is not
   re-configured mid-connection (NoDelay calls that leave the mode alone - a negative first
   argument - are allowed anywhere; a mode switch leaves rx_rto at its old value until the next
   RTT sample: DESIGN boundary B4, c18_nodelay_minrto). *)
Theorem c18_rto_bounds :
  forall ops k k' outs, inv k -> rto_inv k -> Forall op_ok ops -> Forall no_nodelay_switch ops ->
    run k ops = Some (k', outs) ->
    (rx_minrto k' = 30 \/ rx_minrto k' = 100) /\ rx_minrto k' <= rx_rto k' <= 60000.
Proof. exact run_rto_bounds. Qed.
Print Assumptions c18_rto_bounds.

(* the upper bound holds unconditionally *)
Theorem c18_rto_max : forall k, inv k -> rx_rto k <= 60000.
Proof. exact inv_rto_max. Qed.
Print Assumptions c18_rto_max.

(* NoDelay itself: sets the minimum to 30 / 100 and leaves rx_rto alone *)
Theorem c18_nodelay_minrto :
  forall k nd iv rs nc, nd >= 0 ->
    rx_minrto (set_nodelay k nd iv rs nc) = (if nd =? 0 then 100 else 30) /\
    rx_rto (set_nodelay k nd iv rs nc) = rx_rto k.
Proof. exact nodelay_minrto. Qed.
Print Assumptions c18_nodelay_minrto.

(* one RTT sample: whatever the sample, the new RTO is clamped *)
Theorem c18_update_ack_clamped :
  forall k rtt, rx_minrto k <= c_IKCP_RTO_MAX ->
    rx_minrto k <= rx_rto (update_ack k rtt) <= c_IKCP_RTO_MAX.
Proof. exact update_ack_clamped. Qed.
Print Assumptions c18_update_ack_clamped.

Example c18_example : inv (kcp_new 7) /\ rto_inv (kcp_new 7).
Proof. exact new_rto_example. Qed.
