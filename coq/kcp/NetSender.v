(* The sender half of C01: whatever is called on an endpoint, with whatever arguments (forged
   acknowledgements included), the ghost list `numbered` only grows at its end, snd_buf stays
   its tail (acknowledged segments are husks), the accepted bytes / messages are exactly what
   is numbered or queued, and every datagram the call emits is genuine: each PUSH segment
   carries, under number isn+i, exactly numbered[i] - retransmissions included.
   Helpers: NetSenderBase.v (prefix ns_). *)
From Coq Require Import ZArith List Bool Lia.
From KV.Base Require Import Consts Word WordLemmas.
From KV.Kcp Require Import Kcp Step Net InvBase InvApi InvInputBase InvInput InvFlush NetSenderBase.
Import ListNotations.
Local Open Scope Z_scope.

(* what sender_step promises about one call *)
Definition ns_step_post (g : sender_ghost) (k : kcp) (g' : sender_ghost) (k' : kcp) (x : out) : Prop :=
  sender_inv g' k' /\ (exists ext, sg_numbered g' = sg_numbered g ++ ext) /\ sg_isn g' = sg_isn g /\
  Forall (genuine_dgram (sg_isn g) (sg_numbered g')) (o_dgrams x) /\ stream k' = stream k.

(* calls that neither flush nor touch snd_buf / snd_una / acklist *)
Lemma ns_step_quiet g k k' A' r d :
  sender_inv g k -> inv k' ->
  snd_buf k' = snd_buf k -> snd_una k' = snd_una k -> conv k' = conv k -> stream k' = stream k ->
  acklist k' = acklist k ->
  ns_src_ok (stream k) (sg_numbered g) (snd_queue k') A' ->
  ns_step_post g k (mkSG (sg_isn g) (sg_numbered g ++ newly_numbered k k') A') k' (mkOut r d []).
Proof.
  intros Hsi Hinv' Eb Eu Ec Es Ea Hsrc. unfold ns_step_post. cbn [sg_isn sg_numbered o_dgrams].
  split; [exact (ns_quiet g k k' A' Hsi Hinv' Eb Eu Ec Es Ea Hsrc)|].
  split; [eexists; reflexivity|]. split; [reflexivity|]. split; [constructor|exact Es].
Qed.

Lemma ns_step_sf g k k' r d :
  sender_inv g k -> inv k' -> ns_sf k k' ->
  ns_step_post g k (mkSG (sg_isn g) (sg_numbered g ++ newly_numbered k k') (sg_accepted g)) k' (mkOut r d []).
Proof.
  intros Hsi Hinv' (Eq & Eb & Eu & _ & Ec & Es & Ea).
  apply ns_step_quiet; try assumption. rewrite Eq. apply ns_src_ok_of. exact Hsi.
Qed.

(* a flush from a state k1 that differs from k by dropped / husked heads (j of them) *)
Lemma ns_step_flush g k k1 j ft now k' nx o r d :
  inv k -> sender_inv g k1 -> is_u32 now ->
  (j <= length (snd_buf k))%nat -> snd_una k1 = u32 (snd_una k + Z.of_nat j) ->
  length (snd_buf k1) = (length (snd_buf k) - j)%nat -> stream k1 = stream k ->
  flush k1 ft now = Ok (k', nx, o) ->
  ns_step_post g k (mkSG (sg_isn g) (sg_numbered g ++ newly_numbered k k') (sg_accepted g)) k' (mkOut r d o).
Proof.
  intros Hinv Hsi1 Hnow Hj Hu Hl Hs Hfl.
  destruct (flush_ok k1 ft now (SI_inv _ _ Hsi1)) as (k2 & nx2 & o2 & Hfl2 & Hinv' & _).
  rewrite Hfl in Hfl2. inversion Hfl2; subst k2 nx2 o2. clear Hfl2.
  destruct (ns_flush_sender g k1 ft now k' nx o _ Hsi1 Hnow Hfl Hinv' eq_refl) as (Hsi' & Hgen & Hu' & Hs').
  assert (En : newly_numbered k k' = map pay (skipn (length (snd_buf k1)) (snd_buf k'))).
  { rewrite (ns_newly_shift k k' j Hinv Hj); [rewrite Hl; reflexivity|]. rewrite Hu'. exact Hu. }
  unfold ns_step_post. cbn [sg_isn sg_numbered o_dgrams]. rewrite En.
  split; [exact Hsi'|]. split; [eexists; reflexivity|]. split; [reflexivity|].
  split; [exact Hgen|]. rewrite Hs'. exact Hs.
Qed.

Lemma ns_step_flush0 g k ft now k' nx o r d :
  sender_inv g k -> is_u32 now -> flush k ft now = Ok (k', nx, o) ->
  ns_step_post g k (mkSG (sg_isn g) (sg_numbered g ++ newly_numbered k k') (sg_accepted g)) k' (mkOut r d o).
Proof.
  intros Hsi Hnow Hfl. pose proof (SI_inv _ _ Hsi) as Hinv.
  apply (ns_step_flush g k k 0 ft now k' nx o r d); try assumption.
  - lia.
  - cbn [Z.of_nat]. rewrite Z.add_0_r, u32_id by exact (I_una_u32 _ Hinv). reflexivity.
  - lia.
  - reflexivity.
Qed.

Theorem sender_step : forall g k o k' x, sender_inv g k -> op_ok32 o -> step k o = Ok (k', x) ->
  let g' := ghost_sender g k o k' x in
  sender_inv g' k' /\ (exists ext, sg_numbered g' = sg_numbered g ++ ext) /\ sg_isn g' = sg_isn g /\
  Forall (genuine_dgram (sg_isn g) (sg_numbered g')) (o_dgrams x) /\ stream k' = stream k.
Proof.
  intros g k o k' x Hsi [Hop Hclk] Hstep. cbv zeta.
  change (ns_step_post g k (ghost_sender g k o k' x) k' x).
  pose proof (SI_inv _ _ Hsi) as Hinv. unfold ghost_sender. cbv zeta.
  destruct o as [b|n|d reg nd now|full now|now|now|m|nd iv rs nc]; cbn [step op_ok] in *.
  - (* Send *)
    destruct (send k b) as [[k1 r]|w] eqn:Hs; [|discriminate]. inversion Hstep; subst k' x. clear Hstep.
    cbn [o_ret].
    destruct (send_ok k b Hinv Hop) as (k2 & r2 & Hs2 & Hinv' & _).
    rewrite Hs in Hs2. inversion Hs2; subst k2 r2. clear Hs2.
    destruct (ns_send_ok k b k1 r _ _ Hinv Hop (ns_src_ok_of g k Hsi) Hs) as (q' & Ek & Hcase).
    subst k1.
    assert (Hsrc : ns_src_ok (stream k) (sg_numbered g) q' (if r =? 0 then sg_accepted g ++ [b] else sg_accepted g)).
    { destruct Hcase as [[Hr H]|[Hr H]].
      - subst r. exact H.
      - destruct (r =? 0) eqn:E; [apply Z.eqb_eq in E; contradiction|exact H]. }
    apply ns_step_quiet; try assumption; reflexivity.
  - (* Recv *)
    pose proof (recv_ok k n Hinv) as Hr. pose proof (ns_sf_recv k n) as Hsf.
    destruct (recv k n) as [[k1 r] d]. cbn [fst] in Hsf. destruct Hr as (Hinv' & _).
    inversion Hstep; subst k' x. clear Hstep.
    apply ns_step_sf; assumption.
  - (* Input *)
    unfold input in Hstep.
    destruct (input_pre_ok k d reg nd now Hinv Hop) as (k1 & r & fr & Hpre & Hinv1 & _).
    rewrite Hpre in Hstep.
    pose proof (ns_input_pre_pre k d reg nd now k1 r fr Hop Hpre) as Hp.
    destruct (ns_pre_sender g k k1 Hsi Hp Hinv1) as (Hsi1 & Hs1 & j & Hj & Hu & Hl).
    destruct fr.
    + inversion Hstep; subst k' x. clear Hstep.
      unfold ns_step_post. cbn [sg_isn sg_numbered o_dgrams].
      assert (En : newly_numbered k k1 = []).
      { rewrite (ns_newly_shift k k1 j Hinv Hj Hu). rewrite <- Hl, skipn_all. reflexivity. }
      rewrite En, app_nil_r.
      split; [destruct g; exact Hsi1|]. split; [exists []; rewrite app_nil_r; reflexivity|].
      split; [reflexivity|]. split; [constructor|exact Hs1].
    + destruct (flush k1 FLUSH_ACKONLY now) as [[[k2 nx] o]|w] eqn:Hfl; [|discriminate].
      inversion Hstep; subst k' x. clear Hstep.
      exact (ns_step_flush g k k1 j _ now k2 nx o r [] Hinv Hsi1 Hclk Hj Hu Hl Hs1 Hfl).
    + destruct (flush k1 FLUSH_FULL now) as [[[k2 nx] o]|w] eqn:Hfl; [|discriminate].
      inversion Hstep; subst k' x. clear Hstep.
      exact (ns_step_flush g k k1 j _ now k2 nx o r [] Hinv Hsi1 Hclk Hj Hu Hl Hs1 Hfl).
  - (* Flush *)
    destruct (flush k (if full then FLUSH_FULL else FLUSH_ACKONLY) now) as [[[k2 nx] o]|w] eqn:Hfl; [|discriminate].
    inversion Hstep; subst k' x. clear Hstep.
    exact (ns_step_flush0 g k _ now k2 nx o nx [] Hsi Hclk Hfl).
  - (* Update *)
    unfold update in Hstep.
    set (k1 := if updated k =? 0 then set_timer k (state k) now 1 else k) in *.
    assert (H1 : sender_inv g k1 /\ forall kk, newly_numbered k1 kk = newly_numbered k kk).
    { unfold k1. destruct (updated k =? 0); [|split; [exact Hsi|reflexivity]].
      split; [apply ns_sender_inv_timer; exact Hsi|reflexivity]. }
    destruct H1 as [Hsi1 Hn1].
    assert (Hst1 : stream k1 = stream k) by (unfold k1; destruct (updated k =? 0); reflexivity).
    set (p := if (itimediff now (ts_flush k1) >=? 10000) || (itimediff now (ts_flush k1) <? -10000)
              then (set_timer k1 (state k1) now (updated k1), 0) else (k1, itimediff now (ts_flush k1))) in *.
    assert (H2 : sender_inv g (fst p) /\ (forall kk, newly_numbered (fst p) kk = newly_numbered k kk) /\
                 stream (fst p) = stream k).
    { unfold p. destruct ((itimediff now (ts_flush k1) >=? 10000) || (itimediff now (ts_flush k1) <? -10000)); cbn [fst].
      - split; [apply ns_sender_inv_timer; exact Hsi1|]. split; [exact Hn1|exact Hst1].
      - split; [exact Hsi1|]. split; [exact Hn1|exact Hst1]. }
    destruct p as [k2 slap]. cbn [fst] in H2. destruct H2 as (Hsi2 & Hn2 & Hst2).
    destruct (slap >=? 0).
    + match type of Hstep with context [flush ?kk FLUSH_FULL now] => set (k3 := kk) in * end.
      assert (Hsi3 : sender_inv g k3) by (apply ns_sender_inv_timer; exact Hsi2).
      destruct (flush k3 FLUSH_FULL now) as [[[k4 nx] o]|w] eqn:Hfl; [|discriminate].
      inversion Hstep; subst k' x. clear Hstep.
      pose proof (ns_step_flush0 g k3 _ now k4 nx o 0 [] Hsi3 Hclk Hfl) as H.
      change (newly_numbered k3 k4) with (newly_numbered k2 k4) in H. rewrite Hn2 in H.
      unfold ns_step_post in *. change (stream k3) with (stream k2) in H. rewrite Hst2 in H. exact H.
    + inversion Hstep; subst k' x. clear Hstep.
      pose proof (SI_inv _ _ Hsi2) as Hinv2.
      unfold ns_step_post. cbn [sg_isn sg_numbered o_dgrams].
      rewrite <- Hn2, (ns_newly_nil k2 k2 Hinv2 eq_refl eq_refl), app_nil_r.
      split; [destruct g; exact Hsi2|]. split; [exists []; rewrite app_nil_r; reflexivity|].
      split; [reflexivity|]. split; [constructor|exact Hst2].
  - (* Check *)
    inversion Hstep; subst k' x. clear Hstep. apply ns_step_sf; [exact Hsi|exact Hinv|apply ns_sf_refl].
  - (* SetMtu *)
    pose proof (setmtu_spec k m Hinv) as Hspec. pose proof (ns_sf_set_mtu k m) as Hsf.
    destruct (set_mtu k m) as [k1 r]. cbn [fst] in Hsf. inversion Hstep; subst k' x. clear Hstep.
    apply ns_step_sf; [exact Hsi| |exact Hsf].
    destruct Hspec as [(_ & _ & Hi)|(_ & He)]; [exact Hi|subst k1; exact Hinv].
  - (* NoDelay *)
    inversion Hstep; subst k' x. clear Hstep.
    apply ns_step_sf; [exact Hsi|apply nodelay_inv; exact Hinv|apply ns_sf_set_nodelay].
Qed.

Theorem sender_init : forall k isn, inv k -> is_u32 (conv k) -> snd_queue k = [] -> snd_buf k = [] ->
  acklist k = [] -> snd_una k = isn -> sender_inv (mkSG isn [] []) k.
Proof.
  intros k isn Hinv Hc Hq Hb Ha Hu.
  constructor; cbn [sg_isn sg_numbered sg_accepted]; rewrite ?Hq, ?Hb, ?Ha; cbn [map app].
  - exact Hinv.
  - split; [rewrite <- Hu; exact (I_una_u32 _ Hinv)|exact Hc].
  - split; [constructor|]. intros i p q H. destruct i; discriminate.
  - constructor.
  - exists 0%nat. split; [cbn [length]; lia|]. split; [|constructor].
    cbn [Z.of_nat]. rewrite Z.add_0_r, u32_id; [exact Hu|rewrite <- Hu; exact (I_una_u32 _ Hinv)].
  - intros _. reflexivity.
  - intros _. reflexivity.
  - exact I.
Qed.

Theorem genuine_mono : forall isn src ext d, genuine_dgram isn src d -> genuine_dgram isn (src ++ ext) d.
Proof.
  intros isn src ext d (segs & E & Hwf & Hg). exists segs. split; [exact E|]. split; [exact Hwf|].
  eapply Forall_impl; [|exact Hg]. intros s H Hc. destruct (H Hc) as (i & Hi & Hsn & Hn).
  exists i. split; [rewrite app_length; lia|]. split; [exact Hsn|].
  rewrite nth_error_app1 by exact Hi. exact Hn.
Qed.

Theorem sender_src_wf : forall g k, sender_inv g k -> src_wf (sg_numbered g).
Proof.
  intros g k Hsi. pose proof (SI_wf _ _ Hsi) as H. apply ns_src_wf_iff in H. destruct H as [Hf Hc].
  apply ns_src_wf_iff. apply Forall_app in Hf. split; [exact (proj1 Hf)|exact (ns_chain_app_l _ _ Hc)].
Qed.

Print Assumptions sender_step.
Print Assumptions sender_init.
Print Assumptions genuine_mono.
Print Assumptions sender_src_wf.
