From Coq Require Import ZArith List Bool Lia.
From KV.Base Require Import Consts Word WordLemmas.
From KV.Kcp Require Import Kcp Step Net InvBase InvInputBase InvInput LiveBase ProgressBase PgScratch1.
Import ListNotations.
Local Open Scope Z_scope.

Ltac Zify.zify_post_hook ::= Z.div_mod_to_equations.

(* ================================================================== *)
(* the segment loop of Input over a datagram made of encoded segments  *)
(* ================================================================== *)
Lemma pg_concat_len segs :
  blen (concat (map encode_seg segs)) >= c_IKCP_OVERHEAD * Z.of_nat (length segs).
Proof.
  induction segs as [|s t IH]; [cbn; unfold c_IKCP_OVERHEAD; lia|].
  cbn [map concat length]. rewrite blen_app, lv_encode_len. pose proof (blen_nonneg (s_data s)).
  unfold c_IKCP_OVERHEAD in *. lia.
Qed.

(* I is indexed by the segments already processed *)
Lemma pg_input_loop (I : list seg -> inp -> Prop) (Q : seg -> Prop) reg :
  (forall pre a s rest, I pre a -> Q s ->
     exists a', input_seg a (encode_seg s ++ rest) reg = inl (Ok (a', rest)) /\ I (pre ++ [s]) a') ->
  forall segs pre fuel a, (length segs <= fuel)%nat -> Forall Q segs -> I pre a ->
  exists a', input_loop fuel a (concat (map encode_seg segs)) reg = Ok (a', LDone) /\ I (pre ++ segs) a'.
Proof.
  intros Hstep. induction segs as [|s t IH]; intros pre fuel a Hf HQ HI.
  - rewrite app_nil_r. exists a. split; [|exact HI]. destruct fuel; reflexivity.
  - destruct fuel as [|f]; [cbn [length] in Hf; lia|]. cbn [length] in Hf.
    cbn [map concat input_loop].
    assert (E : blen (encode_seg s ++ concat (map encode_seg t)) <? c_IKCP_OVERHEAD = false).
    { apply Z.ltb_ge. rewrite blen_app, lv_encode_len. pose proof (blen_nonneg (s_data s)).
      pose proof (blen_nonneg (concat (map encode_seg t))). lia. }
    rewrite E.
    destruct (Hstep pre a s (concat (map encode_seg t)) HI (Forall_inv HQ)) as (a1 & E1 & HI1).
    rewrite E1.
    destruct (IH (pre ++ [s]) f a1) as (a' & E2 & HI2); [lia|exact (Forall_inv_tail HQ)|exact HI1|].
    exists a'. split; [exact E2|]. rewrite <- app_assoc in HI2. exact HI2.
Qed.

(* the part of Input after the loop *)
Definition pg_post (k : kcp) (a : inp) (reg : bool) (now : Z) : kcp :=
  input_cwnd (if i_rtt a && reg && (itimediff now (i_latest a) >=? 0)
              then update_ack (i_k a) (itimediff now (i_latest a)) else i_k a) (snd_una k).

Definition pg_freq (k3 : kcp) (a : inp) (nd : bool) : flush_req :=
  if i_flush a then FFull
  else if Z.of_nat (length (acklist k3)) >=? mtu k3 / c_IKCP_OVERHEAD then FAck
  else if nd && (Z.of_nat (length (acklist k3)) >? 0) then FAck else FNone.

Lemma pg_input_pre (I : list seg -> inp -> Prop) (Q : seg -> Prop) reg k segs nd now :
  (forall pre a s rest, I pre a -> Q s ->
     exists a', input_seg a (encode_seg s ++ rest) reg = inl (Ok (a', rest)) /\ I (pre ++ [s]) a') ->
  Forall Q segs -> segs <> [] -> I [] (mkInp k 0 false false) ->
  exists a', I segs a' /\
    input_pre k (concat (map encode_seg segs)) reg nd now =
      Ok (pg_post k a' reg now, 0, pg_freq (pg_post k a' reg now) a' nd).
Proof.
  intros Hstep HQ Hne HI. unfold input_pre. cbv zeta.
  pose proof (pg_concat_len segs) as Hlen.
  assert (E : blen (concat (map encode_seg segs)) <? c_IKCP_OVERHEAD = false).
  { apply Z.ltb_ge. destruct segs as [|s t]; [contradiction|]. cbn [length] in Hlen.
    unfold c_IKCP_OVERHEAD in *. lia. }
  rewrite E.
  destruct (pg_input_loop I Q reg Hstep segs [] (S (length (concat (map encode_seg segs)) / 24))
              (mkInp k 0 false false)) as (a' & El & HI'); [|exact HQ|exact HI|].
  { apply le_S. apply Nat.div_le_lower_bound; [lia|]. unfold blen, c_IKCP_OVERHEAD in Hlen. lia. }
  rewrite El. cbn [app] in HI'. exists a'. split; [exact HI'|].
  unfold pg_post, pg_freq.
  destruct (i_flush a'); [reflexivity|].
  destruct (_ >=? _); [reflexivity|].
  destruct (_ && _); reflexivity.
Qed.

Lemma pg_input_pre_nil k reg nd now : input_pre k [] reg nd now = Ok (k, -1, FNone).
Proof. reflexivity. Qed.

(* fields the post-processing of Input leaves alone *)
Definition pg_fx (k : kcp) :=
  (conv k, mtu k, (snd_una k, snd_nxt k, rcv_nxt k), (snd_wnd k, rcv_wnd k, rmt_wnd k),
   (probe k, ts_probe k, probe_wait k), (snd_queue k, rcv_queue k, snd_buf k, rcv_buf k),
   acklist k, (stream k, nocwnd k)).

Lemma pg_fx_update_ack k rtt : pg_fx (update_ack k rtt) = pg_fx k.
Proof. destruct (ii_update_ack_unf k rtt) as (srtt & var & E). rewrite E. reflexivity. Qed.

Lemma pg_fx_input_cwnd k una0 : pg_fx (input_cwnd k una0) = pg_fx k.
Proof.
  unfold input_cwnd.
  destruct ((nocwnd k =? 0) && (itimediff (snd_una k) una0 >? 0) && (cwnd k <? rmt_wnd k)); [|reflexivity].
  cbv zeta.
  match goal with |- context [let '(cw, inc) := ?X in _] => destruct X as [cw inc] end.
  destruct (cw >? rmt_wnd k); reflexivity.
Qed.

Lemma pg_fx_post k a reg now : pg_fx (pg_post k a reg now) = pg_fx (i_k a).
Proof.
  unfold pg_post. rewrite pg_fx_input_cwnd.
  destruct (i_rtt a && reg && (itimediff now (i_latest a) >=? 0)); [apply pg_fx_update_ack|reflexivity].
Qed.

Ltac pg_fx_of H :=
  let T := type of H in
  match T with pg_fx ?x = pg_fx ?y =>
    unfold pg_fx in H;
    injection H as ?Fconv ?Fmtu ?Funa ?Fnxt ?Frnxt ?Fswnd ?Frwnd ?Frmt ?Fprobe ?Ftsp ?Fpw ?Fsq ?Frq ?Fsb ?Frb ?Fal ?Fstr ?Fncw
  end.

Lemma pg_fx_test k a reg now : snd_buf (pg_post k a reg now) = snd_buf (i_k a) /\ acklist (pg_post k a reg now) = acklist (i_k a).
Proof. pose proof (pg_fx_post k a reg now) as H. pg_fx_of H. split; assumption. Qed.
