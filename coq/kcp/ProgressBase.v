(* C02 "a healed network always drains the backlog": the DEFINITIONS of the progress theorems
   (sections 1-4: two-way system sys2 / sys2_step / sys2_run / reach2, indices, the link invariant
   link_inv, the healed round, the probe round, the draining round, the premises b8 / no_wrap_all),
   followed (section 5) by single-endpoint helper lemmas (prefix pg_) used by Progress.v: wire
   format (decoding is unique), the segment loop of Input over a datagram of encoded segments,
   move_ready / parse_data with indices, what a receive-only endpoint emits, B call by call
   (pg_b_step), A call by call against a set of received indices (pg_a_step).
   The theorems are in Progress.v, their statements in C02b.v.

   Data flows A -> B, acknowledgements B -> A.  Net.v's `sys` records every datagram A emitted
   (`wire`); `sys2` adds `wireB`: every datagram B ever handed to its output callback. *)
From Coq Require Import ZArith List Bool Lia.
From KV.Base Require Import Consts Word WordLemmas.
From KV.Kcp Require Import Kcp Step Net InvBase InvApi InvInputBase InvInput InvFlushBase InvFlush InvAll
  LiveBase Live NetSenderBase NetReceiver.
Import ListNotations.
Local Open Scope Z_scope.

(* ================================================================== *)
(* 1. the two-way system                                               *)
(* ================================================================== *)
Record sys2 := mkSys2 { s1 : sys; wireB : list bytes }.

Definition kA (s : sys2) : kcp := sA (s1 s).
Definition kB (s : sys2) : kcp := sB (s1 s).

(* the datagrams a call hands to the output callback *)
Definition emitted (k : kcp) (o : op) : list bytes :=
  match step k o with Ok (_, x) => o_dgrams x | Panic _ => [] end.

(* sys_step, and B's output is recorded too *)
Definition sys2_step (s : sys2) (e : ev) : option sys2 :=
  match sys_step (s1 s) e with
  | Some t => Some (mkSys2 t (wireB s ++ match e with EB o => emitted (kB s) o | EA _ => [] end))
  | None => None
  end.

(* admissible events: Net.ev_ok (B's Input only takes datagrams of `wire`), and
   - A's Input only takes datagrams of wireB: any of them, any number of times, in any order
     (drop / duplicate / reorder / delay);
   - B never calls Send (one-directional data). *)
Definition ev_ok2 (s : sys2) (e : ev) : Prop :=
  ev_ok (s1 s) e /\
  match e with
  | EA (OInput d _ _ _) => In d (wireB s)
  | EB (OSend _) => False
  | _ => True
  end.

Inductive sys2_run : sys2 -> list ev -> sys2 -> Prop :=
| run2_nil : forall s, sys2_run s [] s
| run2_cons : forall s e s' t s'', ev_ok2 s e -> sys2_step s e = Some s' -> sys2_run s' t s'' ->
                                   sys2_run s (e :: t) s''.

(* initial: Net.sys_init, the same conversation id on both sides, nothing emitted by B yet, and
   B's own sending side idle with no acknowledgement pending *)
Definition sys2_init (s : sys2) : Prop :=
  sys_init (s1 s) /\ wireB s = [] /\ conv (kB s) = conv (kA s) /\
  snd_queue (kB s) = [] /\ snd_buf (kB s) = [] /\ acklist (kB s) = [].

Definition reach2 (s : sys2) : Prop := exists s0 evs, sys2_init s0 /\ sys2_run s0 evs s.

(* ================================================================== *)
(* 2. indices                                                          *)
(* ================================================================== *)
(* A's ghost list `numbered` gives index i the sequence number u32(isn+i).  Under no_wrap the
   index of a sequence number x is u32(x - isn). *)
Definition isn_of (s : sys2) : Z := sg_isn (gA (s1 s)).
Definition numbered_of (s : sys2) : list (Z * bytes) := sg_numbered (gA (s1 s)).

Definition idx (isn x : Z) : Z := u32 (x - isn).

(* a = index of A's snd_una (the cumulative acknowledgement point), r = index of B's rcv_nxt *)
Definition a_idx (s : sys2) : Z := idx (isn_of s) (snd_una (kA s)).
Definition r_idx (s : sys2) : Z := idx (isn_of s) (rcv_nxt (kB s)).

(* endpoint k has received index i: below rcv_nxt, or parked in rcv_buf *)
Definition got (isn : Z) (k : kcp) (i : Z) : Prop :=
  0 <= i < H32 /\ (i < idx isn (rcv_nxt k) \/ has_sn (u32 (isn + i)) (rcv_buf k) = true).

Definition received (s : sys2) (i : Z) : Prop := got (isn_of s) (kB s) i.

(* ================================================================== *)
(* 3. the link invariant (DESIGN Appendix B.2, G5)                     *)
(* ================================================================== *)
(* a segment of a B -> A datagram: never a PUSH; its cumulative field names an index at most r;
   an ACK names an index B has received *)
Definition ack_seg (s : sys2) (x : seg) : Prop :=
  seg_wf x /\ s_conv x = conv (kA s) /\
  (s_cmd x = c_IKCP_CMD_ACK \/ s_cmd x = c_IKCP_CMD_WASK \/ s_cmd x = c_IKCP_CMD_WINS) /\
  idx (isn_of s) (s_una x) <= r_idx s /\
  (s_cmd x = c_IKCP_CMD_ACK -> received s (idx (isn_of s) (s_sn x))).

Definition ack_dgram (s : sys2) (d : bytes) : Prop :=
  exists segs, d = concat (map encode_seg segs) /\ Forall (ack_seg s) segs.

(* a segment of an A -> B datagram: right conversation, a known command, PUSH genuine *)
Definition data_seg (s : sys2) (x : seg) : Prop :=
  seg_wf x /\ s_conv x = conv (kA s) /\ cmd_ok (s_cmd x) /\
  genuine_seg (isn_of s) (numbered_of s) x.

Definition data_dgram (s : sys2) (d : bytes) : Prop :=
  exists segs, d = concat (map encode_seg segs) /\ Forall (data_seg s) segs.

(* the receiver has moved every deliverable segment: the head of rcv_buf is not the next
   expected number, or the delivery queue is full *)
Definition moved (k : kcp) : Prop :=
  match rcv_buf k with
  | [] => True
  | x :: _ => s_sn x <> rcv_nxt k \/ rcv_wnd k <= qlen (rcv_queue k)
  end.

(* acknowledged segments leave snd_buf once they reach its head *)
Definition head_unacked (k : kcp) : Prop :=
  match snd_buf k with [] => True | x :: _ => s_acked x = 0 end.

Record link_inv (s : sys2) : Prop := mkLink {
  (* L3 *)
  L_nowrap : no_wrap (numbered_of s);
  (* L1: what A regards as acknowledged, B has received *)
  L1_una : forall i, 0 <= i < a_idx s -> received s i;
  L1_acked : forall j x, nth_error (snd_buf (kA s)) j = Some x -> s_acked x <> 0 ->
                         received s (a_idx s + Z.of_nat j);
  L1_head : head_unacked (kA s);
  (* L2: the B -> A history *)
  L2_acks : Forall (ack_dgram s) (wireB s);
  (* the A -> B history *)
  L0_data : Forall (data_dgram s) (wire (s1 s));
  (* B: same conversation, idle sending side, pending acknowledgements are for received
     indices, nothing deliverable left in rcv_buf *)
  LB_conv : conv (kB s) = conv (kA s);
  LB_idle : snd_queue (kB s) = [] /\ snd_buf (kB s) = [];
  LB_acks : Forall (fun p => is_u32 (fst p) /\ is_u32 (snd p) /\
                             received s (idx (isn_of s) (fst p))) (acklist (kB s));
  LB_moved : moved (kB s)
}.

(* ================================================================== *)
(* 4. the healed round                                                 *)
(* ================================================================== *)
Definition bind2 (x : option sys2) (f : sys2 -> option sys2) : option sys2 :=
  match x with Some s => f s | None => None end.

(* B's application reads (with a buffer as large as PeekSize asks for) until Recv would return
   -1, i.e. until PeekSize < 0.  Every successful read removes at least one segment from
   rcv_queue ++ rcv_buf, so |rcv_queue| + |rcv_buf| reads suffice: no fuel parameter. *)
Fixpoint drain (n : nat) (s : sys2) : option sys2 :=
  match n with
  | O => Some s
  | S n' =>
      if peeksize (kB s) <? 0 then Some s
      else bind2 (sys2_step s (EB (ORecv (peeksize (kB s))))) (drain n')
  end.

Definition b_drain (s : sys2) : option sys2 :=
  drain (length (rcv_queue (kB s)) + length (rcv_buf (kB s))) s.

(* deliver datagrams, in order, as Input events built by mk *)
Fixpoint deliver (mk : bytes -> ev) (ds : list bytes) (s : sys2) : option sys2 :=
  match ds with
  | [] => Some s
  | d :: t => bind2 (sys2_step s (mk d)) (deliver mk t)
  end.

(* what was emitted between an earlier state s and a later state s' *)
Definition new_wire (s s' : sys2) : list bytes := skipn (length (wire (s1 s))) (wire (s1 s')).
Definition new_wireB (s s' : sys2) : list bytes := skipn (length (wireB s)) (wireB s').

(* the healed round at clock value t:
   (i) B reads until Recv < 0; (ii) A flushes; (iii) every datagram of that flush reaches B, in
   order; (iv) B reads until Recv < 0; (v) B flushes; (vi) every datagram B has emitted since
   (ii) - the acknowledgements Input itself flushed in (iii) when its list grew long, and those
   of (v) - reaches A, in order. *)
Definition healed_round (s : sys2) (t : Z) : option sys2 :=
  bind2 (b_drain s) (fun s_1 =>
  bind2 (sys2_step s_1 (EA (OFlush true t))) (fun s_2 =>
  bind2 (deliver (fun d => EB (OInput d true false t)) (new_wire s_1 s_2) s_2) (fun s_3 =>
  bind2 (b_drain s_3) (fun s_4 =>
  bind2 (sys2_step s_4 (EB (OFlush true t))) (fun s_5 =>
  deliver (fun d => EA (OInput d true false t)) (new_wireB s_2 s_5) s_5))))).

(* premises of the progress theorem *)
(* the head of A's snd_buf exists and is due at t (never sent, or its timer has expired) *)
Definition head_due (s : sys2) (t : Z) : Prop :=
  match snd_buf (kA s) with
  | [] => False
  | h :: _ => s_xmit h = 0 \/ itimediff t (s_resendts h) >= 0
  end.

(* B8: no message has more fragments than B's receive window holds (message mode contract;
   in stream mode every fragment counter is 0) *)
Definition b8 (s : sys2) : Prop := Forall (fun p => fst p < rcv_wnd (kB s)) (numbered_of s).

(* everything A has accepted so far: numbered or still queued *)
Definition backlog_len (s : sys2) : nat := (length (numbered_of s) + length (snd_queue (kA s)))%nat.

(* ... as a list: the payloads numbered so far, then those still queued *)
Definition all_src (s : sys2) : list (Z * bytes) := numbered_of s ++ map pay (snd_queue (kA s)).

(* B8 for everything accepted so far *)
Definition b8_all (s : sys2) : Prop := Forall (fun p => fst p < rcv_wnd (kB s)) (all_src s).

(* the one bound on sequence numbers, for everything accepted so far *)
Definition no_wrap_all (s : sys2) : Prop := Z.of_nat (backlog_len s) < H32 - 65536.

(* the number of accepted segments not yet cumulatively acknowledged *)
Definition unacked (s : sys2) : Z := Z.of_nat (backlog_len s) - a_idx s.

(* a clock value at which the head of snd_buf is due *)
Definition t_due (s : sys2) : Z :=
  match snd_buf (kA s) with [] => 0 | h :: _ => u32 (s_resendts h) end.

(* the probe round at clock value t: A flushes twice - at t, and when its probe timer is due (the
   first zero-window flush may only arm the timer) -; everything A emitted reaches B in order;
   B reads until Recv = -1 and flushes; everything B emitted since reaches A in order *)
Definition probe_round (s : sys2) (t : Z) : option sys2 :=
  bind2 (sys2_step s (EA (OFlush true t))) (fun s_1 =>
  bind2 (sys2_step s_1 (EA (OFlush true (u32 (ts_probe (kA s_1)))))) (fun s_2 =>
  bind2 (deliver (fun d => EB (OInput d true false t)) (new_wire s s_2) s_2) (fun s_3 =>
  bind2 (b_drain s_3) (fun s_4 =>
  bind2 (sys2_step s_4 (EB (OFlush true t))) (fun s_5 =>
  deliver (fun d => EA (OInput d true false t)) (new_wireB s_2 s_5) s_5))))).

(* one draining round: re-open the window when it is closed; flush twice (the first flush makes
   cwnd >= 1, the second numbers queued data when nothing is outstanding); then the healed round
   at a clock value at which the head of snd_buf is due *)
Definition drain_round (s : sys2) : option sys2 :=
  bind2 (if rmt_wnd (kA s) =? 0 then probe_round s 0 else Some s) (fun s_a =>
  bind2 (sys2_step s_a (EA (OFlush true 0))) (fun s_b =>
  bind2 (sys2_step s_b (EA (OFlush true 0))) (fun s_c =>
  healed_round s_c (t_due s_c)))).

Fixpoint drain_rounds (n : nat) (s : sys2) : option sys2 :=
  match n with O => Some s | S n' => bind2 (drain_round s) (drain_rounds n') end.

(* ================================================================== *)
(* 5. helper lemmas (single endpoint)                                  *)
(* ================================================================== *)
Ltac Zify.zify_post_hook ::= Z.div_mod_to_equations.

Lemma pg_rd32_le32 x r : rd32 (le32 x ++ r) = u32 x.
Proof. unfold rd32, le32, u32, W32; cbn [app]. lia. Qed.

Lemma pg_rd16_le16 x r : rd16 (le16 x ++ r) = u16 x.
Proof. unfold rd16, le16, u16; cbn [app]. lia. Qed.

(* what the wire format determines of a segment *)
Definition pg_same_wire (s1 s2 : seg) : Prop :=
  u32 (s_conv s1) = u32 (s_conv s2) /\ s_cmd s1 = s_cmd s2 /\ s_frg s1 = s_frg s2 /\
  u16 (s_wnd s1) = u16 (s_wnd s2) /\ u32 (s_ts s1) = u32 (s_ts s2) /\ u32 (s_sn s1) = u32 (s_sn s2) /\
  u32 (s_una s1) = u32 (s_una s2) /\ s_data s1 = s_data s2.

Lemma pg_app_inj_len (T : Type) (a b c d : list T) :
  length a = length c -> a ++ b = c ++ d -> a = c /\ b = d.
Proof.
  revert c. induction a as [|x a IH]; intros c Hl E; destruct c as [|y c]; try discriminate.
  - split; [reflexivity|exact E].
  - cbn [app] in E. inversion E; subst. cbn [length] in Hl.
    destruct (IH c) as [E1 E2]; [lia|assumption|]. subst. split; reflexivity.
Qed.

Lemma pg_decode_head s1 r1 s2 r2 :
  encode_seg s1 ++ r1 = encode_seg s2 ++ r2 -> blen (encode_seg s1 ++ r1) < W32 ->
  pg_same_wire s1 s2 /\ r1 = r2.
Proof.
  intros E Hb.
  assert (B1 : blen (s_data s1) < W32 /\ blen (s_data s2) < W32).
  { pose proof Hb as Hb2. rewrite E in Hb2. rewrite blen_app, lv_encode_len in Hb, Hb2.
    pose proof (blen_nonneg r1). pose proof (blen_nonneg r2).
    pose proof (blen_nonneg (s_data s1)). pose proof (blen_nonneg (s_data s2)).
    unfold c_IKCP_OVERHEAD in *. lia. }
  pose proof (f_equal rd32 E) as E0. rewrite (lv_skip0 s1 r1), (lv_skip0 s2 r2), !pg_rd32_le32 in E0.
  pose proof (f_equal (fun l => nth 4 l 0) E) as E4. cbv beta in E4.
  change (nth 4 (encode_seg s1 ++ r1) 0) with (s_cmd s1) in E4.
  change (nth 4 (encode_seg s2 ++ r2) 0) with (s_cmd s2) in E4.
  pose proof (f_equal (fun l => nth 5 l 0) E) as E5. cbv beta in E5.
  change (nth 5 (encode_seg s1 ++ r1) 0) with (s_frg s1) in E5.
  change (nth 5 (encode_seg s2 ++ r2) 0) with (s_frg s2) in E5.
  pose proof (f_equal (fun l => rd16 (skipn 6 l)) E) as E6. cbv beta in E6.
  rewrite !lv_skip6, !pg_rd16_le16 in E6.
  pose proof (f_equal (fun l => rd32 (skipn 8 l)) E) as E8. cbv beta in E8.
  rewrite !lv_skip8, !pg_rd32_le32 in E8.
  pose proof (f_equal (fun l => rd32 (skipn 12 l)) E) as E12. cbv beta in E12.
  rewrite !lv_skip12, !pg_rd32_le32 in E12.
  pose proof (f_equal (fun l => rd32 (skipn 16 l)) E) as E16. cbv beta in E16.
  rewrite !lv_skip16, !pg_rd32_le32 in E16.
  pose proof (f_equal (fun l => rd32 (skipn 20 l)) E) as E20. cbv beta in E20.
  rewrite !lv_skip20, !pg_rd32_le32 in E20.
  pose proof (f_equal (skipn 24) E) as E24. rewrite !lv_skip24 in E24.
  assert (El : length (s_data s1) = length (s_data s2)).
  { pose proof (blen_nonneg (s_data s1)). pose proof (blen_nonneg (s_data s2)).
    rewrite !u32_id in E20 by lia. unfold blen in E20. lia. }
  destruct (pg_app_inj_len _ _ _ _ _ El E24) as [Ed Er].
  split; [|exact Er]. unfold pg_same_wire. auto 10.
Qed.

Lemma pg_decode_uniq : forall l1 l2,
  concat (map encode_seg l1) = concat (map encode_seg l2) ->
  blen (concat (map encode_seg l1)) < W32 -> Forall2 pg_same_wire l1 l2.
Proof.
  induction l1 as [|s1 t1 IH]; intros l2 E Hb; destruct l2 as [|s2 t2].
  - constructor.
  - exfalso. cbn [map concat] in E. apply (f_equal blen) in E. rewrite blen_app, lv_encode_len in E.
    change (blen []) with 0 in E. pose proof (blen_nonneg (s_data s2)).
    pose proof (blen_nonneg (concat (map encode_seg t2))). unfold c_IKCP_OVERHEAD in E. lia.
  - exfalso. cbn [map concat] in E. apply (f_equal blen) in E. rewrite blen_app, lv_encode_len in E.
    change (blen []) with 0 in E. pose proof (blen_nonneg (s_data s1)).
    pose proof (blen_nonneg (concat (map encode_seg t1))). unfold c_IKCP_OVERHEAD in E. lia.
  - cbn [map concat] in E, Hb.
    destruct (pg_decode_head _ _ _ _ E Hb) as [Hs Er].
    constructor; [exact Hs|]. apply IH; [exact Er|].
    rewrite blen_app, lv_encode_len in Hb. pose proof (blen_nonneg (s_data s1)).
    unfold c_IKCP_OVERHEAD in Hb. lia.
Qed.

(* ================================================================== *)
(* the segment loop of Input over a datagram made of encoded segments  *)
(* ================================================================== *)
Lemma pg_concat_len segs :
  blen (concat (map encode_seg segs)) >= c_IKCP_OVERHEAD * Z.of_nat (length segs).
Proof.
  induction segs as [|s t IH]; [cbn; unfold c_IKCP_OVERHEAD; lia|].
  cbn [map concat length]. rewrite blen_app, lv_encode_len. pose proof (blen_nonneg (s_data s)).
  unfold c_IKCP_OVERHEAD in *. lia.
Qed.

Lemma pg_concat_bytes segs : Forall seg_wf segs -> is_byte_list (concat (map encode_seg segs)).
Proof.
  induction 1 as [|s t Hs Ht IH]; [constructor|]. cbn [map concat].
  apply ns_is_byte_list_app. split; [apply nr_encode_bytes; exact Hs|exact IH].
Qed.

(* I is indexed by the segments already processed *)
Lemma pg_input_loop (I : list seg -> inp -> Prop) (Q : seg -> Prop) reg :
  (forall s, Q s -> seg_wf s) ->
  (forall pre a s rest, I pre a -> Q s -> is_byte_list rest ->
     exists a', input_seg a (encode_seg s ++ rest) reg = inl (Ok (a', rest)) /\ I (pre ++ [s]) a') ->
  forall segs pre fuel a, (length segs <= fuel)%nat -> Forall Q segs -> I pre a ->
  exists a', input_loop fuel a (concat (map encode_seg segs)) reg = Ok (a', LDone) /\ I (pre ++ segs) a'.
Proof.
  intros Hwf Hstep. induction segs as [|s t IH]; intros pre fuel a Hf HQ HI.
  - rewrite app_nil_r. exists a. split; [|exact HI]. destruct fuel; reflexivity.
  - destruct fuel as [|f]; [cbn [length] in Hf; lia|]. cbn [length] in Hf.
    cbn [map concat input_loop].
    assert (E : blen (encode_seg s ++ concat (map encode_seg t)) <? c_IKCP_OVERHEAD = false).
    { apply Z.ltb_ge. rewrite blen_app, lv_encode_len. pose proof (blen_nonneg (s_data s)).
      pose proof (blen_nonneg (concat (map encode_seg t))). lia. }
    rewrite E.
    assert (Hb : is_byte_list (concat (map encode_seg t))).
    { apply pg_concat_bytes. eapply Forall_impl; [exact Hwf|exact (Forall_inv_tail HQ)]. }
    destruct (Hstep pre a s (concat (map encode_seg t)) HI (Forall_inv HQ) Hb) as (a1 & E1 & HI1).
    rewrite E1.
    destruct (IH (pre ++ [s]) f a1) as (a' & E2 & HI2); [lia|exact (Forall_inv_tail HQ)|exact HI1|].
    exists a'. split; [exact E2|]. rewrite <- app_assoc in HI2. exact HI2.
Qed.

(* the part of Input after the loop *)
Definition pg_post (k : kcp) (a : inp) (reg : bool) (now : Z) : kcp :=
  input_cwnd (if i_rtt a && reg && (itimediff now (i_latest a) >=? 0)
              then update_ack (i_k a) (itimediff now (i_latest a)) else i_k a) (snd_una k).

Definition pg_freq (k3 : kcp) (a : inp) (nd : bool) : flush_req :=
  if i_flush a then FFull
  else if Z.of_nat (length (acklist k3)) >=? mtu k3 / c_IKCP_OVERHEAD then FAck
  else if nd && (Z.of_nat (length (acklist k3)) >? 0) then FAck else FNone.

Lemma pg_input_pre (I : list seg -> inp -> Prop) (Q : seg -> Prop) reg k segs nd now :
  (forall s, Q s -> seg_wf s) ->
  (forall pre a s rest, I pre a -> Q s -> is_byte_list rest ->
     exists a', input_seg a (encode_seg s ++ rest) reg = inl (Ok (a', rest)) /\ I (pre ++ [s]) a') ->
  Forall Q segs -> segs <> [] -> I [] (mkInp k 0 false false) ->
  exists a', I segs a' /\
    input_pre k (concat (map encode_seg segs)) reg nd now =
      Ok (pg_post k a' reg now, 0, pg_freq (pg_post k a' reg now) a' nd).
Proof.
  intros Hwf Hstep HQ Hne HI. unfold input_pre. cbv zeta.
  pose proof (pg_concat_len segs) as Hlen.
  assert (E : blen (concat (map encode_seg segs)) <? c_IKCP_OVERHEAD = false).
  { apply Z.ltb_ge. destruct segs as [|s t]; [contradiction|]. cbn [length] in Hlen.
    unfold c_IKCP_OVERHEAD in *. lia. }
  rewrite E.
  destruct (pg_input_loop I Q reg Hwf Hstep segs [] (S (length (concat (map encode_seg segs)) / 24))
              (mkInp k 0 false false)) as (a' & El & HI'); [|exact HQ|exact HI|].
  { apply le_S. apply Nat.div_le_lower_bound; [lia|]. unfold blen, c_IKCP_OVERHEAD in Hlen. lia. }
  rewrite El. cbn [app] in HI'. exists a'. split; [exact HI'|].
  unfold pg_post, pg_freq.
  destruct (i_flush a'); [reflexivity|].
  destruct (_ >=? _); [reflexivity|].
  destruct (_ && _); reflexivity.
Qed.

Lemma pg_input_pre_nil k reg nd now : input_pre k [] reg nd now = Ok (k, -1, FNone).
Proof. reflexivity. Qed.

(* fields the post-processing of Input leaves alone *)
Definition pg_fx (k : kcp) :=
  (conv k, mtu k, (snd_una k, snd_nxt k, rcv_nxt k), (snd_wnd k, rcv_wnd k, rmt_wnd k),
   (probe k, ts_probe k, probe_wait k), (snd_queue k, rcv_queue k, snd_buf k, rcv_buf k),
   acklist k, (stream k, nocwnd k)).

Lemma pg_fx_update_ack k rtt : pg_fx (update_ack k rtt) = pg_fx k.
Proof. destruct (ii_update_ack_unf k rtt) as (srtt & var & E). rewrite E. reflexivity. Qed.

Lemma pg_fx_input_cwnd k una0 : pg_fx (input_cwnd k una0) = pg_fx k.
Proof.
  unfold input_cwnd.
  destruct ((nocwnd k =? 0) && (itimediff (snd_una k) una0 >? 0) && (cwnd k <? rmt_wnd k)); [|reflexivity].
  cbv zeta.
  match goal with |- context [let '(cw, inc) := ?X in _] => destruct X as [cw inc] end.
  destruct (cw >? rmt_wnd k); reflexivity.
Qed.

Lemma pg_fx_post k a reg now : pg_fx (pg_post k a reg now) = pg_fx (i_k a).
Proof.
  unfold pg_post. rewrite pg_fx_input_cwnd.
  destruct (i_rtt a && reg && (itimediff now (i_latest a) >=? 0)); [apply pg_fx_update_ack|reflexivity].
Qed.

Lemma pg_fx_all k k' : pg_fx k' = pg_fx k ->
  conv k' = conv k /\ mtu k' = mtu k /\ snd_una k' = snd_una k /\ snd_nxt k' = snd_nxt k /\
  rcv_nxt k' = rcv_nxt k /\ snd_wnd k' = snd_wnd k /\ rcv_wnd k' = rcv_wnd k /\ rmt_wnd k' = rmt_wnd k /\
  probe k' = probe k /\ ts_probe k' = ts_probe k /\ probe_wait k' = probe_wait k /\
  snd_queue k' = snd_queue k /\ rcv_queue k' = rcv_queue k /\ snd_buf k' = snd_buf k /\
  rcv_buf k' = rcv_buf k /\ acklist k' = acklist k /\ stream k' = stream k /\ nocwnd k' = nocwnd k.
Proof. unfold pg_fx. intros H. inversion H. repeat split; reflexivity. Qed.

(* ================================================================== *)
(* indices                                                             *)
(* ================================================================== *)
Lemma pg_idx_u32 isn r : 0 <= r < W32 -> idx isn (u32 (isn + r)) = r.
Proof. unfold idx, u32, W32. lia. Qed.

Lemma pg_u32_idx isn x : is_u32 x -> u32 (isn + idx isn x) = x.
Proof. unfold idx, is_u32, u32, W32. lia. Qed.

Lemma pg_idx_range isn x : 0 <= idx isn x < W32.
Proof. unfold idx. apply u32_range. Qed.

(* ================================================================== *)
(* rcv_buf: has_sn, insertion, the head                                *)
(* ================================================================== *)
Lemma pg_has_sn_insert x s : forall l,
  has_sn x (insert_seg s l) = true <-> (s_sn s = x \/ has_sn x l = true).
Proof.
  induction l as [|e t IH]; cbn [insert_seg].
  - unfold has_sn. cbn [existsb]. rewrite orb_false_r, Z.eqb_eq. split; [intros H; left; exact H|].
    intros [H|H]; [exact H|discriminate].
  - destruct (itimediff (s_sn e) (s_sn s) >? 0).
    + rewrite has_sn_cons. rewrite orb_true_iff, Z.eqb_eq. tauto.
    + rewrite !has_sn_cons. rewrite !orb_true_iff, IH, Z.eqb_eq. tauto.
Qed.

Lemma pg_sorted_no base hi x : forall l lo,
  1 <= lo -> rb_sorted base lo hi l -> itimediff x base = 0 -> has_sn x l = false.
Proof.
  induction l as [|e t IH]; intros lo Hlo H Hx; [reflexivity|].
  rewrite ii_rb_cons in H. destruct H as (Hd & Hu & Ht).
  rewrite has_sn_cons. apply orb_false_iff. split.
  - apply Z.eqb_neq. intros E. rewrite E in Hd. lia.
  - apply (IH (itimediff (s_sn e) base + 1)); [lia|exact Ht|exact Hx].
Qed.

(* in a sorted rcv_buf the next expected number can only sit at the head *)
Lemma pg_sorted_head base hi l :
  rb_sorted base 0 hi l -> is_u32 base -> has_sn base l = true ->
  exists x t, l = x :: t /\ s_sn x = base.
Proof.
  intros H Hb Hh. destruct l as [|e t]; [discriminate|].
  rewrite ii_rb_cons in H. destruct H as (Hd & Hu & Ht).
  exists e, t. split; [reflexivity|].
  rewrite has_sn_cons in Hh. apply orb_true_iff in Hh. destruct Hh as [Hh|Hh]; [apply Z.eqb_eq; exact Hh|].
  destruct (Z.eq_dec (itimediff (s_sn e) base) 0) as [E|E].
  - apply (ii_diff_inj _ _ base Hu Hb). rewrite E, itimediff_self. reflexivity.
  - rewrite (pg_sorted_no base hi base t (itimediff (s_sn e) base + 1)) in Hh;
      [discriminate|lia|exact Ht|apply itimediff_self].
Qed.

Lemma pg_insert_head base hi s l :
  rb_sorted base 0 hi l -> has_sn (s_sn s) l = false -> s_sn s = base -> is_u32 base ->
  insert_seg s l = s :: l.
Proof.
  intros H Hh Hs Hb. destruct l as [|e t]; [reflexivity|]. cbn [insert_seg].
  rewrite ii_rb_cons in H. destruct H as (Hd & Hu & Ht).
  rewrite has_sn_cons in Hh. apply orb_false_iff in Hh. destruct Hh as [Hne _]. apply Z.eqb_neq in Hne.
  assert (Hp : itimediff (s_sn e) (s_sn s) > 0).
  { rewrite Hs. destruct (Z.eq_dec (itimediff (s_sn e) base) 0) as [E|E]; [|lia].
    exfalso. apply Hne. rewrite Hs. apply (ii_diff_inj _ _ base Hu Hb). rewrite E, itimediff_self. reflexivity. }
  destruct (itimediff (s_sn e) (s_sn s) >? 0) eqn:Eg; [reflexivity|]. lv_b2z. lia.
Qed.

(* ================================================================== *)
(* move_ready with indices                                             *)
(* ================================================================== *)
Definition pg_stuck (rb rq : list seg) (rn rw : Z) : Prop :=
  match rb with [] => True | x :: _ => s_sn x <> rn \/ rw <= qlen rq end.

Lemma pg_move_ready isn rw : forall rb rq r rb' rq' rn',
  move_ready rb rq (u32 (isn + r)) rw = (rb', rq', rn') -> 0 <= r -> r + qlen rb < H32 ->
  exists m, 0 <= m <= qlen rb /\ rn' = u32 (isn + (r + m)) /\ qlen rq' = qlen rq + m /\
    (m = 0 -> rq' = rq /\ rb' = rb) /\
    (forall j, 0 <= j < H32 -> (j < r \/ has_sn (u32 (isn + j)) rb = true) ->
               (j < r + m \/ has_sn (u32 (isn + j)) rb' = true)) /\
    pg_stuck rb' rq' rn' rw /\
    (match rb with x :: _ => s_sn x = u32 (isn + r) -> qlen rq < rw -> 1 <= m | [] => True end).
Proof.
  induction rb as [|s t IH]; intros rq r rb' rq' rn' E Hr Hb; cbn [move_ready] in E.
  - inversion E; subst. exists 0. rewrite qlen_nil, !Z.add_0_r.
    split; [lia|]. split; [reflexivity|]. split; [reflexivity|]. split; [auto|]. split; [auto|]. split; exact I.
  - destruct ((s_sn s =? u32 (isn + r)) && (qlen rq <? rw)) eqn:Ec.
    + apply andb_prop in Ec. destruct Ec as [E1 E2]. lv_b2z.
      rewrite u32_add_mod in E. replace (isn + r + 1) with (isn + (r + 1)) in E by lia.
      rewrite qlen_cons in Hb.
      destruct (IH _ _ _ _ _ E) as (m & Hm & Hn & Hq & H0 & Hmono & Hst & _); [lia|lia|].
      exists (1 + m). pose proof (qlen_nonneg t). rewrite qlen_cons.
      split; [lia|]. split; [rewrite Hn; f_equal; lia|].
      split; [rewrite Hq, qlen_app, qlen_cons, qlen_nil; lia|].
      split; [intros; lia|].
      split.
      * intros j Hj Hcase. replace (r + (1 + m)) with (r + 1 + m) by lia. apply Hmono; [exact Hj|].
        destruct Hcase as [Hlt|Hh]; [left; lia|].
        rewrite has_sn_cons in Hh. apply orb_true_iff in Hh. destruct Hh as [Hh|Hh]; [|right; exact Hh].
        lv_b2z. left. rewrite E1 in Hh.
        assert (r = j) by (apply (u32_inj_index isn); [lia|exact Hh]). lia.
      * split; [exact Hst|]. intros _ _. lia.
    + inversion E; subst. exists 0. rewrite !Z.add_0_r. pose proof (qlen_nonneg (s :: t)).
      split; [lia|]. split; [reflexivity|]. split; [reflexivity|]. split; [auto|]. split; [auto|].
      split.
      * unfold pg_stuck. apply andb_false_iff in Ec. destruct Ec as [Ec|Ec]; lv_b2z; [left; exact Ec|right; lia].
      * intros E1 E2. apply andb_false_iff in Ec. destruct Ec as [Ec|Ec]; lv_b2z; [contradiction|lia].
Qed.

(* state level: `moved` is pg_stuck *)
Lemma pg_moved_iff k : moved k <-> pg_stuck (rcv_buf k) (rcv_queue k) (rcv_nxt k) (rcv_wnd k).
Proof. reflexivity. Qed.

(* what the receive side of one endpoint looks like to the link invariant *)
Definition pg_rv (k : kcp) := (rcv_nxt k, rcv_queue k, rcv_buf k, rcv_wnd k).

Lemma pg_rv_got isn k k' i : pg_rv k' = pg_rv k -> got isn k i -> got isn k' i.
Proof. unfold pg_rv, got. intros H. inversion H as [[E1 E2 E3 E4]]. rewrite E1, E3. auto. Qed.

Lemma pg_rv_moved k k' : pg_rv k' = pg_rv k -> moved k -> moved k'.
Proof. unfold pg_rv, moved. intros H. inversion H as [[E1 E2 E3 E4]]. rewrite E1, E2, E3, E4. auto. Qed.

(* do_move_ready from a state whose rcv_nxt has index r *)
Lemma pg_do_move_ready isn k r :
  rcv_nxt k = u32 (isn + r) -> 0 <= r -> r + qlen (rcv_buf k) < H32 ->
  exists m, 0 <= m <= qlen (rcv_buf k) /\ rcv_nxt (do_move_ready k) = u32 (isn + (r + m)) /\
    qlen (rcv_queue (do_move_ready k)) = qlen (rcv_queue k) + m /\
    (m = 0 -> rcv_queue (do_move_ready k) = rcv_queue k /\ rcv_buf (do_move_ready k) = rcv_buf k) /\
    (forall j, 0 <= j < H32 -> (j < r \/ has_sn (u32 (isn + j)) (rcv_buf k) = true) ->
               (j < r + m \/ has_sn (u32 (isn + j)) (rcv_buf (do_move_ready k)) = true)) /\
    moved (do_move_ready k) /\
    (match rcv_buf k with x :: _ => s_sn x = rcv_nxt k -> qlen (rcv_queue k) < rcv_wnd k -> 1 <= m
                        | [] => True end).
Proof.
  intros Hn Hr Hb.
  pose proof (do_move_ready_fields k) as F.
  unfold do_move_ready in *.
  destruct (move_ready (rcv_buf k) (rcv_queue k) (rcv_nxt k) (rcv_wnd k)) as [[rb rq] rn] eqn:E.
  rewrite Hn in E.
  destruct (pg_move_ready isn _ _ _ _ _ _ _ E Hr Hb) as (m & H1 & H2 & H3 & H0 & H4 & H5 & H6).
  exists m. unfold moved. ksimpl. rewrite Hn.
  split; [exact H1|]. split; [exact H2|]. split; [exact H3|]. split; [exact H0|]. split; [exact H4|].
  split; [exact H5|exact H6].
Qed.

(* ================================================================== *)
(* parse_data inside the window, with indices                          *)
(* ================================================================== *)
Lemma pg_parse_data isn k sg r i :
  rb_sorted (rcv_nxt k) 0 (rcv_wnd k) (rcv_buf k) -> 1 <= rcv_wnd k < 32768 ->
  rcv_nxt k = u32 (isn + r) -> 0 <= r -> r + rcv_wnd k + 1 < H32 ->
  s_sn sg = u32 (isn + i) -> r <= i < r + rcv_wnd k -> blen (s_data sg) <= c_mtuLimit ->
  exists k' f m, parse_data k sg = Ok (k', f) /\
    0 <= m <= rcv_wnd k + 1 /\ rcv_nxt k' = u32 (isn + (r + m)) /\ qlen (rcv_queue k') = qlen (rcv_queue k) + m /\
    (m = 0 -> rcv_queue k' = rcv_queue k) /\
    (forall j, 0 <= j < H32 -> (j < r \/ has_sn (u32 (isn + j)) (rcv_buf k) = true) ->
               (j < r + m \/ has_sn (u32 (isn + j)) (rcv_buf k') = true)) /\
    (i < r + m \/ has_sn (u32 (isn + i)) (rcv_buf k') = true) /\ moved k' /\
    (i = r -> qlen (rcv_queue k) < rcv_wnd k -> 1 <= m) /\
    rcv_wnd k' = rcv_wnd k /\ acklist k' = acklist k /\ conv k' = conv k /\
    snd_queue k' = snd_queue k /\ snd_buf k' = snd_buf k.
Proof.
  intros Hsort Hw Hn Hr Hb Hsn Hi Hlen.
  assert (Hu : is_u32 (rcv_nxt k)) by (rewrite Hn; apply u32_range).
  pose proof (rb_sorted_length _ _ _ _ Hsort ltac:(lia)) as Hql.
  unfold parse_data. cbv zeta.
  assert (D1 : itimediff (s_sn sg) (u32 (rcv_nxt k + rcv_wnd k)) = i - (r + rcv_wnd k)).
  { rewrite Hsn, Hn, u32_add_mod. replace (isn + r + rcv_wnd k) with (isn + (r + rcv_wnd k)) by lia.
    apply itimediff_index. unfold H32 in *. lia. }
  assert (D2 : itimediff (s_sn sg) (rcv_nxt k) = i - r).
  { rewrite Hsn, Hn. apply itimediff_index. unfold H32 in *. lia. }
  rewrite D1, D2.
  assert (Ew : (i - (r + rcv_wnd k) >=? 0) || (i - r <? 0) = false).
  { apply orb_false_iff. split; [rewrite Z.geb_leb; apply Z.leb_gt; lia|apply Z.ltb_ge; lia]. }
  rewrite Ew.
  destruct (has_sn (s_sn sg) (rcv_buf k)) eqn:Eh.
  - (* already parked *)
    destruct (pg_do_move_ready isn k r Hn Hr) as (m & M1 & M2 & M3 & M0 & M4 & M5 & M6); [lia|].
    pose proof (do_move_ready_fields k) as F.
    exists (do_move_ready k), true, m. split; [reflexivity|].
    split; [lia|]. split; [exact M2|]. split; [exact M3|]. split; [intros E0; apply M0; exact E0|].
    split; [exact M4|].
    split; [apply M4; [unfold H32 in *; lia|right; rewrite <- Hsn; exact Eh]|].
    split; [exact M5|]. split.
    + intros Eir Hroom. subst i.
      assert (Eh' : has_sn (rcv_nxt k) (rcv_buf k) = true) by (rewrite Hn, <- Hsn; exact Eh).
      destruct (pg_sorted_head _ _ _ Hsort Hu Eh') as (x & t & El & Ex).
      rewrite El in M6. apply M6; assumption.
    + destruct F as (F1 & F2 & F3 & F4 & F5 & F6 & F7 & F8 & F9 & F10 & F11 & F12 & F13 & F14 & F15 & F16).
      unfold do_move_ready.
      destruct (move_ready (rcv_buf k) (rcv_queue k) (rcv_nxt k) (rcv_wnd k)) as [[rb rq] rn].
      ksimpl. repeat split; reflexivity.
  - destruct (blen (s_data sg) >? c_mtuLimit) eqn:El; lv_b2z; [lia|].
    set (k1 := set_rcv_buf k (insert_seg sg (rcv_buf k))).
    assert (Hn1 : rcv_nxt k1 = u32 (isn + r)) by exact Hn.
    assert (Hq1 : qlen (rcv_buf k1) = 1 + qlen (rcv_buf k)) by (unfold k1; ksimpl; apply insert_seg_qlen).
    destruct (pg_do_move_ready isn k1 r Hn1 Hr) as (m & M1 & M2 & M3 & M0 & M4 & M5 & M6); [lia|].
    exists (do_move_ready k1), false, m. split; [reflexivity|].
    split; [lia|]. split; [exact M2|]. split; [exact M3|]. split; [intros E0; apply M0; exact E0|].
    split.
    { intros j Hj Hc. apply M4; [exact Hj|]. destruct Hc as [Hc|Hc]; [left; exact Hc|right].
      unfold k1. ksimpl. apply pg_has_sn_insert. right; exact Hc. }
    split.
    { apply M4; [unfold H32 in *; lia|]. right. unfold k1. ksimpl. apply pg_has_sn_insert. left. exact Hsn. }
    split; [exact M5|]. split.
    + intros Eir Hroom. subst i.
      assert (Ehd : insert_seg sg (rcv_buf k) = sg :: rcv_buf k).
      { apply (pg_insert_head (rcv_nxt k) (rcv_wnd k)); [exact Hsort|exact Eh|rewrite Hn; exact Hsn|exact Hu]. }
      unfold k1 in M6. ksimpl_in M6. rewrite Ehd in M6. apply M6; [rewrite Hn; exact Hsn|exact Hroom].
    + unfold do_move_ready.
      destruct (move_ready (rcv_buf k1) (rcv_queue k1) (rcv_nxt k1) (rcv_wnd k1)) as [[rb rq] rn].
      unfold k1. ksimpl. repeat split; reflexivity.
Qed.

(* ================================================================== *)
(* B: one endpoint that only receives data                             *)
(* ================================================================== *)
Definition pg_ackp (isn : Z) (k : kcp) (p : Z * Z) : Prop :=
  is_u32 (fst p) /\ is_u32 (snd p) /\ got isn k (idx isn (fst p)).

Record pg_bi (isn : Z) (src : list (Z * bytes)) (g : receiver_ghost) (k : kcp) : Prop := mkBI {
  BI_inv : inv k;
  BI_rcv : nr_rcvk src g k;
  BI_isn : rg_isn g = isn /\ is_u32 isn;
  BI_conv : is_u32 (conv k);
  BI_idle : snd_queue k = [] /\ snd_buf k = [];
  BI_acks : Forall (pg_ackp isn k) (acklist k);
  BI_moved : moved k
}.

(* how the receive side of an endpoint evolves *)
Definition pg_bmono (isn : Z) (k k' : kcp) : Prop :=
  idx isn (rcv_nxt k) <= idx isn (rcv_nxt k') /\
  (forall i, got isn k i -> got isn k' i) /\
  (idx isn (rcv_nxt k') = idx isn (rcv_nxt k) -> qlen (rcv_queue k') <= qlen (rcv_queue k)) /\
  rcv_wnd k' = rcv_wnd k /\ conv k' = conv k.

Lemma pg_bmono_refl isn k : pg_bmono isn k k.
Proof. unfold pg_bmono. split; [lia|]. split; [auto|]. split; [lia|]. split; reflexivity. Qed.

Lemma pg_bmono_trans isn k1 k2 k3 : pg_bmono isn k1 k2 -> pg_bmono isn k2 k3 -> pg_bmono isn k1 k3.
Proof.
  intros (A1 & A2 & A3 & A4 & A5) (B1 & B2 & B3 & B4 & B5).
  split; [lia|]. split; [auto|]. split; [intros E; assert (idx isn (rcv_nxt k2) = idx isn (rcv_nxt k1)) by lia;
    assert (idx isn (rcv_nxt k3) = idx isn (rcv_nxt k2)) by lia; specialize (A3 ltac:(assumption));
    specialize (B3 ltac:(assumption)); lia|].
  split; congruence.
Qed.

Lemma pg_bmono_rv isn k k' : pg_rv k' = pg_rv k -> conv k' = conv k -> pg_bmono isn k k'.
Proof.
  intros H Hc. pose proof H as H0. unfold pg_rv in H0. inversion H0 as [[E1 E2 E3 E4]].
  unfold pg_bmono. rewrite E1, E2. split; [lia|]. split; [intros i; apply pg_rv_got; exact H|].
  split; [lia|]. split; assumption.
Qed.

(* the index of rcv_nxt under the receiver invariant *)
Lemma pg_ridx src g k isn :
  nr_rcvk src g k -> rg_isn g = isn -> no_wrap src ->
  exists r, rcv_nxt k = u32 (isn + r) /\ 0 <= r <= Z.of_nat (length src) /\ idx isn (rcv_nxt k) = r.
Proof.
  intros ((r & done & Hrd & Hrn & _) & _) Hisn Hnw. exists (Z.of_nat r). rewrite <- Hisn.
  split; [exact Hrn|]. split; [lia|]. rewrite Hrn. apply pg_idx_u32. unfold no_wrap, H32, W32 in *. lia.
Qed.

Lemma pg_ackp_mono isn k k' p : (forall i, got isn k i -> got isn k' i) -> pg_ackp isn k p -> pg_ackp isn k' p.
Proof. intros H (A & B & C). split; [exact A|]. split; [exact B|apply H; exact C]. Qed.

(* snd side of an idle endpoint through the pre-flush part of Input *)
Lemma pg_idle_pre k k' : ns_pre k k' -> snd_queue k = [] /\ snd_buf k = [] -> snd_queue k' = [] /\ snd_buf k' = [].
Proof.
  intros ((j & Hj & F) & Hq & _) [Eq Eb]. split; [congruence|].
  rewrite Eb in F. destruct j; cbn [skipn] in F; inversion F; reflexivity.
Qed.


Lemma pg_fr_rv k k' : lv_fr k' = lv_fr k ->
  pg_rv k' = pg_rv k /\ conv k' = conv k /\ acklist k' = acklist k.
Proof. unfold lv_fr, pg_rv. intros H. inversion H. repeat split; reflexivity. Qed.

Lemma pg_b_seg isn src g a s rest reg :
  no_wrap src -> pg_bi isn src g (i_k a) -> is_byte_list rest ->
  seg_wf s -> s_conv s = conv (i_k a) -> cmd_ok (s_cmd s) -> genuine_seg isn src s ->
  exists a', input_seg a (encode_seg s ++ rest) reg = inl (Ok (a', rest)) /\
    pg_bi isn src g (i_k a') /\ pg_bmono isn (i_k a) (i_k a') /\
    (exists ext, acklist (i_k a') = acklist (i_k a) ++ ext) /\
    (s_cmd s = c_IKCP_CMD_PUSH -> forall i, s_sn s = u32 (isn + i) -> 0 <= i < H32 - 65536 ->
       (i < idx isn (rcv_nxt (i_k a)) \/
        (i = idx isn (rcv_nxt (i_k a)) /\ qlen (rcv_queue (i_k a)) < rcv_wnd (i_k a))) ->
       i < idx isn (rcv_nxt (i_k a')) /\ acklist (i_k a') <> []).
Proof.
  intros Hnw [Hinv Hrcv [Hisn Hisnu] Hconv Hidle Hacks Hmoved] Hrest Hwf Hcv Hcmd Hgen.
  set (k := i_k a) in *.
  destruct (pg_ridx src g k isn Hrcv Hisn Hnw) as (r & Hrn & Hr & Hridx).
  pose proof (I_rcv_wnd _ Hinv) as Hrw. pose proof (I_rb_sorted _ Hinv) as Hsort.
  assert (Hsrc : Z.of_nat (length src) < H32 - 65536) by exact Hnw.
  assert (Hbytes : is_byte_list (encode_seg s ++ rest)).
  { apply ns_is_byte_list_app. split; [apply nr_encode_bytes; exact Hwf|exact Hrest]. }
  assert (Hblen : c_IKCP_OVERHEAD <= blen (encode_seg s ++ rest)).
  { rewrite blen_app, lv_encode_len. pose proof (blen_nonneg (s_data s)). pose proof (blen_nonneg rest). lia. }
  pose proof (ii_input_seg_ok a _ reg Hinv Hbytes Hblen) as Hii.
  pose proof (nr_input_seg src g a s rest reg Hnw Hwf) as Hnr. rewrite Hisn in Hnr. specialize (Hnr Hgen Hrcv).
  pose proof (ns_input_seg_pre a _ reg Hbytes) as Hns.
  (* the explicit result *)
  assert (Hexp : exists a', input_seg a (encode_seg s ++ rest) reg = inl (Ok (a', rest)) /\
     pg_bmono isn k (i_k a') /\ moved (i_k a') /\
     (exists ext, acklist (i_k a') = acklist k ++ ext /\ Forall (pg_ackp isn (i_k a')) ext) /\
     (s_cmd s = c_IKCP_CMD_PUSH -> forall i, s_sn s = u32 (isn + i) -> 0 <= i < H32 - 65536 ->
       (i < r \/ (i = r /\ qlen (rcv_queue k) < rcv_wnd k)) ->
       i < idx isn (rcv_nxt (i_k a')) /\ acklist (i_k a') <> [])).
  { rewrite (lv_input_seg_eq a s rest reg Hwf Hcv Hcmd). rewrite lv_in_tail_pre. cbv zeta.
    pose proof (lv_fr_pre a s reg) as Hfr.
    assert (Hfr' : conv (lv_pre a s reg) = conv k /\ rcv_nxt (lv_pre a s reg) = rcv_nxt k /\
                   rcv_wnd (lv_pre a s reg) = rcv_wnd k /\ acklist (lv_pre a s reg) = acklist k /\
                   rcv_queue (lv_pre a s reg) = rcv_queue k /\ rcv_buf (lv_pre a s reg) = rcv_buf k).
    { unfold lv_fr in Hfr. fold k in Hfr. destruct reg; inversion Hfr; repeat split; reflexivity. }
    destruct Hfr' as (P1 & P2 & P3 & P4 & P5 & P6).
    set (kp := lv_pre a s reg) in *.
    assert (Hrvp : pg_rv kp = pg_rv k) by (unfold pg_rv; rewrite P2, P3, P5, P6; reflexivity).
    assert (Hsame : forall k', pg_rv k' = pg_rv kp -> conv k' = conv kp -> acklist k' = acklist kp ->
              pg_bmono isn k k' /\ moved k' /\
              (exists ext, acklist k' = acklist k ++ ext /\ Forall (pg_ackp isn k') ext)).
    { intros k' Hrv Hc Ha. assert (Hrv' : pg_rv k' = pg_rv k) by congruence.
      split; [apply pg_bmono_rv; [exact Hrv'|congruence]|].
      split; [apply (pg_rv_moved k); assumption|].
      exists []. rewrite app_nil_r. split; [congruence|constructor]. }
    destruct Hcmd as [E|[E|[E|E]]]; rewrite E.
    - (* PUSH *)
      change (c_IKCP_CMD_PUSH =? c_IKCP_CMD_ACK) with false.
      change (c_IKCP_CMD_PUSH =? c_IKCP_CMD_PUSH) with true. cbv iota.
      destruct (Hgen E) as (i0 & Hi0 & Hsn0 & _).
      rewrite P2, P3, P4.
      assert (Hinj : forall i, s_sn s = u32 (isn + i) -> 0 <= i < H32 - 65536 -> i = Z.of_nat i0).
      { intros i Hs Hi. apply (u32_inj_index isn); [unfold H32 in *; lia|congruence]. }
      assert (D1 : itimediff (s_sn s) (u32 (rcv_nxt k + rcv_wnd k)) = Z.of_nat i0 - (r + rcv_wnd k)).
      { rewrite Hsn0, Hrn, u32_add_mod. replace (isn + r + rcv_wnd k) with (isn + (r + rcv_wnd k)) by lia.
        apply itimediff_index. unfold H32 in *. lia. }
      rewrite D1.
      destruct (Z.of_nat i0 - (r + rcv_wnd k) <? 0) eqn:Ew; lv_b2z.
      + set (k4 := set_acklist kp (acklist k ++ [(s_sn s, s_ts s)])).
        assert (D2 : itimediff (s_sn s) (rcv_nxt k4) = Z.of_nat i0 - r).
        { unfold k4. ksimpl. rewrite P2, Hsn0, Hrn. apply itimediff_index. unfold H32 in *. lia. }
        rewrite D2.
        assert (Hu32 : is_u32 (s_sn s) /\ is_u32 (s_ts s)).
        { destruct Hwf as (_ & _ & _ & _ & W5 & W6 & _). split; assumption. }
        assert (Hidx0 : idx isn (s_sn s) = Z.of_nat i0).
        { rewrite Hsn0. apply pg_idx_u32. unfold H32, W32 in *. lia. }
        destruct (Z.of_nat i0 - r >=? 0) eqn:Ed; lv_b2z.
        * (* inside the window *)
          set (sg := mkSeg (s_conv s) c_IKCP_CMD_PUSH (s_frg s) (s_wnd s) (s_ts s) (s_sn s) (s_una s) 0 0 0 0 0 (s_data s)).
          destruct (pg_parse_data isn k4 sg r (Z.of_nat i0)) as
            (k5 & f & m & Epd & M0 & M1 & M2 & Mz & M3 & M4 & M5 & M6 & M7 & M8 & M9 & _).
          { unfold k4. ksimpl. rewrite P2, P3, P6. exact Hsort. }
          { unfold k4. ksimpl. rewrite P3. exact Hrw. }
          { unfold k4. ksimpl. rewrite P2. exact Hrn. }
          { lia. }
          { unfold k4. ksimpl. rewrite P3. unfold H32 in *. lia. }
          { exact Hsn0. }
          { unfold k4. ksimpl. rewrite P3. lia. }
          { destruct Hwf as (_ & _ & _ & _ & _ & _ & _ & _ & W9). exact W9. }
          fold sg. rewrite Epd. eexists. split; [reflexivity|]. cbn [i_k].
          unfold k4 in M0, M2, Mz, M3, M6, M7, M8, M9. ksimpl_in M0. ksimpl_in M2. ksimpl_in Mz. ksimpl_in M3.
          ksimpl_in M6. ksimpl_in M7. ksimpl_in M8. ksimpl_in M9.
          rewrite ?P3, ?P5, ?P6 in *.
          assert (Hr5 : idx isn (rcv_nxt k5) = r + m).
          { rewrite M1. apply pg_idx_u32. unfold H32, W32 in *. lia. }
          assert (Hgot5 : forall j, got isn k j -> got isn k5 j).
          { intros j (Hj & Hc). split; [exact Hj|]. rewrite Hr5. rewrite Hridx in Hc. apply M3; assumption. }
          split.
          { unfold pg_bmono. rewrite Hr5, Hridx. split; [lia|]. split; [exact Hgot5|].
            split; [intros E0; assert (m = 0) by lia; rewrite (Mz H); lia|].
            split; [exact M7|congruence]. }
          split; [exact M5|]. split.
          { exists [(s_sn s, s_ts s)]. split; [exact M8|]. constructor; [|constructor].
            unfold pg_ackp. cbn [fst snd]. split; [exact (proj1 Hu32)|]. split; [exact (proj2 Hu32)|].
            rewrite Hidx0. split; [unfold H32 in *; lia|]. rewrite Hr5. exact M4. }
          intros _ i Hs Hi Hc. rewrite (Hinj i Hs Hi) in *. rewrite Hr5.
          split; [|rewrite M8; intros Hn; destruct (acklist k); discriminate].
          destruct Hc as [Hc|[Hc Hroom]]; [lia|]. specialize (M6 Hc Hroom). lia.
        * (* a duplicate below rcv_nxt *)
          eexists. split; [reflexivity|]. cbn [i_k].
          assert (Hrv4 : pg_rv k4 = pg_rv k) by exact Hrvp.
          split; [apply pg_bmono_rv; [exact Hrv4|exact P1]|].
          split; [apply (pg_rv_moved k); assumption|]. split.
          { exists [(s_sn s, s_ts s)]. split; [reflexivity|]. constructor; [|constructor].
            unfold pg_ackp. cbn [fst snd]. split; [exact (proj1 Hu32)|]. split; [exact (proj2 Hu32)|].
            rewrite Hidx0. apply (pg_rv_got isn k k4); [exact Hrv4|].
            split; [unfold H32 in *; lia|]. left. rewrite Hridx. lia. }
          intros _ i Hs Hi Hc. rewrite (Hinj i Hs Hi) in *.
          change (rcv_nxt k4) with (rcv_nxt kp). rewrite P2, Hridx.
          split; [lia|]. unfold k4. ksimpl. intros Hn; destruct (acklist k); discriminate.
      + (* beyond the window: ignored *)
        eexists. split; [reflexivity|]. cbn [i_k].
        destruct (Hsame kp eq_refl eq_refl eq_refl) as (S1 & S2 & S3).
        split; [exact S1|]. split; [exact S2|]. split; [exact S3|].
        intros _ i Hs Hi Hc. rewrite (Hinj i Hs Hi) in *. lia.
    - (* ACK *)
      change (c_IKCP_CMD_ACK =? c_IKCP_CMD_ACK) with true. cbv iota.
      pose proof (lv_fr_parse_fastack (parse_ack kp (s_sn s)) (s_sn s) (s_ts s)) as F2.
      destruct (parse_fastack (parse_ack kp (s_sn s)) (s_sn s) (s_ts s)) as [k2 f]. cbn [fst] in F2.
      pose proof (lv_fr_shrink_buf k2) as F3. rewrite F2, lv_fr_parse_ack in F3.
      destruct (pg_fr_rv _ _ F3) as (R1 & R2 & R3).
      eexists. split; [reflexivity|]. cbn [i_k].
      destruct (Hsame _ R1 R2 R3) as (S1 & S2 & S3).
      split; [exact S1|]. split; [exact S2|]. split; [exact S3|].
      intros Hc. unfold c_IKCP_CMD_ACK, c_IKCP_CMD_PUSH in Hc. discriminate.
    - (* WASK *)
      change (c_IKCP_CMD_WASK =? c_IKCP_CMD_ACK) with false.
      change (c_IKCP_CMD_WASK =? c_IKCP_CMD_PUSH) with false.
      change (c_IKCP_CMD_WASK =? c_IKCP_CMD_WASK) with true. cbv iota.
      eexists. split; [reflexivity|]. cbn [i_k].
      destruct (Hsame (set_probe_flags kp (Z.lor (probe kp) c_IKCP_ASK_TELL)) eq_refl eq_refl eq_refl) as (S1 & S2 & S3).
      split; [exact S1|]. split; [exact S2|]. split; [exact S3|].
      intros Hc. unfold c_IKCP_CMD_WASK, c_IKCP_CMD_PUSH in Hc. discriminate.
    - (* WINS *)
      change (c_IKCP_CMD_WINS =? c_IKCP_CMD_ACK) with false.
      change (c_IKCP_CMD_WINS =? c_IKCP_CMD_PUSH) with false.
      change (c_IKCP_CMD_WINS =? c_IKCP_CMD_WASK) with false. cbv iota.
      eexists. split; [reflexivity|]. cbn [i_k].
      destruct (Hsame kp eq_refl eq_refl eq_refl) as (S1 & S2 & S3).
      split; [exact S1|]. split; [exact S2|]. split; [exact S3|].
      intros Hc. unfold c_IKCP_CMD_WINS, c_IKCP_CMD_PUSH in Hc. discriminate. }
  destruct Hexp as (a' & Ea & Hmono & Hmv & (ext & Hext & Hextok) & Hhit).
  rewrite Ea in Hii, Hnr, Hns.
  destruct Hii as (Hinv' & _). destruct Hnr as (_ & Hrcv'). destruct Hns as (Hpre & _).
  exists a'. split; [exact Ea|].
  split.
  { constructor; try assumption.
    - split; assumption.
    - destruct Hmono as (_ & _ & _ & _ & Hc5). rewrite Hc5. exact Hconv.
    - exact (pg_idle_pre _ _ Hpre Hidle).
    - rewrite Hext. apply Forall_app. split; [|exact Hextok].
      eapply Forall_impl; [|exact Hacks]. intros p. apply pg_ackp_mono. exact (proj1 (proj2 Hmono)). }
  split; [exact Hmono|]. split; [exists ext; exact Hext|].
  rewrite Hridx. exact Hhit.
Qed.

(* ================================================================== *)
(* what an endpoint with an idle sending side emits                    *)
(* ================================================================== *)
(* the control segment flush builds from its header template *)
Definition pg_ctl (k : kcp) (c sn ts : Z) : seg :=
  mkSeg (conv k) c 0 (wnd_unused k) ts sn (rcv_nxt k) 0 0 0 0 0 [].

(* header templates met while flushing acklist `al` *)
Definition pg_hdr_ok (k : kcp) (al : list (Z * Z)) (h : seg) : Prop :=
  s_conv h = conv k /\ s_cmd h = c_IKCP_CMD_ACK /\ s_frg h = 0 /\ s_wnd h = wnd_unused k /\
  s_una h = rcv_nxt k /\ ((s_sn h, s_ts h) = (0, 0) \/ In (s_sn h, s_ts h) al).

Lemma pg_acks_out (P : seg -> Prop) k k0 al0 : forall al h st h' st',
  (forall sn ts, In (sn, ts) al0 -> P (pg_ctl k0 c_IKCP_CMD_ACK sn ts)) ->
  (forall p, In p al -> In p al0) ->
  pg_hdr_ok k0 al0 h -> ns_stage_ok P st -> flush_acks k h st al = Ok (h', st') ->
  pg_hdr_ok k0 al0 h' /\ ns_stage_ok P st'.
Proof.
  induction al as [|[sn ts] t IH]; intros h st h' st' HP Hsub Hh Hst H; cbn [flush_acks] in H.
  - inversion H; subst. split; assumption.
  - pose proof (ns_space_ok P k st c_IKCP_OVERHEAD Hst) as Hst1.
    assert (Hsub' : forall p, In p t -> In p al0) by (intros p Hp; apply Hsub; right; exact Hp).
    destruct ((itimediff sn (rcv_nxt k) >=? 0) || match t with [] => true | _ :: _ => false end).
    + set (h1 := mkSeg (s_conv h) (s_cmd h) (s_frg h) (s_wnd h) ts sn (s_una h) 0 0 0 0 0 []) in *.
      destruct (stage_write k (make_space k st c_IKCP_OVERHEAD) h1) as [st2|w] eqn:Ew; [|discriminate].
      destruct Hh as (H1 & H2 & H3 & H4 & H5 & H6).
      assert (Hin : In (sn, ts) al0) by (apply Hsub; left; reflexivity).
      assert (Hh1 : pg_hdr_ok k0 al0 h1).
      { unfold pg_hdr_ok, h1. lv_segf. repeat (split; [assumption|]). right. exact Hin. }
      assert (Hp : P h1).
      { unfold h1. rewrite H1, H2, H3, H4, H5. exact (HP sn ts Hin). }
      apply (IH h1 st2 h' st' HP Hsub' Hh1); [|exact H].
      exact (ns_write_ok P _ _ _ _ Hst1 Hp Ew).
    + exact (IH h _ h' st' HP Hsub' Hh Hst1 H).
Qed.

Lemma pg_flush_out_idle (P : seg -> Prop) k ft now k' nx o :
  snd_queue k = [] -> snd_buf k = [] -> flush k ft now = Ok (k', nx, o) ->
  (forall sn ts, In (sn, ts) (acklist k) -> P (pg_ctl k c_IKCP_CMD_ACK sn ts)) ->
  (forall c sn ts, c = c_IKCP_CMD_WASK \/ c = c_IKCP_CMD_WINS ->
     (sn, ts) = (0, 0) \/ In (sn, ts) (acklist k) -> P (pg_ctl k c sn ts)) ->
  Forall (ns_dg P) o.
Proof.
  intros Hq Hb Hfl HPa HPc.
  destruct (ns_flush_invert _ _ _ _ _ _ Hfl)
    as (h1 & st1 & k1 & st2 & st3 & sq & sb & nxt & ns & sb' & fa & E1 & E2 & E3 & E4 & E5 & Ek & Eo).
  (* phase 1 *)
  assert (H1 : pg_hdr_ok k (acklist k) h1 /\ ns_stage_ok P st1).
  { assert (Hh0 : pg_hdr_ok k (acklist k) (ns_h0 k)).
    { unfold pg_hdr_ok, ns_h0. lv_segf. repeat (split; [reflexivity|]). left; reflexivity. }
    unfold ns_ph1 in E1. destruct ((ft =? FLUSH_ACKONLY) || (ft =? FLUSH_FULL)).
    - destruct (flush_acks k (ns_h0 k) (mkStage [] []) (acklist k)) as [[h st]|w] eqn:Ef; [|discriminate].
      inversion E1; subst h st k1.
      exact (pg_acks_out P k k (acklist k) _ _ _ _ _ HPa (fun p Hp => Hp) Hh0 (ns_stage0 P) Ef).
    - inversion E1; subst. split; [exact Hh0|apply ns_stage0]. }
  destruct H1 as [Hh1 Hst1].
  (* phase 3 *)
  assert (H3 : forall st st' flag c, c = c_IKCP_CMD_WASK \/ c = c_IKCP_CMD_WINS -> ns_stage_ok P st ->
                 ns_ph3 (ns_ph2 k1 now) h1 st flag c = Ok st' -> ns_stage_ok P st').
  { intros st st' flag c Hc Hst. unfold ns_ph3. destruct (negb (Z.land (probe (ns_ph2 k1 now)) flag =? 0)).
    - intros H. eapply ns_write_ok; [apply ns_space_ok; exact Hst| |exact H].
      destruct Hh1 as (A1 & A2 & A3 & A4 & A5 & A6). unfold ns_hdr. rewrite A1, A3, A4, A5.
      apply (HPc c (s_sn h1) (s_ts h1) Hc). exact A6.
    - intros H; inversion H; subst. exact Hst. }
  pose proof (H3 _ _ _ _ (or_introl eq_refl) Hst1 E2) as Hst2.
  pose proof (H3 _ _ _ _ (or_intror eq_refl) Hst2 E3) as Hst3.
  (* phases 4 and 5: nothing to send *)
  assert (F1 : snd_queue k1 = [] /\ snd_buf k1 = []).
  { destruct (ns_ph1_k _ _ _ _ _ E1) as [E|E]; subst k1; ksimpl; split; assumption. }
  pose proof (ns_sf_ph2 k1 now) as (Gq & Gb & _).
  destruct (ns_ph4_spec _ _ _ _ _ _ E4) as (pre & adm & Eq & Esb & Hadm).
  change (snd_queue (set_probe_flags (ns_ph2 k1 now) 0)) with (snd_queue (ns_ph2 k1 now)) in Eq.
  change (snd_buf (set_probe_flags (ns_ph2 k1 now) 0)) with (snd_buf (ns_ph2 k1 now)) in Esb.
  rewrite Gq, (proj1 F1) in Eq. rewrite Gb, (proj2 F1) in Esb.
  assert (pre = []) by (destruct pre; [reflexivity|discriminate]). subst pre.
  inversion Hadm; subst adm. cbn [app] in Esb. subst sb.
  destruct (ns_ph5_ok P _ _ _ _ _ _ _ _ E5) as [_ Hst5].
  rewrite Eo. apply ns_buffer_ok. apply Hst5; [exact Hst3|]. constructor.
Qed.

(* the state after a flush of an idle endpoint *)
Lemma pg_flush_idle_state k ft now k' nx o :
  inv k -> snd_queue k = [] -> snd_buf k = [] -> flush k ft now = Ok (k', nx, o) ->
  (ft = FLUSH_FULL \/ ft = FLUSH_ACKONLY) ->
  pg_rv k' = pg_rv k /\ conv k' = conv k /\ acklist k' = [] /\ snd_queue k' = [] /\ snd_buf k' = [] /\
  mtu k' = mtu k /\ rmt_wnd k' = rmt_wnd k.
Proof.
  intros Hinv Hq Hb Hfl Hft.
  destruct (fl_shape k ft now k' nx o Hfl)
    as (al & tsp & pw & st & sst & cwn & inc & h1 & st3 & sq & sb & nxt & ns & k4 & sb' & a &
        Hk' & Hal & _ & _ & E4 & Esb & E5).
  assert (Esq : sq = [] /\ sb = []).
  { unfold fl_ph4 in E4. rewrite Hq, Hb in E4. destruct (ft =? FLUSH_FULL); cbn [admit_segs] in E4;
      inversion E4; split; reflexivity. }
  destruct Esq as [-> ->].
  pose proof (fl_ph5_rel _ _ _ _ _ _ _ _ E5) as Hrel. rewrite Esb in Hrel. inversion Hrel; subst sb'.
  subst k'. unfold fl_final, pg_rv. fl_fields. rewrite (Hal Hft). repeat split; reflexivity.
Qed.

(* ================================================================== *)
(* B's segments                                                        *)
(* ================================================================== *)
(* a segment emitted by a receive-only endpoint in state k *)
Definition pg_bseg (isn : Z) (k : kcp) (x : seg) : Prop :=
  seg_wf x /\ s_conv x = conv k /\
  (s_cmd x = c_IKCP_CMD_ACK \/ s_cmd x = c_IKCP_CMD_WASK \/ s_cmd x = c_IKCP_CMD_WINS) /\
  s_una x = rcv_nxt k /\ (s_cmd x = c_IKCP_CMD_ACK -> got isn k (idx isn (s_sn x))) /\
  s_wnd x = wnd_unused k.

Lemma pg_bseg_ctl isn k c sn ts :
  inv k -> is_u32 (conv k) -> c = c_IKCP_CMD_ACK \/ c = c_IKCP_CMD_WASK \/ c = c_IKCP_CMD_WINS ->
  is_u32 sn -> is_u32 ts -> (c = c_IKCP_CMD_ACK -> got isn k (idx isn sn)) ->
  pg_bseg isn k (pg_ctl k c sn ts).
Proof.
  intros Hinv Hc Hcmd Hsn Hts Hgot. unfold pg_bseg, pg_ctl. lv_segf.
  split; [|split; [reflexivity|split; [exact Hcmd|split; [reflexivity|split; [exact Hgot|reflexivity]]]]].
  unfold seg_wf. lv_segf. split; [exact Hc|].
  split; [unfold c_IKCP_CMD_ACK, c_IKCP_CMD_WASK, c_IKCP_CMD_WINS in Hcmd; lia|].
  split; [lia|]. split; [apply ns_wnd_unused_range|]. split; [exact Hts|]. split; [exact Hsn|].
  split; [exact (I_rnxt_u32 _ Hinv)|]. split; [constructor|]. change (blen []) with 0. unfold c_mtuLimit. lia.
Qed.

(* ================================================================== *)
(* B, call by call                                                     *)
(* ================================================================== *)
Definition pg_segB (isn : Z) (src : list (Z * bytes)) (cv : Z) (s : seg) : Prop :=
  seg_wf s /\ s_conv s = cv /\ cmd_ok (s_cmd s) /\ genuine_seg isn src s.

(* index i is below rcv_nxt, or is the next one and the delivery queue has room *)
Definition pg_J (isn : Z) (k : kcp) (i : Z) : Prop :=
  i < idx isn (rcv_nxt k) \/ (i = idx isn (rcv_nxt k) /\ qlen (rcv_queue k) < rcv_wnd k).

(* some non-empty datagram of o consists of segments of state k *)
Definition pg_out_some (isn : Z) (k : kcp) (o : list bytes) : Prop :=
  exists d x t, In d o /\ d = concat (map encode_seg (x :: t)) /\ Forall (pg_bseg isn k) (x :: t).

Lemma pg_J_mono isn k k' i : pg_bmono isn k k' -> pg_J isn k i -> pg_J isn k' i.
Proof.
  intros (T1 & _ & T3 & T4 & _) [H|[H1 H2]]; unfold pg_J.
  - left; lia.
  - destruct (Z.eq_dec (idx isn (rcv_nxt k')) (idx isn (rcv_nxt k))) as [E|E].
    + right. specialize (T3 E). rewrite T4. lia.
    + left. lia.
Qed.

Lemma pg_bseg_rv isn k k' x : pg_rv k' = pg_rv k -> conv k' = conv k -> pg_bseg isn k x -> pg_bseg isn k' x.
Proof.
  intros Hrv Hc (A & B & C & D & E & W). pose proof Hrv as H0. unfold pg_rv in H0. inversion H0 as [[E1 E2 E3 E4]].
  unfold pg_bseg. rewrite Hc, E1. split; [exact A|]. split; [exact B|]. split; [exact C|]. split; [exact D|].
  split; [intros Hc'; apply (pg_rv_got isn k k'); [exact Hrv|]; exact (E Hc')|].
  rewrite W. unfold wnd_unused. rewrite E2, E4. reflexivity.
Qed.

Lemma pg_rv_nr k k' : pg_rv k' = pg_rv k -> nr_rcv k' = nr_rcv k.
Proof. unfold pg_rv, nr_rcv. intros H. inversion H. reflexivity. Qed.

Lemma pg_bi_frame isn src g k k' :
  pg_bi isn src g k -> inv k' -> pg_rv k' = pg_rv k -> conv k' = conv k -> acklist k' = acklist k ->
  snd_queue k' = snd_queue k -> snd_buf k' = snd_buf k -> pg_bi isn src g k'.
Proof.
  intros [Hinv Hrcv Hisn Hconv Hidle Hacks Hmoved] Hinv' Hrv Hc Ha Hq Hb.
  constructor.
  - exact Hinv'.
  - apply (nr_rcvk_frame src g k k'); [apply pg_rv_nr; exact Hrv|exact Hrcv].
  - exact Hisn.
  - rewrite Hc; exact Hconv.
  - rewrite Hq, Hb; exact Hidle.
  - rewrite Ha. eapply Forall_impl; [|exact Hacks]. intros p. apply pg_ackp_mono.
    intros i. apply pg_rv_got. exact Hrv.
  - apply (pg_rv_moved k); assumption.
Qed.

(* ---- flush ---- *)
Lemma pg_b_flush isn src g k ft now k' nx o :
  pg_bi isn src g k -> ft = FLUSH_FULL \/ ft = FLUSH_ACKONLY -> flush k ft now = Ok (k', nx, o) ->
  pg_bi isn src g k' /\ pg_rv k' = pg_rv k /\ conv k' = conv k /\ acklist k' = [] /\
  Forall (ns_dg (pg_bseg isn k')) o /\ (acklist k <> [] -> pg_out_some isn k' o).
Proof.
  intros Hbi Hft Hfl. pose proof Hbi as [Hinv Hrcv Hisn Hconv [Hq Hb] Hacks Hmoved].
  destruct (pg_flush_idle_state k ft now k' nx o Hinv Hq Hb Hfl Hft) as (Hrv & Hc & Ha & Hq' & Hb' & _).
  destruct (flush_ok k ft now Hinv) as (k2 & nx2 & o2 & Hfl2 & Hinv' & _).
  rewrite Hfl in Hfl2. inversion Hfl2; subst k2 nx2 o2. clear Hfl2.
  assert (Hout : Forall (ns_dg (pg_bseg isn k')) o).
  { apply (pg_flush_out_idle (pg_bseg isn k') k ft now k' nx o Hq Hb Hfl).
    - intros sn ts Hin. apply (pg_bseg_rv isn k k'); [exact Hrv|exact Hc|].
      pose proof (proj1 (Forall_forall _ _) Hacks _ Hin) as (A1 & A2 & A3). cbn [fst snd] in *.
      apply pg_bseg_ctl; try assumption; [left; reflexivity|intros _; exact A3].
    - intros c sn ts Hcmd Hin. apply (pg_bseg_rv isn k k'); [exact Hrv|exact Hc|].
      assert (Hu : is_u32 sn /\ is_u32 ts).
      { destruct Hin as [E|Hin]; [inversion E; subst; unfold is_u32, W32; lia|].
        pose proof (proj1 (Forall_forall _ _) Hacks _ Hin) as (A1 & A2 & A3). split; assumption. }
      apply pg_bseg_ctl; try assumption; [right; exact Hcmd|exact (proj1 Hu)|exact (proj2 Hu)|].
      intros E. unfold c_IKCP_CMD_ACK, c_IKCP_CMD_WASK, c_IKCP_CMD_WINS in *. lia. }
  split.
  { constructor; try assumption.
    - apply (nr_rcvk_frame src g k k'); [apply pg_rv_nr; exact Hrv|exact Hrcv].
    - rewrite Hc; exact Hconv.
    - split; assumption.
    - rewrite Ha. constructor.
    - apply (pg_rv_moved k); assumption. }
  split; [exact Hrv|]. split; [exact Hc|]. split; [exact Ha|]. split; [exact Hout|].
  intros Hne. destruct (exists_last Hne) as (l & [sn ts] & El).
  destruct (flush_acks_owed k ft now k' nx o Hinv Hft Hfl) as (_ & _ & Hlast).
  destruct (Hlast sn ts l El) as (d & segs1 & s1 & Hd & Ed & Hin & _).
  pose proof (proj1 (Forall_forall _ _) Hout d Hd) as (segs2 & Ed2 & Hok).
  destruct segs2 as [|x t].
  - exfalso. pose proof (lv_enc_in_pos s1 segs1 Hin) as Hp. rewrite <- Ed, Ed2 in Hp. cbn in Hp. lia.
  - exists d, x, t. split; [exact Hd|]. split; [exact Ed2|exact Hok].
Qed.

(* ---- Recv ---- *)
Lemma pg_b_recv isn src g k n k' r d :
  no_wrap src -> pg_bi isn src g k -> recv k n = (k', r, d) ->
  pg_bmono isn k k' /\ moved k' /\ acklist k' = acklist k /\ conv k' = conv k /\
  snd_queue k' = snd_queue k /\ snd_buf k' = snd_buf k.
Proof.
  intros Hnw [Hinv Hrcv [Hisn Hisnu] Hconv Hidle Hacks Hmoved] H.
  pose proof (ns_sf_recv k n) as Hsf. rewrite H in Hsf. cbn [fst] in Hsf.
  destruct Hsf as (Sq & Sb & _ & _ & Sc & _ & Sa).
  assert (Hmain : pg_bmono isn k k' /\ moved k').
  { destruct (pg_ridx src g k isn Hrcv Hisn Hnw) as (r0 & Hrn & Hr & Hridx).
    assert (Hsrc : Z.of_nat (length src) < H32 - 65536) by exact Hnw.
    pose proof (inv_rcv_buf_bound k Hinv) as Hbb. pose proof (I_rcv_wnd _ Hinv) as Hrw.
    unfold recv in H. cbv zeta in H.
    destruct (peeksize k <? 0); [inversion H; subst; split; [apply pg_bmono_refl|exact Hmoved]|].
    destruct (peeksize k >? n); [inversion H; subst; split; [apply pg_bmono_refl|exact Hmoved]|].
    destruct (pop_msg (rcv_queue k)) as [d0 rq] eqn:Ep.
    destruct (pop_msg_ok (fun _ => True) _ _ _ Ep) as [Hlen _].
    set (k0 := set_rcv_queue k rq) in *.
    destruct (pg_do_move_ready isn k0 r0) as (m & M1 & M2 & M3 & M0 & M4 & M5 & _);
      [exact Hrn|lia|unfold k0; ksimpl; unfold H32 in *; lia|].
    set (k1 := do_move_ready k0) in *.
    pose proof (do_move_ready_fields k0) as F. fold k1 in F.
    destruct F as (F1 & _ & _ & _ & _ & _ & _ & _ & _ & F10 & _).
    unfold k0 in M1, M3, M0, M4. ksimpl_in M1. ksimpl_in M3. ksimpl_in M0. ksimpl_in M4.
    assert (Hr1 : idx isn (rcv_nxt k1) = r0 + m).
    { rewrite M2. apply pg_idx_u32. unfold H32, W32 in *. lia. }
    assert (Hb1 : pg_bmono isn k k1 /\ moved k1).
    { split; [|exact M5]. unfold pg_bmono. rewrite Hr1, Hridx. split; [lia|]. split.
      - intros j (Hj & Hc). split; [exact Hj|]. rewrite Hr1. rewrite Hridx in Hc. apply M4; assumption.
      - split; [intros E0; assert (Hm0 : m = 0) by lia; rewrite (proj1 (M0 Hm0)); exact Hlen|].
        split; [exact F10|exact F1]. }
    destruct ((qlen (rcv_queue k1) <? rcv_wnd k1) && (qlen (rcv_queue k) >=? rcv_wnd k));
      inversion H; subst k' r d; [|exact Hb1].
    destruct Hb1 as [Hb1 Hm1]. split.
    - eapply pg_bmono_trans; [exact Hb1|]. apply pg_bmono_rv; reflexivity.
    - apply (pg_rv_moved k1); [reflexivity|exact Hm1]. }
  destruct Hmain as [H1 H2]. split; [exact H1|]. split; [exact H2|]. repeat split; assumption.
Qed.

(* ---- Input of a datagram of genuine segments ---- *)
Lemma pg_b_input isn src g k segs reg nd now k' r o :
  no_wrap src -> pg_bi isn src g k -> Forall (pg_segB isn src (conv k)) segs ->
  input k (concat (map encode_seg segs)) reg nd now = Ok (k', r, o) ->
  pg_bi isn src g k' /\ pg_bmono isn k k' /\ Forall (ns_dg (pg_bseg isn k')) o /\
  (acklist k <> [] -> acklist k' <> [] \/ pg_out_some isn k' o) /\
  (forall s0 i, In s0 segs -> s_cmd s0 = c_IKCP_CMD_PUSH -> s_sn s0 = u32 (isn + i) ->
     0 <= i < H32 - 65536 -> pg_J isn k i ->
     i < idx isn (rcv_nxt k') /\ (acklist k' <> [] \/ pg_out_some isn k' o)).
Proof.
  intros Hnw Hbi HQ Hin.
  destruct segs as [|s1 t1].
  { cbn [map concat] in Hin. unfold input in Hin. rewrite pg_input_pre_nil in Hin. inversion Hin; subst k' r o.
    split; [exact Hbi|]. split; [apply pg_bmono_refl|]. split; [constructor|]. split; [intros H; left; exact H|].
    intros s0 i []. }
  set (segs := s1 :: t1) in *.
  set (I := fun (pre : list seg) (a : inp) =>
    pg_bi isn src g (i_k a) /\ pg_bmono isn k (i_k a) /\ (exists ext, acklist (i_k a) = acklist k ++ ext) /\
    (forall s0 i, In s0 pre -> s_cmd s0 = c_IKCP_CMD_PUSH -> s_sn s0 = u32 (isn + i) ->
       0 <= i < H32 - 65536 -> pg_J isn k i ->
       i < idx isn (rcv_nxt (i_k a)) /\ acklist (i_k a) <> [])).
  destruct (pg_input_pre I (pg_segB isn src (conv k)) reg k segs nd now) as (a' & HI & Epre).
  { intros s (H & _). exact H. }
  { intros pre a s rest (I1 & I2 & (ext & I3) & I4) (Q1 & Q2 & Q3 & Q4) Hrest.
    assert (Hcv : conv (i_k a) = conv k) by (destruct I2 as (_ & _ & _ & _ & H); exact H).
    destruct (pg_b_seg isn src g a s rest reg Hnw I1 Hrest Q1) as (a1 & E1 & B1 & B2 & (e2 & B3) & B4);
      [congruence|exact Q3|exact Q4|].
    exists a1. split; [exact E1|]. split; [exact B1|]. split; [eapply pg_bmono_trans; eassumption|].
    split; [exists (ext ++ e2); rewrite B3, I3, app_assoc; reflexivity|].
    intros s0 i Hs0 Hc Hsn Hi HJ. apply in_app_or in Hs0. destruct Hs0 as [Hs0|[Hs0|[]]].
    - destruct (I4 s0 i Hs0 Hc Hsn Hi HJ) as [H1 H2]. destruct B2 as (T1 & _). split; [lia|].
      rewrite B3. intros Hn. apply app_eq_nil in Hn. apply H2. exact (proj1 Hn).
    - subst s0. apply (B4 Hc i Hsn Hi). exact (pg_J_mono isn k (i_k a) i I2 HJ). }
  { exact HQ. }
  { discriminate. }
  { split; [exact Hbi|]. split; [apply pg_bmono_refl|]. split; [exists []; rewrite app_nil_r; reflexivity|].
    intros s0 i []. }
  destruct HI as (I1 & I2 & (ext & I3) & I4).
  set (k3 := pg_post k a' reg now) in *.
  destruct (pg_fx_all _ _ (pg_fx_post k a' reg now)) as
    (X1 & X2 & X3 & X4 & X5 & X6 & X7 & X8 & X9 & X10 & X11 & X12 & X13 & X14 & X15 & X16 & X17 & X18).
  fold k3 in X1, X2, X3, X4, X5, X6, X7, X8, X9, X10, X11, X12, X13, X14, X15, X16, X17, X18.
  assert (Hrv3 : pg_rv k3 = pg_rv (i_k a')) by (unfold pg_rv; rewrite X5, X13, X15, X7; reflexivity).
  assert (Hinv3 : inv k3).
  { pose proof I1 as [Hinv0 _ _ _ _ _ _].
    assert (Hbl : is_byte_list (concat (map encode_seg segs))).
    { apply pg_concat_bytes. eapply Forall_impl; [|exact HQ]. intros s (H & _). exact H. }
    destruct (input_pre_ok k _ reg nd now (BI_inv _ _ _ _ Hbi) Hbl) as (k2 & r2 & fr2 & E2 & Hi2 & _).
    rewrite Epre in E2. inversion E2; subst. exact Hi2. }
  assert (Hbi3 : pg_bi isn src g k3) by (apply (pg_bi_frame isn src g (i_k a')); assumption).
  assert (Hm3 : pg_bmono isn k k3).
  { eapply pg_bmono_trans; [exact I2|]. apply pg_bmono_rv; assumption. }
  assert (Hhit3 : forall s0 i, In s0 segs -> s_cmd s0 = c_IKCP_CMD_PUSH -> s_sn s0 = u32 (isn + i) ->
       0 <= i < H32 - 65536 -> pg_J isn k i -> i < idx isn (rcv_nxt k3) /\ acklist k3 <> []).
  { intros s0 i Hs0 Hc Hsn Hi HJ. rewrite X5, X16. exact (I4 s0 i Hs0 Hc Hsn Hi HJ). }
  assert (Hal3 : acklist k <> [] -> acklist k3 <> []).
  { intros Hne. rewrite X16, I3. intros Hn. apply app_eq_nil in Hn. apply Hne. exact (proj1 Hn). }
  unfold input in Hin. rewrite Epre in Hin.
  assert (Hfl : forall ft k4 nx o4, ft = FLUSH_FULL \/ ft = FLUSH_ACKONLY -> flush k3 ft now = Ok (k4, nx, o4) ->
    pg_bi isn src g k4 /\ pg_bmono isn k k4 /\ Forall (ns_dg (pg_bseg isn k4)) o4 /\
    (acklist k <> [] -> acklist k4 <> [] \/ pg_out_some isn k4 o4) /\
    (forall s0 i, In s0 segs -> s_cmd s0 = c_IKCP_CMD_PUSH -> s_sn s0 = u32 (isn + i) ->
       0 <= i < H32 - 65536 -> pg_J isn k i ->
       i < idx isn (rcv_nxt k4) /\ (acklist k4 <> [] \/ pg_out_some isn k4 o4))).
  { intros ft k4 nx o4 Hft Ef.
    destruct (pg_b_flush isn src g k3 ft now k4 nx o4 Hbi3 Hft Ef) as (F1 & F2 & F3 & F4 & F5 & F6).
    split; [exact F1|]. split; [eapply pg_bmono_trans; [exact Hm3|apply pg_bmono_rv; assumption]|].
    split; [exact F5|]. split; [intros Hne; right; apply F6; apply Hal3; exact Hne|].
    intros s0 i Hs0 Hc Hsn Hi HJ. destruct (Hhit3 s0 i Hs0 Hc Hsn Hi HJ) as [H1 H2].
    pose proof F2 as F2'. unfold pg_rv in F2'. inversion F2' as [[E1 E2 E3 E4]]. rewrite E1.
    split; [exact H1|right; apply F6; exact H2]. }
  destruct (pg_freq k3 a' nd).
  - inversion Hin; subst k' r o. split; [exact Hbi3|]. split; [exact Hm3|]. split; [constructor|].
    split; [intros Hne; left; apply Hal3; exact Hne|].
    intros s0 i Hs0 Hc Hsn Hi HJ. destruct (Hhit3 s0 i Hs0 Hc Hsn Hi HJ) as [H1 H2]. split; [exact H1|left; exact H2].
  - destruct (flush k3 FLUSH_ACKONLY now) as [[[k4 nx] o4]|w] eqn:Ef; [|discriminate].
    inversion Hin; subst k' r o. exact (Hfl _ _ _ _ (or_intror eq_refl) Ef).
  - destruct (flush k3 FLUSH_FULL now) as [[[k4 nx] o4]|w] eqn:Ef; [|discriminate].
    inversion Hin; subst k' r o. exact (Hfl _ _ _ _ (or_introl eq_refl) Ef).
Qed.

Definition pg_b_post (isn : Z) (src : list (Z * bytes)) (g : receiver_ghost) (k k' : kcp) (o : list bytes) : Prop :=
  pg_bi isn src g k' /\ pg_bmono isn k k' /\ Forall (ns_dg (pg_bseg isn k')) o /\
  (acklist k <> [] -> acklist k' <> [] \/ pg_out_some isn k' o).

Lemma pg_b_quiet isn src g k k' :
  pg_bi isn src g k -> inv k' -> pg_rv k' = pg_rv k -> conv k' = conv k -> acklist k' = acklist k ->
  snd_queue k' = snd_queue k -> snd_buf k' = snd_buf k -> pg_b_post isn src g k k' [].
Proof.
  intros Hbi Hinv' Hrv Hc Ha Hq Hb. split; [apply (pg_bi_frame isn src g k); assumption|].
  split; [apply pg_bmono_rv; assumption|]. split; [constructor|]. intros Hne. left. rewrite Ha. exact Hne.
Qed.

Lemma pg_b_post_trans isn src g k k1 k' o :
  pg_bmono isn k k1 -> (acklist k <> [] -> acklist k1 <> []) -> pg_b_post isn src g k1 k' o ->
  pg_b_post isn src g k k' o.
Proof.
  intros Hm Ha (P1 & P2 & P3 & P4). split; [exact P1|]. split; [eapply pg_bmono_trans; eassumption|].
  split; [exact P3|]. intros Hne. apply P4. apply Ha. exact Hne.
Qed.

Lemma pg_b_flush_post isn src g k ft now k' nx o :
  pg_bi isn src g k -> ft = FLUSH_FULL \/ ft = FLUSH_ACKONLY -> flush k ft now = Ok (k', nx, o) ->
  pg_b_post isn src g k k' o.
Proof.
  intros Hbi Hft Hfl. destruct (pg_b_flush isn src g k ft now k' nx o Hbi Hft Hfl) as (F1 & F2 & F3 & F4 & F5 & F6).
  split; [exact F1|]. split; [apply pg_bmono_rv; assumption|]. split; [exact F5|].
  intros Hne. right. apply F6. exact Hne.
Qed.

Lemma pg_b_step isn src g k o k' x :
  no_wrap src -> src_wf src -> pg_bi isn src g k -> op_ok32 o ->
  (match o with OSend _ => False | _ => True end) ->
  (forall d rg nd t, o = OInput d rg nd t ->
     exists segs, d = concat (map encode_seg segs) /\ Forall (pg_segB isn src (conv k)) segs) ->
  step k o = Ok (k', x) ->
  pg_b_post isn src (ghost_receiver g o x) k k' (o_dgrams x).
Proof.
  intros Hnw Hwf Hbi Hop Hns Hgen Hstep.
  pose proof Hbi as [Hinv Hrcv [Hisn Hisnu] Hconv Hidle Hacks Hmoved].
  pose proof (nr_step_inv k o Hinv (proj1 Hop) k' x Hstep) as Hinv'.
  destruct o as [b|n|d reg nd now|full now|now|now|m|nd iv rs nc]; cbn [step ghost_receiver] in *.
  - contradiction.
  - (* Recv *)
    destruct (recv k n) as [[k1 r] d] eqn:E. inversion Hstep; subst k' x. cbn [o_ret o_data o_dgrams].
    destruct (pg_b_recv isn src g k n k1 r d Hnw Hbi E) as (R1 & R2 & R3 & R4 & R5 & R6).
    pose proof (nr_recv src g k n k1 r d Hwf Hnw Hrcv E) as Hrcv'.
    split.
    { constructor; try assumption.
      - destruct (r >=? 0); cbn [rg_isn]; split; assumption.
      - rewrite R4; exact Hconv.
      - rewrite R5, R6; exact Hidle.
      - rewrite R3. eapply Forall_impl; [|exact Hacks]. intros p. apply pg_ackp_mono. exact (proj1 (proj2 R1)). }
    split; [exact R1|]. split; [constructor|]. intros Hne; left; rewrite R3; exact Hne.
  - (* Input *)
    destruct (input k d reg nd now) as [[[k1 r] o]|w] eqn:E; [|discriminate]. inversion Hstep; subst k' x.
    cbn [o_dgrams]. destruct (Hgen d reg nd now eq_refl) as (segs & Ed & Hsegs). subst d.
    destruct (pg_b_input isn src g k segs reg nd now k1 r o Hnw Hbi Hsegs E) as (B1 & B2 & B3 & B4 & _).
    split; [exact B1|]. split; [exact B2|]. split; [exact B3|exact B4].
  - (* Flush *)
    destruct (flush k (if full then FLUSH_FULL else FLUSH_ACKONLY) now) as [[[k1 nx] o]|w] eqn:E; [|discriminate].
    inversion Hstep; subst k' x. cbn [o_dgrams].
    apply (pg_b_flush_post isn src g k (if full then FLUSH_FULL else FLUSH_ACKONLY) now k1 nx o Hbi); [destruct full; auto|exact E].
  - (* Update *)
    unfold update in Hstep.
    set (k1 := if updated k =? 0 then set_timer k (state k) now 1 else k) in *.
    assert (H1 : pg_b_post isn src g k k1 []).
    { unfold k1. destruct (updated k =? 0).
      - apply pg_b_quiet; try reflexivity; [exact Hbi|apply inv_set_timer; exact Hinv].
      - apply pg_b_quiet; try reflexivity; assumption. }
    set (p := if (itimediff now (ts_flush k1) >=? 10000) || (itimediff now (ts_flush k1) <? -10000)
              then (set_timer k1 (state k1) now (updated k1), 0) else (k1, itimediff now (ts_flush k1))) in *.
    assert (H2 : pg_b_post isn src g k (fst p) []).
    { destruct H1 as (P1 & P2 & _ & P4).
      unfold p. destruct ((itimediff now (ts_flush k1) >=? 10000) || (itimediff now (ts_flush k1) <? -10000)); cbn [fst].
      - apply (pg_b_post_trans isn src g k k1); [exact P2| |].
        + intros Hne. destruct (P4 Hne) as [H|(d & x0 & t0 & [] & _)]. exact H.
        + apply pg_b_quiet; try reflexivity; [exact P1|apply inv_set_timer; exact (BI_inv _ _ _ _ P1)].
      - split; [exact P1|]. split; [exact P2|]. split; [constructor|exact P4]. }
    destruct p as [k2 slap]. cbn [fst] in H2. destruct H2 as (P1 & P2 & _ & P4).
    assert (P4' : acklist k <> [] -> acklist k2 <> []).
    { intros Hne. destruct (P4 Hne) as [H|(d & x0 & t0 & [] & _)]. exact H. }
    destruct (slap >=? 0).
    + match type of Hstep with context [flush ?kk FLUSH_FULL now] => set (k3 := kk) in * end.
      assert (H3 : pg_bi isn src g k3).
      { apply (pg_bi_frame isn src g k2); try reflexivity; [exact P1|apply inv_set_timer; exact (BI_inv _ _ _ _ P1)]. }
      destruct (flush k3 FLUSH_FULL now) as [[[k4 nx] o]|w] eqn:E; [|discriminate].
      inversion Hstep; subst k' x. cbn [o_dgrams].
      apply (pg_b_post_trans isn src g k k3).
      * eapply pg_bmono_trans; [exact P2|]. apply pg_bmono_rv; reflexivity.
      * exact P4'.
      * apply (pg_b_flush_post isn src g k3 FLUSH_FULL now k4 nx o H3); [left; reflexivity|exact E].
    + inversion Hstep; subst k' x. cbn [o_dgrams]. split; [exact P1|]. split; [exact P2|]. split; [constructor|exact P4].
  - (* Check *)
    inversion Hstep; subst k' x. cbn [o_dgrams]. apply pg_b_quiet; try reflexivity; assumption.
  - (* SetMtu *)
    destruct (set_mtu k m) as [k1 r] eqn:E. inversion Hstep; subst k' x. cbn [o_dgrams].
    unfold set_mtu in E.
    destruct ((m <=? c_IKCP_OVERHEAD) || (m >? c_mtuLimit));
      [inversion E; subst; apply pg_b_quiet; try reflexivity; assumption|].
    destruct (max_queued k >? m - c_IKCP_OVERHEAD);
      [inversion E; subst; apply pg_b_quiet; try reflexivity; assumption|].
    inversion E; subst k1 r. apply pg_b_quiet; try reflexivity; assumption.
  - (* NoDelay *)
    inversion Hstep; subst k' x. cbn [o_dgrams].
    unfold set_nodelay in *. destruct (nd >=? 0); apply pg_b_quiet; try reflexivity; assumption.
Qed.

(* ================================================================== *)
(* A: snd_buf against a set G of indices the peer has received         *)
(* ================================================================== *)
(* the segment at position j of snd_buf has index av + j; if it is marked acked, G holds of it *)
Fixpoint pg_sbG (G : Z -> Prop) (av : Z) (l : list seg) : Prop :=
  match l with
  | [] => True
  | x :: t => (s_acked x <> 0 -> G av) /\ pg_sbG G (av + 1) t
  end.

Definition pg_A (G : Z -> Prop) (isn av : Z) (l : list seg) : Prop :=
  contiguous (u32 (isn + av)) l /\ (forall i, 0 <= i < av -> G i) /\ pg_sbG G av l.

Lemma pg_A_drop G isn av x t : 0 <= av -> pg_A G isn av (x :: t) -> G av -> pg_A G isn (av + 1) t.
Proof.
  intros Hav ((Hsn & Hc) & Hlt & (_ & Hg)) HG. split; [|split; [|exact Hg]].
  - rewrite u32_add_mod in Hc. replace (isn + (av + 1)) with (isn + av + 1) by lia. exact Hc.
  - intros i Hi. destruct (Z.eq_dec i av) as [->|Hne]; [exact HG|apply Hlt; lia].
Qed.

Lemma pg_una_walk G isn una : forall l av,
  0 <= av -> pg_A G isn av l ->
  (forall j, av <= j < av + qlen l -> itimediff una (u32 (isn + j)) > 0 -> G j) ->
  exists c, 0 <= c /\ qlen (fst (una_walk una l)) = qlen l - c /\
    pg_A G isn (av + c) (fst (una_walk una l)) /\
    match fst (una_walk una l) with [] => True | x :: _ => itimediff una (s_sn x) <= 0 end.
Proof.
  induction l as [|x t IH]; intros av Hav HA HG; cbn [una_walk].
  - exists 0. rewrite Z.add_0_r. cbn [fst]. split; [lia|]. split; [lia|]. split; [exact HA|exact I].
  - destruct (itimediff una (s_sn x) >? 0) eqn:E; lv_b2z.
    + pose proof HA as ((Hsn & _) & _).
      assert (HGav : G av).
      { apply HG; [rewrite qlen_cons; pose proof (qlen_nonneg t); lia|]. rewrite <- Hsn. lia. }
      destruct (IH (av + 1)) as (c & Hc & Hq & HA' & Hhd); [lia|exact (pg_A_drop _ _ _ _ _ Hav HA HGav)|
        intros j Hj; apply HG; rewrite qlen_cons; lia|].
      destruct (una_walk una t) as [r0 c0]. cbn [fst] in *.
      exists (1 + c). rewrite qlen_cons. split; [lia|]. split; [lia|].
      replace (av + (1 + c)) with (av + 1 + c) by lia. split; assumption.
    + exists 0. rewrite Z.add_0_r. cbn [fst]. split; [lia|]. split; [lia|]. split; [exact HA|lia].
Qed.

Lemma pg_drop_acked G isn : forall l av,
  0 <= av -> pg_A G isn av l ->
  exists c, 0 <= c /\ qlen (drop_acked l) = qlen l - c /\ pg_A G isn (av + c) (drop_acked l) /\
    match drop_acked l with [] => True | x :: _ => s_acked x = 0 end.
Proof.
  induction l as [|x t IH]; intros av Hav HA; cbn [drop_acked].
  - exists 0. rewrite Z.add_0_r. split; [lia|]. split; [lia|]. split; [exact HA|exact I].
  - destruct (s_acked x =? 0) eqn:E; lv_b2z.
    + exists 0. rewrite Z.add_0_r. split; [lia|]. split; [lia|]. split; [exact HA|exact E].
    + pose proof HA as (_ & _ & (Hg & _)).
      destruct (IH (av + 1)) as (c & Hc & Hq & HA' & Hhd); [lia|exact (pg_A_drop _ _ _ _ _ Hav HA (Hg E))|].
      exists (1 + c). rewrite qlen_cons. split; [lia|]. split; [lia|].
      replace (av + (1 + c)) with (av + 1 + c) by lia. split; assumption.
Qed.

Lemma pg_sbG_ack_walk G sn : forall l av,
  pg_sbG G av l -> (forall x j, nth_error l j = Some x -> s_sn x = sn -> G (av + Z.of_nat j)) ->
  pg_sbG G av (ack_walk sn l).
Proof.
  induction l as [|x t IH]; intros av Hs HG; cbn [ack_walk]; [exact I|].
  destruct Hs as [H1 H2].
  destruct (sn =? s_sn x) eqn:E; lv_b2z.
  - cbn [pg_sbG]. lv_segf. split; [|exact H2]. intros _.
    specialize (HG x 0%nat eq_refl (eq_sym E)). rewrite Z.add_0_r in HG. exact HG.
  - destruct (itimediff sn (s_sn x) <? 0); [split; assumption|].
    cbn [pg_sbG]. split; [exact H1|]. apply IH; [exact H2|].
    intros y j Hy Hsn. specialize (HG y (S j) Hy Hsn). rewrite Nat2Z.inj_succ in HG.
    replace (av + 1 + Z.of_nat j) with (av + Z.succ (Z.of_nat j)) by lia. exact HG.
Qed.

Lemma pg_contig_ack_walk sn : forall l b, contiguous b l -> contiguous b (ack_walk sn l).
Proof.
  induction l as [|x t IH]; intros b Hc; cbn [ack_walk]; [exact I|].
  destruct Hc as [H1 H2].
  destruct (sn =? s_sn x); [split; [exact H1|exact H2]|].
  destruct (itimediff sn (s_sn x) <? 0); [split; assumption|]. split; [exact H1|apply IH; exact H2].
Qed.

Lemma pg_qlen_ack_walk sn : forall l, qlen (ack_walk sn l) = qlen l.
Proof.
  induction l as [|x t IH]; cbn [ack_walk]; [reflexivity|].
  destruct (sn =? s_sn x); [rewrite !qlen_cons; reflexivity|].
  destruct (itimediff sn (s_sn x) <? 0); [reflexivity|]. rewrite !qlen_cons, IH. reflexivity.
Qed.

Lemma pg_contig_nth isn : forall l av x j,
  contiguous (u32 (isn + av)) l -> nth_error l j = Some x -> s_sn x = u32 (isn + (av + Z.of_nat j)).
Proof.
  induction l as [|y t IH]; intros av x j Hc Hn; [destruct j; discriminate|].
  destruct Hc as [H1 H2]. destruct j as [|j]; cbn [nth_error] in Hn.
  - inversion Hn; subst. rewrite Z.add_0_r. exact H1.
  - rewrite u32_add_mod in H2. replace (isn + av + 1) with (isn + (av + 1)) in H2 by lia.
    rewrite (IH (av + 1) x j H2 Hn). f_equal. lia.
Qed.

(* fastack_walk changes neither numbers nor acked marks *)
Lemma pg_fastack_walk_same sn ts fr : forall l,
  Forall2 (fun s s' => s_sn s' = s_sn s /\ s_acked s' = s_acked s) l (fst (fastack_walk sn ts fr l)).
Proof.
  induction l as [|s t IH]; cbn [fastack_walk]; [constructor|].
  assert (Hrefl : forall l0 : list seg, Forall2 (fun s s' => s_sn s' = s_sn s /\ s_acked s' = s_acked s) l0 l0).
  { induction l0; constructor; auto. }
  destruct (itimediff sn (s_sn s) <? 0); [apply Hrefl|].
  destruct (fastack_walk sn ts fr t) as [t' f]. cbn [fst] in IH.
  destruct (negb (sn =? s_sn s) && (itimediff (s_ts s) ts <=? 0)).
  - destruct (s_fastack s =? 4294967295); cbn [fst]; constructor; auto.
  - cbn [fst]. constructor; auto.
Qed.

Lemma pg_same_aux G : forall l l',
  Forall2 (fun s s' => s_sn s' = s_sn s /\ s_acked s' = s_acked s) l l' ->
  forall b av, contiguous b l -> pg_sbG G av l ->
  contiguous b l' /\ pg_sbG G av l' /\ qlen l' = qlen l.
Proof.
  induction 1 as [|s s' t t' [E1 E2] HF IH]; intros b av Hc Hs; [auto|].
  destruct Hc as [C1 C2]. destruct Hs as [S1 S2].
  destruct (IH _ (av + 1) C2 S2) as (I1 & I2 & I3).
  split; [split; [congruence|exact I1]|]. split; [split; [rewrite E2; exact S1|exact I2]|].
  rewrite !qlen_cons, I3. reflexivity.
Qed.

Lemma pg_same_A G isn l l' av :
  Forall2 (fun s s' => s_sn s' = s_sn s /\ s_acked s' = s_acked s) l l' ->
  pg_A G isn av l -> pg_A G isn av l' /\ qlen l' = qlen l.
Proof.
  intros HF (Hc & Hlt & Hs).
  destruct (pg_same_aux G l l' HF _ _ Hc Hs) as (H1 & H2 & H3).
  split; [split; [exact H1|split; [exact Hlt|exact H2]]|exact H3].
Qed.

(* ================================================================== *)
(* state level                                                         *)
(* ================================================================== *)
(* mid-Input: snd_una may lag behind the head of snd_buf *)
Definition pg_am (G : Z -> Prop) (isn M : Z) (k : kcp) (av : Z) : Prop :=
  0 <= av /\ av + qlen (snd_buf k) = M /\ snd_nxt k = u32 (isn + M) /\ pg_A G isn av (snd_buf k).

Definition pg_af (G : Z -> Prop) (isn M : Z) (k : kcp) (av : Z) : Prop :=
  pg_am G isn M k av /\ snd_una k = u32 (isn + av) /\ head_unacked k.

Lemma pg_af_shrink_buf G isn M k av :
  pg_am G isn M k av -> exists av', av <= av' /\ pg_af G isn M (shrink_buf k) av'.
Proof.
  intros (Hav & HM & Hn & HA). unfold shrink_buf. cbv zeta.
  destruct (pg_drop_acked G isn (snd_buf k) av Hav HA) as (c & Hc & Hq & HA' & Hhd).
  change (snd_buf (set_snd_buf k (drop_acked (snd_buf k)))) with (drop_acked (snd_buf k)).
  exists (av + c). split; [lia|].
  destruct (drop_acked (snd_buf k)) as [|x t] eqn:E.
  - unfold pg_af, pg_am, head_unacked. ksimpl. rewrite qlen_nil in *.
    split; [split; [lia|split; [lia|split; [exact Hn|exact HA']]]|]. split; [rewrite Hn; f_equal; lia|exact I].
  - unfold pg_af, pg_am, head_unacked. ksimpl.
    split; [split; [lia|split; [lia|split; [exact Hn|exact HA']]]|]. split; [exact (proj1 (proj1 HA'))|exact Hhd].
Qed.

Lemma pg_am_parse_una G isn M k av una :
  pg_am G isn M k av ->
  (forall j, av <= j < M -> itimediff una (u32 (isn + j)) > 0 -> G j) ->
  exists av', av <= av' /\ pg_am G isn M (fst (parse_una k una)) av' /\
    match snd_buf (fst (parse_una k una)) with [] => True | x :: _ => itimediff una (s_sn x) <= 0 end.
Proof.
  intros (Hav & HM & Hn & HA) HG. unfold parse_una.
  destruct (pg_una_walk G isn una (snd_buf k) av Hav HA) as (c & Hc & Hq & HA' & Hhd).
  { intros j Hj. apply HG. lia. }
  destruct (una_walk una (snd_buf k)) as [l c0]. cbn [fst] in *.
  exists (av + c). split; [lia|]. unfold pg_am. ksimpl. split; [|exact Hhd].
  split; [lia|]. split; [lia|]. split; [exact Hn|exact HA'].
Qed.

Lemma pg_am_parse_ack G isn M k av sn :
  pg_am G isn M k av -> (forall j, av <= j < M -> u32 (isn + j) = sn -> G j) ->
  pg_am G isn M (parse_ack k sn) av.
Proof.
  intros (Hav & HM & Hn & (Hc & Hlt & Hs)) HG. unfold parse_ack.
  destruct ((itimediff sn (snd_una k) <? 0) || (itimediff sn (snd_nxt k) >=? 0));
    [split; [exact Hav|split; [exact HM|split; [exact Hn|split; [exact Hc|split; assumption]]]]|].
  unfold pg_am. ksimpl. rewrite pg_qlen_ack_walk.
  split; [exact Hav|]. split; [exact HM|]. split; [exact Hn|].
  split; [apply pg_contig_ack_walk; exact Hc|]. split; [exact Hlt|].
  apply pg_sbG_ack_walk; [exact Hs|].
  intros x j Hx Hsn. apply HG.
  - assert (Hj : (j < length (snd_buf k))%nat) by (apply nth_error_Some; rewrite Hx; discriminate).
    unfold qlen in HM. lia.
  - rewrite <- Hsn. symmetry. exact (pg_contig_nth isn _ _ _ _ Hc Hx).
Qed.

Lemma pg_am_parse_fastack G isn M k av sn ts :
  pg_am G isn M k av -> pg_am G isn M (fst (parse_fastack k sn ts)) av.
Proof.
  intros (Hav & HM & Hn & HA). unfold parse_fastack.
  destruct ((itimediff sn (snd_una k) <? 0) || (itimediff sn (snd_nxt k) >=? 0));
    [split; [exact Hav|split; [exact HM|split; [exact Hn|exact HA]]]|].
  pose proof (pg_fastack_walk_same sn ts (fastresend k) (snd_buf k)) as HF.
  destruct (fastack_walk sn ts (fastresend k) (snd_buf k)) as [l f]. cbn [fst] in *.
  destruct (pg_same_A G isn _ _ av HF HA) as [HA' Hq].
  unfold pg_am. ksimpl. split; [exact Hav|]. split; [lia|]. split; [exact Hn|exact HA'].
Qed.

(* a state that differs from k outside the sending side *)
Lemma pg_am_frame G isn M k k' av :
  snd_buf k' = snd_buf k -> snd_nxt k' = snd_nxt k -> pg_am G isn M k av -> pg_am G isn M k' av.
Proof. intros E1 E2 (H1 & H2 & H3 & H4). unfold pg_am. rewrite E1, E2. auto. Qed.

Lemma pg_af_frame G isn M k k' av :
  snd_buf k' = snd_buf k -> snd_nxt k' = snd_nxt k -> snd_una k' = snd_una k ->
  pg_af G isn M k av -> pg_af G isn M k' av.
Proof.
  intros E1 E2 E3 (H1 & H2 & H3). split; [exact (pg_am_frame _ _ _ _ _ _ E1 E2 H1)|].
  unfold head_unacked. rewrite E1, E3. split; assumption.
Qed.

(* ================================================================== *)
(* one segment of an acknowledgement datagram at A                     *)
(* ================================================================== *)
Definition pg_segA (G : Z -> Prop) (isn cv M : Z) (x : seg) : Prop :=
  seg_wf x /\ s_conv x = cv /\
  (s_cmd x = c_IKCP_CMD_ACK \/ s_cmd x = c_IKCP_CMD_WASK \/ s_cmd x = c_IKCP_CMD_WINS) /\
  (exists u, s_una x = u32 (isn + u) /\ 0 <= u <= M /\ forall j, 0 <= j < u -> G j) /\
  (s_cmd x = c_IKCP_CMD_ACK -> forall j, 0 <= j < M -> u32 (isn + j) = s_sn x -> G j).

Lemma pg_a_seg G isn M a x rest reg av :
  M < H32 - 65536 -> pg_af G isn M (i_k a) av -> pg_segA G isn (conv (i_k a)) M x ->
  exists a' av', input_seg a (encode_seg x ++ rest) reg = inl (Ok (a', rest)) /\
    av <= av' /\ pg_af G isn M (i_k a') av' /\ conv (i_k a') = conv (i_k a) /\
    (forall u, s_una x = u32 (isn + u) -> 0 <= u <= M -> u <= av').
Proof.
  intros HM (Ham & Huna & Hhd) (Hwf & Hcv & Hcmd & (u0 & Hu0 & Hu0r & Hu0G) & Hack).
  assert (Hcok : cmd_ok (s_cmd x)) by (unfold cmd_ok; tauto).
  rewrite (lv_input_seg_eq a x rest reg Hwf Hcv Hcok). rewrite lv_in_tail_pre. cbv zeta.
  set (k := i_k a) in *.
  (* the common prefix: rmt_wnd, parse_una, shrink_buf *)
  set (k1 := if reg then set_rmt_wnd k (s_wnd x) else k).
  assert (Ham1 : pg_am G isn M k1 av) by (unfold k1; destruct reg; [apply (pg_am_frame _ _ _ k); [reflexivity|reflexivity|exact Ham]|exact Ham]).
  assert (Hc1 : conv k1 = conv k) by (unfold k1; destruct reg; reflexivity).
  pose proof Ham as (Hav & HMeq & _).
  destruct (pg_am_parse_una G isn M k1 av (s_una x) Ham1) as (av2 & Hle2 & Ham2 & Hhd2).
  { intros j Hj Hd. apply Hu0G. rewrite Hu0, itimediff_index in Hd by (unfold H32 in *; lia). lia. }
  destruct (pg_af_shrink_buf G isn M _ av2 Ham2) as (av3 & Hle3 & Haf3).
  assert (Hprog : forall u, s_una x = u32 (isn + u) -> 0 <= u <= M -> u <= av3).
  { intros u Hu Hur. pose proof Ham2 as (Hav2 & HM2 & _ & (Hc2 & _ & _)).
    destruct (snd_buf (fst (parse_una k1 (s_una x)))) as [|y t] eqn:Eb.
    - rewrite qlen_nil in HM2. lia.
    - destruct Hc2 as [Hy _]. rewrite Hy, Hu, itimediff_index in Hhd2; [lia|].
      rewrite qlen_cons in HM2. pose proof (qlen_nonneg t). unfold H32 in *. lia. }
  assert (Hcp : conv (lv_pre a x reg) = conv k).
  { pose proof (lv_fr_pre a x reg) as Hfr. unfold lv_fr in Hfr. fold k in Hfr. destruct reg; inversion Hfr; reflexivity. }
  change (shrink_buf (fst (parse_una k1 (s_una x)))) with (lv_pre a x reg) in Haf3.
  set (kp := lv_pre a x reg) in *.
  destruct Hcmd as [E|[E|E]]; rewrite E.
  - (* ACK *)
    change (c_IKCP_CMD_ACK =? c_IKCP_CMD_ACK) with true. cbv iota.
    pose proof (pg_am_parse_ack G isn M kp av3 (s_sn x) (proj1 Haf3)) as Ham4.
    assert (Ham4' : pg_am G isn M (parse_ack kp (s_sn x)) av3).
    { apply Ham4. intros j Hj Hsn. apply (Hack E); [pose proof (proj1 (proj1 Haf3)); lia|exact Hsn]. }
    pose proof (pg_am_parse_fastack G isn M _ av3 (s_sn x) (s_ts x) Ham4') as Ham5.
    pose proof (lv_fr_parse_fastack (parse_ack kp (s_sn x)) (s_sn x) (s_ts x)) as F2.
    destruct (parse_fastack (parse_ack kp (s_sn x)) (s_sn x) (s_ts x)) as [k5 f]. cbn [fst] in *.
    destruct (pg_af_shrink_buf G isn M k5 av3 Ham5) as (av6 & Hle6 & Haf6).
    pose proof (lv_fr_shrink_buf k5) as F3. rewrite F2, lv_fr_parse_ack in F3.
    assert (Hc6 : conv (shrink_buf k5) = conv kp) by (unfold lv_fr in F3; inversion F3; reflexivity).
    eexists. exists av6. split; [reflexivity|]. cbn [i_k]. split; [lia|]. split; [exact Haf6|].
    split; [congruence|]. intros u Hu Hur. specialize (Hprog u Hu Hur). lia.
  - (* WASK *)
    change (c_IKCP_CMD_WASK =? c_IKCP_CMD_ACK) with false.
    change (c_IKCP_CMD_WASK =? c_IKCP_CMD_PUSH) with false.
    change (c_IKCP_CMD_WASK =? c_IKCP_CMD_WASK) with true. cbv iota.
    eexists. exists av3. split; [reflexivity|]. cbn [i_k]. split; [lia|].
    split; [apply (pg_af_frame _ _ _ kp); [reflexivity|reflexivity|reflexivity|exact Haf3]|].
    split; [exact Hcp|exact Hprog].
  - (* WINS *)
    change (c_IKCP_CMD_WINS =? c_IKCP_CMD_ACK) with false.
    change (c_IKCP_CMD_WINS =? c_IKCP_CMD_PUSH) with false.
    change (c_IKCP_CMD_WINS =? c_IKCP_CMD_WASK) with false. cbv iota.
    eexists. exists av3. split; [reflexivity|]. cbn [i_k]. split; [lia|]. split; [exact Haf3|].
    split; [exact Hcp|exact Hprog].
Qed.

(* ================================================================== *)
(* A between calls                                                     *)
(* ================================================================== *)
Definition pg_ai (G : Z -> Prop) (isn : Z) (k : kcp) (av : Z) : Prop :=
  0 <= av /\ snd_una k = u32 (isn + av) /\ (forall i, 0 <= i < av -> G i) /\
  pg_sbG G av (snd_buf k) /\ head_unacked k.

Lemma pg_ai_af G isn k av : inv k -> pg_ai G isn k av -> pg_af G isn (av + qlen (snd_buf k)) k av.
Proof.
  intros Hinv (Hav & Hu & Hlt & Hs & Hh). pose proof (I_sb_contig _ Hinv) as Hc. rewrite Hu in Hc.
  split; [|split; assumption]. split; [exact Hav|]. split; [reflexivity|].
  split; [rewrite (I_snd_nxt _ Hinv), Hu, u32_add_mod; f_equal; lia|]. split; [exact Hc|split; assumption].
Qed.

Lemma pg_af_ai G isn M k av : pg_af G isn M k av -> pg_ai G isn k av.
Proof. intros ((Hav & _ & _ & (_ & Hlt & Hs)) & Hu & Hh). repeat split; assumption. Qed.

Lemma pg_ai_frame G isn k k' av :
  snd_buf k' = snd_buf k -> snd_una k' = snd_una k -> pg_ai G isn k av -> pg_ai G isn k' av.
Proof. intros E1 E2 (H1 & H2 & H3 & H4 & H5). unfold pg_ai, head_unacked in *. rewrite E1, E2. auto. Qed.

(* ---- flush ---- *)
Lemma pg_sbG_app G : forall l av adm,
  pg_sbG G av l -> Forall (fun s => s_acked s = 0) adm -> pg_sbG G av (l ++ adm).
Proof.
  induction l as [|x t IH]; intros av adm Hs Ha; cbn [app].
  - clear Hs. revert av. induction Ha as [|y u Hy Hu IHu]; intros av; [exact I|]. split; [intros Hn; contradiction|apply IHu].
  - destruct Hs as [H1 H2]. split; [exact H1|apply IH; assumption].
Qed.

Lemma pg_sbG_rel G (R : seg -> seg -> Prop) :
  (forall s s', R s s' -> s_acked s' = s_acked s) ->
  forall l l', Forall2 R l l' -> forall av, pg_sbG G av l -> pg_sbG G av l'.
Proof.
  intros HR l l' HF. induction HF as [|s s' t t' Hs HF IH]; intros av H; [exact I|].
  destruct H as [H1 H2]. split; [rewrite (HR _ _ Hs); exact H1|apply IH; exact H2].
Qed.

Lemma pg_a_flush G isn k av ft now k' nx o :
  inv k -> pg_ai G isn k av -> flush k ft now = Ok (k', nx, o) -> pg_ai G isn k' av.
Proof.
  intros Hinv (Hav & Hu & Hlt & Hs & Hh) Hfl.
  destruct (fl_shape k ft now k' nx o Hfl)
    as (al & tsp & pw & st & sst & cwn & inc & h1 & st3 & sq & sb & nxt & ns & k4 & sb' & a &
        Hk' & _ & _ & _ & E4 & Esb & E5).
  destruct (fl_ph4_spec k ft sq sb nxt ns Hinv E4) as (pre & adm & _ & Eadm & _ & _ & _ & Hfresh & _).
  pose proof (fl_ph5_rel _ _ _ _ _ _ _ _ E5) as Hrel. rewrite Esb, Eadm in Hrel.
  assert (Hun : Forall (fun s => s_acked s = 0) adm).
  { eapply Forall_impl; [|exact Hfresh]. intros s ((_ & _ & H) & _). exact H. }
  assert (HR : forall s s', fl_seg_rel (ft = FLUSH_FULL) s s' -> s_acked s' = s_acked s).
  { intros s s' (_ & _ & _ & _ & H & _). exact H. }
  subst k'. unfold pg_ai, head_unacked, fl_final. fl_fields.
  split; [exact Hav|]. split; [exact Hu|]. split; [exact Hlt|]. split.
  - apply (pg_sbG_rel G _ HR _ _ Hrel). apply pg_sbG_app; assumption.
  - unfold head_unacked in Hh. inversion Hrel as [|s s' t t' Hss Htt E1 E2]; [exact I|].
    rewrite (HR _ _ Hss). destruct (snd_buf k) as [|y u].
    + cbn [app] in E1. rewrite <- E1 in Hun. exact (Forall_inv Hun).
    + cbn [app] in E1. inversion E1; subst. exact Hh.
Qed.

(* ---- Input of an acknowledgement datagram ---- *)
Lemma pg_a_input G isn k av segs reg nd now k' r o :
  inv k -> pg_ai G isn k av -> av + qlen (snd_buf k) < H32 - 65536 ->
  Forall (pg_segA G isn (conv k) (av + qlen (snd_buf k))) segs ->
  input k (concat (map encode_seg segs)) reg nd now = Ok (k', r, o) ->
  exists av', av <= av' <= av + qlen (snd_buf k) /\ pg_ai G isn k' av' /\
    (forall x u, In x segs -> s_una x = u32 (isn + u) -> 0 <= u <= av + qlen (snd_buf k) -> u <= av').
Proof.
  intros Hinv Hai HM HQ Hin. pose proof (qlen_nonneg (snd_buf k)) as Hq0.
  set (M := av + qlen (snd_buf k)) in *.
  assert (HMdef : M = av + qlen (snd_buf k)) by reflexivity.
  destruct segs as [|s1 t1].
  { cbn [map concat] in Hin. unfold input in Hin. rewrite pg_input_pre_nil in Hin. inversion Hin; subst k' r o.
    exists av. split; [lia|]. split; [exact Hai|]. intros x u []. }
  set (segs := s1 :: t1) in *.
  set (I := fun (pre : list seg) (a : inp) =>
    exists av1, av <= av1 /\ pg_af G isn M (i_k a) av1 /\ conv (i_k a) = conv k /\
      (forall x u, In x pre -> s_una x = u32 (isn + u) -> 0 <= u <= M -> u <= av1)).
  destruct (pg_input_pre I (pg_segA G isn (conv k) M) reg k segs nd now) as (a' & HI & Epre).
  { intros s (H & _). exact H. }
  { intros pre a s rest (av1 & L1 & A1 & C1 & P1) Q1 _.
    rewrite <- C1 in Q1.
    destruct (pg_a_seg G isn M a s rest reg av1 HM A1 Q1) as (a1 & av2 & E1 & L2 & A2 & C2 & P2).
    exists a1. split; [exact E1|]. exists av2. split; [lia|]. split; [exact A2|]. split; [congruence|].
    intros x u Hx Hu Hur. apply in_app_or in Hx. destruct Hx as [Hx|[Hx|[]]].
    - specialize (P1 x u Hx Hu Hur). lia.
    - subst x. exact (P2 u Hu Hur). }
  { exact HQ. }
  { discriminate. }
  { exists av. split; [lia|]. split; [exact (pg_ai_af G isn k av Hinv Hai)|]. split; [reflexivity|]. intros x u []. }
  destruct HI as (av1 & L1' & A1 & C1 & P1).
  assert (L1 : av <= av1 <= M).
  { destruct A1 as ((_ & HMq & _) & _). pose proof (qlen_nonneg (snd_buf (i_k a'))). lia. }
  set (k3 := pg_post k a' reg now) in *.
  destruct (pg_fx_all _ _ (pg_fx_post k a' reg now)) as
    (X1 & X2 & X3 & X4 & X5 & X6 & X7 & X8 & X9 & X10 & X11 & X12 & X13 & X14 & X15 & X16 & X17 & X18).
  fold k3 in X1, X2, X3, X4, X5, X6, X7, X8, X9, X10, X11, X12, X13, X14, X15, X16, X17, X18.
  assert (Hinv3 : inv k3).
  { assert (Hbl : is_byte_list (concat (map encode_seg segs))).
    { apply pg_concat_bytes. eapply Forall_impl; [|exact HQ]. intros s (H & _). exact H. }
    destruct (input_pre_ok k _ reg nd now Hinv Hbl) as (k2 & r2 & fr2 & E2 & Hi2 & _).
    rewrite Epre in E2. inversion E2; subst. exact Hi2. }
  assert (Hai3 : pg_ai G isn k3 av1).
  { apply pg_af_ai with M. apply (pg_af_frame _ _ _ (i_k a')); assumption. }
  unfold input in Hin. rewrite Epre in Hin.
  destruct (pg_freq k3 a' nd).
  - inversion Hin; subst k' r o. exists av1. split; [exact L1|]. split; [exact Hai3|exact P1].
  - destruct (flush k3 FLUSH_ACKONLY now) as [[[k4 nx] o4]|w] eqn:Ef; [|discriminate].
    inversion Hin; subst k' r o. exists av1. split; [exact L1|].
    split; [exact (pg_a_flush G isn k3 av1 _ now k4 nx o4 Hinv3 Hai3 Ef)|exact P1].
  - destruct (flush k3 FLUSH_FULL now) as [[[k4 nx] o4]|w] eqn:Ef; [|discriminate].
    inversion Hin; subst k' r o. exists av1. split; [exact L1|].
    split; [exact (pg_a_flush G isn k3 av1 _ now k4 nx o4 Hinv3 Hai3 Ef)|exact P1].
Qed.

(* ---- every call ---- *)
Lemma pg_a_step G g k o k' x av :
  sender_inv g k -> pg_ai G (sg_isn g) k av -> av + qlen (snd_buf k) < H32 - 65536 -> op_ok32 o ->
  (forall d rg nd t, o = OInput d rg nd t ->
     exists segs, d = concat (map encode_seg segs) /\
                  Forall (pg_segA G (sg_isn g) (conv k) (av + qlen (snd_buf k))) segs) ->
  step k o = Ok (k', x) ->
  exists av', av <= av' <= av + qlen (snd_buf k) /\ pg_ai G (sg_isn g) k' av' /\
    (forall d rg nd t segs, o = OInput d rg nd t -> d = concat (map encode_seg segs) ->
       Forall (pg_segA G (sg_isn g) (conv k) (av + qlen (snd_buf k))) segs ->
       forall y u, In y segs -> s_una y = u32 (sg_isn g + u) -> 0 <= u <= av + qlen (snd_buf k) -> u <= av').
Proof.
  intros Hsi Hai HM Hop Hgen Hstep. pose proof (SI_inv _ _ Hsi) as Hinv.
  pose proof (qlen_nonneg (snd_buf k)) as Hq0.
  assert (Hquiet : forall k1, snd_buf k1 = snd_buf k -> snd_una k1 = snd_una k ->
            (forall d rg nd t, o <> OInput d rg nd t) -> k' = k1 ->
            exists av', av <= av' <= av + qlen (snd_buf k) /\ pg_ai G (sg_isn g) k' av' /\
              (forall d rg nd t segs, o = OInput d rg nd t -> d = concat (map encode_seg segs) ->
                 Forall (pg_segA G (sg_isn g) (conv k) (av + qlen (snd_buf k))) segs ->
                 forall y u, In y segs -> s_una y = u32 (sg_isn g + u) -> 0 <= u <= av + qlen (snd_buf k) -> u <= av')).
  { intros k1 E1 E2 Hno ->. exists av. split; [lia|]. split; [apply (pg_ai_frame G _ k); assumption|].
    intros d rg nd t segs E. exfalso. exact (Hno d rg nd t E). }
  destruct o as [b|n|d reg nd now|full now|now|now|m|nd iv rs nc]; cbn [step] in Hstep.
  - destruct (send k b) as [[k1 r]|w] eqn:Hs; [|discriminate]. inversion Hstep; subst k' x.
    destruct (ns_send_ok k b k1 r _ _ Hinv (proj1 Hop) (ns_src_ok_of g k Hsi) Hs) as (q' & Ek & _).
    apply (Hquiet k1); [subst k1; reflexivity|subst k1; reflexivity|intros; discriminate|reflexivity].
  - pose proof (ns_sf_recv k n) as Hsf. destruct (recv k n) as [[k1 r] d]. cbn [fst] in Hsf.
    inversion Hstep; subst k' x. destruct Hsf as (_ & Sb & Su & _).
    apply (Hquiet k1); [exact Sb|exact Su|intros; discriminate|reflexivity].
  - destruct (input k d reg nd now) as [[[k1 r] o]|w] eqn:E; [|discriminate]. inversion Hstep; subst k' x.
    destruct (Hgen d reg nd now eq_refl) as (segs & Ed & Hsegs). subst d.
    destruct (pg_a_input G (sg_isn g) k av segs reg nd now k1 r o Hinv Hai HM Hsegs E) as (av' & L & A & P).
    exists av'. split; [exact L|]. split; [exact A|]. intros d0 rg0 nd0 t0 segs2 E0 Ed2 Hsegs2. injection E0 as E01 E02 E03 E04.
    rewrite E01, Ed2 in E.
    destruct (pg_a_input G (sg_isn g) k av segs2 reg nd now k1 r o Hinv Hai HM Hsegs2 E) as (av2 & L2 & A2 & P2).
    assert (Eav : av2 = av').
    { destruct A as (_ & U1 & _). destruct A2 as (_ & U2 & _). pose proof (proj1 Hai) as Hav0.
      apply (u32_inj_index (sg_isn g)); [unfold H32 in *; lia|congruence]. }
    subst av2. exact P2.
  - destruct (flush k (if full then FLUSH_FULL else FLUSH_ACKONLY) now) as [[[k1 nx] o]|w] eqn:E; [|discriminate].
    inversion Hstep; subst k' x. exists av. split; [lia|].
    split; [exact (pg_a_flush G _ k av _ now k1 nx o Hinv Hai E)|]. intros; discriminate.
  - unfold update in Hstep.
    set (k1 := if updated k =? 0 then set_timer k (state k) now 1 else k) in *.
    assert (H1 : inv k1 /\ pg_ai G (sg_isn g) k1 av).
    { unfold k1. destruct (updated k =? 0); [|split; assumption].
      split; [apply inv_set_timer; exact Hinv|apply (pg_ai_frame G _ k); [reflexivity|reflexivity|exact Hai]]. }
    set (p := if (itimediff now (ts_flush k1) >=? 10000) || (itimediff now (ts_flush k1) <? -10000)
              then (set_timer k1 (state k1) now (updated k1), 0) else (k1, itimediff now (ts_flush k1))) in *.
    assert (H2 : inv (fst p) /\ pg_ai G (sg_isn g) (fst p) av).
    { destruct H1 as [I1 A1]. unfold p.
      destruct ((itimediff now (ts_flush k1) >=? 10000) || (itimediff now (ts_flush k1) <? -10000)); cbn [fst];
        [|split; assumption].
      split; [apply inv_set_timer; exact I1|apply (pg_ai_frame G _ k1); [reflexivity|reflexivity|exact A1]]. }
    destruct p as [k2 slap]. cbn [fst] in H2. destruct H2 as [I2 A2].
    destruct (slap >=? 0).
    + match type of Hstep with context [flush ?kk FLUSH_FULL now] => set (k3 := kk) in * end.
      assert (H3 : inv k3 /\ pg_ai G (sg_isn g) k3 av).
      { split; [apply inv_set_timer; exact I2|apply (pg_ai_frame G _ k2); [reflexivity|reflexivity|exact A2]]. }
      destruct (flush k3 FLUSH_FULL now) as [[[k4 nx] o]|w] eqn:E; [|discriminate].
      inversion Hstep; subst k' x. exists av. split; [lia|].
      split; [exact (pg_a_flush G _ k3 av _ now k4 nx o (proj1 H3) (proj2 H3) E)|]. intros; discriminate.
    + inversion Hstep; subst k' x. exists av. split; [lia|]. split; [exact A2|]. intros; discriminate.
  - inversion Hstep; subst k' x. apply (Hquiet k); [reflexivity|reflexivity|intros; discriminate|reflexivity].
  - pose proof (ns_sf_set_mtu k m) as Hsf. destruct (set_mtu k m) as [k1 r]. cbn [fst] in Hsf.
    inversion Hstep; subst k' x. destruct Hsf as (_ & Sb & Su & _).
    apply (Hquiet k1); [exact Sb|exact Su|intros; discriminate|reflexivity].
  - inversion Hstep; subst k' x. destruct (ns_sf_set_nodelay k nd iv rs nc) as (_ & Sb & Su & _).
    apply (Hquiet (set_nodelay k nd iv rs nc)); [exact Sb|exact Su|intros; discriminate|reflexivity].
Qed.
