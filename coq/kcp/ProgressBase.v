(* C02 "a healed network always drains the backlog": the DEFINITIONS of the progress theorem
   (two-way system, link invariant, healed round).  No proofs of theorems in this file; the
   lemmas at its end are generic list / wire-format helpers (prefix pg_) used by Progress.v.

   Data flows A -> B, acknowledgements B -> A.  Net.v's `sys` records every datagram A emitted
   (`wire`); `sys2` adds `wireB`: every datagram B ever handed to its output callback. *)
From Coq Require Import ZArith List Bool Lia.
From KV.Base Require Import Consts Word WordLemmas.
From KV.Kcp Require Import Kcp Step Net.
Import ListNotations.
Local Open Scope Z_scope.

(* ================================================================== *)
(* 1. the two-way system                                               *)
(* ================================================================== *)
Record sys2 := mkSys2 { s1 : sys; wireB : list bytes }.

Definition kA (s : sys2) : kcp := sA (s1 s).
Definition kB (s : sys2) : kcp := sB (s1 s).

(* the datagrams a call hands to the output callback *)
Definition emitted (k : kcp) (o : op) : list bytes :=
  match step k o with Ok (_, x) => o_dgrams x | Panic _ => [] end.

(* sys_step, and B's output is recorded too *)
Definition sys2_step (s : sys2) (e : ev) : option sys2 :=
  match sys_step (s1 s) e with
  | Some t => Some (mkSys2 t (wireB s ++ match e with EB o => emitted (kB s) o | EA _ => [] end))
  | None => None
  end.

(* admissible events: Net.ev_ok (B's Input only takes datagrams of `wire`), and
   - A's Input only takes datagrams of wireB: any of them, any number of times, in any order
     (drop / duplicate / reorder / delay);
   - B never calls Send (one-directional data). *)
Definition ev_ok2 (s : sys2) (e : ev) : Prop :=
  ev_ok (s1 s) e /\
  match e with
  | EA (OInput d _ _ _) => In d (wireB s)
  | EB (OSend _) => False
  | _ => True
  end.

Inductive sys2_run : sys2 -> list ev -> sys2 -> Prop :=
| run2_nil : forall s, sys2_run s [] s
| run2_cons : forall s e s' t s'', ev_ok2 s e -> sys2_step s e = Some s' -> sys2_run s' t s'' ->
                                   sys2_run s (e :: t) s''.

(* initial: Net.sys_init, the same conversation id on both sides, nothing emitted by B yet, and
   B's own sending side idle with no acknowledgement pending *)
Definition sys2_init (s : sys2) : Prop :=
  sys_init (s1 s) /\ wireB s = [] /\ conv (kB s) = conv (kA s) /\
  snd_queue (kB s) = [] /\ snd_buf (kB s) = [] /\ acklist (kB s) = [].

Definition reach2 (s : sys2) : Prop := exists s0 evs, sys2_init s0 /\ sys2_run s0 evs s.

(* ================================================================== *)
(* 2. indices                                                          *)
(* ================================================================== *)
(* A's ghost list `numbered` gives index i the sequence number u32(isn+i).  Under no_wrap the
   index of a sequence number x is u32(x - isn). *)
Definition isn_of (s : sys2) : Z := sg_isn (gA (s1 s)).
Definition numbered_of (s : sys2) : list (Z * bytes) := sg_numbered (gA (s1 s)).

Definition idx (isn x : Z) : Z := u32 (x - isn).

(* a = index of A's snd_una (the cumulative acknowledgement point), r = index of B's rcv_nxt *)
Definition a_idx (s : sys2) : Z := idx (isn_of s) (snd_una (kA s)).
Definition r_idx (s : sys2) : Z := idx (isn_of s) (rcv_nxt (kB s)).

(* endpoint k has received index i: below rcv_nxt, or parked in rcv_buf *)
Definition got (isn : Z) (k : kcp) (i : Z) : Prop :=
  0 <= i < H32 /\ (i < idx isn (rcv_nxt k) \/ has_sn (u32 (isn + i)) (rcv_buf k) = true).

Definition received (s : sys2) (i : Z) : Prop := got (isn_of s) (kB s) i.

(* ================================================================== *)
(* 3. the link invariant (DESIGN Appendix B.2, G5)                     *)
(* ================================================================== *)
(* a segment of a B -> A datagram: never a PUSH; its cumulative field names an index at most r;
   an ACK names an index B has received *)
Definition ack_seg (s : sys2) (x : seg) : Prop :=
  seg_wf x /\ s_conv x = conv (kA s) /\
  (s_cmd x = c_IKCP_CMD_ACK \/ s_cmd x = c_IKCP_CMD_WASK \/ s_cmd x = c_IKCP_CMD_WINS) /\
  idx (isn_of s) (s_una x) <= r_idx s /\
  (s_cmd x = c_IKCP_CMD_ACK -> received s (idx (isn_of s) (s_sn x))).

Definition ack_dgram (s : sys2) (d : bytes) : Prop :=
  exists segs, d = concat (map encode_seg segs) /\ Forall (ack_seg s) segs.

(* a segment of an A -> B datagram: right conversation, a known command, PUSH genuine *)
Definition data_seg (s : sys2) (x : seg) : Prop :=
  seg_wf x /\ s_conv x = conv (kA s) /\ cmd_ok (s_cmd x) /\
  genuine_seg (isn_of s) (numbered_of s) x.

Definition data_dgram (s : sys2) (d : bytes) : Prop :=
  exists segs, d = concat (map encode_seg segs) /\ Forall (data_seg s) segs.

(* the receiver has moved every deliverable segment: the head of rcv_buf is not the next
   expected number, or the delivery queue is full *)
Definition moved (k : kcp) : Prop :=
  match rcv_buf k with
  | [] => True
  | x :: _ => s_sn x <> rcv_nxt k \/ rcv_wnd k <= qlen (rcv_queue k)
  end.

(* acknowledged segments leave snd_buf once they reach its head *)
Definition head_unacked (k : kcp) : Prop :=
  match snd_buf k with [] => True | x :: _ => s_acked x = 0 end.

Record link_inv (s : sys2) : Prop := mkLink {
  (* L3 *)
  L_nowrap : no_wrap (numbered_of s);
  (* L1: what A regards as acknowledged, B has received *)
  L1_una : forall i, 0 <= i < a_idx s -> received s i;
  L1_acked : forall j x, nth_error (snd_buf (kA s)) j = Some x -> s_acked x <> 0 ->
                         received s (a_idx s + Z.of_nat j);
  L1_head : head_unacked (kA s);
  (* L2: the B -> A history *)
  L2_acks : Forall (ack_dgram s) (wireB s);
  (* the A -> B history *)
  L0_data : Forall (data_dgram s) (wire (s1 s));
  (* B: same conversation, idle sending side, pending acknowledgements are for received
     indices, nothing deliverable left in rcv_buf *)
  LB_conv : conv (kB s) = conv (kA s);
  LB_idle : snd_queue (kB s) = [] /\ snd_buf (kB s) = [];
  LB_acks : Forall (fun p => is_u32 (fst p) /\ is_u32 (snd p) /\
                             received s (idx (isn_of s) (fst p))) (acklist (kB s));
  LB_moved : moved (kB s)
}.

(* ================================================================== *)
(* 4. the healed round                                                 *)
(* ================================================================== *)
Definition bind2 (x : option sys2) (f : sys2 -> option sys2) : option sys2 :=
  match x with Some s => f s | None => None end.

(* B's application reads (with a buffer as large as PeekSize asks for) until Recv would return
   -1, i.e. until PeekSize < 0.  Every successful read removes at least one segment from
   rcv_queue ++ rcv_buf, so |rcv_queue| + |rcv_buf| reads suffice: no fuel parameter. *)
Fixpoint drain (n : nat) (s : sys2) : option sys2 :=
  match n with
  | O => Some s
  | S n' =>
      if peeksize (kB s) <? 0 then Some s
      else bind2 (sys2_step s (EB (ORecv (peeksize (kB s))))) (drain n')
  end.

Definition b_drain (s : sys2) : option sys2 :=
  drain (length (rcv_queue (kB s)) + length (rcv_buf (kB s))) s.

(* deliver datagrams, in order, as Input events built by mk *)
Fixpoint deliver (mk : bytes -> ev) (ds : list bytes) (s : sys2) : option sys2 :=
  match ds with
  | [] => Some s
  | d :: t => bind2 (sys2_step s (mk d)) (deliver mk t)
  end.

(* what was emitted between an earlier state s and a later state s' *)
Definition new_wire (s s' : sys2) : list bytes := skipn (length (wire (s1 s))) (wire (s1 s')).
Definition new_wireB (s s' : sys2) : list bytes := skipn (length (wireB s)) (wireB s').

(* the healed round at clock value t:
   (i) B reads until Recv < 0; (ii) A flushes; (iii) every datagram of that flush reaches B, in
   order; (iv) B reads until Recv < 0; (v) B flushes; (vi) every datagram B has emitted since
   (ii) - the acknowledgements Input itself flushed in (iii) when its list grew long, and those
   of (v) - reaches A, in order. *)
Definition healed_round (s : sys2) (t : Z) : option sys2 :=
  bind2 (b_drain s) (fun s_1 =>
  bind2 (sys2_step s_1 (EA (OFlush true t))) (fun s_2 =>
  bind2 (deliver (fun d => EB (OInput d true false t)) (new_wire s_1 s_2) s_2) (fun s_3 =>
  bind2 (b_drain s_3) (fun s_4 =>
  bind2 (sys2_step s_4 (EB (OFlush true t))) (fun s_5 =>
  deliver (fun d => EA (OInput d true false t)) (new_wireB s_2 s_5) s_5))))).

(* premises of the progress theorem *)
(* the head of A's snd_buf exists and is due at t (never sent, or its timer has expired) *)
Definition head_due (s : sys2) (t : Z) : Prop :=
  match snd_buf (kA s) with
  | [] => False
  | h :: _ => s_xmit h = 0 \/ itimediff t (s_resendts h) >= 0
  end.

(* B8: no message has more fragments than B's receive window holds (message mode contract;
   in stream mode every fragment counter is 0) *)
Definition b8 (s : sys2) : Prop := Forall (fun p => fst p < rcv_wnd (kB s)) (numbered_of s).
