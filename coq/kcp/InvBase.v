(* Generic lemmas shared by InvApi / InvInput / InvFlush:
   - list / length facts (qlen, blen, take, drop),
   - tactics `ksimpl` (projection of a record update) and `inv_proj` (a clause of a known inv),
   - frame lemmas for `inv` (one per record-update function),
   - rb_sorted: weaken / shift / length / insert, and `move_ready_ok`,
   - fold-of-max facts for `max_queued`. *)
From Coq Require Import ZArith List Bool Lia.
From KV.Base Require Import Consts Word WordLemmas.
From KV.Kcp Require Import Kcp Step.
Import ListNotations.
Local Open Scope Z_scope.

Ltac Zify.zify_post_hook ::= Z.div_mod_to_equations.

(* ---- projections of record updates ---- *)
(* reduces `field (set_xxx k ...)`; only projections and the update functions are unfolded *)
Ltac ksimpl :=
  cbn [conv mtu mss state snd_una snd_nxt rcv_nxt ssthresh rx_rttvar rx_srtt rx_rto rx_minrto
       snd_wnd rcv_wnd rmt_wnd cwnd incr probe ts_probe probe_wait interval ts_flush nodelay
       updated dead_link fastresend nocwnd stream snd_queue rcv_queue snd_buf rcv_buf acklist
       buflen
       set_queues set_snd_queue set_rcv_queue set_snd_buf set_rcv_buf
       set_seq set_snd_una set_snd_nxt set_rcv_nxt set_rtt set_cc set_rmt_wnd
       set_probe set_probe_flags set_timer set_acklist set_config].

Ltac ksimpl_in H :=
  cbn [conv mtu mss state snd_una snd_nxt rcv_nxt ssthresh rx_rttvar rx_srtt rx_rto rx_minrto
       snd_wnd rcv_wnd rmt_wnd cwnd incr probe ts_probe probe_wait interval ts_flush nodelay
       updated dead_link fastresend nocwnd stream snd_queue rcv_queue snd_buf rcv_buf acklist
       buflen
       set_queues set_snd_queue set_rcv_queue set_snd_buf set_rcv_buf
       set_seq set_snd_una set_snd_nxt set_rcv_nxt set_rtt set_cc set_rmt_wnd
       set_probe set_probe_flags set_timer set_acklist set_config] in H.

(* closes a goal that is literally a clause of a known `inv k` *)
Ltac inv_proj H :=
  first
  [ exact (I_mtu _ H) | exact (I_mss _ H) | exact (I_buflen _ H)
  | exact (I_sq_len _ H) | exact (I_sb_len _ H) | exact (I_sq_fresh _ H) | exact (I_sb_push _ H)
  | exact (I_sb_contig _ H) | exact (I_snd_nxt _ H) | exact (I_sb_wnd _ H) | exact (I_una_u32 _ H)
  | exact (I_rq_wnd _ H) | exact (I_rb_sorted _ H) | exact (I_rq_len _ H) | exact (I_rb_len _ H)
  | exact (I_rnxt_u32 _ H)
  | exact (I_snd_wnd _ H) | exact (I_rcv_wnd _ H) | exact (I_rmt_wnd _ H) | exact (I_cwnd _ H)
  | exact (I_rto_max _ H) | exact (I_minrto _ H) ].

(* `inv (update of k)` from `H : inv k`: leaves the clauses the update really touches *)
Ltac inv_frame_tac H := constructor; ksimpl; try inv_proj H.

(* ---- lengths ---- *)
Lemma qlen_nil : qlen [] = 0.
Proof. reflexivity. Qed.

Lemma qlen_cons s l : qlen (s :: l) = 1 + qlen l.
Proof. unfold qlen. cbn [length]. lia. Qed.

Lemma qlen_app a b : qlen (a ++ b) = qlen a + qlen b.
Proof. unfold qlen. rewrite app_length. lia. Qed.

Lemma qlen_nonneg l : 0 <= qlen l.
Proof. unfold qlen. lia. Qed.

Lemma blen_nil : blen [] = 0.
Proof. reflexivity. Qed.

Lemma blen_nonneg b : 0 <= blen b.
Proof. unfold blen. lia. Qed.

Lemma blen_app a b : blen (a ++ b) = blen a + blen b.
Proof. unfold blen. rewrite app_length. lia. Qed.

Lemma blen_take_le_n n b : 0 <= n -> blen (take n b) <= n.
Proof.
  intros Hn. unfold blen, take. rewrite firstn_length. lia.
Qed.

Lemma blen_take_le n b : blen (take n b) <= blen b.
Proof. unfold blen, take. rewrite firstn_length. lia. Qed.

Lemma blen_take n b : 0 <= n <= blen b -> blen (take n b) = n.
Proof. intros Hn. unfold blen, take in *. rewrite firstn_length. lia. Qed.

Lemma blen_drop n b : 0 <= n <= blen b -> blen (drop n b) = blen b - n.
Proof. intros Hn. unfold blen, drop in *. rewrite skipn_length. lia. Qed.

Lemma take_drop n b : take n b ++ drop n b = b.
Proof. unfold take, drop. apply firstn_skipn. Qed.

(* ---- frame lemmas: an update that leaves the fields `inv` mentions untouched ---- *)
Lemma inv_frame k k' :
  inv k ->
  conv k' = conv k -> mtu k' = mtu k -> mss k' = mss k -> buflen k' = buflen k ->
  snd_queue k' = snd_queue k -> snd_buf k' = snd_buf k ->
  rcv_queue k' = rcv_queue k -> rcv_buf k' = rcv_buf k ->
  snd_una k' = snd_una k -> snd_nxt k' = snd_nxt k -> rcv_nxt k' = rcv_nxt k ->
  snd_wnd k' = snd_wnd k -> rcv_wnd k' = rcv_wnd k -> rmt_wnd k' = rmt_wnd k -> cwnd k' = cwnd k ->
  rx_rto k' = rx_rto k -> rx_minrto k' = rx_minrto k ->
  inv k'.
Proof.
  intros H E0 E1 E2 E3 E4 E5 E6 E7 E8 E9 E10 E11 E12 E13 E14 E15 E16.
  constructor; rewrite ?E0, ?E1, ?E2, ?E3, ?E4, ?E5, ?E6, ?E7, ?E8, ?E9, ?E10, ?E11, ?E12, ?E13, ?E14, ?E15, ?E16;
    inv_proj H.
Qed.

Lemma inv_set_probe k p t w : inv k -> inv (set_probe k p t w).
Proof. intros H. inv_frame_tac H. Qed.

Lemma inv_set_probe_flags k p : inv k -> inv (set_probe_flags k p).
Proof. intros H. inv_frame_tac H. Qed.

Lemma inv_set_timer k st tsf upd : inv k -> inv (set_timer k st tsf upd).
Proof. intros H. inv_frame_tac H. Qed.

Lemma inv_set_acklist k al : inv k -> inv (set_acklist k al).
Proof. intros H. inv_frame_tac H. Qed.

Lemma inv_set_cc k sst rmt cw inc :
  inv k -> 0 <= rmt < 65536 -> 0 <= cw -> inv (set_cc k sst rmt cw inc).
Proof. intros H Hrmt Hcw. inv_frame_tac H; assumption. Qed.

Lemma inv_set_rmt_wnd k v : inv k -> 0 <= v < 65536 -> inv (set_rmt_wnd k v).
Proof. intros H Hv. inv_frame_tac H; assumption. Qed.

Lemma inv_set_rtt k var srtt rto minrto :
  inv k -> rto <= c_IKCP_RTO_MAX -> (minrto = c_IKCP_RTO_NDL \/ minrto = c_IKCP_RTO_MIN) ->
  inv (set_rtt k var srtt rto minrto).
Proof. intros H Hrto Hmin. inv_frame_tac H; assumption. Qed.

(* snd_queue replaced *)
Lemma inv_set_snd_queue k q :
  inv k -> Forall (fun s => seg_len s <= mss k) q ->
  Forall (fun s => s_xmit s = 0 /\ s_acked s = 0) q -> inv (set_snd_queue k q).
Proof. intros H Hlen Hfresh. inv_frame_tac H; assumption. Qed.

(* the whole receive side replaced (rcv_queue, rcv_buf, rcv_nxt) *)
Lemma inv_set_rcv k rq rb rn :
  inv k -> qlen rq <= rcv_wnd k -> rb_sorted rn 0 (rcv_wnd k) rb ->
  Forall (fun s => seg_len s <= c_mtuLimit) rq -> Forall (fun s => seg_len s <= c_mtuLimit) rb ->
  is_u32 rn ->
  inv (set_rcv_nxt (set_queues k (snd_queue k) rq (snd_buf k) rb) rn).
Proof. intros H Hq Hs Hrq Hrb Hrn. inv_frame_tac H; assumption. Qed.

(* ---- rb_sorted ---- *)
Lemma rb_sorted_weaken base l : forall lo hi lo' hi',
  rb_sorted base lo hi l -> lo' <= lo -> hi <= hi' -> rb_sorted base lo' hi' l.
Proof.
  induction l as [|s t IH]; intros lo hi lo' hi' Hs Hlo Hhi.
  - exact I.
  - cbn [rb_sorted] in *. destruct Hs as [Hd [Hu Ht]].
    split; [lia|]. split; [exact Hu|].
    eapply IH; [exact Ht | lia | exact Hhi].
Qed.

Lemma itimediff_succ_r a b :
  - H32 < itimediff a b -> itimediff a (u32 (b + 1)) = itimediff a b - 1.
Proof. unfold itimediff, i32, u32, W32, H32. lia. Qed.

(* rcv_nxt advances by one: every offset drops by one *)
Lemma rb_sorted_shift base l : forall lo hi,
  - H32 < lo -> rb_sorted base lo hi l -> rb_sorted (u32 (base + 1)) (lo - 1) (hi - 1) l.
Proof.
  induction l as [|s t IH]; intros lo hi Hlo Hs.
  - exact I.
  - cbn [rb_sorted] in *. destruct Hs as [Hd [Hu Ht]].
    rewrite itimediff_succ_r by lia.
    split; [lia|]. split; [exact Hu|].
    replace (itimediff (s_sn s) base - 1 + 1) with (itimediff (s_sn s) base + 1 - 1) by lia.
    apply IH; [lia | exact Ht].
Qed.

(* the head (offset 0) leaves: the tail is sorted relative to the next base *)
Lemma rb_sorted_pop base hi s t :
  rb_sorted base 0 hi (s :: t) -> s_sn s = base -> rb_sorted (u32 (base + 1)) 0 hi t.
Proof.
  intros Hs Hsn. cbn [rb_sorted] in Hs. destruct Hs as [_ [_ Ht]].
  rewrite Hsn, itimediff_self in Ht.
  apply rb_sorted_weaken with (lo := 1 - 1) (hi := hi - 1); [|lia|lia].
  apply rb_sorted_shift; [unfold H32; lia | exact Ht].
Qed.

Lemma rb_sorted_length base l : forall lo hi,
  rb_sorted base lo hi l -> lo <= hi -> qlen l <= hi - lo.
Proof.
  induction l as [|s t IH]; intros lo hi Hs Hle.
  - rewrite qlen_nil. lia.
  - cbn [rb_sorted] in Hs. destruct Hs as [Hd [_ Ht]].
    rewrite qlen_cons. apply IH in Ht; lia.
Qed.

Lemma rb_sorted_Forall_u32 base l : forall lo hi,
  rb_sorted base lo hi l -> Forall (fun s => is_u32 (s_sn s)) l.
Proof.
  induction l as [|s t IH]; intros lo hi Hs.
  - constructor.
  - cbn [rb_sorted] in Hs. destruct Hs as [_ [Hu Ht]]. constructor; [exact Hu | eapply IH; exact Ht].
Qed.

Lemma rb_sorted_Forall_range base l : forall lo hi,
  rb_sorted base lo hi l -> Forall (fun s => lo <= itimediff (s_sn s) base < hi) l.
Proof.
  induction l as [|s t IH]; intros lo hi Hs.
  - constructor.
  - cbn [rb_sorted] in Hs. destruct Hs as [Hd [_ Ht]]. constructor; [exact Hd|].
    apply IH in Ht. eapply Forall_impl; [|exact Ht]. cbv beta. intros e He. lia.
Qed.

(* two numbers whose offsets from `base` are within 2^31 of each other compare like the offsets *)
Lemma itimediff_offsets a b base :
  - H32 <= itimediff a base - itimediff b base < H32 ->
  itimediff a b = itimediff a base - itimediff b base.
Proof. unfold itimediff, i32, W32, H32. lia. Qed.

Lemma itimediff_eq_u32 a b base :
  is_u32 a -> is_u32 b -> itimediff a base = itimediff b base -> a = b.
Proof. unfold is_u32, itimediff, i32, W32, H32. lia. Qed.

Lemma has_sn_cons sn e t : has_sn sn (e :: t) = (s_sn e =? sn) || has_sn sn t.
Proof. reflexivity. Qed.

(* sorted insertion of a fresh number inside the window *)
Lemma rb_sorted_insert base s l : forall lo hi,
  hi - lo <= H32 ->
  rb_sorted base lo hi l ->
  lo <= itimediff (s_sn s) base < hi -> is_u32 (s_sn s) ->
  has_sn (s_sn s) l = false ->
  rb_sorted base lo hi (insert_seg s l).
Proof.
  induction l as [|e t IH]; intros lo hi Hw Hs Hd Hu Hn.
  - cbn [insert_seg rb_sorted]. split; [exact Hd|]. split; [exact Hu | exact I].
  - cbn [insert_seg]. rewrite has_sn_cons in Hn. apply orb_false_iff in Hn. destruct Hn as [Hne Hn].
    pose proof Hs as Hs'. cbn [rb_sorted] in Hs'. destruct Hs' as [Hde [Hue Ht]].
    assert (Hneq : itimediff (s_sn e) base <> itimediff (s_sn s) base).
    { intros Heq. apply itimediff_eq_u32 in Heq; [|exact Hue|exact Hu].
      apply Z.eqb_neq in Hne. contradiction. }
    rewrite (itimediff_offsets (s_sn e) (s_sn s) base) by lia.
    destruct (itimediff (s_sn e) base - itimediff (s_sn s) base >? 0) eqn:Hcmp.
    + apply Z.gtb_lt in Hcmp. cbn [rb_sorted]. split; [exact Hd|]. split; [exact Hu|].
      split; [lia|]. split; [exact Hue | exact Ht].
    + assert (Hlt : itimediff (s_sn e) base < itimediff (s_sn s) base).
      { destruct (Z.gtb_spec (itimediff (s_sn e) base - itimediff (s_sn s) base) 0); [discriminate | lia]. }
      cbn [rb_sorted]. split; [exact Hde|]. split; [exact Hue|].
      apply IH; [lia | exact Ht | lia | exact Hu | exact Hn].
Qed.

Lemma insert_seg_Forall (P : seg -> Prop) s l : P s -> Forall P l -> Forall P (insert_seg s l).
Proof.
  intros Hp. induction l as [|e t IH]; intros Hl.
  - cbn [insert_seg]. constructor; [exact Hp | constructor].
  - cbn [insert_seg]. destruct (itimediff (s_sn e) (s_sn s) >? 0) eqn:Hc.
    + constructor; [exact Hp | exact Hl].
    + inversion Hl as [|e' t' He Ht]; subst. constructor; [exact He | apply IH; exact Ht].
Qed.

Lemma insert_seg_qlen s l : qlen (insert_seg s l) = 1 + qlen l.
Proof.
  induction l as [|e t IH].
  - reflexivity.
  - cbn [insert_seg]. destruct (itimediff (s_sn e) (s_sn s) >? 0) eqn:Hc.
    + rewrite qlen_cons. reflexivity.
    + rewrite !qlen_cons, IH. reflexivity.
Qed.

(* ---- move_ready: rcv_buf -> rcv_queue ---- *)
(* Whatever P holds of both structures holds afterwards; the queue stays within the window, the
   buffer stays sorted relative to the new rcv_nxt; nothing is lost or created. *)
Lemma move_ready_ok (P : seg -> Prop) rb : forall rq rn rw rb' rq' rn',
  move_ready rb rq rn rw = (rb', rq', rn') ->
  is_u32 rn -> qlen rq <= rw -> rb_sorted rn 0 rw rb ->
  Forall P rq -> Forall P rb ->
  is_u32 rn' /\ qlen rq' <= rw /\ rb_sorted rn' 0 rw rb' /\ Forall P rq' /\ Forall P rb' /\
  qlen rq <= qlen rq' /\ qlen rq' + qlen rb' = qlen rq + qlen rb /\
  rn' = u32 (rn + (qlen rq' - qlen rq)).
Proof.
  induction rb as [|s t IH]; intros rq rn rw rb' rq' rn' Hm Hrn Hq Hs Hprq Hprb.
  - cbn [move_ready] in Hm. inversion Hm; subst.
    assert (Hid : rn' = u32 (rn' + (qlen rq' - qlen rq'))).
    { replace (rn' + (qlen rq' - qlen rq')) with rn' by lia. symmetry. apply u32_id. exact Hrn. }
    split; [exact Hrn|]. split; [exact Hq|]. split; [exact Hs|]. split; [exact Hprq|].
      split; [exact Hprb|]. split; [lia|]. split; [lia|]. exact Hid.
  - cbn [move_ready] in Hm.
    destruct ((s_sn s =? rn) && (qlen rq <? rw)) eqn:Hc.
    + apply andb_true_iff in Hc. destruct Hc as [Hsn Hlt].
      apply Z.eqb_eq in Hsn. apply Z.ltb_lt in Hlt.
      inversion Hprb as [|s' t' Hps Hpt]; subst s' t'.
      apply IH in Hm.
      * destruct Hm as [H1 [H2 [H3 [H4 [H5 [H6 [H7 H8]]]]]]].
        rewrite qlen_app, qlen_cons, qlen_nil in H6, H7, H8.
        split; [exact H1|]. split; [exact H2|]. split; [exact H3|]. split; [exact H4|].
        split; [exact H5|]. rewrite qlen_cons. split; [lia|]. split; [lia|].
        rewrite H8. rewrite u32_add_mod. f_equal. lia.
      * apply u32_range.
      * rewrite qlen_app, qlen_cons, qlen_nil. lia.
      * eapply rb_sorted_pop; [exact Hs | exact Hsn].
      * apply Forall_app. split; [exact Hprq | constructor; [exact Hps | constructor]].
      * exact Hpt.
    + inversion Hm; subst.
      assert (Hid : rn' = u32 (rn' + (qlen rq' - qlen rq'))).
      { replace (rn' + (qlen rq' - qlen rq')) with rn' by lia. symmetry. apply u32_id. exact Hrn. }
      split; [exact Hrn|]. split; [exact Hq|]. split; [exact Hs|]. split; [exact Hprq|].
      split; [exact Hprb|]. split; [lia|]. split; [lia|]. exact Hid.
Qed.

(* do_move_ready keeps the invariant, given the receive-side clauses for its input *)
Lemma do_move_ready_fields k :
  conv (do_move_ready k) = conv k /\ mtu (do_move_ready k) = mtu k /\ mss (do_move_ready k) = mss k /\
  buflen (do_move_ready k) = buflen k /\
  snd_queue (do_move_ready k) = snd_queue k /\ snd_buf (do_move_ready k) = snd_buf k /\
  snd_una (do_move_ready k) = snd_una k /\ snd_nxt (do_move_ready k) = snd_nxt k /\
  snd_wnd (do_move_ready k) = snd_wnd k /\ rcv_wnd (do_move_ready k) = rcv_wnd k /\
  rmt_wnd (do_move_ready k) = rmt_wnd k /\ cwnd (do_move_ready k) = cwnd k /\
  rx_rto (do_move_ready k) = rx_rto k /\ rx_minrto (do_move_ready k) = rx_minrto k /\
  acklist (do_move_ready k) = acklist k /\ probe (do_move_ready k) = probe k.
Proof.
  unfold do_move_ready.
  destruct (move_ready (rcv_buf k) (rcv_queue k) (rcv_nxt k) (rcv_wnd k)) as [[rb rq] rn].
  repeat split.
Qed.

Lemma do_move_ready_inv k : inv k -> inv (do_move_ready k).
Proof.
  intros H. unfold do_move_ready.
  destruct (move_ready (rcv_buf k) (rcv_queue k) (rcv_nxt k) (rcv_wnd k)) as [[rb rq] rn] eqn:Hm.
  apply (move_ready_ok (fun s => seg_len s <= c_mtuLimit)) in Hm;
    [ | exact (I_rnxt_u32 _ H) | exact (I_rq_wnd _ H) | exact (I_rb_sorted _ H)
      | exact (I_rq_len _ H) | exact (I_rb_len _ H) ].
  destruct Hm as [H1 [H2 [H3 [H4 [H5 _]]]]].
  apply inv_set_rcv; assumption.
Qed.

(* ---- fold of max (max_queued) ---- *)
Definition fold_max (l : list seg) (a : Z) : Z :=
  fold_left (fun m s => Z.max m (blen (s_data s))) l a.

Lemma fold_max_le l : forall a M,
  fold_max l a <= M <-> a <= M /\ Forall (fun s => seg_len s <= M) l.
Proof.
  unfold fold_max.
  induction l as [|s t IH]; intros a M; cbn [fold_left].
  - split; [intros Ha; split; [exact Ha | constructor] | intros [Ha _]; exact Ha].
  - rewrite IH. unfold seg_len. split.
    + intros [Hm Ht]. split; [lia|]. constructor; [lia | exact Ht].
    + intros [Ha Hf]. inversion Hf as [|s' t' Hs Ht]; subst. split; [lia | exact Ht].
Qed.

Lemma max_queued_le k M :
  max_queued k <= M <-> 0 <= M /\ Forall (fun s => seg_len s <= M) (snd_queue k ++ snd_buf k).
Proof. unfold max_queued. apply (fold_max_le (snd_queue k ++ snd_buf k) 0 M). Qed.
