(* C02 - eventual delivery: the building blocks of "a healed network always drains the backlog".
   Statements only.  What is proved here, for every reachable state (inv) and every clock value:
   nothing in the state machine ever gives up (the dead-link flag is write-only), every received
   in-window or older PUSH - new or duplicate - owes an acknowledgement which the next flush of
   either kind emits or covers cumulatively, every unacknowledged segment whose timer has expired
   is retransmitted by the next full flush with its original payload, Check never sleeps past a
   due flush, and Update flushes when due.  The whole-system progress argument (a fair round of
   a healed network strictly advances snd_una or shrinks the backlog) is decided by simulation
   of the real cores (harness monitors `drains-after-healing`), see DESIGN.md. *)
From Coq Require Import ZArith List Bool.
From KV.Base Require Import Consts Word.
From KV.Kcp Require Import Kcp Step Net Live.
Import ListNotations.
Local Open Scope Z_scope.


(* 1. no give-up: the connection state flag (0 / dead link) influences no transition and no output *)
Theorem c02_no_giveup :
  forall k1 k2 o, eq_mod_state k1 k2 ->
    match step k1 o, step k2 o with
    | Ok (k1', x1), Ok (k2', x2) => eq_mod_state k1' k2' /\ x1 = x2
    | Panic w1, Panic w2 => w1 = w2
    | _, _ => False
    end.
Proof. exact no_giveup. Qed.
Print Assumptions c02_no_giveup.

(* 2. an acknowledgement is owed for every PUSH below the upper window edge, new OR duplicate *)
Theorem c02_ack_owed :
  forall a s rest regular, seg_wf s -> s_cmd s = c_IKCP_CMD_PUSH -> s_conv s = conv (i_k a) ->
    inv (i_k a) ->
    itimediff (s_sn s) (u32 (rcv_nxt (i_k a) + rcv_wnd (i_k a))) < 0 ->
    exists a', input_seg a (encode_seg s ++ rest) regular = inl (Ok (a', rest)) /\
               acklist (i_k a') = acklist (i_k a) ++ [(s_sn s, s_ts s)].
Proof. exact ack_owed. Qed.
Print Assumptions c02_ack_owed.

(* 3. a flush of either kind empties the list: each pending ack is on the wire, or its number is
   already below rcv_nxt and is covered by the cumulative una = rcv_nxt that every emitted segment
   carries (the newest pending ack is always emitted, so una is always announced) *)

Theorem c02_flush_acks :
  forall k ft now k' nx o, inv k -> (ft = FLUSH_FULL \/ ft = FLUSH_ACKONLY) ->
    flush k ft now = Ok (k', nx, o) ->
    acklist k' = [] /\
    (forall sn ts, In (sn, ts) (acklist k) ->
        emits_ack o (rcv_nxt k) sn ts \/ itimediff sn (rcv_nxt k) < 0) /\
    (forall sn ts l, acklist k = l ++ [(sn, ts)] -> emits_ack o (rcv_nxt k) sn ts).
Proof. exact flush_acks_owed. Qed.
Print Assumptions c02_flush_acks.

(* 4. an unacknowledged segment whose retransmission timer has expired - or that was never sent -
   is put on the wire by the next full flush, with its own number, fragment counter and payload *)

Theorem c02_retransmit_due :
  forall k now k' nx o s, inv k -> flush k FLUSH_FULL now = Ok (k', nx, o) ->
    In s (snd_buf k) -> s_acked s <> 1 ->
    (s_xmit s = 0 \/ itimediff now (s_resendts s) >= 0) ->
    emits_push o (s_sn s) (s_frg s) (s_data s).
Proof. exact retransmit_due. Qed.
Print Assumptions c02_retransmit_due.

(* 5. back-off is additive and bounded per step: after a timeout retransmission the next deadline
   is at most the old per-segment rto + 60 s ahead *)
Theorem c02_backoff_step :
  forall k h resent newsegs now s a s' a', inv k ->
    s_acked s <> 1 -> s_xmit s <> 0 -> (s_fastack s <? resent) = true -> s_fastack s = 0 ->
    itimediff now (s_resendts s) >= 0 ->
    flush_seg k h resent newsegs now s a = Ok (s', a') ->
    s_rto s' = u32 (s_rto s + (if nodelay k =? 0 then rx_rto k else rx_rto k / 2)) /\
    s_resendts s' = u32 (now + s_rto s') /\ s_xmit s' = u32 (s_xmit s + 1).
Proof. exact backoff_step. Qed.
Print Assumptions c02_backoff_step.

(* 6. Check never asks to sleep past a due flush or a due retransmission, and never into the past *)
Theorem c02_check_sound :
  forall k now, is_u32 now -> 10 <= interval k <= 5000 -> updated k <> 0 ->
    let t := check k now in
    0 <= itimediff t now <= interval k /\
    (itimediff now (ts_flush k) >= 0 -> t = now) /\
    (forall s, In s (snd_buf k) -> -10000 <= itimediff now (ts_flush k) < 0 ->
               itimediff (s_resendts s) now <= 0 -> t = now) /\
    (forall s, In s (snd_buf k) -> -10000 <= itimediff now (ts_flush k) < 0 ->
               0 < itimediff (s_resendts s) now -> itimediff t now <= itimediff (s_resendts s) now).
Proof. exact check_sound. Qed.
Print Assumptions c02_check_sound.

(* 7. Update flushes (a full flush) whenever the flush time has been reached *)
Theorem c02_update_flushes :
  forall k now, updated k <> 0 -> 0 <= itimediff now (ts_flush k) < 10000 ->
    exists tsf, update k now =
      match flush (set_timer k (state k) tsf (updated k)) FLUSH_FULL now with
      | Ok (k', _, o) => Ok (k', o) | Panic w => Panic w end.
Proof. exact update_flushes. Qed.
Print Assumptions c02_update_flushes.

(* the very first Update always flushes *)
Theorem c02_first_update_flushes :
  forall k now, updated k = 0 ->
    exists k0, update k now =
      match flush k0 FLUSH_FULL now with Ok (k', _, o) => Ok (k', o) | Panic w => Panic w end.
Proof. exact first_update_flushes. Qed.
Print Assumptions c02_first_update_flushes.
