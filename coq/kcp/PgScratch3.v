From Coq Require Import ZArith List Bool Lia.
From KV.Base Require Import Consts Word WordLemmas.
From KV.Kcp Require Import Kcp Step Net InvBase InvInputBase InvInput LiveBase ProgressBase PgScratch1 PgScratch2.
Import ListNotations.
Local Open Scope Z_scope.

Ltac Zify.zify_post_hook ::= Z.div_mod_to_equations.

Lemma pg_fx_all k k' : pg_fx k' = pg_fx k ->
  conv k' = conv k /\ mtu k' = mtu k /\ snd_una k' = snd_una k /\ snd_nxt k' = snd_nxt k /\
  rcv_nxt k' = rcv_nxt k /\ snd_wnd k' = snd_wnd k /\ rcv_wnd k' = rcv_wnd k /\ rmt_wnd k' = rmt_wnd k /\
  probe k' = probe k /\ ts_probe k' = ts_probe k /\ probe_wait k' = probe_wait k /\
  snd_queue k' = snd_queue k /\ rcv_queue k' = rcv_queue k /\ snd_buf k' = snd_buf k /\
  rcv_buf k' = rcv_buf k /\ acklist k' = acklist k /\ stream k' = stream k /\ nocwnd k' = nocwnd k.
Proof. unfold pg_fx. intros H. inversion H. repeat split; reflexivity. Qed.

(* ================================================================== *)
(* indices                                                             *)
(* ================================================================== *)
Lemma pg_idx_u32 isn r : 0 <= r < W32 -> idx isn (u32 (isn + r)) = r.
Proof. unfold idx, u32, W32. lia. Qed.

Lemma pg_u32_idx isn x : is_u32 x -> u32 (isn + idx isn x) = x.
Proof. unfold idx, is_u32, u32, W32. lia. Qed.

Lemma pg_idx_range isn x : 0 <= idx isn x < W32.
Proof. unfold idx. apply u32_range. Qed.

(* ================================================================== *)
(* rcv_buf: has_sn, insertion, the head                                *)
(* ================================================================== *)
Lemma pg_has_sn_insert x s : forall l,
  has_sn x (insert_seg s l) = true <-> (s_sn s = x \/ has_sn x l = true).
Proof.
  induction l as [|e t IH]; cbn [insert_seg].
  - unfold has_sn. cbn [existsb]. rewrite orb_false_r, Z.eqb_eq. split; [intros H; left; exact H|].
    intros [H|H]; [exact H|discriminate].
  - destruct (itimediff (s_sn e) (s_sn s) >? 0).
    + rewrite has_sn_cons. rewrite orb_true_iff, Z.eqb_eq. tauto.
    + rewrite !has_sn_cons. rewrite !orb_true_iff, IH, Z.eqb_eq. tauto.
Qed.

Lemma pg_sorted_no base hi x : forall l lo,
  1 <= lo -> rb_sorted base lo hi l -> itimediff x base = 0 -> has_sn x l = false.
Proof.
  induction l as [|e t IH]; intros lo Hlo H Hx; [reflexivity|].
  rewrite ii_rb_cons in H. destruct H as (Hd & Hu & Ht).
  rewrite has_sn_cons. apply orb_false_iff. split.
  - apply Z.eqb_neq. intros E. rewrite E in Hd. lia.
  - apply (IH (itimediff (s_sn e) base + 1)); [lia|exact Ht|exact Hx].
Qed.

(* in a sorted rcv_buf the next expected number can only sit at the head *)
Lemma pg_sorted_head base hi l :
  rb_sorted base 0 hi l -> is_u32 base -> has_sn base l = true ->
  exists x t, l = x :: t /\ s_sn x = base.
Proof.
  intros H Hb Hh. destruct l as [|e t]; [discriminate|].
  rewrite ii_rb_cons in H. destruct H as (Hd & Hu & Ht).
  exists e, t. split; [reflexivity|].
  rewrite has_sn_cons in Hh. apply orb_true_iff in Hh. destruct Hh as [Hh|Hh]; [apply Z.eqb_eq; exact Hh|].
  destruct (Z.eq_dec (itimediff (s_sn e) base) 0) as [E|E].
  - apply (ii_diff_inj _ _ base Hu Hb). rewrite E, itimediff_self. reflexivity.
  - rewrite (pg_sorted_no base hi base t (itimediff (s_sn e) base + 1)) in Hh;
      [discriminate|lia|exact Ht|apply itimediff_self].
Qed.

Lemma pg_insert_head base hi s l :
  rb_sorted base 0 hi l -> has_sn (s_sn s) l = false -> s_sn s = base -> is_u32 base ->
  insert_seg s l = s :: l.
Proof.
  intros H Hh Hs Hb. destruct l as [|e t]; [reflexivity|]. cbn [insert_seg].
  rewrite ii_rb_cons in H. destruct H as (Hd & Hu & Ht).
  rewrite has_sn_cons in Hh. apply orb_false_iff in Hh. destruct Hh as [Hne _]. apply Z.eqb_neq in Hne.
  assert (Hp : itimediff (s_sn e) (s_sn s) > 0).
  { rewrite Hs. destruct (Z.eq_dec (itimediff (s_sn e) base) 0) as [E|E]; [|lia].
    exfalso. apply Hne. rewrite Hs. apply (ii_diff_inj _ _ base Hu Hb). rewrite E, itimediff_self. reflexivity. }
  destruct (itimediff (s_sn e) (s_sn s) >? 0) eqn:Eg; [reflexivity|]. lv_b2z. lia.
Qed.

(* ================================================================== *)
(* move_ready with indices                                             *)
(* ================================================================== *)
Definition pg_stuck (rb rq : list seg) (rn rw : Z) : Prop :=
  match rb with [] => True | x :: _ => s_sn x <> rn \/ rw <= qlen rq end.

Lemma pg_move_ready isn rw : forall rb rq r rb' rq' rn',
  move_ready rb rq (u32 (isn + r)) rw = (rb', rq', rn') -> 0 <= r -> r + qlen rb < H32 ->
  exists m, 0 <= m <= qlen rb /\ rn' = u32 (isn + (r + m)) /\ qlen rq' = qlen rq + m /\
    (m = 0 -> rq' = rq /\ rb' = rb) /\
    (forall j, 0 <= j < H32 -> (j < r \/ has_sn (u32 (isn + j)) rb = true) ->
               (j < r + m \/ has_sn (u32 (isn + j)) rb' = true)) /\
    pg_stuck rb' rq' rn' rw /\
    (match rb with x :: _ => s_sn x = u32 (isn + r) -> qlen rq < rw -> 1 <= m | [] => True end).
Proof.
  induction rb as [|s t IH]; intros rq r rb' rq' rn' E Hr Hb; cbn [move_ready] in E.
  - inversion E; subst. exists 0. rewrite qlen_nil, !Z.add_0_r.
    split; [lia|]. split; [reflexivity|]. split; [reflexivity|]. split; [auto|]. split; [auto|]. split; exact I.
  - destruct ((s_sn s =? u32 (isn + r)) && (qlen rq <? rw)) eqn:Ec.
    + apply andb_prop in Ec. destruct Ec as [E1 E2]. lv_b2z.
      rewrite u32_add_mod in E. replace (isn + r + 1) with (isn + (r + 1)) in E by lia.
      rewrite qlen_cons in Hb.
      destruct (IH _ _ _ _ _ E) as (m & Hm & Hn & Hq & H0 & Hmono & Hst & _); [lia|lia|].
      exists (1 + m). pose proof (qlen_nonneg t). rewrite qlen_cons.
      split; [lia|]. split; [rewrite Hn; f_equal; lia|].
      split; [rewrite Hq, qlen_app, qlen_cons, qlen_nil; lia|].
      split; [intros; lia|].
      split.
      * intros j Hj Hcase. replace (r + (1 + m)) with (r + 1 + m) by lia. apply Hmono; [exact Hj|].
        destruct Hcase as [Hlt|Hh]; [left; lia|].
        rewrite has_sn_cons in Hh. apply orb_true_iff in Hh. destruct Hh as [Hh|Hh]; [|right; exact Hh].
        lv_b2z. left. rewrite E1 in Hh.
        assert (r = j) by (apply (u32_inj_index isn); [lia|exact Hh]). lia.
      * split; [exact Hst|]. intros _ _. lia.
    + inversion E; subst. exists 0. rewrite !Z.add_0_r. pose proof (qlen_nonneg (s :: t)).
      split; [lia|]. split; [reflexivity|]. split; [reflexivity|]. split; [auto|]. split; [auto|].
      split.
      * unfold pg_stuck. apply andb_false_iff in Ec. destruct Ec as [Ec|Ec]; lv_b2z; [left; exact Ec|right; lia].
      * intros E1 E2. apply andb_false_iff in Ec. destruct Ec as [Ec|Ec]; lv_b2z; [contradiction|lia].
Qed.

(* state level: `moved` is pg_stuck *)
Lemma pg_moved_iff k : moved k <-> pg_stuck (rcv_buf k) (rcv_queue k) (rcv_nxt k) (rcv_wnd k).
Proof. reflexivity. Qed.

(* what the receive side of one endpoint looks like to the link invariant *)
Definition pg_rv (k : kcp) := (rcv_nxt k, rcv_queue k, rcv_buf k, rcv_wnd k).

Lemma pg_rv_got isn k k' i : pg_rv k' = pg_rv k -> got isn k i -> got isn k' i.
Proof. unfold pg_rv, got. intros H. inversion H as [[E1 E2 E3 E4]]. rewrite E1, E3. auto. Qed.

Lemma pg_rv_moved k k' : pg_rv k' = pg_rv k -> moved k -> moved k'.
Proof. unfold pg_rv, moved. intros H. inversion H as [[E1 E2 E3 E4]]. rewrite E1, E2, E3, E4. auto. Qed.

(* do_move_ready from a state whose rcv_nxt has index r *)
Lemma pg_do_move_ready isn k r :
  rcv_nxt k = u32 (isn + r) -> 0 <= r -> r + qlen (rcv_buf k) < H32 ->
  exists m, 0 <= m <= qlen (rcv_buf k) /\ rcv_nxt (do_move_ready k) = u32 (isn + (r + m)) /\
    qlen (rcv_queue (do_move_ready k)) = qlen (rcv_queue k) + m /\
    (m = 0 -> rcv_queue (do_move_ready k) = rcv_queue k /\ rcv_buf (do_move_ready k) = rcv_buf k) /\
    (forall j, 0 <= j < H32 -> (j < r \/ has_sn (u32 (isn + j)) (rcv_buf k) = true) ->
               (j < r + m \/ has_sn (u32 (isn + j)) (rcv_buf (do_move_ready k)) = true)) /\
    moved (do_move_ready k) /\
    (match rcv_buf k with x :: _ => s_sn x = rcv_nxt k -> qlen (rcv_queue k) < rcv_wnd k -> 1 <= m
                        | [] => True end).
Proof.
  intros Hn Hr Hb.
  pose proof (do_move_ready_fields k) as F.
  unfold do_move_ready in *.
  destruct (move_ready (rcv_buf k) (rcv_queue k) (rcv_nxt k) (rcv_wnd k)) as [[rb rq] rn] eqn:E.
  rewrite Hn in E.
  destruct (pg_move_ready isn _ _ _ _ _ _ _ E Hr Hb) as (m & H1 & H2 & H3 & H0 & H4 & H5 & H6).
  exists m. unfold moved. ksimpl. rewrite Hn.
  split; [exact H1|]. split; [exact H2|]. split; [exact H3|]. split; [exact H0|]. split; [exact H4|].
  split; [exact H5|exact H6].
Qed.
