(* Assembly: one step, whole histories.  Exports everything the statement files use. *)
From Coq Require Import ZArith List Bool Lia.
From KV.Base Require Import Consts Word WordLemmas.
From KV.Kcp Require Import Kcp Step.
From KV.Kcp Require Export InvBase InvApi InvInputBase InvInput InvFlush.
Import ListNotations.
Local Open Scope Z_scope.

(* facts every call preserves besides inv *)
Definition keeps (k k' : kcp) : Prop :=
  (rto_inv k -> rto_inv k') /\ rx_minrto k' = rx_minrto k.

Lemma input_ok_full :
  forall k d regular nd now, inv k -> is_byte_list d ->
    exists k' r o, input k d regular nd now = Ok (k', r, o) /\ inv k' /\ Forall (dgram_ok k') o /\
      keeps k k' /\ mtu k' = mtu k /\
      alen (acklist k') <= alen (acklist k) + blen d / c_IKCP_OVERHEAD /\
      (r = 0 -> alen (acklist k') < mtu k' / c_IKCP_OVERHEAD).
Proof.
  intros k d regular nd now Hinv Hd.
  destruct (input_pre_ok k d regular nd now Hinv Hd)
    as (k1 & r & fr & Hpre & Hinv1 & Hrto1 & Hmtu1 & Hmin1 & Hconv1 & Hal1 & Hal2).
  unfold input. rewrite Hpre.
  destruct fr.
  - exists k1, r, []. repeat split; auto. intros Hr. apply Hal2; auto.
  - destruct (flush_ok k1 FLUSH_ACKONLY now Hinv1)
      as (k2 & nx & o & Hfl & Hinv2 & Hdg & Hrto2 & Hmtu2 & Hmin2 & Hrtoeq & Hconv2).
    rewrite Hfl. exists k2, r, o. repeat split; auto.
    + congruence.
    + congruence.
    + rewrite (flush_acklist _ _ _ _ _ _ Hfl (or_intror eq_refl)). unfold alen at 1. cbn [length Z.of_nat].
      pose proof (Zle_0_nat (length (acklist k))). unfold alen.
      assert (0 <= blen d / c_IKCP_OVERHEAD).
      { apply Z.div_pos. unfold blen. lia. unfold c_IKCP_OVERHEAD. lia. }
      lia.
    + intros _. rewrite (flush_acklist _ _ _ _ _ _ Hfl (or_intror eq_refl)). unfold alen. cbn [length Z.of_nat].
      pose proof (I_mtu _ Hinv2) as Hm. unfold c_IKCP_OVERHEAD in *.
      assert (1 <= mtu k2 / 24). { apply Z.div_le_lower_bound; lia. } lia.
  - destruct (flush_ok k1 FLUSH_FULL now Hinv1)
      as (k2 & nx & o & Hfl & Hinv2 & Hdg & Hrto2 & Hmtu2 & Hmin2 & Hrtoeq & Hconv2).
    rewrite Hfl. exists k2, r, o. repeat split; auto.
    + congruence.
    + congruence.
    + rewrite (flush_acklist _ _ _ _ _ _ Hfl (or_introl eq_refl)). unfold alen at 1. cbn [length Z.of_nat].
      pose proof (Zle_0_nat (length (acklist k))). unfold alen.
      assert (0 <= blen d / c_IKCP_OVERHEAD).
      { apply Z.div_pos. unfold blen. lia. unfold c_IKCP_OVERHEAD. lia. }
      lia.
    + intros _. rewrite (flush_acklist _ _ _ _ _ _ Hfl (or_introl eq_refl)). unfold alen. cbn [length Z.of_nat].
      pose proof (I_mtu _ Hinv2) as Hm. unfold c_IKCP_OVERHEAD in *.
      assert (1 <= mtu k2 / 24). { apply Z.div_le_lower_bound; lia. } lia.
Qed.

Lemma input_ok :
  forall k d regular nd now, inv k -> is_byte_list d ->
    exists k' r o, input k d regular nd now = Ok (k', r, o) /\ inv k' /\ Forall (dgram_ok k') o.
Proof.
  intros k d regular nd now Hinv Hd.
  destruct (input_ok_full k d regular nd now Hinv Hd) as (k' & r & o & H & Hi & Ho & _).
  exists k', r, o. auto.
Qed.

Lemma input_acklist :
  forall k d regular nd now k' r o, inv k -> is_byte_list d ->
    input k d regular nd now = Ok (k', r, o) ->
    alen (acklist k') <= alen (acklist k) + blen d / c_IKCP_OVERHEAD /\
    (r = 0 -> alen (acklist k') < mtu k' / c_IKCP_OVERHEAD).
Proof.
  intros k d regular nd now k' r o Hinv Hd Hin.
  destruct (input_ok_full k d regular nd now Hinv Hd) as (k2 & r2 & o2 & H & _ & _ & _ & _ & Ha & Hb).
  rewrite H in Hin. inversion Hin; subst. auto.
Qed.

(* timer fields do not occur in inv *)
Lemma inv_set_timer' : forall k st tsf upd, inv k -> inv (set_timer k st tsf upd).
Proof. intros. apply inv_set_timer; assumption. Qed.

Lemma update_ok :
  forall k now, inv k ->
    exists k' o, update k now = Ok (k', o) /\ inv k' /\ Forall (dgram_ok k') o /\ keeps k k' /\ mtu k' = mtu k.
Proof.
  intros k now Hinv. unfold update.
  set (k1 := if updated k =? 0 then set_timer k (state k) now 1 else k).
  assert (H1 : inv k1 /\ rx_rto k1 = rx_rto k /\ rx_minrto k1 = rx_minrto k /\ mtu k1 = mtu k).
  { unfold k1. destruct (updated k =? 0); [split; [apply inv_set_timer'; auto | destruct k; cbn; auto] | auto]. }
  destruct H1 as (Hi1 & Hr1 & Hm1 & Hmt1).
  set (p := if (itimediff now (ts_flush k1) >=? 10000) || (itimediff now (ts_flush k1) <? -10000)
            then (set_timer k1 (state k1) now (updated k1), 0) else (k1, itimediff now (ts_flush k1))).
  assert (H2 : inv (fst p) /\ rx_rto (fst p) = rx_rto k /\ rx_minrto (fst p) = rx_minrto k /\ mtu (fst p) = mtu k).
  { unfold p. destruct ((itimediff now (ts_flush k1) >=? 10000) || (itimediff now (ts_flush k1) <? -10000)); cbn [fst].
    - split; [apply inv_set_timer'; auto | destruct k1; cbn in *; auto].
    - auto. }
  destruct p as (k2, slap). cbn [fst] in H2. destruct H2 as (Hi2 & Hr2 & Hm2 & Hmt2).
  destruct (slap >=? 0).
  - match goal with |- context [flush ?kk FLUSH_FULL now] => set (k3 := kk) end.
    assert (H3 : inv k3 /\ rx_rto k3 = rx_rto k /\ rx_minrto k3 = rx_minrto k /\ mtu k3 = mtu k).
    { unfold k3. split; [apply inv_set_timer'; auto | destruct k2; cbn in *; auto]. }
    destruct H3 as (Hi3 & Hr3 & Hm3 & Hmt3).
    destruct (flush_ok k3 FLUSH_FULL now Hi3)
      as (k4 & nx & o & Hfl & Hinv4 & Hdg & Hrto4 & Hmtu4 & Hmin4 & Hrtoeq & Hconv4).
    rewrite Hfl. exists k4, o. repeat split; auto; try congruence.
    intros Hr. apply Hrto4. unfold rto_inv in *. congruence.
  - exists k2, []. repeat split; auto. intros Hr. unfold rto_inv in *. congruence.
Qed.

(* ---- one step ---- *)
Lemma step_ok_full :
  forall k o, inv k -> op_ok o ->
    exists k' x, step k o = Ok (k', x) /\ inv k' /\ out_ok k' x /\
      ((match o with ONoDelay _ _ _ _ => False | _ => True end) -> keeps k k').
Proof.
  intros k o Hinv Hop. destruct o as [b|n|d reg nd now|full now|now|now|m|nd iv rs nc]; cbn [step op_ok] in *.
  - destruct (send_ok k b Hinv Hop) as (k' & r & Hs & Hi & Hr & Hm & Hmin & Hrto).
    rewrite Hs. exists k', (mkOut r [] []). repeat split; auto. constructor.
  - pose proof (recv_ok k n Hinv) as H. destruct (recv k n) as ((k', r), d).
    destruct H as (Hi & Hr & Hm & Hmin & Hrto).
    exists k', (mkOut r d []). repeat split; auto. constructor.
  - destruct (input_ok_full k d reg nd now Hinv Hop) as (k' & r & o & Hin & Hi & Ho & Hk & _).
    rewrite Hin. exists k', (mkOut r [] o). repeat split; auto; apply Hk.
  - destruct (flush_ok k (if full then FLUSH_FULL else FLUSH_ACKONLY) now Hinv)
      as (k' & nx & o & Hfl & Hi & Hdg & Hrto & Hmtu & Hmin & Hrtoeq & Hconv).
    rewrite Hfl. exists k', (mkOut nx [] o). repeat split; auto.
  - destruct (update_ok k now Hinv) as (k' & o & Hu & Hi & Ho & Hk & _).
    rewrite Hu. exists k', (mkOut 0 [] o). repeat split; auto; apply Hk.
  - exists k, (mkOut (check k now) [] []). repeat split; auto. constructor.
  - pose proof (setmtu_spec k m Hinv) as Hs. pose proof (setmtu_ok k m Hinv) as Hk.
    destruct (set_mtu k m) as (k', r).
    exists k', (mkOut r [] []). repeat split; try (constructor; fail).
    + destruct Hs as [(_ & _ & Hi) | (_ & He)]; [auto | subst; auto].
    + apply Hk.
    + apply Hk.
  - exists (set_nodelay k nd iv rs nc), (mkOut 0 [] []). repeat split.
    + apply nodelay_inv; auto.
    + constructor.
    + intros [].
    + intros [].
Qed.

Lemma step_ok :
  forall k o, inv k -> op_ok o ->
    exists k' x, step k o = Ok (k', x) /\ inv k' /\ out_ok k' x.
Proof.
  intros k o Hinv Hop. destruct (step_ok_full k o Hinv Hop) as (k' & x & H & Hi & Ho & _).
  exists k', x. auto.
Qed.

Lemma step_output_size :
  forall k o k' x, inv k -> op_ok o -> step k o = Ok (k', x) ->
    Forall (fun d => 0 < blen d <= mtu k') (o_dgrams x).
Proof.
  intros k o k' x Hinv Hop Hs.
  destruct (step_ok k o Hinv Hop) as (k2 & x2 & H & _ & Ho).
  rewrite H in Hs. inversion Hs; subst.
  unfold out_ok in Ho. eapply Forall_impl; [|exact Ho]. intros d Hd. apply Hd.
Qed.

(* ---- histories ---- *)
Lemma run_ok :
  forall ops k, inv k -> Forall op_ok ops ->
    exists k' outs, run k ops = Some (k', outs) /\ inv k'.
Proof.
  induction ops as [|o t IH]; intros k Hinv Hops.
  - exists k, []. auto.
  - inversion Hops as [|? ? Ho Ht]; subst.
    destruct (step_ok k o Hinv Ho) as (k1 & x & Hs & Hi1 & _).
    destruct (IH k1 Hi1 Ht) as (k2 & xs & Hr & Hi2).
    exists k2, (x :: xs). cbn [run]. rewrite Hs, Hr. auto.
Qed.

Lemma run_never_panics :
  forall ops k, inv k -> Forall op_ok ops -> run k ops <> None.
Proof.
  intros ops k Hinv Hops. destruct (run_ok ops k Hinv Hops) as (k' & outs & H & _). congruence.
Qed.

Lemma run_output_size :
  forall ops k, inv k -> Forall op_ok ops ->
    exists k' outs, run k ops = Some (k', outs) /\ inv k' /\
      Forall (fun x => Forall (fun d => 0 < blen d <= c_mtuLimit) (o_dgrams x)) outs.
Proof.
  induction ops as [|o t IH]; intros k Hinv Hops.
  - exists k, []. auto.
  - inversion Hops as [|? ? Ho Ht]; subst.
    destruct (step_ok k o Hinv Ho) as (k1 & x & Hs & Hi1 & Hout).
    destruct (IH k1 Hi1 Ht) as (k2 & xs & Hr & Hi2 & Hall).
    exists k2, (x :: xs). cbn [run]. rewrite Hs, Hr. repeat split; auto.
    constructor; auto.
    unfold out_ok in Hout. eapply Forall_impl; [|exact Hout].
    intros d (Hd & _). pose proof (I_mtu _ Hi1). lia.
Qed.

Lemma run_rto_bounds :
  forall ops k k' outs, inv k -> rto_inv k -> Forall op_ok ops ->
    Forall (fun o => match o with ONoDelay _ _ _ _ => False | _ => True end) ops ->
    run k ops = Some (k', outs) ->
    (rx_minrto k' = 30 \/ rx_minrto k' = 100) /\ rx_minrto k' <= rx_rto k' <= 60000.
Proof.
  induction ops as [|o t IH]; intros k k' outs Hinv Hrto Hops Hnd Hrun.
  - cbn in Hrun. inversion Hrun; subst.
    pose proof (I_minrto _ Hinv) as Hm. pose proof (I_rto_max _ Hinv) as Hx.
    unfold rto_inv, c_IKCP_RTO_NDL, c_IKCP_RTO_MIN, c_IKCP_RTO_MAX in *. lia.
  - inversion Hops as [|? ? Ho Ht]; subst. inversion Hnd as [|? ? Hn Hnt]; subst.
    destruct (step_ok_full k o Hinv Ho) as (k1 & x & Hs & Hi1 & _ & Hk).
    cbn [run] in Hrun. rewrite Hs in Hrun.
    destruct (run k1 t) as [(k2, xs)|] eqn:Hr; [|discriminate].
    inversion Hrun; subst.
    eapply IH; eauto. apply Hk; auto.
Qed.
