(* Assembly: one step, whole histories.  Exports everything the statement files use. *)
From Coq Require Import ZArith List Bool Lia.
From KV.Base Require Import Consts Word WordLemmas.
From KV.Kcp Require Import Kcp Step.
From KV.Kcp Require Export InvBase InvApi InvInputBase InvInput InvFlush.
Import ListNotations.
Local Open Scope Z_scope.

(* facts every call preserves besides inv *)
Definition keeps (k k' : kcp) : Prop :=
  (rto_inv k -> rto_inv k') /\ rx_minrto k' = rx_minrto k.

Lemma alen_nil_lt_mtu : forall k, inv k -> alen [] < mtu k / c_IKCP_OVERHEAD.
Proof.
  intros k Hinv. pose proof (I_mtu _ Hinv) as Hm. unfold alen, c_IKCP_OVERHEAD in *. cbn [length Z.of_nat].
  assert (1 <= mtu k / 24) by (apply Z.div_le_lower_bound; lia). lia.
Qed.

Lemma alen_nil_le : forall (l : list (Z * Z)) d, alen [] <= alen l + blen d / c_IKCP_OVERHEAD.
Proof.
  intros l d. unfold alen, blen, c_IKCP_OVERHEAD. cbn [length Z.of_nat].
  pose proof (Zle_0_nat (length l)). assert (0 <= Z.of_nat (length d) / 24) by (apply Z.div_pos; lia). lia.
Qed.

Lemma input_ok_full :
  forall k d regular nd now, inv k -> is_byte_list d ->
    exists k' r o, input k d regular nd now = Ok (k', r, o) /\ inv k' /\ Forall (dgram_ok k') o /\
      keeps k k' /\ mtu k' = mtu k /\
      alen (acklist k') <= alen (acklist k) + blen d / c_IKCP_OVERHEAD /\
      (r = 0 -> alen (acklist k') < mtu k' / c_IKCP_OVERHEAD).
Proof.
  intros k d regular nd now Hinv Hd.
  destruct (input_pre_ok k d regular nd now Hinv Hd)
    as (k1 & r & fr & Hpre & Hinv1 & Hrto1 & Hmtu1 & Hmin1 & Hconv1 & Hal1 & Hal2).
  unfold input. rewrite Hpre.
  assert (Hfl : forall ft, ft = FLUSH_FULL \/ ft = FLUSH_ACKONLY ->
            exists k' o, match flush k1 ft now with Ok (k', _, o) => Ok (k', r, o) | Panic w => Panic w end = Ok (k', r, o) /\
              inv k' /\ Forall (dgram_ok k') o /\ keeps k k' /\ mtu k' = mtu k /\
              alen (acklist k') <= alen (acklist k) + blen d / c_IKCP_OVERHEAD /\
              (r = 0 -> alen (acklist k') < mtu k' / c_IKCP_OVERHEAD)).
  { intros ft Hft.
    destruct (flush_ok k1 ft now Hinv1)
      as (k2 & nx & o & Hfl & Hinv2 & Hdg & Hrto2 & Hmtu2 & Hmin2 & Hrtoeq & Hconv2).
    rewrite Hfl. exists k2, o.
    pose proof (flush_acklist _ _ _ _ _ _ Hfl Hft) as Hal.
    split; [reflexivity|]. split; [exact Hinv2|]. split; [exact Hdg|].
    split; [split; [auto | congruence]|]. split; [congruence|].
    rewrite Hal. split; [apply alen_nil_le | intros _; apply alen_nil_lt_mtu; exact Hinv2]. }
  destruct fr.
  - exists k1, r, []. split; [reflexivity|]. split; [exact Hinv1|]. split; [constructor|].
    split; [split; [exact Hrto1 | exact Hmin1]|]. split; [exact Hmtu1|]. split; [exact Hal1|].
    intros Hr. apply Hal2; auto.
  - destruct (Hfl FLUSH_ACKONLY (or_intror eq_refl)) as (k2 & o & H & Hrest). exists k2, r, o. split; [exact H | exact Hrest].
  - destruct (Hfl FLUSH_FULL (or_introl eq_refl)) as (k2 & o & H & Hrest). exists k2, r, o. split; [exact H | exact Hrest].
Qed.

Lemma input_ok :
  forall k d regular nd now, inv k -> is_byte_list d ->
    exists k' r o, input k d regular nd now = Ok (k', r, o) /\ inv k' /\ Forall (dgram_ok k') o.
Proof.
  intros k d regular nd now Hinv Hd.
  destruct (input_ok_full k d regular nd now Hinv Hd) as (k' & r & o & H & Hi & Ho & _).
  exists k', r, o. auto.
Qed.

Lemma input_acklist :
  forall k d regular nd now k' r o, inv k -> is_byte_list d ->
    input k d regular nd now = Ok (k', r, o) ->
    alen (acklist k') <= alen (acklist k) + blen d / c_IKCP_OVERHEAD /\
    (r = 0 -> alen (acklist k') < mtu k' / c_IKCP_OVERHEAD).
Proof.
  intros k d regular nd now k' r o Hinv Hd Hin.
  destruct (input_ok_full k d regular nd now Hinv Hd) as (k2 & r2 & o2 & H & _ & _ & _ & _ & Ha & Hb).
  rewrite H in Hin. inversion Hin; subst. auto.
Qed.

(* timer fields do not occur in inv *)
Lemma inv_set_timer' : forall k st tsf upd, inv k -> inv (set_timer k st tsf upd).
Proof. intros. apply inv_set_timer; assumption. Qed.

Lemma keeps_eq : forall k k', rx_rto k' = rx_rto k -> rx_minrto k' = rx_minrto k -> keeps k k'.
Proof. intros k k' H1 H2. split; [unfold rto_inv; intros; congruence | exact H2]. Qed.

Lemma keeps_refl : forall k, keeps k k.
Proof. intros k. split; auto. Qed.

Lemma keeps_trans : forall a b c, keeps a b -> keeps b c -> keeps a c.
Proof. intros a b c [H1 H2] [H3 H4]. split; [auto | congruence]. Qed.

Lemma set_timer_keeps : forall k st tsf upd, keeps k (set_timer k st tsf upd) /\ mtu (set_timer k st tsf upd) = mtu k.
Proof. intros k st tsf upd. destruct k; split; [apply keeps_eq|]; reflexivity. Qed.

Lemma update_ok :
  forall k now, inv k ->
    exists k' o, update k now = Ok (k', o) /\ inv k' /\ Forall (dgram_ok k') o /\ keeps k k' /\ mtu k' = mtu k.
Proof.
  intros k now Hinv. unfold update.
  set (k1 := if updated k =? 0 then set_timer k (state k) now 1 else k).
  assert (H1 : inv k1 /\ keeps k k1 /\ mtu k1 = mtu k).
  { unfold k1. destruct (updated k =? 0).
    - split; [apply inv_set_timer'; auto | apply set_timer_keeps].
    - split; [auto | split; [apply keeps_refl | reflexivity]]. }
  destruct H1 as (Hi1 & Hk1 & Hmt1).
  set (p := if (itimediff now (ts_flush k1) >=? 10000) || (itimediff now (ts_flush k1) <? -10000)
            then (set_timer k1 (state k1) now (updated k1), 0) else (k1, itimediff now (ts_flush k1))).
  assert (H2 : inv (fst p) /\ keeps k (fst p) /\ mtu (fst p) = mtu k).
  { unfold p. destruct ((itimediff now (ts_flush k1) >=? 10000) || (itimediff now (ts_flush k1) <? -10000)); cbn [fst].
    - split; [apply inv_set_timer'; auto|].
      destruct (set_timer_keeps k1 (state k1) now (updated k1)) as [Ha Hb].
      split; [eapply keeps_trans; eauto | congruence].
    - auto. }
  destruct p as (k2, slap). cbn [fst] in H2. destruct H2 as (Hi2 & Hk2 & Hmt2).
  destruct (slap >=? 0).
  - match goal with |- context [flush ?kk FLUSH_FULL now] => set (k3 := kk) end.
    assert (H3 : inv k3 /\ keeps k k3 /\ mtu k3 = mtu k).
    { unfold k3. split; [apply inv_set_timer'; auto|].
      match goal with |- context [set_timer k2 ?a ?b ?c] => destruct (set_timer_keeps k2 a b c) as [Ha Hb] end.
      split; [eapply keeps_trans; eauto | congruence]. }
    destruct H3 as (Hi3 & Hk3 & Hmt3).
    destruct (flush_ok k3 FLUSH_FULL now Hi3)
      as (k4 & nx & o & Hfl & Hinv4 & Hdg & Hrto4 & Hmtu4 & Hmin4 & Hrtoeq & Hconv4).
    rewrite Hfl. exists k4, o.
    split; [reflexivity|]. split; [exact Hinv4|]. split; [exact Hdg|].
    split; [eapply keeps_trans; [exact Hk3 | split; [exact Hrto4 | exact Hmin4]] | congruence].
  - exists k2, []. split; [reflexivity|]. split; [exact Hi2|]. split; [constructor|]. split; [exact Hk2 | exact Hmt2].
Qed.

(* ---- one step ---- *)
Lemma step_ok_full :
  forall k o, inv k -> op_ok o ->
    exists k' x, step k o = Ok (k', x) /\ inv k' /\ out_ok k' x /\
      ((match o with ONoDelay nd _ _ _ => nd < 0 | _ => True end) -> keeps k k').
Proof.
  intros k o Hinv Hop. destruct o as [b|n|d reg nd now|full now|now|now|m|nd iv rs nc]; cbn [step op_ok] in *.
  - destruct (send_ok k b Hinv Hop) as (k' & r & Hs & Hi & Hr & Hm & Hmin & Hrto).
    rewrite Hs. exists k', (mkOut r [] []).
    split; [reflexivity|]. split; [exact Hi|]. split; [constructor|]. intros _. split; [exact Hr | exact Hmin].
  - pose proof (recv_ok k n Hinv) as H. destruct (recv k n) as ((k', r), d).
    destruct H as (Hi & Hr & Hm & Hmin & Hrto).
    exists k', (mkOut r d []).
    split; [reflexivity|]. split; [exact Hi|]. split; [constructor|]. intros _. split; [exact Hr | exact Hmin].
  - destruct (input_ok_full k d reg nd now Hinv Hop) as (k' & r & o & Hin & Hi & Ho & Hk & _).
    rewrite Hin. exists k', (mkOut r [] o).
    split; [reflexivity|]. split; [exact Hi|]. split; [exact Ho|]. intros _. exact Hk.
  - destruct (flush_ok k (if full then FLUSH_FULL else FLUSH_ACKONLY) now Hinv)
      as (k' & nx & o & Hfl & Hi & Hdg & Hrto & Hmtu & Hmin & Hrtoeq & Hconv).
    rewrite Hfl. exists k', (mkOut nx [] o).
    split; [reflexivity|]. split; [exact Hi|]. split; [exact Hdg|]. intros _. split; [exact Hrto | exact Hmin].
  - destruct (update_ok k now Hinv) as (k' & o & Hu & Hi & Ho & Hk & _).
    rewrite Hu. exists k', (mkOut 0 [] o).
    split; [reflexivity|]. split; [exact Hi|]. split; [exact Ho|]. intros _. exact Hk.
  - exists k, (mkOut (check k now) [] []).
    split; [reflexivity|]. split; [exact Hinv|]. split; [constructor|]. intros _. apply keeps_refl.
  - pose proof (setmtu_spec k m Hinv) as Hs. pose proof (setmtu_ok k m Hinv) as Hk.
    destruct (set_mtu k m) as (k', r).
    exists k', (mkOut r [] []).
    split; [reflexivity|]. split.
    + destruct Hs as [(_ & _ & Hi) | (_ & He)]; [exact Hi | subst; exact Hinv].
    + split; [constructor|]. intros _. destruct Hk as (Ha & Hb & Hc). split; [exact Ha | exact Hb].
  - exists (set_nodelay k nd iv rs nc), (mkOut 0 [] []).
    split; [reflexivity|]. split; [apply nodelay_inv; exact Hinv|]. split; [constructor|].
    intros Hneg. unfold keeps, rto_inv, set_nodelay.
    assert (E : (nd >=? 0) = false) by (rewrite Z.geb_leb; apply Z.leb_gt; exact Hneg).
    rewrite E. destruct k; cbn. split; auto.
Qed.

Lemma step_ok :
  forall k o, inv k -> op_ok o ->
    exists k' x, step k o = Ok (k', x) /\ inv k' /\ out_ok k' x.
Proof.
  intros k o Hinv Hop. destruct (step_ok_full k o Hinv Hop) as (k' & x & H & Hi & Ho & _).
  exists k', x. auto.
Qed.

Lemma step_output_size :
  forall k o k' x, inv k -> op_ok o -> step k o = Ok (k', x) ->
    Forall (fun d => 0 < blen d <= mtu k') (o_dgrams x).
Proof.
  intros k o k' x Hinv Hop Hs.
  destruct (step_ok k o Hinv Hop) as (k2 & x2 & H & _ & Ho).
  rewrite H in Hs. inversion Hs; subst.
  unfold out_ok in Ho. eapply Forall_impl; [|exact Ho]. intros d Hd. apply Hd.
Qed.

(* ---- histories ---- *)
Lemma run_ok :
  forall ops k, inv k -> Forall op_ok ops ->
    exists k' outs, run k ops = Some (k', outs) /\ inv k'.
Proof.
  induction ops as [|o t IH]; intros k Hinv Hops.
  - exists k, []. auto.
  - inversion Hops as [|? ? Ho Ht]; subst.
    destruct (step_ok k o Hinv Ho) as (k1 & x & Hs & Hi1 & _).
    destruct (IH k1 Hi1 Ht) as (k2 & xs & Hr & Hi2).
    exists k2, (x :: xs). cbn [run]. rewrite Hs, Hr. auto.
Qed.

Lemma run_never_panics :
  forall ops k, inv k -> Forall op_ok ops -> run k ops <> None.
Proof.
  intros ops k Hinv Hops. destruct (run_ok ops k Hinv Hops) as (k' & outs & H & _). congruence.
Qed.

Lemma run_output_size :
  forall ops k, inv k -> Forall op_ok ops ->
    exists k' outs, run k ops = Some (k', outs) /\ inv k' /\
      Forall (fun x => Forall (fun d => 0 < blen d <= c_mtuLimit) (o_dgrams x)) outs.
Proof.
  induction ops as [|o t IH]; intros k Hinv Hops.
  - exists k, []. auto.
  - inversion Hops as [|? ? Ho Ht]; subst.
    destruct (step_ok k o Hinv Ho) as (k1 & x & Hs & Hi1 & Hout).
    destruct (IH k1 Hi1 Ht) as (k2 & xs & Hr & Hi2 & Hall).
    exists k2, (x :: xs). cbn [run]. rewrite Hs, Hr.
    split; [reflexivity|]. split; [exact Hi2|].
    constructor; [|exact Hall].
    unfold out_ok in Hout. eapply Forall_impl; [|exact Hout].
    intros d (Hd & _). pose proof (I_mtu _ Hi1). lia.
Qed.

Lemma run_rto_bounds :
  forall ops k k' outs, inv k -> rto_inv k -> Forall op_ok ops ->
    Forall (fun o => match o with ONoDelay nd _ _ _ => nd < 0 | _ => True end) ops ->
    run k ops = Some (k', outs) ->
    (rx_minrto k' = 30 \/ rx_minrto k' = 100) /\ rx_minrto k' <= rx_rto k' <= 60000.
Proof.
  induction ops as [|o t IH]; intros k k' outs Hinv Hrto Hops Hnd Hrun.
  - cbn in Hrun. inversion Hrun; subst.
    pose proof (I_minrto _ Hinv) as Hm. pose proof (I_rto_max _ Hinv) as Hx.
    unfold rto_inv, c_IKCP_RTO_NDL, c_IKCP_RTO_MIN, c_IKCP_RTO_MAX in *. lia.
  - inversion Hops as [|? ? Ho Ht]; subst. inversion Hnd as [|? ? Hn Hnt]; subst.
    destruct (step_ok_full k o Hinv Ho) as (k1 & x & Hs & Hi1 & _ & Hk).
    cbn [run] in Hrun. rewrite Hs in Hrun.
    destruct (run k1 t) as [(k2, xs)|] eqn:Hr; [|discriminate].
    inversion Hrun; subst.
    eapply IH; eauto. apply Hk; auto.
Qed.
