(* Replays the session op log (harness/sess_test.go, C01sess.log) on the extracted Coq model of
   the session glue (coq/sess/Sess.v: write_full / write_step, read_full / read_step) over the
   extracted ARQ model (input, flush).  Per call it compares the outcome (admitted n / blocked;
   data / blocked), the returned bytes, and the projection of the session after the call:
   WaitSnd, |snd_buf|, |snd_queue|, the payload lengths and bytes of all pending segments,
   |rcv_queue|, |rcv_buf|, rcv_nxt, len(bufptr), PeekSize.
   A case in which the implementation reported a retransmission timeout (`taint`) is compared
   up to its first difference only if that difference cannot come from the wall clock; such
   cases are counted, never reported. *)
open Sess_model

let rec pos_of_int n =
  if n = 1 then XH else if n land 1 = 0 then XO (pos_of_int (n lsr 1)) else XI (pos_of_int (n lsr 1))
let z_of_int n = if n = 0 then Z0 else if n > 0 then Zpos (pos_of_int n) else Zneg (pos_of_int (- n))
let rec int_of_pos = function XH -> 1 | XO p -> 2 * int_of_pos p | XI p -> 2 * int_of_pos p + 1
let int_of_z = function Z0 -> 0 | Zpos p -> int_of_pos p | Zneg p -> - (int_of_pos p)
let ztab = Array.init 256 z_of_int
let zs = int_of_string
let zi z = string_of_int (int_of_z z)

let hexval c = match c with '0'..'9' -> Char.code c - 48 | 'a'..'f' -> Char.code c - 87 | _ -> failwith "hex"
let bytes_of_hex s =
  if s = "-" then [] else begin
    let n = String.length s / 2 in
    let rec go i acc = if i < 0 then acc else go (i - 1) (ztab.(hexval s.[2*i] * 16 + hexval s.[2*i+1]) :: acc) in
    go (n - 1) [] end
let hexdig = "0123456789abcdef"
let hex_of_bytes l =
  match l with [] -> "-" | _ ->
    let b = Buffer.create 64 in
    List.iter (fun z -> let v = int_of_z z in
                Buffer.add_char b hexdig.[(v lsr 4) land 15]; Buffer.add_char b hexdig.[v land 15]) l;
    Buffer.contents b

(* FNV-1a, 64 bit: long payload strings are compared by hash *)
let fnv64 (l : z list) : int64 =
  List.fold_left (fun h z -> Int64.mul (Int64.logxor h (Int64.of_int (int_of_z z))) 0x100000001b3L) 0xcbf29ce484222325L l

let payload_str (l : z list) =
  let n = List.length l in
  if n <= 256 then hex_of_bytes l else Printf.sprintf "#%016Lx:%d" (fnv64 l) n

let kv tok = match String.index_opt tok '=' with
  | Some i -> (String.sub tok 0 i, String.sub tok (i+1) (String.length tok - i - 1))
  | None -> (tok, "")

let projection (s : sess) : (string * string) list =
  let k = s.core in
  let segs = k.snd_buf @ k.snd_queue in
  [ "ws", zi (waitsnd k); "sb", string_of_int (List.length k.snd_buf); "sq", string_of_int (List.length k.snd_queue);
    "pl", (match segs with [] -> "-" | _ -> String.concat "," (List.map (fun sg -> string_of_int (List.length sg.s_data)) segs));
    "pc", payload_str (List.concat_map (fun sg -> sg.s_data) segs);
    "rq", string_of_int (List.length k.rcv_queue); "rb", string_of_int (List.length k.rcv_buf);
    "rnxt", zi k.rcv_nxt; "bp", string_of_int (List.length s.bufptr); "pk", zi (peeksize k) ]

let new_case toks =
  let g name = zs (List.assoc name toks) in
  let k = kcp_new (z_of_int (g "conv")) in
  let k = set_stream k (z_of_int (g "stream")) in
  let k = set_wndsize k (z_of_int (g "sndwnd")) (z_of_int (g "rcvwnd")) in
  let k = set_nodelay k (z_of_int (g "nodelay")) (z_of_int (g "interval")) (z_of_int (g "resend")) (z_of_int (g "nc")) in
  let (k, r) = set_mtu k (z_of_int (g "mtu")) in
  if int_of_z r <> 0 then failwith "case: mtu refused by the model";
  { core = k; bufptr = [] }

let rec split_eq a acc = match a with
  | "=" :: r -> (List.rev acc, r) | x :: r -> split_eq r (x :: acc) | [] -> (List.rev acc, [])

let () =
  let ic = open_in Sys.argv.(1) in
  let maxshow = 25 in
  let cases = ref 0 and steps = ref 0 and mism = ref 0 and tainted = ref 0 and tainted_diff = ref 0 in
  let sends = ref 0 and wa = ref 0 and wb = ref 0 and rd = ref 0 and rb = ref 0 and inputs = ref 0 and flushes = ref 0 in
  let s = ref (sess_new Z0) in
  let dtab : (int, z list) Hashtbl.t = Hashtbl.create 64 in
  let pending : string option ref = ref None and taint = ref false and stepno = ref 0 and in_case = ref false in
  let report what line impl model =
    if !pending = None then begin
      let cut x n = if String.length x > n then String.sub x 0 n ^ "..." else x in
      pending := Some (Printf.sprintf "MISMATCH case=%d step=%d what=%s op=[%s] impl=[%s] model=[%s]" !cases !stepno what
                         (cut line 200) (cut impl 400) (cut model 400))
    end in
  let finish () =
    if !in_case then begin
      (match !pending with
       | Some m -> if !taint then incr tainted_diff else begin incr mism; if !mism <= maxshow then print_endline m end
       | None -> ());
      if !taint then incr tainted;
      in_case := false
    end in
  let check_proj line impl_toks =
    let impl = List.map kv impl_toks in
    let model = projection !s in
    let diff = List.filter_map (fun (n, v) -> match List.assoc_opt n impl with Some v' when v' = v -> None | _ -> Some n) model in
    if diff <> [] then
      report ("state:" ^ String.concat "," diff) line
        (String.concat " " (List.map (fun n -> n ^ "=" ^ (try List.assoc n impl with Not_found -> "?")) diff))
        (String.concat " " (List.map (fun n -> n ^ "=" ^ List.assoc n model) diff)) in
  (try
     while true do
       let line = input_line ic in
       let toks = String.split_on_char ' ' line in
       match toks with
       | ("wcase" | "rcase") :: _ :: rest ->
           finish ();
           incr cases; pending := None; taint := false; stepno := 0; in_case := true; Hashtbl.reset dtab;
           s := new_case (List.map kv rest)
       | "taint" :: _ -> taint := true
       | "end" :: _ -> finish ()
       | "i" :: _ :: _ :: d :: _ when !pending <> None ->
           (* keep the datagram table in step even when the rest of the case is skipped *)
           if String.length d > 0 && d.[0] <> '@' then Hashtbl.replace dtab (Hashtbl.length dtab) (bytes_of_hex d)
       | _ when !pending <> None -> ()
       | "w" :: now :: wd :: nb :: rest ->
           incr steps; incr stepno;
           let (args, res) = split_eq rest [] in
           if List.length args <> zs nb then failwith "bad w line";
           let v = List.map bytes_of_hex args in
           (match res with
            | out :: n :: proj ->
                (match write_full !s v (wd = "1") (z_of_int (zs now)) with
                 | Panic w -> report "write-panic" line (out ^ " " ^ n) ("P" ^ zi w)
                 | Ok (((s1, o), _), tr) ->
                     sends := !sends + List.length tr;
                     (* write_step is write_full without the trace (proved); run it as well *)
                     (match write_step !s v (wd = "1") (z_of_int (zs now)) with
                      | Ok ((s2, o2), _) -> if o2 <> o || projection s2 <> projection s1 then report "write-step-vs-full" line "" ""
                      | Panic _ -> report "write-step-vs-full" line "" "P");
                     let m = (match o with WAdmitted k -> incr wa; "A " ^ zi k | WBlock -> incr wb; "B 0") in
                     s := s1;
                     if m <> out ^ " " ^ n then report "write-outcome" line (out ^ " " ^ n) m
                     else check_proj line proj)
            | _ -> failwith "bad w result")
       | "u" :: now :: "=" :: proj ->
           incr steps; incr stepno; incr flushes;
           (match flush !s.core fLUSH_FULL (z_of_int (zs now)) with
            | Panic w -> report "flush-panic" line "" ("P" ^ zi w)
            | Ok ((k1, _), _) -> s := { core = k1; bufptr = !s.bufptr }; check_proj line proj)
       | "c" :: now :: "=" :: proj ->
           (* UDPSession.Close: close_full (Sess.v) - one more full flush of the core *)
           incr steps; incr stepno; incr flushes;
           (match close_full !s (z_of_int (zs now)) with
            | Panic w -> report "close-panic" line "" ("P" ^ zi w)
            | Ok (s1, _) -> s := s1; check_proj line proj)
       | "i" :: now :: nd :: d :: "=" :: proj ->
           incr steps; incr stepno; incr inputs;
           let dg =
             if String.length d > 0 && d.[0] = '@' then Hashtbl.find dtab (zs (String.sub d 1 (String.length d - 1)))
             else begin let b = bytes_of_hex d in Hashtbl.replace dtab (Hashtbl.length dtab) b; b end in
           (match input !s.core dg true (nd = "1") (z_of_int (zs now)) with
            | Panic w -> report "input-panic" line "" ("P" ^ zi w)
            | Ok ((k1, _), _) -> s := { core = k1; bufptr = !s.bufptr }; check_proj line proj)
       | "r" :: n :: "=" :: res ->
           incr steps; incr stepno;
           let ((s1, o), _) = read_full !s (z_of_int (zs n)) in
           let (s2, o2) = read_step !s (z_of_int (zs n)) in
           if o2 <> o || projection s2 <> projection s1 then report "read-step-vs-full" line "" "";
           s := s1;
           (match res, o with
            | "D" :: hex :: proj, RData d ->
                incr rd;
                let m = hex_of_bytes d in
                if m <> hex then report "read-bytes" line hex m else check_proj line proj
            | "B" :: proj, RBlock -> incr rb; check_proj line proj
            | "D" :: hex :: _, RBlock -> report "read-outcome" line ("D " ^ hex) "B"
            | "B" :: _, RData d -> report "read-outcome" line "B" ("D " ^ hex_of_bytes d)
            | _ -> failwith "bad r line")
       | _ -> ()
     done
   with End_of_file -> ());
  finish ();
  Printf.printf "SUMMARY cases=%d steps=%d mismatches=%d tainted_cases=%d tainted_with_difference=%d send_calls=%d writes_admitted=%d writes_blocked=%d reads_data=%d reads_blocked=%d inputs=%d flushes=%d\n"
    !cases !steps !mism !tainted !tainted_diff !sends !wa !wb !rd !rb !inputs !flushes
