(* Replays a C20 op log on the extracted Coq model of ringbuffer.go and reports the first
   step of each case where the model's result or internal layout differs from what the real
   RingBuffer[int] did.  Element type A := OCaml int, zero := 0. *)
open Ring_model

let rec nat_of_int n = if n <= 0 then O else S (nat_of_int (n - 1))
let rec int_of_nat = function O -> 0 | S n -> 1 + int_of_nat n

let visitor kind d k m : int visitor =
 fun seen old ->
  match kind with
  | 0 -> (old + d, List.length seen + 1 < k)
  | 1 -> (old + d, (((old mod m) + m) mod m) <> k mod m)
  | _ -> (old, true)

let layout_of_tokens toks =
  match toks with
  | h :: t :: _c :: es ->
      { head = nat_of_int (int_of_string h); tail = nat_of_int (int_of_string t);
        elems = List.map int_of_string es }
  | _ -> failwith "bad S line"

let same_layout (a : int ring) (b : int ring) =
  int_of_nat a.head = int_of_nat b.head && int_of_nat a.tail = int_of_nat b.tail && a.elems = b.elems

let show (r : int ring) =
  Printf.sprintf "head=%d tail=%d cap=%d" (int_of_nat r.head) (int_of_nat r.tail) (List.length r.elems)

let () =
  let ic = open_in Sys.argv.(1) in
  let cases = ref 0 and steps = ref 0 and mism = ref 0 and layouts = ref 0 in
  let cur = ref { head = O; tail = O; elems = [] } in
  let case_id = ref "" and stepno = ref 0 and bad = ref false and fresh = ref false in
  let report what expected got =
    if not !bad then begin
      bad := true; incr mism;
      if !mism <= 20 then
        Printf.printf "MISMATCH case=%s step=%d what=%s impl=%s model=%s\n" !case_id !stepno what expected got
    end in
  let bool_s b = if b then "true" else "false" in
  (try
     while true do
       let line = input_line ic in
       let toks = String.split_on_char ' ' line in
       match toks with
       | "C" :: id :: _ -> case_id := id; stepno := 0; bad := false; fresh := true; incr cases
       | "S" :: rest ->
           let l = layout_of_tokens rest in
           if !fresh then (cur := l; fresh := false)
           else begin
             incr layouts;
             if not (same_layout !cur l) then report "layout" (show l) (show !cur)
           end
       | "E" :: _ -> ()
       | op :: args when not !bad ->
           incr steps; incr stepno;
           let ai i = int_of_string (List.nth args i) in
           (match op with
            | "P" -> let (r, _) = step 0 !cur (OPush (ai 0)) in cur := r
            | "O" ->
                let (r, o) = step 0 !cur OPop in
                cur := r;
                (match o with
                 | RVal None -> if List.nth args 0 <> "false" then report "pop" line "none"
                 | RVal (Some v) -> if List.nth args 0 <> "true" || ai 1 <> v then report "pop" line (string_of_int v)
                 | _ -> report "pop" line "?")
            | "K" ->
                let (r, o) = step 0 !cur OPeek in
                cur := r;
                (match o with
                 | RVal None -> if List.nth args 0 <> "false" then report "peek" line "none"
                 | RVal (Some v) -> if List.nth args 0 <> "true" || ai 1 <> v then report "peek" line (string_of_int v)
                 | _ -> report "peek" line "?")
            | "D" ->
                let (r, o) = step 0 !cur (ODiscard (nat_of_int (ai 0))) in
                cur := r;
                (match o with
                 | RNat n -> if int_of_nat n <> ai 1 then report "discard" line (string_of_int (int_of_nat n))
                 | _ -> report "discard" line "?")
            | "X" -> let (r, _) = step 0 !cur OClear in cur := r
            | "F" -> let (r, _) = step 0 !cur (OForEach (visitor (ai 0) (ai 1) (ai 2) (ai 3))) in cur := r
            | "R" -> let (r, _) = step 0 !cur (OForEachRev (visitor (ai 0) (ai 1) (ai 2) (ai 3))) in cur := r
            | "L" ->
                let l = int_of_nat (len !cur) and ml = int_of_nat (max_len !cur) in
                let got = Printf.sprintf "L %d %d %s %s" l ml (bool_s (is_empty !cur)) (bool_s (is_full !cur)) in
                if got <> line then report "len" line got
            | _ -> failwith ("bad op " ^ op))
       | _ -> ()
     done
   with End_of_file -> ());
  Printf.printf "SUMMARY cases=%d steps=%d layouts=%d mismatches=%d\n" !cases !steps !layouts !mism
