(* Replays a C11 op log on the extracted Coq model of the listener demultiplexer
   (coq/listener/Listener.v) and of the dialled session's source filter.

   Instantiation of the model's parameters:
     addr       := OCaml int (index of the address; equal index <=> equal addr.String())
     sess       := the recording session rsess (conv, addr, list of fed payloads)
     gate_ok    := the datagram handed to the model is  flag :: payload ; flag 1 = the harness
                   built a datagram that passes the integrity gate (payload = its plaintext),
                   flag 0 = a datagram that must fail it.  The real gate's verdict shows in the
                   compared state.
   Compared after every step: the table (address, session id, conv), the queue length, the
   id of a created session, whether a session was fed (global InPkts/InBytes delta) and that
   only the fed / removed session changed; at Accept the (address, id) handed out; at the end
   of a case the queue order and, per live session, the ordered list of FEC-typed payloads it
   was fed (the real decoder's sample ring) and the directly fed segments it must hold. *)
open Listener_model

let rec pos_of_int n = if n = 1 then XH else if n land 1 = 0 then XO (pos_of_int (n lsr 1)) else XI (pos_of_int (n lsr 1))
let z_of_int n = if n = 0 then Z0 else if n > 0 then Zpos (pos_of_int n) else Zneg (pos_of_int (-n))
let rec int_of_pos = function XH -> 1 | XO p -> 2 * int_of_pos p | XI p -> 2 * int_of_pos p + 1
let int_of_z = function Z0 -> 0 | Zpos p -> int_of_pos p | Zneg p -> - (int_of_pos p)

let ztab = Array.init 256 z_of_int
let bytes_of_hex s =
  if s = "-" then [] else begin
    let n = String.length s / 2 in
    let r = ref [] in
    for i = n - 1 downto 0 do
      r := ztab.(int_of_string ("0x" ^ String.sub s (2 * i) 2)) :: !r
    done; !r
  end

let gate raw = match raw with Zpos XH :: p -> Some p | _ -> None
let ieq (a : int) (b : int) = a = b
let pkt l raw a = l_packet_input ieq r_new r_input (fun s -> s.r_conv) gate l raw a

let split c s = String.split_on_char c s
let field toks name =
  let p = name ^ "=" in
  let n = String.length p in
  let rec go = function
    | [] -> None
    | t :: r -> if String.length t >= n && String.sub t 0 n = p then Some (String.sub t n (String.length t - n)) else go r in
  go toks
let fld toks name = match field toks name with Some v -> v | None -> "?"

let show_keys l =
  let ks = List.map (fun (a, e) -> (a, int_of_z e.e_id, int_of_z e.e_sess.r_conv)) l.sessions in
  let ks = List.sort compare ks in
  if ks = [] then "-" else String.concat ";" (List.map (fun (a, i, c) -> Printf.sprintf "%d:%d:%d" a i c) ks)

let nth_int l i = int_of_z (List.nth l i)
let rd32 l o = nth_int l o + 256 * nth_int l (o + 1) + 65536 * nth_int l (o + 2) + 16777216 * nth_int l (o + 3)
let rd16 l o = nth_int l o + 256 * nth_int l (o + 1)

(* the FEC-typed payloads of a feed log, as the decoder's sample ring shows them *)
let fec_samples log =
  List.filter_map (fun p ->
      if List.length p >= 8 then
        let t = rd16 p 4 in
        if t = 0xf1 then Some (Printf.sprintf "1:%d" (rd32 p 0))
        else if t = 0xf2 then Some (Printf.sprintf "0:%d" (rd32 p 0))
        else None
      else None) log

(* sequence numbers of the PUSH segments (first segment) fed directly for conversation conv *)
let direct_sns conv log =
  List.filter_map (fun p ->
      let n = List.length p in
      if n >= 8 && (let t = rd16 p 4 in t = 0xf1 || t = 0xf2 || t = 0xf3) then begin
        if rd16 p 4 = 0xf1 && n >= 32 && rd32 p 8 = conv && nth_int p 12 = 81 then Some (rd32 p 20) else None
      end else if n >= 24 && rd32 p 0 = conv && nth_int p 4 = 81 then Some (rd32 p 12)
      else None) log

let naddr_of_string s =
  match split ':' s with
  | ["N"] -> None
  | ["O"; str] -> Some (NOther (bytes_of_hex str))
  | ["U"; ip; port; zone; str] -> Some (NUdp (bytes_of_hex ip, z_of_int (int_of_string port), bytes_of_hex zone, bytes_of_hex str))
  | _ -> failwith ("bad address " ^ s)

type pending = NoOp | PPkt of int * bool * z list | PAcc | PClose of int | PCloseB of int | PCloseE of int | PLClose

let () =
  let ic = open_in Sys.argv.(1) in
  let cases = ref 0 and steps = ref 0 and mism = ref 0 and dsteps = ref 0 in
  let l = ref l_empty in
  let case_id = ref "" and stepno = ref 0 and bad = ref false in
  let pend = ref NoOp in
  let fst_ = ref (filter_init None) in
  let report what impl model =
    if not !bad then begin
      bad := true; incr mism;
      if !mism <= 20 then Printf.printf "MISMATCH case=%s step=%d what=%s impl=%s model=%s\n" !case_id !stepno what impl model
    end in
  (try
     while true do
       let line = input_line ic in
       let toks = split ' ' line in
       match toks with
       | "C" :: id :: _ -> case_id := id; stepno := 0; bad := false; incr cases; l := l_empty; pend := NoOp
       | "DC" :: id :: remote :: _ ->
           case_id := id; stepno := 0; bad := false; incr cases; fst_ := filter_init (naddr_of_string remote)
       | "DP" :: from :: acc :: _ when not !bad ->
           incr dsteps; incr stepno;
           (match naddr_of_string from with
            | None -> failwith "nil source"
            | Some f ->
                let (st, b) = filter_step !fst_ f in
                fst_ := st;
                if (if b then "1" else "0") <> acc then report "dialled-filter" (from ^ "->" ^ acc) (if b then "1" else "0"))
       | "P" :: a :: ok :: hex :: _ -> pend := PPkt (int_of_string a, ok = "1", bytes_of_hex hex)
       | "A" :: _ -> pend := PAcc
       | "X" :: id :: _ -> pend := PClose (int_of_string id)
       | "XB" :: id :: _ -> pend := PCloseB (int_of_string id)
       | "XE" :: id :: _ -> pend := PCloseE (int_of_string id)
       | "L" :: _ -> pend := PLClose
       | "R" :: rest when not !bad ->
           incr steps; incr stepno;
           let before = !l in
           (match !pend with
            | PPkt (a, ok, payload) ->
                let raw = (if ok then ztab.(1) else ztab.(0)) :: payload in
                let l' = pkt before raw a in
                l := l';
                let created = int_of_z l'.next_id > int_of_z before.next_id in
                let nid = if created then string_of_int (int_of_z before.next_id) else "-" in
                if nid <> fld rest "n" then report "created-session" (fld rest "n") nid;
                (* which session was fed *)
                let loglen ll i = List.fold_left (fun acc (_, e) -> if int_of_z e.e_id = i then List.length e.e_sess.r_log else acc) (-1) ll.sessions in
                let fed = List.filter_map (fun (_, e) ->
                              let i = int_of_z e.e_id in
                              let n0 = loglen before i in
                              if List.length e.e_sess.r_log > (if n0 < 0 then 0 else n0) then Some i else None) l'.sessions in
                let f = if fed <> [] then 1 else 0 in
                if string_of_int f <> fld rest "f" then report "fed" (fld rest "f") (string_of_int f);
                let b = if fed <> [] then List.length payload else 0 in
                if string_of_int b <> fld rest "b" then report "fed-bytes" (fld rest "b") (string_of_int b);
                let removed = List.filter_map (fun (_, e) -> let i = int_of_z e.e_id in if loglen l' i < 0 then Some i else None) before.sessions in
                let ev = fld rest "e" in
                if ev <> "-" then
                  List.iter (fun s -> let i = int_of_string s in
                                      if not (List.mem i fed || List.mem i removed) then
                                        report "changed-session" ev (String.concat "," (List.map string_of_int (fed @ removed))))
                    (split ',' ev)
            | PAcc ->
                let (r, l') = l_accept before in
                l := l';
                let m = match r with Some (a, i) -> Printf.sprintf "%d:%d" a (int_of_z i) | None -> "-" in
                if m <> fld rest "acc" then report "accept" (fld rest "acc") m
            | PClose id -> l := l_close_session ieq before (z_of_int id)
            | PCloseB id -> l := l_close_begin ieq before (z_of_int id)
            | PCloseE id -> l := l_close_end ieq before (z_of_int id)
            | PLClose ->
                (* Listener.Close: die, then the backlog drained, each queued session closed *)
                let cur = ref (l_close before) in
                while !cur.accepts <> [] do
                  let id = snd (List.hd !cur.accepts) in
                  cur := l_close_end ieq (l_backlog_close ieq !cur) id
                done;
                l := !cur
            | NoOp -> ());
           pend := NoOp;
           let ks = show_keys !l in
           if ks <> fld rest "k" then report "table" (fld rest "k") ks;
           let q = string_of_int (List.length !l.accepts) in
           if q <> fld rest "q" then report "queue-length" (fld rest "q") q
       | "T" :: id :: conv :: rest when not !bad ->
           let id = int_of_string id and conv = int_of_string conv in
           (match List.filter (fun (_, e) -> int_of_z e.e_id = id) !l.sessions with
            | [(_, e)] ->
                if int_of_z e.e_sess.r_conv <> conv then report "session-conv" (string_of_int conv) (string_of_int (int_of_z e.e_sess.r_conv));
                let fec = fld rest "fec" in
                if fec <> "overflow" then begin
                  let m = fec_samples e.e_sess.r_log in
                  let ms = if m = [] then "-" else String.concat "," m in
                  if ms <> fec then report (Printf.sprintf "fec-feed-log(session %d)" id) fec ms
                end;
                let sns = fld rest "sns" in
                let have = if sns = "-" then [] else List.map int_of_string (split ',' sns) in
                let nxt = int_of_string (fld rest "nxt") in
                (* sn < 32: inside the receive window whenever it was fed (the window only moves up) *)
                List.iter (fun sn -> if sn >= nxt && sn < 32 && not (List.mem sn have) then
                                       report (Printf.sprintf "segment-held(session %d)" id) sns (string_of_int sn))
                  (direct_sns conv e.e_sess.r_log)
            | _ -> report "session-live" (string_of_int id) "absent")
       | "E" :: rest when not !bad ->
           (match field rest "q" with
            | Some q ->
                let m = List.map (fun (a, i) -> Printf.sprintf "%d:%d" a (int_of_z i)) !l.accepts in
                let ms = if m = [] then "-" else String.concat "," m in
                if ms <> q then report "queue-order" q ms
            | None -> ())
       | _ -> ()
     done
   with End_of_file -> ());
  Printf.printf "SUMMARY cases=%d steps=%d dialled_probes=%d mismatches=%d\n" !cases !steps !dsteps !mism
