(* Replays the C15 op log on the extracted ownership model (coq/pool/Pool.v).
   Per operation of the two raw cores it compares: the return code (Send / Recv), the number of
   pool Gets and Puts of the step, and a projection of the state after the step (lengths of the
   four queues, number of data-less segments in snd_buf, snd_una, snd_nxt, rcv_nxt).
   Per packet of the raw FEC decoder it compares the Gets, the Puts and the number of buffers
   parked in the shard sets.  The sequence-number decisions are made by the model itself; the
   only inputs taken from the log are the operations, the header fields of the segments Input
   processed, and the number of segments flush admitted. *)
open Pool_model

let rec pos_of_int n = if n = 1 then XH else if n land 1 = 0 then XO (pos_of_int (n lsr 1)) else XI (pos_of_int (n lsr 1))
let z_of_int n = if n = 0 then Z0 else if n > 0 then Zpos (pos_of_int n) else Zneg (pos_of_int (-n))
let rec int_of_pos = function XH -> 1 | XO p -> 2 * int_of_pos p | XI p -> 2 * int_of_pos p + 1
let int_of_z = function Z0 -> 0 | Zpos p -> int_of_pos p | Zneg p -> - (int_of_pos p)
let rec nat_of_int n = if n <= 0 then O else S (nat_of_int (n - 1))
let rec int_of_nat = function O -> 0 | S n -> 1 + int_of_nat n

let proj (s : st) =
  [ int_of_z (qlen s.snd_queue); int_of_z (qlen s.snd_buf); int_of_z (n_nil s.snd_buf);
    int_of_z (qlen s.rcv_buf); int_of_z (qlen s.rcv_queue);
    int_of_z s.snd_una; int_of_z s.snd_nxt; int_of_z s.rcv_nxt ]

let show l = String.concat " " (List.map string_of_int l)

let split_bar toks =
  let rec go acc = function
    | "|" :: r -> (List.rev acc, r)
    | x :: r -> go (x :: acc) r
    | [] -> (List.rev acc, []) in
  go [] toks

let () =
  let ic = open_in Sys.argv.(1) in
  let cases = ref 0 and steps = ref 0 and mism = ref 0 and core_cases = ref 0 and fec_cases = ref 0 in
  let gets_total = ref 0 and puts_total = ref 0 and retunes = ref 0 and retunes_held = ref 0 in
  let eps = Array.make 2 (init { c_mss = z_of_int 1; c_stream = false; c_rcvwnd = z_of_int 1; c_snd0 = Z0; c_rcv0 = Z0 }) in
  let fec = ref finit in
  let case_id = ref "" and stepno = ref 0 and bad = ref false in
  let report what line got =
    if not !bad then begin
      bad := true; incr mism;
      if !mism <= 20 then
        Printf.printf "MISMATCH case=%s step=%d what=%s impl=[%s] model=[%s]\n" !case_id !stepno what line got
    end in
  (try
     while true do
       let line = input_line ic in
       let toks = List.filter (fun s -> s <> "") (String.split_on_char ' ' line) in
       match toks with
       | "C" :: id :: _ -> case_id := id; stepno := 0; bad := false; incr cases; incr core_cases
       | "X" :: _ -> fec := finit; decr core_cases; incr fec_cases
       | "E" :: _ -> ()
       | "K" :: e :: m :: strm :: rw :: s0 :: r0 :: _ ->
           let i = int_of_string in
           eps.(i e) <- init { c_mss = z_of_int (i m); c_stream = (i strm <> 0); c_rcvwnd = z_of_int (i rw);
                               c_snd0 = z_of_int (i s0); c_rcv0 = z_of_int (i r0) }
       | "D" :: rest when not !bad ->
           incr steps; incr stepno;
           let (args, res) = split_bar rest in
           let i = int_of_string in
           let olds l = match l with n :: r -> List.map (fun x -> z_of_int (i x)) (List.filteri (fun k _ -> k < i n) r) | [] -> [] in
           let d = match args with
             | "drop" :: _ -> FDrop
             | "retune" :: _ -> FRetune
             | "accept" :: sid :: "keep" :: r -> FAccept (z_of_int (i sid), RKeep, olds r)
             | "accept" :: sid :: "alldata" :: r -> FAccept (z_of_int (i sid), RAllData, olds r)
             | "accept" :: sid :: "recover" :: nm :: ok :: r -> FAccept (z_of_int (i sid), RRecover (nat_of_int (i nm), i ok <> 0), olds r)
             | _ -> failwith ("bad D line: " ^ line) in
           (match d with
            | FRetune -> incr retunes; if fholders !fec <> [] then incr retunes_held
            | _ -> ());
           let (f', evs) = fec_input !fec d in
           fec := f';
           let got = [ int_of_z (n_gets evs); int_of_z (n_puts evs); List.length (fholders f') ] in
           gets_total := !gets_total + List.nth got 0; puts_total := !puts_total + List.nth got 1;
           if got <> List.map i res then report "fec" line (show got)
       | k :: e :: rest when not !bad && (k = "S" || k = "R" || k = "I" || k = "F" || k = "V") ->
           incr steps; incr stepno;
           let (args, res) = split_bar rest in
           let i = int_of_string in
           let e = i e in
           let a n = i (List.nth args n) in
           let op = match k with
             | "S" -> OSend (z_of_int (a 0))
             | "R" -> ORecv (z_of_int (a 0))
             | "F" -> OFlush (z_of_int (a 0))
             | "V" -> OPutView (Z0, z_of_int (a 0))
             | _ ->
                 let n = a 1 in
                 let rec segs j = if j >= n then [] else
                   { i_cmd = z_of_int (a (2 + 5 * j)); i_frg = z_of_int (a (3 + 5 * j)); i_sn = z_of_int (a (4 + 5 * j));
                     i_una = z_of_int (a (5 + 5 * j)); i_len = z_of_int (a (6 + 5 * j)) } :: segs (j + 1) in
                 OInput (segs 0, z_of_int (a 0)) in
           let ((s', ret), evs) = step eps.(e) op in
           eps.(e) <- s';
           let g = int_of_z (n_gets evs) and p = int_of_z (n_puts evs) in
           gets_total := !gets_total + g; puts_total := !puts_total + p;
           let got = [ int_of_z ret; g; p ] @ proj s' in
           let impl = List.map i res in
           (* the return code of Input / flush is not part of the comparison (logged as 0) *)
           if got <> impl then report k line (show got)
       | _ -> ()
     done
   with End_of_file -> ());
  Printf.printf "SUMMARY cases=%d steps=%d mismatches=%d core_cases=%d fec_cases=%d model_gets=%d model_puts=%d fec_retunes_replayed=%d fec_retunes_with_parked_packets_replayed=%d\n"
    !cases !steps !mism !core_cases !fec_cases !gets_total !puts_total !retunes !retunes_held
