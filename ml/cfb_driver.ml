(* Replays a C08 op log on the extracted Coq model of crypt.go (coq/cfb/Cfb.v) and compares
   byte for byte:
     T lines  the real encrypt8/encrypt16/decrypt8/decrypt16 run with the toy block function
              vs  enc_run / dec_run (the unrolled transcription) with the extracted toyE and
              the generated IV, in place and out of place;
     S lines  Go's crypto/cipher CFB over the toy block  vs  cfb_enc_spec / cfb_dec_spec;
     U lines  the real salsa20 / simple-xor / none Encrypt, Decrypt  vs  their control-logic
              models instantiated with the logged keystream / pad.
   nat, positive, Z are the extracted inductive types. *)
open Cfb_model

let rec nat_of_int n = if n <= 0 then O else S (nat_of_int (n - 1))

let rec pos_of_int n = if n = 1 then XH else if n land 1 = 0 then XO (pos_of_int (n lsr 1)) else XI (pos_of_int (n lsr 1))
let z_of_int n = if n = 0 then Z0 else if n > 0 then Zpos (pos_of_int n) else Zneg (pos_of_int (-n))
let rec int_of_pos = function XH -> 1 | XO p -> 2 * int_of_pos p | XI p -> 2 * int_of_pos p + 1
let int_of_z = function Z0 -> 0 | Zpos p -> int_of_pos p | Zneg p -> - int_of_pos p

let zbyte = Array.init 256 z_of_int

let hexval c =
  match c with
  | '0' .. '9' -> Char.code c - 48
  | 'a' .. 'f' -> Char.code c - 87
  | 'A' .. 'F' -> Char.code c - 55
  | _ -> failwith "bad hex"

let bytes_of_hex s : int array =
  if s = "-" then [||]
  else Array.init (String.length s / 2) (fun i -> (hexval s.[2 * i] lsl 4) lor hexval s.[2 * i + 1])

let zlist_of_sub (a : int array) off n = List.init n (fun i -> zbyte.(a.(off + i)))
let zlist_of (a : int array) = zlist_of_sub a 0 (Array.length a)
let ints_of_zlist l = Array.of_list (List.map int_of_z l)

let pat n = Array.init n (fun i -> (0xA5 + 13 * i) land 0xff)

let show (a : int array) =
  let n = Array.length a in
  let b = Buffer.create 64 in
  Array.iteri (fun i x -> if i < 24 then Buffer.add_string b (Printf.sprintf "%02x" x)) a;
  if n > 24 then Buffer.add_string b "..";
  Printf.sprintf "[%d]%s" n (Buffer.contents b)

let first_diff (a : int array) (b : int array) =
  let n = min (Array.length a) (Array.length b) in
  let rec go i = if i >= n then n else if a.(i) <> b.(i) then i else go (i + 1) in
  go 0

(* usage: cfb_driver <log> [<shard> <nshards>]: a shard replays the lines whose packet length
   is = shard mod nshards (the check runs the shards in parallel and adds up the summaries) *)
let () =
  let ic = open_in Sys.argv.(1) in
  let shard, nshards =
    if Array.length Sys.argv >= 4 then (int_of_string Sys.argv.(2), int_of_string Sys.argv.(3)) else (0, 1) in
  let mine n = n mod nshards = shard in
  let cases = ref 0 and bytes = ref 0 and mism = ref 0 in
  let round = ref "" in
  let key = ref [] and x = ref [||] and stale = ref [||] in
  let sx = ref [||] and ks = ref [||] and pad = ref [||] in
  (* the implementation's out-of-place Encrypt result, the input of the Decrypt lines *)
  let last_enc : (string, int array) Hashtbl.t = Hashtbl.create 16 in
  let mismatch what impl model =
    incr mism;
    if !mism <= 20 then
      Printf.printf "MISMATCH round=%s %s first_diff=%d impl=%s model=%s\n" !round what
        (first_diff impl model) (show impl) (show model) in
  let compare_out what (impl : int array) (model : z list) =
    incr cases;
    let m = ints_of_zlist model in
    bytes := !bytes + Array.length impl;
    if m <> impl then mismatch what impl m in
  let bs8 = nat_of_int 8 and bs16 = nat_of_int 16 in
  let natbs = function 8 -> bs8 | 16 -> bs16 | n -> nat_of_int n in
  (try
     while true do
       let line = input_line ic in
       match String.split_on_char ' ' line with
       | [ "IV"; h ] when shard = 0 ->
           incr cases;
           let iv = bytes_of_hex h in
           let m = ints_of_zlist c_initialVector in
           if iv <> m then mismatch "initialVector (generated constant vs package variable)" iv m
       | [ "MTU"; n ] when shard = 0 ->
           incr cases;
           if int_of_string n <> int_of_z c_mtuLimit then
             mismatch "mtuLimit" [| int_of_string n |] [| int_of_z c_mtuLimit |]
       | [ "R"; r ] -> round := r; Hashtbl.reset last_enc
       | [ "K"; h ] -> key := zlist_of (bytes_of_hex h)
       | [ "X"; h ] -> x := bytes_of_hex h
       | [ "G"; h ] -> stale := bytes_of_hex h
       | [ "SX"; h ] -> sx := bytes_of_hex h
       | [ "KS"; h ] -> ks := bytes_of_hex h
       | [ "PAD"; h ] -> pad := bytes_of_hex h
       | [ "T"; op; bs; alias; n; extra; h ] when mine (int_of_string n) ->
           let bsi = int_of_string bs and n = int_of_string n and extra = int_of_string extra in
           let inplace = alias = "1" in
           let impl = bytes_of_hex h in
           let e = toyE !key in
           let dst0 = zlist_of (pat (n + extra)) in
           let what = Printf.sprintf "%s%d %s len=%d" (if op = "E" then "encrypt" else "decrypt") bsi
               (if inplace then "in-place" else "out-of-place") n in
           if op = "E" then begin
             if not inplace then Hashtbl.replace last_enc (bs ^ ":" ^ string_of_int n) (Array.sub impl 0 n);
             compare_out what impl (enc_run e (natbs bsi) inplace (zlist_of_sub !x 0 n) dst0)
           end else begin
             let ct = try Hashtbl.find last_enc (bs ^ ":" ^ string_of_int n) with Not_found -> failwith "D line without E line" in
             let next0 = zlist_of_sub !stale bsi bsi in
             compare_out what impl (dec_run e (natbs bsi) inplace next0 (zlist_of ct) dst0)
           end
       | [ "S"; op; bs; n; h ] when mine (int_of_string n) ->
           let bsi = int_of_string bs and n = int_of_string n in
           let impl = bytes_of_hex h in
           let e = toyE !key in
           let what = Printf.sprintf "crypto/cipher-CFB-%s bs=%d len=%d vs textbook spec" op bsi n in
           if op = "E" then compare_out what impl (cfb_enc_spec e (natbs bsi) c_initialVector (zlist_of_sub !x 0 n))
           else begin
             let ct = try Hashtbl.find last_enc (bs ^ ":" ^ string_of_int n) with Not_found -> failwith "S D line without E line" in
             compare_out what impl (cfb_dec_spec e (natbs bsi) c_initialVector (zlist_of ct))
           end
       | [ "U"; c; op; alias; n; extra; h ] when mine (int_of_string n) ->
           let n = int_of_string n and extra = int_of_string extra in
           let inplace = alias = "1" in
           let impl = bytes_of_hex h in
           let dst0 = zlist_of (pat (n + extra)) in
           let what = Printf.sprintf "%s.%s %s len=%d" c (if op = "E" then "Encrypt" else "Decrypt")
               (if inplace then "in-place" else "out-of-place") n in
           let k = "U" ^ c ^ ":" ^ string_of_int n in
           let src =
             if op = "E" then begin
               if not inplace then Hashtbl.replace last_enc k (Array.sub impl 0 n);
               zlist_of_sub !sx 0 n
             end else zlist_of (try Hashtbl.find last_enc k with Not_found -> failwith "U D line without E line") in
           let bad_nonce = ref false in
           let ksf nonce i =
             (* the logged keystream belongs to the nonce SX[:8] *)
             if ints_of_zlist nonce <> Array.sub !sx 0 8 then (bad_nonce := true; Z0)
             else zbyte.(!ks.(int_of_z i)) in
           let padf i = zbyte.(!pad.(int_of_z i)) in
           let f =
             match c, op with
             | "salsa", "E" -> salsa_encrypt ksf
             | "salsa", _ -> salsa_decrypt ksf
             | "xor", "E" -> sxor_encrypt padf
             | "xor", _ -> sxor_decrypt padf
             | "none", "E" -> none_encrypt
             | "none", _ -> none_decrypt
             | _ -> failwith ("bad cipher " ^ c) in
           let out = stream_run f inplace src dst0 in
           if !bad_nonce then begin incr cases; mismatch (what ^ " (nonce of the input is not the logged one)") impl [||] end
           else compare_out what impl out
       | _ -> ()
     done
   with End_of_file -> ());
  Printf.printf "SUMMARY cases=%d steps=%d mismatches=%d\n" !cases !bytes !mism
