(* Replays the C06 op log on the extracted Coq models (coq/gate/Crc.v, Gate.v).

   K <hex> <crc>                      hash/crc32.ChecksumIEEE(bytes) of the real library
   D <S|L> <class> <hex> <dc> <dk> <dp>
        CRC-class datagram AFTER decryption by the real cipher, and what the real
        UDPSession.packetInput (S) / Listener.packetInput (L) did to the counters
        InCsumErrors / KCPInErrors / InPkts
   A <S|L> <ns> <ov> <wirehex> <ok> <pthex> <dc> <dk> <dp>
        AEAD datagram as received, NonceSize/Overhead of the cipher, the result of the real Open

   For K the model's byte-level crc32 (and, for short inputs, the bit-level LFSR) must give the
   library's value.  For D/A the model's too_short / integrity_ok / outcome must be the decision
   the implementation's counters show.  Ciphers in the model are parameters: identity on the
   already decrypted bytes for D, the logged Open result for A. *)
open Gate_model

let rec pos_of_int n =
  if n = 1 then XH else if n land 1 = 1 then XI (pos_of_int (n lsr 1)) else XO (pos_of_int (n lsr 1))
let z_of_int n = if n = 0 then Z0 else if n > 0 then Zpos (pos_of_int n) else Zneg (pos_of_int (-n))
let rec int_of_pos = function XH -> 1 | XO p -> 2 * int_of_pos p | XI p -> 2 * int_of_pos p + 1
let int_of_z = function Z0 -> 0 | Zpos p -> int_of_pos p | Zneg p -> - (int_of_pos p)

let byte_tbl = Array.init 256 z_of_int
let hexval c =
  match c with
  | '0' .. '9' -> Char.code c - 48
  | 'a' .. 'f' -> Char.code c - 87
  | 'A' .. 'F' -> Char.code c - 55
  | _ -> failwith "bad hex"
let bytes_of_hex s =
  if s = "-" then []
  else begin
    let n = String.length s / 2 in
    let rec go i acc = if i < 0 then acc else go (i - 1) (byte_tbl.(16 * hexval s.[2 * i] + hexval s.[2 * i + 1]) :: acc) in
    go (n - 1) []
  end

let outcome_s = function
  | ShortDropped -> "ShortDropped" | CsumErr -> "CsumErr" | InErr -> "InErr"
  | PayloadShortDropped -> "PayloadShortDropped" | Delivered -> "Delivered"
  | HeaderShortDropped -> "HeaderShortDropped" | Routed -> "Routed"
  | ConvMismatchDropped -> "ConvMismatchDropped" | NoConvDropped -> "NoConvDropped"
  | BacklogFull -> "BacklogFull" | Created -> "Created"

let () =
  let ic = open_in Sys.argv.(1) in
  let cases = ref 0 and mism = ref 0 and ncrc = ref 0 and nbit = ref 0 and ndec = ref 0 in
  let dist = Hashtbl.create 16 in
  let bump k = Hashtbl.replace dist k (1 + try Hashtbl.find dist k with Not_found -> 0) in
  let lineno = ref 0 in
  let report what expected got =
    incr mism;
    if !mism <= 20 then Printf.printf "MISMATCH line=%d what=%s impl=%s model=%s\n" !lineno what expected got in
  (* core_state := number of payloads that reached kcpInput *)
  let kcp_input st (_ : bytes) = st + 1 in
  let new_core (_ : z) = 0 in
  let s0 = { s_conv = Z0; s_core = 0 } in
  let l0 = { l_sessions = []; l_accepts = [] } in
  let decide path cfg dec opn wire dc dk dp =
    incr ndec;
    let ts = too_short cfg wire and ok = integrity_ok dec opn cfg wire in
    let impl = Printf.sprintf "dCsum=%d dKcpErr=%d dInPkts=%d" dc dk dp in
    if path = "S" then begin
      let (s', o) = sess_packet_input kcp_input dec opn cfg s0 wire in
      bump ("S:" ^ outcome_s o);
      let good =
        match o with
        | ShortDropped -> dc = 0 && dk = 0 && dp = 0 && ts && not ok && s'.s_core = 0
        | CsumErr -> dc = 1 && dk = 0 && dp = 0 && not ts && not ok && s'.s_core = 0
        | InErr -> dc = 0 && dk = 1 && dp = 0 && ok && s'.s_core = 0
        | Delivered -> dc = 0 && dp = 1 && ok && s'.s_core = 1
        | _ -> false in
      if not good then report "session-decision" impl (Printf.sprintf "%s too_short=%b integrity_ok=%b" (outcome_s o) ts ok)
    end else begin
      let (l', o) = l_packet_input kcp_input new_core dec opn cfg (fun (a : int) b -> a = b) l0 wire 1 in
      bump ("L:" ^ outcome_s o);
      let untouched = l'.l_sessions = [] && l'.l_accepts = [] in
      let good =
        match o with
        | ShortDropped -> dc = 0 && dk = 0 && dp = 0 && ts && not ok && untouched
        | CsumErr -> dc = 1 && dk = 0 && dp = 0 && not ts && not ok && untouched
        | PayloadShortDropped | HeaderShortDropped -> dc = 0 && dk = 0 && dp = 0 && ok && untouched
        (* behind the gate the real listener had sessions the model's empty table lacks: only
           the gate's decision is compared *)
        | NoConvDropped | ConvMismatchDropped | BacklogFull | Routed | Created -> dc = 0 && ok
        | _ -> false in
      if not good then report "listener-decision" impl (Printf.sprintf "%s too_short=%b integrity_ok=%b" (outcome_s o) ts ok)
    end in
  (try
     while true do
       let line = input_line ic in
       incr lineno;
       match String.split_on_char ' ' line with
       | [ "K"; hex; crc ] ->
           incr cases; incr ncrc;
           let m = bytes_of_hex hex in
           let got = int_of_z (crc32 m) in
           if got <> int_of_string crc then report "crc32" crc (string_of_int got);
           if List.length m <= 200 then begin
             (* the bit-level LFSR of the proofs on the same input *)
             incr nbit;
             let b = int_of_z (Z.coq_lxor (lfsr mASK32 (bits_of m)) mASK32) in
             if b <> int_of_string crc then report "crc32-bit-level" crc (string_of_int b)
           end
       | [ "D"; path; _cls; hex; dc; dk; dp ] ->
           incr cases;
           let cfg = { g_class = ClassCrc; g_aead_nonce = Z0; g_aead_overhead = Z0 } in
           decide path cfg (fun x -> x) (fun _ _ -> None) (bytes_of_hex hex)
             (int_of_string dc) (int_of_string dk) (int_of_string dp)
       | [ "A"; path; ns; ov; hex; ok; pt; dc; dk; dp ] ->
           incr cases;
           let cfg = { g_class = ClassAead; g_aead_nonce = z_of_int (int_of_string ns);
                       g_aead_overhead = z_of_int (int_of_string ov) } in
           let plain = bytes_of_hex pt in
           let opn _ _ = if ok = "1" then Some plain else None in
           decide path cfg (fun x -> x) opn (bytes_of_hex hex)
             (int_of_string dc) (int_of_string dk) (int_of_string dp)
       | _ -> ()
     done
   with End_of_file -> ());
  Hashtbl.iter (fun k v -> Printf.printf "OUTCOME %s %d\n" k v) dist;
  Printf.printf "SUMMARY cases=%d steps=%d crc=%d crc_bit_level=%d decisions=%d mismatches=%d\n"
    !cases !cases !ncrc !nbit !ndec !mism
