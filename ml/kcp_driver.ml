(* Replays a core op log (harness/core_test.go) on the extracted Coq model of kcp.go and
   reports, per case, the first step where the model's result or state projection differs
   from what the real KCP did, together with the names of the differing fields. *)
open Kcp_model

let rec pos_of_int n =
  if n = 1 then XH else if n land 1 = 0 then XO (pos_of_int (n lsr 1)) else XI (pos_of_int (n lsr 1))
let z_of_int n = if n = 0 then Z0 else if n > 0 then Zpos (pos_of_int n) else Zneg (pos_of_int (- n))
let rec int_of_pos = function XH -> 1 | XO p -> 2 * int_of_pos p | XI p -> 2 * int_of_pos p + 1
let int_of_z = function Z0 -> 0 | Zpos p -> int_of_pos p | Zneg p -> - (int_of_pos p)
let ztab = Array.init 256 z_of_int
let zs = int_of_string

let hexval c = match c with '0'..'9' -> Char.code c - 48 | 'a'..'f' -> Char.code c - 87 | _ -> failwith "hex"
let bytes_of_hex s =
  if s = "-" then [] else begin
    let n = String.length s / 2 in
    let rec go i acc = if i < 0 then acc else go (i - 1) (ztab.(hexval s.[2*i] * 16 + hexval s.[2*i+1]) :: acc) in
    go (n - 1) [] end
let hexdig = "0123456789abcdef"
let hex_of_bytes l =
  match l with [] -> "-" | _ ->
    let b = Buffer.create 64 in
    List.iter (fun z -> let v = int_of_z z in
                Buffer.add_char b hexdig.[(v lsr 4) land 15]; Buffer.add_char b hexdig.[v land 15]) l;
    Buffer.contents b

let kv tok = match String.index_opt tok '=' with
  | Some i -> (String.sub tok 0 i, String.sub tok (i+1) (String.length tok - i - 1))
  | None -> (tok, "")

let join sep f l = String.concat sep (List.map f l)
let zi z = string_of_int (int_of_z z)

(* the projection, field by field, in the order of the harness' `st` line *)
let projection (k : kcp) : (string * string) list =
  [ "conv", zi k.conv; "mtu", zi k.mtu; "mss", zi k.mss; "state", zi k.state; "una", zi k.snd_una;
    "nxt", zi k.snd_nxt; "rnxt", zi k.rcv_nxt; "ssthresh", zi k.ssthresh; "rttvar", zi k.rx_rttvar;
    "srtt", zi k.rx_srtt; "rto", zi k.rx_rto; "minrto", zi k.rx_minrto; "sndwnd", zi k.snd_wnd;
    "rcvwnd", zi k.rcv_wnd; "rmtwnd", zi k.rmt_wnd; "cwnd", zi k.cwnd; "incr", zi k.incr;
    "probe", zi k.probe; "tsprobe", zi k.ts_probe; "probewait", zi k.probe_wait; "interval", zi k.interval;
    "tsflush", zi k.ts_flush; "nodelay", zi k.nodelay; "updated", zi k.updated; "deadlink", zi k.dead_link;
    "fastresend", zi k.fastresend; "nocwnd", zi k.nocwnd; "stream", zi k.stream; "buflen", zi k.buflen;
    "sq", join "," (fun s -> zi s.s_frg ^ ":" ^ string_of_int (List.length s.s_data)) k.snd_queue;
    "sb", join "," (fun s -> String.concat ":" [zi s.s_sn; zi s.s_frg; zi s.s_xmit; zi s.s_fastack; zi s.s_resendts;
                                                 zi s.s_rto; zi s.s_acked; zi s.s_ts; zi s.s_wnd; zi s.s_una;
                                                 string_of_int (List.length s.s_data)]) k.snd_buf;
    "rq", join "," (fun s -> zi s.s_sn ^ ":" ^ zi s.s_frg ^ ":" ^ string_of_int (List.length s.s_data)) k.rcv_queue;
    "rb", join "," (fun s -> zi s.s_sn ^ ":" ^ zi s.s_frg ^ ":" ^ string_of_int (List.length s.s_data)) k.rcv_buf;
    "al", join "," (fun (a, b) -> zi a ^ ":" ^ zi b) k.acklist ]

let with_cfg (k : kcp) toks stream =
  let g name = zs (List.assoc name toks) in
  let k = set_stream k (z_of_int stream) in
  let k = set_wndsize k (z_of_int (g "snd")) (z_of_int (g "rcv")) in
  let k = set_nodelay k (z_of_int (g "nodelay")) (z_of_int (g "interval")) (z_of_int (g "resend")) (z_of_int (g "nc")) in
  let (k, r) = set_mtu k (z_of_int (g "mtu")) in
  if int_of_z r <> 0 then failwith "cfg: mtu refused by the model";
  set_seq k (z_of_int (g "isn")) (z_of_int (g "isn")) (z_of_int (g "peerisn"))

let split_on_bar toks =
  let rec go cur acc = function
    | [] -> List.rev (List.rev cur :: acc)
    | "|" :: t -> go [] (List.rev cur :: acc) t
    | x :: t -> go (x :: cur) acc t in
  go [] [] toks

let () =
  let ic = open_in Sys.argv.(1) in
  let maxshow = 25 in
  let cases = ref 0 and steps = ref 0 and mism = ref 0 and states = ref 0 and panics = ref 0 in
  let k = [| kcp_new Z0; kcp_new Z0 |] in
  (* ms the output callback of endpoint e blocks per datagram (op "tx"); 0 = instantaneous: the plain
     flush/input/update are run, > 0: flush_t/input_t/update_t (FlushT.v; equal at 0 by c18c_*_zero) *)
  let tx = [| 0; 0 |] in
  let bad = ref false and stepno = ref 0 and last_op = ref "" in
  let field_hist : (string, int) Hashtbl.t = Hashtbl.create 16 in
  let report fields impl model =
    if not !bad then begin
      bad := true; incr mism;
      List.iter (fun f -> Hashtbl.replace field_hist f (1 + try Hashtbl.find field_hist f with Not_found -> 0)) fields;
      if !mism <= maxshow then
        Printf.printf "MISMATCH case=%d step=%d fields=%s op=[%s] impl=[%s] model=[%s]\n" !cases !stepno
          (String.concat "," fields)
          (if String.length !last_op > 160 then String.sub !last_op 0 160 ^ "..." else !last_op)
          (if String.length impl > 300 then String.sub impl 0 300 ^ "..." else impl)
          (if String.length model > 300 then String.sub model 0 300 ^ "..." else model)
    end in
  let outs_str o = string_of_int (List.length o) ^ (String.concat "" (List.map (fun d -> " " ^ hex_of_bytes d) o)) in
  (try
     while true do
       let line = input_line ic in
       let toks = String.split_on_char ' ' line in
       match toks with
       | "cfg" :: rest ->
           incr cases; bad := false; stepno := 0;
           (match split_on_bar rest with
            | [g; a; b] ->
                let g = List.map kv g and a = List.map kv a and b = List.map kv b in
                let conv = z_of_int (zs (List.assoc "conv" g)) and stream = zs (List.assoc "stream" g) in
                tx.(0) <- 0; tx.(1) <- 0;
                k.(0) <- with_cfg (kcp_new conv) a stream;
                k.(1) <- with_cfg (kcp_new conv) b stream
            | _ -> failwith "bad cfg line")
       | "end" :: _ -> ()
       | _ when !bad -> ()
       | "st" :: e :: rest ->
           incr states;
           let e = zs e in
           let impl = List.map kv rest in
           let model = projection k.(e) in
           let diff = List.filter_map (fun (n, v) ->
               match List.assoc_opt n impl with
               | Some v' when v' = v -> None
               | _ -> Some n) model in
           if diff <> [] then
             report diff
               (String.concat " " (List.map (fun n -> n ^ "=" ^ (try List.assoc n impl with Not_found -> "?")) diff))
               (String.concat " " (List.map (fun n -> n ^ "=" ^ List.assoc n model) diff))
       | op :: e :: now :: args ->
           incr steps; incr stepno; last_op := line;
           let e = zs e and now = z_of_int (zs now) in
           (* args ... "=" results ... *)
           let rec split a acc = match a with
             | "=" :: r -> (List.rev acc, r) | x :: r -> split r (x :: acc) | [] -> (List.rev acc, []) in
           let (args, results) = split args [] in
           let impl = String.concat " " results in
           let a i = List.nth args i in
           let is_panic = (results = ["P"]) in
           if is_panic then incr panics;
           let cmp_res opname (r : (kcp * string) res) =
             match r with
             | Panic w -> if not is_panic then report [opname ^ "-panic"] impl ("P" ^ zi w)
             | Ok (k', s) ->
                 if is_panic then report [opname ^ "-panic"] impl s
                 else begin k.(e) <- k'; if s <> impl then report [opname ^ "-result"] impl s end in
           (match op with
            | "send" ->
                cmp_res "send" (match send k.(e) (bytes_of_hex (a 0)) with
                    | Ok (k', r) -> Ok (k', zi r) | Panic w -> Panic w)
            | "recv" ->
                let ((k', n), d) = recv k.(e) (z_of_int (zs (a 0))) in
                cmp_res "recv" (Ok (k', zi n ^ " " ^ hex_of_bytes d))
            | "input" ->
                cmp_res "input" (match (if tx.(e) = 0 then input k.(e) (bytes_of_hex (a 2)) (a 0 = "1") (a 1 = "1") now
                                        else input_t k.(e) (bytes_of_hex (a 2)) (a 0 = "1") (a 1 = "1") now (z_of_int tx.(e))) with
                    | Ok ((k', r), o) -> Ok (k', zi r ^ " " ^ outs_str o) | Panic w -> Panic w)
            | "flush" ->
                cmp_res "flush" (match (if tx.(e) = 0 then flush k.(e) (z_of_int (zs (a 0))) now
                                        else flush_t k.(e) (z_of_int (zs (a 0))) now (z_of_int tx.(e))) with
                    | Ok ((k', nx), o) -> Ok (k', zi nx ^ " " ^ outs_str o) | Panic w -> Panic w)
            | "update" ->
                cmp_res "update" (match (if tx.(e) = 0 then update k.(e) now else update_t k.(e) now (z_of_int tx.(e))) with
                    | Ok (k', o) -> Ok (k', outs_str o) | Panic w -> Panic w)
            | "check" ->
                let r = zi (check k.(e) now) in
                if r <> impl then report ["check-result"] impl r
            | "setmtu" ->
                let (k', r) = set_mtu k.(e) (z_of_int (zs (a 0))) in
                cmp_res "setmtu" (Ok (k', zi r))
            | "nodelay" ->
                k.(e) <- set_nodelay k.(e) (z_of_int (zs (a 0))) (z_of_int (zs (a 1))) (z_of_int (zs (a 2))) (z_of_int (zs (a 3)))
            | "tx" -> tx.(e) <- zs (a 0)
            | "wnd" ->
                k.(e) <- set_wndsize k.(e) (z_of_int (zs (a 0))) (z_of_int (zs (a 1)))
            | _ -> failwith ("bad op: " ^ op))
       | _ -> ()
     done
   with End_of_file -> ());
  Hashtbl.iter (fun f n -> Printf.printf "FIELD %s %d\n" f n) field_hist;
  Printf.printf "SUMMARY cases=%d steps=%d states=%d panics=%d mismatches=%d\n" !cases !steps !states !panics !mism
