(* Replays a C07 / C16 op log (harness/fec_test.go) on the extracted Coq model of fec.go and
   autotune.go (coq/fec/Fec.v, AutoTune.v) instantiated with the independent Reed-Solomon codec of
   coq/fec/Rs.v, and reports per case the first step whose result (every returned packet, byte
   for byte) or state projection differs from what the real fecEncoder / fecDecoder / autoTune did.
   The codec constructor handed to the model memoises `rs_codec d p` per (d, p) (the Go code keeps
   the codec in the decoder / encoder; the model takes the constructor). *)
open Fec_model

let rec pos_of_int n =
  if n = 1 then XH else if n land 1 = 0 then XO (pos_of_int (n lsr 1)) else XI (pos_of_int (n lsr 1))
let z_of_int n = if n = 0 then Z0 else if n > 0 then Zpos (pos_of_int n) else Zneg (pos_of_int (- n))
let rec int_of_pos = function XH -> 1 | XO p -> 2 * int_of_pos p | XI p -> 2 * int_of_pos p + 1
let int_of_z = function Z0 -> 0 | Zpos p -> int_of_pos p | Zneg p -> - (int_of_pos p)
let ztab = Array.init 256 z_of_int
let zs s = z_of_int (int_of_string s)

let hexval c = match c with '0'..'9' -> Char.code c - 48 | 'a'..'f' -> Char.code c - 87 | _ -> failwith "hex"
let bytes_of_hex s =
  if s = "-" then [] else begin
    let n = String.length s / 2 in
    let rec go i acc = if i < 0 then acc else go (i - 1) (ztab.(hexval s.[2*i] * 16 + hexval s.[2*i+1]) :: acc) in
    go (n - 1) [] end
let hexdig = "0123456789abcdef"
let hex_of_bytes l =
  match l with [] -> "-" | _ ->
    let b = Buffer.create 64 in
    List.iter (fun z -> let v = int_of_z z in
                Buffer.add_char b hexdig.[(v lsr 4) land 15]; Buffer.add_char b hexdig.[v land 15]) l;
    Buffer.contents b
let hexlist l = String.concat " " (string_of_int (List.length l) :: List.map hex_of_bytes l)

let codecs : (int * int, codec) Hashtbl.t = Hashtbl.create 16
let mk d p =
  let key = (int_of_z d, int_of_z p) in
  match Hashtbl.find_opt codecs key with
  | Some c -> c
  | None -> let c = rs_codec d p in Hashtbl.add codecs key c; c

let tune_hash (t : autotune) =
  let arr = Array.of_list t.at_pulses in
  let head = int_of_z t.at_head and count = int_of_z t.at_count in
  let h = ref 0 in
  for i = 0 to count - 1 do
    let p = arr.((head + i) mod 258) in
    h := (!h * 131 + int_of_z p.p_seq * 2 + (if p.p_bit then 1 else 0)) mod 1000000007
  done; !h

let dec_state (d : fecdec) =
  let zi z = string_of_int (int_of_z z) in
  let sets = List.sort (fun (a, _) (b, _) -> compare a b)
      (List.map (fun (id, es) -> (int_of_z id, List.sort compare (List.map (fun e -> int_of_z (pk_seqid e)) es))) d.d_sets) in
  let set_s (id, seqs) =
    Printf.sprintf "%d:%s" id (if seqs = [] then "-" else String.concat "," (List.map string_of_int seqs)) in
  Printf.sprintf "%s %s %s %s %s %d | %s | %s %s %s %d"
    (zi d.d_data) (zi d.d_parity) (zi d.d_size) (zi d.d_paws) (zi d.d_newest) (if d.d_should then 1 else 0)
    (String.concat " " (string_of_int (List.length sets) :: List.map set_s sets))
    (zi d.d_at.at_head) (zi d.d_at.at_tail) (zi d.d_at.at_count) (tune_hash d.d_at)

let after_gt line =
  match String.index_opt line '>' with
  | Some i -> String.sub line (i + 2) (String.length line - i - 2)
  | None -> ""

let () =
  let ic = open_in Sys.argv.(1) in
  let cases = ref 0 and steps = ref 0 and mism = ref 0 and complete = ref false in
  let case_line = ref "" and stepno = ref 0 and bad = ref false in
  let enc = ref None and dec = ref None and tune = ref at_init in
  let kinds : (string, int) Hashtbl.t = Hashtbl.create 8 in
  let report what impl model =
    if not !bad then begin
      bad := true; incr mism;
      if !mism <= 20 then
        Printf.printf "MISMATCH case=[%s] step=%d what=%s impl=[%s] model=[%s]\n" !case_line !stepno what
          (if String.length impl > 600 then String.sub impl 0 600 ^ "..." else impl)
          (if String.length model > 600 then String.sub model 0 600 ^ "..." else model)
    end in
  let count k = Hashtbl.replace kinds k (1 + try Hashtbl.find kinds k with Not_found -> 0) in
  (try
     while true do
       let line = input_line ic in
       let toks = String.split_on_char ' ' line in
       match toks with
       | "C" :: _ -> incr cases; case_line := line; stepno := 0; bad := false
       | "X" :: _ -> complete := true
       | [ "E"; d; p; hoff; next ] ->
           enc := enc_at (zs d) (zs p) (zs hoff) (zs next);
           if !enc = None then report "newFECEncoder" line "None"
       | [ "D"; d; p ] ->
           dec := dec_new (zs d) (zs p);
           if !dec = None then report "newFECDecoder" line "None"
       | [ "T" ] -> tune := at_init
       | op :: args when not !bad ->
           incr steps; incr stepno; count op;
           (match op with
            | "e" ->
                (match !enc, args with
                 | Some e, buf :: now :: rto :: _ ->
                     (match enc_encode mk e (bytes_of_hex buf) (zs now) (zs rto) with
                      | Ok ((e', data), par) ->
                          enc := Some e';
                          let got = Printf.sprintf "%s %s | %d %d %d" (hex_of_bytes data) (hexlist par)
                              (int_of_z e'.e_next) (int_of_z e'.e_count) (int_of_z e'.e_max) in
                          if got <> after_gt line then report "encode" (after_gt line) got
                      | Panic w -> report "encode" (after_gt line) ("panic " ^ string_of_int (int_of_z w)))
                 | _ -> failwith ("bad e line: " ^ line))
            | "o" ->
                (match enc_oob (bytes_of_hex (List.hd args)) with
                 | Ok pkt -> if hex_of_bytes pkt <> after_gt line then report "encodeOOB" (after_gt line) (hex_of_bytes pkt)
                 | Panic _ -> if after_gt line <> "panic" then report "encodeOOB" (after_gt line) "panic")
            | "d" ->
                (match !dec with
                 | Some d ->
                     (match dec_decode mk d (bytes_of_hex (List.hd args)) with
                      | Ok (d', rec_) ->
                          dec := Some d';
                          let got = Printf.sprintf "%s | %s" (hexlist rec_) (dec_state d') in
                          if got <> after_gt line then report "decode" (after_gt line) got
                      | Panic w ->
                          if after_gt line <> "panic" then report "decode" (after_gt line) ("panic " ^ string_of_int (int_of_z w)))
                 | None -> failwith "d without decoder")
            | "s" ->
                (match args with
                 | [ bit; seq ] -> tune := at_sample !tune (bit = "1") (zs seq)
                 | _ -> failwith "bad s line")
            | "f" ->
                let v = int_of_z (find_period !tune (List.hd args = "1")) in
                if string_of_int v <> after_gt line then report "FindPeriod" (after_gt line) (string_of_int v)
            | _ -> failwith ("bad op " ^ line))
       | _ -> ()
     done
   with End_of_file -> ());
  if not !complete then (incr mism; Printf.printf "MISMATCH what=log-truncated (no end marker)\n");
  Printf.printf "SUMMARY cases=%d steps=%d mismatches=%d ops=%s\n" !cases !steps !mism
    (String.concat "," (Hashtbl.fold (fun k v acc -> (k ^ ":" ^ string_of_int v) :: acc) kinds []))
